(* Proofs/MbiRtProofs.v -- C01: re-export stability and parse (export x) = x for the class kinds that are proved
   end to end; stage-inverse lemmas for the others.  Depends on MbiProofs.v. *)
From Coq Require Import ZArith NArith List Bool Lia.
Require Import Value Bytes BytesProofs MbiMixinModel GenMbi MbiModel MbiProofs.
Import ListNotations.
Ltac Zify.zify_post_hook ::= Z.to_euclidean_division_equations.
Local Open Scope Z_scope.

(* ------------------------------------------------------------------ export only sees the application modulo the IVT words *)
Lemma mix_len_set_app x a m : length a = length (m_app x) -> mix_len (set_app x a) m = mix_len x m.
Proof. intros H. destruct m; simpl; try reflexivity. unfold zlen. now rewrite H. Qed.
Lemma mix_app_len_set_app x a m : length a = length (m_app x) -> mix_app_len (set_app x a) m = mix_app_len x m.
Proof. intros H. destruct m; simpl; try reflexivity. unfold zlen. now rewrite H. Qed.
Lemma total_len_set_app c x a : length a = length (m_app x) -> total_len c (set_app x a) = total_len c x.
Proof. intros H. unfold total_len. f_equal. apply map_ext. intros m. now apply mix_len_set_app. Qed.
Lemma app_len_set_app c x a : length a = length (m_app x) -> app_len c (set_app x a) = app_len c x.
Proof. intros H. unfold app_len. f_equal. apply map_ext. intros m. now apply mix_app_len_set_app. Qed.
Lemma total_len_for_cert_set_app c x a : length a = length (m_app x) -> total_len_for_cert c (set_app x a) = total_len_for_cert c x.
Proof. intros H. unfold total_len_for_cert. f_equal. apply map_ext. intros m. destruct (legacy_len m); [now apply mix_len_set_app|reflexivity]. Qed.

Lemma rd32_clean_low o app : (56 <= length app)%nat -> (o + 4 <= 32)%nat -> rd32 o (clean_ivt app) = rd32 o app.
Proof.
  intros L H. unfold rd32. f_equal. f_equal. apply firstn_skipn_nth_eq.
  - now apply clean_ivt_length.
  - intros i Hi. rewrite nth_clean_ivt by assumption.
    replace (32 <=? i)%nat with false by (symmetry; apply Nat.leb_gt; lia).
    replace (52 <=? i)%nat with false by (symmetry; apply Nat.leb_gt; lia). reflexivity.
Qed.

Lemma update_ivt_set_app c x a app total cc : update_ivt c (set_app x a) app total cc = update_ivt c x app total cc.
Proof. reflexivity. Qed.

Lemma validate_in_set_app c x l :
  (56 <= length (m_app x))%nat -> validate_in c (set_app x (clean_ivt (m_app x))) l = validate_in c x l.
Proof.
  intros L. induction l as [|m l IH]; [reflexivity|]. simpl. rewrite IH.
  assert (E : mix_validate c (set_app x (clean_ivt (m_app x))) m = mix_validate c x m); [|now rewrite E].
  destruct m; try reflexivity. simpl.
  rewrite clean_ivt_length by assumption. rewrite !rd32_clean_low by (assumption || lia). reflexivity.
Qed.

Lemma nonempty_clean app : (56 <= length app)%nat -> exists b t, clean_ivt app = b :: t.
Proof.
  intros L. pose proof (clean_ivt_length app L) as H. destruct (clean_ivt app) as [|b t]; [simpl in H; lia|eauto].
Qed.

Lemma collect_set_app c x :
  (56 <= length (m_app x))%nat -> has_attr c AIvtTable = true ->
  collect c (set_app x (clean_ivt (m_app x))) = collect c x.
Proof.
  intros L HI. pose proof (clean_ivt_length _ L) as CL.
  destruct (nonempty_clean _ L) as (b & t & Eb).
  assert (Ea : exists b' t', m_app x = b' :: t') by (destruct (m_app x) as [|b' t']; [simpl in L; lia|eauto]).
  destruct Ea as (b' & t' & Ea).
  unfold collect.
  destruct (provider c SCollect) as [[]|]; try reflexivity.
  - unfold collect_app. simpl m_app. rewrite Eb, Ea, <- Eb, <- Ea. rewrite HI.
    rewrite update_ivt_set_app, total_len_set_app, update_clean by assumption. reflexivity.
  - unfold collect_app. simpl m_app. rewrite Eb, Ea, <- Eb, <- Ea. rewrite HI.
    rewrite update_ivt_set_app, total_len_set_app, update_clean by assumption. reflexivity.
  - simpl m_app. simpl m_cert. rewrite Eb, Ea, <- Eb, <- Ea.
    destruct (m_cert x) as [[pre post sg|]|]; try reflexivity.
    rewrite total_len_for_cert_set_app, update_ivt_set_app, total_len_set_app, app_len_set_app, update_clean by assumption.
    reflexivity.
  - simpl m_app. simpl m_cert. rewrite Eb, Ea, <- Eb, <- Ea.
    destruct (m_cert x) as [cb|]; try reflexivity.
    rewrite update_ivt_set_app, total_len_set_app, app_len_set_app, update_clean by assumption. reflexivity.
  - simpl m_app. simpl m_cert. rewrite Eb, Ea, <- Eb, <- Ea.
    destruct (m_cert x) as [[pre post sg|]|]; try reflexivity.
    rewrite update_ivt_set_app, total_len_set_app, app_len_set_app, update_clean by assumption. reflexivity.
Qed.

Lemma post_encrypt_set_app c x a im : length a = length (m_app x) -> post_encrypt c (set_app x a) im = post_encrypt c x im.
Proof.
  intros H. unfold post_encrypt. destruct (provider c SPostEncrypt) as [[]|]; try reflexivity.
  simpl m_cert. destruct (m_cert x) as [[pre post sg|]|]; try reflexivity.
  rewrite update_ivt_set_app, total_len_set_app, app_len_set_app by assumption. reflexivity.
Qed.

Lemma hmac_insert_between_set_app x a hm im off b : hmac_insert_between (set_app x a) hm im off b = hmac_insert_between x hm im off b.
Proof. revert off b; induction im as [|s t IH]; intros off b; simpl; [reflexivity|]. now rewrite IH. Qed.
Lemma hmac_insert_split_set_app x a hm im off : hmac_insert_split (set_app x a) hm im off = hmac_insert_split x hm im off.
Proof. revert off; induction im as [|s t IH]; intros off; simpl; [reflexivity|]. now rewrite IH. Qed.
Lemma finalize_set_app k c x a im dts : length a = length (m_app x) -> finalize k c (set_app x a) im dts = finalize k c x im dts.
Proof.
  intros H. unfold finalize. destruct (provider c SFinalize) as [[]|]; try reflexivity.
  simpl m_hmac. now rewrite app_len_set_app, hmac_insert_between_set_app, hmac_insert_split_set_app.
Qed.

(* re-exporting the parsed application (IVT words zeroed) gives the same image, for EVERY class with an IVT *)
Lemma export_clean_app k c x :
  (56 <= length (m_app x))%nat -> has_attr c AIvtTable = true ->
  export_mbi k c (set_app x (clean_ivt (m_app x))) = export_mbi k c x.
Proof.
  intros L HI. unfold export_mbi, export_image. destruct (negb (supported c)); [reflexivity|].
  unfold validate. rewrite validate_in_set_app by assumption.
  destruct (validate_in c x (c_mixins c)) as [[]|]; simpl; [|reflexivity].
  rewrite collect_set_app by assumption.
  destruct (collect c x) as [raw|]; simpl; [|reflexivity].
  change (encrypt k c (set_app x (clean_ivt (m_app x))) raw) with (encrypt k c x raw).
  destruct (encrypt k c x raw) as [enc|]; simpl; [|reflexivity].
  rewrite post_encrypt_set_app by (now apply clean_ivt_length).
  destruct (post_encrypt c x enc) as [enc2|]; simpl; [|reflexivity].
  change (sign k c (set_app x (clean_ivt (m_app x))) enc2) with (sign k c x enc2).
  destruct (sign k c x enc2) as [sg|]; simpl; [|reflexivity].
  now rewrite finalize_set_app by (now apply clean_ivt_length).
Qed.



(* ------------------------------------------------------------------ byte lemmas *)
Lemma rd32_app o (a b : list N) : (o + 4 <= length a)%nat -> rd32 o (a ++ b) = rd32 o a.
Proof.
  intros H. unfold rd32. f_equal. f_equal. rewrite skipn_app. replace (o - length a)%nat with 0%nat by lia.
  rewrite firstn_app. rewrite skipn_length. replace (4 - (length a - o))%nat with 0%nat by lia.
  simpl. now rewrite app_nil_r.
Qed.

Lemma take_last_app (a b : list N) : take_last (length b) (a ++ b) = b.
Proof.
  unfold take_last. rewrite app_length. replace (length a + length b - length b)%nat with (length a) by lia.
  rewrite skipn_app, skipn_all, Nat.sub_diag. reflexivity.
Qed.

Lemma drop_last_app (a b : list N) : drop_last (length b) (a ++ b) = a.
Proof.
  unfold drop_last. rewrite app_length. replace (length a + length b - length b)%nat with (length a) by lia.
  rewrite firstn_app, firstn_all, Nat.sub_diag. simpl. apply app_nil_r.
Qed.

Lemma pad4_id (d : list N) : (length d mod 4 = 0)%nat -> pad4 d = d.
Proof. intros H. unfold pad4. rewrite H. simpl. apply app_nil_r. Qed.

Lemma clean_wr_crc w d : length w = 4%nat -> (56 <= length d)%nat -> clean_ivt (wr OFF_CRC w d) = clean_ivt d.
Proof.
  intros Hw L. rewrite off_crc_eq. assert (Lw : length (wr 40 w d) = length d) by (apply wr_length; lia).
  apply list_eq_nth; [rewrite !clean_ivt_length; lia|].
  intros i _. rewrite !nth_clean_ivt by lia. rewrite nth_wr by lia. rewrite Hw.
  destruct (32 <=? i)%nat eqn:B1; destruct (i <? 44)%nat eqn:B2; destruct (52 <=? i)%nat eqn:B3; destruct (i <? 56)%nat eqn:B4;
    simpl; try reflexivity;
    repeat match goal with H : (_ <=? _)%nat = true |- _ => apply Nat.leb_le in H
                        | H : (_ <=? _)%nat = false |- _ => apply Nat.leb_gt in H
                        | H : (_ <? _)%nat = true |- _ => apply Nat.ltb_lt in H
                        | H : (_ <? _)%nat = false |- _ => apply Nat.ltb_ge in H end;
    decide_ltb; try reflexivity; lia.
Qed.


Lemma flat_cons (a : list N) t : flat (a :: t) = a ++ flat t.
Proof. reflexivity. Qed.
Lemma flat_app (a b : image) : flat (a ++ b) = flat a ++ flat b.
Proof. apply concat_app. Qed.
Lemma flat_tz_segment x : flat (tz_segment x) = tz_export (m_tz x).
Proof. unfold tz_segment, flat. destruct (tz_export (m_tz x)); simpl; [reflexivity|now rewrite app_nil_r]. Qed.

Lemma has_in c m : has c m = true -> In m (c_mixins c).
Proof.
  unfold has. intros H. apply existsb_exists in H as (m' & Hi & He). unfold mixin_eqb in He. apply Z.eqb_eq in He.
  assert (m = m') by (destruct m, m'; try reflexivity; discriminate He). now subst.
Qed.




Lemma crc_write_head s t w : (40 <= length s)%nat -> crc_write (s :: t) 0 w = Some (wr OFF_CRC w s :: t).
Proof.
  intros H. cbn [crc_write]. replace (Nat.leb 0 OFF_CRC && Nat.leb OFF_CRC (0 + length s)) with true
    by (symmetry; rewrite off_crc_eq; apply andb_true_iff; split; apply Nat.leb_le; lia).
  now rewrite Nat.sub_0_r.
Qed.


(* ================================================================== generic part of parse (export x) = x
   1. every mix_parse sets its own field(s): [upd];  2. the PRE_PARSED loop parses every mixin exactly once, cert-dependent
   ones after the certificate block;  3. so the parsed object is determined field by field by the mixins present. *)
Definition gives (a : attr) (m : mixin) : bool := existsb (attr_eqb a) (mixin_attrs m).
Lemma has_attr_gives c a : has_attr c a = existsb (gives a) (c_mixins c).
Proof. reflexivity. Qed.
Definition hasl (l : list mixin) (m : mixin) : bool := existsb (mixin_eqb m) l.

Definition is_cert_mixin (m : mixin) : bool := match m with MixinCertBlockV1 | MixinCertBlockV21 => true | _ => false end.
Definition is_manifest_mixin (m : mixin) : bool := match m with MixinManifestCrc | MixinManifestDigest => true | _ => false end.
Definition is_tz_giver (m : mixin) : bool :=
  match m with MixinTrustZone | MixinTrustZoneMandatory | MixinManifestCrc | MixinManifestDigest => true | _ => false end.
Definition is_hmac_mixin (m : mixin) : bool := match m with MixinHmac | MixinHmacMandatory => true | _ => false end.

(* mixins of the supported (non BCA/FCF) classes *)
Definition allowed (m : mixin) : bool := negb (unsupported_mixin m).

Definition upd (x : mbi) (dek : option (list N)) (m : mixin) (st : mbi) : mbi :=
  match m with
  | MixinTrustZone | MixinTrustZoneMandatory => set_tz st (m_tz x)
  | MixinLoadAddress | MixinLoadAddressOptional => set_load st (m_load x)
  | MixinImageVersion => set_imgver st (m_imgver x)
  | MixinImageSubType => set_subtype st (m_subtype x)
  | MixinHwKey => set_hwkey st (m_hwkey x)
  | MixinManifestCrc | MixinManifestDigest => set_manifest st (m_fwver x) (m_tz x) (m_digest x)
  | MixinCertBlockV1 | MixinCertBlockV21 => set_cert st (m_cert x)
  | MixinKeyStore => set_ks st (m_ks x)
  | MixinHmac | MixinHmacMandatory => match dek with Some kb => set_hmac st (Some kb) | None => st end
  | MixinCtrInitVector => set_iv st (m_iv x)
  | _ => st
  end.

Lemma mbi_ext (a b : mbi) :
  m_app a = m_app b -> m_load a = m_load b -> m_imgver a = m_imgver b -> m_subtype a = m_subtype b ->
  m_fwver a = m_fwver b -> m_tz a = m_tz b -> m_hwkey a = m_hwkey b -> m_ks a = m_ks b -> m_hmac a = m_hmac b ->
  m_iv a = m_iv b -> m_table a = m_table b -> m_cert a = m_cert b -> m_digest a = m_digest b -> a = b.
Proof. destruct a, b; simpl; intros; subst; reflexivity. Qed.

Lemma fold_upd_fields x dek l : forall st,
  let st' := fold_left (fun s m => upd x dek m s) l st in
  m_app st' = m_app st /\ m_table st' = m_table st /\
  m_load st' = (if existsb (gives ALoadAddress) l then m_load x else m_load st) /\
  m_imgver st' = (if existsb (gives AImageVersion) l then m_imgver x else m_imgver st) /\
  m_subtype st' = (if existsb (gives AImageSubtype) l then m_subtype x else m_subtype st) /\
  m_hwkey st' = (if existsb (gives AHwKey) l then m_hwkey x else m_hwkey st) /\
  m_tz st' = (if existsb is_tz_giver l then m_tz x else m_tz st) /\
  m_fwver st' = (if existsb is_manifest_mixin l then m_fwver x else m_fwver st) /\
  m_digest st' = (if existsb is_manifest_mixin l then m_digest x else m_digest st) /\
  m_cert st' = (if existsb is_cert_mixin l then m_cert x else m_cert st) /\
  m_ks st' = (if existsb (gives AKeyStore) l then m_ks x else m_ks st) /\
  m_iv st' = (if existsb (gives ACtrIv) l then m_iv x else m_iv st) /\
  m_hmac st' = (if existsb is_hmac_mixin l then (match dek with Some kb => Some kb | None => m_hmac st end) else m_hmac st).
Proof.
  induction l as [|m l IH]; intros st; simpl; [repeat split; reflexivity|].
  specialize (IH (upd x dek m st)). simpl in IH.
  destruct IH as (I1 & I2 & I3 & I4 & I5 & I6 & I7 & I8 & I9 & I10 & I11 & I12 & I13).
  rewrite I1, I2, I3, I4, I5, I6, I7, I8, I9, I10, I11, I12, I13.
  destruct m; simpl; repeat split; try reflexivity;
    repeat match goal with |- context [if ?b then _ else _] => destruct b end; try reflexivity;
    destruct dek; reflexivity.
Qed.

Definition waits (c : mbi_class) (m : mixin) (st : mbi) : bool :=
  pre_parsed_cert m && has_attr c ACertBlock && (match m_cert st with None => true | Some _ => false end).
Definition cert_inv (x st : mbi) : Prop := m_cert st = None \/ m_cert st = m_cert x.
(* what the class-kind specific part has to establish for every mixin of the class *)
Definition parse_ok (c : mbi_class) (x : mbi) (dek : option (list N)) (tzsize sigsz : nat) (data : list N) (l : list mixin) : Prop :=
  forall m, In m l -> forall st, cert_inv x st -> waits c m st = false ->
    mix_parse c tzsize sigsz dek data m st = Ok (upd x dek m st).

Lemma upd_cert x dek m st : m_cert (upd x dek m st) = if is_cert_mixin m then m_cert x else m_cert st.
Proof. destruct m; try reflexivity; simpl; destruct dek; reflexivity. Qed.
Lemma upd_inv x dek m st : cert_inv x st -> cert_inv x (upd x dek m st).
Proof. unfold cert_inv. rewrite upd_cert. destruct (is_cert_mixin m); auto. Qed.
Lemma pre_parsed_not_cert m : pre_parsed_cert m = true -> is_cert_mixin m = false.
Proof. destruct m; simpl; congruence. Qed.

Lemma parse_round_gen c x dek tzsize sigsz data l : forall st,
  cert_inv x st -> parse_ok c x dek tzsize sigsz data l ->
  exists l1 l2,
    parse_round c tzsize sigsz dek data l st = Ok (fold_left (fun s m => upd x dek m s) l1 st, l2) /\
    (forall g, existsb g l = existsb g l1 || existsb g l2) /\
    length l = (length l1 + length l2)%nat /\
    (forall m, In m l2 -> In m l) /\ (forall m, In m l1 -> In m l) /\
    (l2 <> [] -> has_attr c ACertBlock = true) /\ existsb is_cert_mixin l2 = false.
Proof.
  induction l as [|m t IH]; intros st Inv H.
  - exists [], []. repeat split; try reflexivity; try (intros; contradiction).
  - assert (Ht : parse_ok c x dek tzsize sigsz data t) by (intros m' Hm'; apply H; now right).
    cbn [parse_round]. fold (waits c m st). destruct (waits c m st) eqn:W.
    + destruct (IH st Inv Ht) as (l1 & l2 & E & G & Len & I2 & I1 & HC & NC). rewrite E. cbn [bind fst snd].
      exists l1, (m :: l2). unfold waits in W. apply andb_true_iff in W as [W W3]. apply andb_true_iff in W as [W1 W2].
      repeat split.
      * intros g. cbn [existsb]. rewrite G. destruct (g m), (existsb g l1), (existsb g l2); reflexivity.
      * cbn [length]. lia.
      * intros m' [->|Hm']; [now left | right; now apply I2].
      * intros m' Hm'. right. now apply I1.
      * intros _. exact W2.
      * cbn [existsb]. now rewrite (pre_parsed_not_cert m W1), NC.
    + rewrite (H m (or_introl eq_refl) st Inv W). cbn [bind].
      destruct (IH (upd x dek m st) (upd_inv x dek m st Inv) Ht) as (l1 & l2 & E & G & Len & I2 & I1 & HC & NC). rewrite E.
      exists (m :: l1), l2. repeat split; try assumption.
      * intros g. cbn [existsb]. rewrite G. now rewrite orb_assoc.
      * cbn [length]. lia.
      * intros m' Hm'. right. now apply I2.
      * intros m' [->|Hm']; [now left | right; now apply I1].
Qed.

Lemma parse_round_nowait c x dek tzsize sigsz data l : forall st,
  (exists cb, m_cert st = Some cb) -> cert_inv x st -> parse_ok c x dek tzsize sigsz data l ->
  parse_round c tzsize sigsz dek data l st = Ok (fold_left (fun s m => upd x dek m s) l st, []).
Proof.
  induction l as [|m t IH]; intros st (cb & Hc) Inv H; [reflexivity|].
  assert (Ht : parse_ok c x dek tzsize sigsz data t) by (intros m' Hm'; apply H; now right).
  assert (W : waits c m st = false) by (unfold waits; rewrite Hc; apply andb_false_r).
  cbn [parse_round]. fold (waits c m st). rewrite W. rewrite (H m (or_introl eq_refl) st Inv W). cbn [bind fold_left].
  apply IH; [|now apply upd_inv|assumption].
  rewrite upd_cert. destruct (is_cert_mixin m); [|eauto].
  destruct Inv as [N|E]; [congruence|]. rewrite <- E. eauto.
Qed.

Lemma existsb_app' {A} (g : A -> bool) l1 l2 : existsb g (l1 ++ l2) = existsb g l1 || existsb g l2.
Proof. apply existsb_app. Qed.

Lemma parse_rounds_nil fuel c tzsize sigsz dek data st : parse_rounds fuel c tzsize sigsz dek data [] st = Ok st.
Proof. destruct fuel; reflexivity. Qed.
Lemma parse_rounds_step f c tzsize sigsz dek data l st : l <> [] ->
  parse_rounds (S f) c tzsize sigsz dek data l st =
  bind (parse_round c tzsize sigsz dek data l st) (fun r =>
    if Nat.eqb (length (snd r)) (length l) then Err E_REJECT else parse_rounds f c tzsize sigsz dek data (snd r) (fst r)).
Proof. destruct l; [congruence | reflexivity]. Qed.

(* the whole PRE_PARSED loop *)
Theorem parse_rounds_gen c x dek tzsize sigsz data :
  c_mixins c <> [] -> parse_ok c x dek tzsize sigsz data (c_mixins c) ->
  (has_attr c ACertBlock = true -> existsb is_cert_mixin (c_mixins c) = true /\ exists cb, m_cert x = Some cb) ->
  exists l', parse_rounds (S (length (c_mixins c))) c tzsize sigsz dek data (c_mixins c) mbi_default
             = Ok (fold_left (fun s m => upd x dek m s) l' mbi_default) /\
             (forall g, existsb g l' = existsb g (c_mixins c)).
Proof.
  intros NE H HC. set (l := c_mixins c) in *.
  assert (Inv0 : cert_inv x mbi_default) by (left; reflexivity).
  destruct (parse_round_gen c x dek tzsize sigsz data l mbi_default Inv0 H) as (l1 & l2 & E & G & Len & I2 & I1 & HC2 & NC).
  rewrite parse_rounds_step by assumption. rewrite E. cbn [bind fst snd].
  assert (Lpos : (1 <= length l)%nat) by (destruct l; [contradiction | simpl; lia]).
  destruct l2 as [|m2 t2].
  - replace (Nat.eqb (length (@nil mixin)) (length l)) with false by (symmetry; apply Nat.eqb_neq; simpl; lia).
    rewrite parse_rounds_nil. exists l1. split; [reflexivity|]. intros g. rewrite G. cbn. now rewrite orb_false_r.
  - assert (HA : has_attr c ACertBlock = true) by (apply HC2; discriminate).
    destruct (HC HA) as (CM & cb & Hcb).
    assert (C1 : existsb is_cert_mixin l1 = true) by (rewrite G, NC, orb_false_r in CM; exact CM).
    assert (L1 : (1 <= length l1)%nat) by (destruct l1; [discriminate C1 | simpl; lia]).
    replace (Nat.eqb (length (m2 :: t2)) (length l)) with false by (symmetry; apply Nat.eqb_neq; lia).
    set (st1 := fold_left (fun s m => upd x dek m s) l1 mbi_default).
    pose proof (fold_upd_fields x dek l1 mbi_default) as F. cbv zeta in F. fold st1 in F.
    destruct F as (_ & _ & _ & _ & _ & _ & _ & _ & _ & FC & _). rewrite C1 in FC.
    assert (H2 : parse_ok c x dek tzsize sigsz data (m2 :: t2)) by (intros m' Hm'; apply H; now apply I2).
    assert (Inv1 : cert_inv x st1) by (right; exact FC).
    destruct (length l) as [|n] eqn:Ll; [lia|].
    rewrite parse_rounds_step by discriminate.
    rewrite (parse_round_nowait c x dek tzsize sigsz data (m2 :: t2) st1) by (try assumption; exists cb; congruence).
    cbn [bind fst snd]. replace (Nat.eqb (length (@nil mixin)) (length (m2 :: t2))) with false by reflexivity.
    rewrite parse_rounds_nil.
    exists (l1 ++ m2 :: t2). split; [now rewrite fold_left_app|].
    intros g. rewrite existsb_app'. symmetry. apply G.
Qed.

(* ================================================================== relocation table: parse (export) = id *)
Lemma sub_mid (a w b : list N) : sub (a ++ w ++ b) (length a) (length a + length w) = w.
Proof.
  unfold sub, slice. replace (length a + length w - length a)%nat with (length w) by lia.
  rewrite skipn_app, skipn_all, Nat.sub_diag. cbn [app skipn]. rewrite firstn_app, firstn_all, Nat.sub_diag. cbn [firstn]. apply app_nil_r.
Qed.
Lemma sub_mid' (a w b : list N) i j : i = length a -> j = (length a + length w)%nat -> sub (a ++ w ++ b) i j = w.
Proof. intros -> ->. apply sub_mid. Qed.
Lemma rd32_u32 v w rest : u32 v = Ok w -> rd32 0 (w ++ rest) = v.
Proof.
  intros H. pose proof (u32_length _ _ H) as L. apply u32_value in H as [V _].
  unfold rd32. change (skipn 0 (w ++ rest)) with (w ++ rest). rewrite firstn_app.
  replace (4 - length w)%nat with 0%nat by lia. rewrite firstn_O, app_nil_r, firstn_all2 by lia. exact V.
Qed.
Lemma rd32_at (a w rest : list N) v : u32 v = Ok w -> rd32 (length a) (a ++ w ++ rest) = v.
Proof.
  intros H. unfold rd32. rewrite skipn_app, skipn_all, Nat.sub_diag. cbn [app skipn]. fold (rd32 0 (w ++ rest)). now apply rd32_u32.
Qed.
Lemma pad4_length d : exists k, pad4 d = d ++ zeros k.
Proof. unfold pad4. eauto. Qed.
Lemma zlen_app (a b : list N) : zlen (a ++ b) = zlen a + zlen b.
Proof. unfold zlen. rewrite app_length. lia. Qed.
Lemma zlen_nonneg (a : list N) : 0 <= zlen a. Proof. unfold zlen. lia. Qed.

Definition entries_ok (es : list entry) : Prop := Forall (fun e => e_flags e = G_LTI_LOAD) es.

Lemma table_entries_length es src ent : table_entries es src = Ok ent -> length ent = (16 * length es)%nat.
Proof.
  revert src ent; induction es as [|e t IH]; intros src ent H; cbn [table_entries] in H.
  - now inversion H.
  - destruct (u32 src) as [ws|] eqn:E1; cbn [bind] in H; [|discriminate].
    destruct (u32 (e_dst e)) as [wd|] eqn:E2; cbn [bind] in H; [|discriminate].
    destruct (u32 (zlen (e_img e))) as [wl|] eqn:E3; cbn [bind] in H; [|discriminate].
    destruct (u32 (e_flags e)) as [wf|] eqn:E4; cbn [bind] in H; [|discriminate].
    destruct (table_entries t _) as [r|] eqn:E5; cbn [bind] in H; [|discriminate].
    injection H as <-. apply u32_length in E1, E2, E3, E4. apply IH in E5.
    rewrite !app_length, E1, E2, E3, E4, E5. cbn [length]. lia.
Qed.

(* entries k.. of the table, read back from an image  P ++ ENT ++ HDR  where P (length = start) holds the images *)
Lemma entries_parse_ok es : forall src k pre post ent,
  entries_ok es -> table_entries es src = Ok ent ->
  forall Q R data start,
    data = (Q ++ table_images es ++ R) ++ (pre ++ ent ++ post) ->
    zlen Q = src -> zlen (Q ++ table_images es ++ R) = start -> length pre = (16 * k)%nat ->
    entries_parse (length es) k start data =
    Ok ((fix go (l : list entry) (s : Z) : list (entry * Z) :=
           match l with [] => [] | e :: t => (e, s) :: go t (s + zlen (pad4 (e_img e))) end) es src).
Proof.
  induction es as [|e t IH]; intros src k pre post ent OK H Q R data start Hd HQ Hs Hp; [reflexivity|]. subst data start.
  cbn [table_entries] in H.
  destruct (u32 src) as [ws|] eqn:E1; cbn [bind] in H; [|discriminate].
  destruct (u32 (e_dst e)) as [wd|] eqn:E2; cbn [bind] in H; [|discriminate].
  destruct (u32 (zlen (e_img e))) as [wl|] eqn:E3; cbn [bind] in H; [|discriminate].
  destruct (u32 (e_flags e)) as [wf|] eqn:E4; cbn [bind] in H; [|discriminate].
  destruct (table_entries t _) as [r|] eqn:E5; cbn [bind] in H; [|discriminate].
  injection H as <-. apply Forall_cons_iff in OK as [Fe Ft].
  pose proof (u32_length _ _ E1) as L1. pose proof (u32_length _ _ E2) as L2.
  pose proof (u32_length _ _ E3) as L3. pose proof (u32_length _ _ E4) as L4.
  cbn [length entries_parse].
  set (PP := Q ++ table_images (e :: t) ++ R) in *.
  set (E16 := ws ++ wd ++ wl ++ wf).
  assert (SUB : sub (PP ++ pre ++ (ws ++ wd ++ wl ++ wf ++ r) ++ post) (natz (zlen PP) + 16 * k) (natz (zlen PP) + 16 * k + 16) = E16).
  { replace (PP ++ pre ++ (ws ++ wd ++ wl ++ wf ++ r) ++ post) with ((PP ++ pre) ++ E16 ++ (r ++ post))
      by (unfold E16; now rewrite <- !app_assoc).
    apply sub_mid'; unfold natz, zlen; rewrite ?Nat2Z.id, app_length; [lia|]. unfold E16. rewrite !app_length. lia. }
  rewrite SUB. unfold E16.
  assert (V1 : rd32 0 (ws ++ wd ++ wl ++ wf) = src) by (now apply rd32_u32).
  assert (V2 : rd32 4 (ws ++ wd ++ wl ++ wf) = e_dst e) by (rewrite <- L1; now apply rd32_at).
  assert (V3 : rd32 8 (ws ++ wd ++ wl ++ wf) = zlen (e_img e)).
  { replace (ws ++ wd ++ wl ++ wf) with ((ws ++ wd) ++ wl ++ wf) by now rewrite <- app_assoc.
    replace 8%nat with (length (ws ++ wd)) by (rewrite app_length; lia). now apply rd32_at. }
  assert (V4 : rd32 12 (ws ++ wd ++ wl ++ wf) = e_flags e).
  { replace (ws ++ wd ++ wl ++ wf) with ((ws ++ wd ++ wl) ++ wf ++ []) by (now rewrite <- !app_assoc, app_nil_r).
    replace 12%nat with (length (ws ++ wd ++ wl)) by (rewrite !app_length; lia). now apply rd32_at. }
  rewrite V1, V2, V3, V4.
  destruct (pad4_length (e_img e)) as (kz & Pz).
  assert (Lpp : zlen PP = zlen Q + zlen (pad4 (e_img e)) + zlen (table_images t) + zlen R).
  { unfold PP. cbn [table_images]. rewrite !zlen_app. lia. }
  assert (Lpad : zlen (e_img e) <= zlen (pad4 (e_img e))) by (rewrite Pz, zlen_app; pose proof (zlen_nonneg (zeros kz)); lia).
  pose proof (zlen_nonneg (table_images t)). pose proof (zlen_nonneg R). pose proof (zlen_nonneg Q).
  replace (zlen PP <? src + zlen (e_img e)) with false by (symmetry; apply Z.ltb_ge; lia).
  rewrite Fe, Z.eqb_refl. cbn [negb].
  (* the image *)
  assert (IMG : sub (PP ++ pre ++ (ws ++ wd ++ wl ++ wf ++ r) ++ post) (natz src) (natz (src + zlen (e_img e))) = e_img e).
  { unfold PP. cbn [table_images]. rewrite Pz.
    replace ((Q ++ ((e_img e ++ zeros kz) ++ table_images t) ++ R) ++ pre ++ (ws ++ wd ++ wl ++ wf ++ r) ++ post)
      with (Q ++ e_img e ++ (zeros kz ++ table_images t ++ R ++ pre ++ (ws ++ wd ++ wl ++ wf ++ r) ++ post))
      by (now rewrite <- !app_assoc).
    apply sub_mid'; subst src; unfold natz, zlen; rewrite <- ?Nat2Z.inj_add, ?Nat2Z.id; reflexivity. }
  rewrite IMG.
  (* the rest *)
  rewrite (IH (src + zlen (pad4 (e_img e))) (S k) (pre ++ E16) post r Ft E5 (Q ++ pad4 (e_img e)) R
             (PP ++ pre ++ (ws ++ wd ++ wl ++ wf ++ r) ++ post) (zlen PP)).
  - cbn [bind]. destruct e as [i d f]; cbn [MbiModel.e_img MbiModel.e_dst MbiModel.e_flags] in *; subst f; reflexivity.
  - unfold PP, E16. cbn [table_images]. now rewrite <- !app_assoc.
  - rewrite zlen_app. lia.
  - unfold PP. cbn [table_images]. now rewrite <- !app_assoc.
  - unfold E16. rewrite !app_length. lia.
Qed.

Fixpoint with_src (l : list entry) (s : Z) : list (entry * Z) :=
  match l with [] => [] | e :: t => (e, s) :: with_src t (s + zlen (pad4 (e_img e))) end.
Lemma map_fst_with_src l s : map fst (with_src l s) = l.
Proof. revert s; induction l as [|e t IH]; intros s; [reflexivity|]. cbn. now rewrite IH. Qed.

Lemma take_last_app16 (a h : list N) : length h = 16%nat -> take_last 16 (a ++ h) = h.
Proof. intros H. rewrite <- H. apply take_last_app. Qed.

Lemma bind_ok {A B} (r : res A) (f : A -> res B) (b : B) : bind r f = Ok b -> exists a, r = Ok a /\ f a = Ok b.
Proof. destruct r as [a|]; [eauto | discriminate]. Qed.

Lemma table_export_inv es start T :
  table_export es start = Ok T -> es <> [] ->
  exists ent wn wp wm,
    table_entries es start = Ok ent /\ u32 (Z.of_nat (length es)) = Ok wn /\ u32 (start + zlen (table_images es)) = Ok wp /\
    u32 RELOC_MARKER = Ok wm /\ T = table_images es ++ ent ++ wm ++ le_enc 4 0 ++ wn ++ wp.
Proof.
  intros H NE. unfold table_export in H. destruct es as [|e t]; [contradiction|].
  apply bind_ok in H as (ent & E1 & H). apply bind_ok in H as (wn & E2 & H).
  apply bind_ok in H as (wp & E3 & H). apply bind_ok in H as (wm & E4 & H).
  injection H as <-. exists ent, wn, wp, wm. auto.
Qed.

(* MultipleImageTable.parse (application ++ MultipleImageTable.export) gives the entries back and the place to cut *)
Theorem table_parse_export A es T :
  es <> [] -> entries_ok es -> table_export es (zlen A) = Ok T ->
  table_parse (A ++ T) = Ok (Some (es, zlen A)).
Proof.
  intros NE OK H. destruct (table_export_inv es (zlen A) T H NE) as (ent & wn & wp & wm & E1 & E2 & E3 & E4 & ->).
  pose proof (u32_length _ _ E2) as L2. pose proof (u32_length _ _ E3) as L3. pose proof (u32_length _ _ E4) as L4.
  pose proof (table_entries_length _ _ _ E1) as Le.
  set (hdr := wm ++ le_enc 4 0 ++ wn ++ wp).
  assert (Lh : length hdr = 16%nat) by (unfold hdr; rewrite !app_length, le_enc_length; lia).
  set (imgs := table_images es) in *.
  assert (Dd : A ++ imgs ++ ent ++ hdr = (A ++ imgs ++ ent) ++ hdr) by (now rewrite <- !app_assoc).
  unfold table_parse. rewrite Dd.
  replace (Nat.ltb (length ((A ++ imgs ++ ent) ++ hdr)) 16) with false by (symmetry; apply Nat.ltb_ge; rewrite app_length; lia).
  rewrite take_last_app16 by assumption.
  assert (V0 : rd32 0 hdr = RELOC_MARKER) by (unfold hdr; now apply rd32_u32).
  assert (V1 : rd32 4 hdr = 0).
  { unfold hdr. pose proof (rd32_at wm (le_enc 4 0) (wn ++ wp) 0 eq_refl) as X. rewrite L4 in X. exact X. }
  assert (V2 : rd32 8 hdr = Z.of_nat (length es)).
  { unfold hdr. replace (wm ++ le_enc 4 0 ++ wn ++ wp) with ((wm ++ le_enc 4 0) ++ wn ++ wp) by now rewrite <- app_assoc.
    replace 8%nat with (length (wm ++ le_enc 4 0)) by (rewrite app_length, le_enc_length; lia). now apply rd32_at. }
  assert (V3 : rd32 12 hdr = zlen A + zlen imgs).
  { unfold hdr. replace (wm ++ le_enc 4 0 ++ wn ++ wp) with ((wm ++ le_enc 4 0 ++ wn) ++ wp ++ []) by (now rewrite <- !app_assoc, app_nil_r).
    replace 12%nat with (length (wm ++ le_enc 4 0 ++ wn)) by (rewrite !app_length, le_enc_length; lia). now apply rd32_at. }
  rewrite V0, V1, V2, V3. rewrite !Z.eqb_refl. cbn [andb negb].
  assert (Lpos : (1 <= length es)%nat) by (destruct es; [contradiction | simpl; lia]).
  replace (Z.of_nat (length es) =? 0) with false by (symmetry; apply Z.eqb_neq; lia).
  replace (zlen A + zlen imgs + Z.of_nat (length es) * 16 + 16 =? zlen ((A ++ imgs ++ ent) ++ hdr)) with true
    by (symmetry; apply Z.eqb_eq; unfold zlen; rewrite !app_length, Le, Lh; lia).
  cbn [orb negb]. unfold natz. rewrite Nat2Z.id.
  rewrite (entries_parse_ok es (zlen A) 0 [] hdr ent OK E1 A [] ((A ++ imgs ++ ent) ++ hdr) (zlen A + zlen imgs)).
  - cbn [bind]. fold (with_src es (zlen A)). destruct es as [|e t]; [contradiction|]. cbn [with_src].
    f_equal. f_equal. f_equal. cbn [map fst]. now rewrite map_fst_with_src.
  - fold imgs. cbn [app]. now rewrite app_nil_r, <- !app_assoc.
  - reflexivity.
  - fold imgs. rewrite app_nil_r, zlen_app. reflexivity.
  - reflexivity.
Qed.

(* ================================================================== the object MasterBootImage.parse is expected to return *)
Definition rounds_state (c : mbi_class) (x : mbi) (dek : option (list N)) : mbi :=
  let l := c_mixins c in
  {| m_app := [];
     m_load := if has_attr c ALoadAddress then m_load x else 0;
     m_imgver := if has_attr c AImageVersion then m_imgver x else 0;
     m_subtype := if has_attr c AImageSubtype then m_subtype x else 0;
     m_fwver := if existsb is_manifest_mixin l then m_fwver x else 0;
     m_tz := if existsb is_tz_giver l then m_tz x else TzEnabled;
     m_hwkey := if has_attr c AHwKey then m_hwkey x else false;
     m_ks := if has_attr c AKeyStore then m_ks x else None;
     m_hmac := if existsb is_hmac_mixin l then dek else None;
     m_iv := if has_attr c ACtrIv then m_iv x else [];
     m_table := None;
     m_cert := if existsb is_cert_mixin l then m_cert x else None;
     m_digest := if existsb is_manifest_mixin l then m_digest x else 0 |}.
Definition parsed (c : mbi_class) (x : mbi) (dek : option (list N)) : mbi :=
  set_app (set_table (rounds_state c x dek) (m_table x)) (clean_ivt (m_app x)).

Theorem rounds_result c x dek tzsize sigsz data :
  c_mixins c <> [] -> parse_ok c x dek tzsize sigsz data (c_mixins c) ->
  (has_attr c ACertBlock = true -> existsb is_cert_mixin (c_mixins c) = true /\ exists cb, m_cert x = Some cb) ->
  parse_rounds (S (length (c_mixins c))) c tzsize sigsz dek data (c_mixins c) mbi_default = Ok (rounds_state c x dek).
Proof.
  intros NE H HC. destruct (parse_rounds_gen c x dek tzsize sigsz data NE H HC) as (l' & E & G). rewrite E. f_equal.
  pose proof (fold_upd_fields x dek l' mbi_default) as F. cbv zeta in F.
  destruct F as (F1 & F2 & F3 & F4 & F5 & F6 & F7 & F8 & F9 & F10 & F11 & F12 & F13).
  rewrite !G in *. unfold rounds_state. rewrite !has_attr_gives.
  apply mbi_ext; cbn [m_app m_load m_imgver m_subtype m_fwver m_tz m_hwkey m_ks m_hmac m_iv m_table m_cert m_digest mbi_default] in *;
    try assumption.
  rewrite F13. destruct (existsb is_hmac_mixin (c_mixins c)); [destruct dek|]; reflexivity.
Qed.

(* the mixins whose parse only reads the flags / load-address words (or nothing) *)
Definition simple_mixin (m : mixin) : bool :=
  match m with
  | MixinApp | MixinLoadAddress | MixinLoadAddressOptional | MixinFwVersion | MixinImageVersion | MixinImageSubType
  | MixinIvt | MixinIvtZeroTotalLength | MixinRelocTable | MixinHwKey | MixinHmac | MixinHmacMandatory
  | ExportMixinApp | ExportMixinAppTrustZone | ExportMixinAppTrustZoneCertBlock | ExportMixinAppCertBlockManifest
  | ExportMixinCrcSign | ExportMixinRsaSign | ExportMixinEccSign | ExportMixinHmacKeyStoreFinalize
  | ExportMixinAppTrustZoneCertBlockEncrypt => true
  | _ => false
  end.

Lemma in_gives_has_attr c a m : In m (c_mixins c) -> gives a m = true -> has_attr c a = true.
Proof. intros Hi Hg. rewrite has_attr_gives. apply existsb_exists. eauto. Qed.

Definition ivt_load' := ivt_load.
Lemma mix_parse_simple c x tzsize sigsz dek data m st :
  0 <= c_type c < 64 -> 0 <= m_subtype x < 4 -> 0 <= m_imgver x < 65536 ->
  get_flags data = create_flags c x -> rd32 OFF_LOAD data = ivt_load c x ->
  simple_mixin m = true -> In m (c_mixins c) ->
  mix_parse c tzsize sigsz dek data m st = Ok (upd x dek m st).
Proof.
  intros R1 R2 R3 DF DL Hs Hi.
  pose proof (flags_decode_lemma c x R1 R2 R3) as (F0 & F1 & F2 & F3 & F4 & F5 & F6 & F7).
  destruct m; try discriminate Hs; try reflexivity; unfold mix_parse, flag_set, upd; rewrite ?DF, ?DL.
  - unfold ivt_load. now rewrite (in_gives_has_attr c ALoadAddress MixinLoadAddress Hi eq_refl).
  - unfold ivt_load. now rewrite (in_gives_has_attr c ALoadAddress MixinLoadAddressOptional Hi eq_refl).
  - rewrite F7. now rewrite (in_gives_has_attr c AImageVersion MixinImageVersion Hi eq_refl).
  - rewrite F3. now rewrite (in_gives_has_attr c AImageSubtype MixinImageSubType Hi eq_refl).
  - rewrite F4. now rewrite (in_gives_has_attr c AHwKey MixinHwKey Hi eq_refl).
  - destruct dek; reflexivity.
  - destruct dek; reflexivity.
Qed.


(* ================================================================== plain / CRC classes (ExportMixinApp / ExportMixinAppTrustZone
   with optional ExportMixinCrcSign) *)
Definition allowed_plain (m : mixin) : bool :=
  match m with
  | MixinApp | MixinTrustZone | MixinTrustZoneMandatory | MixinLoadAddress | MixinLoadAddressOptional | MixinFwVersion
  | MixinImageVersion | MixinImageSubType | MixinIvt | MixinIvtZeroTotalLength | MixinRelocTable | MixinHwKey
  | ExportMixinApp | ExportMixinAppTrustZone | ExportMixinCrcSign => true
  | _ => false
  end.

Definition wf_plain_crc (c : mbi_class) : bool :=
  forallb allowed_plain (c_mixins c) && has c MixinApp && has_attr c AIvtTable &&
  (0 <=? c_type c) && (c_type c <? 64) &&
  (match provider c SCollect with
   | Some ExportMixinApp => negb (has_attr c ATrustZone)
   | Some ExportMixinAppTrustZone => has_attr c ATrustZone
   | _ => false
   end) &&
  (opt_mixin_id (provider c SDisassemble) =? opt_mixin_id (provider c SCollect)).

Lemma provider_none_plain l s :
  forallb allowed_plain l = true ->
  match s with SEncrypt | SPostEncrypt | SFinalize => provider_in l s = None | _ => True end.
Proof.
  intros H. destruct s; try exact I; induction l as [|m l IH]; try reflexivity;
    simpl in H; apply andb_true_iff in H as [H1 H2]; destruct m; try discriminate; simpl; apply IH; assumption.
Qed.

Lemma provider_sign_plain l :
  forallb allowed_plain l = true -> provider_in l SSign = None \/ provider_in l SSign = Some ExportMixinCrcSign.
Proof.
  intros H. induction l as [|m l IH]; [left; reflexivity|].
  simpl in H; apply andb_true_iff in H as [H1 H2]. destruct m; try discriminate; simpl; auto.
Qed.

Lemma supported_plain l : forallb allowed_plain l = true -> existsb unsupported_mixin l = false.
Proof.
  intros H. induction l as [|m l IH]; [reflexivity|].
  simpl in H; apply andb_true_iff in H as [H1 H2]. simpl. rewrite (IH H2). destruct m; try discriminate; reflexivity.
Qed.

Lemma no_cert_plain l : forallb allowed_plain l = true -> existsb (gives ACertBlock) l = false.
Proof.
  intros H. induction l as [|m l IH]; [reflexivity|].
  simpl in H; apply andb_true_iff in H as [H1 H2]. simpl. rewrite (IH H2). destruct m; try discriminate; reflexivity.
Qed.

Lemma no_manifest_plain l : forallb allowed_plain l = true ->
  existsb (mixin_eqb MixinManifestCrc) l = false /\ existsb (mixin_eqb MixinManifestDigest) l = false.
Proof.
  intros H. induction l as [|m l IH]; [split; reflexivity|].
  simpl in H; apply andb_true_iff in H as [H1 H2]. destruct (IH H2) as [A B]. simpl. rewrite A, B.
  destruct m; try discriminate; split; reflexivity.
Qed.

Lemma clean_provider l : existsb (gives AIvtTable) l = true -> exists d, provider_in l SCleanIvt = Some d.
Proof.
  induction l as [|m l IH]; [discriminate|]. intros H. cbn [existsb] in H. apply orb_true_iff in H as [H|H].
  - destruct m; cbv in H; try discriminate H; cbn [provider_in definer]; eauto.
  - destruct (IH H) as [d Hd]. cbn [provider_in]. destruct (definer m SCleanIvt); eauto.
Qed.

Lemma reloc_provider l : provider_in l SDisassemblyAppData = None \/ provider_in l SDisassemblyAppData = Some MixinRelocTable.
Proof. induction l as [|m l IH]; [left; reflexivity|]. destruct m; simpl; auto. Qed.

Definition tz_part (c : mbi_class) (x : mbi) : list N := if has_attr c ATrustZone then tz_export (m_tz x) else [].

Lemma opt_id_eq_app p : opt_mixin_id p = opt_mixin_id (Some ExportMixinApp) -> p = Some ExportMixinApp.
Proof. destruct p as [[]|]; cbv; intros H; try discriminate H; reflexivity. Qed.

Lemma opt_id_eq_apptz p : opt_mixin_id p = opt_mixin_id (Some ExportMixinAppTrustZone) -> p = Some ExportMixinAppTrustZone.
Proof. destruct p as [[]|]; cbv; intros H; try discriminate H; reflexivity. Qed.

(* bytes of the relocation-table sub-image: empty without table *)
Definition table_part (c : mbi_class) (x : mbi) (start : Z) : res (list N) :=
  if has_attr c AAppTable then match m_table x with Some es => table_export es start | None => Ok [] end else Ok [].
Lemma reloc_segment_flat' c x start seg : reloc_segment c x start = Ok seg -> table_part c x start = Ok (flat seg).
Proof.
  unfold reloc_segment, table_part. destruct (has_attr c AAppTable); [|intros H; now inversion H].
  destruct (m_table x) as [es|]; [|intros H; now inversion H].
  destruct (table_export es start) as [b|]; cbn [bind]; intros H; inversion H. cbn. now rewrite app_nil_r.
Qed.

(* shape of the exported image of a plain / CRC class: application (IVT updated, CRC word for CRC classes),
   relocation table if one is given, TrustZone data *)
Lemma export_plain_shape k c x im :
  wf_plain_crc c = true -> (56 <= length (m_app x))%nat ->
  export_mbi k c x = Ok im ->
  exists app' app'' tb, update_ivt c x (m_app x) (total_len c x) 0 = Ok app' /\
    (app'' = app' \/ exists w, length w = 4%nat /\ app'' = wr OFF_CRC w app') /\
    table_part c x (zlen app') = Ok tb /\
    im = app'' ++ tb ++ tz_part c x.
Proof.
  intros W L E. unfold wf_plain_crc in W.
  repeat (apply andb_true_iff in W as [W ?]).
  rename H into Wd, H0 into Wc, H1 into Wt2, H2 into Wt1, H3 into Wi, H4 into Wa.
  unfold export_mbi, export_image in E. unfold supported in E. rewrite (supported_plain _ W) in E. cbn [negb] in E.
  destruct (validate c x) as [[]|] eqn:V; cbn [bind] in E; [|discriminate].
  pose proof (provider_none_plain (c_mixins c) SEncrypt W) as PE. pose proof (provider_none_plain (c_mixins c) SPostEncrypt W) as PP.
  pose proof (provider_none_plain (c_mixins c) SFinalize W) as PF. cbn in PE, PP, PF.
  assert (CA : exists app' rs, update_ivt c x (m_app x) (total_len c x) 0 = Ok app' /\ reloc_segment c x (zlen app') = Ok rs /\
                               collect_app c x = Ok (app' :: rs)).
  { unfold collect, collect_app in *. destruct (m_app x) as [|b t] eqn:Ea; [simpl in L; lia|]. rewrite Wi in *.
    destruct (update_ivt c x (b :: t) (total_len c x) 0) as [app'|] eqn:U; cbn [bind] in *.
    - destruct (reloc_segment c x (zlen app')) as [rs|] eqn:R; cbn [bind] in *.
      + exists app', rs. auto.
      + exfalso. destruct (provider c SCollect) as [[]|]; try discriminate Wc; cbn [bind] in E; discriminate E.
    - exfalso. destruct (provider c SCollect) as [[]|]; try discriminate Wc; cbn [bind] in E; discriminate E. }
  destruct CA as (app' & rs & U & RS & CA). exists app'.
  assert (La : length app' = length (m_app x)) by (eapply update_ivt_length; eassumption).
  assert (COL : collect c x = Ok ((app' :: rs) ++ (if has_attr c ATrustZone then tz_segment x else []))).
  { unfold collect. destruct (provider c SCollect) as [[]|]; try discriminate Wc; rewrite CA; cbn [bind].
    - apply negb_true_iff in Wc. rewrite Wc. now rewrite app_nil_r.
    - rewrite Wc. reflexivity. }
  rewrite COL in E. cbn [bind] in E.
  unfold encrypt, provider in E. rewrite PE in E. cbn [bind] in E.
  unfold post_encrypt, provider in E. rewrite PP in E. cbn [bind] in E.
  assert (FT : flat (if has_attr c ATrustZone then tz_segment x else []) = tz_part c x).
  { unfold tz_part. destruct (has_attr c ATrustZone); [apply flat_tz_segment|reflexivity]. }
  pose proof (reloc_segment_flat' c x (zlen app') rs RS) as TB.
  unfold sign, provider in E. destruct (provider_sign_plain _ W) as [PS|PS]; rewrite PS in E; cbn [bind fst snd] in E.
  - exists app', (flat rs). split; [assumption|]. split; [now left|]. split; [assumption|].
    unfold finalize, provider in E. rewrite PF in E. cbn [res_map] in E. injection E as <-.
    cbn [app]. rewrite ?flat_cons, flat_app. f_equal. f_equal. exact FT.
  - cbn [app] in E.
    match type of E with context [crc_write _ 0 ?w] => remember w as cw eqn:Ecw end.
    rewrite crc_write_head in E by lia.
    cbn [bind fst snd] in E. unfold finalize, provider in E. rewrite PF in E. cbn [res_map] in E. injection E as <-.
    exists (wr OFF_CRC cw app'), (flat rs). split; [assumption|].
    split; [right; exists cw; split; [subst cw; apply le_enc_length|reflexivity]|]. split; [assumption|].
    rewrite ?flat_cons, flat_app. f_equal. f_equal. exact FT.
Qed.

(* TrustZone mixins of a class without certificate block *)
Lemma mix_parse_tz_nocert c x tzsize sigsz dek data m st :
  0 <= c_type c < 64 -> 0 <= m_subtype x < 4 -> 0 <= m_imgver x < 65536 ->
  get_flags data = create_flags c x -> has_attr c ACertBlock = false -> has_tz c = true ->
  (forall d, m_tz x = TzCustom d ->
     tz_from_binary tzsize (match tzsize with O => data | _ => take_last tzsize data end) = Ok (TzCustom d)) ->
  m = MixinTrustZone \/ m = MixinTrustZoneMandatory ->
  mix_parse c tzsize sigsz dek data m st = Ok (upd x dek m st).
Proof.
  intros R1 R2 R3 DF NC HT DT Hm.
  pose proof (flags_decode_lemma c x R1 R2 R3) as (F0 & F1 & F2 & _).
  destruct Hm as [-> | ->]; unfold mix_parse, upd; rewrite DF, F2, HT, NC;
    (destruct (m_tz x) as [|d|] eqn:E; cbn [tz_tag]; try reflexivity;
     change (G_TZ_CUSTOM =? G_TZ_CUSTOM) with true; cbv iota; rewrite (DT d eq_refl); reflexivity).
Qed.

Lemma has_tz_mixin_attr c m : In m (c_mixins c) -> m = MixinTrustZone \/ m = MixinTrustZoneMandatory -> has_attr c ATrustZone = true.
Proof. intros Hi [-> | ->]; eapply in_gives_has_attr; eauto. Qed.

Theorem roundtrip_plain_crc k c x tzsize sigsz dek im :
  wf_plain_crc c = true ->
  (56 <= length (m_app x))%nat -> (length (m_app x) mod 4 = 0)%nat ->
  0 <= m_subtype x < 4 -> 0 <= m_imgver x < 65536 ->
  (forall es, m_table x = Some es -> has_attr c AAppTable = true /\ entries_ok es) ->
  (forall d, m_tz x = TzCustom d -> length d = tzsize /\ (0 < tzsize)%nat) ->
  export_mbi k c x = Ok im ->
  parse_mbi k c tzsize sigsz dek im = Ok (parsed c x dek).
Proof.
  intros W L L4 R2 R3 HTb HZ E.
  destruct (export_plain_shape k c x im W L E) as (app' & app'' & tb & U & HA & TB & ->).
  pose proof W as W'. unfold wf_plain_crc in W'. repeat (apply andb_true_iff in W' as [W' ?]).
  rename H into Wd, H0 into Wc, H1 into Wt2, H2 into Wt1, H3 into Wi, H4 into Wa.
  assert (R1 : 0 <= c_type c < 64) by (apply Z.leb_le in Wt1; apply Z.ltb_lt in Wt2; lia).
  assert (La : length app' = length (m_app x)) by (eapply update_ivt_length; eassumption).
  destruct (ivt_words c x (m_app x) (total_len c x) 0 app' L U) as (IW1 & IW2 & IW3 & IW4).
  assert (La'' : length app'' = length (m_app x)).
  { destruct HA as [->|(w & Hw & ->)]; [assumption|]. rewrite off_crc_eq, wr_length; lia. }
  assert (F'' : rd32 OFF_FLAGS app'' = create_flags c x /\ rd32 OFF_LOAD app'' = ivt_load c x).
  { destruct HA as [->|(w & Hw & ->)]; [auto|]. rewrite off_crc_eq, off_flags_eq, off_load_eq in *.
    rewrite !rd32_wr_other by lia. auto. }
  destruct F'' as [FF FL].
  assert (CL : clean_ivt app'' = clean_ivt (m_app x)).
  { destruct HA as [->|(w & Hw & ->)]; [|rewrite clean_wr_crc by lia]; eapply clean_update; eassumption. }
  assert (NC : has_attr c ACertBlock = false) by (rewrite has_attr_gives; now apply no_cert_plain).
  assert (HTZ : has_tz c = has_attr c ATrustZone).
  { unfold has_tz, has_manifest, has. destruct (no_manifest_plain _ W') as [-> ->]. now rewrite orb_false_r. }
  set (data := app'' ++ tb ++ tz_part c x).
  assert (DF : get_flags data = create_flags c x) by (unfold get_flags, data; rewrite rd32_app by (rewrite off_flags_eq; lia); exact FF).
  assert (DL : rd32 OFF_LOAD data = ivt_load c x) by (unfold data; rewrite rd32_app by (rewrite off_load_eq; lia); exact FL).
  (* mix_parse of every mixin *)
  assert (PO : parse_ok c x dek tzsize sigsz data (c_mixins c)).
  { intros m Hi st _ _.
    assert (Hal : allowed_plain m = true) by (eapply forallb_forall in W'; eauto).
    destruct (simple_mixin m) eqn:Sm; [now apply mix_parse_simple|].
    assert (Hm : m = MixinTrustZone \/ m = MixinTrustZoneMandatory) by (destruct m; try discriminate Hal; try discriminate Sm; auto).
    pose proof (has_tz_mixin_attr c m Hi Hm) as HA2.
    apply mix_parse_tz_nocert; try assumption; [now rewrite HTZ|].
    intros d Ed. destruct (HZ d Ed) as [Ld Lz]. destruct tzsize as [|n]; [lia|].
    unfold data, tz_part. rewrite HA2, Ed. cbn [tz_export].
    replace (take_last (S n) (app'' ++ tb ++ d)) with d
      by (rewrite app_assoc, <- Ld; symmetry; apply take_last_app).
    unfold tz_from_binary. rewrite Ld, Nat.ltb_irrefl. rewrite <- Ld. now rewrite firstn_all. }
  assert (NE : c_mixins c <> []).
  { apply has_in in Wa. destruct (c_mixins c) as [|m t]; [contradiction|congruence]. }
  unfold parse_mbi. unfold supported. rewrite (supported_plain _ W'). cbn [negb].
  rewrite (rounds_result c x dek tzsize sigsz data NE PO) by (rewrite NC; discriminate). cbn [bind].
  set (st := rounds_state c x dek).
  pose proof (provider_none_plain (c_mixins c) SEncrypt W') as PE. pose proof (provider_none_plain (c_mixins c) SPostEncrypt W') as PP.
  pose proof (provider_none_plain (c_mixins c) SFinalize W') as PF. cbn in PE, PP, PF.
  assert (REV : bind (finalize_revert c st data) (fun d1 => bind (sign_revert c st d1) (fun d2 =>
                  bind (post_encrypt_revert c st d2) (fun d3 => bind (encrypt_revert k c st d3) (fun d4 => disassemble c tzsize st d4))))
                = disassemble c tzsize st data).
  { unfold finalize_revert, provider. rewrite PF. cbn [bind].
    unfold sign_revert, provider. destruct (provider_sign_plain _ W') as [PS|PS]; rewrite PS; cbn [bind];
      unfold post_encrypt_revert, encrypt_revert, provider; rewrite PP, PE; reflexivity. }
  rewrite REV. clear REV.
  assert (TG : existsb is_tz_giver (c_mixins c) = has_attr c ATrustZone).
  { rewrite has_attr_gives. clear - W'. induction (c_mixins c) as [|m l IH]; [reflexivity|].
    cbn [forallb] in W'. apply andb_true_iff in W' as [H1 H2]. cbn [existsb]. rewrite (IH H2).
    destruct m; try discriminate H1; reflexivity. }
  assert (STZ : m_tz st = if has_attr c ATrustZone then m_tz x else TzEnabled) by (unfold st, rounds_state; cbn [m_tz]; now rewrite TG).
  assert (CUT : cut_tz st data = app'' ++ tb).
  { unfold cut_tz, data, tz_part. rewrite STZ. destruct (has_attr c ATrustZone).
    - destruct (tz_export (m_tz x)) eqn:Et; [now rewrite !app_nil_r | rewrite <- Et, app_assoc; apply drop_last_app].
    - cbn [tz_export]. now rewrite !app_nil_r. }
  destruct (clean_provider _ Wi) as (dcl & PCL).
  (* the relocation table *)
  pose proof (flags_decode_lemma c x R1 R2 R3) as (_ & _ & _ & _ & _ & _ & F6 & _).
  assert (FLG : flag_set (app'' ++ tb) G_RELOC_TABLE_FLAG = has_attr c AAppTable && has_table x).
  { unfold flag_set, get_flags. rewrite rd32_app by (rewrite off_flags_eq; lia). rewrite FF. exact F6. }
  assert (RC : reloc_cut c st (app'' ++ tb) = Ok (set_table st (m_table x), app'')).
  { unfold reloc_cut, provider. destruct (reloc_provider (c_mixins c)) as [PR|PR]; rewrite PR.
    - (* no relocation mixin: no table attribute, so no table was given *)
      assert (NA : has_attr c AAppTable = false).
      { rewrite has_attr_gives. clear - PR. induction (c_mixins c) as [|m l IH]; [reflexivity|].
        cbn [provider_in] in PR. destruct m; try discriminate PR; cbn [existsb]; rewrite ?(IH PR); reflexivity. }
      assert (TN : m_table x = None) by (destruct (m_table x) as [es|] eqn:Et; [destruct (HTb es eq_refl); congruence | reflexivity]).
      unfold table_part in TB. rewrite NA in TB. injection TB as <-. rewrite app_nil_r, TN.
      reflexivity.
    - unfold disassembly_app_data. rewrite Wi, FLG. cbn [andb]. unfold table_part in TB.
      destruct (m_table x) as [es|] eqn:Et.
      + destruct (HTb es eq_refl) as [HA3 OKe]. rewrite HA3 in *. unfold has_table. rewrite Et. cbn [andb negb].
        assert (NEe : es <> []) by (intros ->; discriminate TB).
        replace (zlen app') with (zlen app'') in TB by (unfold zlen; now rewrite La, La'').
        rewrite (table_parse_export app'' es tb NEe OKe TB). cbn [bind fst snd].
        unfold natz, zlen. rewrite Nat2Z.id, firstn_app, firstn_all, Nat.sub_diag, firstn_O, app_nil_r. reflexivity.
      + unfold has_table. rewrite Et, andb_false_r. cbn [negb bind fst snd].
        destruct (has_attr c AAppTable); injection TB as <-; now rewrite app_nil_r. }
  assert (FIN : finish_app c (set_table st (m_table x)) app'' = parsed c x dek).
  { unfold finish_app, provider. rewrite PCL, CL, pad4_id by (rewrite clean_ivt_length; assumption). reflexivity. }
  unfold disassemble. apply Z.eqb_eq in Wd.
  destruct (provider c SCollect) as [[]|] eqn:PC; try discriminate Wc.
  - apply opt_id_eq_app in Wd. rewrite Wd.
    assert (TP : tz_part c x = []) by (unfold tz_part; apply negb_true_iff in Wc; now rewrite Wc).
    unfold data. rewrite TP, app_nil_r, RC. cbn [bind fst snd]. now rewrite FIN.
  - apply opt_id_eq_apptz in Wd. rewrite Wd, CUT, RC. cbn [bind fst snd]. now rewrite FIN.
Qed.

(* ------------------------------------------------------------------ settings a class does not carry are at their defaults *)
Definition canonical_plain (c : mbi_class) (x : mbi) : Prop :=
  (has_attr c ALoadAddress = false -> m_load x = 0) /\ (has_attr c AImageVersion = false -> m_imgver x = 0) /\
  (has_attr c AImageSubtype = false -> m_subtype x = 0) /\ (has_attr c ATrustZone = false -> m_tz x = TzEnabled) /\
  (has_attr c AHwKey = false -> m_hwkey x = false) /\
  m_fwver x = 0 /\ m_ks x = None /\ m_hmac x = None /\ m_iv x = [] /\ m_cert x = None /\ m_digest x = 0.

Lemma plain_givers l : forallb allowed_plain l = true ->
  existsb is_tz_giver l = existsb (gives ATrustZone) l /\ existsb is_manifest_mixin l = false /\
  existsb is_cert_mixin l = false /\ existsb is_hmac_mixin l = false /\ existsb (gives AKeyStore) l = false /\
  existsb (gives ACtrIv) l = false.
Proof.
  intros H. induction l as [|m l IH]; [repeat split; reflexivity|].
  cbn [forallb] in H. apply andb_true_iff in H as [H1 H2]. destruct (IH H2) as (A1 & A2 & A3 & A4 & A5 & A6).
  cbn [existsb]. rewrite A1, A2, A3, A4, A5, A6. destruct m; try discriminate H1; repeat split; reflexivity.
Qed.

Lemma parsed_plain_canonical c x dek : wf_plain_crc c = true -> canonical_plain c x -> parsed c x dek = set_app x (clean_ivt (m_app x)).
Proof.
  intros W (C1 & C2 & C3 & C4 & C5 & C6 & C7 & C8 & C9 & C11 & C12).
  unfold wf_plain_crc in W. repeat (apply andb_true_iff in W as [W ?]).
  destruct (plain_givers _ W) as (G1 & G2 & G3 & G4 & G5 & G6).
  unfold parsed, rounds_state. rewrite !has_attr_gives in *. rewrite G1, G2, G3, G4, G5, G6.
  apply mbi_ext; cbn; try reflexivity; try (symmetry; assumption);
    match goal with |- (if ?b then _ else _) = _ => destruct b eqn:Hb; [reflexivity|symmetry; auto] end.
Qed.

Lemma roundtrip_plain_crc_full :
  forall (k : crypto) (c : mbi_class) (x : mbi) (tzsize sigsz : nat) (dek : option (list N)) (im : list N),
    wf_plain_crc c = true ->
    (56 <= length (m_app x))%nat -> (length (m_app x) mod 4 = 0)%nat ->
    0 <= m_subtype x < 4 -> 0 <= m_imgver x < 65536 ->
    (forall es, m_table x = Some es -> has_attr c AAppTable = true /\ entries_ok es) ->
    (forall d, m_tz x = TzCustom d -> length d = tzsize /\ (0 < tzsize)%nat) ->
    export_mbi k c x = Ok im ->
    parse_mbi k c tzsize sigsz dek im = Ok (parsed c x dek) /\
    (canonical_plain c x ->
       parsed c x dek = set_app x (clean_ivt (m_app x)) /\ export_mbi k c (parsed c x dek) = Ok im).
Proof.
  intros k c x tzsize sigsz dek im W L L4 R2 R3 HT HZ E.
  split; [exact (roundtrip_plain_crc k c x tzsize sigsz dek im W L L4 R2 R3 HT HZ E)|].
  intros C. rewrite (parsed_plain_canonical c x dek W C). split; [reflexivity|].
  rewrite export_clean_app; [exact E | exact L |].
  unfold wf_plain_crc in W. repeat (apply andb_true_iff in W as [W ?]). assumption.
Qed.

Example wf_plain_crc_instance :
  wf_plain_crc {| c_type := 5; c_mixins := [MixinApp; MixinIvt; MixinTrustZone; ExportMixinAppTrustZone; ExportMixinCrcSign] |} = true.
Proof. vm_compute. reflexivity. Qed.

(* ------------------------------------------------------------------ total length = bytes emitted (plain / CRC classes) *)
Lemma table_entries_mono es : forall s s' e, table_entries es s = Ok e -> 0 <= s' <= s -> exists e', table_entries es s' = Ok e'.
Proof.
  induction es as [|en t IH]; intros s s' e H R; [eexists; reflexivity|]. cbn [table_entries] in H |- *.
  apply bind_ok in H as (ws & E1 & H). apply bind_ok in H as (wd & E2 & H). apply bind_ok in H as (wl & E3 & H).
  apply bind_ok in H as (wf & E4 & H). apply bind_ok in H as (r & E5 & H).
  apply u32_value in E1 as [_ B1].
  assert (U : exists w, u32 s' = Ok w).
  { unfold u32. replace ((0 <=? s') && (s' <? 4294967296)) with true; [eauto|].
    symmetry. apply andb_true_iff. split; [apply Z.leb_le|apply Z.ltb_lt]; lia. }
  destruct U as (w & ->). cbn [bind]. rewrite E2. cbn [bind]. rewrite E3. cbn [bind]. rewrite E4. cbn [bind].
  pose proof (zlen_nonneg (pad4 (e_img en))) as Zp.
  destruct (IH _ (s' + zlen (pad4 (e_img en))) _ E5) as (r' & ->); [lia|]. cbn [bind]. eauto.
Qed.

Lemma table_export_len es s T : table_export es s = Ok T -> 0 <= s -> table_len es = zlen T.
Proof.
  intros H Hs. assert (NE : es <> []) by (intros ->; discriminate H).
  destruct (table_export_inv es s T H NE) as (ent & wn & wp & wm & E1 & E2 & E3 & E4 & ->).
  destruct (table_entries_mono es s 0 ent E1) as (ent0 & E0); [lia|].
  pose proof (zlen_nonneg (table_images es)) as P.
  assert (U : exists w, u32 (0 + zlen (table_images es)) = Ok w).
  { apply u32_value in E3 as [_ B]. unfold u32.
    replace ((0 <=? 0 + zlen (table_images es)) && (0 + zlen (table_images es) <? 4294967296)) with true; [eauto|].
    symmetry. apply andb_true_iff. split; [apply Z.leb_le|apply Z.ltb_lt]; lia. }
  destruct U as (wp0 & E30).
  unfold table_len, table_export. destruct es as [|e0 t0]; [contradiction|].
  rewrite E0. cbn [bind]. rewrite E2. cbn [bind]. rewrite E30. cbn [bind]. rewrite E4. cbn [bind].
  apply table_entries_length in E1, E0. apply u32_length in E3, E30.
  unfold zlen. rewrite !app_length, E1, E0, E3, E30. reflexivity.
Qed.

Lemma sum_len_plain x l :
  forallb allowed_plain l = true -> nodupb l = true ->
  sumz (map (mix_len x) l) =
  (if hasl l MixinApp then zlen (m_app x) else 0) + (if hasl l MixinTrustZone then zlen (tz_export (m_tz x)) else 0) +
  (if hasl l MixinTrustZoneMandatory then zlen (tz_export (m_tz x)) else 0) +
  (if hasl l MixinRelocTable then (match m_table x with Some es => table_len es | None => 0 end) else 0).
Proof.
  intros Ha Hn. induction l as [|m l IH]; [reflexivity|].
  cbn [forallb] in Ha. apply andb_true_iff in Ha as [Ha1 Ha2].
  cbn [nodupb] in Hn. apply andb_true_iff in Hn as [Hn1 Hn2]. apply negb_true_iff in Hn1.
  specialize (IH Ha2 Hn2). cbn [map sumz fold_right]. fold (sumz (map (mix_len x) l)). rewrite IH.
  unfold hasl in *. cbn [existsb].
  destruct m; try discriminate Ha1; cbn [mix_len mixin_eqb mixin_id Z.eqb orb Pos.eqb]; rewrite ?Hn1; cbn [orb];
    repeat match goal with |- context [if ?b then _ else _] => destruct b end; lia.
Qed.

Lemma has_attr_tz_plain l : forallb allowed_plain l = true ->
  existsb (gives ATrustZone) l = hasl l MixinTrustZone || hasl l MixinTrustZoneMandatory.
Proof.
  intros H. induction l as [|m l IH]; [reflexivity|]. cbn [forallb] in H. apply andb_true_iff in H as [H1 H2].
  unfold hasl in *. cbn [existsb]. rewrite (IH H2). destruct m; try discriminate H1; cbn;
    repeat match goal with |- context [existsb ?f ?l] => destruct (existsb f l) end; reflexivity.
Qed.
Lemma has_attr_table_plain l : existsb (gives AAppTable) l = hasl l MixinRelocTable.
Proof. induction l as [|m l IH]; [reflexivity|]. unfold hasl in *. cbn [existsb]. rewrite IH. destruct m; reflexivity. Qed.

Theorem len_is_sum_plain_crc k c x im :
  wf_plain_crc c = true -> nodupb (c_mixins c) = true ->
  (has c MixinTrustZone && has c MixinTrustZoneMandatory) = false ->
  (56 <= length (m_app x))%nat ->
  export_mbi k c x = Ok im ->
  zlen im = total_len c x /\
  rd32 OFF_LEN im = (match provider c SUpdateIvt with Some MixinIvtZeroTotalLength => 0 | _ => zlen im end) /\
  rd32 OFF_FLAGS im = create_flags c x /\ rd32 OFF_LOAD im = (if has_attr c ALoadAddress then m_load x else 0).
Proof.
  intros W ND NB L E.
  destruct (export_plain_shape k c x im W L E) as (app' & app'' & tb & U & HA & TB & ->).
  pose proof W as W'. unfold wf_plain_crc in W'. repeat (apply andb_true_iff in W' as [W' ?]).
  rename H into Wd, H0 into Wc, H1 into Wt2, H2 into Wt1, H3 into Wi, H4 into Wa.
  assert (La : length app' = length (m_app x)) by (eapply update_ivt_length; eassumption).
  destruct (ivt_words c x (m_app x) (total_len c x) 0 app' L U) as (IW1 & IW2 & IW3 & IW4).
  assert (La'' : length app'' = length (m_app x)).
  { destruct HA as [->|(w & Hw & ->)]; [assumption|]. rewrite off_crc_eq, wr_length; lia. }
  assert (TBL : zlen tb = if hasl (c_mixins c) MixinRelocTable then (match m_table x with Some es => table_len es | None => 0 end) else 0).
  { unfold table_part in TB. rewrite has_attr_gives, has_attr_table_plain in TB.
    destruct (hasl (c_mixins c) MixinRelocTable); [|now inversion TB].
    destruct (m_table x) as [es|]; [|now inversion TB]. symmetry. eapply table_export_len; [eassumption|apply zlen_nonneg]. }
  assert (TL : total_len c x = zlen (app'' ++ tb ++ tz_part c x)).
  { unfold total_len. rewrite (sum_len_plain x (c_mixins c) W' ND).
    unfold has in Wa, NB. unfold hasl in *. rewrite Wa. rewrite !zlen_app, TBL.
    assert (ZA : zlen app'' = zlen (m_app x)) by (unfold zlen; now rewrite La'').
    rewrite ZA. unfold tz_part. rewrite has_attr_gives, (has_attr_tz_plain _ W'). unfold hasl.
    destruct (existsb (mixin_eqb MixinTrustZone) (c_mixins c)), (existsb (mixin_eqb MixinTrustZoneMandatory) (c_mixins c));
      try discriminate NB; cbn [orb]; change (zlen (@nil N)) with 0; lia. }
  assert (F'' : rd32 OFF_LEN app'' = ivt_total c (total_len c x) /\ rd32 OFF_FLAGS app'' = create_flags c x /\ rd32 OFF_LOAD app'' = ivt_load c x).
  { destruct HA as [->|(w & Hw & ->)]; [auto|]. rewrite off_crc_eq, off_flags_eq, off_load_eq, off_len_eq in *.
    rewrite !rd32_wr_other by lia. auto. }
  destruct F'' as (F1 & F2 & F3).
  split; [now rewrite TL|]. rewrite !rd32_app by (rewrite ?off_len_eq, ?off_flags_eq, ?off_load_eq; lia).
  rewrite F1, F2, F3. unfold ivt_total, ivt_load. rewrite TL. auto.
Qed.

(* the hypotheses are satisfiable: a database class with relocation-table mixin, a table of two entries, a custom TrustZone *)
Example roundtrip_plain_crc_nonvacuous :
  let c := {| c_type := 2; c_mixins := [MixinApp; MixinRelocTable; MixinLoadAddress; MixinIvt; MixinTrustZone; MixinHwKey;
                                        ExportMixinAppTrustZone; ExportMixinCrcSign] |} in
  let x := {| m_app := map N.of_nat (seq 1 64); m_load := 4096; m_imgver := 0; m_subtype := 0; m_fwver := 0;
              m_tz := TzCustom (map N.of_nat (seq 7 8)); m_hwkey := true; m_ks := None; m_hmac := None; m_iv := [];
              m_table := Some [{| e_img := [1; 2; 3]%N; e_dst := 536870912; e_flags := 1 |};
                               {| e_img := [9; 8; 7; 6; 5]%N; e_dst := 268435456; e_flags := 1 |}];
              m_cert := None; m_digest := 0 |} in
  let k := {| k_sign := fun _ => []; k_hmac := fun _ _ => []; k_ctr := fun _ _ _ d => d; k_hash := fun _ _ => [] |} in
  wf_plain_crc c = true /\ canonical_plain c x /\
  exists im, export_mbi k c x = Ok im /\ length im = 132%nat /\ parse_mbi k c 8 0 None im = Ok (parsed c x None).
Proof.
  cbv zeta. split; [vm_compute; reflexivity|]. split; [repeat split; intros; try reflexivity; discriminate|].
  eexists. split; [vm_compute; reflexivity|]. split; vm_compute; reflexivity.
Qed.

(* ================================================================== HMAC / key-store insertion (Mbi_ExportMixinHmacKeyStoreFinalize) *)
Lemma hmac_off_eq : HMAC_OFF = 64%nat. Proof. reflexivity. Qed.
Definition hmac_bytes (x : mbi) (hm : list N) : list N := hm ++ match m_ks x with Some b => b | None => [] end.
Lemma flat_hmac_block x hm : flat (hmac_block x hm) = hmac_bytes x hm.
Proof. unfold hmac_block, hmac_bytes, flat. destruct (m_ks x); simpl; now rewrite ?app_nil_r. Qed.

Lemma hmac_split_after x hm im off : (64 < off)%nat -> hmac_insert_split x hm im off = im.
Proof.
  revert off; induction im as [|s t IH]; intros off H; [reflexivity|]. cbn [hmac_insert_split].
  change HMAC_OFF with 64%nat. replace (Nat.leb off 64) with false by (symmetry; apply Nat.leb_gt; lia). cbn [andb].
  rewrite IH by lia. reflexivity.
Qed.
Lemma hmac_between_done x hm im off : hmac_insert_between x hm im off true = im.
Proof.
  revert off; induction im as [|s t IH]; intros off; [reflexivity|]. cbn [hmac_insert_between].
  rewrite andb_false_r. cbn [orb app]. now rewrite IH.
Qed.
Lemma offsets_after im off : (64 < off)%nat -> existsb (Nat.eqb 64) (offsets_from im off) = false.
Proof.
  revert off; induction im as [|s t IH]; intros off H; [reflexivity|]. cbn [offsets_from existsb].
  replace (Nat.eqb 64 off) with false by (symmetry; apply Nat.eqb_neq; lia). apply IH. lia.
Qed.

Lemma hmac_between_gen x hm im : forall off, (off <= 64)%nat ->
  existsb (Nat.eqb 64) (offsets_from im off) = true ->
  flat (hmac_insert_between x hm im off false) = firstn (64 - off) (flat im) ++ hmac_bytes x hm ++ skipn (64 - off) (flat im).
Proof.
  induction im as [|s t IH]; intros off Ho Ex; [discriminate|].
  cbn [offsets_from existsb] in Ex. cbn [hmac_insert_between]. change HMAC_OFF with 64%nat.
  destruct (Nat.eqb off 64) eqn:E.
  - apply Nat.eqb_eq in E. subst off. cbn [andb negb orb]. rewrite hmac_between_done.
    rewrite Nat.sub_diag, firstn_O, skipn_O. rewrite flat_app, flat_hmac_block. cbn [app]. reflexivity.
  - cbn [andb orb app]. apply Nat.eqb_neq in E.
    replace (Nat.eqb 64 off) with false in Ex by (symmetry; apply Nat.eqb_neq; lia). cbn [orb] in Ex.
    assert (Ls : (off + length s <= 64)%nat).
    { destruct (Nat.le_gt_cases (off + length s) 64); [assumption|]. rewrite offsets_after in Ex by lia. discriminate. }
    rewrite !flat_cons. rewrite (IH (off + length s)%nat Ls Ex).
    rewrite firstn_app, skipn_app. rewrite (firstn_all2 s) by lia. rewrite (skipn_all2 s) by lia.
    replace (64 - (off + length s))%nat with (64 - off - length s)%nat by lia. cbn [app]. now rewrite <- app_assoc.
Qed.

Lemma hmac_split_gen x hm im : forall off, (off <= 64)%nat ->
  existsb (Nat.eqb 64) (offsets_from im off) = false -> (64 < off + length (flat im))%nat ->
  flat (hmac_insert_split x hm im off) = firstn (64 - off) (flat im) ++ hmac_bytes x hm ++ skipn (64 - off) (flat im).
Proof.
  induction im as [|s t IH]; intros off Ho Ex Lt; [cbn in Lt; lia|].
  cbn [offsets_from existsb] in Ex. apply orb_false_iff in Ex as [E0 Ex]. apply Nat.eqb_neq in E0.
  cbn [hmac_insert_split]. change HMAC_OFF with 64%nat. rewrite flat_cons in Lt. rewrite app_length in Lt.
  destruct (Nat.ltb 64 (off + length s)) eqn:C.
  - apply Nat.ltb_lt in C. replace (Nat.leb off 64) with true by (symmetry; apply Nat.leb_le; lia). cbn [andb].
    rewrite hmac_split_after by lia. rewrite !flat_app, flat_hmac_block, !flat_cons. unfold flat at 1 2. cbn [concat]. rewrite !app_nil_r.
    rewrite firstn_app, skipn_app. replace (64 - off - length s)%nat with 0%nat by lia. rewrite firstn_O, skipn_O, app_nil_r.
    now rewrite <- !app_assoc.
  - apply Nat.ltb_ge in C. rewrite andb_false_r. cbn [app].
    assert (Ls : (off + length s < 64)%nat).
    { destruct (Nat.eq_dec (off + length s) 64) as [Q|Q]; [|lia]. exfalso.
      destruct t as [|s1 t1]; [cbn in Lt; lia|]. cbn [offsets_from existsb] in Ex. rewrite Q in Ex. cbn in Ex. discriminate. }
    rewrite !flat_cons. rewrite (IH (off + length s)%nat) by (try lia; assumption).
    rewrite firstn_app, skipn_app. rewrite (firstn_all2 s) by lia. rewrite (skipn_all2 s) by lia.
    replace (64 - (off + length s))%nat with (64 - off - length s)%nat by lia. cbn [app]. now rewrite <- app_assoc.
Qed.

Lemma get_flags_prefix (a b : list N) : (40 <= length a)%nat -> get_flags (a ++ b) = get_flags a.
Proof. intros H. unfold get_flags. apply rd32_app. rewrite off_flags_eq. lia. Qed.

(* finalize: rejected when application + relocation table have less than 64 bytes; otherwise HMAC (+ key store) is inserted
   exactly once, at byte 64 of the image, whatever the sub-image structure; finalize(revert=True) removes exactly that *)
Theorem hmac_finalize_inverse k c x st im dts :
  provider c SFinalize = Some ExportMixinHmacKeyStoreFinalize ->
  (app_len c x < 64 -> finalize k c x im dts = Err E_REJECT) /\
  (64 <= app_len c x -> (64 < length (flat im))%nat ->
   (exists kb kt, m_hmac x = Some (kb :: kt)) ->
   (forall key data, length (k_hmac k key data) = 32%nat) ->
   (forall b, m_ks x = Some b -> length b = 1424%nat) ->
   flag_set (flat im) G_KEY_STORE_FLAG = (match m_ks x with Some _ => true | None => false end) ->
   exists im', finalize k c x im dts = Ok im' /\
     flat im' = firstn 64 (flat im) ++
                hmac_bytes x (k_hmac k (match m_hmac x with Some key => key | None => [] end) (firstn 64 (flat im))) ++
                skipn 64 (flat im) /\
     finalize_revert c st (flat im') = Ok (flat im)).
Proof.
  intros P. split.
  - intros Lt. unfold finalize. rewrite P. change HMAC_OFF with 64%nat. replace (app_len c x <? Z.of_nat 64) with true by (symmetry; apply Z.ltb_lt; lia). reflexivity.
  - intros Ge LF (kb & kt & Hk) Lh Lk Fl. unfold finalize. rewrite P, Hk.
    change HMAC_OFF with 64%nat. replace (app_len c x <? Z.of_nat 64) with false by (symmetry; apply Z.ltb_ge; lia).
    set (F := flat im) in *. set (hm := k_hmac k (kb :: kt) (firstn 64 F)).
    assert (SHAPE : exists im', (if existsb (Nat.eqb 64) (offsets_from im 0)
                                 then Ok (hmac_insert_between x hm im 0 false) else Ok (hmac_insert_split x hm im 0)) = Ok im'
                                /\ flat im' = firstn 64 F ++ hmac_bytes x hm ++ skipn 64 F).
    { destruct (existsb (Nat.eqb 64) (offsets_from im 0)) eqn:Ex; eexists; (split; [reflexivity|]).
      - rewrite (hmac_between_gen x hm im 0) by (try lia; exact Ex). now rewrite Nat.sub_0_r.
      - rewrite (hmac_split_gen x hm im 0) by (try lia; assumption). now rewrite Nat.sub_0_r. }
    destruct SHAPE as (im' & E & FL). exists im'. split; [exact E|]. split; [exact FL|].
    unfold finalize_revert. rewrite P, FL.
    assert (Lhm : length hm = 32%nat) by apply Lh.
    assert (L64 : length (firstn 64 F) = 64%nat) by (rewrite firstn_length; lia).
    assert (FS : flag_set (firstn 64 F ++ hmac_bytes x hm ++ skipn 64 F) G_KEY_STORE_FLAG = flag_set F G_KEY_STORE_FLAG).
    { unfold flag_set. rewrite get_flags_prefix by lia. rewrite <- (firstn_skipn 64 F) at 2. now rewrite get_flags_prefix by lia. }
    rewrite FS, Fl. change HMAC_OFF with 64%nat. f_equal.
    change HMAC_SZ with 32%nat. change KS_SZ with 1424%nat.
    set (HB := hmac_bytes x hm).
    assert (LHB : (64 + 32 + (if match m_ks x with Some _ => true | None => false end then 1424 else 0))%nat
                  = length (firstn 64 F ++ HB)).
    { rewrite app_length, L64. subst HB. unfold hmac_bytes. rewrite app_length, Lhm.
      destruct (m_ks x) as [b|] eqn:Eb; [rewrite (Lk b eq_refl)|]; simpl length; lia. }
    rewrite LHB. rewrite (app_assoc (firstn 64 F) HB (skipn 64 F)).
    rewrite skipn_app, skipn_all, Nat.sub_diag, skipn_O. cbn [app].
    rewrite <- app_assoc. rewrite firstn_app, L64, Nat.sub_diag, firstn_O, app_nil_r, firstn_firstn, Nat.min_id.
    apply firstn_skipn.
Qed.

(* ------------------------------------------------------------------ certificate-block classes: disassemble_image cuts what collect_data appended *)
Lemma sum_app_len x l :
  nodupb l = true ->
  sumz (map (mix_app_len x) l) =
  (if hasl l MixinApp then zlen (m_app x) else 0) +
  (if hasl l MixinRelocTable then (match m_table x with Some es => table_len es | None => 0 end) else 0).
Proof.
  intros Hn. induction l as [|m l IH]; [reflexivity|].
  cbn [nodupb] in Hn. apply andb_true_iff in Hn as [Hn1 Hn2]. apply negb_true_iff in Hn1.
  specialize (IH Hn2). cbn [map sumz fold_right]. fold (sumz (map (mix_app_len x) l)). rewrite IH.
  unfold hasl in *. cbn [existsb].
  destruct m; cbn [mix_app_len mixin_eqb mixin_id Z.eqb orb Pos.eqb]; rewrite ?Hn1; cbn [orb];
    repeat match goal with |- context [if ?b then _ else _] => destruct b end; lia.
Qed.

Lemma app_len_no_table c x :
  nodupb (c_mixins c) = true -> has c MixinApp = true -> has c MixinRelocTable = false -> app_len c x = zlen (m_app x).
Proof.
  intros ND HA HR. unfold app_len. rewrite sum_app_len by assumption. unfold has in *. unfold hasl. rewrite HA, HR. lia.
Qed.

Lemma no_reloc_provider l : existsb (mixin_eqb MixinRelocTable) l = false -> provider_in l SDisassemblyAppData = None.
Proof.
  induction l as [|m l IH]; [reflexivity|]. cbn [existsb]. intros H. apply orb_false_iff in H as [H1 H2].
  cbn [provider_in]. destruct m; try (cbn [definer]; apply IH; assumption). discriminate H1.
Qed.
Lemma no_reloc_attr l : existsb (mixin_eqb MixinRelocTable) l = false -> existsb (gives AAppTable) l = false.
Proof.
  induction l as [|m l IH]; [reflexivity|]. cbn [existsb]. intros H. apply orb_false_iff in H as [H1 H2].
  rewrite (IH H2). destruct m; try reflexivity. discriminate H1.
Qed.

(* the certificate-block offset word written by collect_data is the length of the application, and
   disassemble_image cuts there: what is left is the application (D20: a negative slice here returned a wrong payload) *)
Theorem disassemble_cuts_collect_lemma c x tzsize st segs tail :
  (provider c SCollect = Some ExportMixinAppTrustZoneCertBlock /\ provider c SDisassemble = Some ExportMixinAppTrustZoneCertBlock
   \/ provider c SCollect = Some ExportMixinAppCertBlockManifest /\ provider c SDisassemble = Some ExportMixinAppCertBlockManifest
      /\ m_cert st <> None) ->
  nodupb (c_mixins c) = true -> has c MixinApp = true -> has c MixinRelocTable = false -> c_type c <> 0 ->
  (56 <= length (m_app x))%nat -> (length (m_app x) mod 4 = 0)%nat ->
  collect c x = Ok segs ->
  disassemble c tzsize st (flat segs ++ tail) = Ok (set_app st (clean_ivt (m_app x))).
Proof.
  intros K ND HA HR T0 L L4 C.
  pose proof (app_len_no_table c x ND HA HR) as AL.
  assert (PR : provider c SDisassemblyAppData = None) by (apply no_reloc_provider; exact HR).
  assert (NT : has_attr c AAppTable = false) by (rewrite has_attr_gives; apply no_reloc_attr; exact HR).
  assert (SH : exists app' rest, segs = app' :: rest /\ length app' = length (m_app x) /\ rd32 OFF_CRC app' = zlen (m_app x)
                                 /\ clean_ivt app' = clean_ivt (m_app x)).
  { unfold collect in C. destruct K as [[K1 K2]|[K1 [K2 K3]]]; rewrite K1 in C.
    - destruct (m_app x) as [|b t] eqn:Ea; [simpl in L; lia|]. destruct (m_cert x) as [[pre post sg|]|]; try discriminate C.
      destruct (cert_export _ _) as [cb|]; [cbn [bind] in C|discriminate C].
      destruct (update_ivt c x (b :: t) _ _) as [app'|] eqn:U; [cbn [bind] in C|discriminate C].
      unfold reloc_segment in C. rewrite NT in C. cbn [bind app] in C. injection C as <-.
      exists app'. eexists. split; [reflexivity|].
      pose proof (update_ivt_length _ _ _ _ _ _ L U) as La. pose proof (ivt_words _ _ _ _ _ _ L U) as (_ & _ & W & _).
      split; [exact La|]. split; [|eapply clean_update; eassumption].
      rewrite W. unfold ivt_crc. destruct (Z.eqb_spec (c_type c) 0); [contradiction|]. rewrite AL. reflexivity.
    - destruct (m_app x) as [|b t] eqn:Ea; [simpl in L; lia|]. destruct (m_cert x) as [cb|]; try discriminate C.
      destruct (digest_guard c x cb) as [[]|]; [cbn [bind] in C|discriminate C].
      destruct (update_ivt c x (b :: t) _ _) as [app'|] eqn:U; [cbn [bind] in C|discriminate C].
      destruct (cert_export cb 1) as [cbb|]; [cbn [bind] in C|discriminate C].
      destruct (manifest_export c x 0) as [mf0|]; [cbn [bind] in C|discriminate C].
      pose proof (update_ivt_length _ _ _ _ _ _ L U) as La. pose proof (ivt_words _ _ _ _ _ _ L U) as (_ & _ & W & _).
      assert (Q : rd32 OFF_CRC app' = zlen (b :: t)).
      { rewrite W. unfold ivt_crc. destruct (Z.eqb_spec (c_type c) 0); [contradiction|]. rewrite AL. reflexivity. }
      destruct (has c MixinManifestCrc).
      + destruct (manifest_export c x _) as [mf|]; [cbn [bind] in C|discriminate C]. injection C as <-.
        exists app'. eexists. split; [reflexivity|]. split; [exact La|]. split; [exact Q|eapply clean_update; eassumption].
      + injection C as <-. exists app'. eexists. split; [reflexivity|]. split; [exact La|]. split; [exact Q|eapply clean_update; eassumption]. }
  destruct SH as (app' & rest & -> & La & W & CL).
  assert (CUT : firstn (natz (rd32 OFF_CRC (flat (app' :: rest) ++ tail))) (flat (app' :: rest) ++ tail) = app').
  { rewrite flat_cons, <- app_assoc. rewrite rd32_app by (rewrite off_crc_eq; lia). rewrite W. unfold natz, zlen. rewrite Nat2Z.id.
    rewrite <- La. rewrite firstn_app, firstn_all, Nat.sub_diag, firstn_O. apply app_nil_r. }
  unfold disassemble. destruct K as [[K1 K2]|[K1 [K2 K3]]]; rewrite K2.
  - rewrite CUT. unfold reloc_cut. rewrite PR. cbn [bind fst snd]. rewrite CL, pad4_id by (rewrite clean_ivt_length; assumption). reflexivity.
  - destruct (m_cert st) as [cb|]; [|contradiction]. rewrite CUT. unfold reloc_cut. rewrite PR. cbn [bind fst snd].
    rewrite CL, pad4_id by (rewrite clean_ivt_length; assumption). reflexivity.
Qed.
