(* Proofs/MbiRtProofs.v -- C01: re-export stability and parse (export x) = x for the class kinds that are proved
   end to end; stage-inverse lemmas for the others.  Depends on MbiProofs.v. *)
From Coq Require Import ZArith NArith List Bool Lia.
Require Import Value Bytes BytesProofs MbiMixinModel GenMbi MbiModel MbiProofs.
Import ListNotations.
Ltac Zify.zify_post_hook ::= Z.to_euclidean_division_equations.
Local Open Scope Z_scope.

(* ------------------------------------------------------------------ export only sees the application modulo the IVT words *)
Lemma mix_len_set_app x a m : length a = length (m_app x) -> mix_len (set_app x a) m = mix_len x m.
Proof. intros H. destruct m; simpl; try reflexivity. unfold zlen. now rewrite H. Qed.
Lemma mix_app_len_set_app x a m : length a = length (m_app x) -> mix_app_len (set_app x a) m = mix_app_len x m.
Proof. intros H. destruct m; simpl; try reflexivity. unfold zlen. now rewrite H. Qed.
Lemma total_len_set_app c x a : length a = length (m_app x) -> total_len c (set_app x a) = total_len c x.
Proof. intros H. unfold total_len. f_equal. apply map_ext. intros m. now apply mix_len_set_app. Qed.
Lemma app_len_set_app c x a : length a = length (m_app x) -> app_len c (set_app x a) = app_len c x.
Proof. intros H. unfold app_len. f_equal. apply map_ext. intros m. now apply mix_app_len_set_app. Qed.
Lemma total_len_for_cert_set_app c x a : length a = length (m_app x) -> total_len_for_cert c (set_app x a) = total_len_for_cert c x.
Proof. intros H. unfold total_len_for_cert. f_equal. apply map_ext. intros m. destruct (legacy_len m); [now apply mix_len_set_app|reflexivity]. Qed.

Lemma rd32_clean_low o app : (56 <= length app)%nat -> (o + 4 <= 32)%nat -> rd32 o (clean_ivt app) = rd32 o app.
Proof.
  intros L H. unfold rd32. f_equal. f_equal. apply firstn_skipn_nth_eq.
  - now apply clean_ivt_length.
  - intros i Hi. rewrite nth_clean_ivt by assumption.
    replace (32 <=? i)%nat with false by (symmetry; apply Nat.leb_gt; lia).
    replace (52 <=? i)%nat with false by (symmetry; apply Nat.leb_gt; lia). reflexivity.
Qed.

Lemma update_ivt_set_app c x a app total cc : update_ivt c (set_app x a) app total cc = update_ivt c x app total cc.
Proof. reflexivity. Qed.

Lemma validate_in_set_app c x l :
  (56 <= length (m_app x))%nat -> validate_in c (set_app x (clean_ivt (m_app x))) l = validate_in c x l.
Proof.
  intros L. induction l as [|m l IH]; [reflexivity|]. simpl. rewrite IH.
  assert (E : mix_validate c (set_app x (clean_ivt (m_app x))) m = mix_validate c x m); [|now rewrite E].
  destruct m; try reflexivity. simpl.
  rewrite clean_ivt_length by assumption. rewrite !rd32_clean_low by (assumption || lia). reflexivity.
Qed.

Lemma nonempty_clean app : (56 <= length app)%nat -> exists b t, clean_ivt app = b :: t.
Proof.
  intros L. pose proof (clean_ivt_length app L) as H. destruct (clean_ivt app) as [|b t]; [simpl in H; lia|eauto].
Qed.

Lemma collect_set_app c x :
  (56 <= length (m_app x))%nat -> has_attr c AIvtTable = true ->
  collect c (set_app x (clean_ivt (m_app x))) = collect c x.
Proof.
  intros L HI. pose proof (clean_ivt_length _ L) as CL.
  destruct (nonempty_clean _ L) as (b & t & Eb).
  assert (Ea : exists b' t', m_app x = b' :: t') by (destruct (m_app x) as [|b' t']; [simpl in L; lia|eauto]).
  destruct Ea as (b' & t' & Ea).
  unfold collect.
  destruct (provider c SCollect) as [[]|]; try reflexivity.
  - unfold collect_app. simpl m_app. rewrite Eb, Ea, <- Eb, <- Ea. rewrite HI.
    rewrite update_ivt_set_app, total_len_set_app, update_clean by assumption. reflexivity.
  - unfold collect_app. simpl m_app. rewrite Eb, Ea, <- Eb, <- Ea. rewrite HI.
    rewrite update_ivt_set_app, total_len_set_app, update_clean by assumption. reflexivity.
  - simpl m_app. simpl m_cert. rewrite Eb, Ea, <- Eb, <- Ea.
    destruct (m_cert x) as [[pre post sg|]|]; try reflexivity.
    rewrite total_len_for_cert_set_app, update_ivt_set_app, total_len_set_app, app_len_set_app, update_clean by assumption.
    reflexivity.
  - simpl m_app. simpl m_cert. rewrite Eb, Ea, <- Eb, <- Ea.
    destruct (m_cert x) as [cb|]; try reflexivity.
    rewrite update_ivt_set_app, total_len_set_app, app_len_set_app, update_clean by assumption. reflexivity.
  - simpl m_app. simpl m_cert. rewrite Eb, Ea, <- Eb, <- Ea.
    destruct (m_cert x) as [[pre post sg|]|]; try reflexivity.
    rewrite update_ivt_set_app, total_len_set_app, app_len_set_app, update_clean by assumption. reflexivity.
Qed.

Lemma post_encrypt_set_app c x a im : length a = length (m_app x) -> post_encrypt c (set_app x a) im = post_encrypt c x im.
Proof.
  intros H. unfold post_encrypt. destruct (provider c SPostEncrypt) as [[]|]; try reflexivity.
  simpl m_cert. destruct (m_cert x) as [[pre post sg|]|]; try reflexivity.
  rewrite update_ivt_set_app, total_len_set_app, app_len_set_app by assumption. reflexivity.
Qed.

Lemma hmac_insert_between_set_app x a hm im off b : hmac_insert_between (set_app x a) hm im off b = hmac_insert_between x hm im off b.
Proof. revert off b; induction im as [|s t IH]; intros off b; simpl; [reflexivity|]. now rewrite IH. Qed.
Lemma hmac_insert_split_set_app x a hm im off : hmac_insert_split (set_app x a) hm im off = hmac_insert_split x hm im off.
Proof. revert off; induction im as [|s t IH]; intros off; simpl; [reflexivity|]. now rewrite IH. Qed.
Lemma finalize_set_app k c x a im dts : length a = length (m_app x) -> finalize k c (set_app x a) im dts = finalize k c x im dts.
Proof.
  intros H. unfold finalize. destruct (provider c SFinalize) as [[]|]; try reflexivity.
  simpl m_hmac. now rewrite app_len_set_app, hmac_insert_between_set_app, hmac_insert_split_set_app.
Qed.

(* re-exporting the parsed application (IVT words zeroed) gives the same image, for EVERY class with an IVT *)
Lemma export_clean_app k c x :
  (56 <= length (m_app x))%nat -> has_attr c AIvtTable = true ->
  export_mbi k c (set_app x (clean_ivt (m_app x))) = export_mbi k c x.
Proof.
  intros L HI. unfold export_mbi, export_image. destruct (negb (supported c)); [reflexivity|].
  unfold validate. rewrite validate_in_set_app by assumption.
  destruct (validate_in c x (c_mixins c)) as [[]|]; simpl; [|reflexivity].
  rewrite collect_set_app by assumption.
  destruct (collect c x) as [raw|]; simpl; [|reflexivity].
  change (encrypt k c (set_app x (clean_ivt (m_app x))) raw) with (encrypt k c x raw).
  destruct (encrypt k c x raw) as [enc|]; simpl; [|reflexivity].
  rewrite post_encrypt_set_app by (now apply clean_ivt_length).
  destruct (post_encrypt c x enc) as [enc2|]; simpl; [|reflexivity].
  change (sign k c (set_app x (clean_ivt (m_app x))) enc2) with (sign k c x enc2).
  destruct (sign k c x enc2) as [sg|]; simpl; [|reflexivity].
  now rewrite finalize_set_app by (now apply clean_ivt_length).
Qed.

