(* Proofs/MbiRtProofs.v -- C01: re-export stability and parse (export x) = x for the class kinds that are proved
   end to end; stage-inverse lemmas for the others.  Depends on MbiProofs.v. *)
From Coq Require Import ZArith NArith List Bool Lia.
Require Import Value Bytes BytesProofs MbiMixinModel GenMbi MbiModel MbiProofs.
Import ListNotations.
Ltac Zify.zify_post_hook ::= Z.to_euclidean_division_equations.
Local Open Scope Z_scope.

(* ------------------------------------------------------------------ export only sees the application modulo the IVT words *)
Lemma mix_len_set_app x a m : length a = length (m_app x) -> mix_len (set_app x a) m = mix_len x m.
Proof. intros H. destruct m; simpl; try reflexivity. unfold zlen. now rewrite H. Qed.
Lemma mix_app_len_set_app x a m : length a = length (m_app x) -> mix_app_len (set_app x a) m = mix_app_len x m.
Proof. intros H. destruct m; simpl; try reflexivity. unfold zlen. now rewrite H. Qed.
Lemma total_len_set_app c x a : length a = length (m_app x) -> total_len c (set_app x a) = total_len c x.
Proof. intros H. unfold total_len. f_equal. apply map_ext. intros m. now apply mix_len_set_app. Qed.
Lemma app_len_set_app c x a : length a = length (m_app x) -> app_len c (set_app x a) = app_len c x.
Proof. intros H. unfold app_len. f_equal. apply map_ext. intros m. now apply mix_app_len_set_app. Qed.
Lemma total_len_for_cert_set_app c x a : length a = length (m_app x) -> total_len_for_cert c (set_app x a) = total_len_for_cert c x.
Proof. intros H. unfold total_len_for_cert. f_equal. apply map_ext. intros m. destruct (legacy_len m); [now apply mix_len_set_app|reflexivity]. Qed.

Lemma rd32_clean_low o app : (56 <= length app)%nat -> (o + 4 <= 32)%nat -> rd32 o (clean_ivt app) = rd32 o app.
Proof.
  intros L H. unfold rd32. f_equal. f_equal. apply firstn_skipn_nth_eq.
  - now apply clean_ivt_length.
  - intros i Hi. rewrite nth_clean_ivt by assumption.
    replace (32 <=? i)%nat with false by (symmetry; apply Nat.leb_gt; lia).
    replace (52 <=? i)%nat with false by (symmetry; apply Nat.leb_gt; lia). reflexivity.
Qed.

Lemma update_ivt_set_app c x a app total cc : update_ivt c (set_app x a) app total cc = update_ivt c x app total cc.
Proof. reflexivity. Qed.

Lemma validate_in_set_app c x l :
  (56 <= length (m_app x))%nat -> validate_in c (set_app x (clean_ivt (m_app x))) l = validate_in c x l.
Proof.
  intros L. induction l as [|m l IH]; [reflexivity|]. simpl. rewrite IH.
  assert (E : mix_validate c (set_app x (clean_ivt (m_app x))) m = mix_validate c x m); [|now rewrite E].
  destruct m; try reflexivity. simpl.
  rewrite clean_ivt_length by assumption. rewrite !rd32_clean_low by (assumption || lia). reflexivity.
Qed.

Lemma nonempty_clean app : (56 <= length app)%nat -> exists b t, clean_ivt app = b :: t.
Proof.
  intros L. pose proof (clean_ivt_length app L) as H. destruct (clean_ivt app) as [|b t]; [simpl in H; lia|eauto].
Qed.

Lemma collect_set_app c x :
  (56 <= length (m_app x))%nat -> has_attr c AIvtTable = true ->
  collect c (set_app x (clean_ivt (m_app x))) = collect c x.
Proof.
  intros L HI. pose proof (clean_ivt_length _ L) as CL.
  destruct (nonempty_clean _ L) as (b & t & Eb).
  assert (Ea : exists b' t', m_app x = b' :: t') by (destruct (m_app x) as [|b' t']; [simpl in L; lia|eauto]).
  destruct Ea as (b' & t' & Ea).
  unfold collect.
  destruct (provider c SCollect) as [[]|]; try reflexivity.
  - unfold collect_app. simpl m_app. rewrite Eb, Ea, <- Eb, <- Ea. rewrite HI.
    rewrite update_ivt_set_app, total_len_set_app, update_clean by assumption. reflexivity.
  - unfold collect_app. simpl m_app. rewrite Eb, Ea, <- Eb, <- Ea. rewrite HI.
    rewrite update_ivt_set_app, total_len_set_app, update_clean by assumption. reflexivity.
  - simpl m_app. simpl m_cert. rewrite Eb, Ea, <- Eb, <- Ea.
    destruct (m_cert x) as [[pre post sg|]|]; try reflexivity.
    rewrite total_len_for_cert_set_app, update_ivt_set_app, total_len_set_app, app_len_set_app, update_clean by assumption.
    reflexivity.
  - simpl m_app. simpl m_cert. rewrite Eb, Ea, <- Eb, <- Ea.
    destruct (m_cert x) as [cb|]; try reflexivity.
    rewrite update_ivt_set_app, total_len_set_app, app_len_set_app, update_clean by assumption. reflexivity.
  - simpl m_app. simpl m_cert. rewrite Eb, Ea, <- Eb, <- Ea.
    destruct (m_cert x) as [[pre post sg|]|]; try reflexivity.
    rewrite update_ivt_set_app, total_len_set_app, app_len_set_app, update_clean by assumption. reflexivity.
Qed.

Lemma post_encrypt_set_app c x a im : length a = length (m_app x) -> post_encrypt c (set_app x a) im = post_encrypt c x im.
Proof.
  intros H. unfold post_encrypt. destruct (provider c SPostEncrypt) as [[]|]; try reflexivity.
  simpl m_cert. destruct (m_cert x) as [[pre post sg|]|]; try reflexivity.
  rewrite update_ivt_set_app, total_len_set_app, app_len_set_app by assumption. reflexivity.
Qed.

Lemma hmac_insert_between_set_app x a hm im off : hmac_insert_between (set_app x a) hm im off = hmac_insert_between x hm im off.
Proof. revert off; induction im as [|s t IH]; intros off; simpl; [reflexivity|]. now rewrite IH. Qed.
Lemma hmac_insert_split_set_app x a hm im off : hmac_insert_split (set_app x a) hm im off = hmac_insert_split x hm im off.
Proof. revert off; induction im as [|s t IH]; intros off; simpl; [reflexivity|]. now rewrite IH. Qed.
Lemma finalize_set_app k c x a im dts : finalize k c (set_app x a) im dts = finalize k c x im dts.
Proof.
  unfold finalize. destruct (provider c SFinalize) as [[]|]; try reflexivity.
  simpl m_hmac. now rewrite hmac_insert_between_set_app, hmac_insert_split_set_app.
Qed.

(* re-exporting the parsed application (IVT words zeroed) gives the same image, for EVERY class with an IVT *)
Lemma export_clean_app k c x :
  (56 <= length (m_app x))%nat -> has_attr c AIvtTable = true ->
  export_mbi k c (set_app x (clean_ivt (m_app x))) = export_mbi k c x.
Proof.
  intros L HI. unfold export_mbi, export_image. destruct (negb (supported c)); [reflexivity|].
  unfold validate. rewrite validate_in_set_app by assumption.
  destruct (validate_in c x (c_mixins c)) as [[]|]; simpl; [|reflexivity].
  rewrite collect_set_app by assumption.
  destruct (collect c x) as [raw|]; simpl; [|reflexivity].
  change (encrypt k c (set_app x (clean_ivt (m_app x))) raw) with (encrypt k c x raw).
  destruct (encrypt k c x raw) as [enc|]; simpl; [|reflexivity].
  rewrite post_encrypt_set_app by (now apply clean_ivt_length).
  destruct (post_encrypt c x enc) as [enc2|]; simpl; [|reflexivity].
  change (sign k c (set_app x (clean_ivt (m_app x))) enc2) with (sign k c x enc2).
  destruct (sign k c x enc2) as [sg|]; simpl; [|reflexivity].
  now rewrite finalize_set_app.
Qed.

(* ------------------------------------------------------------------ plain / CRC classes (ExportMixinApp / ExportMixinAppTrustZone
   with optional ExportMixinCrcSign): parse (export x) = x *)
Definition allowed_plain (m : mixin) : bool :=
  match m with
  | MixinApp | MixinTrustZone | MixinTrustZoneMandatory | MixinLoadAddress | MixinLoadAddressOptional | MixinFwVersion
  | MixinImageVersion | MixinImageSubType | MixinIvt | MixinIvtZeroTotalLength | MixinRelocTable | MixinHwKey
  | ExportMixinApp | ExportMixinAppTrustZone | ExportMixinCrcSign => true
  | _ => false
  end.
Definition wf_plain_crc (c : mbi_class) : bool :=
  forallb allowed_plain (c_mixins c) && has c MixinApp && has_attr c AIvtTable &&
  (0 <=? c_type c) && (c_type c <? 64) &&
  (match provider c SCollect with
   | Some ExportMixinApp => negb (has_attr c ATrustZone)
   | Some ExportMixinAppTrustZone => has_attr c ATrustZone
   | _ => false
   end) &&
  (opt_mixin_id (provider c SDisassemble) =? opt_mixin_id (provider c SCollect)).

Definition upd (x : mbi) (m : mixin) (st : mbi) : mbi :=
  match m with
  | MixinTrustZone | MixinTrustZoneMandatory => set_tz st (m_tz x)
  | MixinLoadAddress | MixinLoadAddressOptional => set_load st (m_load x)
  | MixinImageVersion => set_imgver st (m_imgver x)
  | MixinImageSubType => set_subtype st (m_subtype x)
  | MixinHwKey => set_hwkey st (m_hwkey x)
  | _ => st
  end.
Definition gives (a : attr) (m : mixin) : bool := existsb (attr_eqb a) (mixin_attrs m).
Lemma has_attr_gives c a : has_attr c a = existsb (gives a) (c_mixins c).
Proof. reflexivity. Qed.

Definition parsed_plain (c : mbi_class) (x : mbi) : mbi :=
  {| m_app := clean_ivt (m_app x);
     m_load := if has_attr c ALoadAddress then m_load x else 0;
     m_imgver := if has_attr c AImageVersion then m_imgver x else 0;
     m_subtype := if has_attr c AImageSubtype then m_subtype x else 0;
     m_fwver := 0;
     m_tz := if has_attr c ATrustZone then m_tz x else TzEnabled;
     m_hwkey := if has_attr c AHwKey then m_hwkey x else false;
     m_ks := None; m_hmac := None; m_iv := []; m_table := None; m_cert := None; m_digest := 0 |}.

Lemma fold_upd_fields x l : forall st,
  let st' := fold_left (fun s m => upd x m s) l st in
  m_app st' = m_app st /\ m_fwver st' = m_fwver st /\ m_ks st' = m_ks st /\ m_hmac st' = m_hmac st /\
  m_iv st' = m_iv st /\ m_table st' = m_table st /\ m_cert st' = m_cert st /\ m_digest st' = m_digest st /\
  m_load st' = (if existsb (gives ALoadAddress) l then m_load x else m_load st) /\
  m_imgver st' = (if existsb (gives AImageVersion) l then m_imgver x else m_imgver st) /\
  m_subtype st' = (if existsb (gives AImageSubtype) l then m_subtype x else m_subtype st) /\
  m_tz st' = (if existsb (gives ATrustZone) l then m_tz x else m_tz st) /\
  m_hwkey st' = (if existsb (gives AHwKey) l then m_hwkey x else m_hwkey st).
Proof.
  induction l as [|m l IH]; intros st; simpl; [repeat split; reflexivity|].
  specialize (IH (upd x m st)). simpl in IH.
  destruct IH as (I1 & I2 & I3 & I4 & I5 & I6 & I7 & I8 & I9 & I10 & I11 & I12 & I13).
  rewrite I1, I2, I3, I4, I5, I6, I7, I8, I9, I10, I11, I12, I13.
  destruct m; simpl; repeat split; try reflexivity;
    repeat match goal with |- context [if ?b then _ else _] => destruct b end; reflexivity.
Qed.

Lemma mbi_ext (a b : mbi) :
  m_app a = m_app b -> m_load a = m_load b -> m_imgver a = m_imgver b -> m_subtype a = m_subtype b ->
  m_fwver a = m_fwver b -> m_tz a = m_tz b -> m_hwkey a = m_hwkey b -> m_ks a = m_ks b -> m_hmac a = m_hmac b ->
  m_iv a = m_iv b -> m_table a = m_table b -> m_cert a = m_cert b -> m_digest a = m_digest b -> a = b.
Proof. destruct a, b; simpl; intros; subst; reflexivity. Qed.

(* stages no allowed mixin provides *)
Lemma provider_none_plain l s :
  forallb allowed_plain l = true ->
  match s with SEncrypt | SPostEncrypt | SFinalize => provider_in l s = None | _ => True end.
Proof.
  intros H. destruct s; try exact I; induction l as [|m l IH]; try reflexivity;
    simpl in H; apply andb_true_iff in H as [H1 H2]; destruct m; try discriminate; simpl; apply IH; assumption.
Qed.
Lemma provider_sign_plain l :
  forallb allowed_plain l = true -> provider_in l SSign = None \/ provider_in l SSign = Some ExportMixinCrcSign.
Proof.
  intros H. induction l as [|m l IH]; [left; reflexivity|].
  simpl in H; apply andb_true_iff in H as [H1 H2]. destruct m; try discriminate; simpl; auto.
Qed.
Lemma supported_plain l : forallb allowed_plain l = true -> existsb unsupported_mixin l = false.
Proof.
  intros H. induction l as [|m l IH]; [reflexivity|].
  simpl in H; apply andb_true_iff in H as [H1 H2]. simpl. rewrite (IH H2). destruct m; try discriminate; reflexivity.
Qed.
Lemma no_cert_plain l : forallb allowed_plain l = true -> existsb (gives ACertBlock) l = false.
Proof.
  intros H. induction l as [|m l IH]; [reflexivity|].
  simpl in H; apply andb_true_iff in H as [H1 H2]. simpl. rewrite (IH H2). destruct m; try discriminate; reflexivity.
Qed.
Lemma no_manifest_plain l : forallb allowed_plain l = true ->
  existsb (mixin_eqb MixinManifestCrc) l = false /\ existsb (mixin_eqb MixinManifestDigest) l = false.
Proof.
  intros H. induction l as [|m l IH]; [split; reflexivity|].
  simpl in H; apply andb_true_iff in H as [H1 H2]. destruct (IH H2) as [A B]. simpl. rewrite A, B.
  destruct m; try discriminate; split; reflexivity.
Qed.
Lemma clean_provider l : existsb (gives AIvtTable) l = true -> exists d, provider_in l SCleanIvt = Some d.
Proof.
  induction l as [|m l IH]; [discriminate|]. intros H. cbn [existsb] in H. apply orb_true_iff in H as [H|H].
  - destruct m; cbv in H; try discriminate H; cbn [provider_in definer]; eauto.
  - destruct (IH H) as [d Hd]. cbn [provider_in]. destruct (definer m SCleanIvt); eauto.
Qed.
Lemma reloc_provider l : provider_in l SDisassemblyAppData = None \/ provider_in l SDisassemblyAppData = Some MixinRelocTable.
Proof. induction l as [|m l IH]; [left; reflexivity|]. destruct m; simpl; auto. Qed.

Record data_ok (c : mbi_class) (x : mbi) (tzsize : nat) (data : list N) : Prop := {
  d_flags : get_flags data = create_flags c x;
  d_load : rd32 OFF_LOAD data = ivt_load c x;
  d_tz : has_attr c ATrustZone = true -> forall d, m_tz x = TzCustom d ->
         tz_from_binary tzsize (match tzsize with O => data | _ => take_last tzsize data end) = Ok (TzCustom d) }.

Lemma in_gives_has_attr c a m : In m (c_mixins c) -> gives a m = true -> has_attr c a = true.
Proof. intros Hi Hg. rewrite has_attr_gives. apply existsb_exists. eauto. Qed.

Lemma mix_parse_plain c x tzsize sigsz dek data m st :
  0 <= c_type c < 64 -> 0 <= m_subtype x < 4 -> 0 <= m_imgver x < 65536 ->
  has_attr c ACertBlock = false -> has_tz c = has_attr c ATrustZone ->
  data_ok c x tzsize data -> allowed_plain m = true -> In m (c_mixins c) ->
  mix_parse c tzsize sigsz dek data m st = Ok (upd x m st).
Proof.
  intros R1 R2 R3 NC HT [DF DL DT] Ha Hi.
  pose proof (flags_decode_lemma c x R1 R2 R3) as (F0 & F1 & F2 & F3 & F4 & F5 & F6 & F7).
  destruct m; try discriminate Ha; try reflexivity; unfold mix_parse, flag_set, upd; rewrite ?DF, ?DL.
  - (* MixinTrustZone *)
    pose proof (in_gives_has_attr c ATrustZone MixinTrustZone Hi eq_refl) as HA.
    rewrite F2, HT, HA, NC.
    destruct (m_tz x) as [|d|] eqn:E; cbn [tz_tag]; try reflexivity.
    change (G_TZ_CUSTOM =? G_TZ_CUSTOM) with true. cbv iota. rewrite (DT HA d eq_refl). reflexivity.
  - (* MixinTrustZoneMandatory *)
    pose proof (in_gives_has_attr c ATrustZone MixinTrustZoneMandatory Hi eq_refl) as HA.
    rewrite F2, HT, HA, NC.
    destruct (m_tz x) as [|d|] eqn:E; cbn [tz_tag]; try reflexivity.
    change (G_TZ_CUSTOM =? G_TZ_CUSTOM) with true. cbv iota. rewrite (DT HA d eq_refl). reflexivity.
  - unfold ivt_load. now rewrite (in_gives_has_attr c ALoadAddress MixinLoadAddress Hi eq_refl).
  - unfold ivt_load. now rewrite (in_gives_has_attr c ALoadAddress MixinLoadAddressOptional Hi eq_refl).
  - rewrite F7. now rewrite (in_gives_has_attr c AImageVersion MixinImageVersion Hi eq_refl).
  - rewrite F3. now rewrite (in_gives_has_attr c AImageSubtype MixinImageSubType Hi eq_refl).
  - rewrite F4. now rewrite (in_gives_has_attr c AHwKey MixinHwKey Hi eq_refl).
Qed.

Lemma parse_round_plain c x tzsize sigsz dek data l : forall st,
  0 <= c_type c < 64 -> 0 <= m_subtype x < 4 -> 0 <= m_imgver x < 65536 ->
  has_attr c ACertBlock = false -> has_tz c = has_attr c ATrustZone -> data_ok c x tzsize data ->
  forallb allowed_plain l = true -> (forall m, In m l -> In m (c_mixins c)) ->
  parse_round c tzsize sigsz dek data l st = Ok (fold_left (fun s m => upd x m s) l st, []).
Proof.
  induction l as [|m l IH]; intros st R1 R2 R3 NC HT D Ha Hs; [reflexivity|].
  simpl in Ha. apply andb_true_iff in Ha as [Ha1 Ha2].
  cbn [parse_round]. rewrite NC, andb_false_r. cbn [andb].
  rewrite (mix_parse_plain c x tzsize sigsz dek data m st R1 R2 R3 NC HT D Ha1) by (apply Hs; now left).
  cbn [bind]. rewrite IH; try assumption; [reflexivity|]. intros m' Hm'. apply Hs. now right.
Qed.

(* bytes of a two-part image *)
Lemma rd32_app o (a b : list N) : (o + 4 <= length a)%nat -> rd32 o (a ++ b) = rd32 o a.
Proof.
  intros H. unfold rd32. f_equal. f_equal. rewrite skipn_app. replace (o - length a)%nat with 0%nat by lia.
  rewrite firstn_app. rewrite skipn_length. replace (4 - (length a - o))%nat with 0%nat by lia.
  simpl. now rewrite app_nil_r.
Qed.
Lemma take_last_app (a b : list N) : take_last (length b) (a ++ b) = b.
Proof.
  unfold take_last. rewrite app_length. replace (length a + length b - length b)%nat with (length a) by lia.
  rewrite skipn_app, skipn_all, Nat.sub_diag. reflexivity.
Qed.
Lemma drop_last_app (a b : list N) : drop_last (length b) (a ++ b) = a.
Proof.
  unfold drop_last. rewrite app_length. replace (length a + length b - length b)%nat with (length a) by lia.
  rewrite firstn_app, firstn_all, Nat.sub_diag. simpl. apply app_nil_r.
Qed.
Lemma pad4_id (d : list N) : (length d mod 4 = 0)%nat -> pad4 d = d.
Proof. intros H. unfold pad4. rewrite H. simpl. apply app_nil_r. Qed.

Lemma clean_wr_crc w d : length w = 4%nat -> (56 <= length d)%nat -> clean_ivt (wr OFF_CRC w d) = clean_ivt d.
Proof.
  intros Hw L. rewrite off_crc_eq. assert (Lw : length (wr 40 w d) = length d) by (apply wr_length; lia).
  apply list_eq_nth; [rewrite !clean_ivt_length; lia|].
  intros i _. rewrite !nth_clean_ivt by lia. rewrite nth_wr by lia. rewrite Hw.
  destruct (32 <=? i)%nat eqn:B1; destruct (i <? 44)%nat eqn:B2; destruct (52 <=? i)%nat eqn:B3; destruct (i <? 56)%nat eqn:B4;
    simpl; try reflexivity;
    repeat match goal with H : (_ <=? _)%nat = true |- _ => apply Nat.leb_le in H
                        | H : (_ <=? _)%nat = false |- _ => apply Nat.leb_gt in H
                        | H : (_ <? _)%nat = true |- _ => apply Nat.ltb_lt in H
                        | H : (_ <? _)%nat = false |- _ => apply Nat.ltb_ge in H end;
    decide_ltb; try reflexivity; lia.
Qed.

Lemma flat_cons (a : list N) t : flat (a :: t) = a ++ flat t.
Proof. reflexivity. Qed.
Lemma flat_tz_segment x : flat (tz_segment x) = tz_export (m_tz x).
Proof. unfold tz_segment, flat. destruct (tz_export (m_tz x)); simpl; [reflexivity|now rewrite app_nil_r]. Qed.

Lemma has_in c m : has c m = true -> In m (c_mixins c).
Proof.
  unfold has. intros H. apply existsb_exists in H as (m' & Hi & He). unfold mixin_eqb in He. apply Z.eqb_eq in He.
  assert (m = m') by (destruct m, m'; try reflexivity; discriminate He). now subst.
Qed.

Definition tz_part (c : mbi_class) (x : mbi) : list N := if has_attr c ATrustZone then tz_export (m_tz x) else [].

Lemma crc_write_head s t w : (40 <= length s)%nat -> crc_write (s :: t) 0 w = Some (wr OFF_CRC w s :: t).
Proof.
  intros H. cbn [crc_write]. replace (Nat.leb 0 OFF_CRC && Nat.leb OFF_CRC (0 + length s)) with true
    by (symmetry; rewrite off_crc_eq; apply andb_true_iff; split; apply Nat.leb_le; lia).
  now rewrite Nat.sub_0_r.
Qed.

(* shape of the exported image of a plain / CRC class *)
Lemma export_plain_shape k c x im :
  wf_plain_crc c = true -> (56 <= length (m_app x))%nat -> m_table x = None ->
  export_mbi k c x = Ok im ->
  exists app' app'', update_ivt c x (m_app x) (total_len c x) 0 = Ok app' /\
    (app'' = app' \/ exists w, length w = 4%nat /\ app'' = wr OFF_CRC w app') /\
    im = app'' ++ tz_part c x.
Proof.
  intros W L HT E. unfold wf_plain_crc in W.
  repeat (apply andb_true_iff in W as [W ?]).
  rename H into Wd, H0 into Wc, H1 into Wt2, H2 into Wt1, H3 into Wi, H4 into Wa.
  unfold export_mbi, export_image in E. unfold supported in E. rewrite (supported_plain _ W) in E. cbn [negb] in E.
  destruct (validate c x) as [[]|] eqn:V; cbn [bind] in E; [|discriminate].
  pose proof (provider_none_plain (c_mixins c) SEncrypt W) as PE. pose proof (provider_none_plain (c_mixins c) SPostEncrypt W) as PP.
  pose proof (provider_none_plain (c_mixins c) SFinalize W) as PF. cbn in PE, PP, PF.
  assert (CA : exists app', update_ivt c x (m_app x) (total_len c x) 0 = Ok app' /\ collect_app c x = Ok [app']).
  { unfold collect, collect_app in *. destruct (m_app x) as [|b t] eqn:Ea; [simpl in L; lia|]. rewrite Wi in *.
    destruct (update_ivt c x (b :: t) (total_len c x) 0) as [app'|] eqn:U.
    - exists app'. split; [reflexivity|]. cbn [bind]. unfold reloc_segment. rewrite HT. destruct (has_attr c AAppTable); reflexivity.
    - exfalso. destruct (provider c SCollect) as [[]|]; try discriminate Wc; cbn [bind] in E; discriminate E. }
  destruct CA as (app' & U & CA). exists app'.
  assert (La : length app' = length (m_app x)) by (eapply update_ivt_length; eassumption).
  assert (COL : collect c x = Ok ([app'] ++ (if has_attr c ATrustZone then tz_segment x else []))).
  { unfold collect. destruct (provider c SCollect) as [[]|]; try discriminate Wc; rewrite CA; cbn [bind].
    - apply negb_true_iff in Wc. rewrite Wc. reflexivity.
    - rewrite Wc. reflexivity. }
  rewrite COL in E. cbn [bind] in E.
  unfold encrypt, provider in E. rewrite PE in E. cbn [bind] in E.
  unfold post_encrypt, provider in E. rewrite PP in E. cbn [bind] in E.
  assert (FT : flat (if has_attr c ATrustZone then tz_segment x else []) = tz_part c x).
  { unfold tz_part. destruct (has_attr c ATrustZone); [apply flat_tz_segment|reflexivity]. }
  unfold sign, provider in E. destruct (provider_sign_plain _ W) as [PS|PS]; rewrite PS in E; cbn [bind fst snd] in E.
  - exists app'. split; [assumption|]. split; [now left|].
    unfold finalize, provider in E. rewrite PF in E. cbn [res_map] in E. injection E as <-.
    rewrite ?flat_cons. f_equal. exact FT.
  - change ([app'] ++ (if has_attr c ATrustZone then tz_segment x else []))
      with (app' :: (if has_attr c ATrustZone then tz_segment x else [])) in E.
    match type of E with context [crc_write _ 0 ?w] => remember w as cw eqn:Ecw end.
    rewrite crc_write_head in E by lia.
    cbn [bind fst snd] in E. unfold finalize, provider in E. rewrite PF in E. cbn [res_map] in E. injection E as <-.
    exists (wr OFF_CRC cw app'). split; [assumption|]. split; [right; exists cw; split; [subst cw; apply le_enc_length|reflexivity]|].
    rewrite ?flat_cons. f_equal. exact FT.
Qed.

Lemma opt_id_eq_app p : opt_mixin_id p = opt_mixin_id (Some ExportMixinApp) -> p = Some ExportMixinApp.
Proof. destruct p as [[]|]; cbv; intros H; try discriminate H; reflexivity. Qed.
Lemma opt_id_eq_apptz p : opt_mixin_id p = opt_mixin_id (Some ExportMixinAppTrustZone) -> p = Some ExportMixinAppTrustZone.
Proof. destruct p as [[]|]; cbv; intros H; try discriminate H; reflexivity. Qed.

Lemma parse_rounds_nil fuel c tzsize sigsz dek data st : parse_rounds fuel c tzsize sigsz dek data [] st = Ok st.
Proof. destruct fuel; reflexivity. Qed.

Lemma parse_rounds_step f c tzsize sigsz dek data l st : l <> [] ->
  parse_rounds (S f) c tzsize sigsz dek data l st =
  bind (parse_round c tzsize sigsz dek data l st) (fun r => parse_rounds f c tzsize sigsz dek data (snd r) (fst r)).
Proof. destruct l; [congruence | reflexivity]. Qed.

Theorem roundtrip_plain_crc k c x tzsize sigsz dek im :
  wf_plain_crc c = true ->
  (56 <= length (m_app x))%nat -> (length (m_app x) mod 4 = 0)%nat ->
  0 <= m_subtype x < 4 -> 0 <= m_imgver x < 65536 ->
  m_table x = None ->
  (forall d, m_tz x = TzCustom d -> length d = tzsize /\ (0 < tzsize)%nat) ->
  export_mbi k c x = Ok im ->
  (has c MixinRelocTable = true -> table_parse (firstn (length (m_app x)) im) = Ok None) ->
  parse_mbi k c tzsize sigsz dek im = Ok (parsed_plain c x).
Proof.
  intros W L L4 R2 R3 HT HZ E HR.
  destruct (export_plain_shape k c x im W L HT E) as (app' & app'' & U & HA & ->).
  pose proof W as W'. unfold wf_plain_crc in W'. repeat (apply andb_true_iff in W' as [W' ?]).
  rename H into Wd, H0 into Wc, H1 into Wt2, H2 into Wt1, H3 into Wi, H4 into Wa.
  assert (R1 : 0 <= c_type c < 64) by (apply Z.leb_le in Wt1; apply Z.ltb_lt in Wt2; lia).
  assert (La : length app' = length (m_app x)) by (eapply update_ivt_length; eassumption).
  destruct (ivt_words c x (m_app x) (total_len c x) 0 app' L U) as (IW1 & IW2 & IW3 & IW4).
  assert (La'' : length app'' = length (m_app x)).
  { destruct HA as [->|(w & Hw & ->)]; [assumption|]. rewrite off_crc_eq, wr_length; lia. }
  assert (F'' : rd32 OFF_FLAGS app'' = create_flags c x /\ rd32 OFF_LOAD app'' = ivt_load c x).
  { destruct HA as [->|(w & Hw & ->)]; [auto|]. rewrite off_crc_eq, off_flags_eq, off_load_eq in *.
    rewrite !rd32_wr_other by lia. auto. }
  destruct F'' as [FF FL].
  assert (CL : clean_ivt app'' = clean_ivt (m_app x)).
  { destruct HA as [->|(w & Hw & ->)]; [|rewrite clean_wr_crc by lia]; eapply clean_update; eassumption. }
  assert (NC : has_attr c ACertBlock = false) by (rewrite has_attr_gives; now apply no_cert_plain).
  assert (HTZ : has_tz c = has_attr c ATrustZone).
  { unfold has_tz, has_manifest, has. destruct (no_manifest_plain _ W') as [-> ->]. now rewrite orb_false_r. }
  assert (D : data_ok c x tzsize (app'' ++ tz_part c x)).
  { split.
    - unfold get_flags. rewrite rd32_app by (rewrite off_flags_eq; lia). exact FF.
    - rewrite rd32_app by (rewrite off_load_eq; lia). exact FL.
    - intros HA2 d Ed. destruct (HZ d Ed) as [Ld Lz]. destruct tzsize as [|n]; [lia|].
      unfold tz_part. rewrite HA2, Ed. cbn [tz_export].
      replace (take_last (S n) (app'' ++ d)) with d by (rewrite <- Ld; symmetry; apply take_last_app).
      unfold tz_from_binary. rewrite Ld, Nat.ltb_irrefl. rewrite <- Ld. now rewrite firstn_all. }
  (* parse *)
  unfold parse_mbi. unfold supported. rewrite (supported_plain _ W'). cbn [negb].
  assert (NE : c_mixins c <> []).
  { apply has_in in Wa. destruct (c_mixins c) as [|m t]; [contradiction|congruence]. }
  rewrite parse_rounds_step by assumption.
  rewrite (parse_round_plain c x tzsize sigsz dek (app'' ++ tz_part c x) (c_mixins c) mbi_default R1 R2 R3 NC HTZ D W')
    by (intros; assumption).
  cbn [bind fst snd]. rewrite parse_rounds_nil. cbn [bind].
  set (st := fold_left (fun s m => upd x m s) (c_mixins c) mbi_default).
  pose proof (fold_upd_fields x (c_mixins c) mbi_default) as FU. cbv zeta in FU. fold st in FU.
  destruct FU as (U1 & U2 & U3 & U4 & U5 & U6 & U7 & U8 & U9 & U10 & U11 & U12 & U13).
  rewrite <- !has_attr_gives in *. cbn [mbi_default m_app m_fwver m_ks m_hmac m_iv m_table m_cert m_digest m_load m_imgver m_subtype m_tz m_hwkey] in *.
  pose proof (provider_none_plain (c_mixins c) SEncrypt W') as PE. pose proof (provider_none_plain (c_mixins c) SPostEncrypt W') as PP.
  pose proof (provider_none_plain (c_mixins c) SFinalize W') as PF. cbn in PE, PP, PF.
  unfold finalize_revert, provider. rewrite PF. cbn [bind].
  unfold sign_revert, provider. destruct (provider_sign_plain _ W') as [PS|PS]; rewrite PS; cbn [bind];
    unfold post_encrypt_revert, encrypt_revert, provider; rewrite PP, PE; cbn [bind].
  all: destruct (clean_provider _ Wi) as (dcl & PCL).
  all: assert (CUT : cut_tz st (app'' ++ tz_part c x) = app'').
  1,3: unfold cut_tz, tz_part; rewrite U12; destruct (has_attr c ATrustZone);
       [destruct (tz_export (m_tz x)) eqn:Et; [now rewrite app_nil_r | rewrite <- Et; apply drop_last_app]
       | cbn [tz_export]; now rewrite app_nil_r].
  all: assert (TP : tz_part c x = [] \/ provider c SCollect = Some ExportMixinAppTrustZone).
  1,3: unfold tz_part; destruct (provider c SCollect) as [[]|]; try discriminate Wc;
       [apply negb_true_iff in Wc; rewrite Wc; now left | now right].
  all: assert (RC : reloc_cut c st app'' = Ok (set_table st None, app'')).
  1,3: unfold reloc_cut, provider; destruct (reloc_provider (c_mixins c)) as [PR|PR]; rewrite PR;
       [ f_equal; f_equal; apply mbi_ext; try reflexivity; cbn; now rewrite U6
       | unfold disassembly_app_data;
         assert (HM : has c MixinRelocTable = true)
           by (unfold has; clear - PR; induction (c_mixins c) as [|m l IH]; [discriminate|];
               cbn [provider_in] in PR; destruct (definer m SDisassemblyAppData) eqn:Ed;
               [destruct m; try discriminate Ed; reflexivity | cbn [existsb]; rewrite (IH PR); apply orb_true_r]);
         specialize (HR HM); rewrite <- La'', firstn_app, firstn_all, Nat.sub_diag in HR; cbn [firstn] in HR;
         rewrite app_nil_r in HR; rewrite HR; reflexivity ].
  all: assert (FIN : finish_app c (set_table st None) app'' = parsed_plain c x).
  1,3: unfold finish_app, provider; rewrite PCL, CL, pad4_id by (rewrite clean_ivt_length; assumption);
       apply mbi_ext; cbn; try reflexivity; try assumption;
       repeat match goal with |- context [if ?b then _ else _] => destruct b end; congruence.
  all: unfold disassemble; apply Z.eqb_eq in Wd.
  all: destruct TP as [TP|TP].
  all: try (rewrite TP in *).
  all: destruct (provider c SCollect) as [[]|] eqn:PC; try discriminate Wc; try discriminate TP.
  all: try (apply opt_id_eq_app in Wd); try (apply opt_id_eq_apptz in Wd); rewrite Wd.
  all: rewrite ?app_nil_r in *; rewrite ?CUT; rewrite RC; cbn [bind fst snd]; now rewrite FIN.
Qed.

(* ------------------------------------------------------------------ settings a class does not carry are at their defaults *)
Definition canonical_plain (c : mbi_class) (x : mbi) : Prop :=
  (has_attr c ALoadAddress = false -> m_load x = 0) /\ (has_attr c AImageVersion = false -> m_imgver x = 0) /\
  (has_attr c AImageSubtype = false -> m_subtype x = 0) /\ (has_attr c ATrustZone = false -> m_tz x = TzEnabled) /\
  (has_attr c AHwKey = false -> m_hwkey x = false) /\
  m_fwver x = 0 /\ m_ks x = None /\ m_hmac x = None /\ m_iv x = [] /\ m_table x = None /\ m_cert x = None /\ m_digest x = 0.

Lemma parsed_plain_canonical c x : canonical_plain c x -> parsed_plain c x = set_app x (clean_ivt (m_app x)).
Proof.
  intros (C1 & C2 & C3 & C4 & C5 & C6 & C7 & C8 & C9 & C10 & C11 & C12).
  apply mbi_ext; cbn; try reflexivity; try (symmetry; assumption);
    match goal with |- (if ?b then _ else _) = _ => destruct b eqn:Hb; [reflexivity|symmetry; auto] end.
Qed.

(* a non-trivial instance: lpc55s6x-style crc_xip class with TrustZone, 64-byte application *)
Example wf_plain_crc_instance :
  wf_plain_crc {| c_type := 5; c_mixins := [MixinApp; MixinIvt; MixinTrustZone; ExportMixinAppTrustZone; ExportMixinCrcSign] |} = true.
Proof. vm_compute. reflexivity. Qed.

(* ------------------------------------------------------------------ total length = bytes emitted (plain / CRC classes) *)
Definition hasl (l : list mixin) (m : mixin) : bool := existsb (mixin_eqb m) l.
Lemma sum_len_plain x l :
  forallb allowed_plain l = true -> nodupb l = true -> m_table x = None ->
  sumz (map (mix_len x) l) =
  (if hasl l MixinApp then zlen (m_app x) else 0) + (if hasl l MixinTrustZone then zlen (tz_export (m_tz x)) else 0) +
  (if hasl l MixinTrustZoneMandatory then zlen (tz_export (m_tz x)) else 0).
Proof.
  intros Ha Hn Ht. induction l as [|m l IH]; [reflexivity|].
  cbn [forallb] in Ha. apply andb_true_iff in Ha as [Ha1 Ha2].
  cbn [nodupb] in Hn. apply andb_true_iff in Hn as [Hn1 Hn2]. apply negb_true_iff in Hn1.
  specialize (IH Ha2 Hn2). cbn [map sumz fold_right]. fold (sumz (map (mix_len x) l)). rewrite IH.
  unfold hasl in *. cbn [existsb].
  destruct m; try discriminate Ha1; cbn [mix_len mixin_eqb mixin_id Z.eqb orb Pos.eqb]; rewrite ?Hn1, ?Ht; cbn [orb];
    repeat match goal with |- context [if ?b then _ else _] => destruct b end; lia.
Qed.

Lemma has_attr_tz_plain l : forallb allowed_plain l = true ->
  existsb (gives ATrustZone) l = hasl l MixinTrustZone || hasl l MixinTrustZoneMandatory.
Proof.
  intros H. induction l as [|m l IH]; [reflexivity|]. cbn [forallb] in H. apply andb_true_iff in H as [H1 H2].
  unfold hasl in *. cbn [existsb]. rewrite (IH H2). destruct m; try discriminate H1; cbn; 
    repeat match goal with |- context [existsb ?f ?l] => destruct (existsb f l) end; reflexivity.
Qed.

Theorem len_is_sum_plain_crc k c x im :
  wf_plain_crc c = true -> nodupb (c_mixins c) = true ->
  (has c MixinTrustZone && has c MixinTrustZoneMandatory) = false ->
  (56 <= length (m_app x))%nat -> m_table x = None ->
  export_mbi k c x = Ok im ->
  zlen im = total_len c x /\
  rd32 OFF_LEN im = (match provider c SUpdateIvt with Some MixinIvtZeroTotalLength => 0 | _ => zlen im end) /\
  rd32 OFF_FLAGS im = create_flags c x /\ rd32 OFF_LOAD im = (if has_attr c ALoadAddress then m_load x else 0).
Proof.
  intros W ND NB L HT E.
  destruct (export_plain_shape k c x im W L HT E) as (app' & app'' & U & HA & ->).
  pose proof W as W'. unfold wf_plain_crc in W'. repeat (apply andb_true_iff in W' as [W' ?]).
  rename H into Wd, H0 into Wc, H1 into Wt2, H2 into Wt1, H3 into Wi, H4 into Wa.
  assert (La : length app' = length (m_app x)) by (eapply update_ivt_length; eassumption).
  destruct (ivt_words c x (m_app x) (total_len c x) 0 app' L U) as (IW1 & IW2 & IW3 & IW4).
  assert (La'' : length app'' = length (m_app x)).
  { destruct HA as [->|(w & Hw & ->)]; [assumption|]. rewrite off_crc_eq, wr_length; lia. }
  assert (TL : total_len c x = zlen (app'' ++ tz_part c x)).
  { unfold total_len. rewrite (sum_len_plain x (c_mixins c) W' ND HT).
    unfold has in Wa, NB. unfold hasl. rewrite Wa. unfold zlen. rewrite app_length, La''.
    unfold tz_part. rewrite has_attr_gives, (has_attr_tz_plain _ W'). unfold hasl.
    destruct (existsb (mixin_eqb MixinTrustZone) (c_mixins c)), (existsb (mixin_eqb MixinTrustZoneMandatory) (c_mixins c));
      try discriminate NB; cbn [orb]; simpl length; lia. }
  assert (F'' : rd32 OFF_LEN app'' = ivt_total c (total_len c x) /\ rd32 OFF_FLAGS app'' = create_flags c x /\ rd32 OFF_LOAD app'' = ivt_load c x).
  { destruct HA as [->|(w & Hw & ->)]; [auto|]. rewrite off_crc_eq, off_flags_eq, off_load_eq, off_len_eq in *.
    rewrite !rd32_wr_other by lia. auto. }
  destruct F'' as (F1 & F2 & F3).
  split; [now rewrite TL|]. rewrite !rd32_app by (rewrite ?off_len_eq, ?off_flags_eq, ?off_load_eq; lia).
  rewrite F1, F2, F3. unfold ivt_total, ivt_load. rewrite TL. auto.
Qed.

Lemma roundtrip_plain_crc_full :
  forall (k : crypto) (c : mbi_class) (x : mbi) (tzsize sigsz : nat) (dek : option (list N)) (im : list N),
    wf_plain_crc c = true ->
    (56 <= length (m_app x))%nat -> (length (m_app x) mod 4 = 0)%nat ->
    0 <= m_subtype x < 4 -> 0 <= m_imgver x < 65536 ->
    m_table x = None ->
    (forall d, m_tz x = TzCustom d -> length d = tzsize /\ (0 < tzsize)%nat) ->
    export_mbi k c x = Ok im ->
    (has c MixinRelocTable = true -> table_parse (firstn (length (m_app x)) im) = Ok None) ->
    parse_mbi k c tzsize sigsz dek im = Ok (parsed_plain c x) /\
    (canonical_plain c x ->
       parsed_plain c x = set_app x (clean_ivt (m_app x)) /\ export_mbi k c (parsed_plain c x) = Ok im).
Proof.
  intros k c x tzsize sigsz dek im W L L4 R2 R3 HT HZ E HR.
  split; [exact (roundtrip_plain_crc k c x tzsize sigsz dek im W L L4 R2 R3 HT HZ E HR)|].
  intros C. rewrite (parsed_plain_canonical c x C). split; [reflexivity|].
  rewrite export_clean_app; [exact E | exact L |].
  unfold wf_plain_crc in W. repeat (apply andb_true_iff in W as [W ?]). assumption.
Qed.

(* the hypotheses are satisfiable: a concrete class of the database, a concrete accepted input with a custom TrustZone *)
Example roundtrip_plain_crc_nonvacuous :
  let c := {| c_type := 5; c_mixins := [MixinApp; MixinIvt; MixinTrustZone; ExportMixinAppTrustZone; ExportMixinCrcSign] |} in
  let x := {| m_app := map N.of_nat (seq 1 64); m_load := 0; m_imgver := 0; m_subtype := 0; m_fwver := 0;
              m_tz := TzCustom (map N.of_nat (seq 7 8)); m_hwkey := false; m_ks := None; m_hmac := None; m_iv := [];
              m_table := None; m_cert := None; m_digest := 0 |} in
  let k := {| k_sign := fun _ => []; k_hmac := fun _ _ => []; k_ctr := fun _ _ _ d => d; k_hash := fun _ _ => [] |} in
  wf_plain_crc c = true /\ canonical_plain c x /\
  exists im, export_mbi k c x = Ok im /\ length im = 72%nat /\ parse_mbi k c 8 0 None im = Ok (parsed_plain c x).
Proof.
  cbv zeta. split; [vm_compute; reflexivity|]. split; [repeat split; intros; try reflexivity; discriminate|].
  eexists. split; [vm_compute; reflexivity|]. split; vm_compute; reflexivity.
Qed.

(* ------------------------------------------------------------------ HMAC / key-store insertion (Mbi_ExportMixinHmacKeyStoreFinalize) *)
Lemma hmac_off_eq : HMAC_OFF = 64%nat. Proof. reflexivity. Qed.
Lemma hmac_split_after x hm im off : (64 < off)%nat -> hmac_insert_split x hm im off = im.
Proof.
  revert off; induction im as [|s t IH]; intros off H; [reflexivity|]. cbn [hmac_insert_split].
  rewrite hmac_off_eq. replace (Nat.leb off 64) with false by (symmetry; apply Nat.leb_gt; lia). cbn [andb].
  rewrite IH by lia. reflexivity.
Qed.
Lemma hmac_between_after x hm im off : (64 < off)%nat -> hmac_insert_between x hm im off = im.
Proof.
  revert off; induction im as [|s t IH]; intros off H; [reflexivity|]. cbn [hmac_insert_between].
  rewrite hmac_off_eq. replace (Nat.eqb off 64) with false by (symmetry; apply Nat.eqb_neq; lia).
  rewrite IH by lia. reflexivity.
Qed.
Lemma offsets_after im off : (64 < off)%nat -> existsb (Nat.eqb HMAC_OFF) (offsets_from im off) = false.
Proof.
  revert off; induction im as [|s t IH]; intros off H; [reflexivity|]. cbn [offsets_from existsb].
  rewrite hmac_off_eq. replace (Nat.eqb 64 off) with false by (symmetry; apply Nat.eqb_neq; lia).
  rewrite <- hmac_off_eq. apply IH. lia.
Qed.

Definition hmac_bytes (x : mbi) (hm : list N) : list N := hm ++ match m_ks x with Some b => b | None => [] end.
Lemma flat_hmac_block x hm : flat (hmac_block x hm) = hmac_bytes x hm.
Proof. unfold hmac_block, hmac_bytes, flat. destruct (m_ks x); simpl; now rewrite ?app_nil_r. Qed.
Lemma flat_app (a b : image) : flat (a ++ b) = flat a ++ flat b.
Proof. apply concat_app. Qed.

(* first sub-image longer than 64 bytes: exactly one insertion, at byte 64 of the image *)
Lemma hmac_insert_once_split x hm s t :
  (64 < length s)%nat ->
  existsb (Nat.eqb HMAC_OFF) (offsets_from (s :: t) 0) = false /\
  flat (hmac_insert_split x hm (s :: t) 0) = firstn 64 (flat (s :: t)) ++ hmac_bytes x hm ++ skipn 64 (flat (s :: t)).
Proof.
  intros L. split.
  - cbn [offsets_from existsb]. replace (Nat.eqb HMAC_OFF 0) with false by reflexivity. cbn [orb].
    apply offsets_after. rewrite Nat.add_0_l. exact L.
  - cbn [hmac_insert_split]. rewrite hmac_off_eq.
    replace (Nat.leb 0 64 && Nat.ltb 64 (0 + length s)) with true
      by (symmetry; apply andb_true_iff; split; [reflexivity | apply Nat.ltb_lt; lia]).
    rewrite hmac_split_after by (rewrite Nat.add_0_l; exact L). rewrite Nat.sub_0_r.
    rewrite !flat_app, flat_hmac_block. rewrite !flat_cons. unfold flat at 1 2. cbn [concat]. rewrite !app_nil_r.
    rewrite firstn_app, skipn_app. replace (64 - length s)%nat with 0%nat by lia.
    rewrite firstn_O, skipn_O, app_nil_r. now rewrite <- !app_assoc.
Qed.

(* first sub-image of exactly 64 bytes followed by a non-empty one: exactly one insertion between them *)
Lemma hmac_insert_once_between x hm s s1 t :
  length s = 64%nat -> (0 < length s1)%nat ->
  existsb (Nat.eqb HMAC_OFF) (offsets_from (s :: s1 :: t) 0) = true /\
  flat (hmac_insert_between x hm (s :: s1 :: t) 0) =
  firstn 64 (flat (s :: s1 :: t)) ++ hmac_bytes x hm ++ skipn 64 (flat (s :: s1 :: t)).
Proof.
  intros L L1. split.
  - cbn [offsets_from existsb]. rewrite Nat.add_0_l, L. replace (Nat.eqb HMAC_OFF 64) with true by reflexivity.
    apply orb_true_r.
  - cbn [hmac_insert_between]. replace (Nat.eqb 0 HMAC_OFF) with false by reflexivity.
    rewrite Nat.add_0_l, L. replace (Nat.eqb 64 HMAC_OFF) with true by reflexivity.
    rewrite hmac_between_after by lia.
    cbn [app]. rewrite !flat_cons, flat_app, flat_hmac_block, !flat_cons.
    rewrite firstn_app, skipn_app, L, Nat.sub_diag. rewrite firstn_O, skipn_O, app_nil_r.
    rewrite firstn_all2, skipn_all2 by lia. cbn [app]. rewrite <- ?app_assoc. reflexivity.
Qed.

Lemma get_flags_prefix (a b : list N) : (40 <= length a)%nat -> get_flags (a ++ b) = get_flags a.
Proof. intros H. unfold get_flags. apply rd32_app. rewrite off_flags_eq. lia. Qed.

(* finalize inserts HMAC (+ key store) exactly once at byte 64, and finalize(revert) removes exactly that, whenever the
   first sub-image is longer than 64 bytes, or has exactly 64 bytes and is followed by a non-empty sub-image
   (this excludes the classes of findings C01-F3 and C01-F4) *)
Lemma hmac_finalize_inverse k c x st s t dts :
  provider c SFinalize = Some ExportMixinHmacKeyStoreFinalize ->
  ((64 < length s)%nat \/ (length s = 64%nat /\ exists s1 t1, t = s1 :: t1 /\ (0 < length s1)%nat)) ->
  (exists kb kt, m_hmac x = Some (kb :: kt)) ->
  (forall key data, length (k_hmac k key data) = 32%nat) ->
  (forall b, m_ks x = Some b -> length b = 1424%nat) ->
  flag_set (flat (s :: t)) G_KEY_STORE_FLAG = (match m_ks x with Some _ => true | None => false end) ->
  exists im', finalize k c x (s :: t) dts = Ok im' /\
    flat im' = firstn 64 (flat (s :: t)) ++
               hmac_bytes x (k_hmac k (match m_hmac x with Some key => key | None => [] end) (firstn 64 (flat (s :: t)))) ++
               skipn 64 (flat (s :: t)) /\
    finalize_revert c st (flat im') = Ok (flat (s :: t)).
Proof.
  intros P Sh (kb & kt & Hk) Lh Lk Fl. unfold finalize. rewrite P, Hk.
  set (F := flat (s :: t)) in *. set (hm := k_hmac k (kb :: kt) (firstn HMAC_OFF F)).
  assert (LF : (64 <= length F)%nat).
  { subst F. rewrite flat_cons, app_length. destruct Sh as [H|[H _]]; lia. }
  assert (SHAPE : exists im', (if existsb (Nat.eqb HMAC_OFF) (offsets_from (s :: t) 0)
                               then Ok (hmac_insert_between x hm (s :: t) 0) else Ok (hmac_insert_split x hm (s :: t) 0)) = Ok im'
                              /\ flat im' = firstn 64 F ++ hmac_bytes x hm ++ skipn 64 F).
  { destruct Sh as [H|[H (s1 & t1 & -> & H1)]].
    - destruct (hmac_insert_once_split x hm s t H) as [E1 E2]. rewrite E1. eexists. split; [reflexivity|exact E2].
    - destruct (hmac_insert_once_between x hm s s1 t1 H H1) as [E1 E2]. rewrite E1. eexists. split; [reflexivity|exact E2]. }
  destruct SHAPE as (im' & E & FL). exists im'. split; [exact E|]. split; [exact FL|].
  unfold finalize_revert. rewrite P, FL.
  assert (Lhm : length hm = 32%nat) by apply Lh.
  assert (L64 : length (firstn 64 F) = 64%nat) by (rewrite firstn_length; lia).
  assert (FS : flag_set (firstn 64 F ++ hmac_bytes x hm ++ skipn 64 F) G_KEY_STORE_FLAG = flag_set F G_KEY_STORE_FLAG).
  { unfold flag_set. rewrite get_flags_prefix by lia. rewrite <- (firstn_skipn 64 F) at 2. now rewrite get_flags_prefix by lia. }
  rewrite FS, Fl. rewrite hmac_off_eq. f_equal.
  change HMAC_SZ with 32%nat. change KS_SZ with 1424%nat.
  set (HB := hmac_bytes x hm).
  assert (LHB : (64 + 32 + (if match m_ks x with Some _ => true | None => false end then 1424 else 0))%nat
                = length (firstn 64 F ++ HB)).
  { rewrite app_length, L64. subst HB. unfold hmac_bytes. rewrite app_length, Lhm.
    destruct (m_ks x) as [b|] eqn:Eb; [rewrite (Lk b eq_refl)|]; simpl length; lia. }
  rewrite LHB. rewrite (app_assoc (firstn 64 F) HB (skipn 64 F)).
  rewrite skipn_app, skipn_all, Nat.sub_diag, skipn_O. cbn [app].
  rewrite <- app_assoc. rewrite firstn_app, L64, Nat.sub_diag, firstn_O, app_nil_r, firstn_firstn, Nat.min_id.
  apply firstn_skipn.
Qed.

(* ------------------------------------------------------------------ certificate-block classes: disassemble_image cuts what collect_data appended *)
Lemma sum_app_len x l :
  nodupb l = true ->
  sumz (map (mix_app_len x) l) =
  (if hasl l MixinApp then zlen (m_app x) else 0) +
  (if hasl l MixinRelocTable then (match m_table x with Some es => table_len es | None => 0 end) else 0).
Proof.
  intros Hn. induction l as [|m l IH]; [reflexivity|].
  cbn [nodupb] in Hn. apply andb_true_iff in Hn as [Hn1 Hn2]. apply negb_true_iff in Hn1.
  specialize (IH Hn2). cbn [map sumz fold_right]. fold (sumz (map (mix_app_len x) l)). rewrite IH.
  unfold hasl in *. cbn [existsb].
  destruct m; cbn [mix_app_len mixin_eqb mixin_id Z.eqb orb Pos.eqb]; rewrite ?Hn1; cbn [orb];
    repeat match goal with |- context [if ?b then _ else _] => destruct b end; lia.
Qed.

Lemma app_len_no_table c x :
  nodupb (c_mixins c) = true -> has c MixinApp = true -> has c MixinRelocTable = false -> app_len c x = zlen (m_app x).
Proof.
  intros ND HA HR. unfold app_len. rewrite sum_app_len by assumption. unfold has in *. unfold hasl. rewrite HA, HR. lia.
Qed.

Lemma no_reloc_provider l : existsb (mixin_eqb MixinRelocTable) l = false -> provider_in l SDisassemblyAppData = None.
Proof.
  induction l as [|m l IH]; [reflexivity|]. cbn [existsb]. intros H. apply orb_false_iff in H as [H1 H2].
  cbn [provider_in]. destruct m; try (cbn [definer]; apply IH; assumption). discriminate H1.
Qed.
Lemma no_reloc_attr l : existsb (mixin_eqb MixinRelocTable) l = false -> existsb (gives AAppTable) l = false.
Proof.
  induction l as [|m l IH]; [reflexivity|]. cbn [existsb]. intros H. apply orb_false_iff in H as [H1 H2].
  rewrite (IH H2). destruct m; try reflexivity. discriminate H1.
Qed.

(* the certificate-block offset word written by collect_data is the length of the application, and
   disassemble_image cuts there: what is left is the application (D20: a negative slice here returned a wrong payload) *)
Theorem disassemble_cuts_collect_lemma c x tzsize st segs tail :
  (provider c SCollect = Some ExportMixinAppTrustZoneCertBlock /\ provider c SDisassemble = Some ExportMixinAppTrustZoneCertBlock
   \/ provider c SCollect = Some ExportMixinAppCertBlockManifest /\ provider c SDisassemble = Some ExportMixinAppCertBlockManifest
      /\ m_cert st <> None) ->
  nodupb (c_mixins c) = true -> has c MixinApp = true -> has c MixinRelocTable = false -> c_type c <> 0 ->
  (56 <= length (m_app x))%nat -> (length (m_app x) mod 4 = 0)%nat ->
  collect c x = Ok segs ->
  disassemble c tzsize st (flat segs ++ tail) = Ok (set_app st (clean_ivt (m_app x))).
Proof.
  intros K ND HA HR T0 L L4 C.
  pose proof (app_len_no_table c x ND HA HR) as AL.
  assert (PR : provider c SDisassemblyAppData = None) by (apply no_reloc_provider; exact HR).
  assert (NT : has_attr c AAppTable = false) by (rewrite has_attr_gives; apply no_reloc_attr; exact HR).
  assert (SH : exists app' rest, segs = app' :: rest /\ length app' = length (m_app x) /\ rd32 OFF_CRC app' = zlen (m_app x)
                                 /\ clean_ivt app' = clean_ivt (m_app x)).
  { unfold collect in C. destruct K as [[K1 K2]|[K1 [K2 K3]]]; rewrite K1 in C.
    - destruct (m_app x) as [|b t] eqn:Ea; [simpl in L; lia|]. destruct (m_cert x) as [[pre post sg|]|]; try discriminate C.
      destruct (cert_export _ _) as [cb|]; [cbn [bind] in C|discriminate C].
      destruct (update_ivt c x (b :: t) _ _) as [app'|] eqn:U; [cbn [bind] in C|discriminate C].
      unfold reloc_segment in C. rewrite NT in C. cbn [bind app] in C. injection C as <-.
      exists app'. eexists. split; [reflexivity|].
      pose proof (update_ivt_length _ _ _ _ _ _ L U) as La. pose proof (ivt_words _ _ _ _ _ _ L U) as (_ & _ & W & _).
      split; [exact La|]. split; [|eapply clean_update; eassumption].
      rewrite W. unfold ivt_crc. destruct (Z.eqb_spec (c_type c) 0); [contradiction|]. rewrite AL. reflexivity.
    - destruct (m_app x) as [|b t] eqn:Ea; [simpl in L; lia|]. destruct (m_cert x) as [cb|]; try discriminate C.
      destruct (update_ivt c x (b :: t) _ _) as [app'|] eqn:U; [cbn [bind] in C|discriminate C].
      destruct (cert_export cb 1) as [cbb|]; [cbn [bind] in C|discriminate C].
      destruct (manifest_export c x 0) as [mf0|]; [cbn [bind] in C|discriminate C].
      pose proof (update_ivt_length _ _ _ _ _ _ L U) as La. pose proof (ivt_words _ _ _ _ _ _ L U) as (_ & _ & W & _).
      assert (Q : rd32 OFF_CRC app' = zlen (b :: t)).
      { rewrite W. unfold ivt_crc. destruct (Z.eqb_spec (c_type c) 0); [contradiction|]. rewrite AL. reflexivity. }
      destruct (has c MixinManifestCrc).
      + destruct (manifest_export c x _) as [mf|]; [cbn [bind] in C|discriminate C]. injection C as <-.
        exists app'. eexists. split; [reflexivity|]. split; [exact La|]. split; [exact Q|eapply clean_update; eassumption].
      + injection C as <-. exists app'. eexists. split; [reflexivity|]. split; [exact La|]. split; [exact Q|eapply clean_update; eassumption]. }
  destruct SH as (app' & rest & -> & La & W & CL).
  assert (CUT : firstn (natz (rd32 OFF_CRC (flat (app' :: rest) ++ tail))) (flat (app' :: rest) ++ tail) = app').
  { rewrite flat_cons, <- app_assoc. rewrite rd32_app by (rewrite off_crc_eq; lia). rewrite W. unfold natz, zlen. rewrite Nat2Z.id.
    rewrite <- La. rewrite firstn_app, firstn_all, Nat.sub_diag, firstn_O. apply app_nil_r. }
  unfold disassemble. destruct K as [[K1 K2]|[K1 [K2 K3]]]; rewrite K2.
  - rewrite CUT. unfold reloc_cut. rewrite PR. cbn [bind fst snd]. rewrite CL, pad4_id by (rewrite clean_ivt_length; assumption). reflexivity.
  - destruct (m_cert st) as [cb|]; [|contradiction]. rewrite CUT. unfold reloc_cut. rewrite PR. cbn [bind fst snd].
    rewrite CL, pad4_id by (rewrite clean_ivt_length; assumption). reflexivity.
Qed.
