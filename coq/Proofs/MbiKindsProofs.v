(* Proofs/MbiKindsProofs.v -- C01: parse (export x) = x for the signed class kinds (certificate block v2.1 + manifest,
   certificate block v1, HMAC / key store, encrypted).  Signature, HMAC, cipher and hash are the functions of the [crypto]
   record (only their output sizes and, for the cipher, the involution law are assumed); certificate blocks are byte
   strings with the header words the parser looks at.  Depends on MbiProofs.v and MbiRtProofs.v. *)
From Coq Require Import ZArith NArith List Bool Lia.
Require Import Value Bytes BytesProofs MbiMixinModel GenMbi MbiModel MbiProofs MbiRtProofs.
Import ListNotations.
Ltac Zify.zify_post_hook ::= Z.to_euclidean_division_equations.
Local Open Scope Z_scope.

(* ------------------------------------------------------------------ shared *)
Lemma check_total_ok c data T :
  (56 <= length data)%nat -> rd32 OFF_LEN data = ivt_total c T -> T <= zlen data -> 0 <= T -> check_total_length c data = Ok tt.
Proof.
  intros L W LeT T0. unfold check_total_length, ivt_total in *.
  destruct (provider c SCheckTotalLength) as [[]|] eqn:P;
    try (replace (Nat.ltb (length data) MIN_APP) with false by (symmetry; apply Nat.ltb_ge; exact L);
         rewrite W; destruct (provider c SUpdateIvt) as [[]|];
         match goal with |- (if ?b then _ else _) = _ => replace b with false; [reflexivity|symmetry; apply Z.ltb_ge; unfold zlen in *; lia] end).
  rewrite W. destruct (provider c SUpdateIvt) as [[]|];
    match goal with |- (if ?b then _ else _) = _ => replace b with false; [reflexivity|] end;
    symmetry; try reflexivity; apply andb_false_iff; right; apply Z.ltb_ge; unfold zlen in *; lia.
Qed.

Lemma firstn_app_exact (a b : list N) : firstn (length a) (a ++ b) = a.
Proof. rewrite firstn_app, firstn_all, Nat.sub_diag, firstn_O. apply app_nil_r. Qed.
Lemma skipn_app_exact (a b : list N) : skipn (length a) (a ++ b) = b.
Proof. rewrite skipn_app, skipn_all, Nat.sub_diag. reflexivity. Qed.
Lemma skipn_app_exact' (a b : list N) n : n = length a -> skipn n (a ++ b) = b.
Proof. intros ->. apply skipn_app_exact. Qed.
Lemma firstn_app_exact' (a b : list N) n : n = length a -> firstn n (a ++ b) = a.
Proof. intros ->. apply firstn_app_exact. Qed.
Lemma drop_last_app' (a b : list N) n : n = length b -> drop_last n (a ++ b) = a.
Proof. intros ->. apply drop_last_app. Qed.
Lemma natz_zlen (a : list N) : natz (zlen a) = length a.
Proof. unfold natz, zlen. apply Nat2Z.id. Qed.

(* providers of a class whose mixins all satisfy a predicate that excludes the providers of a stage *)
Lemma provider_none_if l s (P : mixin -> bool) :
  forallb P l = true -> (forall m, P m = true -> definer m s = None) -> provider_in l s = None.
Proof.
  intros H HP. induction l as [|m l IH]; [reflexivity|]. cbn [forallb] in H. apply andb_true_iff in H as [H1 H2].
  cbn [provider_in]. rewrite (HP m H1). now apply IH.
Qed.
Lemma supported_if l (P : mixin -> bool) :
  forallb P l = true -> (forall m, P m = true -> unsupported_mixin m = false) -> existsb unsupported_mixin l = false.
Proof.
  intros H HP. induction l as [|m l IH]; [reflexivity|]. cbn [forallb] in H. apply andb_true_iff in H as [H1 H2].
  cbn [existsb]. rewrite (HP m H1). now apply IH.
Qed.
Lemma existsb_false_if l (P g : mixin -> bool) :
  forallb P l = true -> (forall m, P m = true -> g m = false) -> existsb g l = false.
Proof.
  intros H HP. induction l as [|m l IH]; [reflexivity|]. cbn [forallb] in H. apply andb_true_iff in H as [H1 H2].
  cbn [existsb]. rewrite (HP m H1). now apply IH.
Qed.
Lemma opt_id_eq m p : opt_mixin_id p = mixin_id m -> p = Some m.
Proof.
  destruct p as [m'|]; [|destruct m; discriminate]. cbn [opt_mixin_id]. intros H. f_equal.
  destruct m, m'; try reflexivity; discriminate H.
Qed.

(* ------------------------------------------------------------------ manifest: parse (export) *)
Definition manifest_total (c : mbi_class) (x : mbi) : Z :=
  20 + zlen (tz_export (m_tz x)) + (if has c MixinManifestCrc then 4 else 0).
Definition manifest_flags_of (c : mbi_class) (x : mbi) : Z := if has c MixinManifestCrc then 0 else manifest_flags (m_digest x).

Lemma manifest_export_inv c x crc mf :
  manifest_export c x crc = Ok mf ->
  exists w0 w1 w2 w3 w4 w5,
    u32 G_MANIFEST_MAGIC = Ok w0 /\ u32 G_MANIFEST_FORMAT_VERSION = Ok w1 /\ u32 (m_fwver x) = Ok w2 /\
    u32 (manifest_total c x) = Ok w3 /\ u32 (manifest_flags_of c x) = Ok w4 /\
    (if has c MixinManifestCrc then u32 crc else Ok []) = Ok w5 /\
    mf = w0 ++ w1 ++ w2 ++ w3 ++ w4 ++ tz_export (m_tz x) ++ w5.
Proof.
  unfold manifest_export. fold (manifest_total c x) (manifest_flags_of c x). intros H.
  apply bind_ok in H as (w0 & E0 & H). apply bind_ok in H as (w1 & E1 & H). apply bind_ok in H as (w2 & E2 & H).
  apply bind_ok in H as (w3 & E3 & H). apply bind_ok in H as (w4 & E4 & H). apply bind_ok in H as (w5 & E5 & H).
  injection H as <-. exists w0, w1, w2, w3, w4, w5. auto 10.
Qed.

Lemma manifest_export_length c x crc mf : manifest_export c x crc = Ok mf -> zlen mf = manifest_total c x.
Proof.
  intros H. destruct (manifest_export_inv c x crc mf H) as (w0 & w1 & w2 & w3 & w4 & w5 & E0 & E1 & E2 & E3 & E4 & E5 & ->).
  apply u32_length in E0, E1, E2, E3, E4. unfold manifest_total, zlen. rewrite !app_length, E0, E1, E2, E3, E4.
  destruct (has c MixinManifestCrc); [apply u32_length in E5 | injection E5 as <-]; rewrite ?E5; cbn [length]; lia.
Qed.

Definition tz_opt (t : tz) : option tz := match t with TzCustom d => Some (TzCustom d) | _ => None end.

Lemma digest_alg_decode dg : 0 <= dg <= 3 ->
  (if Z.land (manifest_flags dg) G_MANIFEST_DIGEST_PRESENT_FLAG =? 0 then Ok 0
   else let a := Z.land (manifest_flags dg) G_MANIFEST_HASH_TYPE_MASK in if a <=? 3 then Ok a else Err E_CRASH) = Ok dg.
Proof.
  intros H. assert (D : dg = 0 \/ dg = 1 \/ dg = 2 \/ dg = 3) by lia. destruct D as [-> | [-> | [-> | ->]]]; reflexivity.
Qed.

Lemma manifest_parse_export c x crc mf rest tzsize :
  manifest_export c x crc = Ok mf -> rest <> [] ->
  (forall d, m_tz x = TzCustom d -> length d = tzsize /\ (0 < tzsize)%nat) ->
  0 <= m_digest x <= 3 -> (has c MixinManifestCrc = true -> m_digest x = 0) ->
  manifest_parse c tzsize (mf ++ rest) = Ok (m_fwver x, tz_opt (m_tz x), m_digest x).
Proof.
  intros H NR HZ RD DC. pose proof (manifest_export_length c x crc mf H) as Lm.
  destruct (manifest_export_inv c x crc mf H) as (w0 & w1 & w2 & w3 & w4 & w5 & E0 & E1 & E2 & E3 & E4 & E5 & ->).
  pose proof (u32_length _ _ E0) as L0. pose proof (u32_length _ _ E1) as L1. pose proof (u32_length _ _ E2) as L2.
  pose proof (u32_length _ _ E3) as L3. pose proof (u32_length _ _ E4) as L4.
  set (tzb := tz_export (m_tz x)) in *.
  set (body := w0 ++ w1 ++ w2 ++ w3 ++ w4 ++ tzb ++ w5) in *.
  assert (Lr : (0 < length rest)%nat) by (destruct rest; [contradiction | simpl; lia]).
  assert (Ltot : 20 <= manifest_total c x) by (unfold manifest_total; pose proof (zlen_nonneg tzb); fold tzb; destruct (has c MixinManifestCrc); lia).
  unfold manifest_parse.
  replace (Nat.ltb (length (body ++ rest)) 20) with false
    by (symmetry; apply Nat.ltb_ge; rewrite app_length; unfold zlen in Lm; lia).
  assert (HD : body ++ rest = w0 ++ w1 ++ w2 ++ w3 ++ w4 ++ (tzb ++ w5 ++ rest)) by (unfold body; now rewrite <- !app_assoc).
  assert (V0 : rd32 0 (body ++ rest) = G_MANIFEST_MAGIC) by (rewrite HD; now apply rd32_u32).
  assert (V1 : rd32 4 (body ++ rest) = G_MANIFEST_FORMAT_VERSION) by (rewrite HD, <- L0; now apply rd32_at).
  assert (V2 : rd32 8 (body ++ rest) = m_fwver x).
  { rewrite HD. replace (w0 ++ w1 ++ w2 ++ w3 ++ w4 ++ tzb ++ w5 ++ rest) with ((w0 ++ w1) ++ w2 ++ (w3 ++ w4 ++ tzb ++ w5 ++ rest))
      by (now rewrite <- !app_assoc). replace 8%nat with (length (w0 ++ w1)) by (rewrite app_length; lia). now apply rd32_at. }
  assert (V3 : rd32 12 (body ++ rest) = manifest_total c x).
  { rewrite HD. replace (w0 ++ w1 ++ w2 ++ w3 ++ w4 ++ tzb ++ w5 ++ rest) with ((w0 ++ w1 ++ w2) ++ w3 ++ (w4 ++ tzb ++ w5 ++ rest))
      by (now rewrite <- !app_assoc). replace 12%nat with (length (w0 ++ w1 ++ w2)) by (rewrite !app_length; lia). now apply rd32_at. }
  assert (V4 : rd32 16 (body ++ rest) = manifest_flags_of c x).
  { rewrite HD. replace (w0 ++ w1 ++ w2 ++ w3 ++ w4 ++ tzb ++ w5 ++ rest) with ((w0 ++ w1 ++ w2 ++ w3) ++ w4 ++ (tzb ++ w5 ++ rest))
      by (now rewrite <- !app_assoc). replace 16%nat with (length (w0 ++ w1 ++ w2 ++ w3)) by (rewrite !app_length; lia). now apply rd32_at. }
  rewrite V0, V1, V2, V3, V4, !Z.eqb_refl. cbn [negb].
  replace (zlen (body ++ rest) <=? manifest_total c x) with false
    by (symmetry; apply Z.leb_gt; rewrite zlen_app, Lm; unfold zlen; lia).
  assert (EX : sub (body ++ rest) 20 (natz (manifest_total c x)) = tzb ++ w5).
  { replace (body ++ rest) with ((w0 ++ w1 ++ w2 ++ w3 ++ w4) ++ (tzb ++ w5) ++ rest) by (unfold body; now rewrite <- !app_assoc).
    apply sub_mid'; [rewrite !app_length; lia|].
    rewrite <- Lm. unfold body. rewrite natz_zlen, !app_length. lia. }
  rewrite EX.
  assert (TZP : forall d, tzb = d -> d <> [] -> tz_from_binary tzsize d = Ok (m_tz x) /\ tz_opt (m_tz x) = Some (m_tz x)).
  { intros d Ed Nd. unfold tzb in Ed. destruct (m_tz x) as [|d'|] eqn:Et; cbn [tz_export] in Ed; try (subst d; contradiction).
    subst d'. destruct (HZ d eq_refl) as [Ld Lz]. unfold tz_from_binary. rewrite Ld, Nat.ltb_irrefl, <- Ld, firstn_all. auto. }
  assert (TZN : tzb = [] -> tz_opt (m_tz x) = None).
  { unfold tzb. destruct (m_tz x) as [|d'|] eqn:Et; cbn [tz_export tz_opt]; try reflexivity.
    intros ->. destruct (HZ [] eq_refl) as [Ld Lz]. simpl in Ld. lia. }
  destruct (has c MixinManifestCrc) eqn:HC.
  - apply u32_length in E5. rewrite (DC eq_refl).
    replace (Nat.ltb (length (tzb ++ w5)) 4) with false by (symmetry; apply Nat.ltb_ge; rewrite app_length; lia).
    rewrite <- E5, drop_last_app. destruct tzb as [|b0 t0] eqn:Etz.
    + now rewrite (TZN eq_refl).
    + destruct (TZP (b0 :: t0) eq_refl) as [P1 P2]; [discriminate|]. rewrite P1. cbn [bind]. now rewrite P2.
  - injection E5 as <-. rewrite app_nil_r. unfold manifest_flags_of. rewrite HC.
    rewrite digest_alg_decode by assumption. cbn [bind]. destruct tzb as [|b0 t0] eqn:Etz.
    + now rewrite (TZN eq_refl).
    + destruct (TZP (b0 :: t0) eq_refl) as [P1 P2]; [discriminate|]. rewrite P1. cbn [bind]. now rewrite P2.
Qed.

(* ================================================================== certificate block v2.1 + manifest (ECC signed) *)
Definition allowed_v21 (m : mixin) : bool :=
  match m with
  | MixinApp | MixinIvt | MixinIvtZeroTotalLength | MixinLoadAddress | MixinLoadAddressOptional | MixinFwVersion
  | MixinImageVersion | MixinImageSubType | MixinHwKey | MixinCertBlockV21 | MixinManifestCrc | MixinManifestDigest
  | ExportMixinAppCertBlockManifest | ExportMixinEccSign => true
  | _ => false
  end.
Definition wf_v21 (c : mbi_class) : bool :=
  forallb allowed_v21 (c_mixins c) && nodupb (c_mixins c) && has c MixinApp && has_attr c AIvtTable &&
  (0 <? c_type c) && (c_type c <? 64) && has c MixinCertBlockV21 &&
  xorb (has c MixinManifestCrc) (has c MixinManifestDigest) &&
  (opt_mixin_id (provider c SCollect) =? mixin_id ExportMixinAppCertBlockManifest) &&
  (opt_mixin_id (provider c SDisassemble) =? mixin_id ExportMixinAppCertBlockManifest) &&
  (opt_mixin_id (provider c SFinalize) =? mixin_id ExportMixinAppCertBlockManifest) &&
  (opt_mixin_id (provider c SSign) =? mixin_id ExportMixinEccSign).

(* certificate block v2.1 as the parser sees it: "chdr" and its own size at offset 8 *)
Definition cert21_wf (b : list N) : Prop := (12 <= length b)%nat /\ rd32 0 b = CHDR_MAGIC /\ rd32 8 b = zlen b.

Definition digest_on (c : mbi_class) (x : mbi) : bool :=
  has c MixinManifestDigest && negb (manifest_flags (m_digest x) =? 0) && negb (m_digest x =? 0).
Definition digest_part (k : crypto) (c : mbi_class) (x : mbi) (dts : list N) : list N :=
  if digest_on c x then k_hash k (m_digest x) dts else [].

Lemma sum_len_v21 x l b sg :
  forallb allowed_v21 l = true -> nodupb l = true -> m_cert x = Some (CertV21 b sg) ->
  sumz (map (mix_len x) l) =
  (if hasl l MixinApp then zlen (m_app x) else 0) + (if hasl l MixinCertBlockV21 then zlen b + Z.of_nat sg else 0) +
  (if hasl l MixinManifestCrc then 20 + zlen (tz_export (m_tz x)) + 4 else 0) +
  (if hasl l MixinManifestDigest then 20 + zlen (tz_export (m_tz x)) +
      (if Z.land (manifest_flags (m_digest x)) G_MANIFEST_DIGEST_PRESENT_FLAG =? 0 then 0 else hash_size (m_digest x)) else 0).
Proof.
  intros Ha Hn Hc. induction l as [|m l IH]; [reflexivity|].
  cbn [forallb] in Ha. apply andb_true_iff in Ha as [Ha1 Ha2].
  cbn [nodupb] in Hn. apply andb_true_iff in Hn as [Hn1 Hn2]. apply negb_true_iff in Hn1.
  specialize (IH Ha2 Hn2). cbn [map sumz fold_right]. fold (sumz (map (mix_len x) l)). rewrite IH.
  unfold hasl in *. cbn [existsb].
  destruct m; try discriminate Ha1; cbn [mix_len mixin_eqb mixin_id Z.eqb orb Pos.eqb]; rewrite ?Hn1, ?Hc; cbn [orb cert_size cert_sig];
    unfold zlen;
    repeat match goal with |- context [if ?b then _ else _] => destruct b end; lia.
Qed.

Lemma digest_on_flag x : 0 <= m_digest x <= 3 ->
  (if Z.land (manifest_flags (m_digest x)) G_MANIFEST_DIGEST_PRESENT_FLAG =? 0 then 0 else hash_size (m_digest x))
  = if negb (manifest_flags (m_digest x) =? 0) && negb (m_digest x =? 0) then hash_size (m_digest x) else 0.
Proof.
  intros H. assert (D : m_digest x = 0 \/ m_digest x = 1 \/ m_digest x = 2 \/ m_digest x = 3) by lia.
  destruct D as [-> | [-> | [-> | ->]]]; reflexivity.
Qed.

Lemma v21_def_none m : allowed_v21 m = true ->
  definer m SEncrypt = None /\ definer m SPostEncrypt = None /\ definer m SDisassemblyAppData = None /\ unsupported_mixin m = false.
Proof. destruct m; intros H; try discriminate H; repeat split. Qed.

Ltac wf_split W :=
  repeat (let H := fresh "W" in apply andb_true_iff in W as [W H]).

(* shape of the exported image *)
Lemma export_v21_shape k c x im b sg :
  wf_v21 c = true -> (56 <= length (m_app x))%nat -> m_cert x = Some (CertV21 b sg) ->
  export_mbi k c x = Ok im ->
  exists app' mf crc,
    update_ivt c x (m_app x) (total_len c x) (app_len c x) = Ok app' /\
    manifest_export c x crc = Ok mf /\
    collect c x = Ok [app'; b; mf] /\
    im = (app' ++ b ++ mf) ++ k_sign k (app' ++ b ++ mf) ++ digest_part k c x (app' ++ b ++ mf).
Proof.
  intros W L HC E. unfold wf_v21 in W. wf_split W.
  rename W0 into Psign, W1 into Pfin, W2 into Pdis, W3 into Pcol, W4 into Wx, W5 into Wv21, W6 into Wt2, W7 into Wt1,
         W8 into Wi, W9 into Wa, W10 into Wnd.
  apply Z.eqb_eq in Psign, Pfin, Pdis, Pcol. apply opt_id_eq in Psign, Pfin, Pdis, Pcol.
  assert (PE : provider c SEncrypt = None) by (apply (provider_none_if _ _ allowed_v21 W); intros m Hm; apply (v21_def_none m Hm)).
  assert (PP : provider c SPostEncrypt = None) by (apply (provider_none_if _ _ allowed_v21 W); intros m Hm; apply (v21_def_none m Hm)).
  assert (SUP : existsb unsupported_mixin (c_mixins c) = false) by (apply (supported_if _ allowed_v21 W); intros m Hm; apply (v21_def_none m Hm)).
  unfold export_mbi, export_image in E. unfold supported in E. rewrite SUP in E. cbn [negb] in E.
  destruct (validate c x) as [[]|] eqn:V; cbn [bind] in E; [|discriminate].
  destruct (collect c x) as [segs|] eqn:C; cbn [bind] in E; [|discriminate].
  assert (SH : exists app' mf crc, update_ivt c x (m_app x) (total_len c x) (app_len c x) = Ok app' /\
                                   manifest_export c x crc = Ok mf /\ segs = [app'; b; mf]).
  { unfold collect in C. rewrite Pcol, HC in C. destruct (m_app x) as [|b0 t0] eqn:Ea; [simpl in L; lia|].
    apply bind_ok in C as ([] & _ & C). apply bind_ok in C as (app' & U & C). cbn [cert_export] in C. cbn [bind] in C.
    apply bind_ok in C as (mf0 & M0 & C). exists app'.
    destruct (has c MixinManifestCrc).
    - apply bind_ok in C as (mf & M & C). injection C as <-. eauto 6.
    - injection C as <-. eauto 6. }
  destruct SH as (app' & mf & crc & U & M & ->). exists app', mf, crc. split; [exact U|]. split; [exact M|]. split; [reflexivity|].
  unfold encrypt in E. rewrite PE in E. cbn [bind] in E. unfold post_encrypt in E. rewrite PP in E. cbn [bind] in E.
  unfold sign in E. rewrite Psign in E. cbn [bind fst snd] in E.
  unfold finalize in E. rewrite Pfin in E. fold (digest_on c x) in E. unfold digest_part.
  assert (FL : flat [app'; b; mf] = app' ++ b ++ mf) by (unfold flat; cbn [concat]; now rewrite app_nil_r).
  destruct (digest_on c x).
  - rewrite Psign in E. cbn [res_map] in E. injection E as <-. now rewrite !app_nil_r, <- !app_assoc.
  - cbn [res_map] in E. injection E as <-. now rewrite !app_nil_r, <- !app_assoc.
Qed.

Lemma validate_in_mix c x l m : validate_in c x l = Ok tt -> In m l -> mix_validate c x m = Ok tt.
Proof.
  induction l as [|a l IH]; intros H Hi; [contradiction|]. cbn [validate_in] in H.
  destruct (mix_validate c x a) as [[]|] eqn:E; cbn [bind] in H; [|discriminate].
  destruct Hi as [->|Hi]; [exact E | now apply IH].
Qed.

Lemma hasl_reloc_false_v21 l : forallb allowed_v21 l = true -> existsb (mixin_eqb MixinRelocTable) l = false.
Proof. intros H. apply (existsb_false_if l allowed_v21 _ H). intros m Hm. destruct m; try discriminate Hm; reflexivity. Qed.

Theorem roundtrip_v21 k c x tzsize sigsz dek im b sg :
  wf_v21 c = true ->
  (56 <= length (m_app x))%nat -> (length (m_app x) mod 4 = 0)%nat ->
  0 <= m_subtype x < 4 -> 0 <= m_imgver x < 65536 ->
  m_cert x = Some (CertV21 b sg) -> cert21_wf b -> sigsz = sg -> (0 < sg)%nat ->
  (forall d, length (k_sign k d) = sg) -> (forall a d, length (k_hash k a d) = natz (hash_size a)) ->
  (forall d, m_tz x = TzCustom d -> length d = tzsize /\ (0 < tzsize)%nat) ->
  0 <= m_digest x <= 3 -> (has c MixinManifestCrc = true -> m_digest x = 0) ->
  m_table x = None ->
  export_mbi k c x = Ok im ->
  parse_mbi k c tzsize sigsz dek im = Ok (parsed c x dek).
Proof.
  intros W L L4 R2 R3 HC (CW1 & CW2 & CW3) SGE SGP KS KH HZ RD DC HT E.
  destruct (export_v21_shape k c x im b sg W L HC E) as (app' & mf & crc & U & M & COL & ->).
  pose proof W as W'. unfold wf_v21 in W'. wf_split W'.
  rename W0 into Psign, W1 into Pfin, W2 into Pdis, W3 into Pcol, W4 into Wx, W5 into Wv21, W6 into Wt2, W7 into Wt1,
         W8 into Wi, W9 into Wa, W10 into Wnd.
  apply Z.eqb_eq in Psign, Pfin, Pdis, Pcol. apply opt_id_eq in Psign, Pfin, Pdis, Pcol.
  assert (R1 : 0 <= c_type c < 64) by (apply Z.ltb_lt in Wt1; apply Z.ltb_lt in Wt2; lia).
  assert (T0 : c_type c <> 0) by (apply Z.ltb_lt in Wt1; lia).
  assert (PE : provider c SEncrypt = None) by (apply (provider_none_if _ _ allowed_v21 W'); intros m Hm; apply (v21_def_none m Hm)).
  assert (PP : provider c SPostEncrypt = None) by (apply (provider_none_if _ _ allowed_v21 W'); intros m Hm; apply (v21_def_none m Hm)).
  assert (SUP : existsb unsupported_mixin (c_mixins c) = false) by (apply (supported_if _ allowed_v21 W'); intros m Hm; apply (v21_def_none m Hm)).
  assert (NR : has c MixinRelocTable = false) by (apply hasl_reloc_false_v21; exact W').
  pose proof (app_len_no_table c x Wnd Wa NR) as AL.
  assert (La : length app' = length (m_app x)) by (eapply update_ivt_length; eassumption).
  destruct (ivt_words c x (m_app x) (total_len c x) (app_len c x) app' L U) as (IW1 & IW2 & IW3 & IW4).
  assert (IW3' : rd32 OFF_CRC app' = zlen (m_app x)).
  { rewrite IW3. unfold ivt_crc. destruct (Z.eqb_spec (c_type c) 0); [contradiction|]. exact AL. }
  pose proof (manifest_export_length c x crc mf M) as Lmf.
  set (A := app' ++ b ++ mf). set (sig := k_sign k A). set (dgp := digest_part k c x A).
  assert (Lsig : length sig = sg) by apply KS.
  assert (Ldg : length dgp = if digest_on c x then natz (hash_size (m_digest x)) else 0%nat).
  { unfold dgp, digest_part. destruct (digest_on c x); [apply KH | reflexivity]. }
  set (data := A ++ sig ++ dgp).
  (* manifest mixin facts *)
  assert (MAN : existsb is_manifest_mixin (c_mixins c) = true).
  { unfold has in Wx. clear - Wx. induction (c_mixins c) as [|m l IH]; [discriminate|]. cbn [existsb] in *.
    destruct m; cbn [mixin_eqb mixin_id Z.eqb Pos.eqb orb is_manifest_mixin] in *; try reflexivity; apply IH; exact Wx. }
  assert (CERTM : existsb is_cert_mixin (c_mixins c) = true).
  { unfold has in Wv21. clear - Wv21. induction (c_mixins c) as [|m l IH]; [discriminate|]. cbn [existsb] in *.
    destruct m; cbn [mixin_eqb mixin_id Z.eqb Pos.eqb orb is_cert_mixin] in *; try reflexivity; apply IH; exact Wv21. }
  assert (HACB : has_attr c ACertBlock = true) by (eapply in_gives_has_attr; [apply has_in; exact Wv21 | reflexivity]).
  (* total length *)
  assert (TL : total_len c x = zlen data).
  { assert (ZA : zlen app' = zlen (m_app x)) by (unfold zlen; now rewrite La).
    assert (Zs : zlen sig = Z.of_nat sg) by (unfold zlen; now rewrite Lsig).
    assert (HS : 0 <= hash_size (m_digest x)) by (unfold hash_size; repeat destruct (_ =? _); lia).
    assert (Zd : zlen dgp = if digest_on c x then hash_size (m_digest x) else 0).
    { unfold zlen. rewrite Ldg. destruct (digest_on c x); [unfold natz; lia | reflexivity]. }
    unfold total_len. rewrite (sum_len_v21 x (c_mixins c) b sg W' Wnd HC). unfold has in *. unfold hasl. rewrite Wa, Wv21.
    unfold data, A. rewrite !zlen_app, ZA, Lmf, Zs, Zd. unfold manifest_total, digest_on, has.
    rewrite (digest_on_flag x RD).
    destruct (existsb (mixin_eqb MixinManifestCrc) (c_mixins c)) eqn:HCrc, (existsb (mixin_eqb MixinManifestDigest) (c_mixins c)) eqn:HDg;
      try discriminate Wx; cbn [andb]; [lia|].
    destruct (negb (manifest_flags (m_digest x) =? 0) && negb (m_digest x =? 0)); lia. }
  assert (Ldata : (56 <= length data)%nat) by (unfold data, A; rewrite !app_length; lia).
  assert (PFX : forall o, (o + 4 <= 56)%nat -> rd32 o data = rd32 o app').
  { intros o Ho. unfold data, A. rewrite <- !app_assoc. apply rd32_app. lia. }
  assert (DF : get_flags data = create_flags c x) by (unfold get_flags; rewrite PFX by (rewrite off_flags_eq; lia); exact IW2).
  assert (DL : rd32 OFF_LOAD data = ivt_load c x) by (rewrite PFX by (rewrite off_load_eq; lia); exact IW4).
  assert (OFF : get_cert_block_offset c data = Ok (zlen (m_app x))).
  { unfold get_cert_block_offset. rewrite (check_total_ok c data (total_len c x)); try assumption.
    - cbn [bind]. rewrite PFX by (rewrite off_crc_eq; lia). now rewrite IW3'.
    - rewrite PFX by (rewrite off_len_eq; lia). exact IW1.
    - lia.
    - rewrite TL. apply zlen_nonneg. }
  assert (SK1 : skipn (length (m_app x)) data = b ++ mf ++ sig ++ dgp).
  { unfold data, A. rewrite <- !app_assoc. apply skipn_app_exact'. lia. }
  assert (TZD : tz_is_disabled (m_tz x) = false).
  { unfold export_mbi, export_image, supported in E. rewrite SUP in E. cbn [negb] in E.
    destruct (validate c x) as [[]|] eqn:V; cbn [bind] in E; [|discriminate]. unfold validate in V.
    unfold has in Wx.
    destruct (existsb (mixin_eqb MixinManifestCrc) (c_mixins c)) eqn:HCrc.
    - pose proof (validate_in_mix c x _ MixinManifestCrc V (has_in c _ HCrc)) as Q. cbn in Q. destruct (tz_is_disabled (m_tz x)); [discriminate|reflexivity].
    - cbn [xorb] in Wx. destruct (existsb (mixin_eqb MixinManifestDigest) (c_mixins c)) eqn:HDg; [|discriminate Wx].
      pose proof (validate_in_mix c x _ MixinManifestDigest V (has_in c _ HDg)) as Q. cbn in Q.
      destruct (tz_is_disabled (m_tz x)); [discriminate|reflexivity]. }
  (* mix_parse of every mixin *)
  assert (PO : parse_ok c x dek tzsize sigsz data (c_mixins c)).
  { intros m Hi st Inv Wt.
    assert (Hal : allowed_v21 m = true) by (eapply forallb_forall in W'; eauto).
    destruct (simple_mixin m) eqn:Sm; [now apply mix_parse_simple|].
    destruct m; try discriminate Hal; try discriminate Sm.
    - (* MixinManifestCrc *)
      unfold waits in Wt. rewrite HACB in Wt. cbn [pre_parsed_cert andb] in Wt.
      destruct (m_cert st) as [cb|] eqn:Ec; [|discriminate Wt]. destruct Inv as [N|Ei]; [congruence|]. rewrite Ec, HC in Ei. injection Ei as ->.
      unfold mix_parse, upd. rewrite Ec, OFF. cbn [bind].
      replace (skipn (natz (zlen (m_app x) + zlen b)) data) with (mf ++ sig ++ dgp).
      2:{ unfold data, A. rewrite <- !app_assoc. rewrite (app_assoc app' b). symmetry. apply skipn_app_exact'.
          unfold natz, zlen. rewrite <- Nat2Z.inj_add, Nat2Z.id, app_length. lia. }
      rewrite (manifest_parse_export c x crc mf (sig ++ dgp) tzsize M); try assumption.
      + cbn [bind]. destruct (m_tz x); try discriminate TZD; reflexivity.
      + intros Q. apply (f_equal (@length N)) in Q. rewrite app_length, Lsig in Q. simpl in Q. lia.
    - (* MixinManifestDigest *)
      unfold waits in Wt. rewrite HACB in Wt. cbn [pre_parsed_cert andb] in Wt.
      destruct (m_cert st) as [cb|] eqn:Ec; [|discriminate Wt]. destruct Inv as [N|Ei]; [congruence|]. rewrite Ec, HC in Ei. injection Ei as ->.
      unfold mix_parse, upd. rewrite Ec, OFF. cbn [bind].
      replace (skipn (natz (zlen (m_app x) + zlen b)) data) with (mf ++ sig ++ dgp).
      2:{ unfold data, A. rewrite <- !app_assoc. rewrite (app_assoc app' b). symmetry. apply skipn_app_exact'.
          unfold natz, zlen. rewrite <- Nat2Z.inj_add, Nat2Z.id, app_length. lia. }
      rewrite (manifest_parse_export c x crc mf (sig ++ dgp) tzsize M); try assumption.
      + cbn [bind]. destruct (m_tz x); try discriminate TZD; reflexivity.
      + intros Q. apply (f_equal (@length N)) in Q. rewrite app_length, Lsig in Q. simpl in Q. lia.
    - (* MixinCertBlockV21 *)
      unfold mix_parse, upd. rewrite OFF. cbn [bind]. rewrite natz_zlen, SK1. unfold cert_v21_parse.
      replace (Nat.ltb (length (b ++ mf ++ sig ++ dgp)) 12) with false by (symmetry; apply Nat.ltb_ge; rewrite app_length; lia).
      rewrite !rd32_app by lia. rewrite CW2, CW3, Z.eqb_refl. cbn [negb bind].
      rewrite natz_zlen, firstn_app_exact, HC, SGE. reflexivity. }
  assert (NE : c_mixins c <> []).
  { apply has_in in Wa. destruct (c_mixins c) as [|m t]; [contradiction|congruence]. }
  unfold parse_mbi. unfold supported. rewrite SUP. cbn [negb].
  rewrite (rounds_result c x dek tzsize sigsz data NE PO) by (intros _; split; [exact CERTM | eauto]). cbn [bind].
  set (st := rounds_state c x dek).
  assert (STC : m_cert st = Some (CertV21 b sg)) by (unfold st, rounds_state; cbn [m_cert]; now rewrite CERTM).
  assert (STD : m_digest st = m_digest x) by (unfold st, rounds_state; cbn [m_digest]; now rewrite MAN).
  (* reverts *)
  assert (FR : finalize_revert c st data = Ok (A ++ sig)).
  { unfold finalize_revert. rewrite Pfin, STD. fold (digest_on c x). unfold data. rewrite app_assoc.
    destruct (digest_on c x) eqn:DO.
    - f_equal. apply drop_last_app'. symmetry. exact Ldg.
    - f_equal. destruct dgp; [apply app_nil_r | simpl in Ldg; discriminate]. }
  rewrite FR. cbn [bind].
  assert (SR : sign_revert c st (A ++ sig) = Ok A).
  { unfold sign_revert. rewrite Psign, STC. destruct (A ++ sig) as [|a0 r0] eqn:Q.
    - apply (f_equal (@length N)) in Q. rewrite app_length, Lsig in Q. simpl in Q. lia.
    - rewrite <- Q. destruct sg as [|sg']; [lia|]. f_equal. apply drop_last_app'. now rewrite Lsig. }
  rewrite SR. cbn [bind]. unfold post_encrypt_revert, encrypt_revert. rewrite PP, PE. cbn [bind].
  replace A with (flat [app'; b; mf] ++ []) by (unfold A, flat; cbn [concat]; now rewrite !app_nil_r).
  rewrite (disassemble_cuts_collect_lemma c x tzsize st [app'; b; mf] []); try assumption.
  - unfold parsed. rewrite HT. reflexivity.
  - right. rewrite STC. repeat split; try assumption. discriminate.
Qed.

(* ------------------------------------------------------------------ settings a class does not carry are at their defaults
   (and the decryption key handed to parse is the HMAC key): then the parsed object is x with the IVT words zeroed, and
   re-export reproduces the image (reexport_stable) *)
Definition canonical (c : mbi_class) (x : mbi) (dek : option (list N)) : Prop :=
  let l := c_mixins c in
  (has_attr c ALoadAddress = false -> m_load x = 0) /\ (has_attr c AImageVersion = false -> m_imgver x = 0) /\
  (has_attr c AImageSubtype = false -> m_subtype x = 0) /\ (has_attr c AHwKey = false -> m_hwkey x = false) /\
  (existsb is_tz_giver l = false -> m_tz x = TzEnabled) /\
  (existsb is_manifest_mixin l = false -> m_fwver x = 0 /\ m_digest x = 0) /\
  (has_attr c AKeyStore = false -> m_ks x = None) /\
  m_hmac x = (if existsb is_hmac_mixin l then dek else None) /\
  (has_attr c ACtrIv = false -> m_iv x = []) /\
  (existsb is_cert_mixin l = false -> m_cert x = None).

Lemma parsed_canonical c x dek : canonical c x dek -> parsed c x dek = set_app x (clean_ivt (m_app x)).
Proof.
  intros (C1 & C2 & C3 & C4 & C5 & C6 & C7 & C8 & C9 & C10).
  unfold parsed, rounds_state. apply mbi_ext; cbn; try reflexivity; try (symmetry; exact C8);
    match goal with |- (if ?b then _ else _) = _ => destruct b eqn:Hb; [reflexivity|symmetry; auto] end;
    try (apply C6; reflexivity).
Qed.

Theorem reexport_parsed k c x dek im :
  (56 <= length (m_app x))%nat -> has_attr c AIvtTable = true -> canonical c x dek ->
  export_mbi k c x = Ok im -> export_mbi k c (parsed c x dek) = Ok im.
Proof. intros L HI C E. rewrite (parsed_canonical c x dek C). now rewrite export_clean_app. Qed.

(* ================================================================== certificate block v1 (RSA signed), with or without
   relocation table, HMAC / key store (RT5xx/RT6xx signed load-to-RAM) *)
(* certificate block v1 as the parser sees it: "cert", header length 32, certificate table length; total size 4-aligned *)
Definition cert1_wf (pre post : list N) : Prop :=
  length pre = 20%nat /\ rd32 0 pre = CERT_MAGIC /\ rd32 8 pre = 32 /\ (8 <= length post)%nat /\
  0 <= rd32 4 post /\
  Z.of_nat (24 + length post) = (let raw := 32 + rd32 4 post + 128 in raw + (4 - raw mod 4) mod 4).

Lemma skipn_add {A} (l : list A) a b : skipn (a + b) l = skipn b (skipn a l).
Proof.
  revert l; induction a as [|a IH]; intros l; [reflexivity|]. destruct l as [|h t]; [now rewrite !skipn_nil|]. cbn [Nat.add skipn]. apply IH.
Qed.

Lemma cert_v1_parse_export pre post sg il cb rest :
  cert1_wf pre post -> cert_export (CertV1 pre post sg) il = Ok cb ->
  cert_v1_parse sg (cb ++ rest) = Ok (CertV1 pre post sg) /\ length cb = (24 + length post)%nat.
Proof.
  intros (W1 & W2 & W3 & W4 & W5 & W6) E. cbn [cert_export] in E.
  destruct (il <=? 0); [discriminate|]. apply bind_ok in E as (w & Ew & E). injection E as <-.
  pose proof (u32_length _ _ Ew) as Lw.
  assert (Lcb : length (pre ++ w ++ post) = (24 + length post)%nat) by (rewrite !app_length; lia).
  split; [|exact Lcb]. unfold cert_v1_parse.
  set (d := (pre ++ w ++ post) ++ rest).
  assert (Ld : (32 <= length d)%nat) by (unfold d; rewrite app_length; lia).
  replace (Nat.ltb (length d) 32) with false by (symmetry; apply Nat.ltb_ge; exact Ld).
  assert (P0 : rd32 0 d = CERT_MAGIC) by (unfold d; rewrite <- app_assoc; rewrite rd32_app by lia; exact W2).
  assert (P8 : rd32 8 d = 32) by (unfold d; rewrite <- app_assoc; rewrite rd32_app by lia; exact W3).
  assert (P28 : rd32 28 d = rd32 4 post).
  { unfold d, rd32. f_equal. f_equal. rewrite <- !app_assoc.
    replace 28%nat with (length (pre ++ w) + 4)%nat by (rewrite app_length; lia).
    rewrite (app_assoc pre w). rewrite skipn_add. rewrite skipn_app_exact.
    rewrite skipn_app. replace (4 - length post)%nat with 0%nat by lia. rewrite skipn_O.
    rewrite firstn_app. rewrite skipn_length. replace (4 - (length post - 4))%nat with 0%nat by lia. now rewrite firstn_O, app_nil_r. }
  rewrite P0, P8, P28, !Z.eqb_refl. cbn [negb]. cbv zeta in W6.
  set (ctl := rd32 4 post) in *.
  replace (zlen d <? ctl + 128) with false.
  2:{ symmetry. apply Z.ltb_ge. unfold d, zlen. rewrite app_length, Lcb. lia. }
  f_equal. rewrite <- W6. unfold natz. rewrite Nat2Z.id.
  assert (F20 : firstn 20 d = pre) by (unfold d; rewrite <- app_assoc; apply firstn_app_exact'; lia).
  assert (S24 : sub d 24 (24 + length post) = post).
  { unfold d. rewrite <- !app_assoc. rewrite (app_assoc pre w). apply sub_mid'; rewrite app_length; lia. }
  now rewrite F20, S24.
Qed.

(* reading behind an insertion at byte 64 *)
Lemma skipn_inserted (F HB : list N) n : (64 <= length F)%nat -> (64 <= n)%nat ->
  skipn (n + length HB) (firstn 64 F ++ HB ++ skipn 64 F) = skipn n F.
Proof.
  intros LF Hn. rewrite app_assoc. rewrite skipn_app.
  assert (L1 : length (firstn 64 F ++ HB) = (64 + length HB)%nat) by (rewrite app_length, firstn_length; lia).
  rewrite L1. rewrite skipn_all2 by lia. cbn [app]. rewrite <- skipn_add. f_equal. lia.
Qed.
Lemma sub_inserted (F HB : list N) a b : (64 <= length F)%nat -> (64 <= a)%nat ->
  sub (firstn 64 F ++ HB ++ skipn 64 F) (a + length HB) (b + length HB) = sub F a b.
Proof.
  intros LF Ha. unfold sub, slice. rewrite skipn_inserted by assumption. f_equal. lia.
Qed.
Lemma rd32_inserted (F HB : list N) o : (64 <= length F)%nat -> (o + 4 <= 64)%nat ->
  rd32 o (firstn 64 F ++ HB ++ skipn 64 F) = rd32 o F.
Proof.
  intros LF Ho. rewrite rd32_app by (rewrite firstn_length; lia).
  rewrite <- (firstn_skipn 64 F) at 2. rewrite rd32_app by (rewrite firstn_length; lia). reflexivity.
Qed.

Definition allowed_v1 (m : mixin) : bool :=
  match m with
  | MixinApp | MixinIvt | MixinIvtZeroTotalLength | MixinTrustZone | MixinTrustZoneMandatory | MixinLoadAddress
  | MixinLoadAddressOptional | MixinHwKey | MixinRelocTable | MixinCertBlockV1 | MixinHmacMandatory | MixinKeyStore
  | ExportMixinAppTrustZoneCertBlock | ExportMixinRsaSign | ExportMixinHmacKeyStoreFinalize => true
  | _ => false
  end.
Definition wf_v1 (c : mbi_class) : bool :=
  forallb allowed_v1 (c_mixins c) && nodupb (c_mixins c) && has c MixinApp && has_attr c AIvtTable &&
  (0 <? c_type c) && (c_type c <? 64) && has c MixinCertBlockV1 &&
  xorb (has c MixinTrustZone) (has c MixinTrustZoneMandatory) &&
  (opt_mixin_id (provider c SCollect) =? mixin_id ExportMixinAppTrustZoneCertBlock) &&
  (opt_mixin_id (provider c SDisassemble) =? mixin_id ExportMixinAppTrustZoneCertBlock) &&
  (opt_mixin_id (provider c SSign) =? mixin_id ExportMixinRsaSign) &&
  (opt_mixin_id (provider c SFinalize) =? (if has c MixinHmacMandatory then mixin_id ExportMixinHmacKeyStoreFinalize else 0)) &&
  implb (has c MixinKeyStore) (has c MixinHmacMandatory).

Lemma v1_def_none m : allowed_v1 m = true ->
  definer m SEncrypt = None /\ definer m SPostEncrypt = None /\ unsupported_mixin m = false /\ is_manifest_mixin m = false.
Proof. destruct m; intros H; try discriminate H; repeat split. Qed.

Lemma sum_len_v1 x l cbn_ :
  forallb allowed_v1 l = true -> nodupb l = true -> (forall cb, m_cert x = Some cb -> Z.of_nat (cert_size cb) = cbn_) ->
  sumz (map (mix_len x) l) =
  (if hasl l MixinApp then zlen (m_app x) else 0) + (if hasl l MixinTrustZone then zlen (tz_export (m_tz x)) else 0) +
  (if hasl l MixinTrustZoneMandatory then zlen (tz_export (m_tz x)) else 0) +
  (if hasl l MixinRelocTable then (match m_table x with Some es => table_len es | None => 0 end) else 0) +
  (if hasl l MixinCertBlockV1 then (match m_cert x with Some _ => cbn_ | None => 0 end) else 0) +
  (if hasl l MixinKeyStore then opt_len (m_ks x) else 0) +
  (if hasl l MixinHmacMandatory then (match m_hmac x with Some _ => 32 | None => 0 end) else 0).
Proof.
  intros Ha Hn Hc. induction l as [|m l IH]; [reflexivity|].
  cbn [forallb] in Ha. apply andb_true_iff in Ha as [Ha1 Ha2].
  cbn [nodupb] in Hn. apply andb_true_iff in Hn as [Hn1 Hn2]. apply negb_true_iff in Hn1.
  specialize (IH Ha2 Hn2). cbn [map sumz fold_right]. fold (sumz (map (mix_len x) l)). rewrite IH.
  unfold hasl in *. cbn [existsb].
  destruct m; try discriminate Ha1; cbn [mix_len mixin_eqb mixin_id Z.eqb orb Pos.eqb]; rewrite ?Hn1; cbn [orb];
    try (destruct (m_cert x) as [cb|] eqn:Ec; [rewrite (Hc cb eq_refl)|]);
    change (Z.of_nat HMAC_SZ) with 32;
    repeat match goal with |- context [if ?b then _ else _] => destruct b end; lia.
Qed.

Lemma sum_len_cert_v1 x l cbn_ :
  forallb allowed_v1 l = true -> nodupb l = true -> (forall cb, m_cert x = Some cb -> Z.of_nat (cert_size cb) = cbn_) ->
  sumz (map (fun m => if legacy_len m then mix_len x m else 0) l) =
  (if hasl l MixinApp then zlen (m_app x) else 0) + (if hasl l MixinTrustZone then zlen (tz_export (m_tz x)) else 0) +
  (if hasl l MixinTrustZoneMandatory then zlen (tz_export (m_tz x)) else 0) +
  (if hasl l MixinRelocTable then (match m_table x with Some es => table_len es | None => 0 end) else 0) +
  (if hasl l MixinCertBlockV1 then (match m_cert x with Some _ => cbn_ | None => 0 end) else 0).
Proof.
  intros Ha Hn Hc. induction l as [|m l IH]; [reflexivity|].
  cbn [forallb] in Ha. apply andb_true_iff in Ha as [Ha1 Ha2].
  cbn [nodupb] in Hn. apply andb_true_iff in Hn as [Hn1 Hn2]. apply negb_true_iff in Hn1.
  specialize (IH Ha2 Hn2). cbn [map sumz fold_right].
  fold (sumz (map (fun m => if legacy_len m then mix_len x m else 0) l)). rewrite IH.
  unfold hasl in *. cbn [existsb].
  destruct m; try discriminate Ha1; cbn [legacy_len mix_len mixin_eqb mixin_id Z.eqb orb Pos.eqb]; rewrite ?Hn1; cbn [orb];
    try (destruct (m_cert x) as [cb|] eqn:Ec; [rewrite (Hc cb eq_refl)|]);
    repeat match goal with |- context [if ?b then _ else _] => destruct b end; lia.
Qed.

Lemma cert_export_v1_len pre post sg il cb : cert_export (CertV1 pre post sg) il = Ok cb -> length cb = (length pre + 4 + length post)%nat.
Proof.
  cbn [cert_export]. destruct (il <=? 0); [discriminate|]. intros E. apply bind_ok in E as (w & Ew & E). injection E as <-.
  apply u32_length in Ew. rewrite !app_length. lia.
Qed.

Definition tzb_of (x : mbi) : list N := tz_export (m_tz x).
Definition hmac_key_of (x : mbi) : list N := match m_hmac x with Some key => key | None => [] end.

(* image before finalize *)
Definition v1_inner (k : crypto) (app' tb cb : list N) (x : mbi) : list N :=
  (app' ++ tb ++ cb ++ tzb_of x) ++ k_sign k (app' ++ tb ++ cb ++ tzb_of x).
Definition with_hmac (k : crypto) (c : mbi_class) (x : mbi) (F : list N) : list N :=
  if has c MixinHmacMandatory then firstn 64 F ++ hmac_bytes x (k_hmac k (hmac_key_of x) (firstn 64 F)) ++ skipn 64 F else F.

Lemma export_v1_shape k c x im pre post sg :
  wf_v1 c = true -> (56 <= length (m_app x))%nat -> m_cert x = Some (CertV1 pre post sg) ->
  (forall key data, length (k_hmac k key data) = 32%nat) -> (forall d, length (k_sign k d) = sg) ->
  (forall b, m_ks x = Some b -> length b = 1424%nat /\ has_attr c AKeyStore = true) ->
  0 <= m_subtype x < 4 -> 0 <= m_imgver x < 65536 ->
  export_mbi k c x = Ok im ->
  exists app' tb cb,
    update_ivt c x (m_app x) (total_len c x + Z.of_nat sg) (app_len c x) = Ok app' /\
    table_part c x (zlen app') = Ok tb /\
    cert_export (CertV1 pre post sg) (total_len_for_cert c x) = Ok cb /\
    im = with_hmac k c x (v1_inner k app' tb cb x) /\
    (forall st, finalize_revert c st im = Ok (v1_inner k app' tb cb x)) /\
    (has c MixinHmacMandatory = true -> 64 <= app_len c x /\ exists kb kt, m_hmac x = Some (kb :: kt)).
Proof.
  intros W L HC KH KS KSL R2 R3 E. unfold wf_v1 in W. wf_split W.
  rename W0 into Wks, W1 into Pfin, W2 into Psign, W3 into Pdis, W4 into Pcol, W5 into Wtz, W6 into Wv1, W7 into Wt2, W8 into Wt1,
         W9 into Wi, W10 into Wa, W11 into Wnd.
  apply Z.eqb_eq in Psign, Pdis, Pcol, Pfin. apply opt_id_eq in Psign, Pdis, Pcol.
  assert (R1 : 0 <= c_type c < 64) by (apply Z.ltb_lt in Wt1; apply Z.ltb_lt in Wt2; lia).
  assert (PE : provider c SEncrypt = None) by (apply (provider_none_if _ _ allowed_v1 W); intros m Hm; apply (v1_def_none m Hm)).
  assert (PP : provider c SPostEncrypt = None) by (apply (provider_none_if _ _ allowed_v1 W); intros m Hm; apply (v1_def_none m Hm)).
  assert (SUP : existsb unsupported_mixin (c_mixins c) = false) by (apply (supported_if _ allowed_v1 W); intros m Hm; apply (v1_def_none m Hm)).
  unfold export_mbi, export_image in E. unfold supported in E. rewrite SUP in E. cbn [negb] in E.
  destruct (validate c x) as [[]|] eqn:V; cbn [bind] in E; [|discriminate].
  destruct (collect c x) as [segs|] eqn:C; cbn [bind] in E; [|discriminate].
  assert (SH : exists app' rs cb, update_ivt c x (m_app x) (total_len c x + Z.of_nat sg) (app_len c x) = Ok app' /\
                 reloc_segment c x (zlen app') = Ok rs /\ cert_export (CertV1 pre post sg) (total_len_for_cert c x) = Ok cb /\
                 segs = [app'] ++ rs ++ [cb] ++ tz_segment x).
  { unfold collect in C. rewrite Pcol, HC in C. destruct (m_app x) as [|b0 t0] eqn:Ea; [simpl in L; lia|].
    apply bind_ok in C as (cb & CB & C). apply bind_ok in C as (app' & U & C). apply bind_ok in C as (rs & RS & C).
    injection C as <-. exists app', rs, cb. auto. }
  destruct SH as (app' & rs & cb & U & RS & CB & ->). exists app', (flat rs), cb.
  pose proof (reloc_segment_flat' c x (zlen app') rs RS) as TB.
  split; [exact U|]. split; [exact TB|]. split; [exact CB|].
  unfold encrypt in E. rewrite PE in E. cbn [bind] in E. unfold post_encrypt in E. rewrite PP in E. cbn [bind] in E.
  unfold sign in E. rewrite Psign in E. cbn [bind fst snd] in E.
  set (segs := [app'] ++ rs ++ [cb] ++ tz_segment x) in *.
  assert (FS : flat segs = app' ++ flat rs ++ cb ++ tzb_of x).
  { unfold segs. rewrite !flat_app, flat_tz_segment. unfold flat at 1 3. cbn [concat]. now rewrite !app_nil_r. }
  assert (FI : flat (segs ++ [k_sign k (flat segs)]) = v1_inner k app' (flat rs) cb x).
  { rewrite flat_app, FS. unfold v1_inner, flat. cbn [concat]. now rewrite app_nil_r. }
  unfold with_hmac. destruct (has c MixinHmacMandatory) eqn:HM.
  - apply opt_id_eq in Pfin.
    destruct (hmac_finalize_inverse k c x x (segs ++ [k_sign k (flat segs)]) (flat segs) Pfin) as [REJ ACC].
    destruct (Z.ltb_spec (app_len c x) 64) as [Lt|Ge]; [rewrite (REJ Lt) in E; discriminate|].
    assert (HK : exists kb kt, m_hmac x = Some (kb :: kt)).
    { unfold validate in V. pose proof (validate_in_mix c x _ MixinHmacMandatory V (has_in c _ HM)) as Q. cbn in Q.
      destruct (m_hmac x) as [[|kb kt]|]; try discriminate Q. eauto. }
    assert (La : length app' = length (m_app x)) by (eapply update_ivt_length; eassumption).
    destruct (ivt_words c x (m_app x) _ _ app' L U) as (_ & IW2 & _ & _).
    pose proof (flags_decode_lemma c x R1 R2 R3) as (_ & _ & _ & _ & _ & F5 & _).
    assert (ACC' : forall st, exists im', finalize k c x (segs ++ [k_sign k (flat segs)]) (flat segs) = Ok im' /\
                     flat im' = firstn 64 (flat (segs ++ [k_sign k (flat segs)])) ++
                                hmac_bytes x (k_hmac k (match m_hmac x with Some key => key | None => [] end) (firstn 64 (flat (segs ++ [k_sign k (flat segs)])))) ++
                                skipn 64 (flat (segs ++ [k_sign k (flat segs)])) /\
                     finalize_revert c st (flat im') = Ok (flat (segs ++ [k_sign k (flat segs)]))).
    { intros st. destruct (hmac_finalize_inverse k c x st (segs ++ [k_sign k (flat segs)]) (flat segs) Pfin) as [_ ACC2].
      apply ACC2; try assumption.
      + rewrite FI. unfold v1_inner. rewrite !app_length. pose proof (zlen_nonneg (tzb_of x)). unfold app_len in Ge.
        assert (HH : app_len c x = zlen (m_app x) + zlen (flat rs)).
        { unfold app_len. rewrite sum_app_len by assumption. unfold has in Wa. unfold hasl. rewrite Wa.
          unfold table_part in TB. rewrite has_attr_gives, has_attr_table_plain in TB. unfold hasl in TB.
          destruct (existsb (mixin_eqb MixinRelocTable) (c_mixins c)); [|injection TB as <-; reflexivity].
          destruct (m_table x) as [es|]; [|injection TB as <-; reflexivity].
          f_equal. eapply table_export_len; [eassumption | apply zlen_nonneg]. }
        fold (app_len c x) in Ge. rewrite HH in Ge. unfold zlen in Ge.
        pose proof (cert_export_v1_len _ _ _ _ _ CB). lia.
      + intros b Hb. apply (KSL b Hb).
      + rewrite FI. unfold flag_set, v1_inner. rewrite <- !app_assoc. rewrite get_flags_prefix by lia.
        unfold get_flags. rewrite IW2, F5. destruct (m_ks x) as [b|] eqn:Eb; [|now rewrite andb_false_r].
        destruct (KSL b eq_refl) as [Lb ->]. destruct b; [simpl in Lb; lia | reflexivity].
    }
    clear ACC. destruct (ACC' x) as (im' & FE & FL & _).
    rewrite FE in E. cbn [res_map] in E. injection E as <-. rewrite FL, FI. unfold hmac_key_of. split; [reflexivity|].
    split; [|intros _; split; [lia | exact HK]].
    intros st. destruct (ACC' st) as (im2 & FE2 & FL2 & FR2). rewrite FE in FE2. injection FE2 as <-. rewrite FL, FI in FR2. exact FR2.
  - unfold finalize in E. destruct (provider c SFinalize) as [pf|] eqn:PF; [cbn [opt_mixin_id] in Pfin; destruct pf; discriminate Pfin|].
    cbn [res_map] in E. injection E as <-. split; [exact FI|]. split; [|intros Q; discriminate Q].
    intros st. unfold finalize_revert. rewrite PF. f_equal. exact FI.
Qed.

(* Mbi_MixinRelocTable.disassembly_app_data on  application ++ relocation-table bytes *)
Lemma reloc_cut_ok c x st app'' tb :
  0 <= c_type c < 64 -> 0 <= m_subtype x < 4 -> 0 <= m_imgver x < 65536 ->
  has_attr c AIvtTable = true -> (56 <= length app'')%nat -> rd32 OFF_FLAGS app'' = create_flags c x ->
  table_part c x (zlen app'') = Ok tb ->
  (forall es, m_table x = Some es -> has_attr c AAppTable = true /\ entries_ok es) ->
  m_table st = None ->
  reloc_cut c st (app'' ++ tb) = Ok (set_table st (m_table x), app'').
Proof.
  intros R1 R2 R3 Wi L FF TB HTb STN.
  pose proof (flags_decode_lemma c x R1 R2 R3) as (_ & _ & _ & _ & _ & _ & F6 & _).
  assert (FLG : flag_set (app'' ++ tb) G_RELOC_TABLE_FLAG = has_attr c AAppTable && has_table x).
  { unfold flag_set, get_flags. rewrite rd32_app by (rewrite off_flags_eq; lia). rewrite FF. exact F6. }
  unfold reloc_cut, provider. destruct (reloc_provider (c_mixins c)) as [PR|PR]; rewrite PR.
  - assert (NA : has_attr c AAppTable = false).
    { rewrite has_attr_gives. clear - PR. induction (c_mixins c) as [|m l IH]; [reflexivity|].
      cbn [provider_in] in PR. destruct m; try discriminate PR; cbn [existsb]; rewrite ?(IH PR); reflexivity. }
    assert (TN : m_table x = None) by (destruct (m_table x) as [es|] eqn:Et; [destruct (HTb es eq_refl); congruence | reflexivity]).
    unfold table_part in TB. rewrite NA in TB. injection TB as <-. rewrite app_nil_r, TN.
    f_equal. f_equal. destruct st; cbn in *; subst; reflexivity.
  - unfold disassembly_app_data. rewrite Wi, FLG. cbn [andb]. unfold table_part in TB.
    destruct (m_table x) as [es|] eqn:Et.
    + destruct (HTb es eq_refl) as [HA3 OKe]. rewrite HA3 in *. unfold has_table. rewrite Et. cbn [andb negb].
      assert (NEe : es <> []) by (intros ->; discriminate TB).
      rewrite (table_parse_export app'' es tb NEe OKe TB). cbn [bind fst snd].
      rewrite natz_zlen, firstn_app_exact. reflexivity.
    + unfold has_table. rewrite Et, andb_false_r. cbn [negb bind fst snd].
      destruct (has_attr c AAppTable); injection TB as <-; now rewrite app_nil_r.
Qed.

Lemma app_len_table c x (tb app' : list N) :
  nodupb (c_mixins c) = true -> has c MixinApp = true -> length app' = length (m_app x) ->
  table_part c x (zlen app') = Ok tb -> app_len c x = zlen (m_app x) + zlen tb.
Proof.
  intros ND HA La TB. unfold app_len. rewrite sum_app_len by assumption. unfold has in HA. unfold hasl. rewrite HA.
  unfold table_part in TB. rewrite has_attr_gives, has_attr_table_plain in TB. unfold hasl in TB.
  destruct (existsb (mixin_eqb MixinRelocTable) (c_mixins c)); [|injection TB as <-; reflexivity].
  destruct (m_table x) as [es|]; [|injection TB as <-; reflexivity].
  f_equal. eapply table_export_len; [eassumption | apply zlen_nonneg].
Qed.

Lemma hasl_of_attr_tz_v1 l : forallb allowed_v1 l = true ->
  existsb is_tz_giver l = (hasl l MixinTrustZone || hasl l MixinTrustZoneMandatory) /\
  existsb (gives ATrustZone) l = (hasl l MixinTrustZone || hasl l MixinTrustZoneMandatory) /\
  existsb (gives AHmacKey) l = hasl l MixinHmacMandatory /\ existsb (gives AKeyStore) l = hasl l MixinKeyStore /\
  existsb is_cert_mixin l = hasl l MixinCertBlockV1 /\ existsb (gives ACertBlock) l = hasl l MixinCertBlockV1.
Proof.
  intros H. induction l as [|m l IH]; [repeat split; reflexivity|].
  cbn [forallb] in H. apply andb_true_iff in H as [H1 H2]. destruct (IH H2) as (A1 & A2 & A3 & A4 & A5 & A6).
  unfold hasl in *. cbn [existsb]. rewrite A1, A2, A3, A4, A5, A6.
  destruct m; try discriminate H1; cbn; repeat split;
    repeat match goal with |- context [existsb ?f ?l] => destruct (existsb f l) end; reflexivity.
Qed.

Theorem roundtrip_v1 k c x tzsize sigsz dek im pre post sg :
  wf_v1 c = true ->
  (56 <= length (m_app x))%nat -> (length (m_app x) mod 4 = 0)%nat ->
  0 <= m_subtype x < 4 -> 0 <= m_imgver x < 65536 ->
  m_cert x = Some (CertV1 pre post sg) -> cert1_wf pre post -> sigsz = sg -> (0 < sg)%nat ->
  (forall d, length (k_sign k d) = sg) -> (forall key data, length (k_hmac k key data) = 32%nat) ->
  (forall b, m_ks x = Some b -> length b = 1424%nat /\ has_attr c AKeyStore = true) ->
  (forall d, m_tz x = TzCustom d -> length d = tzsize /\ (0 < tzsize)%nat) ->
  (forall es, m_table x = Some es -> has_attr c AAppTable = true /\ entries_ok es) ->
  export_mbi k c x = Ok im ->
  parse_mbi k c tzsize sigsz dek im = Ok (parsed c x dek).
Proof.
  intros W L L4 R2 R3 HC CW SGE SGP KS KH KSL HZ HTb E.
  destruct (export_v1_shape k c x im pre post sg W L HC KH KS KSL R2 R3 E) as (app' & tb & cb & U & TB & CB & -> & FREV & HMF).
  pose proof W as W'. unfold wf_v1 in W'. wf_split W'.
  rename W0 into Wks, W1 into Pfin, W2 into Psign, W3 into Pdis, W4 into Pcol, W5 into Wtz, W6 into Wv1, W7 into Wt2, W8 into Wt1,
         W9 into Wi, W10 into Wa, W11 into Wnd.
  apply Z.eqb_eq in Psign, Pdis, Pcol, Pfin. apply opt_id_eq in Psign, Pdis, Pcol.
  assert (R1 : 0 <= c_type c < 64) by (apply Z.ltb_lt in Wt1; apply Z.ltb_lt in Wt2; lia).
  assert (T0 : c_type c <> 0) by (apply Z.ltb_lt in Wt1; lia).
  assert (PE : provider c SEncrypt = None) by (apply (provider_none_if _ _ allowed_v1 W'); intros m Hm; apply (v1_def_none m Hm)).
  assert (PP : provider c SPostEncrypt = None) by (apply (provider_none_if _ _ allowed_v1 W'); intros m Hm; apply (v1_def_none m Hm)).
  assert (SUP : existsb unsupported_mixin (c_mixins c) = false) by (apply (supported_if _ allowed_v1 W'); intros m Hm; apply (v1_def_none m Hm)).
  destruct (hasl_of_attr_tz_v1 _ W') as (G1 & G2 & G3 & G4 & G5 & G6).
  assert (La : length app' = length (m_app x)) by (eapply update_ivt_length; eassumption).
  pose proof (app_len_table c x tb app' Wnd Wa La TB) as AL.
  destruct (ivt_words c x (m_app x) _ _ app' L U) as (IW1 & IW2 & IW3 & IW4).
  assert (IW3' : rd32 OFF_CRC app' = app_len c x) by (rewrite IW3; unfold ivt_crc; destruct (Z.eqb_spec (c_type c) 0); [contradiction|reflexivity]).
  destruct (cert_v1_parse_export pre post sg _ cb (tzb_of x ++ k_sign k (app' ++ tb ++ cb ++ tzb_of x)) CW CB) as [CP Lcb].
  set (A := app' ++ tb ++ cb ++ tzb_of x) in *. set (sig := k_sign k A) in *.
  assert (Lsig : length sig = sg) by apply KS.
  set (F := v1_inner k app' tb cb x) in *.
  assert (FE : F = A ++ sig) by reflexivity.
  set (hm := k_hmac k (hmac_key_of x) (firstn 64 F)).
  set (HB := hmac_bytes x hm).
  set (data := with_hmac k c x F).
  assert (HMA : has_attr c AHmacKey = has c MixinHmacMandatory) by (rewrite has_attr_gives; exact G3).
  assert (HACB : has_attr c ACertBlock = true) by (rewrite has_attr_gives, G6; exact Wv1).
  assert (LHB : length HB = (32 + match m_ks x with Some _ => 1424 | None => 0 end)%nat).
  { unfold HB, hmac_bytes. rewrite app_length. unfold hm. rewrite KH. destruct (m_ks x) as [b0|] eqn:Eb; [destruct (KSL b0 eq_refl) as [-> _]|]; reflexivity. }
  set (S := if has c MixinHmacMandatory then length HB else 0%nat).
  assert (ALge : has c MixinHmacMandatory = true -> 64 <= app_len c x) by (intros Q; apply HMF; exact Q).
  assert (LF : (length F = length (m_app x) + length tb + length cb + length (tzb_of x) + sg)%nat)
    by (rewrite FE; unfold A; rewrite !app_length; lia).
  assert (LF64 : has c MixinHmacMandatory = true -> (64 <= length F)%nat).
  { intros Q. specialize (ALge Q). rewrite AL in ALge. unfold zlen in ALge. lia. }
  (* reading the image *)
  assert (PFX : forall o, (o + 4 <= 56)%nat -> rd32 o data = rd32 o app').
  { intros o Ho. unfold data, with_hmac. destruct (has c MixinHmacMandatory) eqn:HM.
    - rewrite rd32_inserted by (try apply LF64; auto; lia). rewrite FE. unfold A. rewrite <- !app_assoc. apply rd32_app. lia.
    - rewrite FE. unfold A. rewrite <- !app_assoc. apply rd32_app. lia. }
  assert (SKP : forall n, (natz (app_len c x) <= n)%nat -> skipn (n + S) data = skipn n F).
  { intros n Hn. unfold data, with_hmac, S. destruct (has c MixinHmacMandatory) eqn:HM; [|now rewrite Nat.add_0_r].
    apply skipn_inserted; [now apply LF64|]. specialize (ALge eq_refl). unfold natz in Hn. lia. }
  assert (DF : get_flags data = create_flags c x) by (unfold get_flags; rewrite PFX by (rewrite off_flags_eq; lia); exact IW2).
  assert (DL : rd32 OFF_LOAD data = ivt_load c x) by (rewrite PFX by (rewrite off_load_eq; lia); exact IW4).
  pose proof (flags_decode_lemma c x R1 R2 R3) as (_ & _ & FT & _ & _ & F5 & _).
  assert (KSF : flag_set data G_KEY_STORE_FLAG = match m_ks x with Some _ => true | None => false end).
  { unfold flag_set. rewrite DF, F5. destruct (m_ks x) as [b0|] eqn:Eb; [|now rewrite andb_false_r].
    destruct (KSL b0 eq_refl) as [Lb ->]. destruct b0; [simpl in Lb; lia | reflexivity]. }
  assert (SHIFT : hmac_ks_shift c data = Z.of_nat S).
  { unfold hmac_ks_shift, S. rewrite HMA. destruct (has c MixinHmacMandatory); [|reflexivity].
    rewrite KSF, LHB. change (Z.of_nat HMAC_SZ) with 32. change (Z.of_nat KS_SZ) with 1424. destruct (m_ks x); lia. }
  assert (Ldata : length data = (length F + S)%nat).
  { unfold data, with_hmac, S. destruct (has c MixinHmacMandatory) eqn:HM; [|lia].
    rewrite !app_length, firstn_length, skipn_length. specialize (LF64 eq_refl). unfold HB, hm. lia. }
  (* total length *)
  assert (TL : total_len c x + Z.of_nat sg = zlen data).
  { unfold total_len. rewrite (sum_len_v1 x (c_mixins c) (Z.of_nat (length cb)) W' Wnd).
    2:{ intros cb0 Hcb0. rewrite HC in Hcb0. injection Hcb0 as <-. cbn [cert_size]. destruct CW as (Wp & _). rewrite Lcb, Wp. lia. }
    unfold has in *. unfold hasl. rewrite Wa, Wv1, HC. unfold zlen. rewrite Ldata, LF. unfold S.
    assert (TBL : Z.of_nat (length tb) = if existsb (mixin_eqb MixinRelocTable) (c_mixins c) then (match m_table x with Some es => table_len es | None => 0 end) else 0).
    { unfold table_part in TB. rewrite has_attr_gives, has_attr_table_plain in TB. unfold hasl in TB.
      destruct (existsb (mixin_eqb MixinRelocTable) (c_mixins c)); [|now inversion TB].
      destruct (m_table x) as [es|]; [|now inversion TB]. symmetry. eapply table_export_len; [eassumption|apply zlen_nonneg]. }
    rewrite <- TBL. fold (zlen (tz_export (m_tz x))). unfold tzb_of.
    assert (KSZ : (if existsb (mixin_eqb MixinKeyStore) (c_mixins c) then opt_len (m_ks x) else 0)
                  = Z.of_nat (match m_ks x with Some _ => 1424 | None => 0 end)).
    { destruct (m_ks x) as [b0|] eqn:Eb; [|destruct (existsb (mixin_eqb MixinKeyStore) (c_mixins c)); reflexivity].
      destruct (KSL b0 eq_refl) as [Lb HAk]. rewrite has_attr_gives, G4 in HAk. unfold hasl in HAk. rewrite HAk. cbn [opt_len]. unfold zlen. now rewrite Lb. }
    rewrite KSZ.
    destruct (existsb (mixin_eqb MixinTrustZone) (c_mixins c)), (existsb (mixin_eqb MixinTrustZoneMandatory) (c_mixins c));
      try discriminate Wtz;
      (destruct (existsb (mixin_eqb MixinHmacMandatory) (c_mixins c)) eqn:HM;
       [ destruct (proj2 (HMF eq_refl)) as (kb & kt & ->); rewrite LHB; unfold zlen; lia
       | assert (KN : m_ks x = None) by (destruct (m_ks x) as [b0|] eqn:Eb; [|reflexivity];
                                          destruct (KSL b0 eq_refl) as [_ HAk]; rewrite has_attr_gives, G4 in HAk; unfold hasl in HAk;
                                          rewrite HAk in Wks; discriminate Wks);
         rewrite KN; unfold zlen; destruct (m_hmac x); lia ]). }
  assert (Ld56 : (56 <= length data)%nat) by (rewrite Ldata, LF; lia).
  assert (OFF : get_cert_block_offset c data = Ok (app_len c x)).
  { unfold get_cert_block_offset. rewrite (check_total_ok c data (total_len c x + Z.of_nat sg)); try assumption.
    - cbn [bind]. rewrite PFX by (rewrite off_crc_eq; lia). now rewrite IW3'.
    - rewrite PFX by (rewrite off_len_eq; lia). exact IW1.
    - lia.
    - rewrite TL. apply zlen_nonneg. }
  assert (NAL : natz (app_len c x) = (length app' + length tb)%nat) by (rewrite AL; unfold natz, zlen; rewrite <- Nat2Z.inj_add, Nat2Z.id; lia).
  assert (SKC : skipn (natz (app_len c x + hmac_ks_shift c data)) data = cb ++ tzb_of x ++ sig).
  { rewrite SHIFT. replace (natz (app_len c x + Z.of_nat S)) with (natz (app_len c x) + S)%nat
      by (unfold natz; pose proof (zlen_nonneg (m_app x)); pose proof (zlen_nonneg tb); rewrite AL; lia).
    rewrite SKP by lia. rewrite NAL, FE. unfold A. rewrite <- !app_assoc. rewrite (app_assoc app' tb). apply skipn_app_exact'. now rewrite app_length. }
  (* mix_parse of every mixin *)
  assert (PO : parse_ok c x dek tzsize sigsz data (c_mixins c)).
  { intros m Hi st Inv Wt.
    assert (Hal : allowed_v1 m = true) by (eapply forallb_forall in W'; eauto).
    destruct (simple_mixin m) eqn:Sm; [now apply mix_parse_simple|].
    assert (TZP : m = MixinTrustZone \/ m = MixinTrustZoneMandatory ->
                  mix_parse c tzsize sigsz dek data m st = Ok (upd x dek m st)).
    { intros Hm. assert (HTZ : has_tz c = true).
      { unfold has_tz. rewrite (has_tz_mixin_attr c m Hi Hm). reflexivity. }
      unfold waits in Wt. rewrite HACB in Wt.
      assert (PPm : pre_parsed_cert m = true) by (destruct Hm as [-> | ->]; reflexivity). rewrite PPm in Wt. cbn [andb] in Wt.
      destruct (m_cert st) as [cb0|] eqn:Ec; [|discriminate Wt]. destruct Inv as [N|Ei]; [congruence|]. rewrite Ec, HC in Ei. injection Ei as ->.
      destruct Hm as [-> | ->]; unfold mix_parse, upd; rewrite DF, FT, HTZ, HACB, Ec;
        (destruct (m_tz x) as [|d|] eqn:Et; cbn [tz_tag]; try reflexivity;
         change (G_TZ_CUSTOM =? G_TZ_CUSTOM) with true; cbv iota; rewrite OFF; cbn [bind];
         destruct (HZ d eq_refl) as [Ld Lz];
         replace (sub data (natz (app_len c x + Z.of_nat (cert_size (CertV1 pre post sg)) + hmac_ks_shift c data))
                      (natz (app_len c x + Z.of_nat (cert_size (CertV1 pre post sg)) + hmac_ks_shift c data) + tzsize)) with d;
         [ unfold tz_from_binary; rewrite Ld, Nat.ltb_irrefl, <- Ld, firstn_all; reflexivity | ];
         rewrite SHIFT; cbn [cert_size]; destruct CW as (Wp & _);
         replace (natz (app_len c x + Z.of_nat (length pre + 4 + length post) + Z.of_nat S))
           with ((length app' + length tb + length cb) + S)%nat
           by (unfold natz; rewrite AL, Lcb, Wp; unfold zlen; lia);
         unfold sub, slice; rewrite SKP by lia;
         replace (length app' + length tb + length cb + S + tzsize - (length app' + length tb + length cb + S))%nat with tzsize by lia;
         rewrite FE; unfold A, tzb_of; rewrite Et; cbn [tz_export]; rewrite <- !app_assoc;
         rewrite (app_assoc app' tb), (app_assoc (app' ++ tb) cb);
         rewrite skipn_app_exact' by (rewrite !app_length; lia);
         symmetry; apply firstn_app_exact'; lia). }
    destruct m; try discriminate Hal; try discriminate Sm.
    - apply TZP; now left.
    - apply TZP; now right.
    - (* MixinCertBlockV1 *)
      unfold mix_parse, upd. rewrite OFF. cbn [bind]. rewrite SKC, SGE, CP. cbn [bind]. now rewrite HC.
    - (* MixinKeyStore *)
      unfold mix_parse, upd. rewrite KSF. destruct (m_ks x) as [b0|] eqn:Eb; [|reflexivity].
      destruct (KSL b0 eq_refl) as [Lb HAk].
      assert (HM : has c MixinHmacMandatory = true).
      { rewrite has_attr_gives, G4 in HAk. unfold hasl in HAk. unfold has in Wks. rewrite HAk in Wks. exact Wks. }
      replace (sub data (HMAC_OFF + HMAC_SZ) (HMAC_OFF + HMAC_SZ + KS_SZ)) with b0.
      + destruct b0 as [|n0 t0]; [simpl in Lb; lia|]. change KS_SZ with 1424%nat. rewrite Lb, Nat.eqb_refl. reflexivity.
      + unfold data, with_hmac. rewrite HM. fold hm. unfold hmac_bytes. rewrite Eb.
        change (HMAC_OFF + HMAC_SZ)%nat with 96%nat. change KS_SZ with 1424%nat.
        replace (firstn 64 F ++ (hm ++ b0) ++ skipn 64 F) with ((firstn 64 F ++ hm) ++ b0 ++ skipn 64 F) by (now rewrite <- !app_assoc).
        symmetry. apply sub_mid'; rewrite !app_length, firstn_length; unfold hm; rewrite KH; specialize (LF64 HM); lia. }
  assert (NE : c_mixins c <> []).
  { apply has_in in Wa. destruct (c_mixins c) as [|m t]; [contradiction|congruence]. }
  unfold parse_mbi. unfold supported. rewrite SUP. cbn [negb].
  rewrite (rounds_result c x dek tzsize sigsz data NE PO) by (intros _; split; [rewrite G5; exact Wv1 | eauto]). cbn [bind].
  set (st := rounds_state c x dek).
  assert (STC : m_cert st = Some (CertV1 pre post sg)) by (unfold st, rounds_state; cbn [m_cert]; rewrite G5; unfold hasl; unfold has in Wv1; now rewrite Wv1).
  unfold data. rewrite (FREV st). cbn [bind]. rewrite FE.
  assert (SR : sign_revert c st (A ++ sig) = Ok A).
  { unfold sign_revert. rewrite Psign, STC. destruct (A ++ sig) as [|a0 r0] eqn:Q.
    - apply (f_equal (@length N)) in Q. rewrite app_length, Lsig in Q. simpl in Q. lia.
    - rewrite <- Q. destruct sg as [|sg']; [lia|]. f_equal. apply drop_last_app'. now rewrite Lsig. }
  rewrite SR. cbn [bind]. unfold post_encrypt_revert, encrypt_revert. rewrite PP, PE. cbn [bind].
  unfold disassemble. rewrite Pdis.
  assert (CUT : firstn (natz (rd32 OFF_CRC A)) A = app' ++ tb).
  { unfold A. rewrite rd32_app by (rewrite off_crc_eq; lia). rewrite IW3', NAL. rewrite (app_assoc app' tb). apply firstn_app_exact'. now rewrite app_length. }
  rewrite CUT.
  rewrite (reloc_cut_ok c x st app' tb R1 R2 R3 Wi) by (try assumption; try lia; reflexivity). cbn [bind fst snd].
  assert (CL : clean_ivt app' = clean_ivt (m_app x)) by (eapply clean_update; eassumption).
  rewrite CL, pad4_id by (rewrite clean_ivt_length; assumption). reflexivity.
Qed.

Lemma wf_v21_ivt c : wf_v21 c = true -> has_attr c AIvtTable = true.
Proof. intros W. unfold wf_v21 in W. wf_split W. assumption. Qed.
Lemma wf_v1_ivt c : wf_v1 c = true -> has_attr c AIvtTable = true.
Proof. intros W. unfold wf_v1 in W. wf_split W. assumption. Qed.

Lemma roundtrip_v21_full :
  forall (k : crypto) (c : mbi_class) (x : mbi) (tzsize sigsz : nat) (dek : option (list N)) (im b : list N) (sg : nat),
    wf_v21 c = true ->
    (56 <= length (m_app x))%nat -> (length (m_app x) mod 4 = 0)%nat ->
    0 <= m_subtype x < 4 -> 0 <= m_imgver x < 65536 ->
    m_cert x = Some (CertV21 b sg) -> cert21_wf b -> sigsz = sg -> (0 < sg)%nat ->
    (forall d, length (k_sign k d) = sg) -> (forall a d, length (k_hash k a d) = natz (hash_size a)) ->
    (forall d, m_tz x = TzCustom d -> length d = tzsize /\ (0 < tzsize)%nat) ->
    0 <= m_digest x <= 3 -> (has c MixinManifestCrc = true -> m_digest x = 0) ->
    m_table x = None ->
    export_mbi k c x = Ok im ->
    parse_mbi k c tzsize sigsz dek im = Ok (parsed c x dek) /\
    (canonical c x dek -> parsed c x dek = set_app x (clean_ivt (m_app x)) /\ export_mbi k c (parsed c x dek) = Ok im).
Proof.
  intros. split; [eapply roundtrip_v21; eassumption|].
  intros C. split; [now apply parsed_canonical | apply reexport_parsed; auto using wf_v21_ivt].
Qed.

Lemma roundtrip_v1_full :
  forall (k : crypto) (c : mbi_class) (x : mbi) (tzsize sigsz : nat) (dek : option (list N)) (im pre post : list N) (sg : nat),
    wf_v1 c = true ->
    (56 <= length (m_app x))%nat -> (length (m_app x) mod 4 = 0)%nat ->
    0 <= m_subtype x < 4 -> 0 <= m_imgver x < 65536 ->
    m_cert x = Some (CertV1 pre post sg) -> cert1_wf pre post -> sigsz = sg -> (0 < sg)%nat ->
    (forall d, length (k_sign k d) = sg) -> (forall key data, length (k_hmac k key data) = 32%nat) ->
    (forall b, m_ks x = Some b -> length b = 1424%nat /\ has_attr c AKeyStore = true) ->
    (forall d, m_tz x = TzCustom d -> length d = tzsize /\ (0 < tzsize)%nat) ->
    (forall es, m_table x = Some es -> has_attr c AAppTable = true /\ entries_ok es) ->
    export_mbi k c x = Ok im ->
    parse_mbi k c tzsize sigsz dek im = Ok (parsed c x dek) /\
    (canonical c x dek -> parsed c x dek = set_app x (clean_ivt (m_app x)) /\ export_mbi k c (parsed c x dek) = Ok im).
Proof.
  intros. split; [eapply roundtrip_v1; eassumption|].
  intros C. split; [now apply parsed_canonical | apply reexport_parsed; auto using wf_v1_ivt].
Qed.

(* the hypotheses are satisfiable: database classes, concrete certificate blocks *)
Definition k_ex (sg : nat) : crypto :=
  {| k_sign := fun _ => zeros sg; k_hmac := fun _ _ => zeros 32; k_ctr := fun _ _ _ d => d;
     k_hash := fun a _ => zeros (natz (hash_size a)) |}.
Example cert1_wf_instance : cert1_wf ([99; 101; 114; 116; 1; 0; 0; 0; 32; 0; 0; 0] ++ zeros 8)%N (zeros 136).
Proof.
  unfold cert1_wf. split; [reflexivity|]. split; [reflexivity|]. split; [reflexivity|].
  split; [rewrite zeros_length; lia|]. split; [vm_compute; discriminate | vm_compute; reflexivity].
Qed.
Example cert21_wf_instance : cert21_wf ([99; 104; 100; 114; 1; 0; 2; 0; 16; 0; 0; 0] ++ zeros 4)%N.
Proof. unfold cert21_wf. split; [simpl; lia|]. split; vm_compute; reflexivity. Qed.
Example wf_v1_instance :
  wf_v1 {| c_type := 1; c_mixins := [MixinApp; MixinRelocTable; MixinLoadAddress; MixinIvt; MixinTrustZone; MixinCertBlockV1;
                                     MixinHmacMandatory; MixinKeyStore; MixinHwKey; ExportMixinAppTrustZoneCertBlock;
                                     ExportMixinRsaSign; ExportMixinHmacKeyStoreFinalize] |} = true /\
  wf_v21 {| c_type := 4; c_mixins := [MixinApp; MixinIvt; MixinLoadAddress; MixinCertBlockV21; MixinManifestDigest;
                                      ExportMixinAppCertBlockManifest; ExportMixinEccSign] |} = true.
Proof. split; vm_compute; reflexivity. Qed.

(* ================================================================== encrypted + signed load-to-RAM images (RT5xx / RT6xx) *)
Definition allowed_enc (m : mixin) : bool :=
  match m with
  | MixinApp | MixinIvt | MixinIvtZeroTotalLength | MixinTrustZone | MixinTrustZoneMandatory | MixinLoadAddress
  | MixinLoadAddressOptional | MixinHwKey | MixinRelocTable | MixinCertBlockV1 | MixinHmacMandatory | MixinKeyStore
  | MixinCtrInitVector
  | ExportMixinAppTrustZoneCertBlockEncrypt | ExportMixinRsaSign | ExportMixinHmacKeyStoreFinalize => true
  | _ => false
  end.
Definition wf_enc (c : mbi_class) : bool :=
  forallb allowed_enc (c_mixins c) && nodupb (c_mixins c) && has c MixinApp && has_attr c AIvtTable &&
  (0 <? c_type c) && (c_type c <? 64) && has c MixinCertBlockV1 &&
  xorb (has c MixinTrustZone) (has c MixinTrustZoneMandatory) && has c MixinHmacMandatory && has c MixinCtrInitVector &&
  (opt_mixin_id (provider c SCollect) =? mixin_id ExportMixinAppTrustZoneCertBlockEncrypt) &&
  (opt_mixin_id (provider c SDisassemble) =? mixin_id ExportMixinAppTrustZoneCertBlockEncrypt) &&
  (opt_mixin_id (provider c SEncrypt) =? mixin_id ExportMixinAppTrustZoneCertBlockEncrypt) &&
  (opt_mixin_id (provider c SPostEncrypt) =? mixin_id ExportMixinAppTrustZoneCertBlockEncrypt) &&
  (opt_mixin_id (provider c SSign) =? mixin_id ExportMixinRsaSign) &&
  (opt_mixin_id (provider c SFinalize) =? mixin_id ExportMixinHmacKeyStoreFinalize).

Lemma enc_def_none m : allowed_enc m = true -> unsupported_mixin m = false /\ is_manifest_mixin m = false.
Proof. destruct m; intros H; try discriminate H; repeat split. Qed.

Lemma sum_len_enc x l cbn_ :
  forallb allowed_enc l = true -> nodupb l = true -> (forall cb, m_cert x = Some cb -> Z.of_nat (cert_size cb) = cbn_) ->
  sumz (map (mix_len x) l) =
  (if hasl l MixinApp then zlen (m_app x) else 0) + (if hasl l MixinTrustZone then zlen (tz_export (m_tz x)) else 0) +
  (if hasl l MixinTrustZoneMandatory then zlen (tz_export (m_tz x)) else 0) +
  (if hasl l MixinRelocTable then (match m_table x with Some es => table_len es | None => 0 end) else 0) +
  (if hasl l MixinCertBlockV1 then (match m_cert x with Some _ => cbn_ | None => 0 end) else 0) +
  (if hasl l MixinKeyStore then opt_len (m_ks x) else 0) +
  (if hasl l MixinHmacMandatory then (match m_hmac x with Some _ => 32 | None => 0 end) else 0).
Proof.
  intros Ha Hn Hc. induction l as [|m l IH]; [reflexivity|].
  cbn [forallb] in Ha. apply andb_true_iff in Ha as [Ha1 Ha2].
  cbn [nodupb] in Hn. apply andb_true_iff in Hn as [Hn1 Hn2]. apply negb_true_iff in Hn1.
  specialize (IH Ha2 Hn2). cbn [map sumz fold_right]. fold (sumz (map (mix_len x) l)). rewrite IH.
  unfold hasl in *. cbn [existsb].
  destruct m; try discriminate Ha1; cbn [mix_len mixin_eqb mixin_id Z.eqb orb Pos.eqb]; rewrite ?Hn1; cbn [orb];
    try (destruct (m_cert x) as [cb|] eqn:Ec; [rewrite (Hc cb eq_refl)|]);
    change (Z.of_nat HMAC_SZ) with 32;
    repeat match goal with |- context [if ?b then _ else _] => destruct b end; lia.
Qed.

Lemma givers_enc l : forallb allowed_enc l = true ->
  existsb is_tz_giver l = (hasl l MixinTrustZone || hasl l MixinTrustZoneMandatory) /\
  existsb (gives ATrustZone) l = (hasl l MixinTrustZone || hasl l MixinTrustZoneMandatory) /\
  existsb (gives AHmacKey) l = hasl l MixinHmacMandatory /\ existsb (gives AKeyStore) l = hasl l MixinKeyStore /\
  existsb is_cert_mixin l = hasl l MixinCertBlockV1 /\ existsb (gives ACertBlock) l = hasl l MixinCertBlockV1 /\
  existsb is_hmac_mixin l = hasl l MixinHmacMandatory /\ existsb (gives ACtrIv) l = hasl l MixinCtrInitVector.
Proof.
  intros H. induction l as [|m l IH]; [repeat split; reflexivity|].
  cbn [forallb] in H. apply andb_true_iff in H as [H1 H2]. destruct (IH H2) as (A1 & A2 & A3 & A4 & A5 & A6 & A7 & A8).
  unfold hasl in *. cbn [existsb]. rewrite A1, A2, A3, A4, A5, A6, A7, A8.
  destruct m; try discriminate H1; cbn; repeat split;
    repeat match goal with |- context [existsb ?f ?l] => destruct (existsb f l) end; reflexivity.
Qed.

(* the encrypted image before the HMAC insertion *)
Definition enc_inner (k : crypto) (enc_ivt E cb iv : list N) (alen : nat) : list N :=
  (enc_ivt ++ sub E 64 alen ++ cb ++ firstn 56 E ++ iv ++ skipn alen E) ++
  k_sign k (enc_ivt ++ sub E 64 alen ++ cb ++ firstn 56 E ++ iv ++ skipn alen E).

Lemma bind_Ok {A B} (a : A) (f : A -> res B) : bind (Ok a) f = f a.
Proof. reflexivity. Qed.

Lemma export_enc_shape k c x im pre post sg :
  wf_enc c = true -> (56 <= length (m_app x))%nat -> m_cert x = Some (CertV1 pre post sg) ->
  (forall key data, length (k_hmac k key data) = 32%nat) -> (forall d, length (k_sign k d) = sg) ->
  (forall key dv iv d, length (k_ctr k key dv iv d) = length d) ->
  (forall b, m_ks x = Some b -> length b = 1424%nat /\ has_attr c AKeyStore = true) ->
  0 <= m_subtype x < 4 -> 0 <= m_imgver x < 65536 ->
  export_mbi k c x = Ok im ->
  exists app' tb cb enc_ivt kb kt,
    m_hmac x = Some (kb :: kt) /\ m_iv x <> [] /\
    update_ivt c x (m_app x) (total_len c x + Z.of_nat sg + 56 + 16) (app_len c x) = Ok app' /\
    table_part c x (zlen app') = Ok tb /\
    let P := app' ++ tb ++ tzb_of x in
    let E := k_ctr k (kb :: kt) (enc_derive x) (m_iv x) P in
    update_ivt c x (firstn 64 E) (total_len c x + Z.of_nat sg + 56 + 16) (app_len c x) = Ok enc_ivt /\
    cert_export (CertV1 pre post sg) (zlen E + Z.of_nat (cert_size (CertV1 pre post sg)) + 56 + zlen (m_iv x)) = Ok cb /\
    64 <= app_len c x /\
    let G := enc_inner k enc_ivt E cb (m_iv x) (natz (app_len c x)) in
    im = firstn 64 G ++ hmac_bytes x (k_hmac k (kb :: kt) (firstn 64 G)) ++ skipn 64 G /\
    (forall st, finalize_revert c st im = Ok G).
Proof.
  intros W L HC KH KS KC KSL R2 R3 E. unfold wf_enc in W. wf_split W.
  rename W0 into Pfin, W1 into Psign, W2 into Ppost, W3 into Penc, W4 into Pdis, W5 into Pcol, W6 into Wiv, W7 into Whm,
         W8 into Wtz, W9 into Wv1, W10 into Wt2, W11 into Wt1, W12 into Wi, W13 into Wa, W14 into Wnd.
  apply Z.eqb_eq in Psign, Pdis, Pcol, Pfin, Penc, Ppost. apply opt_id_eq in Psign, Pdis, Pcol, Pfin, Penc, Ppost.
  assert (R1 : 0 <= c_type c < 64) by (apply Z.ltb_lt in Wt1; apply Z.ltb_lt in Wt2; lia).
  assert (SUP : existsb unsupported_mixin (c_mixins c) = false) by (apply (supported_if _ allowed_enc W); intros m Hm; apply (enc_def_none m Hm)).
  unfold export_mbi, export_image in E. unfold supported in E. rewrite SUP in E. cbn [negb] in E.
  destruct (validate c x) as [[]|] eqn:V; cbn [bind] in E; [|discriminate].
  destruct (collect c x) as [segs|] eqn:C; cbn [bind] in E; [|discriminate].
  assert (SH : exists app' rs, update_ivt c x (m_app x) (total_len c x + Z.of_nat sg + 56 + 16) (app_len c x) = Ok app' /\
                 reloc_segment c x (zlen app') = Ok rs /\ segs = [app'] ++ rs ++ tz_segment x).
  { unfold collect in C. rewrite Pcol, HC in C. destruct (m_app x) as [|b0 t0] eqn:Ea; [simpl in L; lia|].
    apply bind_ok in C as (app' & U & C). apply bind_ok in C as (rs & RS & C). injection C as <-. eauto. }
  destruct SH as (app' & rs & U & RS & ->).
  pose proof (reloc_segment_flat' c x (zlen app') rs RS) as TB.
  assert (FS : flat ([app'] ++ rs ++ tz_segment x) = app' ++ flat rs ++ tzb_of x).
  { rewrite !flat_app, flat_tz_segment. unfold flat at 1. cbn [concat]. now rewrite app_nil_r. }
  unfold encrypt in E. rewrite Penc in E.
  destruct (m_hmac x) as [[|kb kt]|] eqn:HK; try discriminate E.
  destruct (m_iv x) as [|iv0 ivt] eqn:HIV; [discriminate E|]. rewrite <- HIV in *. cbn [bind] in E. rewrite FS in E.
  set (P := app' ++ flat rs ++ tzb_of x) in *. set (EE := k_ctr k (kb :: kt) (enc_derive x) (m_iv x) P) in *.
  unfold post_encrypt in E. rewrite Ppost, HC in E.
  assert (FE1 : flat [EE] = EE) by (unfold flat; cbn [concat]; apply app_nil_r). rewrite FE1 in E.
  assert (RM : exists fin, bind (bind (update_ivt c x (firstn HMAC_OFF EE) (total_len c x + Z.of_nat sg + 56 + 16) (app_len c x))
                             (fun enc_ivt => bind (cert_export (CertV1 pre post sg) (zlen EE + Z.of_nat (cert_size (CertV1 pre post sg)) + 56 + zlen (m_iv x)))
                             (fun cb => Ok ([enc_ivt; sub EE HMAC_OFF (natz (app_len c x)); cb; firstn 56 EE; m_iv x] ++
                                            match tz_export (m_tz x) with [] => [] | _ :: _ => [skipn (natz (app_len c x)) EE] end))))
                             (fun enc2 => bind (sign k c x enc2) (fun sg0 => finalize k c x (fst sg0) (snd sg0))) = Ok fin /\ flat fin = im).
  { match type of E with res_map flat ?r = Ok im => destruct r as [fin|] eqn:Q; [|discriminate E] end.
    cbn [res_map] in E. injection E as E. exists fin. split; [exact Q | exact E]. }
  clear E. destruct RM as (fin & E & EF).
  apply bind_ok in E as (enc2 & PE2 & E). apply bind_ok in PE2 as (enc_ivt & UI & PE2). apply bind_ok in PE2 as (cb & CB & PE2).
  apply (f_equal (fun r : res image => match r with Ok v => v | Err _ => [] end)) in PE2. cbv beta iota in PE2. subst enc2.
  change HMAC_OFF with 64%nat in UI. exists app', (flat rs), cb, enc_ivt, kb, kt.
  split; [reflexivity|]. split; [rewrite HIV; discriminate|]. split; [exact U|]. split; [exact TB|]. cbv zeta. fold P. fold EE.
  split; [exact UI|]. split; [exact CB|].
  unfold sign in E. rewrite Psign in E. rewrite bind_Ok in E. cbv beta iota delta [fst snd] in E.
  set (alen := natz (app_len c x)) in *.
  set (segs2 := [enc_ivt; sub EE HMAC_OFF alen; cb; firstn 56 EE; m_iv x] ++ match tz_export (m_tz x) with [] => [] | _ :: _ => [skipn alen EE] end) in *.
  assert (La : length app' = length (m_app x)) by (eapply update_ivt_length; eassumption).
  pose proof (app_len_table c x (flat rs) app' Wnd Wa La TB) as AL.
  assert (LE : length EE = (length app' + length (flat rs) + length (tzb_of x))%nat) by (unfold EE; rewrite KC; unfold P; rewrite !app_length; lia).
  assert (NAL : alen = (length app' + length (flat rs))%nat) by (unfold alen; rewrite AL; unfold natz, zlen; rewrite <- Nat2Z.inj_add, Nat2Z.id; lia).
  assert (FS2 : flat segs2 = enc_ivt ++ sub EE 64 alen ++ cb ++ firstn 56 EE ++ m_iv x ++ skipn alen EE).
  { unfold segs2. rewrite flat_app. unfold flat at 1. cbn [concat]. rewrite app_nil_r. change HMAC_OFF with 64%nat. rewrite <- !app_assoc. do 5 f_equal.
    unfold tzb_of in LE. destruct (tz_export (m_tz x)) as [|t0 tt0] eqn:Etz.
    - cbn [length] in LE. symmetry. apply skipn_all2. lia.
    - unfold flat. cbn [concat]. apply app_nil_r. }
  assert (FI : flat (segs2 ++ [k_sign k (flat segs2)]) = enc_inner k enc_ivt EE cb (m_iv x) alen).
  { rewrite flat_app, FS2. unfold enc_inner, flat. cbn [concat]. now rewrite app_nil_r. }
  destruct (hmac_finalize_inverse k c x x (segs2 ++ [k_sign k (flat segs2)]) (flat segs2) Pfin) as [REJ _].
  destruct (Z.ltb_spec (app_len c x) 64) as [Lt|Ge]; [rewrite (REJ Lt) in E; discriminate|]. split; [exact Ge|].
  assert (L64 : (64 <= length EE)%nat) by (rewrite LE; rewrite AL in Ge; unfold zlen in Ge; lia).
  assert (Lei : length enc_ivt = 64%nat).
  { rewrite (update_ivt_length c x (firstn 64 EE) (total_len c x + Z.of_nat sg + 56 + 16) (app_len c x) enc_ivt) by (try exact UI; rewrite firstn_length; lia). rewrite firstn_length. lia. }
  destruct (ivt_words c x (firstn 64 EE) (total_len c x + Z.of_nat sg + 56 + 16) (app_len c x) enc_ivt) as (_ & IW2 & _ & _); [rewrite firstn_length; lia | exact UI|].
  pose proof (flags_decode_lemma c x R1 R2 R3) as (_ & _ & _ & _ & _ & F5 & _).
  assert (ACC' : forall st, exists im', finalize k c x (segs2 ++ [k_sign k (flat segs2)]) (flat segs2) = Ok im' /\
                   flat im' = firstn 64 (flat (segs2 ++ [k_sign k (flat segs2)])) ++
                              hmac_bytes x (k_hmac k (match m_hmac x with Some key => key | None => [] end) (firstn 64 (flat (segs2 ++ [k_sign k (flat segs2)])))) ++
                              skipn 64 (flat (segs2 ++ [k_sign k (flat segs2)])) /\
                   finalize_revert c st (flat im') = Ok (flat (segs2 ++ [k_sign k (flat segs2)]))).
  { intros st. destruct (hmac_finalize_inverse k c x st (segs2 ++ [k_sign k (flat segs2)]) (flat segs2) Pfin) as [_ ACC2].
    apply ACC2; try assumption.
    + rewrite FI. unfold enc_inner. rewrite !app_length, Lei. pose proof (cert_export_v1_len _ _ _ _ _ CB). lia.
    + rewrite HK. eauto.
    + intros b Hb. apply (KSL b Hb).
    + rewrite FI. unfold flag_set, enc_inner. rewrite <- !app_assoc. rewrite get_flags_prefix by lia.
      unfold get_flags. rewrite IW2, F5. destruct (m_ks x) as [b|] eqn:Eb; [|now rewrite andb_false_r].
      destruct (KSL b eq_refl) as [Lb ->]. destruct b; [simpl in Lb; lia | reflexivity]. }
  destruct (ACC' x) as (im' & FE & FL & _).
  rewrite FE in E. injection E as <-. subst im. rewrite FL, FI, HK. split; [reflexivity|].
  intros st. destruct (ACC' st) as (im2 & FE2 & FL2 & FR2). rewrite FE in FE2. injection FE2 as <-. rewrite FL, FI, HK in FR2. exact FR2.
Qed.

Lemma firstn_sub_cat (l : list N) a b : (a <= b)%nat -> firstn a l ++ sub l a b = firstn b l.
Proof.
  unfold sub, slice. revert l b; induction a as [|a IH]; intros l b H.
  - cbn [firstn skipn app]. now rewrite Nat.sub_0_r.
  - destruct l as [|h t]; [now rewrite !firstn_nil|]. destruct b as [|b]; [lia|].
    cbn [firstn skipn app Nat.sub]. f_equal. apply IH. lia.
Qed.
Lemma split4 (l : list N) a : (64 <= a)%nat -> firstn 56 l ++ sub l 56 64 ++ sub l 64 a ++ skipn a l = l.
Proof.
  intros H. rewrite app_assoc, firstn_sub_cat by lia. rewrite app_assoc, firstn_sub_cat by lia. apply firstn_skipn.
Qed.
Lemma skipn_firstn_sub (l : list N) a b : skipn a (firstn b l) = sub l a b.
Proof.
  unfold sub, slice. revert a b; induction l as [|h t IH]; intros a b.
  - now rewrite firstn_nil, !skipn_nil, firstn_nil.
  - destruct b as [|b]; [now rewrite skipn_nil, Nat.sub_0_l|]. destruct a as [|a]; [now rewrite Nat.sub_0_r|].
    cbn [firstn skipn Nat.sub]. apply IH.
Qed.
