(* Proofs/DatHashProofs.v -- C15: the RoT hash of a created ECC credential is the C03 construction.
   (Model/RotModel.v is imported read-only; the few facts about it that are needed are proved here.) *)
From Coq Require Import ZArith NArith List Bool Lia.
Require Import Value Bytes BytesProofs Sha2 GenRot RotModel GenDat DatModel DatProofs DatCreateProofs.
Import ListNotations.
Local Open Scope N_scope.
Local Arguments firstn : simpl never.
Local Arguments skipn : simpl never.
Local Opaque sha256 sha384 sha512 on_curve curve_p curve_b.

Lemma nat_n_ltb (n : nat) : (1 <? N.of_nat n) = (1 <? n)%nat.
Proof.
  destruct (1 <? n)%nat eqn:E.
  - apply Nat.ltb_lt in E. apply N.ltb_lt. lia.
  - apply Nat.ltb_ge in E. apply N.ltb_ge. lia.
Qed.

(* (a) model identity, for every key list: what calculate_hash returns for the created credential is C03's dc_ecc_hash *)
Lemma dc_rot_hash_ecc_model ele cnt socc ks rot_id dck uuid socu vu beacon fca d sig :
  dc_create ele cnt socc ks rot_id dck uuid socu vu beacon fca = Ok (CEcc, d) ->
  dc_calc_hash CEcc (dc_with_sig d sig) = dc_ecc_hash ks rot_id.
Proof.
  unfold dc_create. destruct (nth_error ks (N.to_nat rot_id)) as [rot|] eqn:EN; [|discriminate].
  destruct (version_of_key rot) as [v|]; [|discriminate]. cbn [bind].
  destruct (class_of ele cnt (fst v) (snd v)) as [oc|]; cbn [bind]; [|discriminate].
  destruct (negb (length uuid =? 16)%nat); [discriminate|].
  destruct (negb (Bool.eqb (is_ecc_key dck) (is_ecc_key rot) && (key_bits dck =? key_bits rot))); [discriminate|].
  destruct oc as [c|]; [|discriminate].
  destruct (rot_meta_create c ks rot_id fca) as [m|] eqn:EM; [|discriminate]. cbn [bind].
  intros H; inversion H; subst. clear H. unfold dc_with_sig.
  cbn [d_major d_minor d_socc d_uuid d_meta d_dck d_socu d_vu d_beacon d_rot d_sig].
  unfold rot_meta_create in EM. destruct ks as [|k0 t] eqn:EK; [discriminate|]. rewrite <- EK in *.
  destruct (forallb is_ecc_key ks) eqn:F1; [|discriminate]. cbn [negb] in EM.
  set (hs := N.of_nat (coord_size (key_bits k0))) in *.
  destruct (forallb (fun k => N.of_nat (coord_size (key_bits k)) =? hs) ks) eqn:F2; [|discriminate]. cbn [negb] in EM.
  destruct (mem_n hs (map fst g_hash_sizes)) eqn:F3; [|discriminate]. cbn [negb] in EM.
  destruct (dc_ecc_items ks) as [items|] eqn:EI; [|discriminate]. cbn [bind] in EM.
  destruct (flags_validate rot_id (nlen ks)) eqn:FV; [|discriminate]. inversion EM; subst m. clear EM.
  unfold dc_ecc_hash. rewrite EI. cbn [bind].
  unfold flags_validate in FV. apply andb_true_iff in FV as [FV1 FV2]. apply negb_true_iff in FV1, FV2. rewrite FV1, FV2. cbn [orb].
  unfold dc_calc_hash. cbn [d_meta ecc_table d_rot].
  replace (1 <? nlen items) with (1 <? length items)%nat by (unfold nlen; now rewrite nat_n_ltb).
  destruct (if (1 <? length items)%nat then concat items else []) as [|b0 tb] eqn:ET.
  - rewrite EN. assert (Hr : is_ecc_key rot = true).
    { rewrite forallb_forall in F1. apply F1. eapply nth_error_In; exact EN. }
    now rewrite Hr.
  - assert (Hc : (nlen ks =? 0) = false) by (rewrite EK; reflexivity). rewrite Hc. rewrite EK. cbn [key_bits]. fold hs.
    (* hs is one of the HASH_SIZES keys: both tables give the same digest *)
    unfold mem_n in F3. apply existsb_exists in F3 as (x & Hx & Hxe). apply N.eqb_eq in Hxe. subst x.
    change (map fst g_hash_sizes) with [32; 48; 66] in Hx. cbn [In] in Hx.
    destruct Hx as [<- | [<- | [<- | []]]]; reflexivity.
Qed.

(* (b) the C03 statement restated: for P-256 / P-384 key sets the debug-credential hash is the documented RoT hash of the
   certificate-block-v2.1 tools (rot_spec_v21): one key -> its hash, several -> hash of the table of hashes *)
Lemma rkh_items_ok c a ks : (c = 256 /\ a = A256 \/ c = 384 /\ a = A384) -> Forall (ecc_key_wf c) ks ->
  map_res (fun k => bind (raw_key k) (fun d => Ok (hash a d))) ks = Ok (map rkh_spec ks).
Proof.
  intros Hc. induction ks as [|k t IH]; intros HF; [reflexivity|]. inversion HF as [|? ? Hk Ht]; subst. cbn [map_res map].
  destruct k as [|c' x y]; [contradiction|]. destruct Hk as [-> HO].
  assert (Hc3 : c = 256 \/ c = 384 \/ c = 521) by (destruct Hc as [[-> _] | [-> _]]; auto).
  destruct (on_curve_bounds c x y Hc3 HO) as [Hx Hy].
  rewrite (IH Ht). unfold raw_key. rewrite (dat_to_bytes_ok _ _ Hx), (dat_to_bytes_ok _ _ Hy). cbn [bind].
  do 2 f_equal. unfold rkh_spec. destruct Hc as [[-> ->] | [-> ->]]; reflexivity.
Qed.
Lemma dc_ecc_hash_spec c ks rot_id : (c = 256 \/ c = 384) -> ks <> [] -> (length ks <= 4)%nat -> (N.to_nat rot_id < length ks)%nat ->
  Forall (ecc_key_wf c) ks -> dc_ecc_hash ks rot_id = Ok (rot_spec_v21 ks).
Proof.
  intros Hc Hne HL Hid Hks.
  set (a := if c =? 256 then A256 else A384).
  assert (Hca : c = 256 /\ a = A256 \/ c = 384 /\ a = A384) by (unfold a; destruct Hc as [-> | ->]; auto).
  destruct ks as [|k0 t] eqn:EK; [contradiction|]. rewrite <- EK in *.
  assert (Hall : forall k, In k ks -> exists x y, k = KEcc c x y /\ on_curve c x y = true).
  { intros k Hin. rewrite Forall_forall in Hks. specialize (Hks k Hin). destruct k as [|c' x y]; [contradiction|].
    destruct Hks as [-> H]. now exists x, y. }
  destruct (Hall k0) as (x0 & y0 & -> & HO0); [rewrite EK; now left|].
  assert (EI : dc_ecc_items ks = Ok (if 1 <? nlen ks then map rkh_spec ks else [])).
  { rewrite EK. unfold dc_ecc_items. cbv beta iota. rewrite <- EK.
    assert (F1 : forallb (fun k => match k with KEcc _ _ _ => true | KRsa _ _ => false end) ks = true).
    { apply forallb_forall. intros k Hin. destruct (Hall k Hin) as (x & y & -> & _). reflexivity. }
    rewrite F1. cbn [negb key_bits].
    assert (F2 : forallb (fun k => N.of_nat (coord_size (key_bits k)) =? N.of_nat (coord_size c)) ks = true).
    { apply forallb_forall. intros k Hin. destruct (Hall k Hin) as (x & y & -> & _). cbn [key_bits]. apply N.eqb_refl. }
    rewrite F2. cbn [negb].
    assert (EH : dc_hash_of_size (N.of_nat (coord_size c)) = Ok a) by (unfold a; destruct Hc as [-> | ->]; reflexivity).
    rewrite EH. cbn [bind]. destruct (1 <? nlen ks); [|reflexivity]. now apply (rkh_items_ok c a). }
  unfold dc_ecc_hash. rewrite EI. cbn [bind].
  assert (E4 : (4 <? nlen ks) = false) by (apply N.ltb_ge; unfold nlen; lia).
  assert (E5 : (nlen ks <? rot_id + 1) = false) by (apply N.ltb_ge; unfold nlen; lia).
  rewrite E4, E5. cbn [orb].
  destruct t as [|k1 t'].
  - (* one key: the table is empty, the hash is the key's own *)
    subst ks. cbn [nlen length]. change (1 <? N.of_nat 1) with false. cbv iota. cbn [nlen length].
    change (1 <? N.of_nat 0) with false. cbv iota.
    assert (rot_id = 0) by (cbn [length] in Hid; lia). subst rot_id. cbn [N.to_nat nth_error].
    assert (Hc3 : c = 256 \/ c = 384 \/ c = 521) by (destruct Hc as [-> | ->]; auto).
    destruct (on_curve_bounds c x0 y0 Hc3 HO0) as [Hx Hy].
    unfold raw_key. rewrite (dat_to_bytes_ok _ _ Hx), (dat_to_bytes_ok _ _ Hy).
    unfold key_halg, rot_spec_v21, rkh_spec. destruct Hc as [-> | ->]; reflexivity.
  - (* several keys *)
    assert (E1 : (1 <? nlen ks) = true) by (apply N.ltb_lt; rewrite EK; unfold nlen; cbn [length]; lia).
    assert (ETab : (if 1 <? nlen (map rkh_spec ks) then concat (map rkh_spec ks) else []) = concat (map rkh_spec ks)).
    { unfold nlen. rewrite map_length. fold (nlen ks). now rewrite E1. }
    rewrite E1, ETab.
    assert (EH : dc_hash_of_size (N.of_nat (coord_size (key_bits (KEcc c x0 y0)))) = Ok a)
      by (unfold a; cbn [key_bits]; destruct Hc as [-> | ->]; reflexivity).
    assert (ES : rot_spec_v21 ks = hash a (concat (map rkh_spec ks))).
    { rewrite EK. unfold rot_spec_v21, a. destruct Hc as [-> | ->]; reflexivity. }
    rewrite ES.
    destruct (concat (map rkh_spec ks)) as [|b0 tb] eqn:ECc.
    + exfalso. rewrite EK in ECc. cbn [map concat] in ECc. apply app_eq_nil in ECc as [E0 _].
      apply (f_equal (@length N)) in E0. unfold rkh_spec in E0.
      destruct (if c =? 256 then A256 else if c =? 384 then A384 else A512); cbn [hash] in E0;
        rewrite ?dat_sha256_length, ?dat_sha384_length, ?dat_sha512_length in E0; discriminate.
    + rewrite EK. cbv beta iota. rewrite EH. reflexivity.
Qed.

(* the property lemma: created ECC credential -> its RoT hash is the image-tool value for the same keys *)
Lemma dc_rot_hash_ecc_lemma ele cnt socc ks rot_id dck uuid socu vu beacon fca d sig c :
  dc_create ele cnt socc ks rot_id dck uuid socu vu beacon fca = Ok (CEcc, d) ->
  dc_calc_hash CEcc (dc_with_sig d sig) = dc_ecc_hash ks rot_id
  /\ ((c = 256 \/ c = 384) -> Forall (ecc_key_wf c) ks -> dc_calc_hash CEcc (dc_with_sig d sig) = Ok (rot_spec_v21 ks)).
Proof.
  intros H. pose proof (dc_rot_hash_ecc_model _ _ _ _ _ _ _ _ _ _ _ _ sig H) as HM. split; [exact HM|].
  intros Hc Hks. rewrite HM.
  destruct (dc_names_rot_key_lemma _ _ _ _ _ _ _ _ _ _ _ _ _ H) as (EN & _ & _ & _ & _ & _ & _ & (hs & items & _ & _ & FV)).
  assert (Hne : ks <> []) by (intros ->; destruct (N.to_nat rot_id); discriminate).
  unfold flags_validate in FV. apply andb_true_iff in FV as [F1 F2]. apply negb_true_iff, N.ltb_ge in F1. apply negb_true_iff, N.ltb_ge in F2.
  unfold nlen in *. apply (dc_ecc_hash_spec c); try assumption; lia.
Qed.
Example dc_rot_hash_ecc_nontrivial :
  exists d, dc_create 0 1 4 [g256; g256] 1 g256 (zeros 16) 1 2 3 false = Ok (CEcc, d) /\ Forall (ecc_key_wf 256) [g256; g256].
Proof. eexists. split; [vm_compute; reflexivity|repeat constructor; vm_compute; reflexivity]. Qed.
