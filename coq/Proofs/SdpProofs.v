(* Proofs/SdpProofs.v -- C10 lemmas about Model/SdpModel.v (the SDP host over its serial and HID protocols). *)
From Coq Require Import ZArith NArith List Bool Lia ZifyBool.
Require Import Value Bytes BytesProofs GenMboot MbootModel MbootProofs SdpModel.
Import ListNotations.
Local Open Scope N_scope.

Lemma nlen_firstnN' {A} (l : list A) n : n <= nlen l -> nlen (firstnN n l) = n.
Proof. intros H. rewrite firstnN_firstn. unfold nlen in *. rewrite firstn_length. lia. Qed.

(* ------------------------------------------------------------------ SDP.read is complete, on every interface *)
Section SdpGeneric.
  Variable E : Type.
  Variable I : sdp_iface E.
  Variable ce : bool.

  (* _read_data only returns when `length` bytes have arrived, and returns exactly `length` bytes: whatever the device
     sends, however the link splits the delivery *)
  Lemma sdp_read_loop_complete length : forall fuel data s v s',
    sdp_read_loop E I fuel length data s = (ROk v, s') -> nlen v = length.
  Proof.
    induction fuel as [|f IH]; intros data s v s' H; [discriminate|].
    cbn [sdp_read_loop] in H. destruct (length <=? nlen data) eqn:EL.
    - injection H as <- <-. apply nlen_firstnN'. now apply N.leb_le.
    - unfold mbind at 1 in H. destruct (guarded E _ s) as [[r|x] s1]; [|discriminate].
      destruct (negb (sr_hab r)); [eapply IH; exact H|].
      unfold mbind at 1, mlift in H. destruct (sr_value r) as [v0|x]; [|discriminate].
      unfold mbind in H. cbn in H. destruct (v0 =? SDPRV_LOCKED); cbn in H; eapply IH; exact H.
  Qed.

  Lemma sdp_read_complete fuel a d s v s' :
    sdp_api E I ce fuel (Call 1 a d) s = (ROk (AVBytes v), s') -> nlen v = nth 1 a 0.
  Proof.
    unfold sdp_api. unfold mbind at 1. destruct (sdp_process_cmd E I _ _ _ _ _ s) as [[[]|x] s1]; [|discriminate].
    unfold mbind. destruct (sdp_read_loop E I fuel (nth 1 a 0) [] s1) as [[v0|x] s2] eqn:L; [|discriminate].
    intros H. injection H as <- <-. eapply sdp_read_loop_complete; exact L.
  Qed.

  (* write_file / write_dcd / write_csf answer True only when the command status word the interface delivered is the
     protocol's OK word for that command *)
  Lemma sdp_send_data_sound tag address data s s' :
    sdp_send_data E I ce tag address data s = (ROk true, s') ->
    (tag = SDPCT_WRITE_FILE -> sd_cmd E s' = SDPRV_WRITE_FILE_OK) /\
    (tag = SDPCT_WRITE_DCD -> sd_cmd E s' = SDPRV_WRITE_DATA_OK) /\
    (tag = SDPCT_WRITE_CSF -> sd_cmd E s' = SDPRV_WRITE_DATA_OK) /\ sd_status E s' = SDPSC_SUCCESS.
  Proof.
    unfold sdp_send_data. unfold mbind at 1. unfold sd_put_status at 1. cbv beta iota.
    set (s0 := mkSdps E SDPSC_SUCCESS (sd_hab E s) (sd_cmd E s) (sd_env E s)).
    unfold mbind at 1. unfold guarded at 1.
    match goal with |- context [match ?m s0 with _ => _ end] => destruct (m s0) as [[ok|x] s1] eqn:G end.
    2:{ destruct x; discriminate. }
    destruct ok; cbn [negb andb]; [|destruct ce; discriminate].
    unfold mret. intros H. injection H as <-.
    (* walk through the guarded block *)
    unfold mbind at 1, mlift in G. destruct (sdp_pkt tag address 0 (nlen data) 0) as [b|x]; [|discriminate].
    unfold mbind at 1 in G. destruct (sd_lift E (si_write_command I b) s0) as [[[]|x] t1] eqn:W1; [|discriminate].
    unfold mbind at 1 in G. destruct (sd_lift E (si_write_data I data) t1) as [[[]|x] t2] eqn:W2; [|discriminate].
    unfold mbind at 1 in G. destruct (read_word E I None t2) as [[hv|x] t3] eqn:R1; [|discriminate].
    unfold mbind at 1 in G. unfold sd_put_hab at 1 in G. cbv beta iota in G.
    unfold mbind at 1 in G.
    match type of G with context [read_word E I None ?t] => destruct (read_word E I None t) as [[cv|x] t4] eqn:R2; [|discriminate] end.
    unfold mbind at 1 in G. unfold sd_put_cmd at 1 in G. cbv beta iota in G.
    assert (St : forall t, sd_lift E (si_write_command I b) s0 = (ROk tt, t) -> sd_status E t = SDPSC_SUCCESS)
      by (intros t Ht; unfold sd_lift in Ht; destruct (si_write_command I b (sd_env E s0)); injection Ht as _ <-; reflexivity).
    assert (S1 : sd_status E t1 = SDPSC_SUCCESS) by (apply St; exact W1).
    assert (S2 : sd_status E t2 = SDPSC_SUCCESS).
    { unfold sd_lift in W2. destruct (si_write_data I data (sd_env E t1)). injection W2 as _ <-. exact S1. }
    assert (RW : forall t r t', read_word E I None t = (ROk r, t') -> sd_status E t' = sd_status E t /\ sd_hab E t' = sd_hab E t /\ sd_cmd E t' = sd_cmd E t).
    { intros t r t' Hr. unfold read_word, mbind, sd_lift, mlift in Hr. destruct (si_read I None (sd_env E t)) as [[rr|x] e1]; [|discriminate].
      destruct (sr_value rr); [|discriminate]. injection Hr as _ <-. auto. }
    destruct (RW _ _ _ R1) as (S3 & _ & _). destruct (RW _ _ _ R2) as (S4 & _ & _). cbn [sd_status] in S4.
    destruct ((tag =? SDPCT_WRITE_DCD) && negb (snd cv =? SDPRV_WRITE_DATA_OK)) eqn:C1; [cbn in G; discriminate|].
    destruct ((tag =? SDPCT_WRITE_CSF) && negb (snd cv =? SDPRV_WRITE_DATA_OK)) eqn:C2; [cbn in G; discriminate|].
    destruct ((tag =? SDPCT_WRITE_FILE) && negb (snd cv =? SDPRV_WRITE_FILE_OK)) eqn:C3; [cbn in G; discriminate|].
    injection G as <-. cbn [sd_cmd sd_status].
    repeat split.
    - intros ->. cbn in C3. apply negb_false_iff, N.eqb_eq in C3. exact C3.
    - intros ->. cbn in C1. apply negb_false_iff, N.eqb_eq in C1. exact C1.
    - intros ->. cbn in C2. apply negb_false_iff, N.eqb_eq in C2. exact C2.
    - congruence.
  Qed.
End SdpGeneric.

(* ------------------------------------------------------------------ SDP over the serial link: exactly the bytes the device sent *)
Section SdpSerialProofs.
  Variable D : Type.
  Variable recv : D -> list N -> D * list N.
  Variable ce : bool.
  Notation SI := (sdp_serial_iface D recv).
  Definition senv_of (s : sdps (ssenv D)) : senv D := ss_env D (sd_env _ s).

  Lemma ss_read_inv len e r e' : ss_read D len e = (ROk r, e') ->
    sr_hab r = ss_expect D e /\ sr_raw r <> [] /\ eaten D (ss_env D e) (ss_env D e') (sr_raw r) /\
    nlen (sr_raw r) <= (match len with Some l => if l =? 0 then 4 else l | None => 4 end) /\
    wrote D (ss_env D e) (ss_env D e') [].
  Proof.
    unfold ss_read, ss_lift. set (n := match len with Some l => if l =? 0 then 4 else l | None => 4 end).
    destruct (sread D n (ss_env D e)) as [[raw|x] e1] eqn:R; [|discriminate].
    intros H. injection H as <- <-. cbn [sr_hab sr_raw ss_env].
    pose proof (sread_out D _ _ _ _ R) as W. apply sread_inv in R. destruct R as (Hne & Hraw & Hea).
    repeat split; try assumption. subst raw. apply nlen_firstnN_le.
  Qed.

  (* the receive loop on the serial link: the value is the data collected so far followed by exactly the bytes taken from
     the device, in order -- however the link split them into reads -- and nothing is written meanwhile *)
  Lemma sdp_read_loop_serial length : forall fuel data s v s', nlen data <= length ->
    sdp_read_loop _ SI fuel length data s = (ROk v, s') ->
    exists bs, eaten D (senv_of s) (senv_of s') bs /\ v = data ++ bs /\ wrote D (senv_of s) (senv_of s') [].
  Proof.
    induction fuel as [|f IH]; intros data s v s' Hd H; [discriminate|].
    cbn [sdp_read_loop] in H. destruct (length <=? nlen data) eqn:EL.
    - apply N.leb_le in EL. injection H as <- <-. exists []. split; [apply eaten_refl|]. split; [|apply wrote_refl].
      rewrite app_nil_r. assert (length = nlen data) by lia. subst length. pose proof (firstnN_app_exact data []) as F.
      rewrite app_nil_r in F. exact F.
    - apply N.leb_gt in EL. unfold mbind at 1 in H. unfold guarded at 1 in H. unfold sd_lift, sd_set_env in H.
      cbn [sd_env si_expect si_read sdp_serial_iface sd_status sd_hab sd_cmd] in H.
      match type of H with context [ss_read D ?l ?e] => destruct (ss_read D l e) as [[r|x] e1] eqn:R end.
      2:{ destruct x; discriminate. }
      apply ss_read_inv in R. destruct R as (Hh & Hne & Hea & Hlen & Hw). cbn [ss_expect ss_env] in *.
      rewrite Hh in H. cbn [negb] in H.
      apply IH in H.
      + destruct H as (bs & Hb & Hv & Hw2). exists (sr_raw r ++ bs). unfold senv_of in *. cbn [sd_env] in *.
        split; [eapply eaten_trans; eauto|]. split; [rewrite Hv; now rewrite app_assoc|].
        apply (wrote_trans D _ _ _ [] [] Hw Hw2).
      + rewrite nlen_app. replace (if N.min (length - nlen data) 64 =? 0 then 4 else N.min (length - nlen data) 64)
          with (N.min (length - nlen data) 64) in Hlen by (destruct (N.min (length - nlen data) 64 =? 0) eqn:E; [apply N.eqb_eq in E; lia|reflexivity]).
        lia.
  Qed.

  (* SDP_READ_EXACT: a successful SDP.read over the serial link returns exactly the requested number of bytes, and they
     are exactly the bytes the device sent after the 4-byte HAB word: consumed input = HAB word ++ value *)
  Lemma sdp_read_exact_serial fuel a d s v s' :
    sdp_api _ SI ce fuel (Call 1 a d) s = (ROk (AVBytes v), s') ->
    exists hab, nlen hab = 4 /\ eaten D (senv_of s) (senv_of s') (hab ++ v) /\ nlen v = nth 1 a 0.
  Proof.
    intros H. pose proof (sdp_read_complete _ _ _ _ _ _ _ _ _ H) as Hn.
    unfold sdp_api in H. unfold mbind at 1 in H.
    destruct (sdp_process_cmd _ SI _ _ _ _ _ s) as [[[]|x] s1] eqn:P; [|discriminate].
    unfold mbind in H. destruct (sdp_read_loop _ SI fuel (nth 1 a 0) [] s1) as [[v0|x] s2] eqn:L; [|discriminate].
    injection H as <- <-. apply sdp_read_loop_serial in L; [|apply N.le_0_l].
    destruct L as (bs & Hb & Hv & _). cbn [app] in Hv. subst bs.
    (* the command exchange consumed exactly the HAB word *)
    unfold sdp_process_cmd in P. unfold mbind at 1, sd_put_status at 1 in P. cbv beta iota in P.
    unfold mbind at 1 in P. unfold guarded at 1 in P.
    match type of P with context [match ?m ?s0 with _ => _ end] => destruct (m s0) as [[rv|x] t1] eqn:G end.
    2:{ destruct x; discriminate. }
    assert (He : exists hab, nlen hab = 4 /\ eaten D (senv_of s) (senv_of t1) hab).
    { unfold mbind at 1, mlift in G. destruct (sdp_pkt _ _ _ _ _) as [b|x]; [|discriminate].
      unfold mbind at 1 in G. unfold sd_lift at 1 in G. cbn [sd_env si_write_command sdp_serial_iface] in G.
      unfold ss_send, ss_lift in G. cbn [ss_env] in G.
      destruct (swrite D recv b (ss_env D (sd_env _ s))) as [rw e1] eqn:W. apply swrite_inv in W. destruct W as (-> & Hw).
      unfold sd_set_env in G. cbn [sd_env sd_status sd_hab sd_cmd] in G.
      unfold read_word, mbind, sd_lift, mlift in G. cbn [sd_env si_read sdp_serial_iface] in G.
      match type of G with context [ss_read D None ?e] => destruct (ss_read D None e) as [[r|x] e2] eqn:R; [|discriminate] end.
      apply ss_read_inv in R. destruct R as (_ & _ & Hea & Hlen & _). cbn [ss_env] in *.
      unfold sr_value in G. destruct (nlen (sr_raw r) <? 4) eqn:E4; [discriminate|]. apply N.ltb_ge in E4.
      injection G as _ <-. exists (sr_raw r). split; [lia|]. unfold senv_of. cbn [sd_env sd_set_env].
      apply (eaten_trans D _ _ _ [] _ Hw Hea). }
    destruct He as (hab & Hl & Hea).
    assert (Hs1 : senv_of s1 = senv_of t1).
    { destruct (sr_hab (fst rv)); [|injection P as <-; reflexivity].
      unfold mbind, sd_put_hab in P. destruct (negb (snd rv =? SDPRV_UNLOCKED)); injection P as <-; reflexivity. }
    exists hab. split; [exact Hl|]. split; [|exact Hn]. rewrite Hs1 in Hb. eapply eaten_trans; eauto.
  Qed.

  (* WRITE ONCE, IN ORDER: whatever the device answers, write_file / write_dcd / write_csf put on the serial line the
     16-byte command and then the data -- each once, in this order, nothing else; both when the call returns *)
  Lemma sdp_send_data_writes tag address data b s r s' :
    sdp_pkt tag address 0 (nlen data) 0 = ROk b ->
    sdp_send_data _ SI ce tag address data s = (r, s') ->
    exists n, wrote D (senv_of s) (senv_of s') (firstn n [b; data]) /\ (forall ok, r = ROk ok -> n = 2%nat).
  Proof.
    intros Hb H. unfold sdp_send_data in H. unfold mbind at 1, sd_put_status at 1 in H. cbv beta iota in H.
    set (s0 := mkSdps _ SDPSC_SUCCESS (sd_hab _ s) (sd_cmd _ s) (sd_env _ s)) in *.
    assert (RW : forall t r0 t', read_word _ SI None t = (r0, t') -> wrote D (senv_of t) (senv_of t') []).
    { intros t r0 t' Hr. unfold read_word, mbind, sd_lift, mlift in Hr. cbn [si_read sdp_serial_iface] in Hr.
      unfold ss_read, ss_lift in Hr. destruct (sread D 4 (ss_env D (sd_env _ t))) as [[raw|x] e1] eqn:R;
        apply sread_out in R; [destruct (sr_value _)|]; injection Hr as _ <-; exact R. }
    assert (G : forall ok t, (b0 <- mlift (sdp_pkt tag address 0 (nlen data) 0);;
                 sd_lift _ (si_write_command SI b0);;; sd_lift _ (si_write_data SI data);;;
                 hv <- read_word _ SI None;; sd_put_hab _ (if snd hv =? SDPRV_UNLOCKED then snd hv else SDPSC_HAB_IS_LOCKED);;;
                 cv <- read_word _ SI None;; sd_put_cmd _ (snd cv);;;
                 (if (tag =? SDPCT_WRITE_DCD) && negb (snd cv =? SDPRV_WRITE_DATA_OK) then sd_put_status _ SDPSC_WRITE_DCD_FAILURE;;; mret false
                  else if (tag =? SDPCT_WRITE_CSF) && negb (snd cv =? SDPRV_WRITE_DATA_OK) then sd_put_status _ SDPSC_WRITE_CSF_FAILURE;;; mret false
                  else if (tag =? SDPCT_WRITE_FILE) && negb (snd cv =? SDPRV_WRITE_FILE_OK) then sd_put_status _ SDPSC_WRITE_IMAGE_FAILURE;;; mret false
                  else mret true)) s0 = (ok, t) ->
               exists n, wrote D (senv_of s) (senv_of t) (firstn n [b; data]) /\ (forall o, ok = ROk o -> n = 2%nat)).
    { intros ok t. rewrite Hb. unfold mbind at 1, mlift. unfold mbind at 1. unfold sd_lift at 1. cbn [sd_env si_write_command sdp_serial_iface].
      unfold ss_send, ss_lift, swrite. cbn [ss_env se_dev se_in se_out se_cons]. destruct (recv _ b) as [d1 r1].
      unfold sd_set_env at 1. unfold mbind at 1. unfold sd_lift at 1. cbn [sd_env si_write_data sdp_serial_iface sd_status sd_hab sd_cmd].
      unfold ss_send, ss_lift, swrite. cbn [ss_env se_dev se_in se_out se_cons]. destruct (recv d1 data) as [d2 r2].
      unfold sd_set_env at 1. cbn [sd_env sd_status sd_hab sd_cmd].
      match goal with |- context [mbind (read_word _ SI None) ?k ?t2] => set (t2' := t2); set (k' := k) end.
      assert (W2 : wrote D (senv_of s) (senv_of t2') [b; data]) by reflexivity.
      unfold mbind at 1. destruct (read_word _ SI None t2') as [[hv|x] t3] eqn:R1; pose proof (RW _ _ _ R1) as W3.
      2:{ intros Ht. injection Ht as <- <-. exists 2%nat. split; [apply (wrote_trans D _ _ _ _ [] W2 W3)|discriminate]. }
      subst k'. cbv beta. unfold mbind at 1, sd_put_hab at 1. cbv beta iota.
      match goal with |- context [mbind (read_word _ SI None) ?k ?t] => set (t3' := t); set (k' := k) end.
      assert (W3' : wrote D (senv_of s) (senv_of t3') [b; data]) by (apply (wrote_trans D _ _ _ _ [] W2 W3)).
      unfold mbind at 1. destruct (read_word _ SI None t3') as [[cv|x] t4] eqn:R2; pose proof (RW _ _ _ R2) as W4.
      2:{ intros Ht. injection Ht as <- <-. exists 2%nat. split; [apply (wrote_trans D _ _ _ _ [] W3' W4)|discriminate]. }
      subst k'. cbv beta. unfold mbind at 1, sd_put_cmd at 1. cbv beta iota.
      pose proof (wrote_trans D _ _ _ _ [] W3' W4) as W5.
      intros Ht. exists 2%nat. split; [|reflexivity].
      destruct (_ && _); [unfold mbind, sd_put_status in Ht; injection Ht as _ <-; exact W5|].
      destruct (_ && _); [unfold mbind, sd_put_status in Ht; injection Ht as _ <-; exact W5|].
      destruct (_ && _); [unfold mbind, sd_put_status in Ht; injection Ht as _ <-; exact W5|].
      injection Ht as _ <-. exact W5. }
    unfold mbind at 1 in H. unfold guarded at 1 in H.
    match type of H with context [match ?m s0 with _ => _ end] => destruct (m s0) as [ok t] eqn:GE end.
    destruct (G _ _ eq_refl) as (n & Hw & Hn).
    destruct ok as [o|x].
    - destruct (negb o && ce); injection H as <- <-; exists n; (split; [exact Hw|]); intros; [discriminate|apply (Hn o); reflexivity].
    - assert (s' = t /\ forall o, r <> ROk o) as [-> Hr] by (destruct x; injection H as <- <-; split; try reflexivity; discriminate).
      exists n. split; [exact Hw|]. intros o Ho. exfalso. eapply Hr; eauto.
  Qed.
End SdpSerialProofs.

(* ------------------------------------------------------------------ SDP over HID: the data reports carry the data once, in order *)
Definition sdp_pad (rid size : N) (ch : list N) : list N := rid :: ch ++ repeat 0 (N.to_nat (size - nlen ch)).
Lemma sh_frames_chunks rid size : forall fuel data,
  sh_frames fuel rid size data = map (sdp_pad rid size) (chunks_fuelN fuel size data).
Proof.
  induction fuel as [|f IH]; intros data; [reflexivity|]. cbn [sh_frames chunks_fuelN].
  destruct data as [|x t]; [reflexivity|]. cbn [map]. now rewrite IH.
Qed.
Lemma sdp_hid_reports_carry_data rid size data : 0 < size ->
  exists chunks, sh_frames (length data) rid size data = map (sdp_pad rid size) chunks /\
    concat chunks = data /\ Forall (fun c => c <> [] /\ nlen c <= size) chunks.
Proof.
  intros Hs. exists (chunksN size data). split; [apply sh_frames_chunks|]. apply chunksN_spec. exact Hs.
Qed.
