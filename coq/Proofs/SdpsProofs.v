(* SdpsProofs.v -- C10 extension: HID report framing of SDPS / SDP bulk writes. *)
From Coq Require Import ZArith NArith List Bool Lia.
Require Import Value SdpsModel.
Import ListNotations.

Section Frames.
Variable rid : N.
Variable size : nat.
Hypothesis Hsize : 0 < size.

Lemma skipn_shorter (data : list N) : data <> [] -> length (skipn size data) < length data.
Proof. intros Hd. rewrite skipn_length. destruct data; [congruence|]. cbn [length]. lia. Qed.

(* every report has exactly the negotiated size (plus the report id byte) and carries the report id *)
Lemma sdps_frames_shape fuel data :
  Forall (fun f => length f = S size /\ hd_error f = Some rid) (sdps_frames fuel rid size data).
Proof.
  revert data. induction fuel as [|f IH]; intros data; destruct data as [|x xs]; cbn [sdps_frames]; try constructor.
  - split; [|reflexivity]. cbn [length]. rewrite app_length, repeat_length.
    assert (length (firstn size (x :: xs)) <= size) by apply firstn_le_length. lia.
  - apply IH.
Qed.

(* the payloads, concatenated, are the data followed by fewer than `size` zero bytes: every byte arrives once, in order *)
Lemma sdps_frames_payload fuel data : length data <= fuel ->
  exists k, concat (map (@tl N) (sdps_frames fuel rid size data)) = data ++ repeat 0%N k /\ k < size.
Proof.
  revert data. induction fuel as [|f IH]; intros data Hf.
  - destruct data as [|x xs]; [|cbn [length] in Hf; lia]. exists 0. split; [reflexivity|exact Hsize].
  - destruct data as [|x xs]; [exists 0; split; [reflexivity|exact Hsize]|].
    cbn [sdps_frames map concat tl].
    assert (Hlt : length (skipn size (x :: xs)) < length (x :: xs)) by (apply skipn_shorter; discriminate).
    destruct (IH (skipn size (x :: xs)) ltac:(lia)) as (k & Hk & Hks).
    destruct (le_lt_dec (length (x :: xs)) size) as [Hle|Hgt].
    + (* last report *)
      rewrite (firstn_all2 (x :: xs) Hle). rewrite (skipn_all2 (x :: xs) Hle).
      destruct f; cbn [sdps_frames map concat]; rewrite app_nil_r;
        (exists (size - length (x :: xs)); split; [reflexivity|cbn [length]; lia]).
    + (* full report *)
      rewrite firstn_length_le by lia. rewrite Nat.sub_diag. cbn [repeat]. rewrite app_nil_r.
      rewrite Hk. exists k. split; [|exact Hks].
      rewrite app_assoc. now rewrite firstn_skipn.
Qed.

(* number of reports = ceiling (len / size) *)
Lemma sdps_frames_count fuel data : length data <= fuel ->
  length (sdps_frames fuel rid size data) = (length data + size - 1) / size.
Proof.
  revert data. induction fuel as [|f IH]; intros data Hf.
  - destruct data as [|x xs]; [|cbn [length] in Hf; lia]. cbn [sdps_frames length]. symmetry. apply Nat.div_small. lia.
  - destruct data as [|x xs]; [cbn [sdps_frames length]; symmetry; apply Nat.div_small; lia|].
    cbn [sdps_frames length].
    assert (Hlt : length (skipn size (x :: xs)) < length (x :: xs)) by (apply skipn_shorter; discriminate).
    rewrite IH by (cbn [length] in Hlt, Hf; lia). rewrite skipn_length. cbn [length].
    destruct (le_lt_dec (S (length xs)) size) as [Hle|Hgt].
    + replace (S (length xs) - size) with 0 by lia.
      replace ((0 + size - 1) / size) with 0 by (symmetry; apply Nat.div_small; lia).
      apply (Nat.div_unique _ _ 1 (length xs)); lia.
    + replace (S (length xs) + size - 1) with ((S (length xs) - size + size - 1) + 1 * size) by lia.
      rewrite Nat.div_add by lia. lia.
Qed.
End Frames.

Lemma sdps_write_data_spec_l rid size data : 0 < size ->
  Forall (fun f => length f = S size /\ hd_error f = Some rid) (sdps_write_data rid size data) /\
  (exists k, concat (map (@tl N) (sdps_write_data rid size data)) = data ++ repeat 0%N k /\ k < size) /\
  length (sdps_write_data rid size data) = (length data + size - 1) / size.
Proof.
  intros Hs. unfold sdps_write_data. split; [now apply sdps_frames_shape|].
  split; [apply sdps_frames_payload; [exact Hs|lia]|apply sdps_frames_count; [exact Hs|lia]].
Qed.
