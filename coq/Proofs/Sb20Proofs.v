(* Proofs/Sb20Proofs.v -- lemmas about Model/Sb20Model.v (C04, Secure Binary 2.0). *)
From Coq Require Import ZArith NArith List Bool Lia ZifyNat ZifyN.
Require Import Value Bytes BytesProofs GenSb2 GenSb20 Sha2 Aes Modes Hmac KeyWrap Crc Sb2Model Sb2Proofs Sb20Model.
Import ListNotations.
Local Open Scope N_scope.
Ltac Zify.zify_post_hook ::= Z.to_euclidean_division_equations.

Definition wf_sb20 (y : sb20in) : Prop :=
  secs_wf (y_secs y) /\ length (y_dek y) = 32%nat /\ length (y_mac y) = 32%nat /\ length (y_pad2 y) = 8%nat /\
  (y_signed y = true -> length (y_sig y) = y_sigsize y) /\ ver_ok (y_pv y) /\ ver_ok (y_cv y).

Definition flags20 (y : sb20in) : N := if y_signed y then V20_FLAGS_SIGNED else V20_FLAGS_UNSIGNED.

Section Cipher20Proofs.
Variable E D : list N -> list N -> list N.
Hypothesis E_len : forall k b, length (E k b) = 16%nat.
Variable kwdom : list N -> list N -> Prop.
Hypothesis KW : forall k data, kwdom k data -> (length data mod 8 = 0)%nat ->
  length (kw_wrap (E k) data) = (8 + length data)%nat /\ kw_unwrap (D k) (kw_wrap (E k) data) = Some data.

(* the shape of every file BootImageV20.export returns *)
Definition certsect_shape (y : sb20in) (ssz : nat) (csb : list N) : Prop :=
  if y_signed y then
    exists cbb, cb_export (y_cb y) (y_build y) (N.of_nat (208 + ssz)) = Ok cbb /\
                hdr_fits (certsect_hdr (y_cb y)) = true /\ ctr_of_nonce (y_nonce y) + 13 < U32 /\
                csb = xblock (E (y_dek y)) (y_nonce y) (ctr_of_nonce (y_nonce y) + 13) (hdr_export (certsect_hdr (y_cb y)))
                      ++ hmac256 (y_mac y) (xblock (E (y_dek y)) (y_nonce y) (ctr_of_nonce (y_nonce y) + 13) (hdr_export (certsect_hdr (y_cb y))))
                      ++ hmac256 (y_mac y) cbb ++ cbb
  else csb = [].

Lemma build20_inv y file :
  wf_sb20 y -> kwdom (y_kek y) (y_dek y ++ y_mac y) -> build20_gen E y = Ok file ->
  exists hb kb0 csb bs fbsid mm,
    file = hb ++ hmac256 (y_mac y) hb ++ (kb0 ++ y_pad2 y) ++ csb ++ bs ++ (if y_signed y then y_sig y else []) /\
    length hb = 96%nat /\ length kb0 = 72%nat /\ kw_unwrap (D (y_kek y)) kb0 = Some (y_dek y ++ y_mac y) /\
    ((208 + length csb) mod 16 = 0)%nat /\ ((208 + length csb + length bs) mod 16 = 0)%nat /\
    ihdr_export (mkIhdr (y_nonce y) (y_pad1 y) 2 0 (flags20 y) (N.of_nat ((208 + length csb + length bs) / 16))
                        (N.of_nat ((208 + length csb) / 16)) fbsid (if y_signed y then 288 else 0) 6 8 5 mm
                        (y_ts y) (y_pv y) (y_cv y) (y_build y)) = Ok hb /\
    certsect_shape y (length bs) csb /\
    (length csb = if y_signed y then (80 + cb_raw_size (y_cb y))%nat else 0%nat) /\
    secs_export (E (y_dek y)) (y_mac y) (y_nonce y) (ctr_of_nonce (y_nonce y) + N.of_nat ((208 + length csb) / 16)) (y_secs y) = Ok bs /\
    uids_distinct [] (map s_uid (y_secs y)) = true /\
    (exists s0 st, y_secs y = s0 :: st /\ fbsid = s_uid s0).
Proof.
  intros (Wsecs & Wdek & Wmac & Wpad2 & Wsig & Wpv & Wcv) Hdom H. unfold build20_gen in H.
  destruct (uids_distinct [] (map s_uid (y_secs y))) eqn:Huid; [|discriminate]. cbn [negb] in H.
  destruct (y_secs y) as [|s0 st] eqn:Esecs; [discriminate|]. rewrite <- Esecs in *.
  destruct (secs_raw_size (y_secs y)) as [ssz|] eqn:Essz; [|discriminate].
  set (cbraw := cb_raw_size (y_cb y)) in *.
  set (csz := if y_signed y then (CS_OVERHEAD + cbraw)%nat else 0%nat) in *.
  set (tagoff := (PRE20 + csz)%nat) in *.
  set (rawsz := (tagoff + ssz)%nat) in *.
  destruct (aligned16 tagoff) eqn:Atag; [|discriminate].
  destruct (aligned16 rawsz) eqn:Araw; [|discriminate]. cbn [negb] in H.
  set (hdr := mkIhdr _ _ _ _ _ _ _ _ _ _ _ _ _ _ _ _ _) in H.
  destruct (ihdr_export hdr) as [hb|] eqn:Ehb; [|discriminate].
  set (kb0 := wrap_keys E (y_kek y) (y_dek y) (y_mac y)) in *.
  set (pre := hb ++ hmac256 (y_mac y) hb ++ kb0 ++ y_pad2 y) in *.
  destruct (ihdr_export_inv hdr hb Ehb) as (_ & _ & _ & _ & Lhb).
  assert (Hdm : (length (y_dek y ++ y_mac y) mod 8 = 0)%nat) by (rewrite app_length, Wdek, Wmac; reflexivity).
  destruct (KW (y_kek y) (y_dek y ++ y_mac y) Hdom Hdm) as [Lkb0 Hunwrap].
  fold (wrap_keys E (y_kek y) (y_dek y) (y_mac y)) in Lkb0, Hunwrap. fold kb0 in Lkb0, Hunwrap.
  rewrite app_length, Wdek, Wmac in Lkb0. change (8 + (32 + 32))%nat with 72%nat in Lkb0.
  assert (Lpre : length pre = 208%nat) by (unfold pre; rewrite !app_length, Lhb, hmac256_length, Lkb0, Wpad2; reflexivity).
  rewrite Lpre in H. change (aligned16 208) with true in H. cbn [negb] in H. change (208 / 16)%nat with 13%nat in H.
  change PRE20 with 208%nat in *. change CS_OVERHEAD with 80%nat in *.
  set (ctr0 := ctr_of_nonce (y_nonce y) + N.of_nat 13) in *.
  assert (Hcs : exists csb, (if y_signed y then certsect_export E (y_dek y) (y_mac y) (y_nonce y) ctr0 (y_cb y) (y_build y) (N.of_nat (208 + ssz))
                             else Ok []) = Ok csb /\ certsect_shape y ssz csb /\ length csb = csz).
  { destruct (y_signed y) eqn:Esg.
    - unfold certsect_export in *. destruct (hdr_fits (certsect_hdr (y_cb y))) eqn:Hf; [|discriminate H]. cbn [negb] in *.
      destruct (U32 <=? ctr0) eqn:Hov; [discriminate H|].
      destruct (cb_export (y_cb y) (y_build y) (N.of_nat (208 + ssz))) as [cbb|] eqn:Ecb; [|discriminate H].
      eexists. split; [reflexivity|]. split.
      + unfold certsect_shape. rewrite Esg. exists cbb. split; [exact Ecb|]. split; [exact Hf|]. split.
        * apply N.leb_gt in Hov. unfold ctr0 in Hov. lia.
        * unfold ctr0. reflexivity.
      + destruct (cb_export_inv _ _ _ _ Ecb) as (Lcbb & _). unfold csz.
        rewrite !app_length, !hmac256_length, Lcbb. rewrite xblock_length by (try apply E_len; apply hdr_export_length).
        fold cbraw. lia.
    - exists []. split; [reflexivity|]. split; [unfold certsect_shape; now rewrite Esg|reflexivity]. }
  destruct Hcs as (csb & Ecs & Hshape & Lcsb). rewrite Ecs in H.
  destruct (aligned16 (length csb)) eqn:Acs; [|discriminate]. cbn [negb] in H.
  destruct (secs_export (E (y_dek y)) (y_mac y) (y_nonce y) (ctr0 + N.of_nat (length csb / 16)) (y_secs y)) as [bs|] eqn:Ebs; [|discriminate].
  pose proof (secs_raw_size_ok (E (y_dek y)) (E_len _) (y_mac y) (y_nonce y) _ _ _ _ Wsecs Ebs Essz) as Hssz.
  destruct (Nat.eqb _ _) eqn:Elen; [|discriminate]. injection H as <-.
  unfold aligned16 in Atag, Araw, Acs. apply Nat.eqb_eq in Atag, Araw, Acs.
  exists hb, kb0, csb, bs, (s_uid s0), (N.of_nat ((if y_signed y then 1 else 0) + secs_mac_count (y_secs y))).
  split.
  { unfold pre. rewrite <- !app_assoc. destruct (y_signed y); [reflexivity| now rewrite !app_nil_r]. }
  split; [exact Lhb|]. split; [exact Lkb0|]. split; [exact Hunwrap|].
  unfold hdr in Ehb. unfold tagoff, rawsz, tagoff in *. rewrite <- Lcsb in *. rewrite Hssz in *.
  split; [exact Atag|]. split; [exact Araw|]. split.
  { unfold flags20.
    replace (if y_signed y then N.of_nat (208 + 80) else 0) with (if y_signed y then 288 else 0) in Ehb by (destruct (y_signed y); reflexivity).
    exact Ehb. }
  split; [exact Hshape|]. split; [exact Lcsb|]. split; [|split; [reflexivity| exists s0, st; split; [exact Esecs|reflexivity]]].
  replace (ctr_of_nonce (y_nonce y) + N.of_nat ((208 + length csb) / 16)) with (ctr0 + N.of_nat (length csb / 16))
    by (unfold ctr0; lia).
  exact Ebs.
Qed.

Definition sigpart (y : sb20in) : list N := if y_signed y then y_sig y else [].

Lemma certhdr_magic flds tl :
  firstn 4 (pack certhdr_format (FB CERT_SIGNATURE :: flds) ++ tl) = CERT_SIGNATURE.
Proof. unfold certhdr_format. cbn [pack pack1 snd]. rewrite <- app_assoc. now apply firstn_app_exact. Qed.

Lemma rom20_build_lemma y file :
  wf_sb20 y -> kwdom (y_kek y) (y_dek y ++ y_mac y) -> build20_gen E y = Ok file ->
  exists r, rom20 E D (y_sigsize y) (y_kek y) file = Some r /\
    t_secs r = spec_of (y_secs y) /\ t_signed r = y_signed y /\ t_pv r = y_pv y /\ t_cv r = y_cv y /\
    t_build r = y_build y /\ t_ts r = y_ts y /\ t_sig r = sigpart y /\
    file = firstn (t_signed_len r) file ++ sigpart y /\ length (firstn (t_signed_len r) file) = t_signed_len r /\
    t_boot_index r = 0%nat /\ hdr_first_boot_section_id file = option_map s_uid (hd_error (y_secs y)).
Proof.
  intros W Hdom H.
  destruct (build20_inv y file W Hdom H) as (hb & kb0 & csb & bs & fbsid & mm & Hfile & Lhb & Lkb0 & Hkw & Htag & Hraw & Ehb & Hshape & Lcsb & Ebs & Huid & (s0 & st & Esecs0 & Hfb)).
  destruct W as (Wsecs & Wdek & Wmac & Wpad2 & Wsig & Wpv & Wcv).
  set (hm := hmac256 (y_mac y) hb) in *.
  assert (Lhm : length hm = 32%nat) by apply hmac256_length.
  set (kb := kb0 ++ y_pad2 y) in *.
  assert (Lkb : length kb = 80%nat) by (unfold kb; rewrite app_length, Lkb0, Wpad2; reflexivity).
  destruct (secs_export_rom (E (y_dek y)) (E_len _) (y_mac y) (y_nonce y) _ _ _ Wsecs Ebs) as (Hbsm & Hbsl & Hrom).
  assert (Hnsec : (1 <= length (y_secs y))%nat).
  { destruct (y_secs y) as [|s0' st'] eqn:Es'; [|cbn; lia]. unfold build20_gen in H. rewrite Es' in H. cbn [map uids_distinct negb] in H. discriminate H. }
  assert (Hbs48 : (48 <= length bs)%nat) by lia.

  set (stop := (208 + length csb + length bs)%nat) in *.
  set (start := (208 + length csb)%nat) in *.
  assert (Lsig : length (sigpart y) = if y_signed y then y_sigsize y else 0%nat).
  { unfold sigpart. destruct (y_signed y); [now apply Wsig|reflexivity]. }
  assert (Hfile' : file = (hb ++ hm ++ kb ++ csb) ++ bs ++ sigpart y) by (rewrite Hfile; unfold sigpart; rewrite <- !app_assoc; reflexivity).
  assert (Lpre : length (hb ++ hm ++ kb ++ csb) = start) by (rewrite !app_length, Lhb, Lhm, Lkb; unfold start; lia).
  assert (Lfile : length file = (stop + length (sigpart y))%nat) by (rewrite Hfile', app_length, Lpre, app_length; unfold stop, start; lia).
  assert (Hunp : unpack imghdr_format file = _) by (rewrite Hfile; apply (ihdr_unpack _ hb _ Ehb)).
  assert (Hfid : hdr_first_boot_section_id file = option_map s_uid (hd_error (y_secs y))).
  { unfold hdr_first_boot_section_id. change rom_imghdr_layout with imghdr_format. rewrite Hunp. cbv beta iota.
    rewrite Esecs0, Hfb. reflexivity. }
  unfold rom20.
  replace (Nat.ltb (length file) 208) with false by (symmetry; apply Nat.ltb_ge; rewrite Lfile; unfold stop; lia).
  change rom_imghdr_layout with imghdr_format.
  rewrite Hunp. clear Hunp. cbv beta iota.
  cbn [ih_nonce ih_pad ih_major ih_minor ih_flags ih_image_blocks ih_first_boot_tag_block ih_first_boot_section_id ih_cert_off
       ih_header_blocks ih_key_blob_block ih_key_blob_block_count ih_max_mac ih_ts ih_pv ih_cv ih_build].
  step_none reflexivity.
  step_none reflexivity.
  step_none reflexivity.
  step_none ltac:(unfold flags20; destruct (y_signed y); reflexivity).
  assert (Skb : slice file 128 200 = kb0).
  { rewrite Hfile. unfold kb. rewrite <- !app_assoc. rewrite (app_assoc hb hm).
    replace 200%nat with (128 + length kb0)%nat by (rewrite Lkb0; reflexivity). apply slice_at. rewrite app_length. lia. }
  rewrite Skb, Hkw. cbv beta iota.
  rewrite (firstn_app_exact (y_dek y) (y_mac y) 32 Wdek), (skipn_app_exact (y_dek y) (y_mac y) 32 Wdek).
  step_none ltac:(rewrite app_length, Wdek, Wmac; reflexivity).
  assert (Shm : slice file 96 128 = hm).
  { rewrite Hfile. replace 128%nat with (96 + length hm)%nat by (rewrite Lhm; reflexivity). apply slice_at. exact Lhb. }
  assert (Shb : firstn 96 file = hb) by (rewrite Hfile; now apply firstn_app_exact).
  rewrite Shm, Shb. fold hm. rewrite eqb_list_refl. cbn [negb].
  step_none ltac:(apply orb_false_iff; split; [apply N.ltb_ge; unfold nlen; rewrite Lfile; fold stop; lia | apply N.leb_gt; fold stop start; lia]).
  cbv zeta. fold stop start.
  replace (N.to_nat (N.of_nat (stop / 16)) * 16)%nat with stop by (rewrite Nat2N.id; unfold stop; lia).
  replace (N.to_nat (N.of_nat (start / 16)) * 16)%nat with start by (rewrite Nat2N.id; unfold start; lia).
  assert (Sstop : firstn stop file = (hb ++ hm ++ kb ++ csb) ++ bs ++ []).
  { rewrite Hfile', app_nil_r, app_assoc. apply firstn_app_exact. rewrite app_length, Lpre. reflexivity. }
  assert (Sskip : skipn stop file = sigpart y).
  { rewrite Hfile', app_assoc. apply skipn_app_exact. rewrite app_length, Lpre. reflexivity. }
  assert (Hwalk : rom_sections (E (y_dek y)) (S (length file)) (y_mac y) (y_nonce y) (firstn stop file) start stop = Some (spec_of (y_secs y))).
  { rewrite Sstop. unfold stop. fold start. apply Hrom; [exact Lpre | exact Htag | unfold start; reflexivity | rewrite Lfile; unfold stop; lia]. }
  assert (Efl : (flags20 y =? 8) = y_signed y) by (unfold flags20; destruct (y_signed y); reflexivity).
  rewrite !Efl.
  assert (Hfin : forall first, first = start ->
     (if negb (Nat.eqb start first) then None
      else if negb (Nat.eqb (length file) (stop + (if y_signed y then y_sigsize y else 0))) then None
      else match rom_sections (E (y_dek y)) (S (length file)) (y_mac y) (y_nonce y) (firstn stop file) start stop with
           | None => None
           | Some secs =>
               match find_uid_index fbsid (map fst secs) with
               | None => None
               | Some bi => Some (mkRom20 (y_signed y) (bswap (swap16 (fst (fst (y_pv y)))), bswap (swap16 (snd (fst (y_pv y)))), bswap (swap16 (snd (y_pv y))))
                                        (bswap (swap16 (fst (fst (y_cv y)))), bswap (swap16 (snd (fst (y_cv y)))), bswap (swap16 (snd (y_cv y))))
                                        (y_build y) (y_ts y) secs stop (skipn stop file) bi)
               end
           end) =
     Some (mkRom20 (y_signed y) (y_pv y) (y_cv y) (y_build y) (y_ts y) (spec_of (y_secs y)) stop (sigpart y) 0)).
  { intros first ->. rewrite Nat.eqb_refl. cbn [negb].
    rewrite Hwalk, Sskip. rewrite Lfile at 1. rewrite Lsig, Nat.eqb_refl. cbn [negb].
    rewrite Esecs0, Hfb. cbn [spec_of map fst find_uid_index]. rewrite N.eqb_refl.
    destruct Wpv as (P1 & P2 & P3). destruct Wcv as (C1 & C2 & C3).
    destruct (y_pv y) as [[p0 p1] p2]. destruct (y_cv y) as [[c0 c1] c2]. cbn [fst snd] in *.
    rewrite !bswap_swap16 by assumption. reflexivity. }
  unfold certsect_shape in Hshape.
  destruct (y_signed y) eqn:Esg.
  - (* signed: the certificate section *)
    destruct Hshape as (cbb & Ecb & Hfh & Hc13 & Ecsb).
    destruct (cb_export_inv _ _ _ _ Ecb) as (Lcbb & cbtl & Ecbb & _).
    set (ench := xblock (E (y_dek y)) (y_nonce y) (ctr_of_nonce (y_nonce y) + 13) (hdr_export (certsect_hdr (y_cb y)))) in *.
    assert (Lench : length ench = 16%nat) by (apply xblock_length; [apply E_len | apply hdr_export_length]).
    set (cbraw := cb_raw_size (y_cb y)) in *.
    assert (Hcbm : (cbraw mod 16 = 0)%nat) by (unfold cbraw, cb_raw_size; apply align16_mod).
    cbv iota.
    assert (F0 : file = (hb ++ hm ++ kb) ++ ench ++ hmac256 (y_mac y) ench ++ hmac256 (y_mac y) cbb ++ cbb ++ bs ++ sigpart y).
    { rewrite Hfile', Ecsb. rewrite <- !app_assoc. reflexivity. }
    assert (L208 : length (hb ++ hm ++ kb) = 208%nat) by (rewrite !app_length, Lhb, Lhm, Lkb; reflexivity).
    assert (S1 : slice file 208 224 = ench).
    { rewrite F0. replace 224%nat with (208 + length ench)%nat by (rewrite Lench; reflexivity). now apply slice_at. }
    assert (S2 : slice file 224 256 = hmac256 (y_mac y) ench).
    { rewrite F0. rewrite (app_assoc (hb ++ hm ++ kb) ench).
      replace 256%nat with (224 + length (hmac256 (y_mac y) ench))%nat by (rewrite hmac256_length; reflexivity).
      apply slice_at. rewrite !app_length, Lhb, Lhm, Lkb, Lench. reflexivity. }
    assert (S3 : slice file 256 288 = hmac256 (y_mac y) cbb).
    { rewrite F0. rewrite (app_assoc (hb ++ hm ++ kb) ench), (app_assoc ((hb ++ hm ++ kb) ++ ench)).
      replace 288%nat with (256 + length (hmac256 (y_mac y) cbb))%nat by (rewrite hmac256_length; reflexivity).
      apply slice_at. rewrite !app_length, Lhb, Lhm, Lkb, Lench, hmac256_length. reflexivity. }
    assert (S4 : slice file 288 (288 + cbraw) = cbb).
    { rewrite F0. rewrite (app_assoc (hb ++ hm ++ kb) ench), (app_assoc ((hb ++ hm ++ kb) ++ ench)), (app_assoc (((hb ++ hm ++ kb) ++ ench) ++ _)).
      rewrite <- Lcbb. apply slice_at. rewrite !app_length, Lhb, Lhm, Lkb, Lench, !hmac256_length. reflexivity. }
    assert (S5 : slice file 288 292 = [99; 101; 114; 116]).
    { assert (Hc4 : (4 <= cbraw)%nat).
      { unfold cbraw, cb_raw_size. pose proof (align16_ge (CERTHDR_SIZE + cb_table_len (y_cb y) + 128)). lia. }
      transitivity (firstn 4 (slice file 288 (288 + cbraw))).
      - unfold slice. rewrite firstn_firstn. f_equal. lia.
      - rewrite S4, Ecbb. apply certhdr_magic. }
    rewrite S1, S2, eqb_list_refl. cbn [negb].
    replace (ctr_of_nonce (y_nonce y) + 13 <? U32) with true by (symmetry; now apply N.ltb_lt). cbn [negb].
    unfold ench at 1. rewrite xblock_invol by (try apply E_len; apply hdr_export_length).
    rewrite <- (app_nil_r (hdr_export (certsect_hdr (y_cb y)))). rewrite rom_hdr_export by assumption.
    unfold certsect_hdr. cbn [h_tag h_flags h_addr h_count h_data]. fold cbraw.
    replace (nlen file <? N.of_nat (cbraw / 16) * 16) with false
      by (symmetry; apply N.ltb_ge; unfold nlen; rewrite Lfile; unfold stop, start; rewrite Lcsb; lia).
    rewrite Nat2N.id. replace (16 * (cbraw / 16))%nat with cbraw by lia.
    rewrite S3, S4, eqb_list_refl, S5. change (negb (eqb_list [99; 101; 114; 116] [99; 101; 114; 116])) with false. cbn [negb]. cbv beta iota.
    match goal with |- context [negb (?a && ?b && ?c && ?d)] => change (negb (a && b && c && d)) with false end. cbv beta iota.
    rewrite (Hfin (288 + cbraw)%nat) by (unfold start; rewrite Lcsb; lia).
    eexists. split; [reflexivity|]. cbn [t_secs t_signed t_pv t_cv t_build t_ts t_sig t_signed_len t_boot_index].
    rewrite Sstop, app_nil_r. repeat split.
    + rewrite Hfile' at 1. rewrite <- !app_assoc. reflexivity.
    + rewrite !app_length, Lhb, Lhm, Lkb. unfold stop, start. rewrite ?app_length. cbn [length]. lia.
    + exact Hfid.
  - subst csb. cbv beta iota.
    rewrite (Hfin 208%nat) by (unfold start; cbn [length]; lia).
    eexists. split; [reflexivity|]. cbn [t_secs t_signed t_pv t_cv t_build t_ts t_sig t_signed_len t_boot_index].
    rewrite Sstop, app_nil_r. repeat split.
    + rewrite Hfile' at 1. rewrite <- !app_assoc. reflexivity.
    + rewrite !app_length, Lhb, Lhm, Lkb. unfold stop, start. rewrite ?app_length. cbn [length]. lia.
    + exact Hfid.
Qed.

Lemma cb_parse_size_export cb build il cbb rest :
  cb_export cb build il = Ok cbb -> cb_parse_size (cbb ++ rest) = Ok (cb_raw_size cb).
Proof.
  intros Ecb. destruct (cb_export_inv _ _ _ _ Ecb) as (Lcbb & cbtl & Ecbb & Fcb).
  set (cflds := [FB CERT_SIGNATURE; FI 1; FI 0; FI (N.of_nat CERTHDR_SIZE); FI (cb_flags cb); FI build;
                 FI il; FI (nlen (cb_certs cb)); FI (N.of_nat (cb_table_len cb))]) in *.
  unfold cb_parse_size.
  assert (Hctl : (cb_table_len cb + 160 <= cb_raw_size cb)%nat).
  { unfold cb_raw_size. pose proof (align16_ge (CERTHDR_SIZE + cb_table_len cb + 128)). change CERTHDR_SIZE with 32%nat in *. lia. }
  replace (Nat.ltb (length (cbb ++ rest)) CERTHDR_SIZE) with false
    by (symmetry; apply Nat.ltb_ge; rewrite app_length, Lcbb; change CERTHDR_SIZE with 32%nat; lia).
  assert (Hcu : unpack certhdr_format (cbb ++ rest) = canons certhdr_format cflds).
  { rewrite Ecbb, <- app_assoc. apply unpack_pack. apply pack_fits_ok; [reflexivity|exact Fcb|].
    unfold certhdr_format, cflds. repeat constructor. }
  rewrite Hcu. unfold cflds, certhdr_format. cbn [canons canon snd]. cbv beta iota.
  change (eqb_list (fit 4 CERT_SIGNATURE) CERT_SIGNATURE) with true. cbn [negb].
  rewrite N.eqb_refl. cbn [negb].
  replace (nlen (cbb ++ rest) <? N.of_nat (cb_table_len cb) + 128) with false
    by (symmetry; apply N.ltb_ge; unfold nlen; rewrite app_length, Lcbb; lia).
  rewrite Nat2N.id. reflexivity.
Qed.

Lemma obs_uids ss oss : Forall2 sec_obs_rel ss oss -> map (fun s => fst (fst s)) oss = map s_uid ss.
Proof.
  induction 1 as [|s so ss' oss' Hr _ IH]; [reflexivity|].
  destruct Hr as (cd & os & _ & _ & ->). cbn [map fst]. now rewrite IH.
Qed.

Lemma spsdk_parse20_build_lemma y file :
  wf_sb20 y -> kwdom (y_kek y) (y_dek y ++ y_mac y) ->
  bcd3 (y_pv y) = true -> bcd3 (y_cv y) = true -> aes_key_ok (y_kek y) = true ->
  build20_gen E y = Ok file ->
  exists oss, Forall2 sec_obs_rel (y_secs y) oss /\
    parse20 E D true (y_kek y) file =
    Ok (mkParsed20 (y_signed y) (y_pv y) (y_cv y) (y_build y) (y_ts y / 1000000 * 1000000) (y_nonce y) (y_dek y) (y_mac y) oss
                   (length file - length (sigpart y))).
Proof.
  intros W Hdom Hpv Hcv Hkek H.
  destruct (build20_inv y file W Hdom H) as (hb & kb0 & csb & bs & fbsid & mm & Hfile & Lhb & Lkb0 & Hkw & Htag & Hraw & Ehb & Hshape & Lcsb & Ebs & Huid & (s0 & st & Esecs0 & Hfb)).
  destruct W as (Wsecs & Wdek & Wmac & Wpad2 & Wsig & Wpv & Wcv).
  set (hm := hmac256 (y_mac y) hb) in *.
  assert (Lhm : length hm = 32%nat) by apply hmac256_length.
  set (kb := kb0 ++ y_pad2 y) in *.
  assert (Lkb : length kb = 80%nat) by (unfold kb; rewrite app_length, Lkb0, Wpad2; reflexivity).
  destruct (secs_export_parse (E (y_dek y)) (E_len _) _ _ _ _ _ Wsecs Ebs) as (oss & Hrel & Hparse).
  destruct (secs_export_rom (E (y_dek y)) (E_len _) (y_mac y) (y_nonce y) _ _ _ Wsecs Ebs) as (_ & Hbsl & _).
  exists oss. split; [exact Hrel|].
  set (stop := (208 + length csb + length bs)%nat) in *.
  set (start := (208 + length csb)%nat) in *.
  assert (Hfile' : file = (hb ++ hm ++ kb ++ csb) ++ bs ++ sigpart y) by (rewrite Hfile; unfold sigpart; rewrite <- !app_assoc; reflexivity).
  assert (Lpre : length (hb ++ hm ++ kb ++ csb) = start) by (rewrite !app_length, Lhb, Lhm, Lkb; unfold start; lia).
  assert (Lfile : length file = (stop + length (sigpart y))%nat) by (rewrite Hfile', app_length, Lpre, app_length; unfold stop, start; lia).
  replace (length file - length (sigpart y))%nat with stop by lia.
  unfold parse20. destruct (y_kek y) as [|k0 kt] eqn:Ekek; [discriminate Hkek|]. rewrite <- Ekek in *.
  change (IHDR_SIZE + 32)%nat with 128%nat. change PRE20 with 208%nat. change IHDR_SIZE with 96%nat.
  assert (Skb : slice file 128 208 = kb).
  { rewrite Hfile. fold hm kb. rewrite (app_assoc hb hm).
    replace 208%nat with (128 + length kb)%nat by (rewrite Lkb; reflexivity). apply slice_at. rewrite app_length. lia. }
  rewrite Skb, Lkb. change (80 - 8)%nat with 72%nat.
  assert (F72 : firstn 72 kb = kb0) by (unfold kb; now apply firstn_app_exact).
  rewrite F72. unfold py_unwrap. rewrite Hkek. cbn [negb]. rewrite Lkb0.
  change (Nat.ltb 72 24 || negb (Nat.eqb (72 mod 8) 0)) with false. cbv iota.
  rewrite Hkw. rewrite (firstn_app_exact _ _ 32 Wdek), (skipn_app_exact _ _ 32 Wdek).
  assert (Shb : slice file 0 96 = hb).
  { rewrite Hfile. replace 96%nat with (0 + length hb)%nat by (rewrite Lhb; reflexivity). apply (slice_at [] hb). reflexivity. }
  assert (Shm : slice file 96 128 = hm).
  { rewrite Hfile. replace 128%nat with (96 + length hm)%nat by (rewrite Lhm; reflexivity). apply slice_at. exact Lhb. }
  rewrite Shb, Shm. fold hm. rewrite eqb_list_refl. cbn [negb].
  rewrite <- (app_nil_r hb) at 1. rewrite (ihdr_parse_export _ hb [] Ehb Hpv Hcv).
  cbn [ih_major ih_minor ih_flags ih_nonce ih_pv ih_cv ih_build ih_ts ih_image_blocks].
  change (negb ((2 =? V20_VERSION_MAJOR) && (0 =? V20_VERSION_MINOR))) with false. cbv iota.
  fold stop.
  replace (N.to_nat (N.min (N.of_nat (stop / 16) * 16) (nlen file + 1))) with stop by (unfold nlen; rewrite Lfile; unfold stop in *; lia).
  change (208 / 16)%nat with 13%nat.
  assert (Efl : (flags20 y =? V20_PARSE_SIGNED_FLAGS) = y_signed y) by (unfold flags20; destruct (y_signed y); reflexivity).
  rewrite Efl.
  assert (Hcs : (if y_signed y then certsect_parse E (y_dek y) (y_mac y) (y_nonce y) (ctr_of_nonce (y_nonce y) + N.of_nat 13) file 208 else Ok 0%nat)
                = Ok (length csb)).
  { unfold certsect_shape in Hshape. destruct (y_signed y) eqn:Esg; [|subst csb; reflexivity].
    destruct Hshape as (cbb & Ecb & Hfh & Hc13 & Ecsb).
    destruct (cb_export_inv _ _ _ _ Ecb) as (Lcbb & _).
    set (ench := xblock (E (y_dek y)) (y_nonce y) (ctr_of_nonce (y_nonce y) + 13) (hdr_export (certsect_hdr (y_cb y)))) in *.
    assert (Lench : length ench = 16%nat) by (apply xblock_length; [apply E_len | apply hdr_export_length]).
    set (cbraw := cb_raw_size (y_cb y)) in *.
    assert (F0 : file = (hb ++ hm ++ kb) ++ ench ++ hmac256 (y_mac y) ench ++ hmac256 (y_mac y) cbb ++ cbb ++ bs ++ sigpart y).
    { rewrite Hfile', Ecsb. rewrite <- !app_assoc. reflexivity. }
    assert (S1 : slice file 208 224 = ench).
    { rewrite F0. replace 224%nat with (208 + length ench)%nat by (rewrite Lench; reflexivity). apply slice_at.
      rewrite !app_length, Lhb, Lhm, Lkb. reflexivity. }
    assert (S2 : slice file 224 256 = hmac256 (y_mac y) ench).
    { rewrite F0. rewrite (app_assoc (hb ++ hm ++ kb) ench).
      replace 256%nat with (224 + length (hmac256 (y_mac y) ench))%nat by (rewrite hmac256_length; reflexivity).
      apply slice_at. rewrite !app_length, Lhb, Lhm, Lkb, Lench. reflexivity. }
    assert (S3 : slice file 256 288 = hmac256 (y_mac y) cbb).
    { rewrite F0. rewrite (app_assoc (hb ++ hm ++ kb) ench), (app_assoc ((hb ++ hm ++ kb) ++ ench)).
      replace 288%nat with (256 + length (hmac256 (y_mac y) cbb))%nat by (rewrite hmac256_length; reflexivity).
      apply slice_at. rewrite !app_length, Lhb, Lhm, Lkb, Lench, hmac256_length. reflexivity. }
    assert (S4 : slice file 288 (288 + cbraw) = cbb).
    { rewrite F0. rewrite (app_assoc (hb ++ hm ++ kb) ench), (app_assoc ((hb ++ hm ++ kb) ++ ench)), (app_assoc (((hb ++ hm ++ kb) ++ ench) ++ _)).
      rewrite <- Lcbb. apply slice_at. rewrite !app_length, Lhb, Lhm, Lkb, Lench, !hmac256_length. reflexivity. }
    assert (S5 : skipn 288 file = cbb ++ bs ++ sigpart y).
    { rewrite F0. rewrite (app_assoc (hb ++ hm ++ kb) ench), (app_assoc ((hb ++ hm ++ kb) ++ ench)), (app_assoc (((hb ++ hm ++ kb) ++ ench) ++ _)).
      apply skipn_app_exact. rewrite !app_length, Lhb, Lhm, Lkb, Lench, !hmac256_length. reflexivity. }
    unfold certsect_parse. change (208 + 16)%nat with 224%nat. change (208 + 48)%nat with 256%nat. change (208 + 80)%nat with 288%nat.
    rewrite S1, S2, S3, eqb_list_refl. cbn [negb]. change (N.of_nat 13) with 13.
    replace (U32 <=? ctr_of_nonce (y_nonce y) + 13) with false by (symmetry; apply N.leb_gt; exact Hc13).
    unfold ench at 1. rewrite xblock_invol by (try apply E_len; apply hdr_export_length).
    rewrite <- (app_nil_r (hdr_export (certsect_hdr (y_cb y)))). rewrite hdr_parse_export by assumption.
    unfold certsect_hdr. cbn [h_tag h_flags h_addr h_count h_data]. rewrite !N.eqb_refl. cbn [negb].
    rewrite S5, (cb_parse_size_export _ _ _ _ _ Ecb). fold cbraw. rewrite S4, eqb_list_refl. cbn [negb].
    rewrite Lcsb. reflexivity. }
  rewrite Hcs. rewrite andb_false_r.
  fold start.
  replace (ctr_of_nonce (y_nonce y) + N.of_nat 13 + N.of_nat (length csb / 16)) with (ctr_of_nonce (y_nonce y) + N.of_nat (start / 16))
    by (unfold start; lia).
  rewrite Hfile' at 2.
  replace stop with (start + length bs)%nat by (unfold stop, start; lia).
  rewrite (Hparse (hb ++ hm ++ kb ++ csb) (sigpart y) start (S (length file)) Lpre) by (rewrite Lfile; unfold stop; lia).
  rewrite (obs_uids _ _ Hrel), Huid. reflexivity.
Qed.

(* counter agreement and coverage for 2.0 *)
Lemma counter_agreement20_lemma y file :
  wf_sb20 y -> kwdom (y_kek y) (y_dek y ++ y_mac y) -> build20_gen E y = Ok file ->
  exists pre bs, file = pre ++ bs ++ sigpart y /\ (length pre mod 16 = 0)%nat /\
    (y_signed y = true -> exists hp, length hp = 16%nat /\
        slice pre 208 224 = xblock (E (y_dek y)) (y_nonce y) (ctr_of_nonce (y_nonce y) + N.of_nat (208 / 16)) hp) /\
    secs_export (E (y_dek y)) (y_mac y) (y_nonce y) (ctr_of_nonce (y_nonce y) + N.of_nat (length pre / 16)) (y_secs y) = Ok bs /\
    rom_sections (E (y_dek y)) (S (length file)) (y_mac y) (y_nonce y) (pre ++ bs) (length pre) (length pre + length bs)
      = Some (spec_of (y_secs y)).
Proof.
  intros W Hdom H.
  destruct (build20_inv y file W Hdom H) as (hb & kb0 & csb & bs & fbsid & mm & Hfile & Lhb & Lkb0 & Hkw & Htag & Hraw & Ehb & Hshape & Lcsb & Ebs & Huid & (s0 & st & Esecs0 & Hfb)).
  destruct W as (Wsecs & Wdek & Wmac & Wpad2 & Wsig & Wpv & Wcv).
  set (hm := hmac256 (y_mac y) hb) in *.
  assert (Lhm : length hm = 32%nat) by apply hmac256_length.
  set (kb := kb0 ++ y_pad2 y) in *.
  assert (Lkb : length kb = 80%nat) by (unfold kb; rewrite app_length, Lkb0, Wpad2; reflexivity).
  exists (hb ++ hm ++ kb ++ csb), bs.
  assert (Lpre : length (hb ++ hm ++ kb ++ csb) = (208 + length csb)%nat) by (rewrite !app_length, Lhb, Lhm, Lkb; lia).
  split; [rewrite Hfile; unfold sigpart; rewrite <- !app_assoc; reflexivity|]. rewrite Lpre.
  split; [exact Htag|]. split.
  - intros Esg. unfold certsect_shape in Hshape. rewrite Esg in Hshape. destruct Hshape as (cbb & _ & _ & _ & Ecsb).
    exists (hdr_export (certsect_hdr (y_cb y))). split; [apply hdr_export_length|].
    rewrite Ecsb. change (N.of_nat (208 / 16)) with 13.
    set (ench := xblock _ _ _ _).
    assert (Lench : length ench = 16%nat) by (apply xblock_length; [apply E_len | apply hdr_export_length]).
    replace (hb ++ hm ++ kb ++ ench ++ hmac256 (y_mac y) ench ++ hmac256 (y_mac y) cbb ++ cbb)
      with ((hb ++ hm ++ kb) ++ ench ++ (hmac256 (y_mac y) ench ++ hmac256 (y_mac y) cbb ++ cbb)) by (rewrite <- !app_assoc; reflexivity).
    replace 224%nat with (208 + length ench)%nat by (rewrite Lench; reflexivity). apply slice_at.
    rewrite !app_length, Lhb, Lhm, Lkb. reflexivity.
  - split; [exact Ebs|].
    destruct (secs_export_rom (E (y_dek y)) (E_len _) (y_mac y) (y_nonce y) _ _ _ Wsecs Ebs) as (_ & Hl & Hrom).
    rewrite <- (app_nil_r bs) at 1. apply Hrom; [exact Lpre | exact Htag | reflexivity |].
    rewrite Hfile, !app_length. lia.
Qed.

Lemma coverage20_lemma y file :
  wf_sb20 y -> kwdom (y_kek y) (y_dek y ++ y_mac y) -> build20_gen E y = Ok file ->
  exists hb kb0 csb bs,
    file = hb ++ hmac256 (y_mac y) hb ++ (kb0 ++ y_pad2 y) ++ csb ++ bs ++ sigpart y /\
    length hb = 96%nat /\ length kb0 = 72%nat /\ length (y_pad2 y) = 8%nat /\
    kw_unwrap (D (y_kek y)) kb0 = Some (y_dek y ++ y_mac y) /\
    (if y_signed y
     then exists ench cbb, length ench = 16%nat /\ length cbb = cb_raw_size (y_cb y) /\
                           csb = ench ++ hmac256 (y_mac y) ench ++ hmac256 (y_mac y) cbb ++ cbb
     else csb = []) /\
    covered (y_mac y) bs (length (y_secs y)) /\
    length (sigpart y) = (if y_signed y then y_sigsize y else 0%nat).
Proof.
  intros W Hdom H.
  destruct (build20_inv y file W Hdom H) as (hb & kb0 & csb & bs & fbsid & mm & Hfile & Lhb & Lkb0 & Hkw & Htag & Hraw & Ehb & Hshape & Lcsb & Ebs & Huid & (s0 & st & Esecs0 & Hfb)).
  destruct W as (Wsecs & Wdek & Wmac & Wpad2 & Wsig & Wpv & Wcv).
  exists hb, kb0, csb, bs. split; [exact Hfile|]. split; [exact Lhb|]. split; [exact Lkb0|]. split; [exact Wpad2|]. split; [exact Hkw|].
  split; [|split].
  - unfold certsect_shape in Hshape. destruct (y_signed y); [|exact Hshape].
    destruct Hshape as (cbb & Ecb & _ & _ & Ecsb). destruct (cb_export_inv _ _ _ _ Ecb) as (Lcbb & _).
    eexists _, cbb. split; [|split; [exact Lcbb|exact Ecsb]].
    apply xblock_length; [apply E_len | apply hdr_export_length].
  - eapply secs_export_covered; [apply E_len | exact Wsecs | exact Ebs].
  - unfold sigpart. destruct (y_signed y); [now apply Wsig|reflexivity].
Qed.

(* ---------------- SB 2.1: the header's first_boot_section_id is the first section's id, and the ROM that locates its
   starting section by that id starts with the first section *)
Lemma build21_first_id counted x file :
  length (x_sig x) = x_sigsize x -> build21_gen E counted x = Ok file ->
  exists s0 st, x_secs x = s0 :: st /\ hdr_first_boot_section_id file = Some (s_uid s0).
Proof.
  intros Wsig H. unfold build21_gen in H.
  destruct (x_secs x) as [|s0 st] eqn:Esecs; [discriminate|]. rewrite <- Esecs in *.
  destruct (secs_raw_size (x_secs x)) as [ssz|] eqn:Essz; [|discriminate].
  destruct (aligned16 _); [|discriminate]. destruct (aligned16 _); [|discriminate].
  destruct (Nat.eqb (length (x_nonce x)) 16); [|discriminate]. destruct (aligned16 _); [|discriminate]. cbn [negb] in H.
  destruct (secs_export _ _ _ _ _) as [bs|]; [|discriminate].
  set (hdr := mkIhdr _ _ _ _ _ _ _ _ _ _ _ _ _ _ _ _ _) in H.
  destruct (ihdr_export hdr) as [hb|] eqn:Ehb; [|discriminate].
  destruct (cb_export _ _ _) as [cbb|]; [|discriminate].
  rewrite Wsig, Nat.eqb_refl in H. cbn [negb] in H. injection H as <-.
  exists s0, st. split; [exact Esecs|].
  unfold hdr_first_boot_section_id. change rom_imghdr_layout with imghdr_format.
  rewrite <- !app_assoc. rewrite (ihdr_unpack hdr hb _ Ehb). reflexivity.
Qed.

Lemma rom21_boot_build_lemma x file :
  wf_sbin x -> kwdom (x_kek x) (x_dek x ++ x_mac x) -> build21_gen E true x = Ok file ->
  exists r, rom21_boot E D (x_sigsize x) (x_kek x) file = Some (r, 0%nat) /\
     r_secs r = spec_of (x_secs x) /\ r_flags r = x_flags x /\ r_pv r = x_pv x /\ r_cv r = x_cv x /\
     r_build r = x_build x /\ r_ts r = x_ts x /\ r_major r = 2 /\ r_minor r = 1 /\
     r_sig r = x_sig x /\ r_signed_len r = signed_len_of x /\
     hdr_first_boot_section_id file = option_map s_uid (hd_error (x_secs x)).
Proof.
  intros W Hdom H.
  destruct (rom21_build_lemma E D E_len kwdom KW true x file W Hdom (or_introl eq_refl) H) as (r & Hr & Hs & Hrest).
  destruct W as (_ & _ & _ & Wsig & _).
  destruct (build21_first_id true x file Wsig H) as (s0 & st & Esecs & Hfid).
  exists r. split.
  - unfold rom21_boot. rewrite Hr, Hfid, Hs, Esecs. cbn [spec_of map fst find_uid_index]. rewrite N.eqb_refl. reflexivity.
  - split; [exact Hs|]. repeat (destruct Hrest as [? Hrest]; split; [assumption|]). split; [exact Hrest|].
    rewrite Hfid, Esecs. reflexivity.
Qed.

End Cipher20Proofs.
