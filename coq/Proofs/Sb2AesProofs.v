(* Proofs/Sb2AesProofs.v -- C04: the ROM / parser theorems of Sb2Proofs.v instantiated with the concrete CryptoRef AES.
   The cipher premises are discharged with Proofs/CryptoProofs.v (aes_dec_enc: InvCipher o Cipher = id for every legal key
   and 16-byte block; unwrap_wrap_l: RFC 3394). *)
From Coq Require Import ZArith NArith List Bool Lia.
Require Import Value Bytes BytesProofs GenSb2 Sha2 Aes Modes Hmac KeyWrap Crc Sb2Model.
Require CryptoProofs.
Require Import Sb2Proofs.
Import ListNotations.
Local Open Scope N_scope.

Lemma sbE_length k b : length (sbE k b) = 16%nat.
Proof. unfold sbE, fit16. apply fit_length. Qed.

Lemma sbE_is_aes k b : aes_key_ok k = true -> wf_bytes k -> CryptoProofs.okb b -> sbE k b = aes_enc k b.
Proof.
  intros Hk Wk Hb. destruct (CryptoProofs.aes_dec_enc k b Hk Wk Hb) as [_ [L _]].
  unfold sbE, fit16. apply fit_exact. exact L.
Qed.

Lemma sb_dec_enc k b :
  aes_key_ok k = true -> wf_bytes k -> CryptoProofs.okb b -> sbD k (sbE k b) = b /\ CryptoProofs.okb (sbE k b).
Proof.
  intros Hk Wk Hb. rewrite (sbE_is_aes k b Hk Wk Hb).
  destruct (CryptoProofs.aes_dec_enc k b Hk Wk Hb) as [HD HO]. split; [|exact HO].
  unfold sbD, fit16. change (inv_cipher_rks (key_expansion k) (aes_enc k b)) with (aes_dec k (aes_enc k b)).
  rewrite HD. apply fit_exact. apply Hb.
Qed.

Definition aes_dom (k data : list N) : Prop := aes_key_ok k = true /\ wf_bytes k /\ wf_bytes data.

Lemma KW_aes k data :
  aes_dom k data -> (length data mod 8 = 0)%nat ->
  length (kw_wrap (sbE k) data) = (8 + length data)%nat /\ kw_unwrap (sbD k) (kw_wrap (sbE k) data) = Some data.
Proof.
  intros (Hk & Wk & Wd) Hm. split.
  - apply (kw_wrap_length (sbE k) (sbD k) (sbE_length k) data Hm).
  - apply (CryptoProofs.unwrap_wrap_l (sbE k) (sbD k)).
    + intros b Hb. apply (sb_dec_enc k b Hk Wk Hb).
    + intros b Hb. apply (sb_dec_enc k b Hk Wk Hb).
    + exact Wd.
    + exact Hm.
Qed.

Lemma wf_bytes_app a b : wf_bytes a -> wf_bytes b -> wf_bytes (a ++ b).
Proof. unfold wf_bytes. intros. now apply Forall_app. Qed.

Definition aes_keys_ok (x : sbin) : Prop :=
  aes_key_ok (x_kek x) = true /\ wf_bytes (x_kek x) /\ wf_bytes (x_dek x) /\ wf_bytes (x_mac x).

Lemma aes_dom_of x : aes_keys_ok x -> aes_dom (x_kek x) (x_dek x ++ x_mac x).
Proof. intros (H1 & H2 & H3 & H4). split; [assumption|]. split; [assumption|]. now apply wf_bytes_app. Qed.

Lemma keyblob_unwraps_aes_lemma :
  forall kek data, aes_key_ok kek = true -> wf_bytes kek -> wf_bytes data -> (length data mod 8 = 0)%nat ->
  length (kw_wrap (sbE kek) data) = (8 + length data)%nat /\ kw_unwrap (sbD kek) (kw_wrap (sbE kek) data) = Some data.
Proof. intros kek data H1 H2 H3 H4. apply KW_aes; [repeat split; assumption | exact H4]. Qed.

Lemma rom21_build_aes_lemma :
  forall x file, wf_sbin x -> aes_keys_ok x -> build21 x = Ok file ->
  exists r, rom21_aes (x_sigsize x) (x_kek x) file = Some r /\
     r_secs r = spec_of (x_secs x) /\ r_flags r = x_flags x /\ r_pv r = x_pv x /\ r_cv r = x_cv x /\
     r_build r = x_build x /\ r_ts r = x_ts x /\ r_major r = 2 /\ r_minor r = 1 /\
     r_sig r = x_sig x /\ r_signed_len r = signed_len_of x.
Proof.
  intros x file W K H.
  exact (rom21_build_lemma sbE sbD sbE_length aes_dom KW_aes true x file W (aes_dom_of x K) (or_introl eq_refl) H).
Qed.

Lemma spsdk_parse21_build_aes_lemma :
  forall x file, wf_sbin x -> aes_keys_ok x -> bcd3 (x_pv x) = true -> bcd3 (x_cv x) = true -> build21 x = Ok file ->
  exists oss, Forall2 sec_obs_rel (x_secs x) oss /\
    spsdk_parse21 true (x_sigsize x) (x_kek x) file =
    Ok (mkParsed (x_flags x) (x_pv x) (x_cv x) (x_build x) (x_ts x / 1000000 * 1000000) (x_nonce x) (x_dek x) (x_mac x)
                 oss (signed_len_of x) (x_sigsize x)).
Proof.
  intros x file W K Hp Hc H.
  exact (spsdk_parse21_build_lemma sbE sbD sbE_length aes_dom KW_aes x file W (aes_dom_of x K) Hp Hc (proj1 K) H).
Qed.

Lemma counter_agreement_aes_lemma :
  forall x file, wf_sbin x -> aes_keys_ok x -> build21 x = Ok file ->
  exists pre bs, file = pre ++ bs /\ (length pre mod 16 = 0)%nat /\
    secs_export (sbE (x_dek x)) (x_mac x) (x_nonce x) (ctr_of_nonce (x_nonce x) + N.of_nat (length pre / 16)) (x_secs x) = Ok bs /\
    rom_sections (sbE (x_dek x)) (S (length file)) (x_mac x) (x_nonce x) file (length pre) (length file) = Some (spec_of (x_secs x)).
Proof.
  intros x file W K H.
  exact (counter_agreement_lemma sbE sbD sbE_length aes_dom KW_aes true x file W (aes_dom_of x K) H).
Qed.

(* the premises are satisfiable: the demo input *)
Example aes_keys_ok_demo flags : aes_keys_ok (demo flags demo_secs).
Proof.
  unfold aes_keys_ok, demo. cbn [x_kek x_dek x_mac]. split; [reflexivity|].
  repeat split; apply wf_bytesb_spec; reflexivity.
Qed.
