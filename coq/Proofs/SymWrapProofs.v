(* Proofs/SymWrapProofs.v -- lemmas about the SPSDK wrapper model (Model/SymWrapModel.v) for C09. *)
From Coq Require Import ZArith NArith List Bool Lia.
Require Import Value Bytes BytesProofs GenMisc MiscModel GenCrypto Sha2 Aes Sm4 Modes Hmac Hkdf Cmac KeyWrap Crc
               CryptoProofs SymWrapModel.
Import ListNotations.
Local Open Scope N_scope.
Ltac Zify.zify_post_hook ::= Z.to_euclidean_division_equations.

(* ------------------------------------------------------------------ zero padding of the CBC encryptors *)
Definition zero_pad16 (m : list N) : list N :=
  m ++ zeros (Z.to_nat ((16 - Z.of_nat (length m) mod 16) mod 16)).

Lemma nat_mod16_Z n : Z.of_nat (Nat.modulo n 16) = (Z.of_nat n mod 16)%Z.
Proof. now rewrite Zdiv.mod_Zmod by lia. Qed.

Lemma zero_pad16_mult m : Nat.modulo (length (zero_pad16 m)) 16 = 0%nat.
Proof.
  unfold zero_pad16, zeros. rewrite app_length, repeat_length. apply Nat2Z.inj. rewrite nat_mod16_Z. lia.
Qed.

Lemma wf_zeros n : wf_bytes (zeros n).
Proof. unfold zeros, wf_bytes. apply Forall_forall. intros x Hx. apply repeat_spec in Hx. subst. unfold wf_byte. lia. Qed.

Lemma zero_pad16_wf m : wf_bytes m -> wf_bytes (zero_pad16 m).
Proof. intros. unfold zero_pad16. apply wf_bytes_app; auto using wf_zeros. Qed.

Lemma zero_pad16_aligned m : Nat.modulo (length m) 16 = 0%nat -> zero_pad16 m = m.
Proof.
  intros H. apply (f_equal Z.of_nat) in H. rewrite nat_mod16_Z in H.
  unfold zero_pad16. replace (Z.to_nat ((16 - Z.of_nat (length m) mod 16) mod 16)) with 0%nat by lia.
  apply app_nil_r.
Qed.

Lemma align_block_zero16 m : MiscModel.align_block m 16 PZeros = Ok (zero_pad16 m).
Proof.
  unfold MiscModel.align_block, py_align. cbn [Z.ltb Z.leb Z.compare orb].
  replace (Z.of_nat (length m) <? 0)%Z with false by (symmetry; apply Z.ltb_ge; lia).
  cbn [orb].
  set (L := Z.of_nat (length m)).
  assert (E : ((L + (16 - 1)) / 16 * 16 - L = (16 - L mod 16) mod 16)%Z) by (subst L; lia).
  rewrite E. unfold zero_pad16. fold L.
  destruct (Z.to_nat ((16 - L mod 16) mod 16)) as [|k] eqn:Ek.
  - unfold zeros. simpl. now rewrite app_nil_r.
  - reflexivity.
Qed.

(* ------------------------------------------------------------------ key checks *)
Lemma aes_key_len key : aes_key_ok key = true -> length key = 16%nat \/ length key = 24%nat \/ length key = 32%nat.
Proof.
  unfold aes_key_ok. intros H. apply orb_true_iff in H as [H|H]; [apply orb_true_iff in H as [H|H]|];
    apply Nat.eqb_eq in H; auto.
Qed.

Lemma aes_key_bits_ok key : aes_key_ok key = true -> key_bits_ok [128; 192; 256; 512] key = true.
Proof.
  intros H. unfold key_bits_ok, nlen. destruct (aes_key_len key H) as [E|[E|E]]; rewrite E; reflexivity.
Qed.

Lemma aesE_unfold key : aesE key = cipher_rks (key_expansion key).
Proof. reflexivity. Qed.
Lemma aesD_unfold key : aesD key = inv_cipher_rks (key_expansion key).
Proof. reflexivity. Qed.

Lemma aes_DE key : aes_key_ok key = true -> wf_bytes key -> forall b, okb b -> aesD key (aesE key b) = b.
Proof. intros Hk W b Hb. rewrite aesE_unfold, aesD_unfold. now apply inv_cipher_cipher_rks; [apply key_expansion_ok|]. Qed.
Lemma aes_E_ok key : aes_key_ok key = true -> wf_bytes key -> forall b, okb b -> okb (aesE key b).
Proof. intros Hk W b Hb. rewrite aesE_unfold. now apply inv_cipher_cipher_rks; [apply key_expansion_ok|]. Qed.
Lemma aes_E_len key : aes_key_ok key = true -> wf_bytes key -> forall b, length b = 16%nat -> length (aesE key b) = 16%nat.
Proof. intros Hk W b Hb. rewrite aesE_unfold. now apply aes_enc_length. Qed.

Lemma sm4_DE key : forall b, okb b -> sm4D key (sm4E key b) = b.
Proof. intros b Hb. unfold sm4D, sm4E. now apply sm4_bytes_dec_enc. Qed.
Lemma sm4_E_ok key : forall b, okb b -> okb (sm4E key b).
Proof. intros b Hb. unfold sm4E. now apply sm4_bytes_dec_enc. Qed.

Lemma len_mult16_true l : Nat.modulo (length l) 16 = 0%nat -> len_mult16 l = true.
Proof. intros H. unfold len_mult16. now apply Nat.eqb_eq. Qed.

(* ------------------------------------------------------------------ CBC wrappers *)
(* the IV argument as the caller may give it: left out, empty, or one block *)
Definition iv_arg_ok (iv : option (list N)) : Prop :=
  match iv with None => True | Some [] => True | Some v => okb v end.

Lemma choose_iv_ok iv : iv_arg_ok iv -> okb (choose_iv iv 16).
Proof.
  assert (Z16 : okb (zeros 16)) by (split; [reflexivity | apply wf_zeros]).
  destruct iv as [[|b t]|]; simpl; auto.
Qed.

Section CbcWrapper.
Variable lib_ok : list N -> bool.
Variable F G : list N -> blk -> blk.
Variable key : list N.
Hypothesis lib_key : lib_ok key = true.
Hypothesis DE : forall b, okb b -> G key (F key b) = b.
Hypothesis E_ok : forall b, okb b -> okb (F key b).

Lemma cbc_wrapper_roundtrip kb kb' al' m iv :
  key_bits_ok kb key = true -> key_bits_ok kb' key = true -> wf_bytes m -> iv_arg_ok iv ->
  exists c, cbc_wrapper kb 16 128 16 true lib_ok F key m iv = Ok c /\
            cbc_wrapper kb' 16 128 al' false lib_ok G key c iv = Ok (zero_pad16 m).
Proof.
  intros K1 K2 W Hiv. pose proof (choose_iv_ok iv Hiv) as Hv.
  assert (L16 : length (choose_iv iv 16) = 16%nat) by apply Hv.
  pose proof (zero_pad16_wf m W) as Wp. pose proof (zero_pad16_mult m) as Mp.
  destruct (cbc_enc_length (F key) E_ok (choose_iv iv 16) (zero_pad16 m) Hv Wp Mp) as [Lc Wc].
  exists (cbc_enc (F key) (choose_iv iv 16) (zero_pad16 m)). unfold cbc_wrapper.
  rewrite K1, K2, lib_key. unfold nlen. rewrite L16. cbn [negb N.eqb N.of_nat N.mul Pos.of_succ_nat Pos.succ Pos.mul Pos.eqb Nat.eqb].
  change (Z.of_N 16) with 16%Z. rewrite align_block_zero16.
  rewrite (len_mult16_true _ Mp). cbn [negb]. split; [reflexivity|].
  rewrite len_mult16_true by (rewrite Lc; exact Mp). cbn [negb].
  f_equal. apply (cbc_dec_enc_l (F key) (G key)); assumption.
Qed.
End CbcWrapper.

Lemma wrap_cbc_roundtrip_l key m iv : aes_key_ok key = true -> wf_bytes key -> wf_bytes m -> iv_arg_ok iv ->
  exists c, aes_cbc_encrypt key m iv = Ok c /\ aes_cbc_decrypt key c iv = Ok (zero_pad16 m).
Proof.
  intros Hk Wk Wm Hiv. unfold aes_cbc_encrypt, aes_cbc_decrypt.
  change aes_cbc_encrypt_default_iv_len with 16. change aes_cbc_encrypt_iv_bits with 128.
  change aes_cbc_encrypt_alignment with 16. change aes_cbc_decrypt_default_iv_len with 16.
  change aes_cbc_decrypt_iv_bits with 128.
  apply (cbc_wrapper_roundtrip aes_key_ok aesE aesD key Hk (aes_DE key Hk Wk) (aes_E_ok key Hk Wk));
    auto; now apply aes_key_bits_ok.
Qed.

Lemma sm4_key_bits_ok key : sm4_key_ok key = true -> key_bits_ok [128] key = true.
Proof. unfold sm4_key_ok. intros H. apply Nat.eqb_eq in H. unfold key_bits_ok, nlen. now rewrite H. Qed.

Lemma wrap_sm4_cbc_roundtrip_l key m iv : sm4_key_ok key = true -> wf_bytes m -> iv_arg_ok iv ->
  exists c, sm4_cbc_encrypt key m iv = Ok c /\ sm4_cbc_decrypt key c iv = Ok (zero_pad16 m).
Proof.
  intros Hk Wm Hiv. unfold sm4_cbc_encrypt, sm4_cbc_decrypt.
  change sm4_cbc_encrypt_default_iv_len with 16. change sm4_cbc_encrypt_iv_bits with 128.
  change sm4_cbc_encrypt_alignment with 16. change sm4_cbc_decrypt_default_iv_len with 16.
  change sm4_cbc_decrypt_iv_bits with 128.
  apply (cbc_wrapper_roundtrip sm4_key_ok sm4E sm4D key Hk (sm4_DE key) (sm4_E_ok key));
    auto; now apply sm4_key_bits_ok.
Qed.

Example wrap_cbc_nonvacuous :
  aes_key_ok (repeat 1 16) = true /\ wf_bytes (repeat 1 16) /\ wf_bytes [1; 2; 3] /\ iv_arg_ok None /\
  aes_cbc_decrypt (repeat 1 16) (match aes_cbc_encrypt (repeat 1 16) [1; 2; 3] None with Ok c => c | Err _ => [] end) None
  = Ok [1; 2; 3; 0; 0; 0; 0; 0; 0; 0; 0; 0; 0; 0; 0; 0].
Proof.
  split; [reflexivity|]. split; [|split; [|split; [exact I | vm_compute; reflexivity]]];
    unfold wf_bytes, wf_byte; repeat constructor.
Qed.

(* ------------------------------------------------------------------ ECB / CTR / XTS / CCM / key-wrap wrappers *)
Lemma wrap_ecb_roundtrip_l key m : aes_key_ok key = true -> wf_bytes key -> wf_bytes m ->
  Nat.modulo (length m) 16 = 0%nat ->
  exists c, aes_ecb_encrypt key m = Ok c /\ aes_ecb_decrypt key c = Ok m.
Proof.
  intros Hk Wk Wm M. exists (ecb (aesE key) m). unfold aes_ecb_encrypt, aes_ecb_decrypt.
  destruct (ecb_length (aesE key) (aes_E_ok key Hk Wk) m Wm M) as [Lc _].
  rewrite Hk, (len_mult16_true m M), (len_mult16_true (ecb (aesE key) m)) by (rewrite Lc; exact M).
  cbn [negb]. split; [reflexivity|]. f_equal.
  apply (ecb_dec_enc_l (aesE key) (aesD key) (aes_DE key Hk Wk) (aes_E_ok key Hk Wk)); assumption.
Qed.

Lemma wrap_ctr_roundtrip_l key m nonce : aes_key_ok key = true -> wf_bytes key -> length nonce = 16%nat ->
  exists c, aes_ctr_crypt key m nonce = Ok c /\ aes_ctr_crypt key c nonce = Ok m /\ length c = length m.
Proof.
  intros Hk Wk Ln. exists (ctr_xcrypt (aesE key) nonce m). unfold aes_ctr_crypt.
  rewrite Hk, Ln. cbn [negb Nat.eqb]. split; [reflexivity|]. split.
  - f_equal. apply ctr_involutive_l; auto using aes_E_len.
  - apply ctr_length; auto using aes_E_len.
Qed.

Lemma xts_half_ok key : xts_key_ok key = true -> wf_bytes key ->
  aes_key_ok (xts_k1 key) = true /\ wf_bytes (xts_k1 key) /\ aes_key_ok (xts_k2 key) = true /\ wf_bytes (xts_k2 key).
Proof.
  unfold xts_key_ok, xts_k1, xts_k2, aes_key_ok. intros H W.
  apply orb_true_iff in H as [H|H]; apply Nat.eqb_eq in H; rewrite H;
    (repeat split; [rewrite firstn_length, H; reflexivity | now apply wf_bytes_firstn
                   | rewrite skipn_length, H; reflexivity | now apply wf_bytes_skipn]).
Qed.

Lemma wrap_xts_roundtrip_l key m tweak : xts_key_ok key = true -> wf_bytes key ->
  eqb_list (xts_k1 key) (xts_k2 key) = false -> okb tweak -> wf_bytes m -> (16 <= length m)%nat ->
  exists c, aes_xts_encrypt key m tweak = Ok c /\ aes_xts_decrypt key c tweak = Ok m.
Proof.
  intros Hk Wk Hne [Lt Wt] Wm Lm.
  destruct (xts_half_ok key Hk Wk) as (K1 & W1 & K2 & W2).
  assert (Ht : okb (aesE (xts_k2 key) tweak)) by (apply aes_E_ok; auto; now split).
  exists (xts_crypt (aesE (xts_k1 key)) (aesE (xts_k2 key)) false tweak m).
  pose proof (xts_enc_length (aesE (xts_k1 key)) (aes_E_ok _ K1 W1) (aesE (xts_k2 key)) tweak m Ht Wm Lm) as Lc.
  unfold aes_xts_encrypt, aes_xts_decrypt. rewrite Hk, Lt, Hne. cbn [negb Nat.eqb].
  replace (Nat.ltb (length m) 16) with false by (symmetry; apply Nat.ltb_ge; lia).
  destruct m as [|x m']; [simpl in Lm; lia|]. split; [reflexivity|].
  remember (xts_crypt (aesE (xts_k1 key)) (aesE (xts_k2 key)) false tweak (x :: m')) as c.
  replace (Nat.ltb (length c) 16) with false by (symmetry; apply Nat.ltb_ge; lia).
  destruct c as [|y c']; [simpl in Lc; lia|]. f_equal. rewrite Heqc.
  apply (xts_dec_enc_l (aesE (xts_k1 key)) (aesD (xts_k1 key)) (aes_DE _ K1 W1) (aes_E_ok _ K1 W1)); assumption.
Qed.

Lemma wrap_ccm_roundtrip_l key m nonce aad taglen :
  aes_key_ok key = true -> wf_bytes key -> ccm_nonce_ok nonce = true ->
  ccm_tag_ok (match taglen with Some t => t | None => 16%Z end) = true ->
  ccm_len_ok nonce (length m + Z.to_nat (match taglen with Some t => t | None => 16%Z end)) = true ->
  exists c, aes_ccm_encrypt key m nonce aad taglen = Ok c /\
            aes_ccm_decrypt key c nonce (match aad with Some a => a | None => [] end) taglen = Ok m.
Proof.
  intros Hk Wk Hn Ht Hl. set (t := match taglen with Some t => t | None => 16%Z end) in *.
  set (a := match aad with Some a => a | None => [] end).
  exists (ccm_encrypt (aesE key) nonce a (Z.to_nat t) m).
  assert (Hn14 : (length nonce <= 14)%nat).
  { unfold ccm_nonce_ok in Hn. apply andb_true_iff in Hn as [_ Hn]. apply Nat.leb_le in Hn. lia. }
  assert (Ht16 : (Z.to_nat t <= 16)%nat).
  { unfold ccm_tag_ok in Ht. apply andb_true_iff in Ht as [Ht _]. apply andb_true_iff in Ht as [_ Ht]. lia. }
  pose proof (aes_E_len key Hk Wk) as EL.
  assert (Lc : length (ccm_encrypt (aesE key) nonce a (Z.to_nat t) m) = (length m + Z.to_nat t)%nat).
  { unfold ccm_encrypt. rewrite app_length, ccm_crypt_length, ccm_tag_length by assumption. reflexivity. }
  assert (Hl' : ccm_len_ok nonce (length m) = true).
  { unfold ccm_len_ok in *. apply N.ltb_lt. apply N.ltb_lt in Hl. lia. }
  unfold aes_ccm_encrypt, aes_ccm_decrypt, ccm_params_ok. fold t. fold a.
  rewrite Hk, Ht, Hn, Hl', Lc, Hl. cbn [negb andb]. split; [reflexivity|].
  now rewrite ccm_dec_enc_l.
Qed.

Lemma nat_mod8_Z n : Z.of_nat (Nat.modulo n 8) = (Z.of_nat n mod 8)%Z.
Proof. now rewrite Zdiv.mod_Zmod by lia. Qed.

Lemma wrap_keywrap_roundtrip_l kek data : aes_key_ok kek = true -> wf_bytes kek -> wf_bytes data ->
  (16 <= length data)%nat -> Nat.modulo (length data) 8 = 0%nat ->
  exists c, aes_key_wrap kek data = Ok c /\ aes_key_unwrap kek c = Ok data.
Proof.
  intros Hk Wk Wd Ld Md. exists (aes_kw_wrap kek data). unfold aes_key_wrap, aes_key_unwrap.
  pose proof (kw_wrap_length (aesE kek) (aes_E_ok kek Hk Wk) data Wd Md) as [Lc _].
  change (kw_wrap (aesE kek) data) with (aes_kw_wrap kek data) in Lc.
  rewrite Hk, Lc. cbn [negb].
  replace (Nat.ltb (length data) 16) with false by (symmetry; apply Nat.ltb_ge; lia).
  replace (Nat.ltb (8 + length data) 24) with false by (symmetry; apply Nat.ltb_ge; lia).
  rewrite Md. cbn [Nat.eqb negb].
  assert (M2 : Nat.modulo (8 + length data) 8 = 0%nat).
  { apply Nat2Z.inj. rewrite nat_mod8_Z. apply (f_equal Z.of_nat) in Md. rewrite nat_mod8_Z in Md. lia. }
  rewrite M2. cbn [Nat.eqb negb]. split; [reflexivity|].
  unfold aes_kw_unwrap, aes_kw_wrap.
  change (inv_cipher_rks (key_expansion kek)) with (aesD kek). change (cipher_rks (key_expansion kek)) with (aesE kek).
  now rewrite (unwrap_wrap_l (aesE kek) (aesD kek) (aes_DE kek Hk Wk) (aes_E_ok kek Hk Wk)).
Qed.

(* ------------------------------------------------------------------ Counter *)
Definition zsum (l : list Z) : Z := fold_right Z.add 0%Z l.
Definition enc32 (big : bool) (c : Z) : list N := (if big then be_enc else le_enc) 4%nat (Z.to_N c).
Definition dec32 (big : bool) (l : list N) : Z := Z.of_N ((if big then be_dec else le_dec) l).

Lemma counter_trace_nth nonce big incs : forall c k, (k <= length incs)%nat ->
  nth k (counter_trace nonce big c incs) (Err 0) = counter_encode nonce big (c + zsum (firstn k incs)).
Proof.
  induction incs as [|i t IH]; intros c k Hk.
  - destruct k; [|simpl in Hk; lia]. simpl. now rewrite Z.add_0_r.
  - destruct k as [|k].
    + cbn [counter_trace nth firstn zsum fold_right]. now rewrite Z.add_0_r.
    + cbn [counter_trace nth firstn]. rewrite IH by (simpl in Hk; lia).
      f_equal. cbn [zsum fold_right]. unfold zsum. lia.
Qed.

Lemma dec32_enc32 big c : (0 <= c < 4294967296)%Z -> dec32 big (enc32 big c) = c.
Proof.
  intros H. unfold dec32, enc32.
  assert (B : Z.to_N c < 2 ^ (8 * N.of_nat 4)) by (change (2 ^ (8 * N.of_nat 4)) with 4294967296; lia).
  destruct big; [rewrite be_dec_enc_small | rewrite le_dec_enc_small]; auto; lia.
Qed.

(* what the property demands of a 32-bit block counter: it advances modulo 2^32 *)
Definition counter_spec_value (nonce : list N) (big : bool) (c : Z) : list N :=
  firstn 12 nonce ++ enc32 big (c mod 4294967296).

Lemma land_mask32 c : Z.land c 4294967295 = (c mod 4294967296)%Z.
Proof. change 4294967295%Z with (Z.ones 32). rewrite Z.land_ones by lia. reflexivity. Qed.

(* full strength: every start value, ctr_value and increment sequence (negative ones included), wrap past 2^32 included *)
Lemma counter_advance_l nonce cv big incs k :
  length nonce = 16%nat -> (k <= length incs)%nat ->
  let c0 := (dec32 big (skipn 12 nonce) + match cv with Some v => v | None => 0 end)%Z in
  let c := (c0 + zsum (firstn k incs))%Z in
  counter_init nonce cv big = Ok c0 /\
  exists v, nth k (counter_trace nonce big c0 incs) (Err 0) = Ok v /\
            v = counter_spec_value nonce big c /\
            length v = 16%nat /\ firstn 12 v = firstn 12 nonce /\ dec32 big (skipn 12 v) = (c mod 4294967296)%Z.
Proof.
  intros Ln Hk c0 c. split.
  - unfold counter_init. rewrite Ln. reflexivity.
  - rewrite counter_trace_nth by assumption. fold c. unfold counter_encode. rewrite land_mask32.
    eexists. split; [reflexivity|].
    assert (L12 : length (firstn 12 nonce) = 12%nat) by (rewrite firstn_length; lia).
    fold (enc32 big (c mod 4294967296)).
    assert (L4 : length (enc32 big (c mod 4294967296)) = 4%nat)
      by (unfold enc32; destruct big; [apply be_enc_length | apply le_enc_length]).
    repeat split.
    + rewrite app_length. lia.
    + rewrite firstn_app, L12, Nat.sub_diag, firstn_O, app_nil_r. apply firstn_all2. lia.
    + rewrite skipn_app, L12, Nat.sub_diag, skipn_O. rewrite skipn_all2 by lia. cbn [app].
      apply dec32_enc32. apply Z.mod_pos_bound. lia.
Qed.

(* the former witness of finding C09-F1 (Counter(nonce ending ffffffff).increment(1).value), now wrapping to zero *)
Lemma counter_wrap_witness :
  counter_run (repeat 0 12 ++ repeat 255 4) None false [1%Z] = Ok [Ok (repeat 0 12 ++ repeat 255 4); Ok (repeat 0 16)].
Proof. vm_compute. reflexivity. Qed.

(* ------------------------------------------------------------------ CRC *)
Definition str_crc32 : list N := [99; 114; 99; 51; 50].
Definition str_crc32_mpeg : list N := [99; 114; 99; 51; 50; 45; 109; 112; 101; 103].
Definition str_crc16_xmodem : list N := [99; 114; 99; 49; 54; 45; 120; 109; 111; 100; 101; 109].

Lemma crc_table_standard_l :
  map fst crc_table = [str_crc32; str_crc32_mpeg; str_crc16_xmodem] /\
  map (fun e => crcmod_params (snd e)) crc_table = [Some CRC32; Some CRC32_MPEG2; Some CRC16_XMODEM].
Proof. split; vm_compute; reflexivity. Qed.

Lemma spsdk_crc_standard_l data :
  spsdk_crc str_crc32 data = Ok (crc CRC32 data) /\
  spsdk_crc str_crc32_mpeg data = Ok (crc CRC32_MPEG2 data) /\
  spsdk_crc str_crc16_xmodem data = Ok (crc CRC16_XMODEM data).
Proof. repeat split; reflexivity. Qed.

(* ------------------------------------------------------------------ KeyStore.derive_* *)
Lemma chunks16_single (i : list N) : length i = 16%nat -> chunks 16 i = [i].
Proof. intros L. rewrite <- (app_nil_r i) at 1. rewrite chunks_cons by (auto; lia). reflexivity. Qed.

Lemma nlen_eq {A} (l : list A) n : nlen l = N.of_nat n -> length l = n.
Proof. unfold nlen. apply Nat2N.inj. Qed.

Definition ks_block (first : N) : list N := first :: zeros 15.

Lemma keystore_derivations_l k : nlen k = 32 ->
  derive_hmac_key k = Ok (aesE k (zeros 16)) /\
  derive_enc_image_key k = Ok (aesE k (ks_block 1) ++ aesE k (ks_block 2)) /\
  derive_sb_kek_key k = Ok (aesE k (ks_block 3) ++ aesE k (ks_block 4)) /\
  (forall i, nlen i = 16 -> derive_otfad_kek_key k i = Ok (aesE k i)).
Proof.
  intros Hn. pose proof (nlen_eq k 32 Hn) as Lk.
  assert (Hk : aes_key_ok k = true) by (unfold aes_key_ok; rewrite Lk; reflexivity).
  unfold derive_hmac_key, derive_enc_image_key, derive_sb_kek_key, derive_otfad_kek_key, keystore_derive.
  change derive_hmac_key_key_len with 32. change derive_enc_image_key_key_len with 32.
  change derive_sb_kek_key_key_len with 32. change derive_otfad_kek_key_key_len with 32.
  rewrite Hn. cbn [N.eqb Pos.eqb negb].
  unfold aes_ecb_encrypt. rewrite Hk. cbn [negb].
  repeat split.
  - unfold derive_hmac_key_const. cbv [len_mult16 length Nat.modulo Nat.divmod Nat.eqb negb snd Nat.sub fst].
    cbv [ecb ecb_blocks chunks chunks_fuel BS length firstn skipn map]. cbn [concat]. rewrite ?app_nil_r. reflexivity.
  - unfold derive_enc_image_key_const. cbv [len_mult16 length Nat.modulo Nat.divmod Nat.eqb negb snd Nat.sub fst].
    cbv [ecb ecb_blocks chunks chunks_fuel BS length firstn skipn map]. cbn [concat]. rewrite ?app_nil_r. reflexivity.
  - unfold derive_sb_kek_key_const. cbv [len_mult16 length Nat.modulo Nat.divmod Nat.eqb negb snd Nat.sub fst].
    cbv [ecb ecb_blocks chunks chunks_fuel BS length firstn skipn map]. cbn [concat]. rewrite ?app_nil_r. reflexivity.
  - intros i Hi. pose proof (nlen_eq i 16 Hi) as Li. unfold derive_otfad_kek_key_const.
    change derive_otfad_kek_key_input_len with 16. rewrite Hi. cbn [N.eqb Pos.eqb negb].
    unfold len_mult16. rewrite Li. cbn [Nat.modulo Nat.divmod Nat.eqb negb snd Nat.sub fst].
    unfold ecb, ecb_blocks, BS. rewrite chunks16_single by assumption. cbn [map concat]. now rewrite app_nil_r.
Qed.

Lemma keystore_rejects_l k i : nlen k <> 32 ->
  derive_hmac_key k = Err 1 /\ derive_enc_image_key k = Err 1 /\ derive_sb_kek_key k = Err 1 /\ derive_otfad_kek_key k i = Err 1.
Proof.
  intros Hn. apply N.eqb_neq in Hn.
  unfold derive_hmac_key, derive_enc_image_key, derive_sb_kek_key, derive_otfad_kek_key, keystore_derive.
  change derive_hmac_key_key_len with 32. change derive_enc_image_key_key_len with 32.
  change derive_sb_kek_key_key_len with 32. change derive_otfad_kek_key_key_len with 32.
  rewrite Hn. repeat split; reflexivity.
Qed.

(* ------------------------------------------------------------------ SB3.1 KDF: CMAC in counter mode over a fixed 32-byte layout *)
Definition kdf_layout (const rights mode key_length : Z) (iteration : N) : list N :=
  le_enc 12 (Z.to_N const)                                   (* label: derivation constant, 12 bytes little endian *)
  ++ zeros 8 ++ [Z.to_N (rights * 64)]                       (* context: 8 reserved bytes, access rights in bits 7:6 *)
  ++ [if (mode =? 1)%Z then 1 else 16] ++ [0]                (* 0x01 = KDK, 0x10 = block key; reserved *)
  ++ [if (key_length =? 128)%Z then 32 else 33]              (* key option 0x20 / 0x21 *)
  ++ be_enc 4 (Z.to_N key_length) ++ be_enc 4 iteration.     (* L and counter i, big endian *)

Lemma kdf_layout_length c r m kl i : length (kdf_layout c r m kl i) = 32%nat.
Proof. unfold kdf_layout, zeros. rewrite !app_length, le_enc_length, !be_enc_length, repeat_length. reflexivity. Qed.

Lemma sb31_kdf_spec_l key const rights mode key_length :
  (0 <= rights <= 3)%Z -> (key_length = 128 \/ key_length = 256)%Z -> (0 <= const < 2 ^ 96)%Z -> aes_key_ok key = true ->
  kdf_derive key const rights mode key_length =
  Ok (aes_cmac key (kdf_layout const rights mode key_length 1) ++
      (if (key_length =? 256)%Z then aes_cmac key (kdf_layout const rights mode key_length 2) else [])).
Proof.
  intros Hr Hkl Hc Hk. unfold kdf_derive, kdf_data, spsdk_cmac. fold (kdf_layout const rights mode key_length 1).
  fold (kdf_layout const rights mode key_length 2).
  replace ((0 <=? rights) && (rights <=? 3))%Z with true by (symmetry; apply andb_true_iff; split; apply Z.leb_le; lia).
  replace ((key_length =? 128) || (key_length =? 256))%Z with true
    by (symmetry; apply orb_true_iff; destruct Hkl; [left | right]; now apply Z.eqb_eq).
  replace ((const <? 0) || (2 ^ 96 <=? const))%Z with false
    by (symmetry; apply orb_false_iff; split; [apply Z.ltb_ge | apply Z.leb_gt]; lia).
  rewrite Hk. cbn [negb]. destruct (key_length =? 256)%Z; [reflexivity | now rewrite app_nil_r].
Qed.

Lemma sb31_kdf_rejects_l key const rights mode key_length :
  (~ (0 <= rights <= 3) \/ (key_length <> 128 /\ key_length <> 256))%Z ->
  kdf_derive key const rights mode key_length = Err 1.
Proof.
  intros H. unfold kdf_derive, kdf_data.
  destruct ((0 <=? rights) && (rights <=? 3))%Z eqn:E1; [|reflexivity].
  destruct ((key_length =? 128) || (key_length =? 256))%Z eqn:E2; [|reflexivity].
  exfalso. apply andb_true_iff in E1 as [A B]. apply Z.leb_le in A, B.
  apply orb_true_iff in E2. destruct H as [H|[H1 H2]]; [lia|].
  destruct E2 as [E2|E2]; apply Z.eqb_eq in E2; contradiction.
Qed.

(* ------------------------------------------------------------------ hash / MAC / KDF wrappers are the reference definitions *)
Lemma mac_hash_wrappers_reference_l k d s i inf len :
  get_hash d 1 = Ok (sha256 d) /\ get_hash d 2 = Ok (sha384 d) /\ get_hash d 3 = Ok (sha512 d) /\ get_hash d 254 = Err 1 /\
  spsdk_hmac k d 1 = Ok (hmac_sha256 k d) /\ spsdk_hmac k d 2 = Ok (hmac_sha384 k d) /\ spsdk_hmac k d 3 = Ok (hmac_sha512 k d) /\
  (aes_key_ok k = true -> spsdk_cmac k d = Ok (aes_cmac k d)) /\
  ((0 <= len <= 8160)%Z -> spsdk_hkdf s i inf len = Ok (hkdf_sha256 s i inf (Z.to_nat len))).
Proof.
  repeat split; try reflexivity.
  - intros H. unfold spsdk_cmac. now rewrite H.
  - intros H. unfold spsdk_hkdf. replace (8160 <? len)%Z with false by (symmetry; apply Z.ltb_ge; lia). reflexivity.
Qed.
