(* Proofs/SymWrapProofs.v -- lemmas about the SPSDK wrapper model (Model/SymWrapModel.v) for C09. *)
From Coq Require Import ZArith NArith List Bool Lia.
Require Import Value Bytes BytesProofs GenMisc MiscModel GenCrypto Sha2 Aes Sm4 Modes Hmac Hkdf Cmac KeyWrap Crc
               CryptoProofs SymWrapModel.
Import ListNotations.
Local Open Scope N_scope.
Ltac Zify.zify_post_hook ::= Z.to_euclidean_division_equations.

(* ------------------------------------------------------------------ zero padding of the CBC encryptors *)
Definition zero_pad16 (m : list N) : list N :=
  m ++ zeros (Z.to_nat ((16 - Z.of_nat (length m) mod 16) mod 16)).

Lemma nat_mod16_Z n : Z.of_nat (Nat.modulo n 16) = (Z.of_nat n mod 16)%Z.
Proof. now rewrite Zdiv.mod_Zmod by lia. Qed.

Lemma zero_pad16_mult m : Nat.modulo (length (zero_pad16 m)) 16 = 0%nat.
Proof.
  unfold zero_pad16, zeros. rewrite app_length, repeat_length. apply Nat2Z.inj. rewrite nat_mod16_Z. lia.
Qed.

Lemma wf_zeros n : wf_bytes (zeros n).
Proof. unfold zeros, wf_bytes. apply Forall_forall. intros x Hx. apply repeat_spec in Hx. subst. unfold wf_byte. lia. Qed.

Lemma zero_pad16_wf m : wf_bytes m -> wf_bytes (zero_pad16 m).
Proof. intros. unfold zero_pad16. apply wf_bytes_app; auto using wf_zeros. Qed.

Lemma zero_pad16_aligned m : Nat.modulo (length m) 16 = 0%nat -> zero_pad16 m = m.
Proof.
  intros H. apply (f_equal Z.of_nat) in H. rewrite nat_mod16_Z in H.
  unfold zero_pad16. replace (Z.to_nat ((16 - Z.of_nat (length m) mod 16) mod 16)) with 0%nat by lia.
  apply app_nil_r.
Qed.

Lemma align_block_zero16 m : MiscModel.align_block m 16 PZeros = Ok (zero_pad16 m).
Proof.
  unfold MiscModel.align_block, py_align. cbn [Z.ltb Z.leb Z.compare orb].
  replace (Z.of_nat (length m) <? 0)%Z with false by (symmetry; apply Z.ltb_ge; lia).
  cbn [orb].
  set (L := Z.of_nat (length m)).
  assert (E : ((L + (16 - 1)) / 16 * 16 - L = (16 - L mod 16) mod 16)%Z) by (subst L; lia).
  rewrite E. unfold zero_pad16. fold L.
  destruct (Z.to_nat ((16 - L mod 16) mod 16)) as [|k] eqn:Ek.
  - unfold zeros. simpl. now rewrite app_nil_r.
  - reflexivity.
Qed.

(* ------------------------------------------------------------------ key checks *)
Lemma aes_key_len key : aes_key_ok key = true -> length key = 16%nat \/ length key = 24%nat \/ length key = 32%nat.
Proof.
  unfold aes_key_ok. intros H. apply orb_true_iff in H as [H|H]; [apply orb_true_iff in H as [H|H]|];
    apply Nat.eqb_eq in H; auto.
Qed.

Lemma aes_key_bits_ok key : aes_key_ok key = true -> key_bits_ok [128; 192; 256; 512] key = true.
Proof.
  intros H. unfold key_bits_ok, nlen. destruct (aes_key_len key H) as [E|[E|E]]; rewrite E; reflexivity.
Qed.

Lemma aesE_unfold key : aesE key = cipher_rks (key_expansion key).
Proof. reflexivity. Qed.
Lemma aesD_unfold key : aesD key = inv_cipher_rks (key_expansion key).
Proof. reflexivity. Qed.

Lemma aes_DE key : aes_key_ok key = true -> wf_bytes key -> forall b, okb b -> aesD key (aesE key b) = b.
Proof. intros Hk W b Hb. rewrite aesE_unfold, aesD_unfold. now apply inv_cipher_cipher_rks; [apply key_expansion_ok|]. Qed.
Lemma aes_E_ok key : aes_key_ok key = true -> wf_bytes key -> forall b, okb b -> okb (aesE key b).
Proof. intros Hk W b Hb. rewrite aesE_unfold. now apply inv_cipher_cipher_rks; [apply key_expansion_ok|]. Qed.
Lemma aes_E_len key : aes_key_ok key = true -> wf_bytes key -> forall b, length b = 16%nat -> length (aesE key b) = 16%nat.
Proof. intros Hk W b Hb. rewrite aesE_unfold. now apply aes_enc_length. Qed.

Lemma sm4_DE key : forall b, okb b -> sm4D key (sm4E key b) = b.
Proof. intros b Hb. unfold sm4D, sm4E. now apply sm4_bytes_dec_enc. Qed.
Lemma sm4_E_ok key : forall b, okb b -> okb (sm4E key b).
Proof. intros b Hb. unfold sm4E. now apply sm4_bytes_dec_enc. Qed.

Lemma len_mult16_true l : Nat.modulo (length l) 16 = 0%nat -> len_mult16 l = true.
Proof. intros H. unfold len_mult16. now apply Nat.eqb_eq. Qed.

(* ------------------------------------------------------------------ CBC wrappers *)
(* the IV argument as the caller may give it: left out, empty, or one block *)
Definition iv_arg_ok (iv : option (list N)) : Prop :=
  match iv with None => True | Some [] => True | Some v => okb v end.

Lemma choose_iv_ok iv : iv_arg_ok iv -> okb (choose_iv iv 16).
Proof.
  assert (Z16 : okb (zeros 16)) by (split; [reflexivity | apply wf_zeros]).
  destruct iv as [[|b t]|]; simpl; auto.
Qed.

Section CbcWrapper.
Variable lib_ok : list N -> bool.
Variable F G : list N -> blk -> blk.
Variable key : list N.
Hypothesis lib_key : lib_ok key = true.
Hypothesis DE : forall b, okb b -> G key (F key b) = b.
Hypothesis E_ok : forall b, okb b -> okb (F key b).

Lemma cbc_wrapper_roundtrip kb kb' al' m iv :
  key_bits_ok kb key = true -> key_bits_ok kb' key = true -> wf_bytes m -> iv_arg_ok iv ->
  exists c, cbc_wrapper kb 16 128 16 true lib_ok F key m iv = Ok c /\
            cbc_wrapper kb' 16 128 al' false lib_ok G key c iv = Ok (zero_pad16 m).
Proof.
  intros K1 K2 W Hiv. pose proof (choose_iv_ok iv Hiv) as Hv.
  assert (L16 : length (choose_iv iv 16) = 16%nat) by apply Hv.
  pose proof (zero_pad16_wf m W) as Wp. pose proof (zero_pad16_mult m) as Mp.
  destruct (cbc_enc_length (F key) E_ok (choose_iv iv 16) (zero_pad16 m) Hv Wp Mp) as [Lc Wc].
  exists (cbc_enc (F key) (choose_iv iv 16) (zero_pad16 m)). unfold cbc_wrapper.
  rewrite K1, K2, lib_key. unfold nlen. rewrite L16. cbn [negb N.eqb N.of_nat N.mul Pos.of_succ_nat Pos.succ Pos.mul Pos.eqb Nat.eqb].
  change (Z.of_N 16) with 16%Z. rewrite align_block_zero16.
  rewrite (len_mult16_true _ Mp). cbn [negb]. split; [reflexivity|].
  rewrite len_mult16_true by (rewrite Lc; exact Mp). cbn [negb].
  f_equal. apply (cbc_dec_enc_l (F key) (G key)); assumption.
Qed.
End CbcWrapper.

Lemma wrap_cbc_roundtrip_l key m iv : aes_key_ok key = true -> wf_bytes key -> wf_bytes m -> iv_arg_ok iv ->
  exists c, aes_cbc_encrypt key m iv = Ok c /\ aes_cbc_decrypt key c iv = Ok (zero_pad16 m).
Proof.
  intros Hk Wk Wm Hiv. unfold aes_cbc_encrypt, aes_cbc_decrypt.
  change aes_cbc_encrypt_default_iv_len with 16. change aes_cbc_encrypt_iv_bits with 128.
  change aes_cbc_encrypt_alignment with 16. change aes_cbc_decrypt_default_iv_len with 16.
  change aes_cbc_decrypt_iv_bits with 128.
  apply (cbc_wrapper_roundtrip aes_key_ok aesE aesD key Hk (aes_DE key Hk Wk) (aes_E_ok key Hk Wk));
    auto; now apply aes_key_bits_ok.
Qed.

Lemma sm4_key_bits_ok key : sm4_key_ok key = true -> key_bits_ok [128] key = true.
Proof. unfold sm4_key_ok. intros H. apply Nat.eqb_eq in H. unfold key_bits_ok, nlen. now rewrite H. Qed.

Lemma wrap_sm4_cbc_roundtrip_l key m iv : sm4_key_ok key = true -> wf_bytes m -> iv_arg_ok iv ->
  exists c, sm4_cbc_encrypt key m iv = Ok c /\ sm4_cbc_decrypt key c iv = Ok (zero_pad16 m).
Proof.
  intros Hk Wm Hiv. unfold sm4_cbc_encrypt, sm4_cbc_decrypt.
  change sm4_cbc_encrypt_default_iv_len with 16. change sm4_cbc_encrypt_iv_bits with 128.
  change sm4_cbc_encrypt_alignment with 16. change sm4_cbc_decrypt_default_iv_len with 16.
  change sm4_cbc_decrypt_iv_bits with 128.
  apply (cbc_wrapper_roundtrip sm4_key_ok sm4E sm4D key Hk (sm4_DE key) (sm4_E_ok key));
    auto; now apply sm4_key_bits_ok.
Qed.

Example wrap_cbc_nonvacuous :
  aes_key_ok (repeat 1 16) = true /\ wf_bytes (repeat 1 16) /\ wf_bytes [1; 2; 3] /\ iv_arg_ok None /\
  aes_cbc_decrypt (repeat 1 16) (match aes_cbc_encrypt (repeat 1 16) [1; 2; 3] None with Ok c => c | Err _ => [] end) None
  = Ok [1; 2; 3; 0; 0; 0; 0; 0; 0; 0; 0; 0; 0; 0; 0; 0].
Proof.
  split; [reflexivity|]. split; [|split; [|split; [exact I | vm_compute; reflexivity]]];
    unfold wf_bytes, wf_byte; repeat constructor.
Qed.
