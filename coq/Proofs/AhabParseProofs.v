(* Proofs/AhabParseProofs.v -- C06 extension: parse (export c) = c for whole version-1 containers. *)
From Coq Require Import ZArith NArith List Bool Lia ZifyBool.
Require Import Value Bytes BytesProofs Sha2 Aes Modes CryptoProofs GenMisc GenAhab AhabModel AhabProofs Ahab2Model Ahab2Proofs
               AhabParseModel.
Import ListNotations.
Local Open Scope Z_scope.
Ltac Zify.zify_post_hook ::= Z.to_euclidean_division_equations.

(* ------------------------------------------------------------------ placing a piece after a gap of zeros *)
Lemma repeat_app0 a b : repeat 0%N (a + b) = repeat 0%N a ++ repeat 0%N b.
Proof. induction a as [|a IH]; [reflexivity|]. cbn [Nat.add repeat app]. now rewrite IH. Qed.

Lemma place_gap (pre d : list N) off len g m :
  zlen' pre + Z.of_nat g = off -> zlen' d = len -> (g + length d <= m)%nat ->
  place (pre ++ repeat 0%N m) off len d = (pre ++ repeat 0%N g ++ d) ++ repeat 0%N (m - g - length d).
Proof.
  intros Ho Hl Hm. replace m with (g + (m - g))%nat at 1 by lia. rewrite repeat_app0, app_assoc.
  rewrite (place_next (pre ++ repeat 0%N g) d off len (m - g)).
  - now rewrite <- !app_assoc.
  - unfold zlen' in *. rewrite app_length, repeat_length. lia.
  - assumption.
  - lia.
Qed.

(* ------------------------------------------------------------------ the version-1 signature block as a concatenation *)
Definition gap1 (rs : list srk_rec) : nat := Z.to_nat (zalign (16 + srk_table_len rs) gen_container_alignment - 16 - srk_table_len rs).
Definition gap2 (rs : list srk_rec) (s : list N) : nat :=
  let so := zalign (16 + srk_table_len rs) gen_container_alignment in
  Z.to_nat (zalign (so + (8 + zlen' s)) gen_container_alignment - so - 8 - zlen' s).

Lemma sigblock_bytes_concat rs s bl :
  rs <> [] -> blob_ok bl ->
  let sb := sigblock_update rs (Some s) bl in
  sigblock_bytes false sb
  = sigblock_header false sb ++ srk_table_bytes false (srk_table_len rs) rs ++ repeat 0%N (gap1 rs)
    ++ signature_bytes (8 + zlen' s) s
    ++ match bl with Some b => repeat 0%N (gap2 rs s) ++ blob_bytes b | None => [] end.
Proof.
  intros Hr Hb sb. destruct rs as [|r rt]; [contradiction|]. pose proof (srk_table_len_pos (r :: rt)) as TP.
  assert (A8 : 0 < gen_container_alignment) by reflexivity.
  pose proof (zalign_ge (16 + srk_table_len (r :: rt)) _ A8) as G1.
  pose proof (zalign_ge (zalign (16 + srk_table_len (r :: rt)) gen_container_alignment + (8 + zlen' s)) _ A8) as G2.
  pose proof (srk_table_bytes_len false (srk_table_len (r :: rt)) (r :: rt)) as LT.
  pose proof (signature_bytes_len (8 + zlen' s) s) as LS.
  pose proof (sigblock_header_len false sb) as LH.
  unfold sigblock_bytes, gap1, gap2. subst sb.
  destruct bl as [b|];
    cbn [sigblock_update sb_srk sb_sig sb_blob sb_srk_length sb_sig_length sb_length sb_srk_off sb_sig_off sb_blob_off] in *;
    change (zalign (0 + zalign 16 gen_container_alignment) gen_container_alignment) with 16 in *;
    set (H := sigblock_header false _) in *; set (T := srk_table_bytes false _ _) in *; set (S := signature_bytes _ s) in *;
    set (SO := zalign (16 + srk_table_len (r :: rt)) gen_container_alignment) in *.
  - pose proof (Hb b eq_refl) as LB. set (BO := zalign (SO + (8 + zlen' s)) gen_container_alignment) in *.
    assert (E1 : py_set (repeat 0%N (Z.to_nat (BO + b_length b))) 0 16 H = H ++ repeat 0%N (Z.to_nat (BO + b_length b) - 16)).
    { change (repeat 0%N (Z.to_nat (BO + b_length b))) with ([] ++ repeat 0%N (Z.to_nat (BO + b_length b))).
      change 16%nat with (0 + 16)%nat at 1. rewrite py_set_next by (try reflexivity; try assumption; unfold zlen' in *; lia). reflexivity. }
    rewrite E1.
    rewrite (place_next H T) by (unfold zlen' in *; lia).
    rewrite (place_gap (H ++ T) S SO (8 + zlen' s) (Z.to_nat (SO - 16 - srk_table_len (r :: rt))))
      by (unfold zlen' in *; rewrite ?app_length; lia).
    rewrite (place_gap ((H ++ T) ++ _ ++ S) (blob_bytes b) BO (b_length b) (Z.to_nat (BO - SO - 8 - zlen' s)))
      by (unfold zlen' in *; rewrite ?app_length, ?repeat_length; lia).
    match goal with |- context [repeat 0%N ?n] => replace n with 0%nat by (unfold zlen' in *; rewrite ?app_length, ?repeat_length in *; lia) end.
    cbn [repeat]. rewrite app_nil_r, <- !app_assoc. reflexivity.
  - assert (E1 : py_set (repeat 0%N (Z.to_nat (SO + (8 + zlen' s)))) 0 16 H = H ++ repeat 0%N (Z.to_nat (SO + (8 + zlen' s)) - 16)).
    { change (repeat 0%N (Z.to_nat (SO + (8 + zlen' s)))) with ([] ++ repeat 0%N (Z.to_nat (SO + (8 + zlen' s)))).
      change 16%nat with (0 + 16)%nat at 1. rewrite py_set_next by (try reflexivity; try assumption; unfold zlen' in *; lia). reflexivity. }
    rewrite E1.
    rewrite (place_next H T) by (unfold zlen' in *; lia).
    rewrite (place_gap (H ++ T) S SO (8 + zlen' s) (Z.to_nat (SO - 16 - srk_table_len (r :: rt))))
      by (unfold zlen' in *; rewrite ?app_length; lia).
    match goal with |- context [repeat 0%N (?a - ?b - ?c)] => replace (a - b - c)%nat with 0%nat by (unfold zlen' in *; rewrite ?app_length in *; lia) end.
    cbn [repeat]. rewrite !app_nil_r, <- !app_assoc. reflexivity.
Qed.

(* ------------------------------------------------------------------ record parsers on what the exporters write *)
Definition srk_rec_wf (r : srk_rec) : Prop :=
  let '(l1, l2) := key_sizes (sr_ksize r) in
  zlen' (sr_params r) = l1 + l2 /\ fits 2 l1 = true /\ fits 2 l2 = true /\ sr_length r = 12 + zlen' (sr_params r) /\
  fits 2 (sr_length r) = true /\ In (sr_alg r) [33; 34; 39; 40] /\ In (sr_hash r) [0; 1; 2; 3] /\
  fits 1 (sr_ksize r) = true /\ fits 1 (sr_flags r) = true.

Lemma fits1_of_In x l : In x l -> forallb (fits 1) l = true -> fits 1 x = true.
Proof. intros H F. rewrite forallb_forall in F. now apply F. Qed.

Lemma srk_rec_roundtrip_l r rest : srk_rec_wf r -> srk_rec_parse (srk_rec_bytes r ++ rest) = Ok r.
Proof.
  unfold srk_rec_wf, srk_rec_parse, srk_rec_bytes. destruct (key_sizes (sr_ksize r)) as [l1 l2].
  intros (HP & F1 & F2 & HL & FL & HA & HH & HK & HF).
  set (l := (le 1 gen_tag_srk_record ++ _) ++ rest).
  assert (FA : fits 1 (sr_alg r) = true) by (apply (fits1_of_In _ _ HA); reflexivity).
  assert (FH : fits 1 (sr_hash r) = true) by (apply (fits1_of_In _ _ HH); reflexivity).
  assert (R0 : rd l 0 1 = gen_tag_srk_record) by (apply rd_field; reflexivity).
  assert (R1 : rd l 1 2 = sr_length r) by (apply rd_field; [reflexivity | assumption]).
  assert (R3 : rd l 3 1 = sr_alg r) by (apply rd_field; [reflexivity | assumption]).
  assert (R4 : rd l 4 1 = sr_hash r) by (apply rd_field; [reflexivity | assumption]).
  assert (R5 : rd l 5 1 = sr_ksize r) by (apply rd_field; [reflexivity | assumption]).
  assert (R7 : rd l 7 1 = sr_flags r) by (apply rd_field; [reflexivity | assumption]).
  assert (R8 : rd l 8 2 = l1) by (apply rd_field; [reflexivity | assumption]).
  assert (R10 : rd l 10 2 = l2) by (apply rd_field; [reflexivity | assumption]).
  assert (Ll : zlen' l = sr_length r + zlen' rest) by (unfold l, zlen' in *; rewrite !app_length, !le_length; lia).
  rewrite R0, R1, R3, R4, R5, R7, R8, R10. rewrite Z.eqb_refl.
  assert (HA6 : In (sr_alg r) [33; 34; 39; 40; 209; 210]) by (cbn in HA |- *; tauto).
  rewrite (existsb_In_Z _ _ HA6), (existsb_In_Z _ _ HA), (existsb_In_Z _ _ HH).
  replace (Nat.leb 12 (length l)) with true by (symmetry; apply Nat.leb_le; unfold zlen' in *; lia).
  replace (sr_length r <=? zlen' l) with true by (symmetry; apply Z.leb_le; unfold zlen' in *; lia). cbn [andb negb].
  replace (sr_length r <? l1 + l2 + 12) with false by (symmetry; apply Z.ltb_ge; lia). cbn iota.
  assert (SP : slice l 12 (12 + Z.to_nat (l1 + l2)) = sr_params r).
  { unfold l.
    change ((le 1 gen_tag_srk_record ++ le 2 (sr_length r) ++ le 1 (sr_alg r) ++ le 1 (sr_hash r) ++ le 1 (sr_ksize r) ++ le 1 0 ++
             le 1 (sr_flags r) ++ (le 2 l1 ++ le 2 l2) ++ sr_params r) ++ rest)
      with ((le 1 gen_tag_srk_record ++ le 2 (sr_length r) ++ le 1 (sr_alg r) ++ le 1 (sr_hash r) ++ le 1 (sr_ksize r) ++ le 1 0 ++
             le 1 (sr_flags r) ++ le 2 l1 ++ le 2 l2) ++ sr_params r ++ rest).
    rewrite slice_app_r by (rewrite !app_length, !le_length; simpl; lia). rewrite !app_length, !le_length.
    change (1 + (2 + (1 + (1 + (1 + (1 + (1 + (2 + 2))))))))%nat with 12%nat.
    replace (12 - 12)%nat with 0%nat by lia. replace (12 + Z.to_nat (l1 + l2) - 12)%nat with (length (sr_params r)) by (unfold zlen' in *; lia).
    rewrite slice_app_l by lia. apply slice_full. }
  rewrite SP. destruct r; cbn in *; subst; reflexivity.
Qed.

Lemma srk_rec_bytes_length r : srk_rec_wf r -> length (srk_rec_bytes r) = Z.to_nat (sr_length r).
Proof.
  intros W. pose proof (srk_rec_bytes_len r) as L. unfold srk_rec_len, srk_rec_wf in *. destruct (key_sizes (sr_ksize r)).
  destruct W as (_ & _ & _ & HL & _). unfold zlen' in *. lia.
Qed.

Lemma srk_recs_roundtrip rs L : forall rest,
  Forall (fun r => srk_rec_wf r /\ sr_length r = L) rs ->
  srk_recs_parse (length rs) (concat (map srk_rec_bytes rs) ++ rest) (Z.to_nat L) = Ok rs.
Proof.
  induction rs as [|r t IH]; intros rest H; [reflexivity|]. inversion H as [|? ? [W HL] Ht]; subst.
  cbn [length srk_recs_parse map concat]. rewrite <- app_assoc. rewrite srk_rec_roundtrip_l by assumption. cbn [bind].
  rewrite skipn_app_exact by (now apply srk_rec_bytes_length). rewrite IH by assumption. reflexivity.
Qed.

Lemma srk_table_roundtrip_l rs rest :
  length rs = 4%nat -> (exists L, Forall (fun r => srk_rec_wf r /\ sr_length r = L) rs) -> fits 2 (srk_table_len rs) = true ->
  srk_table_parse (srk_table_bytes false (srk_table_len rs) rs ++ rest) = Ok (srk_table_len rs, rs).
Proof.
  intros H4 (L & HF) FT. unfold srk_table_parse, srk_table_bytes.
  set (l := (le 1 gen_tag_srk_table ++ _) ++ rest).
  assert (R0 : rd l 0 1 = gen_tag_srk_table) by (apply rd_field; reflexivity).
  assert (R1 : rd l 1 2 = srk_table_len rs) by (apply rd_field; [reflexivity | assumption]).
  assert (R3 : rd l 3 1 = gen_version_srk_table false) by (apply rd_field; reflexivity).
  pose proof (srk_table_bytes_len false (srk_table_len rs) rs) as LT. unfold srk_table_bytes in LT.
  assert (Ll : zlen' l = srk_table_len rs + zlen' rest) by (unfold l, zlen' in *; rewrite app_length; lia).
  assert (TL : srk_table_len rs = 4 + 4 * L).
  { destruct rs as [|r0 [|r1 [|r2 [|r3 [|]]]]]; try discriminate. unfold srk_table_len. cbn [fold_right].
    repeat match goal with X : Forall _ (_ :: _) |- _ => inversion X as [|? ? [? ?] ?]; subst; clear X end.
    unfold srk_rec_wf, srk_rec_len in *.
    repeat match goal with X : let '(_, _) := key_sizes ?k in _ |- _ => destruct (key_sizes k); destruct X as (_ & _ & _ & X & _) end. lia. }
  pose proof (srk_table_len_pos rs) as TP.
  rewrite R0, R1, R3, !Z.eqb_refl.
  replace (Nat.leb 4 (length l)) with true by (symmetry; apply Nat.leb_le; unfold zlen' in *; lia).
  replace (srk_table_len rs <=? zlen' l) with true by (symmetry; apply Z.leb_le; unfold zlen' in *; lia). cbn [andb negb].
  replace ((srk_table_len rs - 4) mod 4 =? 0) with true by (symmetry; apply Z.eqb_eq; lia). cbn [negb].
  replace ((srk_table_len rs - 4) / 4) with L by lia.
  unfold l.
  change ((le 1 gen_tag_srk_table ++ le 2 (srk_table_len rs) ++ le 1 (gen_version_srk_table false) ++ concat (map srk_rec_bytes rs)) ++ rest)
    with ((le 1 gen_tag_srk_table ++ le 2 (srk_table_len rs) ++ le 1 (gen_version_srk_table false)) ++ concat (map srk_rec_bytes rs) ++ rest).
  rewrite skipn_app_exact by (rewrite !app_length, !le_length; reflexivity).
  rewrite <- H4. rewrite srk_recs_roundtrip by assumption. reflexivity.
Qed.

Lemma signature_roundtrip_l s rest :
  fits 2 (8 + zlen' s) = true -> signature_parse (signature_bytes (8 + zlen' s) s ++ rest) = Ok (8 + zlen' s, s).
Proof.
  intros F. unfold signature_parse, head_ok, signature_bytes.
  set (l := (le 1 gen_version_ContainerSignature ++ _) ++ rest).
  assert (R0 : rd l 0 1 = gen_version_ContainerSignature) by (apply rd_field; reflexivity).
  assert (R1 : rd l 1 2 = 8 + zlen' s) by (apply rd_field; [reflexivity | assumption]).
  assert (R3 : rd l 3 1 = gen_tag_signature) by (apply rd_field; reflexivity).
  assert (Ll : zlen' l = 8 + zlen' s + zlen' rest) by (unfold l, zlen'; rewrite !app_length, !le_length; lia).
  rewrite R0, R1, R3. cbn [existsb]. rewrite !Z.eqb_refl. cbn [orb andb].
  replace (Nat.leb 8 (length l)) with true by (symmetry; apply Nat.leb_le; unfold zlen' in *; lia).
  replace (8 + zlen' s <=? zlen' l) with true by (symmetry; apply Z.leb_le; unfold zlen' in *; lia). cbn [andb negb].
  f_equal. f_equal. unfold l.
  change ((le 1 gen_version_ContainerSignature ++ le 2 (8 + zlen' s) ++ le 1 gen_tag_signature ++ le 4 0 ++ s) ++ rest)
    with ((le 1 gen_version_ContainerSignature ++ le 2 (8 + zlen' s) ++ le 1 gen_tag_signature ++ le 4 0) ++ s ++ rest).
  rewrite slice_app_r by (rewrite !app_length, !le_length; simpl; lia). rewrite !app_length, !le_length. cbn [Nat.add].
  replace (8 - 8)%nat with 0%nat by lia. replace (Z.to_nat (8 + zlen' s) - 8)%nat with (length s) by (unfold zlen'; lia).
  rewrite slice_app_l by lia. apply slice_full.
Qed.

Definition blob_wf (b : blob) : Prop :=
  b_length b = 8 + zlen' (b_keyblob b) /\ fits 2 (b_length b) = true /\ fits 1 (b_flags b) = true /\ fits 1 (b_size b / 8) = true /\
  b_size b / 8 * 8 = b_size b /\ In (b_alg b) [3; 4] /\ fits 1 (b_mode b) = true.

Lemma blob_roundtrip_l b rest : blob_wf b -> blob_parse (blob_bytes b ++ rest) (b_keyid b) = Ok (blob_wire b).
Proof.
  intros (HL & FL & FF & FS & HS & HA & FM). unfold blob_parse, head_ok, blob_bytes.
  set (l := (le 1 gen_version_AhabBlob ++ _) ++ rest).
  assert (FA : fits 1 (b_alg b) = true) by (apply (fits1_of_In _ _ HA); reflexivity).
  assert (R0 : rd l 0 1 = gen_version_AhabBlob) by (apply rd_field; reflexivity).
  assert (R1 : rd l 1 2 = b_length b) by (apply rd_field; [reflexivity | assumption]).
  assert (R3 : rd l 3 1 = gen_tag_blob) by (apply rd_field; reflexivity).
  assert (R4 : rd l 4 1 = b_flags b) by (apply rd_field; [reflexivity | assumption]).
  assert (R5 : rd l 5 1 = b_size b / 8) by (apply rd_field; [reflexivity | assumption]).
  assert (R6 : rd l 6 1 = b_alg b) by (apply rd_field; [reflexivity | assumption]).
  assert (R7 : rd l 7 1 = b_mode b) by (apply rd_field; [reflexivity | assumption]).
  assert (Ll : zlen' l = b_length b + zlen' rest) by (unfold l, zlen' in *; rewrite !app_length, !le_length; lia).
  rewrite R0, R1, R3, R4, R5, R6, R7. cbn [existsb]. rewrite !Z.eqb_refl. cbn [orb andb].
  replace (Nat.leb 8 (length l)) with true by (symmetry; apply Nat.leb_le; unfold zlen' in *; lia).
  replace (b_length b <=? zlen' l) with true by (symmetry; apply Z.leb_le; unfold zlen' in *; lia). cbn [andb negb].
  replace ((b_alg b =? 3) || ((b_alg b =? 4) || false)) with true
    by (symmetry; cbn in HA; destruct HA as [<-|[<-|[]]]; reflexivity). cbn [negb].
  assert (SK : slice l 8 (Z.to_nat (b_length b)) = b_keyblob b).
  { unfold l.
    change ((le 1 gen_version_AhabBlob ++ le 2 (b_length b) ++ le 1 gen_tag_blob ++ le 1 (b_flags b) ++ le 1 (b_size b / 8) ++
             le 1 (b_alg b) ++ le 1 (b_mode b) ++ b_keyblob b) ++ rest)
      with ((le 1 gen_version_AhabBlob ++ le 2 (b_length b) ++ le 1 gen_tag_blob ++ le 1 (b_flags b) ++ le 1 (b_size b / 8) ++
             le 1 (b_alg b) ++ le 1 (b_mode b)) ++ b_keyblob b ++ rest).
    rewrite slice_app_r by (rewrite !app_length, !le_length; simpl; lia). rewrite !app_length, !le_length. cbn [Nat.add].
    replace (8 - 8)%nat with 0%nat by lia. replace (Z.to_nat (b_length b) - 8)%nat with (length (b_keyblob b)) by (unfold zlen' in *; lia).
    rewrite slice_app_l by lia. apply slice_full. }
  rewrite SK, HS. unfold blob_wire. reflexivity.
Qed.

(* ------------------------------------------------------------------ signature block: parse (export sb) = sb *)
Definition SO (rs : list srk_rec) : Z := zalign (16 + srk_table_len rs) gen_container_alignment.
Definition BO (rs : list srk_rec) (s : list N) : Z := zalign (SO rs + (8 + zlen' s)) gen_container_alignment.

Lemma sigblock_update_exact rs s bl : rs <> [] ->
  let sb := sigblock_update rs (Some s) bl in
  sb_srk_off sb = 16 /\ sb_sig_off sb = SO rs /\ sb_cert_off sb = 0 /\ sb_srk sb = rs /\ sb_srk_length sb = srk_table_len rs /\
  sb_sig sb = Some s /\ sb_sig_length sb = 8 + zlen' s /\ sb_blob sb = bl /\
  match bl with
  | Some b => sb_blob_off sb = BO rs s /\ sb_length sb = BO rs s + b_length b
  | None => sb_blob_off sb = 0 /\ sb_length sb = SO rs + (8 + zlen' s)
  end.
Proof. intros Hr. destruct rs; [contradiction|]. destruct bl; unfold SO, BO; repeat split; reflexivity. Qed.

Definition sigblock_wf (rs : list srk_rec) (s : list N) (bl : option blob) : Prop :=
  length rs = 4%nat /\ (exists L, Forall (fun r => srk_rec_wf r /\ sr_length r = L) rs) /\ fits 2 (srk_table_len rs) = true /\
  fits 2 (8 + zlen' s) = true /\ fits 2 (sb_length (sigblock_update rs (Some s) bl)) = true /\
  match bl with Some b => blob_wf b /\ fits 4 (b_keyid b) = true | None => True end.

Lemma sigblock_roundtrip_l rs s bl rest :
  sigblock_wf rs s bl ->
  sigblock_parse (sigblock_bytes false (sigblock_update rs (Some s) bl) ++ rest) = Ok (sigblock_wire (sigblock_update rs (Some s) bl)).
Proof.
  intros (H4 & HR & FT & FS & FL & HB).
  assert (Hr : rs <> []) by (intros ->; discriminate).
  assert (Hbo : blob_ok bl).
  { intros b ->. destruct HB as [(HL & _) _]. unfold blob_bytes, zlen' in *. rewrite !app_length, !le_length. lia. }
  rewrite sigblock_bytes_concat by assumption.
  destruct (sigblock_update_exact rs s bl Hr) as (E1 & E2 & E3 & E4 & E5 & E6 & E7 & E8 & E9).
  set (sb := sigblock_update rs (Some s) bl) in *.
  pose proof (srk_table_len_pos rs) as TP. assert (A8 : 0 < gen_container_alignment) by reflexivity.
  pose proof (zalign_ge (16 + srk_table_len rs) _ A8) as G1. fold (SO rs) in G1.
  pose proof (zalign_ge (SO rs + (8 + zlen' s)) _ A8) as G2. fold (BO rs s) in G2.
  pose proof (srk_table_bytes_len false (srk_table_len rs) rs) as LT. pose proof (signature_bytes_len (8 + zlen' s) s) as LS.
  pose proof (sigblock_header_len false sb) as LH.
  set (T := srk_table_bytes false (srk_table_len rs) rs) in *. set (S := signature_bytes (8 + zlen' s) s) in *.
  set (tail := match bl with Some b => repeat 0%N (gap2 rs s) ++ blob_bytes b | None => [] end).
  set (l := (sigblock_header false sb ++ T ++ repeat 0%N (gap1 rs) ++ S ++ tail) ++ rest).
  assert (FSO : fits 2 (SO rs) = true).
  { apply fits_spec. apply fits_spec in FL. destruct bl as [b|]; destruct E9 as [_ E9]; rewrite E9 in FL.
    - destruct HB as [(HL & _) _]. unfold zlen' in *. lia.
    - unfold zlen' in *. lia. }
  assert (K : fits 4 (match sb_blob sb with Some b => b_keyid b | None => 0 end) = true)
    by (rewrite E8; destruct bl as [b|]; [apply HB | reflexivity]).
  assert (FBO : fits 2 (sb_blob_off sb) = true).
  { apply fits_spec. apply fits_spec in FL. destruct bl as [b|]; destruct E9 as [E9 E10]; rewrite E9; rewrite E10 in FL.
    - destruct HB as [(HL & _) _]. unfold zlen' in *. lia.
    - simpl. lia. }
  unfold sigblock_parse, head_ok.
  assert (R0 : rd l 0 1 = gen_version_sigblock false) by (apply rd_field; reflexivity).
  assert (R1 : rd l 1 2 = sb_length sb) by (apply rd_field; [reflexivity | assumption]).
  assert (R3 : rd l 3 1 = gen_tag_sigblock) by (apply rd_field; reflexivity).
  assert (R4 : rd l 4 2 = 0) by (unfold l, sigblock_header; rewrite E3; apply rd_field; reflexivity).
  assert (R6 : rd l 6 2 = 16) by (unfold l, sigblock_header; rewrite E1; apply rd_field; reflexivity).
  assert (R8 : rd l 8 2 = SO rs) by (unfold l, sigblock_header; rewrite E2; apply rd_field; [reflexivity | assumption]).
  assert (R10 : rd l 10 2 = sb_blob_off sb) by (apply rd_field; [reflexivity | assumption]).
  assert (R12 : rd l 12 4 = match sb_blob sb with Some b => b_keyid b | None => 0 end) by (apply rd_field; [reflexivity | assumption]).
  assert (Lg1 : Z.of_nat (gap1 rs) = SO rs - 16 - srk_table_len rs) by (unfold gap1; fold (SO rs); lia).
  assert (Ltail : zlen' tail = sb_length sb - SO rs - (8 + zlen' s)).
  { unfold tail. destruct bl as [b|]; destruct E9 as [E9 E10]; rewrite E10.
    - unfold zlen', gap2 in *. fold (SO rs) (BO rs s). rewrite app_length, repeat_length. specialize (Hbo b eq_refl). unfold zlen' in *. lia.
    - unfold zlen'. simpl. lia. }
  assert (Ll : zlen' l = sb_length sb + zlen' rest).
  { unfold l, zlen' in *. rewrite !app_length, repeat_length, LH. lia. }
  assert (LLpos : 16 <= sb_length sb) by (unfold zlen' in *; lia).
  rewrite R0, R1, R3, R4, R6, R8. cbn [existsb]. rewrite !Z.eqb_refl. cbn [orb andb].
  replace (Nat.leb 16 (length l)) with true by (symmetry; apply Nat.leb_le; unfold zlen' in *; lia).
  replace (sb_length sb <=? zlen' l) with true by (symmetry; apply Z.leb_le; unfold zlen' in *; lia). cbn [andb negb].
  change (16 =? 0) with false. cbn iota.
  replace (SO rs =? 0) with false by (symmetry; apply Z.eqb_neq; lia).
  (* SRK table *)
  assert (K16 : skipn (Z.to_nat 16) l = T ++ (repeat 0%N (gap1 rs) ++ S ++ tail) ++ rest).
  { unfold l. rewrite <- app_assoc. rewrite skipn_app_exact by (rewrite LH; reflexivity). now rewrite <- !app_assoc. }
  rewrite K16. unfold T at 1. rewrite srk_table_roundtrip_l by assumption. cbn [bind].
  (* signature *)
  assert (KSO : skipn (Z.to_nat (SO rs)) l = S ++ tail ++ rest).
  { unfold l. replace ((sigblock_header false sb ++ T ++ repeat 0%N (gap1 rs) ++ S ++ tail) ++ rest)
      with ((sigblock_header false sb ++ T ++ repeat 0%N (gap1 rs)) ++ S ++ tail ++ rest) by (now rewrite <- !app_assoc).
    apply skipn_app_exact. rewrite !app_length, repeat_length, LH. unfold zlen' in *. lia. }
  rewrite KSO. unfold S at 1. rewrite signature_roundtrip_l by assumption. cbn [bind res_map].
  (* blob *)
  rewrite R10, R12. destruct bl as [b|].
  - destruct E9 as [E9 E10]. destruct HB as [WB FK]. rewrite E9. rewrite E8.
    replace (BO rs s =? 0) with false by (symmetry; apply Z.eqb_neq; unfold zlen' in *; lia).
    assert (KBO : skipn (Z.to_nat (BO rs s)) l = blob_bytes b ++ rest).
    { unfold l, tail. replace ((sigblock_header false sb ++ T ++ repeat 0%N (gap1 rs) ++ S ++ repeat 0%N (gap2 rs s) ++ blob_bytes b) ++ rest)
        with ((sigblock_header false sb ++ T ++ repeat 0%N (gap1 rs) ++ S ++ repeat 0%N (gap2 rs s)) ++ blob_bytes b ++ rest)
        by (now rewrite <- !app_assoc).
      apply skipn_app_exact. rewrite !app_length, !repeat_length, LH. unfold gap2. fold (SO rs) (BO rs s). unfold zlen' in *. lia. }
    rewrite KBO, blob_roundtrip_l by assumption. cbn [bind res_map option_map fst snd].
    unfold sigblock_wire. rewrite E1, E2, E3, E4, E5, E6, E7, E8, E9. reflexivity.
  - destruct E9 as [E9 E10]. rewrite E9. change (0 =? 0) with true. cbn [bind res_map option_map fst snd].
    unfold sigblock_wire. rewrite E1, E2, E3, E4, E5, E6, E7, E8, E9. reflexivity.
Qed.

(* ------------------------------------------------------------------ whole container: parse (export c) = c *)
Definition iae_ok (e : iae) : Prop :=
  iae_fmt_ok e = true /\ length (i_hash e) = 64%nat /\ length (i_iv e) = 32%nat /\
  (flags_enc false (i_flags e) = false -> i_iv e = repeat 0%N 32).

Lemma iae_bytes_length e : length (iae_bytes e) = 128%nat.
Proof. unfold iae_bytes. rewrite !app_length, !le_length, !fit_s_length. reflexivity. Qed.

Lemma iae_parse_obj_roundtrip e rest : iae_ok e -> iae_parse_obj (iae_bytes e ++ rest) = iae_wire' e.
Proof.
  intros (F & H & I & Z0). unfold iae_parse_obj. rewrite iae_roundtrip_l by assumption. unfold iae_wire, iae_wire'. cbn [i_flags].
  destruct (flags_enc false (i_flags e)) eqn:E; [reflexivity|]. cbn. now rewrite Z0.
Qed.

Lemma iaes_parse_roundtrip : forall l rest, Forall iae_ok l ->
  iaes_parse (length l) (concat (map iae_bytes l) ++ rest) = map iae_wire' l.
Proof.
  induction l as [|e t IH]; intros rest H; [reflexivity|]. inversion H; subst.
  cbn [length iaes_parse map concat]. rewrite <- app_assoc. rewrite iae_parse_obj_roundtrip by assumption.
  rewrite skipn_app_exact by apply iae_bytes_length. now rewrite IH.
Qed.

Definition container_wf (c : container) (rs : list srk_rec) (s : list N) (bl : option blob) : Prop :=
  c_version c = gen_version_container false /\ c_sb c = sigblock_update rs (Some s) bl /\ sigblock_wf rs s bl /\
  c_length c = header_length c /\ header_fmt_ok c = true /\ Forall iae_ok (c_images c).

Lemma container_parse_export_l c rs s bl rest :
  container_wf c rs s bl ->
  container_parse (c_coff c) (container_bytes false c ++ rest) = Ok (container_wire c).
Proof.
  intros (HV & HS & WS & HL & HF & HI).
  assert (Hr : rs <> []) by (destruct WS as (H4 & _); intros ->; discriminate).
  assert (Hbo : blob_ok bl).
  { destruct WS as (_ & _ & _ & _ & _ & HB). intros b ->. destruct HB as [(HB & _) _].
    unfold blob_bytes, zlen' in *. rewrite !app_length, !le_length. lia. }
  pose proof (sigblock_bytes_length false rs s bl Hr Hbo) as LSB. rewrite <- HS in LSB.
  assert (SBpos : 16 <= sb_length (c_sb c)).
  { rewrite HS. destruct (sigblock_update_exact rs s bl Hr) as (_ & E2 & _ & _ & _ & _ & _ & _ & E9).
    assert (A8 : 0 < gen_container_alignment) by reflexivity. pose proof (srk_table_len_pos rs).
    pose proof (zalign_ge (16 + srk_table_len rs) _ A8). pose proof (zalign_ge (SO rs + (8 + zlen' s)) _ A8). unfold SO, BO in *.
    destruct bl as [b|]; destruct E9 as [_ E9]; rewrite E9; unfold SO, BO, zlen' in *; try lia.
    specialize (Hbo b eq_refl). unfold blob_bytes, zlen' in Hbo. rewrite !app_length, !le_length in Hbo. lia. }
  destruct (container_bytes_split false c) as [rest0 ->]; [lia|].
  pose proof (container_head_length c) as LHd. pose proof (sbo_val c) as SV.
  unfold header_fmt_ok in HF. repeat (apply andb_true_iff in HF; destruct HF as [HF ?]).
  unfold container_parse, container_head, header_bytes.
  rewrite <- !app_assoc. rewrite HV.
  rewrite header_roundtrip_l; try assumption; try (now rewrite <- HV).
  2:{ rewrite HL. unfold header_length, zlen' in *. rewrite !app_length, iaes_length, LSB. lia. }
  cbn [bind].
  (* signature block *)
  assert (KS : skipn (Z.to_nat (sbo c))
                 (header_bytes_raw (gen_version_container false) (c_length c) (c_flags c) (c_sw c) (c_fuse c) (zlen' (c_images c)) (sbo c) ++
                  concat (map iae_bytes (c_images c)) ++ sigblock_bytes false (c_sb c) ++ rest0 ++ rest)
               = sigblock_bytes false (c_sb c) ++ rest0 ++ rest).
  { rewrite app_assoc. apply skipn_app_exact. rewrite <- LHd. unfold container_head, header_bytes. now rewrite HV. }
  rewrite KS, HS, sigblock_roundtrip_l by assumption. cbn [bind].
  (* image array *)
  assert (KI : skipn 16 (header_bytes_raw (gen_version_container false) (c_length c) (c_flags c) (c_sw c) (c_fuse c) (zlen' (c_images c)) (sbo c) ++
                         concat (map iae_bytes (c_images c)) ++ sigblock_bytes false (sigblock_update rs (Some s) bl) ++ rest0 ++ rest)
               = concat (map iae_bytes (c_images c)) ++ sigblock_bytes false (sigblock_update rs (Some s) bl) ++ rest0 ++ rest).
  { apply skipn_app_exact. unfold header_bytes_raw. rewrite !app_length, !le_length. reflexivity. }
  rewrite KI. unfold zlen'. rewrite Nat2Z.id. rewrite iaes_parse_roundtrip by assumption.
  unfold container_wire. rewrite HV, HS. reflexivity.
Qed.

(* the hypotheses are satisfiable: the signed container of the demo image (AhabProofs.demo_cfg) *)
Example container_parse_export_nonvacuous :
  exists cs c, ahab_update demo_params demo_cfg = Ok cs /\ nth_error cs 1 = Some c /\
    c_sb c = sigblock_update (sb_srk (c_sb c)) (Some (repeat 7%N 64)) None /\ c_version c = gen_version_container false /\
    c_length c = header_length c /\ header_fmt_ok c = true /\ length (sb_srk (c_sb c)) = 4%nat /\
    container_parse (c_coff c) (container_bytes false c) = Ok (container_wire c).
Proof. do 2 eexists. split; [vm_compute; reflexivity|]. split; [reflexivity|]. vm_compute. repeat split. Qed.
