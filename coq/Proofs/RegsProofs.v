(* Proofs/RegsProofs.v -- C11 lemmas about Model/RegsModel.v and the arithmetic translated from
   spsdk/utils/registers.py into Gen/GenRegs.v (regenerated on every run). *)
From Coq Require Import ZArith NArith List Bool Lia ZifyBool.
Require Import Value Bytes BytesProofs GenMisc MiscModel MiscProofs GenRegs RegsModel.
Import ListNotations.
Local Open Scope Z_scope.

(* ====================================================================== A. bit-vector algebra over Z *)
Definition getbits (v off w : Z) : Z := Z.land (Z.shiftr v off) (Z.ones w).
Definition fieldmask (off w : Z) : Z := Z.shiftl (Z.ones w) off.
Definition setbits (v off w p : Z) : Z := Z.lor (Z.land v (Z.lnot (fieldmask off w))) (Z.land (Z.shiftl p off) (fieldmask off w)).

Lemma shiftl1_ones w : 0 <= w -> Z.shiftl 1 w - 1 = Z.ones w.
Proof. intros H. rewrite Z.ones_equiv, Z.shiftl_1_l. lia. Qed.

Lemma shiftl1_pow w : 0 <= w -> Z.shiftl 1 w = 2 ^ w.
Proof. intros H. now rewrite Z.shiftl_1_l. Qed.

Lemma testbit_ones_full w n : 0 <= w -> Z.testbit (Z.ones w) n = (0 <=? n) && (n <? w).
Proof. intros H. now apply Z.testbit_ones. Qed.

Lemma testbit_fieldmask off w n : 0 <= off -> 0 <= w -> 0 <= n ->
  Z.testbit (fieldmask off w) n = (off <=? n) && (n <? off + w).
Proof.
  intros Ho Hw Hn. unfold fieldmask. rewrite Z.shiftl_spec by assumption.
  rewrite testbit_ones_full by assumption. lia.
Qed.

Lemma testbit_getbits v off w n : 0 <= off -> 0 <= w -> 0 <= n ->
  Z.testbit (getbits v off w) n = Z.testbit v (n + off) && (n <? w).
Proof.
  intros Ho Hw Hn. unfold getbits. rewrite Z.land_spec, Z.shiftr_spec, testbit_ones_full by assumption.
  replace (0 <=? n) with true by lia. reflexivity.
Qed.

Lemma testbit_setbits v off w p n : 0 <= off -> 0 <= w -> 0 <= n ->
  Z.testbit (setbits v off w p) n =
  if (off <=? n) && (n <? off + w) then Z.testbit p (n - off) else Z.testbit v n.
Proof.
  intros Ho Hw Hn. unfold setbits.
  rewrite Z.lor_spec, !Z.land_spec, Z.lnot_spec, Z.shiftl_spec, testbit_fieldmask by assumption.
  destruct ((off <=? n) && (n <? off + w)); simpl.
  - now rewrite andb_false_r, andb_true_r.
  - now rewrite andb_true_r, andb_false_r, orb_false_r.
Qed.

Lemma small_bits p w n : 0 <= p < 2 ^ w -> w <= n -> Z.testbit p n = false.
Proof.
  intros [Hp Hlt] Hn. destruct (Z.eq_dec p 0) as [->|Hne]; [apply Z.bits_0|].
  apply Z.bits_above_log2; [assumption|].
  assert (Z.log2 p < w) by (apply Z.log2_lt_pow2; lia). lia.
Qed.

Lemma bits_small v w : 0 <= w -> 0 <= v -> (forall n, w <= n -> Z.testbit v n = false) -> v < 2 ^ w.
Proof.
  intros Hw Hv H.
  assert (E : v = Z.land v (Z.ones w)).
  { apply Z.bits_inj'. intros n Hn. rewrite Z.land_spec, testbit_ones_full by assumption.
    destruct (Z.ltb_spec n w).
    - replace (0 <=? n) with true by lia. now rewrite andb_true_r.
    - rewrite H by lia. reflexivity. }
  rewrite Z.land_ones in E by assumption. rewrite E. apply Z.mod_pos_bound. lia.
Qed.

Lemma getbits_range v off w : 0 <= w -> 0 <= getbits v off w < 2 ^ w.
Proof.
  intros Hw. unfold getbits. rewrite Z.land_ones by assumption. apply Z.mod_pos_bound. lia.
Qed.

Lemma getbits_setbits_same v off w p : 0 <= off -> 0 <= w -> 0 <= p < 2 ^ w ->
  getbits (setbits v off w p) off w = p.
Proof.
  intros Ho Hw Hp. apply Z.bits_inj'. intros n Hn.
  rewrite testbit_getbits, testbit_setbits by lia.
  destruct (Z.ltb_spec n w).
  - replace ((off <=? n + off) && (n + off <? off + w)) with true by lia.
    rewrite andb_true_r. f_equal. lia.
  - rewrite andb_false_r. symmetry. now apply small_bits with w.
Qed.

Lemma getbits_setbits_disjoint v off w p off' w' : 0 <= off -> 0 <= w -> 0 <= off' -> 0 <= w' ->
  off + w <= off' \/ off' + w' <= off ->
  getbits (setbits v off w p) off' w' = getbits v off' w'.
Proof.
  intros Ho Hw Ho' Hw' Hd. apply Z.bits_inj'. intros n Hn.
  rewrite !testbit_getbits, testbit_setbits by lia.
  destruct (Z.ltb_spec n w'); [|now rewrite !andb_false_r].
  replace ((off <=? n + off') && (n + off' <? off + w)) with false by lia. reflexivity.
Qed.

Lemma setbits_outside v off w p n : 0 <= off -> 0 <= w -> 0 <= n -> n < off \/ off + w <= n ->
  Z.testbit (setbits v off w p) n = Z.testbit v n.
Proof.
  intros Ho Hw Hn Hd. rewrite testbit_setbits by assumption.
  replace ((off <=? n) && (n <? off + w)) with false by lia. reflexivity.
Qed.

Lemma setbits_nonneg v off w p : 0 <= off -> 0 <= w -> 0 <= v -> 0 <= setbits v off w p.
Proof.
  intros Ho Hw Hv. unfold setbits. apply Z.lor_nonneg. split.
  - apply Z.land_nonneg. now left.
  - apply Z.land_nonneg. right. unfold fieldmask. apply Z.shiftl_nonneg. rewrite Z.ones_equiv.
    assert (0 < 2 ^ w) by (apply Z.pow_pos_nonneg; lia). lia.
Qed.

Lemma setbits_range v off w p W : 0 <= off -> 0 <= w -> off + w <= W -> 0 <= v < 2 ^ W -> 0 <= p < 2 ^ w ->
  0 <= setbits v off w p < 2 ^ W.
Proof.
  intros Ho Hw HW Hv Hp. split; [apply setbits_nonneg; lia|].
  apply bits_small; [lia|apply setbits_nonneg; lia|].
  intros n Hn. rewrite testbit_setbits by lia.
  replace ((off <=? n) && (n <? off + w)) with false by lia.
  now apply small_bits with W.
Qed.

Lemma setbits_getbits_id v off w : 0 <= off -> 0 <= w -> setbits v off w (getbits v off w) = v.
Proof.
  intros Ho Hw. apply Z.bits_inj'. intros n Hn. rewrite testbit_setbits by assumption.
  destruct ((off <=? n) && (n <? off + w)) eqn:E; [|reflexivity].
  rewrite testbit_getbits by lia. replace (n - off <? w) with true by lia.
  rewrite andb_true_r. f_equal. lia.
Qed.

(* ====================================================================== B. the translated arithmetic (Gen/GenRegs.v) *)
Definition cp_pre (hp : bool) (c x : Z) : Z := if hp then Z.shiftr x c else x.
Definition cp_post (hp : bool) (c x : Z) : Z := if hp then Z.shiftl x c else x.

Lemma py_cp_pre_spec x hp c : py_cp_pre x hp c = Ok (cp_pre hp c x).
Proof. unfold py_cp_pre, py_shr_pre_process, py_nop_pre_process, cp_pre. now destruct hp. Qed.

Lemma py_cp_post_spec x hp c : py_cp_post x hp c = Ok (cp_post hp c x).
Proof. unfold py_cp_post, py_shr_post_process, py_nop_post_process, cp_post. now destruct hp. Qed.

(* The spec lemmas below are proved semantically (range tests by arithmetic, values bit by bit), so that a
   behaviour-preserving rewrite of the source lines still checks, while a change of behaviour does not. *)
Ltac norm_shift := rewrite ?shiftl1_ones by lia; rewrite ?shiftl1_pow by lia.
Ltac split_cmp :=
  repeat match goal with
         | |- context [Z.leb ?a ?b] => destruct (Z.leb_spec a b)
         | |- context [Z.ltb ?a ?b] => destruct (Z.ltb_spec a b)
         end.
Ltac bits_eq :=
  apply Z.bits_inj'; let n := fresh "n" in let Hn := fresh "Hn" in intros n Hn;
  unfold setbits, getbits, fieldmask;
  repeat (rewrite ?Z.lor_spec, ?Z.land_spec, ?Z.lnot_spec, ?Z.shiftl_spec, ?Z.shiftr_spec, ?testbit_ones_full by lia);
  split_cmp; try (exfalso; lia); cbn [andb orb negb];
  repeat match goal with |- context [Z.testbit ?x ?i] => destruct (Z.testbit x i) end; reflexivity.
Ltac same_test := (* two range tests over the same numbers *)
  norm_shift; match goal with |- context [2 ^ ?w] => pose proof (Z.ones_equiv w) end; lia.

Lemma py_bf_get_spec rv off w hp c : 0 <= w ->
  py_bf_get rv off w hp c = Ok (cp_post hp c (getbits rv off w)).
Proof.
  intros Hw. unfold py_bf_get. cbv zeta. norm_shift.
  match goal with |- context [py_cp_post ?e hp c] => replace e with (getbits rv off w) by bits_eq end.
  rewrite py_cp_post_spec. reflexivity.
Qed.

Definition out_of_range (p w : Z) : bool := (p <? 0) || (2 ^ w <=? p).

Lemma py_bf_set_spec x rv off w hp c np : 0 <= w ->
  py_bf_set x rv off w hp c np =
  let p := if np then x else cp_pre hp c x in
  if out_of_range p w then Err 1%N else Ok (setbits rv off w p).
Proof.
  intros Hw. unfold py_bf_set, out_of_range. cbv zeta.
  destruct np; cbn [negb]; rewrite ?py_cp_pre_spec; cbv beta iota; norm_shift;
    match goal with
    | |- (if ?c1 then ?e else Ok ?v1) = (if ?c2 then _ else Ok ?v2) =>
        replace c1 with c2 by (pose proof (Z.ones_equiv w); lia); replace v1 with v2 by bits_eq; reflexivity
    end.
Qed.

Lemma py_reg_check_spec v w : 0 <= w ->
  py_reg_check v w = if out_of_range v w then Err 1%N else Ok v.
Proof.
  intros Hw. unfold py_reg_check, out_of_range. norm_shift.
  match goal with
  | |- (if ?c1 then ?e else Ok ?v1) = (if ?c2 then _ else Ok ?v2) =>
      replace c1 with c2 by (pose proof (Z.ones_equiv w); lia); reflexivity
  end.
Qed.

Definition sub_pos (W index sw : Z) (rev : bool) : Z := if rev then W - index * sw else (index - 1) * sw.

Lemma py_sub_pos_set_spec aw i sw rev : py_sub_pos_set aw i sw rev = Ok (sub_pos aw i sw rev).
Proof. unfold py_sub_pos_set, sub_pos. destruct rev; cbv zeta; f_equal; first [reflexivity | ring]. Qed.
Lemma py_sub_pos_get_spec W i sw rev : py_sub_pos_get W i sw rev = Ok (sub_pos W i sw rev).
Proof. unfold py_sub_pos_get, sub_pos. destruct rev; cbv zeta; f_equal; first [reflexivity | ring]. Qed.
Lemma py_sub_slice_spec v pos sw : 0 <= sw -> py_sub_slice v pos sw = Ok (getbits v pos sw).
Proof. intros H. unfold py_sub_slice. cbv zeta. norm_shift. f_equal; first [reflexivity | bits_eq]. Qed.
Lemma py_sub_acc_spec acc sv pos : py_sub_acc acc sv pos = Ok (Z.lor acc (Z.shiftl sv pos)).
Proof. unfold py_sub_acc. cbv zeta. f_equal; first [reflexivity | bits_eq]. Qed.

(* ====================================================================== C. byte reversal *)
Definition brev (n : nat) (v : Z) : Z := Z.of_N (le_dec (be_enc n (Z.to_N v))).

Lemma pow_N_Z k : (2 ^ (8 * N.of_nat k))%N = Z.to_N (2 ^ (8 * Z.of_nat k)).
Proof.
  replace (8 * N.of_nat k)%N with (Z.to_N (8 * Z.of_nat k)) by lia.
  change 2%N with (Z.to_N 2). rewrite <- Z2N.inj_pow by lia. reflexivity.
Qed.

Lemma brev_range n v : 0 <= brev n v < 2 ^ (8 * Z.of_nat n).
Proof.
  unfold brev. split; [lia|].
  pose proof (le_dec_bound (be_enc n (Z.to_N v)) (be_enc_wf n (Z.to_N v))) as H.
  rewrite be_enc_length, pow_N_Z in H.
  assert (0 < 2 ^ (8 * Z.of_nat n)) by (apply Z.pow_pos_nonneg; lia). lia.
Qed.

Lemma brev_involutive n v : 0 <= v < 2 ^ (8 * Z.of_nat n) -> brev n (brev n v) = v.
Proof.
  intros [Hv Hb]. unfold brev. rewrite N2Z.id.
  set (l := le_enc n (Z.to_N v)).
  assert (Hl : be_enc n (Z.to_N v) = rev l) by reflexivity.
  rewrite Hl.
  assert (Hwf : wf_bytes (rev l)) by (unfold wf_bytes; apply Forall_rev; apply le_enc_wf).
  assert (Hlen : length (rev l) = n) by (rewrite rev_length; apply le_enc_length).
  unfold be_enc at 1. rewrite <- Hlen at 1. rewrite le_enc_dec by assumption.
  rewrite rev_involutive. unfold l. rewrite le_dec_enc_small.
  - lia.
  - rewrite pow_N_Z. apply Z2N.inj_lt; lia.
Qed.

Lemma rev_in_spec big n v : 0 < n -> 0 <= v < 2 ^ (8 * n) ->
  rev_in big n v = Ok (brev (Z.to_nat n) v).
Proof.
  intros Hn [Hv Hb]. unfold rev_in, value_to_bytes_int.
  rewrite bytes_cnt_with_cnt by lia.
  assert (Hcnt : (if v =? 0 then Ok n else if n <? width_spec v false then Err 1%N else Ok n) = Ok n).
  { destruct (v =? 0) eqn:E0; [reflexivity|].
    assert (width_spec v false <= n).
    { unfold width_spec. rewrite E0. cbn. apply nbytes_minimal; lia. }
    replace (n <? width_spec v false) with false by lia. reflexivity. }
  rewrite Hcnt. unfold int_to_bytes.
  replace ((v <? 0) || (n <? 0)) with false by lia.
  replace (2 ^ (8 * n) <=? v) with false by lia.
  cbn [bind]. unfold brev. destruct big; [reflexivity|].
  unfold be_dec, be_enc. reflexivity.
Qed.

(* ====================================================================== D. well-formed register files *)
(* Registers with alternative widths are the recorded known class (C11-F1..F4): the positive theorems below are about
   register files without them; the refutation theorems at the end exhibit the failures. *)
Definition wf_field (W : Z) (f : field) : Prop :=
  0 <= f_off f /\ 0 < f_width f /\ f_off f + f_width f <= W /\ 0 <= f_count f.

Definition in_range (W v : Z) : Prop := 0 <= v < 2 ^ W.

Definition wf_sreg (s : sreg) : Prop :=
  0 < s_width s /\ s_width s mod 8 = 0 /\ s_alt s = [] /\ Forall (wf_field (s_width s)) (s_fields s) /\
  in_range (s_width s) (s_value s) /\ in_range (s_width s) (s_reset s).

Definition wf_reg (r : reg) : Prop :=
  wf_sreg (r_base r) /\ Forall wf_sreg (r_subs r) /\
  (r_subs r <> [] -> exists sw, Forall (fun s => s_width s = sw) (r_subs r) /\
                                Z.of_nat (length (r_subs r)) * sw = s_width (r_base r)) /\
  (* the own value of a group register is never written (Register._value stays 0) *)
  (r_subs r <> [] -> s_value (r_base r) = 0).

Definition wf_regs (g : regs) : Prop := Forall wf_reg (g_regs g).

Definition view (reverse raw : bool) (W v : Z) : Z :=
  if negb raw && reverse then brev (Z.to_nat (W / 8)) v else v.

Lemma width_bytes W : 0 < W -> W mod 8 = 0 -> 0 < W / 8 /\ 8 * (W / 8) = W /\ 8 * Z.of_nat (Z.to_nat (W / 8)) = W.
Proof. intros. lia. Qed.

Lemma view_range reverse raw W v : 0 < W -> W mod 8 = 0 -> in_range W v -> in_range W (view reverse raw W v).
Proof.
  intros HW H8 Hv. unfold view. destruct (negb raw && reverse); [|assumption].
  destruct (width_bytes W HW H8) as (_ & _ & E). unfold in_range.
  pose proof (brev_range (Z.to_nat (W / 8)) v) as Hb. rewrite E in Hb. exact Hb.
Qed.

Lemma view_involutive reverse raw W v : 0 < W -> W mod 8 = 0 -> in_range W v ->
  view reverse raw W (view reverse raw W v) = v.
Proof.
  intros HW H8 Hv. unfold view. destruct (negb raw && reverse); [|reflexivity].
  destruct (width_bytes W HW H8) as (_ & _ & E). apply brev_involutive. now rewrite E.
Qed.

Lemma out_of_range_false W v : in_range W v -> out_of_range v W = false.
Proof. unfold in_range, out_of_range. lia. Qed.
Lemma out_of_range_true W v : ~ in_range W v -> out_of_range v W = true.
Proof. unfold in_range, out_of_range. lia. Qed.

Lemma set_common_ok W reverse v raw : 0 < W -> W mod 8 = 0 -> in_range W v ->
  set_common W reverse [] v raw = Ok (W, view reverse raw W v).
Proof.
  intros HW H8 Hv. unfold set_common. rewrite py_reg_check_spec, (out_of_range_false W v Hv) by lia.
  cbn [bind alt_width]. unfold view. destruct (negb raw && reverse); [|reflexivity].
  destruct (width_bytes W HW H8) as (Hp & E & _).
  rewrite rev_in_spec by (unfold in_range in Hv; rewrite ?E; lia). reflexivity.
Qed.

Lemma set_common_err W reverse alts v raw : 0 <= W -> ~ in_range W v -> set_common W reverse alts v raw = Err 1%N.
Proof.
  intros HW Hv. unfold set_common. rewrite py_reg_check_spec, (out_of_range_true W v Hv) by lia. reflexivity.
Qed.

Lemma get_common_ok big W reverse v raw : 0 < W -> W mod 8 = 0 -> in_range W v ->
  get_common big W reverse [] v raw = Ok (view reverse raw W v).
Proof.
  intros HW H8 Hv. unfold get_common. cbn [bind alt_width]. unfold view. destruct (negb raw && reverse); [|reflexivity].
  destruct (width_bytes W HW H8) as (Hp & E & _).
  rewrite rev_in_spec by (unfold in_range in Hv; rewrite ?E; lia). reflexivity.
Qed.

(* ---------------------------------------------------------------- registers without sub-registers *)
Lemma wf_set_value s v : wf_sreg s -> in_range (s_width s) v -> wf_sreg (set_value s v).
Proof. intros (H1 & H2 & H3 & H4 & H5 & H6) Hv. unfold wf_sreg. cbn. tauto. Qed.

Lemma sreg_set_ok s v raw : wf_sreg s -> in_range (s_width s) v ->
  sreg_set s v raw = Ok (set_value s (view (s_reverse s) raw (s_width s) v)).
Proof.
  intros (H1 & H2 & H3 & _) Hv. unfold sreg_set. rewrite H3, set_common_ok by assumption. reflexivity.
Qed.

Lemma sreg_set_err s v raw : wf_sreg s -> ~ in_range (s_width s) v -> sreg_set s v raw = Err 1%N.
Proof. intros (H1 & _) Hv. unfold sreg_set. rewrite set_common_err by (assumption || lia). reflexivity. Qed.

Lemma sreg_get_ok big s raw : wf_sreg s -> sreg_get big s raw = Ok (view (s_reverse s) raw (s_width s) (s_value s)).
Proof. intros (H1 & H2 & H3 & _ & H5 & _). unfold sreg_get. rewrite H3. now apply get_common_ok. Qed.

Lemma sreg_get_set big s v raw : wf_sreg s -> in_range (s_width s) v ->
  exists s', sreg_set s v raw = Ok s' /\ wf_sreg s' /\ sreg_get big s' raw = Ok v /\ s_width s' = s_width s.
Proof.
  intros Hs Hv. pose proof Hs as (H1 & H2 & _).
  eexists. split; [now apply sreg_set_ok|].
  assert (Hr : in_range (s_width s) (view (s_reverse s) raw (s_width s) v)) by now apply view_range.
  split; [now apply wf_set_value|]. split; [|reflexivity].
  rewrite sreg_get_ok by now apply wf_set_value. cbn. now rewrite view_involutive.
Qed.

(* ---------------------------------------------------------------- group registers: concatenation of sub-registers *)
Fixpoint concat (vs : list Z) (idx W sw : Z) (rev : bool) (acc : Z) : Z :=
  match vs with
  | [] => acc
  | v :: t => concat t (idx + 1) W sw rev (Z.lor acc (Z.shiftl v (sub_pos W idx sw rev)))
  end.

Fixpoint cbit (vs : list Z) (idx W sw : Z) (rev : bool) (n : Z) : bool :=
  match vs with
  | [] => false
  | v :: t => Z.testbit v (n - sub_pos W idx sw rev) || cbit t (idx + 1) W sw rev n
  end.

Lemma testbit_concat vs idx W sw rev acc n : 0 <= n ->
  Z.testbit (concat vs idx W sw rev acc) n = Z.testbit acc n || cbit vs idx W sw rev n.
Proof.
  intros Hn. revert idx acc. induction vs as [|v t IH]; intros idx acc; cbn [concat cbit].
  - now rewrite orb_false_r.
  - rewrite IH, Z.lor_spec, Z.shiftl_spec by assumption. now rewrite orb_assoc.
Qed.

Lemma concat_nonneg vs idx W sw rev acc : 0 <= acc -> Forall (fun v => 0 <= v) vs -> 0 <= concat vs idx W sw rev acc.
Proof.
  intros Ha Hv. revert idx acc Ha. induction Hv as [|v t Hv0 Hv IH]; intros idx acc Ha; cbn [concat]; [assumption|].
  apply IH. apply Z.lor_nonneg. split; [assumption|]. now apply Z.shiftl_nonneg.
Qed.

Fixpoint slices (k : nat) (idx W sw : Z) (rev : bool) (V : Z) : list Z :=
  match k with
  | O => []
  | S k' => getbits V (sub_pos W idx sw rev) sw :: slices k' (idx + 1) W sw rev V
  end.

Definition window (idx W sw : Z) (rev : bool) (len n : Z) : bool :=
  if rev then (W - (idx - 1 + len) * sw <=? n) && (n <? W - (idx - 1) * sw)
  else ((idx - 1) * sw <=? n) && (n <? (idx - 1 + len) * sw).

Lemma cbit_slices k idx W sw rev V n : 0 <= n -> 0 < sw -> 1 <= idx ->
  (rev = true -> 0 <= W - (idx - 1 + Z.of_nat k) * sw) ->
  cbit (slices k idx W sw rev V) idx W sw rev n = Z.testbit V n && window idx W sw rev (Z.of_nat k) n.
Proof.
  intros Hn Hsw. revert idx. induction k as [|k IH]; intros idx Hidx Hpos; cbn [slices cbit].
  - unfold window. destruct rev; replace (idx - 1 + Z.of_nat 0) with (idx - 1) by lia.
    + replace ((W - (idx - 1) * sw <=? n) && (n <? W - (idx - 1) * sw)) with false by lia. now rewrite andb_false_r.
    + replace (((idx - 1) * sw <=? n) && (n <? (idx - 1) * sw)) with false by lia. now rewrite andb_false_r.
  - rewrite IH by (try lia; intros E; specialize (Hpos E); lia).
    set (P := sub_pos W idx sw rev).
    assert (HP : 0 <= P).
    { unfold P, sub_pos. destruct rev; [specialize (Hpos eq_refl)|]; nia. }
    assert (Hw : window idx W sw rev (Z.of_nat (S k)) n = ((P <=? n) && (n <? P + sw)) || window (idx + 1) W sw rev (Z.of_nat k) n).
    { unfold window, P, sub_pos. destruct rev; nia. }
    rewrite Hw. destruct (Z.leb_spec P n) as [Hle|Hlt].
    + rewrite testbit_getbits by lia. replace (n - P + P) with n by lia.
      cbn [andb]. replace (n - P <? sw) with (n <? P + sw) by lia.
      destruct (Z.testbit V n); cbn; [reflexivity|]. reflexivity.
    + rewrite Z.testbit_neg_r by lia. cbn. reflexivity.
Qed.

Lemma concat_slices k W sw rev V : 0 < sw -> Z.of_nat k * sw = W -> in_range W V ->
  concat (slices k 1 W sw rev V) 1 W sw rev 0 = V.
Proof.
  intros Hsw HW HV. apply Z.bits_inj'. intros n Hn.
  rewrite testbit_concat, Z.bits_0, cbit_slices by (try lia; intros _; nia). cbn [orb].
  unfold window. replace (1 - 1 + Z.of_nat k) with (Z.of_nat k) by lia.
  destruct (Z.ltb_spec n W).
  - destruct rev; [replace ((W - Z.of_nat k * sw <=? n) && (n <? W - (1 - 1) * sw)) with true by lia
                  |replace (((1 - 1) * sw <=? n) && (n <? Z.of_nat k * sw)) with true by lia]; now rewrite andb_true_r.
  - rewrite (small_bits V W n) by (assumption || lia). reflexivity.
Qed.

(* the sub-register is the slice of the concatenation *)
Lemma cbit_other vs idx W sw rev J m : 0 < sw -> Forall (in_range sw) vs -> 0 <= m < sw ->
  (J < idx \/ idx + Z.of_nat (length vs) <= J) ->
  cbit vs idx W sw rev (m + sub_pos W J sw rev) = false.
Proof.
  intros Hsw Hv Hm. revert idx. induction Hv as [|v t Hv0 Hv IH]; intros idx HJ; cbn [cbit length]; [reflexivity|].
  rewrite IH by (cbn [length] in HJ; lia). rewrite orb_false_r.
  assert (E : m + sub_pos W J sw rev - sub_pos W idx sw rev < 0 \/ sw <= m + sub_pos W J sw rev - sub_pos W idx sw rev).
  { cbn [length] in HJ. unfold sub_pos. destruct rev; nia. }
  destruct E as [E|E]; [now apply Z.testbit_neg_r|]. now apply small_bits with sw.
Qed.

Lemma cbit_at vs idx W sw rev j v m : 0 < sw -> Forall (in_range sw) vs -> 0 <= m < sw ->
  nth_error vs j = Some v ->
  cbit vs idx W sw rev (m + sub_pos W (idx + Z.of_nat j) sw rev) = Z.testbit v m.
Proof.
  intros Hsw Hv Hm. revert idx j. induction Hv as [|x t Hx Hv IH]; intros idx j Hj; [destruct j; discriminate|].
  destruct j as [|j]; cbn [nth_error] in Hj; cbn [cbit].
  - injection Hj as ->. replace (idx + Z.of_nat 0) with idx by lia.
    rewrite cbit_other by (try assumption; lia).
    rewrite orb_false_r. f_equal. lia.
  - replace (idx + Z.of_nat (S j)) with (idx + 1 + Z.of_nat j) by lia.
    rewrite IH by assumption.
    assert (E : m + sub_pos W (idx + 1 + Z.of_nat j) sw rev - sub_pos W idx sw rev < 0 \/
                sw <= m + sub_pos W (idx + 1 + Z.of_nat j) sw rev - sub_pos W idx sw rev).
    { unfold sub_pos. destruct rev; nia. }
    destruct E as [E|E]; [rewrite Z.testbit_neg_r by assumption|rewrite (small_bits x sw) by (assumption || lia)]; reflexivity.
Qed.

Lemma slice_of_concat vs W sw rev j v : 0 < sw -> Forall (in_range sw) vs ->
  (rev = true -> Z.of_nat (length vs) * sw <= W) ->
  nth_error vs j = Some v ->
  getbits (concat vs 1 W sw rev 0) (sub_pos W (1 + Z.of_nat j) sw rev) sw = v.
Proof.
  intros Hsw Hv HW Hj. apply Z.bits_inj'. intros m Hm.
  assert (Hlen : (j < length vs)%nat) by (apply nth_error_Some; congruence).
  assert (HP : 0 <= sub_pos W (1 + Z.of_nat j) sw rev).
  { unfold sub_pos. destruct rev; [specialize (HW eq_refl)|]; nia. }
  rewrite testbit_getbits by lia.
  destruct (Z.ltb_spec m sw).
  - rewrite testbit_concat, Z.bits_0 by lia. cbn [orb]. rewrite (cbit_at vs 1 W sw rev j v m) by (assumption || lia).
    now rewrite andb_true_r.
  - rewrite andb_false_r. symmetry. apply small_bits with sw; [|assumption].
    eapply Forall_forall in Hv; [exact Hv|]. eapply nth_error_In; eassumption.
Qed.

Lemma concat_range vs W sw rev : 0 < sw -> Forall (in_range sw) vs -> Z.of_nat (length vs) * sw <= W ->
  in_range W (concat vs 1 W sw rev 0).
Proof.
  intros Hsw Hv HW. split.
  - apply concat_nonneg; [lia|]. eapply Forall_impl; [|exact Hv]. unfold in_range. intros; lia.
  - apply bits_small; [nia| |].
    + apply concat_nonneg; [lia|]. eapply Forall_impl; [|exact Hv]. unfold in_range. intros; lia.
    + intros n Hn. rewrite testbit_concat, Z.bits_0 by nia. cbn [orb].
      assert (G : forall idx, 1 <= idx -> (idx - 1 + Z.of_nat (length vs)) * sw <= W -> cbit vs idx W sw rev n = false).
      { clear HW. induction Hv as [|x t Hx Hv IH]; intros idx Hi Hb; cbn [cbit]; [reflexivity|].
        cbn [length] in Hb. rewrite IH by lia. rewrite orb_false_r.
        apply small_bits with sw; [assumption|]. unfold sub_pos. destruct rev; nia. }
      apply G; lia.
Qed.

(* ---------------------------------------------------------------- group registers: model functions *)
Definition sview (raw : bool) (s : sreg) : Z := view (s_reverse s) raw (s_width s) (s_value s).
Definition sviews (raw : bool) (subs : list sreg) : list Z := map (sview raw) subs.

Lemma subs_get_ok big subs idx W sw rev raw acc : Forall wf_sreg subs ->
  subs_get big subs idx W sw rev raw acc = Ok (concat (sviews raw subs) idx W sw rev acc).
Proof.
  intros H. revert idx acc. induction H as [|s t Hs Ht IH]; intros idx acc; cbn [subs_get sviews map concat]; [reflexivity|].
  rewrite py_sub_pos_get_spec. cbn [bind]. rewrite sreg_get_ok by assumption. cbn [bind].
  rewrite py_sub_acc_spec. cbn [bind]. apply IH.
Qed.

Fixpoint subs_written (subs : list sreg) (idx aw sw : Z) (rev : bool) (V : Z) (raw : bool) : list sreg :=
  match subs with
  | [] => []
  | s :: t => set_value s (view (s_reverse s) raw (s_width s) (getbits V (sub_pos aw idx sw rev) sw))
              :: subs_written t (idx + 1) aw sw rev V raw
  end.

Lemma subs_set_ok subs idx aw sw rev V raw : Forall wf_sreg subs -> Forall (fun s => s_width s = sw) subs ->
  subs_set subs idx aw sw rev V raw = Ok (subs_written subs idx aw sw rev V raw).
Proof.
  intros H. revert idx. induction H as [|s t Hs Ht IH]; intros idx Hw; cbn [subs_set subs_written]; [reflexivity|].
  inversion Hw as [|? ? Hw0 Hwt]; subst.
  assert (0 < s_width s) by (destruct Hs; assumption).
  rewrite py_sub_pos_set_spec. cbn [bind]. rewrite py_sub_slice_spec by lia. cbn [bind].
  rewrite sreg_set_ok by (try assumption; apply getbits_range; lia). cbn [bind].
  rewrite IH by assumption. reflexivity.
Qed.

Lemma subs_written_wf subs idx aw sw rev V raw : Forall wf_sreg subs -> Forall (fun s => s_width s = sw) subs ->
  Forall wf_sreg (subs_written subs idx aw sw rev V raw) /\
  Forall (fun s => s_width s = sw) (subs_written subs idx aw sw rev V raw) /\
  length (subs_written subs idx aw sw rev V raw) = length subs.
Proof.
  intros H. revert idx. induction H as [|s t Hs Ht IH]; intros idx Hw; cbn [subs_written length]; [repeat split; constructor|].
  inversion Hw as [|? ? Hw0 Hwt]; subst.
  destruct (IH (idx + 1) Hwt) as (I1 & I2 & I3).
  pose proof Hs as (P1 & P2 & _).
  repeat split; try constructor; try assumption; try (cbn; lia).
  apply wf_set_value; [assumption|]. apply view_range; try assumption. apply getbits_range. lia.
Qed.

Lemma sviews_written subs idx aw sw rev V raw : Forall wf_sreg subs -> Forall (fun s => s_width s = sw) subs ->
  sviews raw (subs_written subs idx aw sw rev V raw) = slices (length subs) idx aw sw rev V.
Proof.
  intros H. revert idx. induction H as [|s t Hs Ht IH]; intros idx Hw; cbn [subs_written sviews map slices length]; [reflexivity|].
  inversion Hw as [|? ? Hw0 Hwt]; subst.
  pose proof Hs as (P1 & P2 & _).
  f_equal; [|apply IH; assumption].
  unfold sview. cbn. apply view_involutive; try assumption. apply getbits_range. lia.
Qed.

Lemma sviews_range raw subs sw : Forall wf_sreg subs -> Forall (fun s => s_width s = sw) subs ->
  Forall (in_range sw) (sviews raw subs).
Proof.
  intros H Hw. induction H as [|s t Hs Ht IH]; cbn; constructor; inversion Hw; subst.
  - destruct Hs as (P1 & P2 & _ & _ & P5 & _). unfold sview. now apply view_range.
  - now apply IH.
Qed.

(* what reg_set leaves behind *)
Definition reg_written (r : reg) (V : Z) (raw : bool) : reg :=
  let b := r_base r in
  let V' := view (s_reverse b) raw (s_width b) V in
  match r_subs r with
  | [] => set_base r (set_value b V')
  | s0 :: _ => set_subs_of r (subs_written (r_subs r) 1 (s_width b) (s_width s0) (r_rev_sub r) V' raw)
  end.

Lemma group_shape r s0 t : wf_reg r -> r_subs r = s0 :: t ->
  let sw := s_width s0 in
  0 < sw /\ Forall (fun s => s_width s = sw) (r_subs r) /\ Z.of_nat (length (r_subs r)) * sw = s_width (r_base r) /\
  Z.to_nat (s_width (r_base r) / sw) = length (r_subs r).
Proof.
  intros (Hb & Hs & Hg & _) E. cbn zeta.
  destruct Hg as (sw & Hw & Hlen); [rewrite E; discriminate|].
  assert (s_width s0 = sw) by (rewrite E in Hw; now inversion Hw).
  subst sw. assert (0 < s_width s0) by (rewrite E in Hs; inversion Hs as [|? ? (P & _) _]; assumption).
  repeat split; try assumption. rewrite <- Hlen, Z.div_mul by lia. lia.
Qed.

Lemma reg_set_ok r V raw : wf_reg r -> in_range (s_width (r_base r)) V -> reg_set r V raw = Ok (reg_written r V raw).
Proof.
  intros Hr HV. pose proof Hr as (Hb & Hs & _). pose proof Hb as (B1 & B2 & B3 & _).
  unfold reg_set, reg_written. rewrite B3, set_common_ok by assumption. cbn [bind].
  destruct (r_subs r) as [|s0 t] eqn:E; [reflexivity|].
  destruct (group_shape r s0 t Hr E) as (G1 & G2 & G3 & G4). rewrite E in *.
  rewrite G4, firstn_all, skipn_all.
  rewrite subs_set_ok by assumption. cbn [bind subs_zero]. now rewrite app_nil_r.
Qed.

Lemma reg_set_err r V raw : wf_reg r -> ~ in_range (s_width (r_base r)) V -> reg_set r V raw = Err 1%N.
Proof.
  intros ((B1 & _) & _) HV. unfold reg_set. rewrite set_common_err by (assumption || lia). reflexivity.
Qed.

Lemma reg_written_wf r V raw : wf_reg r -> in_range (s_width (r_base r)) V -> wf_reg (reg_written r V raw).
Proof.
  intros Hr HV. pose proof Hr as (Hb & Hs & Hg & Hz). pose proof Hb as (B1 & B2 & B3 & _).
  assert (HV' : in_range (s_width (r_base r)) (view (s_reverse (r_base r)) raw (s_width (r_base r)) V)) by now apply view_range.
  unfold reg_written. destruct (r_subs r) as [|s0 t] eqn:E.
  - unfold wf_reg. cbn. rewrite E. split; [now apply wf_set_value|]. split; [constructor|]. split; intros C; now destruct C.
  - destruct (group_shape r s0 t Hr E) as (G1 & G2 & G3 & G4). rewrite E in *.
    destruct (subs_written_wf (s0 :: t) 1 (s_width (r_base r)) (s_width s0) (r_rev_sub r)
                (view (s_reverse (r_base r)) raw (s_width (r_base r)) V) raw Hs G2) as (W1 & W2 & W3).
    unfold wf_reg. cbn [r_base r_subs set_subs_of]. split; [assumption|]. split; [assumption|].
    split; [|intros _; apply Hz; discriminate].
    intros _. exists (s_width s0). split; [assumption|]. rewrite W3. assumption.
Qed.

(* the value a register reads *)
Definition reg_stored (r : reg) (raw : bool) : Z :=
  match r_subs r with
  | [] => s_value (r_base r)
  | s0 :: _ => concat (sviews raw (r_subs r)) 1 (s_width (r_base r)) (s_width s0) (r_rev_sub r) 0
  end.

Lemma reg_stored_range r raw : wf_reg r -> in_range (s_width (r_base r)) (reg_stored r raw).
Proof.
  intros Hr. pose proof Hr as (Hb & Hs & _). unfold reg_stored. destruct (r_subs r) as [|s0 t] eqn:E.
  - now destruct Hb as (_ & _ & _ & _ & B5 & _).
  - destruct (group_shape r s0 t Hr E) as (G1 & G2 & G3 & G4). rewrite E in *.
    apply concat_range; [assumption|now apply sviews_range|]. unfold sviews. rewrite map_length. lia.
Qed.

Lemma reg_get_ok big r raw : wf_reg r ->
  reg_get big r raw = Ok (view (s_reverse (r_base r)) raw (s_width (r_base r)) (reg_stored r raw)).
Proof.
  intros Hr. pose proof Hr as (Hb & Hs & _). pose proof Hb as (B1 & B2 & B3 & _).
  pose proof (reg_stored_range r raw Hr) as HR.
  unfold reg_get, reg_raw_value, reg_stored in *. destruct (r_subs r) as [|s0 t] eqn:E; cbn [bind].
  - rewrite B3. now apply get_common_ok.
  - rewrite subs_get_ok by assumption. cbn [bind]. rewrite B3. now apply get_common_ok.
Qed.

Lemma reg_stored_written r V raw : wf_reg r -> in_range (s_width (r_base r)) V ->
  reg_stored (reg_written r V raw) raw = view (s_reverse (r_base r)) raw (s_width (r_base r)) V.
Proof.
  intros Hr HV. pose proof Hr as (Hb & Hs & _). pose proof Hb as (B1 & B2 & B3 & _).
  assert (HV' : in_range (s_width (r_base r)) (view (s_reverse (r_base r)) raw (s_width (r_base r)) V)) by now apply view_range.
  unfold reg_stored, reg_written. destruct (r_subs r) as [|s0 t] eqn:E.
  - cbn. rewrite E. reflexivity.
  - destruct (group_shape r s0 t Hr E) as (G1 & G2 & G3 & G4). rewrite E in *.
    cbn [r_subs r_base set_subs_of subs_written].
    change (set_value s0 (view (s_reverse s0) raw (s_width s0) (getbits (view (s_reverse (r_base r)) raw (s_width (r_base r)) V)
              (sub_pos (s_width (r_base r)) 1 (s_width s0) (r_rev_sub r)) (s_width s0)))
            :: subs_written t (1 + 1) (s_width (r_base r)) (s_width s0) (r_rev_sub r) (view (s_reverse (r_base r)) raw (s_width (r_base r)) V) raw)
      with (subs_written (s0 :: t) 1 (s_width (r_base r)) (s_width s0) (r_rev_sub r) (view (s_reverse (r_base r)) raw (s_width (r_base r)) V) raw).
    cbn [s_width set_value].
    rewrite sviews_written by assumption. now apply concat_slices.
Qed.

(* reg_get (reg_set r V raw) raw = V *)
Lemma reg_get_set big r V raw : wf_reg r -> in_range (s_width (r_base r)) V ->
  exists r', reg_set r V raw = Ok r' /\ wf_reg r' /\ reg_get big r' raw = Ok V /\
             s_width (r_base r') = s_width (r_base r) /\ s_reverse (r_base r') = s_reverse (r_base r).
Proof.
  intros Hr HV. pose proof Hr as (Hb & _). pose proof Hb as (B1 & B2 & _).
  exists (reg_written r V raw). split; [now apply reg_set_ok|].
  pose proof (reg_written_wf r V raw Hr HV) as Hw. split; [assumption|].
  assert (Ew : s_width (r_base (reg_written r V raw)) = s_width (r_base r) /\
               s_reverse (r_base (reg_written r V raw)) = s_reverse (r_base r)).
  { unfold reg_written. destruct (r_subs r); cbn; split; reflexivity. }
  destruct Ew as (Ew & Er). repeat split; try assumption.
  rewrite reg_get_ok by assumption. rewrite Ew, Er, reg_stored_written by assumption.
  now rewrite view_involutive.
Qed.

(* ====================================================================== E. the register file *)
Lemma nth_error_list_set_same {A} (l : list A) n x : (n < length l)%nat -> nth_error (list_set l n x) n = Some x.
Proof. revert n. induction l as [|h t IH]; intros [|n] H; cbn in *; try lia; [reflexivity|]. apply IH. lia. Qed.

Lemma nth_error_list_set_other {A} (l : list A) n m x : n <> m -> nth_error (list_set l n x) m = nth_error l m.
Proof. revert n m. induction l as [|h t IH]; intros [|n] [|m] H; cbn; try reflexivity; try congruence. apply IH. congruence. Qed.

Lemma list_set_length {A} (l : list A) n x : length (list_set l n x) = length l.
Proof. revert n. induction l as [|h t IH]; intros [|n]; cbn; try reflexivity. now rewrite IH. Qed.

Lemma Forall_list_set {A} (P : A -> Prop) l n x : Forall P l -> P x -> Forall P (list_set l n x).
Proof.
  intros H Hx. revert n. induction H as [|h t Hh Ht IH]; intros [|n]; cbn; try constructor; try assumption. apply IH.
Qed.

Lemma map_list_set {A B} (f : A -> B) l n x : map f (list_set l n x) = list_set (map f l) n (f x).
Proof. revert n. induction l as [|h t IH]; intros [|n]; cbn; try reflexivity. now rewrite IH. Qed.

Lemma list_set_same {A} (l : list A) n x : nth_error l n = Some x -> list_set l n x = l.
Proof. revert n. induction l as [|h t IH]; intros [|n] H; cbn in *; try discriminate; [now injection H as ->|]. now rewrite IH. Qed.

(* layout = everything but the stored values *)
Definition erase_s (s : sreg) : sreg := set_value s 0.
Definition erase_r (r : reg) : reg := mkReg (erase_s (r_base r)) (r_rev_sub r) (map erase_s (r_subs r)).
Definition erase (g : regs) : regs := mkRegs (g_big g) (map erase_r (g_regs g)).
Definition same_layout (g g' : regs) : Prop := erase g = erase g'.

Lemma erase_subs_written subs idx aw sw rev V raw : map erase_s (subs_written subs idx aw sw rev V raw) = map erase_s subs.
Proof. revert idx. induction subs as [|s t IH]; intros idx; cbn; [reflexivity|]. now rewrite IH. Qed.

Lemma erase_reg_written r V raw : erase_r (reg_written r V raw) = erase_r r.
Proof.
  unfold reg_written. destruct (r_subs r) as [|s0 t] eqn:E; unfold erase_r; cbn [r_base r_subs set_base set_subs_of r_rev_sub].
  - now rewrite E.
  - now rewrite erase_subs_written, E.
Qed.

Lemma t_sreg_erase g t : option_map erase_s (t_sreg g t) = t_sreg (erase g) t.
Proof.
  destruct t as [i|i j]; cbn [t_sreg erase g_regs]; rewrite nth_error_map.
  - destruct (nth_error (g_regs g) i); reflexivity.
  - destruct (nth_error (g_regs g) i) as [r|]; cbn; [|reflexivity]. rewrite nth_error_map.
    destruct (nth_error (r_subs r) j); reflexivity.
Qed.

Lemma same_layout_sreg g g' t s : same_layout g g' -> t_sreg g t = Some s ->
  exists s', t_sreg g' t = Some s' /\ erase_s s' = erase_s s.
Proof.
  intros H Hs. pose proof (t_sreg_erase g t) as E1. pose proof (t_sreg_erase g' t) as E2.
  rewrite Hs in E1. unfold same_layout in H. rewrite <- H, <- E1 in E2.
  destruct (t_sreg g' t) as [s'|]; cbn in E2; [|discriminate]. exists s'. split; [reflexivity|]. congruence.
Qed.

Lemma erase_s_fields s s' : erase_s s' = erase_s s ->
  s_fields s' = s_fields s /\ s_width s' = s_width s /\ s_reverse s' = s_reverse s /\ s_alt s' = s_alt s /\
  s_reset s' = s_reset s /\ s_name s' = s_name s /\ s_hex s' = s_hex s /\ s_hidden s' = s_hidden s /\ s_offset s' = s_offset s.
Proof. destruct s, s'. unfold erase_s, set_value. cbn. intros H. injection H. intros; subst. repeat split. Qed.

Lemma same_layout_field g g' t k : same_layout g g' -> t_field g' t k = t_field g t k.
Proof.
  intros H. unfold t_field. destruct (t_sreg g t) as [s|] eqn:Es.
  - destruct (same_layout_sreg g g' t s H Es) as (s' & -> & E). now destruct (erase_s_fields s s' E) as (-> & _).
  - destruct (t_sreg g' t) as [s'|] eqn:Es'; [|reflexivity].
    assert (H' : same_layout g' g) by (symmetry; exact H).
    destruct (same_layout_sreg g' g t s' H' Es') as (s & C & _). congruence.
Qed.

Lemma same_layout_refl g : same_layout g g. Proof. reflexivity. Qed.
Lemma same_layout_trans g1 g2 g3 : same_layout g1 g2 -> same_layout g2 g3 -> same_layout g1 g3.
Proof. unfold same_layout. congruence. Qed.

(* two references are unrelated when they live in different top-level registers *)
Definition top_of (t : ref) : nat := match t with Top i => i | Sub i _ => i end.

Lemma wf_regs_nth g i r : wf_regs g -> nth_error (g_regs g) i = Some r -> wf_reg r.
Proof. intros H E. eapply Forall_forall in H; [exact H|]. eapply nth_error_In; eassumption. Qed.

Lemma wf_sub_nth r j s : wf_reg r -> nth_error (r_subs r) j = Some s -> wf_sreg s.
Proof. intros (_ & H & _) E. eapply Forall_forall in H; [exact H|]. eapply nth_error_In; eassumption. Qed.

Lemma t_sreg_wf g t s : wf_regs g -> t_sreg g t = Some s -> wf_sreg s.
Proof.
  intros Hg. destruct t as [i|i j]; cbn [t_sreg].
  - destruct (nth_error (g_regs g) i) as [r|] eqn:E; cbn; [|discriminate]. intros H; injection H as <-.
    now destruct (wf_regs_nth g i r Hg E).
  - destruct (nth_error (g_regs g) i) as [r|] eqn:E; [|discriminate]. intros H.
    eapply wf_sub_nth; [eapply wf_regs_nth|]; eassumption.
Qed.

(* the value a reference reads *)
Lemma t_get_total g t s raw : wf_regs g -> t_sreg g t = Some s ->
  exists v, t_get g t raw = Ok v /\ in_range (s_width s) v.
Proof.
  intros Hg. destruct t as [i|i j]; cbn [t_sreg t_get].
  - destruct (nth_error (g_regs g) i) as [r|] eqn:E; cbn; [|discriminate]. intros H; injection H as <-.
    pose proof (wf_regs_nth g i r Hg E) as Hr. pose proof Hr as ((B1 & B2 & _) & _).
    eexists. split; [now apply reg_get_ok|]. apply view_range; try assumption. now apply reg_stored_range.
  - destruct (nth_error (g_regs g) i) as [r|] eqn:E; [|discriminate].
    destruct (nth_error (r_subs r) j) as [s'|] eqn:E'; [|discriminate]. intros H; injection H as <-.
    pose proof (wf_sub_nth r j s' (wf_regs_nth g i r Hg E) E') as Hs. pose proof Hs as (B1 & B2 & _ & _ & B5 & _).
    eexists. split; [now apply sreg_get_ok|]. now apply view_range.
Qed.

(* writing through a reference *)
Lemma t_set_ok g t s V raw : wf_regs g -> t_sreg g t = Some s -> in_range (s_width s) V ->
  exists g', t_set g t V raw = Ok g' /\ wf_regs g' /\ same_layout g g' /\ t_get g' t raw = Ok V /\
    (forall u r', top_of u <> top_of t -> t_get g' u r' = t_get g u r') /\
    (forall i j j' r', t = Sub i j -> j' <> j -> t_get g' (Sub i j') r' = t_get g (Sub i j') r').
Proof.
  intros Hg. destruct t as [i|i j]; cbn [t_sreg t_set t_get].
  - destruct (nth_error (g_regs g) i) as [r|] eqn:E; cbn [option_map]; [|discriminate]. intros H HV; injection H as <-.
    pose proof (wf_regs_nth g i r Hg E) as Hr.
    assert (Hi : (i < length (g_regs g))%nat) by (apply nth_error_Some; congruence).
    destruct (reg_get_set (g_big g) r V raw Hr HV) as (r' & S1 & S2 & S3 & S4 & S5).
    rewrite S1. cbn [bind]. eexists. split; [reflexivity|].
    split; [apply Forall_list_set; assumption|].
    split.
    { unfold same_layout, erase. cbn [g_big g_regs set_regs]. f_equal. rewrite map_list_set.
      rewrite reg_set_ok in S1 by assumption. injection S1 as <-. rewrite erase_reg_written.
      symmetry. apply list_set_same. rewrite nth_error_map, E. reflexivity. }
    split; [cbn [g_regs g_big set_regs]; now rewrite nth_error_list_set_same|].
    split.
    + intros u r0 Hu. destruct u as [i'|i' j']; cbn [top_of] in Hu; cbn [t_get g_regs g_big set_regs];
        rewrite nth_error_list_set_other by congruence; reflexivity.
    + intros; discriminate.
  - destruct (nth_error (g_regs g) i) as [r|] eqn:E; [|discriminate].
    destruct (nth_error (r_subs r) j) as [s'|] eqn:E'; [|discriminate]. intros H HV; injection H as <-.
    pose proof (wf_regs_nth g i r Hg E) as Hr. pose proof (wf_sub_nth r j s' Hr E') as Hs.
    assert (Hi : (i < length (g_regs g))%nat) by (apply nth_error_Some; congruence).
    assert (Hj : (j < length (r_subs r))%nat) by (apply nth_error_Some; congruence).
    destruct (sreg_get_set (g_big g) s' V raw Hs HV) as (s2 & S1 & S2 & S3 & S4).
    rewrite S1. cbn [bind]. eexists. split; [reflexivity|].
    split.
    { apply Forall_list_set; [assumption|]. destruct Hr as (R1 & R2 & R3 & R4). unfold wf_reg. cbn [r_base r_subs set_subs_of].
      split; [assumption|]. split; [apply Forall_list_set; assumption|].
      split; [|intros _; apply R4; intros C; rewrite C in E'; destruct j; discriminate].
      intros _. destruct R3 as (sw & W1 & W2); [intros C; rewrite C in E'; destruct j; discriminate|].
      exists sw. split; [|now rewrite list_set_length].
      apply Forall_list_set; [assumption|]. rewrite S4. eapply Forall_forall in W1; [exact W1|]. eapply nth_error_In; eassumption. }
    split.
    { unfold same_layout, erase. cbn [g_big g_regs set_regs]. f_equal. rewrite map_list_set.
      symmetry. apply list_set_same. rewrite nth_error_map, E. cbn [option_map]. unfold erase_r. cbn [r_base r_subs set_subs_of r_rev_sub].
      f_equal. f_equal. rewrite map_list_set. symmetry. apply list_set_same. rewrite nth_error_map, E'. cbn [option_map]. f_equal.
      rewrite sreg_set_ok in S1 by assumption. injection S1 as <-. reflexivity. }
    split; [cbn [g_regs g_big set_regs]; rewrite nth_error_list_set_same by assumption; cbn [r_subs set_subs_of];
            now rewrite nth_error_list_set_same|].
    split.
    + intros u r0 Hu. destruct u as [i'|i' j']; cbn [top_of] in Hu; cbn [t_get g_regs g_big set_regs];
        rewrite nth_error_list_set_other by congruence; reflexivity.
    + intros i0 j0 j' r0 Ht Hne. injection Ht as <- <-. cbn [t_get g_regs g_big set_regs].
      rewrite nth_error_list_set_same by assumption. rewrite E. cbn [r_subs set_subs_of].
      rewrite nth_error_list_set_other by congruence. reflexivity.
Qed.

Lemma t_set_err g t s V raw : wf_regs g -> t_sreg g t = Some s -> ~ in_range (s_width s) V -> t_set g t V raw = Err 1%N.
Proof.
  intros Hg. destruct t as [i|i j]; cbn [t_sreg t_set].
  - destruct (nth_error (g_regs g) i) as [r|] eqn:E; cbn [option_map]; [|discriminate]. intros H HV; injection H as <-.
    rewrite reg_set_err by (try assumption; eapply wf_regs_nth; eassumption). reflexivity.
  - destruct (nth_error (g_regs g) i) as [r|] eqn:E; [|discriminate].
    destruct (nth_error (r_subs r) j) as [s'|] eqn:E'; [|discriminate]. intros H HV; injection H as <-.
    rewrite sreg_set_err; [reflexivity| |assumption]. eapply wf_sub_nth; [eapply wf_regs_nth|]; eassumption.
Qed.

Lemma t_set_none g t V raw : t_sreg g t = None -> t_set g t V raw = Err 1%N.
Proof.
  destruct t as [i|i j]; cbn [t_sreg t_set].
  - destruct (nth_error (g_regs g) i); cbn; [discriminate|reflexivity].
  - destruct (nth_error (g_regs g) i) as [r|]; [|reflexivity]. destruct (nth_error (r_subs r) j); [discriminate|reflexivity].
Qed.

(* any successful write keeps the file well-formed and the layout unchanged *)
Lemma t_set_wf g t V raw g' : wf_regs g -> t_set g t V raw = Ok g' -> wf_regs g' /\ same_layout g g'.
Proof.
  intros Hg H. destruct (t_sreg g t) as [s|] eqn:Es.
  - destruct (Z_lt_dec V 0) as [Hn|Hn]; [rewrite (t_set_err g t s) in H by (unfold in_range; (assumption || lia)); discriminate|].
    destruct (Z_lt_dec V (2 ^ s_width s)) as [Hl|Hl];
      [|rewrite (t_set_err g t s) in H by (unfold in_range; (assumption || lia)); discriminate].
    destruct (t_set_ok g t s V raw Hg Es) as (g2 & S1 & S2 & S3 & _); [unfold in_range; lia|].
    rewrite S1 in H. injection H as <-. split; assumption.
  - rewrite t_set_none in H by assumption. discriminate.
Qed.

(* ====================================================================== F. bit-fields *)
Definition pre_of (f : field) (x : Z) (nopre : bool) : Z := if nopre then x else cp_pre (f_proc f) (f_count f) x.
Definition post_of (f : field) (p : Z) : Z := cp_post (f_proc f) (f_count f) p.
Definition fbits (f : field) (rv : Z) : Z := getbits rv (f_off f) (f_width f).
Definition fields_disjoint (f f' : field) : Prop := f_off f + f_width f <= f_off f' \/ f_off f' + f_width f' <= f_off f.

Lemma t_field_wf g t k f s : wf_regs g -> t_sreg g t = Some s -> t_field g t k = Some f -> wf_field (s_width s) f.
Proof.
  intros Hg Hs Hf. unfold t_field in Hf. rewrite Hs in Hf.
  destruct (t_sreg_wf g t s Hg Hs) as (_ & _ & _ & F & _).
  eapply Forall_forall in F; [exact F|]. eapply nth_error_In; eassumption.
Qed.

Lemma f_get_of g t k f rv : t_field g t k = Some f -> 0 < f_width f -> t_get g t false = Ok rv ->
  f_get g t k = Ok (post_of f (fbits f rv)).
Proof.
  intros Hf Hw Hg. unfold f_get. rewrite Hf, Hg. cbn [bind]. unfold field_of. rewrite py_bf_get_spec by lia. reflexivity.
Qed.

Lemma f_set_int_ok g t k f s x raw nopre : wf_regs g -> t_sreg g t = Some s -> t_field g t k = Some f ->
  in_range (f_width f) (pre_of f x nopre) ->
  exists g' rv, t_get g t raw = Ok rv /\ in_range (s_width s) rv /\
    f_set_int g t k x raw nopre = Ok g' /\ wf_regs g' /\ same_layout g g' /\
    t_get g' t raw = Ok (setbits rv (f_off f) (f_width f) (pre_of f x nopre)) /\
    (forall u r', top_of u <> top_of t -> t_get g' u r' = t_get g u r') /\
    (forall i j j' r', t = Sub i j -> j' <> j -> t_get g' (Sub i j') r' = t_get g (Sub i j') r').
Proof.
  intros Hg Hs Hf Hp. destruct (t_field_wf g t k f s Hg Hs Hf) as (F1 & F2 & F3 & F4).
  destruct (t_get_total g t s raw Hg Hs) as (rv & G1 & G2).
  assert (HR : in_range (s_width s) (setbits rv (f_off f) (f_width f) (pre_of f x nopre))).
  { apply setbits_range; (assumption || lia). }
  destruct (t_set_ok g t s _ raw Hg Hs HR) as (g' & S1 & S2 & S3 & S4 & S5 & S6).
  exists g', rv. split; [assumption|]. split; [assumption|].
  split; [|repeat split; assumption].
  unfold f_set_int. rewrite Hf, G1. cbn [bind]. rewrite py_bf_set_spec by lia. cbv zeta.
  fold (pre_of f x nopre). rewrite (out_of_range_false _ _ Hp). cbn [bind]. exact S1.
Qed.

Lemma f_set_int_err g t k f s x raw nopre : wf_regs g -> t_sreg g t = Some s -> t_field g t k = Some f ->
  ~ in_range (f_width f) (pre_of f x nopre) -> f_set_int g t k x raw nopre = Err 1%N.
Proof.
  intros Hg Hs Hf Hp. destruct (t_field_wf g t k f s Hg Hs Hf) as (F1 & F2 & F3 & F4).
  destruct (t_get_total g t s raw Hg Hs) as (rv & G1 & G2).
  unfold f_set_int. rewrite Hf, G1. cbn [bind]. rewrite py_bf_set_spec by lia. cbv zeta.
  fold (pre_of f x nopre). rewrite (out_of_range_true _ _ Hp). reflexivity.
Qed.

(* any successful bit-field write keeps the file well-formed *)
Lemma f_set_int_wf g t k x raw nopre g' : wf_regs g -> f_set_int g t k x raw nopre = Ok g' -> wf_regs g' /\ same_layout g g'.
Proof.
  intros Hg H. unfold f_set_int in H. destruct (t_field g t k) as [f|]; [|discriminate].
  destruct (t_get g t raw) as [rv|]; [|discriminate]. cbn [bind] in H.
  destruct (py_bf_set x rv (f_off f) (f_width f) (f_proc f) (f_count f) nopre) as [rv'|]; [|discriminate]. cbn [bind] in H.
  eapply t_set_wf; eassumption.
Qed.

Lemma field_get_set_lemma g t k f s x nopre : wf_regs g -> t_sreg g t = Some s -> t_field g t k = Some f ->
  in_range (f_width f) (pre_of f x nopre) ->
  exists g', f_set_int g t k x false nopre = Ok g' /\ wf_regs g' /\ same_layout g g' /\
             f_get g' t k = Ok (post_of f (pre_of f x nopre)) /\
             (forall k' f', t_field g t k' = Some f' -> fields_disjoint f f' -> f_get g' t k' = f_get g t k') /\
             (forall u, top_of u <> top_of t -> (forall r', t_get g' u r' = t_get g u r') /\ (forall k', f_get g' u k' = f_get g u k')) /\
             (forall i j j', t = Sub i j -> j' <> j ->
                (forall r', t_get g' (Sub i j') r' = t_get g (Sub i j') r') /\ (forall k', f_get g' (Sub i j') k' = f_get g (Sub i j') k')).
Proof.
  intros Hg Hs Hf Hp. destruct (t_field_wf g t k f s Hg Hs Hf) as (F1 & F2 & F3 & F4).
  destruct (f_set_int_ok g t k f s x false nopre Hg Hs Hf Hp) as (g' & rv & G1 & G2 & S1 & S2 & S3 & S4 & S5 & S6).
  exists g'. split; [assumption|]. split; [assumption|]. split; [assumption|].
  assert (Hf' : forall k', t_field g' t k' = t_field g t k') by (intros; now apply same_layout_field).
  split.
  { rewrite (f_get_of g' t k f _ (eq_trans (Hf' k) Hf) F2 S4). unfold fbits. rewrite getbits_setbits_same by (assumption || lia). reflexivity. }
  split.
  { intros k' f' Hk' Hd. destruct (t_field_wf g t k' f' s Hg Hs Hk') as (E1 & E2 & E3 & E4).
    rewrite (f_get_of g' t k' f' _ (eq_trans (Hf' k') Hk') E2 S4).
    rewrite (f_get_of g t k' f' rv Hk' E2 G1). unfold fbits.
    rewrite getbits_setbits_disjoint by (unfold fields_disjoint in Hd; lia). reflexivity. }
  split.
  { intros u Hu. split; [intros; now apply S5|]. intros k'. unfold f_get. rewrite (same_layout_field g g' u k' S3).
    now rewrite S5. }
  intros i j j' Ht Hne. split; [intros; now apply (S6 i j)|]. intros k'. unfold f_get. rewrite (same_layout_field g g' (Sub i j') k' S3).
  now rewrite (S6 i j).
Qed.

(* whole-register write defines every bit-field *)
Lemma reg_write_fields_lemma g t s V : wf_regs g -> t_sreg g t = Some s -> in_range (s_width s) V ->
  exists g', t_set g t V false = Ok g' /\ wf_regs g' /\ same_layout g g' /\ t_get g' t false = Ok V /\
             forall k f, t_field g t k = Some f -> f_get g' t k = Ok (post_of f (fbits f V)).
Proof.
  intros Hg Hs HV. destruct (t_set_ok g t s V false Hg Hs HV) as (g' & S1 & S2 & S3 & S4 & _).
  exists g'. repeat split; try assumption. intros k f Hf.
  destruct (t_field_wf g t k f s Hg Hs Hf) as (F1 & F2 & _).
  apply f_get_of; try assumption. now rewrite (same_layout_field g g' t k S3).
Qed.

(* ---------------------------------------------------------------- grouped views *)
Lemma group_views_lemma g i r s0 tl raw V : wf_regs g -> nth_error (g_regs g) i = Some r -> r_subs r = s0 :: tl ->
  t_get g (Top i) raw = Ok V ->
  let b := r_base r in
  let C := view (s_reverse b) raw (s_width b) V in
  in_range (s_width b) V /\
  forall j s, nth_error (r_subs r) j = Some s ->
    t_get g (Sub i j) raw = Ok (view (s_reverse s) raw (s_width s0) (s_value s)) /\
    getbits C (sub_pos (s_width b) (1 + Z.of_nat j) (s_width s0) (r_rev_sub r)) (s_width s0)
      = view (s_reverse s) raw (s_width s0) (s_value s).
Proof.
  intros Hg E Es HV. cbv zeta. pose proof (wf_regs_nth g i r Hg E) as Hr.
  pose proof Hr as (Hb & Hsubs & _). pose proof Hb as (B1 & B2 & _).
  destruct (group_shape r s0 tl Hr Es) as (G1 & G2 & G3 & G4).
  cbn [t_get] in HV. rewrite E, reg_get_ok in HV by assumption. injection HV as <-.
  pose proof (reg_stored_range r raw Hr) as HR.
  split; [now apply view_range|].
  rewrite view_involutive by assumption.
  intros j s Hj. pose proof (wf_sub_nth r j s Hr Hj) as Hs.
  assert (Ew : s_width s = s_width s0) by (eapply Forall_forall in G2; [exact G2|eapply nth_error_In; eassumption]).
  split.
  - cbn [t_get]. rewrite E, Hj, sreg_get_ok by assumption. now rewrite Ew.
  - unfold reg_stored. rewrite Es. rewrite <- Es.
    apply slice_of_concat; [assumption|now apply sviews_range| |].
    + intros _. unfold sviews. rewrite map_length. lia.
    + unfold sviews. rewrite nth_error_map, Hj. cbn. unfold sview. now rewrite Ew.
Qed.

(* ====================================================================== G. operation sequences *)
Definition keeps (g g' : regs) : Prop := wf_regs g' /\ same_layout g g'.

Lemma keeps_refl g : wf_regs g -> keeps g g.
Proof. intros; split; [assumption|reflexivity]. Qed.
Lemma keeps_trans g1 g2 g3 : keeps g1 g2 -> keeps g2 g3 -> keeps g1 g3.
Proof. intros (A1 & A2) (B1 & B2). split; [assumption|eapply same_layout_trans; eassumption]. Qed.

Lemma f_set_wf g t k v raw nopre g' : wf_regs g -> f_set g t k v raw nopre = Ok g' -> keeps g g'.
Proof.
  intros Hg H. unfold f_set in H. destruct (t_field g t k); [|discriminate].
  destruct (to_int v) as [x|]; [|discriminate]. cbn [bind] in H. eapply f_set_int_wf; eassumption.
Qed.

Lemma f_set_enum_wf g t k v raw g' : wf_regs g -> f_set_enum g t k v raw = Ok g' -> keeps g g'.
Proof.
  intros Hg H. unfold f_set_enum in H. destruct (t_field g t k) as [f|]; [|discriminate].
  destruct v as [z|l|s|l|e];
    try (destruct (to_int _) as [x|]; [|discriminate]; cbn [bind] in H; eapply f_set_int_wf; eassumption).
  destruct (enum_const (f_enums f) s) as [c|]; [eapply f_set_int_wf; eassumption|].
  destruct (starts_raw s).
  - destruct (value_to_int_str (skipn 4 s)) as [x|]; [|discriminate]. cbn [bind] in H. eapply f_set_int_wf; eassumption.
  - destruct (value_to_int_str s) as [x|]; [|discriminate]. cbn [bind] in H. eapply f_set_int_wf; eassumption.
Qed.

Lemma t_reset_wf g t raw g' : wf_regs g -> t_reset g t raw = Ok g' -> keeps g g'.
Proof. intros Hg H. unfold t_reset in H. destruct (t_sreg g t); [|discriminate]. eapply t_set_wf; eassumption. Qed.

Lemma reset_all_from_wf n : forall g i g', wf_regs g -> reset_all_from g i n = Ok g' -> keeps g g'.
Proof.
  induction n as [|n IH]; intros g i g' Hg H; cbn [reset_all_from] in H.
  - injection H as <-. now apply keeps_refl.
  - destruct (nth_error (g_regs g) i) as [r|]; [|injection H as <-; now apply keeps_refl].
    destruct (s_hidden (r_base r)); [eapply IH; eassumption|].
    destruct (t_reset g (Top i) true) as [g1|] eqn:E; [|discriminate]. cbn [bind] in H.
    pose proof (t_reset_wf g (Top i) true g1 Hg E) as K. eapply keeps_trans; [exact K|]. eapply IH; [apply K|eassumption].
Qed.

Lemma parse_from_wf bin n : forall g i g', wf_regs g -> parse_from g bin i n = Ok g' -> keeps g g'.
Proof.
  induction n as [|n IH]; intros g i g' Hg H; cbn [parse_from] in H.
  - injection H as <-. now apply keeps_refl.
  - destruct (nth_error (g_regs g) i) as [r|]; [|injection H as <-; now apply keeps_refl].
    destruct (s_hidden (r_base r)); [eapply IH; eassumption|].
    destruct (zlen bin <? s_offset (r_base r) + s_width (r_base r) / 8); [injection H as <-; now apply keeps_refl|].
    match type of H with bind ?X _ = _ => destruct X as [g1|] eqn:E end; [|discriminate]. cbn [bind] in H.
    pose proof (t_set_wf _ _ _ _ _ Hg E) as K. eapply keeps_trans; [exact K|]. eapply IH; [apply K|eassumption].
Qed.

Lemma load_fields_wf t l : forall g, wf_regs g -> keeps g (fst (load_fields g t l)).
Proof.
  induction l as [|(k, v) rest IH]; intros g Hg; cbn [load_fields]; [now apply keeps_refl|].
  destruct (t_field g t k); [|now apply keeps_refl].
  destruct (f_set_enum g t k v true) as [g1|] eqn:E; [|now apply keeps_refl].
  pose proof (f_set_enum_wf _ _ _ _ _ _ Hg E) as K. eapply keeps_trans; [exact K|]. apply IH, K.
Qed.

Lemma load_entry_wf g t e : wf_regs g -> keeps g (fst (load_entry g t e)).
Proof.
  intros Hg. unfold load_entry. destruct (t_sreg g t) as [s|]; [|now apply keeps_refl].
  destruct e as [v|l].
  - destruct (cfg_value (s_hex s) v) as [x|]; cbn [bind]; [|now apply keeps_refl].
    destruct (t_set g t x false) as [g1|] eqn:E; cbn [fst]; [|now apply keeps_refl]. eapply t_set_wf; eassumption.
  - pose proof (load_fields_wf t l g Hg) as K. destruct (load_fields g t l) as (g1, [u|e]); cbn [fst] in *; [|assumption].
    destruct (t_get g1 t true) as [x|]; cbn [bind]; [|assumption].
    destruct (t_set g1 t x false) as [g2|] eqn:E; cbn [fst]; [|assumption].
    eapply keeps_trans; [exact K|]. eapply t_set_wf; [apply K|eassumption].
Qed.

Lemma load_cfg_wf c : forall g, wf_regs g -> keeps g (fst (load_cfg g c)).
Proof.
  induction c as [|(t, e) rest IH]; intros g Hg; cbn [load_cfg]; [now apply keeps_refl|].
  pose proof (load_entry_wf g t e Hg) as K. destruct (load_entry g t e) as (g1, [u|k]); cbn [fst] in *; [|assumption].
  eapply keeps_trans; [exact K|]. apply IH, K.
Qed.

Lemma vunit_keeps g r : wf_regs g -> (forall g', r = Ok g' -> keeps g g') -> keeps g (fst (vunit g r)).
Proof. intros Hg H. destruct r as [g'|k]; cbn; [now apply H|now apply keeps_refl]. Qed.

Lemma step_keeps init g o : wf_regs g -> keeps g (fst (step init g o)).
Proof.
  intros Hg. destruct o; cbn [step]; try (cbn [fst]; now apply keeps_refl); try apply vunit_keeps; try assumption.
  - intros g' H. destruct (to_int v) as [x|]; [|discriminate]. cbn [bind] in H. eapply t_set_wf; eassumption.
  - intros g' H. eapply f_set_wf; eassumption.
  - intros g' H. eapply f_set_enum_wf; eassumption.
  - intros g' H. eapply t_reset_wf; eassumption.
  - intros g' H. eapply reset_all_from_wf; eassumption.
  - intros g' H. eapply parse_from_wf; eassumption.
  - intros g' H. destruct (export g) as [b0|]; [|discriminate]. cbn [bind] in H. eapply parse_from_wf; eassumption.
  - pose proof (load_cfg_wf c g Hg) as K. destruct (load_cfg g c) as (g1, [u|k]); cbn [fst] in *; assumption.
Qed.

Lemma run_keeps init ops : forall g, wf_regs g -> keeps g (run init g ops).
Proof.
  induction ops as [|o rest IH]; intros g Hg; cbn [run]; [now apply keeps_refl|].
  pose proof (step_keeps init g o Hg) as K. eapply keeps_trans; [exact K|]. apply IH, K.
Qed.

Lemma queries_pure_lemma init g o : is_query o = true -> fst (step init g o) = g.
Proof.
  destruct o; cbn [is_query]; try discriminate; intros _; cbn [step fst]; reflexivity.
Qed.

Lemma rejected_keeps_state_lemma init g o k : (forall c, o <> OLoadCfg c) ->
  snd (step init g o) = VErr k -> fst (step init g o) = g.
Proof.
  intros Hc. destruct o; try (intros _; apply queries_pure_lemma; reflexivity); cbn [step];
    try (unfold vunit; match goal with |- context [match ?r with Ok _ => _ | Err _ => _ end] => destruct r end; cbn; [discriminate|reflexivity]).
  exfalso. now apply (Hc c).
Qed.

(* ====================================================================== H. statements at the level of `step` *)
Lemma reachable_wf g0 ops : wf_regs g0 -> wf_regs (run g0 g0 ops) /\ same_layout g0 (run g0 g0 ops).
Proof. intros H. exact (run_keeps g0 ops g0 H). Qed.

Lemma step_set_field_ok init g t k f s v x nopre : wf_regs g -> t_sreg g t = Some s -> t_field g t k = Some f ->
  to_int v = Ok x -> in_range (f_width f) (pre_of f x nopre) ->
  exists g', step init g (OSetField t k v false nopre) = (g', VList []) /\ wf_regs g' /\ same_layout g g' /\
             f_get g' t k = Ok (post_of f (pre_of f x nopre)) /\
             (forall k' f', t_field g t k' = Some f' -> fields_disjoint f f' -> f_get g' t k' = f_get g t k') /\
             (forall u, top_of u <> top_of t -> (forall r', t_get g' u r' = t_get g u r') /\ (forall k', f_get g' u k' = f_get g u k')) /\
             (forall i j j', t = Sub i j -> j' <> j ->
                (forall r', t_get g' (Sub i j') r' = t_get g (Sub i j') r') /\ (forall k', f_get g' (Sub i j') k' = f_get g (Sub i j') k')).
Proof.
  intros Hg Hs Hf Hv Hp. destruct (field_get_set_lemma g t k f s x nopre Hg Hs Hf Hp) as (g' & S1 & R).
  exists g'. split; [|exact R]. cbn [step]. unfold f_set. rewrite Hf, Hv. cbn [bind]. rewrite S1. reflexivity.
Qed.

Lemma step_set_enum_ok init g t k f s name c : wf_regs g -> t_sreg g t = Some s -> t_field g t k = Some f ->
  enum_const (f_enums f) name = Some c -> in_range (f_width f) (pre_of f c false) ->
  exists g', step init g (OSetEnum t k (VStr name) false) = (g', VList []) /\ wf_regs g' /\
             f_get g' t k = Ok (post_of f (pre_of f c false)).
Proof.
  intros Hg Hs Hf Hc Hp. destruct (field_get_set_lemma g t k f s c false Hg Hs Hf Hp) as (g' & S1 & S2 & _ & S4 & _).
  exists g'. split; [|split; assumption]. cbn [step]. unfold f_set_enum. rewrite Hf, Hc, S1. reflexivity.
Qed.

Lemma step_set_field_rejects init g t k f s v x raw nopre : wf_regs g -> t_sreg g t = Some s -> t_field g t k = Some f ->
  to_int v = Ok x -> ~ in_range (f_width f) (pre_of f x nopre) ->
  step init g (OSetField t k v raw nopre) = (g, VErr 1%N).
Proof.
  intros Hg Hs Hf Hv Hp. cbn [step]. unfold f_set. rewrite Hf, Hv. cbn [bind].
  rewrite (f_set_int_err g t k f s) by assumption. reflexivity.
Qed.

Lemma step_set_field_unparsable init g t k f v e raw nopre : t_field g t k = Some f -> to_int v = Err e ->
  step init g (OSetField t k v raw nopre) = (g, VErr e).
Proof. intros Hf Hv. cbn [step]. unfold f_set. rewrite Hf, Hv. reflexivity. Qed.

Lemma step_set_reg_ok init g t s v x raw : wf_regs g -> t_sreg g t = Some s -> to_int v = Ok x -> in_range (s_width s) x ->
  exists g', step init g (OSetReg t v raw) = (g', VList []) /\ wf_regs g' /\ same_layout g g' /\ t_get g' t raw = Ok x /\
    (forall u r', top_of u <> top_of t -> t_get g' u r' = t_get g u r') /\
    (forall i j j' r', t = Sub i j -> j' <> j -> t_get g' (Sub i j') r' = t_get g (Sub i j') r').
Proof.
  intros Hg Hs Hv Hx. destruct (t_set_ok g t s x raw Hg Hs Hx) as (g' & S1 & R). exists g'. split; [|exact R].
  cbn [step]. rewrite Hv. cbn [bind]. rewrite S1. reflexivity.
Qed.

Lemma step_set_reg_rejects init g t s v x raw : wf_regs g -> t_sreg g t = Some s -> to_int v = Ok x -> ~ in_range (s_width s) x ->
  step init g (OSetReg t v raw) = (g, VErr 1%N).
Proof.
  intros Hg Hs Hv Hx. cbn [step]. rewrite Hv. cbn [bind]. rewrite (t_set_err g t s) by assumption. reflexivity.
Qed.

Lemma step_set_reg_fields init g t s v x : wf_regs g -> t_sreg g t = Some s -> to_int v = Ok x -> in_range (s_width s) x ->
  exists g', step init g (OSetReg t v false) = (g', VList []) /\ wf_regs g' /\
             forall k f, t_field g t k = Some f -> f_get g' t k = Ok (post_of f (fbits f x)).
Proof.
  intros Hg Hs Hv Hx. destruct (reg_write_fields_lemma g t s x Hg Hs Hx) as (g' & S1 & S2 & _ & _ & S5).
  exists g'. split; [|split; assumption]. cbn [step]. rewrite Hv. cbn [bind]. rewrite S1. reflexivity.
Qed.

(* writing the group defines the sub-registers; writing a sub-register is seen through the group *)
Lemma group_write_lemma init g i r s0 tl v x raw : wf_regs g -> nth_error (g_regs g) i = Some r -> r_subs r = s0 :: tl ->
  to_int v = Ok x -> in_range (s_width (r_base r)) x ->
  exists g', step init g (OSetReg (Top i) v raw) = (g', VList []) /\ wf_regs g' /\ t_get g' (Top i) raw = Ok x /\
    forall j, (j < length (r_subs r))%nat ->
      t_get g' (Sub i j) raw =
        Ok (getbits (view (s_reverse (r_base r)) raw (s_width (r_base r)) x)
                    (sub_pos (s_width (r_base r)) (1 + Z.of_nat j) (s_width s0) (r_rev_sub r)) (s_width s0)).
Proof.
  intros Hg E Es Hv Hx.
  assert (Hs : t_sreg g (Top i) = Some (r_base r)) by (cbn [t_sreg]; now rewrite E).
  destruct (step_set_reg_ok init g (Top i) (r_base r) v x raw Hg Hs Hv Hx) as (g' & S1 & S2 & S3 & S4 & _).
  exists g'. split; [assumption|]. split; [assumption|]. split; [assumption|].
  intros j Hj.
  (* the register after the write *)
  cbn [step] in S1. rewrite Hv in S1. cbn [bind t_set] in S1. rewrite E in S1.
  pose proof (wf_regs_nth g i r Hg E) as Hr.
  rewrite reg_set_ok in S1 by assumption. cbn [bind vunit] in S1. injection S1 as <-.
  assert (Hi : (i < length (g_regs g))%nat) by (apply nth_error_Some; congruence).
  assert (E' : nth_error (g_regs (set_regs g (list_set (g_regs g) i (reg_written r x raw)))) i = Some (reg_written r x raw))
    by (cbn [g_regs set_regs]; now apply nth_error_list_set_same).
  assert (Es' : r_subs (reg_written r x raw) =
                subs_written (r_subs r) 1 (s_width (r_base r)) (s_width s0) (r_rev_sub r)
                             (view (s_reverse (r_base r)) raw (s_width (r_base r)) x) raw).
  { unfold reg_written. rewrite Es. reflexivity. }
  destruct (group_shape r s0 tl Hr Es) as (G1 & G2 & G3 & G4).
  pose proof Hr as (_ & Hsubs & _).
  destruct (subs_written_wf (r_subs r) 1 (s_width (r_base r)) (s_width s0) (r_rev_sub r)
              (view (s_reverse (r_base r)) raw (s_width (r_base r)) x) raw Hsubs G2) as (W1 & W2 & W3).
  destruct (nth_error (r_subs (reg_written r x raw)) j) as [s|] eqn:Ej;
    [|apply nth_error_None in Ej; rewrite Es', W3 in Ej; lia].
  destruct (r_subs (reg_written r x raw)) as [|s0' tl'] eqn:Es2; [destruct j; discriminate|].
  assert (Ew0 : s_width s0' = s_width s0).
  { rewrite <- Es' in W2. now inversion W2. }
  assert (Eb : r_base (reg_written r x raw) = r_base r /\ r_rev_sub (reg_written r x raw) = r_rev_sub r).
  { unfold reg_written. rewrite Es. cbn. split; reflexivity. }
  destruct Eb as (Eb & Erv).
  destruct (group_views_lemma _ i (reg_written r x raw) s0' tl' raw x S2 E' Es2 S4) as (_ & V).
  rewrite Es2 in V. destruct (V j s Ej) as (V1 & V2).
  rewrite V1, <- V2, Eb, Erv, Ew0. reflexivity.
Qed.

(* ---------------------------------------------------------------- decidable well-formedness (for examples) *)
Definition wf_field_b (W : Z) (f : field) : bool :=
  (0 <=? f_off f) && (0 <? f_width f) && (f_off f + f_width f <=? W) && (0 <=? f_count f).
Definition alts_ok_b (allow : bool) (W : Z) (alts : list Z) : bool :=
  if allow then forallb (fun a => (0 <? a) && (a <=? W) && (a mod 8 =? 0)) alts else match alts with [] => true | _ => false end.
Definition wf_sreg_b (allow : bool) (s : sreg) : bool :=
  (0 <? s_width s) && (s_width s mod 8 =? 0) && alts_ok_b allow (s_width s) (s_alt s) && forallb (wf_field_b (s_width s)) (s_fields s) &&
  (0 <=? s_value s) && (s_value s <? 2 ^ s_width s) && (0 <=? s_reset s) && (s_reset s <? 2 ^ s_width s).
Definition wf_reg_b (allow : bool) (r : reg) : bool :=
  wf_sreg_b allow (r_base r) && forallb (wf_sreg_b false) (r_subs r) &&
  match r_subs r with
  | [] => true
  | s0 :: _ => forallb (fun s => s_width s =? s_width s0) (r_subs r) && (Z.of_nat (length (r_subs r)) * s_width s0 =? s_width (r_base r))
               && (s_value (r_base r) =? 0)
  end.
(* allow = true: alternative widths permitted on top-level registers (the full quantifier of the property) *)
Definition wf_regs_b (allow : bool) (g : regs) : bool := forallb (wf_reg_b allow) (g_regs g).

Lemma wf_sreg_b_sound s : wf_sreg_b false s = true -> wf_sreg s.
Proof.
  unfold wf_sreg_b, wf_sreg, in_range, alts_ok_b. intros H.
  apply andb_true_iff in H. destruct H as [H A8]. apply andb_true_iff in H. destruct H as [H A7].
  apply andb_true_iff in H. destruct H as [H A6]. apply andb_true_iff in H. destruct H as [H A5].
  apply andb_true_iff in H. destruct H as [H A4]. apply andb_true_iff in H. destruct H as [H A3].
  apply andb_true_iff in H. destruct H as [A1 A2].
  split; [lia|]. split; [lia|]. split; [destruct (s_alt s); [reflexivity|discriminate]|].
  split; [|lia].
  apply Forall_forall. intros f Hf. rewrite forallb_forall in A4. specialize (A4 f Hf).
  unfold wf_field_b in A4. unfold wf_field. lia.
Qed.

Lemma wf_regs_b_sound g : wf_regs_b false g = true -> wf_regs g.
Proof.
  unfold wf_regs_b, wf_regs. intros H. apply Forall_forall. intros r Hr. rewrite forallb_forall in H. specialize (H r Hr).
  unfold wf_reg_b in H. apply andb_true_iff in H. destruct H as [H H3]. apply andb_true_iff in H. destruct H as [H1 H2].
  split; [now apply wf_sreg_b_sound|]. split; [|split].
  - apply Forall_forall. intros s Hs. rewrite forallb_forall in H2. now apply wf_sreg_b_sound, H2.
  - intros Hne. destruct (r_subs r) as [|s0 t] eqn:E; [congruence|]. exists (s_width s0).
    apply andb_true_iff in H3. destruct H3 as [H3 H5]. apply andb_true_iff in H3. destruct H3 as [H3 H4]. split; [|lia].
    apply Forall_forall. intros s Hs. rewrite forallb_forall in H3. specialize (H3 s Hs). lia.
  - intros Hne. destruct (r_subs r) as [|s0 t] eqn:E; [congruence|].
    apply andb_true_iff in H3. destruct H3 as [H3 H5]. lia.
Qed.

(* ---------------------------------------------------------------- examples: the hypotheses are satisfiable *)
Definition ex_field (o w : Z) : field := mkField [70%N] o w false 0 [([69%N], 1)] false 0.
Definition ex_sub (j : Z) : sreg := mkSreg [83%N] (4 * j) 32 false [] false false 0 [ex_field 0 8; ex_field 8 24] 0.
Definition ex_subs : list sreg := map ex_sub [0; 1; 2; 3; 4; 5; 6; 7; 8; 9; 10; 11].
Definition ex_group (reverse rev_sub : bool) (alts : list Z) : reg :=
  mkReg (mkSreg [71%N] 0 384 reverse alts false true 0 [] 0) rev_sub ex_subs.
Definition ex_plain : reg :=
  mkReg (mkSreg [82%N] 48 32 true [] false false 5 [ex_field 0 4; mkField [71%N] 4 12 true 2 [] false 0; ex_field 16 16] 5) false [].
Definition ex_regs : regs := mkRegs false [ex_group true true []; ex_plain].

Example ex_regs_wf : wf_regs ex_regs.
Proof. apply wf_regs_b_sound. vm_compute. reflexivity. Qed.

Example ex_field_write :
  exists g', step ex_regs ex_regs (OSetField (Top 1) 1 (VStr [48; 120; 49; 70; 52]%N) false false) = (g', VList []) /\
             f_get g' (Top 1) 1 = Ok 500 /\ f_get g' (Top 1) 0 = f_get ex_regs (Top 1) 0.
Proof. eexists. split; [vm_compute; reflexivity|]. split; vm_compute; reflexivity. Qed.

(* ---------------------------------------------------------------- the recorded findings, as theorems about the model *)
Definition ex_alt_plain : regs := mkRegs false [mkReg (mkSreg [82%N] 0 384 true [256; 384] false false 0 [] 0) false []].
Definition ex_alt_group (big reverse rev_sub : bool) (hi : Z) : regs :=
  mkRegs big [mkReg (mkSreg [71%N] 0 384 reverse [256] false true 0 [] 0) rev_sub
                    (map (fun j => mkSreg [83%N] (4 * j) 32 false [] false false 0 [] (if j =? 11 then hi else 0))
                         [0; 1; 2; 3; 4; 5; 6; 7; 8; 9; 10; 11])].

Lemma alt_reverse_refuted_lemma :
  exists g t s v g', wf_regs_b true g = true /\ t_sreg g t = Some s /\ in_range (s_width s) v /\
                     t_set g t v false = Ok g' /\ t_get g' t false <> Ok v.
Proof.
  exists ex_alt_plain, (Top 0%nat). eexists. exists (2 ^ 256). eexists.
  split; [vm_compute; reflexivity|]. split; [reflexivity|]. split; [cbn; split; [apply Z.leb_le|apply Z.ltb_lt]; vm_compute; reflexivity|].
  split; [vm_compute; reflexivity|]. vm_compute. discriminate.
Qed.

Lemma alt_revsub_refuted_lemma :
  exists g t s v g', wf_regs_b true g = true /\ t_sreg g t = Some s /\ in_range (s_width s) v /\
                     t_set g t v false = Ok g' /\ t_get g' t false <> Ok v.
Proof.
  exists (ex_alt_group false false true 0), (Top 0%nat). eexists. exists 7. eexists.
  split; [vm_compute; reflexivity|]. split; [reflexivity|]. split; [cbn; split; [apply Z.leb_le|apply Z.ltb_lt]; vm_compute; reflexivity|].
  split; [vm_compute; reflexivity|]. vm_compute. discriminate.
Qed.

Lemma alt_big_endian_export_refuted_lemma :
  exists g0 g b g', wf_regs_b true g0 = true /\ same_layout g0 g /\ wf_regs_b true g = true /\
                    export g = Ok b /\ parse g0 b = Ok g' /\ t_get g' (Top 0) true <> t_get g (Top 0) true.
Proof.
  exists (ex_alt_group true false false 0).
  destruct (t_set (ex_alt_group true false false 0) (Top 0%nat) 7 false) as [g|] eqn:E; [|vm_compute in E; discriminate].
  exists g. vm_compute in E. injection E as <-. eexists. eexists.
  split; [vm_compute; reflexivity|]. split; [vm_compute; reflexivity|]. split; [vm_compute; reflexivity|].
  split; [vm_compute; reflexivity|]. split; [vm_compute; reflexivity|]. vm_compute. discriminate.
Qed.

(* ====================================================================== I. export / parse *)
(* ---------------------------------------------------------------- byte strings: disjoint splices *)
Lemma slice_splice_same {A} (buf d : list A) off : (off + length d <= length buf)%nat ->
  slice (splice buf off d) off (off + length d) = d.
Proof. intros H. apply splice_slice. lia. Qed.

Lemma skipn_skipn' {A} (l : list A) a b : skipn a (skipn b l) = skipn (b + a) l.
Proof. revert l. induction b as [|b IH]; intros l; [reflexivity|]. destruct l; [now rewrite !skipn_nil|]. cbn. apply IH. Qed.

Lemma slice_splice_disjoint {A} (buf d : list A) off a b : (a <= b)%nat -> (off + length d <= length buf)%nat ->
  (b <= off \/ off + length d <= a)%nat -> slice (splice buf off d) a b = slice buf a b.
Proof.
  intros Hab Hin Hd. unfold slice, splice. destruct Hd as [Hd|Hd].
  - rewrite skipn_app, firstn_length, Nat.min_l by lia.
    rewrite firstn_app, skipn_length, firstn_length, Nat.min_l by lia.
    replace (b - a - (off - a))%nat with 0%nat by lia. rewrite firstn_O, app_nil_r.
    rewrite <- (firstn_skipn off buf) at 2.
    rewrite skipn_app, firstn_length, Nat.min_l by lia.
    rewrite firstn_app, skipn_length, firstn_length, Nat.min_l by lia.
    replace (b - a - (off - a))%nat with 0%nat by lia. now rewrite firstn_O, app_nil_r.
  - rewrite skipn_app, firstn_length, Nat.min_l by lia.
    rewrite (skipn_all2 (firstn off buf)) by (rewrite firstn_length; lia). cbn [app].
    rewrite skipn_app. rewrite (skipn_all2 d) by lia. cbn [app].
    rewrite skipn_skipn'. f_equal. f_equal. lia.
Qed.

Definition place (buf : list N) (ims : list (nat * list N)) : list N :=
  fold_left (fun b im => splice b (fst im) (snd im)) ims buf.

Fixpoint ranges_from (lo : nat) (ims : list (nat * list N)) : Prop :=
  match ims with
  | [] => True
  | (o, d) :: t => (lo <= o)%nat /\ ranges_from (o + length d) t
  end.

Fixpoint ranges_end (lo : nat) (ims : list (nat * list N)) : nat :=
  match ims with [] => lo | (o, d) :: t => ranges_end (o + length d) t end.

Lemma ranges_end_ge lo ims : ranges_from lo ims -> (lo <= ranges_end lo ims)%nat.
Proof.
  revert lo. induction ims as [|(o, d) t IH]; intros lo H; cbn in *; [lia|].
  destruct H as (H1 & H2). specialize (IH _ H2). lia.
Qed.

Lemma place_length ims : forall buf lo, ranges_from lo ims -> (ranges_end lo ims <= length buf)%nat ->
  length (place buf ims) = length buf.
Proof.
  induction ims as [|(o, d) t IH]; intros buf lo H Hb; cbn [place fold_left]; [reflexivity|].
  cbn in H, Hb. destruct H as (H1 & H2). pose proof (ranges_end_ge _ _ H2).
  change (fold_left _ t ?b) with (place b t).
  cbn [fst snd]. rewrite (IH _ (o + length d)%nat) by (try assumption; rewrite splice_length; lia).
  apply splice_length. lia.
Qed.

Lemma place_frame ims : forall buf lo a b, ranges_from lo ims -> (ranges_end lo ims <= length buf)%nat ->
  (a <= b <= lo)%nat -> slice (place buf ims) a b = slice buf a b.
Proof.
  induction ims as [|(o, d) t IH]; intros buf lo a b H Hb Hab; cbn [place fold_left]; [reflexivity|].
  cbn in H, Hb. destruct H as (H1 & H2). pose proof (ranges_end_ge _ _ H2).
  change (fold_left _ t ?b) with (place b t). cbn [fst snd].
  rewrite (IH _ (o + length d)%nat) by (try assumption; try (rewrite splice_length; lia); lia).
  apply slice_splice_disjoint; lia.
Qed.

Lemma place_read ims : forall buf lo o d, ranges_from lo ims -> (ranges_end lo ims <= length buf)%nat ->
  In (o, d) ims -> slice (place buf ims) o (o + length d) = d.
Proof.
  induction ims as [|(o', d') t IH]; intros buf lo o d H Hb Hin; [destruct Hin|].
  cbn in H, Hb. destruct H as (H1 & H2). pose proof (ranges_end_ge _ _ H2).
  cbn [place fold_left]. change (fold_left _ t ?b) with (place b t). cbn [fst snd].
  destruct Hin as [E|Hin].
  - injection E as -> ->.
    rewrite (place_frame t _ (o + length d)%nat) by (try assumption; try (rewrite splice_length; lia); lia).
    apply slice_splice_same. lia.
  - apply (IH _ (o' + length d')%nat); try assumption. rewrite splice_length; lia.
Qed.

(* BinaryImage.add_image on ascending offsets appends *)
Lemma insert_img_append x l : Forall (fun c => fst c <= fst x) l -> insert_img x l = l ++ [x].
Proof.
  induction 1 as [|c t Hc Ht IH]; cbn [insert_img app]; [reflexivity|].
  replace (fst x <? fst c) with false by lia. now rewrite IH.
Qed.

(* ---------------------------------------------------------------- what export writes *)
Definition enc (big : bool) (n : nat) (v : Z) : list N := (if big then be_enc else le_enc) n (Z.to_N v).

Lemma enc_length big n v : length (enc big n v) = n.
Proof. unfold enc. destruct big; [apply be_enc_length|apply le_enc_length]. Qed.

Lemma dec_enc big n v : 0 <= v < 2 ^ (8 * Z.of_nat n) -> dec_bytes big (enc big n v) = v.
Proof.
  intros [Hv Hb]. unfold dec_bytes, enc.
  assert ((Z.to_N v < 2 ^ (8 * N.of_nat n))%N) by (rewrite pow_N_Z; apply Z2N.inj_lt; lia).
  destruct big; [rewrite be_dec_enc_small by assumption|rewrite le_dec_enc_small by assumption]; lia.
Qed.

Lemma vtb_spec v n big : 0 < n -> 0 <= v < 2 ^ (8 * n) ->
  value_to_bytes_int v false n big = Ok (enc big (Z.to_nat n) v).
Proof.
  intros Hn [Hv Hb]. unfold value_to_bytes_int.
  rewrite bytes_cnt_with_cnt by lia.
  assert (Hcnt : (if v =? 0 then Ok n else if n <? width_spec v false then Err 1%N else Ok n) = Ok n).
  { destruct (v =? 0) eqn:E0; [reflexivity|].
    assert (width_spec v false <= n).
    { unfold width_spec. rewrite E0. cbn. apply nbytes_minimal; lia. }
    replace (n <? width_spec v false) with false by lia. reflexivity. }
  rewrite Hcnt. unfold int_to_bytes.
  replace ((v <? 0) || (n <? 0)) with false by lia.
  replace (2 ^ (8 * n) <=? v) with false by lia. reflexivity.
Qed.

Definition reg_img (big : bool) (r : reg) : Z * list N :=
  (s_offset (r_base r), enc big (Z.to_nat (s_width (r_base r) / 8)) (reg_stored r true)).

Lemma view_raw reverse W v : view reverse true W v = v.
Proof. reflexivity. Qed.

Lemma reg_image_ok g i r : wf_regs g -> nth_error (g_regs g) i = Some r -> reg_image g i r = Ok (reg_img (g_big g) r).
Proof.
  intros Hg E. pose proof (wf_regs_nth g i r Hg E) as Hr. pose proof Hr as ((B1 & B2 & B3 & _) & _).
  pose proof (reg_stored_range r true Hr) as HR. destruct (width_bytes _ B1 B2) as (P1 & P2 & P3).
  unfold reg_image, t_bytes. cbn [t_sreg t_get]. rewrite E. cbn [option_map].
  rewrite reg_get_ok by assumption. rewrite view_raw. cbn [bind]. rewrite B3. cbn [alt_width bind].
  rewrite vtb_spec by (unfold in_range in HR; rewrite ?P2; lia). cbn [bind].
  rewrite enc_length, Nat.eqb_refl. reflexivity.
Qed.

Lemma images_from_ok g : wf_regs g -> forall l i, (forall k r, nth_error l k = Some r -> nth_error (g_regs g) (i + k) = Some r) ->
  images_from g i l = Ok (map (reg_img (g_big g)) l).
Proof.
  intros Hg. induction l as [|r t IH]; intros i H; cbn [images_from map]; [reflexivity|].
  rewrite reg_image_ok by (try assumption; specialize (H 0%nat r eq_refl); now rewrite Nat.add_0_r in H). cbn [bind].
  rewrite IH; [reflexivity|]. intros k r' Hk. specialize (H (S k) r' Hk). now rewrite Nat.add_succ_r in H.
Qed.

(* layout: ascending, non-overlapping byte ranges *)
Fixpoint offsets_ok (lo : Z) (l : list reg) : Prop :=
  match l with
  | [] => True
  | r :: t => lo <= s_offset (r_base r) /\ offsets_ok (s_offset (r_base r) + s_width (r_base r) / 8) t
  end.
Definition layout_ok (g : regs) : Prop := offsets_ok 0 (g_regs g).

Definition nat_img (im : Z * list N) : nat * list N := (Z.to_nat (fst im), snd im).

Lemma place_fold ims : forall buf,
  fold_left (fun buf im => splice buf (Z.to_nat (fst im)) (snd im)) ims buf = place buf (map nat_img ims).
Proof. induction ims as [|im t IH]; intros buf; cbn; [reflexivity|]. apply IH. Qed.

Fixpoint asc (lo : Z) (ims : list (Z * list N)) : Prop :=
  match ims with [] => True | im :: t => lo <= fst im /\ asc (fst im) t end.

Lemma fold_insert_asc ims : forall acc hi, Forall (fun c => fst c <= hi) acc -> asc hi ims ->
  fold_left (fun l x => insert_img x l) ims acc = acc ++ ims.
Proof.
  induction ims as [|x t IH]; intros acc hi Ha Hs; cbn [fold_left]; [now rewrite app_nil_r|].
  cbn in Hs. destruct Hs as (H1 & H2).
  rewrite insert_img_append by (eapply Forall_impl; [|exact Ha]; cbn; intros; lia).
  rewrite (IH _ (fst x)); [now rewrite <- app_assoc| |assumption].
  apply Forall_app. split; [eapply Forall_impl; [|exact Ha]; cbn; intros; lia|]. constructor; [lia|constructor].
Qed.

Lemma offsets_asc big l : forall lo, Forall wf_reg l -> offsets_ok lo l -> asc lo (map (reg_img big) l).
Proof.
  induction l as [|r t IH]; intros lo Hw H; cbn; [exact I|]. cbn in H. destruct H as (H1 & H2).
  inversion Hw as [|? ? Hr Ht]; subst. split; [assumption|].
  destruct Hr as ((B1 & B2 & _) & _). apply IH; [assumption|].
  destruct t as [|r' t']; cbn in *; [exact I|]. destruct H2 as (H2 & H3). split; [lia|assumption].
Qed.

Lemma offsets_ranges big l : forall lo, 0 <= lo -> Forall wf_reg l -> offsets_ok lo l ->
  ranges_from (Z.to_nat lo) (map nat_img (map (reg_img big) l)).
Proof.
  induction l as [|r t IH]; intros lo Hlo Hw H; cbn; [exact I|]. cbn in H. destruct H as (H1 & H2).
  inversion Hw as [|? ? Hr Ht]; subst. destruct Hr as ((B1 & B2 & _) & _).
  split; [lia|]. rewrite enc_length.
  replace (Z.to_nat (s_offset (r_base r)) + Z.to_nat (s_width (r_base r) / 8))%nat
    with (Z.to_nat (s_offset (r_base r) + s_width (r_base r) / 8)) by lia.
  apply IH; (assumption || lia).
Qed.

Lemma image_size_acc (ims : list (Z * list N)) : forall m, m <= fold_left (fun m im => Z.max m (fst im + zlen (snd im))) ims m.
Proof. induction ims as [|im t IH]; intros m; cbn; [lia|]. specialize (IH (Z.max m (fst im + zlen (snd im)))). lia. Qed.

Lemma image_size_ge (ims : list (Z * list N)) : forall m im, In im ims ->
  fst im + zlen (snd im) <= fold_left (fun m im => Z.max m (fst im + zlen (snd im))) ims m.
Proof.
  induction ims as [|x t IH]; intros m im Hin; [destruct Hin|]. cbn. destruct Hin as [->|Hin].
  - pose proof (image_size_acc t (Z.max m (fst im + zlen (snd im)))). lia.
  - now apply IH.
Qed.

Lemma ranges_end_bound ims : forall lo M, (lo <= M)%nat -> (forall o d, In (o, d) ims -> (o + length d <= M)%nat) ->
  (ranges_end lo ims <= M)%nat.
Proof.
  induction ims as [|(o, d) t IH]; intros lo M Hlo H; cbn; [assumption|].
  apply IH; [apply H; now left|]. intros o' d' Hin. apply H. now right.
Qed.

Lemma offsets_ge l : forall lo r, Forall wf_reg l -> offsets_ok lo l -> In r l -> lo <= s_offset (r_base r).
Proof.
  induction l as [|x t IH]; intros lo r Hw H Hin; [destruct Hin|]. cbn in H. destruct H as (H1 & H2).
  inversion Hw as [|? ? Hx Ht]; subst. destruct Hin as [->|Hin]; [assumption|].
  destruct Hx as ((B1 & B2 & _) & _). specialize (IH _ r Ht H2 Hin). lia.
Qed.

(* the bytes of every register are where the layout says *)
Lemma export_ok g : wf_regs g -> layout_ok g ->
  exists bin, export g = Ok bin /\
    forall i r, nth_error (g_regs g) i = Some r ->
      let o := Z.to_nat (s_offset (r_base r)) in let n := Z.to_nat (s_width (r_base r) / 8) in
      (o + n <= length bin)%nat /\ slice bin o (o + n) = enc (g_big g) n (reg_stored r true).
Proof.
  intros Hg Hl. unfold export.
  rewrite (images_from_ok g Hg (g_regs g) 0) by (intros k r H; exact H). cbn [bind].
  set (ims := map (reg_img (g_big g)) (g_regs g)).
  assert (Hasc : asc 0 ims) by (apply offsets_asc; assumption).
  rewrite (fold_insert_asc ims [] 0) by (constructor || assumption). cbn [app].
  rewrite place_fold. eexists. split; [reflexivity|].
  assert (Hr : ranges_from 0 (map nat_img ims)) by (apply (offsets_ranges (g_big g) (g_regs g) 0); (assumption || lia)).
  set (total := Z.to_nat (image_size ims)).
  assert (Hend : forall o d, In (o, d) (map nat_img ims) -> (o + length d <= total)%nat).
  { intros o d Hin. apply in_map_iff in Hin. destruct Hin as (im & E & Hin). unfold nat_img in E. injection E as <- <-.
    pose proof (image_size_ge ims 0 im Hin) as Hge. unfold total, image_size. unfold zlen in *.
    assert (0 <= fst im).
    { unfold ims in Hin. apply in_map_iff in Hin. destruct Hin as (r & <- & Hin). cbn.
      exact (offsets_ge (g_regs g) 0 r Hg Hl Hin). }
    lia. }
  assert (Hre : (ranges_end 0 (map nat_img ims) <= length (zeros total))%nat).
  { unfold zeros. rewrite repeat_length. apply ranges_end_bound; [lia|exact Hend]. }
  intros i r E. cbv zeta.
  assert (Hin : In (nat_img (reg_img (g_big g) r)) (map nat_img ims)).
  { apply in_map, in_map. eapply nth_error_In; eassumption. }
  pose proof (Hend _ _ Hin) as Hb. pose proof (place_read _ _ _ _ _ Hr Hre Hin) as Hrd.
  unfold nat_img, reg_img in Hb, Hrd. cbn [fst snd] in Hb, Hrd. rewrite enc_length in Hb, Hrd.
  rewrite (place_length _ _ 0%nat) by assumption. unfold zeros at 1. rewrite repeat_length.
  split; assumption.
Qed.

(* ---------------------------------------------------------------- what parse reads *)
Lemma set_value_erase s1 s v : erase_s s1 = erase_s s -> set_value s1 v = set_value s v.
Proof. destruct s1, s. unfold erase_s, set_value. cbn. intros H. injection H. intros; subst. reflexivity. Qed.

Lemma set_value_self s : set_value s (s_value s) = s.
Proof. now destruct s. Qed.

Lemma cons_eq_inv {A} (a b : A) l m : a :: l = b :: m -> a = b /\ l = m.
Proof. intros H. now injection H. Qed.

Lemma erase_r_inv r1 r : erase_r r1 = erase_r r ->
  erase_s (r_base r1) = erase_s (r_base r) /\ r_rev_sub r1 = r_rev_sub r /\ map erase_s (r_subs r1) = map erase_s (r_subs r).
Proof. intros H. repeat split; [exact (f_equal r_base H)|exact (f_equal r_rev_sub H)|exact (f_equal r_subs H)]. Qed.

Lemma regs_eq_inv g g1 : erase g = erase g1 -> g_big g = g_big g1 /\ map erase_r (g_regs g) = map erase_r (g_regs g1).
Proof. intros H. split; [exact (f_equal g_big H)|exact (f_equal g_regs H)]. Qed.

Lemma subs_restore subs : forall subs1 idx W sw rev V, map erase_s subs1 = map erase_s subs ->
  (forall k s, nth_error subs k = Some s -> getbits V (sub_pos W (idx + Z.of_nat k) sw rev) sw = s_value s) ->
  subs_written subs1 idx W sw rev V true = subs.
Proof.
  induction subs as [|s t IH]; intros [|s1 t1] idx W sw rev V E H; cbn [map] in E; try discriminate; [reflexivity|].
  apply cons_eq_inv in E. destruct E as (E1 & E2). cbn [subs_written]. f_equal.
  - rewrite view_raw. rewrite (set_value_erase s1 s) by assumption.
    pose proof (H 0%nat s eq_refl) as H0. replace (idx + Z.of_nat 0) with idx in H0 by lia.
    assert (Ew : s_width s1 = s_width s) by (destruct (erase_s_fields s s1 E1) as (_ & W' & _); exact W').
    rewrite H0. apply set_value_self.
  - apply IH; [assumption|]. intros k s' Hk. specialize (H (S k) s' Hk).
    replace (idx + 1 + Z.of_nat k) with (idx + Z.of_nat (S k)) by lia. exact H.
Qed.

Lemma reg_eq r r' : r_base r' = r_base r -> r_rev_sub r' = r_rev_sub r -> r_subs r' = r_subs r -> r' = r.
Proof. destruct r, r'. cbn. intros; subst. reflexivity. Qed.

Lemma sreg_eq s s' : erase_s s' = erase_s s -> s_value s' = s_value s -> s' = s.
Proof. intros E V. rewrite <- (set_value_self s'), <- (set_value_self s), V. now apply set_value_erase. Qed.

Lemma reg_written_restore r1 r : wf_reg r -> wf_reg r1 -> erase_r r1 = erase_r r -> reg_written r1 (reg_stored r true) true = r.
Proof.
  intros Hr Hr1 E. destruct (erase_r_inv r1 r E) as (Eb & Erv & Es).
  destruct (erase_s_fields (r_base r) (r_base r1) Eb) as (_ & Ew & Erev & _).
  unfold reg_written, reg_stored. rewrite view_raw.
  destruct (r_subs r) as [|s0 t] eqn:Esr.
  - destruct (r_subs r1) as [|s01 t1] eqn:Esr1; [|discriminate].
    apply reg_eq; cbn [r_base r_rev_sub r_subs set_base]; [|assumption|congruence].
    rewrite (set_value_erase _ _ _ Eb). apply set_value_self.
  - destruct (r_subs r1) as [|s01 t1] eqn:Esr1; [discriminate|].
    assert (Ew0 : s_width s01 = s_width s0).
    { cbn [map] in Es. apply cons_eq_inv in Es. destruct Es as (Es0 & _).
      now destruct (erase_s_fields s0 s01 Es0) as (_ & W' & _). }
    destruct (group_shape r s0 t Hr Esr) as (G1 & G2 & G3 & G4). pose proof Hr as (_ & Hsubs & _ & Hz).
    pose proof Hr1 as (_ & _ & _ & Hz1). rewrite Esr in *. rewrite Esr1 in Hz1.
    apply reg_eq; cbn [r_base r_rev_sub r_subs set_subs_of]; [|assumption|].
    + apply sreg_eq; [assumption|]. rewrite Hz, Hz1 by discriminate. reflexivity.
    + rewrite Esr, Ew, Ew0, Erv. apply subs_restore; [exact Es|].
      intros k s Hk.
      assert (Hsl := slice_of_concat (sviews true (s0 :: t)) (s_width (r_base r)) (s_width s0) (r_rev_sub r) k (s_value s) G1).
      rewrite Hsl; [reflexivity|now apply sviews_range| |].
      * intros _. unfold sviews. rewrite map_length. lia.
      * unfold sviews. rewrite nth_error_map, Hk. reflexivity.
Qed.

Definition parsed_reg (big : bool) (bin : list N) (r1 : reg) : reg :=
  let b := r_base r1 in
  if s_hidden b then r1
  else reg_written r1 (dec_bytes big (slice bin (Z.to_nat (s_offset b)) (Z.to_nat (s_offset b + s_width b / 8)))) true.

Lemma parse_from_spec bin n : forall i g1, wf_regs g1 -> (i + n = length (g_regs g1))%nat ->
  (forall k r1, (i <= k)%nat -> nth_error (g_regs g1) k = Some r1 -> s_hidden (r_base r1) = false ->
     s_offset (r_base r1) + s_width (r_base r1) / 8 <= zlen bin /\
     in_range (s_width (r_base r1))
       (dec_bytes (g_big g1) (slice bin (Z.to_nat (s_offset (r_base r1))) (Z.to_nat (s_offset (r_base r1) + s_width (r_base r1) / 8))))) ->
  exists g', parse_from g1 bin i n = Ok g' /\ g_big g' = g_big g1 /\
    (forall k, (k < i)%nat -> nth_error (g_regs g') k = nth_error (g_regs g1) k) /\
    (forall k r1, (i <= k)%nat -> nth_error (g_regs g1) k = Some r1 -> nth_error (g_regs g') k = Some (parsed_reg (g_big g1) bin r1)).
Proof.
  induction n as [|n IH]; intros i g1 Hg Hlen H; cbn [parse_from].
  - exists g1. split; [reflexivity|]. split; [reflexivity|]. split; [reflexivity|].
    intros k r1 Hk E. assert ((k < length (g_regs g1))%nat) by (apply nth_error_Some; congruence). lia.
  - destruct (nth_error (g_regs g1) i) as [r|] eqn:E; [|apply nth_error_None in E; lia].
    destruct (s_hidden (r_base r)) eqn:Eh.
    + destruct (IH (S i) g1 Hg) as (g' & P1 & P2 & P3 & P4); [lia|intros k r1 Hk; apply (H k r1); lia|].
      exists g'. split; [assumption|]. split; [assumption|]. split; [intros k Hk; apply P3; lia|].
      intros k r1 Hk Ek. destruct (Nat.eq_dec k i) as [->|Hne].
      * rewrite P3 by lia. rewrite E in Ek. injection Ek as <-. rewrite E. unfold parsed_reg. now rewrite Eh.
      * apply P4; [lia|assumption].
    + destruct (H i r (le_n i) E Eh) as (Hfit & Hrange).
      replace (zlen bin <? s_offset (r_base r) + s_width (r_base r) / 8) with false by lia.
      cbn [t_set]. rewrite E. pose proof (wf_regs_nth g1 i r Hg E) as Hr.
      rewrite reg_set_ok by assumption. cbn [bind].
      set (g2 := set_regs g1 (list_set (g_regs g1) i (reg_written r _ true))).
      assert (Hi : (i < length (g_regs g1))%nat) by (apply nth_error_Some; congruence).
      assert (Hg2 : wf_regs g2) by (apply Forall_list_set; [assumption|now apply reg_written_wf]).
      destruct (IH (S i) g2 Hg2) as (g' & P1 & P2 & P3 & P4).
      { unfold g2. cbn [g_regs set_regs]. rewrite list_set_length. lia. }
      { intros k r1 Hk Ek. unfold g2 in Ek. cbn [g_regs set_regs] in Ek. rewrite nth_error_list_set_other in Ek by lia.
        apply (H k r1); (assumption || lia). }
      exists g'. split; [assumption|]. split; [now rewrite P2|]. split.
      * intros k Hk. rewrite P3 by lia. unfold g2. cbn [g_regs set_regs]. apply nth_error_list_set_other. lia.
      * intros k r1 Hk Ek. destruct (Nat.eq_dec k i) as [->|Hne].
        -- rewrite P3 by lia. unfold g2. cbn [g_regs set_regs]. rewrite nth_error_list_set_same by assumption.
           rewrite E in Ek. injection Ek as <-. unfold parsed_reg. now rewrite Eh.
        -- rewrite (P4 k r1); [reflexivity|lia|]. unfold g2. cbn [g_regs set_regs]. rewrite nth_error_list_set_other by lia. assumption.
Qed.

Lemma same_layout_nth g g1 i r : same_layout g g1 -> nth_error (g_regs g) i = Some r ->
  exists r1, nth_error (g_regs g1) i = Some r1 /\ erase_r r1 = erase_r r.
Proof.
  intros H E. unfold same_layout in H. destruct (regs_eq_inv g g1 H) as (Hb & Hm).
  assert (E1 : nth_error (map erase_r (g_regs g)) i = Some (erase_r r)) by (rewrite nth_error_map, E; reflexivity).
  rewrite Hm, nth_error_map in E1. destruct (nth_error (g_regs g1) i) as [r1|]; [|discriminate].
  exists r1. split; [reflexivity|]. cbn in E1. congruence.
Qed.

(* parse (export g) restores every non-hidden register of g, whatever the receiving object held *)
Lemma export_parse_lemma g g1 : wf_regs g -> wf_regs g1 -> same_layout g g1 -> layout_ok g ->
  exists bin g', export g = Ok bin /\ parse g1 bin = Ok g' /\
    forall i r, nth_error (g_regs g) i = Some r ->
      (s_hidden (r_base r) = false -> nth_error (g_regs g') i = Some r) /\
      (s_hidden (r_base r) = true -> nth_error (g_regs g') i = nth_error (g_regs g1) i).
Proof.
  intros Hg Hg1 Hsl Hl. destruct (export_ok g Hg Hl) as (bin & Ex & Hbin).
  assert (Hbig : g_big g1 = g_big g) by (destruct (regs_eq_inv g g1 Hsl); congruence).
  assert (Hsl' : same_layout g1 g) by (symmetry; exact Hsl).
  assert (Hpre : forall k r1, (0 <= k)%nat -> nth_error (g_regs g1) k = Some r1 -> s_hidden (r_base r1) = false ->
     s_offset (r_base r1) + s_width (r_base r1) / 8 <= zlen bin /\
     in_range (s_width (r_base r1))
       (dec_bytes (g_big g1) (slice bin (Z.to_nat (s_offset (r_base r1))) (Z.to_nat (s_offset (r_base r1) + s_width (r_base r1) / 8))))).
  { intros k r1 _ Ek Eh. destruct (same_layout_nth g1 g k r1 Hsl' Ek) as (r & Er & Ee).
    destruct (erase_r_inv r r1 Ee) as (Eb & _ & _). destruct (erase_s_fields (r_base r1) (r_base r) Eb) as (_ & Ew & _ & _ & _ & _ & _ & _ & Eo).
    pose proof (wf_regs_nth g k r Hg Er) as Hr. pose proof Hr as ((B1 & B2 & _) & _).
    destruct (width_bytes _ B1 B2) as (Q1 & Q2 & Q3).
    assert (Ho : 0 <= s_offset (r_base r)) by (apply (offsets_ge (g_regs g) 0 r Hg Hl); eapply nth_error_In; eassumption).
    destruct (Hbin k r Er) as (Hfit & Hsl2). cbv zeta in Hfit, Hsl2.
    rewrite <- Ew, <- Eo in *.
    replace (Z.to_nat (s_offset (r_base r) + s_width (r_base r) / 8))
      with (Z.to_nat (s_offset (r_base r)) + Z.to_nat (s_width (r_base r) / 8))%nat by lia.
    rewrite Hsl2, Hbig, dec_enc by (rewrite Q3; apply reg_stored_range; assumption).
    split; [unfold zlen; lia|now apply reg_stored_range]. }
  destruct (parse_from_spec bin (length (g_regs g1)) 0 g1 Hg1 eq_refl Hpre) as (g' & P1 & P2 & P3 & P4).
  exists bin, g'. split; [assumption|]. split; [exact P1|].
  intros i r Er. destruct (same_layout_nth g g1 i r Hsl Er) as (r1 & Er1 & Ee).
  rewrite (P4 i r1 (Nat.le_0_l i) Er1). unfold parsed_reg.
  destruct (erase_r_inv r1 r Ee) as (Eb & _ & _).
  destruct (erase_s_fields (r_base r) (r_base r1) Eb) as (_ & Ew & _ & _ & _ & _ & _ & Ehid & Eo).
  split; intros Eh; rewrite Ehid, Eh; [|now rewrite Er1].
  pose proof (wf_regs_nth g i r Hg Er) as Hr. pose proof Hr as ((B1 & B2 & _) & _).
  destruct (width_bytes _ B1 B2) as (Q1 & Q2 & Q3).
  assert (Ho : 0 <= s_offset (r_base r)) by (apply (offsets_ge (g_regs g) 0 r Hg Hl); eapply nth_error_In; eassumption).
  destruct (Hbin i r Er) as (Hfit & Hsl2). cbv zeta in Hfit, Hsl2.
  rewrite Ew, Eo.
  replace (Z.to_nat (s_offset (r_base r) + s_width (r_base r) / 8))
    with (Z.to_nat (s_offset (r_base r)) + Z.to_nat (s_width (r_base r) / 8))%nat by lia.
  rewrite Hsl2, Hbig, dec_enc by (rewrite Q3; apply reg_stored_range; assumption).
  f_equal. apply reg_written_restore; try assumption. eapply wf_regs_nth; eassumption.
Qed.

Lemma layout_ok_same g g' : same_layout g g' -> layout_ok g -> layout_ok g'.
Proof.
  intros H. destruct (regs_eq_inv g g' H) as (_ & Hm). unfold layout_ok. generalize 0.
  revert Hm. generalize (g_regs g') as l'. induction (g_regs g) as [|r t IH]; intros [|r' t'] Hm lo Hl; cbn [map] in Hm; try discriminate; [exact I|].
  apply cons_eq_inv in Hm. destruct Hm as (E1 & E2). destruct (erase_r_inv r r' E1) as (Eb & _ & _).
  destruct (erase_s_fields (r_base r') (r_base r) Eb) as (_ & Ew & _ & _ & _ & _ & _ & _ & Eo).
  cbn in *. destruct Hl as (H1 & H2). rewrite <- Ew, <- Eo. split; [assumption|]. now apply IH.
Qed.

Example ex_regs_layout_ok : layout_ok ex_regs.
Proof. unfold layout_ok. cbn. repeat split; try apply Z.leb_le; vm_compute; reflexivity. Qed.

Example ex_export_parse :
  exists g b g', step ex_regs ex_regs (OSetReg (Top 0) (VStr [48; 120; 97; 98; 99]%N) false) = (g, VList []) /\
                 export g = Ok b /\ length b = 52%nat /\ parse ex_regs b = Ok g' /\ g' = g.
Proof. eexists. eexists. eexists. split; [vm_compute; reflexivity|]. split; [vm_compute; reflexivity|]. split; [reflexivity|].
  split; vm_compute; reflexivity. Qed.

(* ====================================================================== J. configuration (numeric part) *)
Lemma pre_post hp c b : 0 <= c -> cp_pre hp c (cp_post hp c b) = b.
Proof.
  intros Hc. unfold cp_pre, cp_post. destruct hp; [|reflexivity].
  rewrite Z.shiftr_shiftl_l by lia. replace (c - c) with 0 by lia. apply Z.shiftl_0_r.
Qed.

(* the configuration of one register as numbers: bit-field k -> bitfield.get_value() *)
Fixpoint numeric_cfg (k : nat) (fs : list field) (V : Z) : list (nat * value) :=
  match fs with
  | [] => []
  | f :: rest => (k, VInt (post_of f (fbits f V))) :: numeric_cfg (S k) rest V
  end.

Definition apply_fields (S : Z) (fs : list field) (V : Z) : Z :=
  fold_left (fun S f => setbits S (f_off f) (f_width f) (fbits f V)) fs S.

Definition covered (fs : list field) (n : Z) : bool :=
  existsb (fun f => (f_off f <=? n) && (n <? f_off f + f_width f)) fs.

(* the bit-fields tile the register: every bit belongs to some bit-field *)
Definition tiles (fs : list field) (W : Z) : Prop := forall n, 0 <= n < W -> covered fs n = true.

Lemma testbit_apply_fields W V fs : Forall (wf_field W) fs -> forall S n, 0 <= n ->
  Z.testbit (apply_fields S fs V) n = if covered fs n then Z.testbit V n else Z.testbit S n.
Proof.
  intros Hw. induction Hw as [|f t (F1 & F2 & F3 & F4) Ht IH]; intros S n Hn; cbn [apply_fields fold_left covered existsb]; [reflexivity|].
  change (fold_left _ t ?x) with (apply_fields x t V). rewrite IH by assumption.
  fold (covered t n). destruct (covered t n); [now rewrite orb_true_r|]. rewrite orb_false_r.
  rewrite testbit_setbits by lia.
  destruct ((f_off f <=? n) && (n <? f_off f + f_width f)) eqn:E; [|reflexivity].
  unfold fbits. rewrite testbit_getbits by lia. replace (n - f_off f + f_off f) with n by lia.
  replace (n - f_off f <? f_width f) with true by lia. now rewrite andb_true_r.
Qed.

Lemma apply_fields_tiled W S V fs : 0 <= W -> Forall (wf_field W) fs -> tiles fs W -> in_range W S -> in_range W V ->
  apply_fields S fs V = V.
Proof.
  intros HW Hw Ht HS HV. apply Z.bits_inj'. intros n Hn. rewrite (testbit_apply_fields W) by assumption.
  destruct (Z.ltb_spec n W).
  - now rewrite Ht by lia.
  - rewrite (small_bits S W n), (small_bits V W n) by (assumption || lia). now destruct (covered fs n).
Qed.

Lemma load_fields_numeric V t : forall fs k0 g1 s St, wf_regs g1 -> t_sreg g1 t = Some s ->
  (forall j f, nth_error fs j = Some f -> t_field g1 t (k0 + j) = Some f) ->
  t_get g1 t true = Ok St ->
  exists g2 s2, load_fields g1 t (numeric_cfg k0 fs V) = (g2, Ok tt) /\ wf_regs g2 /\ same_layout g1 g2 /\
                t_sreg g2 t = Some s2 /\ t_get g2 t true = Ok (apply_fields St fs V).
Proof.
  induction fs as [|f rest IH]; intros k0 g1 s St Hg Hs Hf HS; cbn [numeric_cfg load_fields apply_fields fold_left].
  - exists g1, s. repeat split; solve [assumption | reflexivity].
  - assert (Hf0 : t_field g1 t k0 = Some f) by (specialize (Hf 0%nat f eq_refl); now rewrite Nat.add_0_r in Hf).
    destruct (t_field_wf g1 t k0 f s Hg Hs Hf0) as (F1 & F2 & F3 & F4).
    assert (Hp : in_range (f_width f) (pre_of f (post_of f (fbits f V)) false)).
    { unfold pre_of, post_of. rewrite pre_post by assumption. apply getbits_range. lia. }
    destruct (f_set_int_ok g1 t k0 f s _ true false Hg Hs Hf0 Hp) as (g' & rv & G1 & G2 & S1 & S2 & S3 & S4 & _).
    rewrite HS in G1. injection G1 as <-.
    rewrite Hf0. unfold f_set_enum. rewrite Hf0. cbn [to_int bind]. rewrite S1.
    unfold pre_of, post_of in S4. rewrite pre_post in S4 by assumption.
    destruct (same_layout_sreg g1 g' t s S3 Hs) as (s' & Hs' & _).
    assert (Hf' : forall j f', nth_error rest j = Some f' -> t_field g' t (S k0 + j) = Some f').
    { intros j f' Hj. rewrite (same_layout_field g1 g' t _ S3). specialize (Hf (S j) f' Hj). now rewrite Nat.add_succ_r in Hf. }
    destruct (IH (S k0) g' s' _ S2 Hs' Hf' S4) as (g2 & s2 & L1 & L2 & L3 & L4 & L5).
    exists g2, s2. split; [exact L1|]. split; [assumption|]. split; [eapply same_layout_trans; eassumption|]. split; assumption.
Qed.

(* loading the numeric configuration of a tiled register into any object of the same layout restores its value *)
Lemma config_numeric_lemma g1 t s V : wf_regs g1 -> t_sreg g1 t = Some s -> in_range (s_width s) V ->
  tiles (s_fields s) (s_width s) ->
  exists g2, load_entry g1 t (CFields (numeric_cfg 0 (s_fields s) V)) = (g2, Ok tt) /\ wf_regs g2 /\ same_layout g1 g2 /\
             t_get g2 t false = Ok V /\
             (forall k f, t_field g1 t k = Some f -> f_get g2 t k = Ok (post_of f (fbits f V))).
Proof.
  intros Hg Hs HV Ht. destruct (t_get_total g1 t s true Hg Hs) as (St & HS & HSr).
  destruct (load_fields_numeric V t (s_fields s) 0 g1 s St Hg Hs) as (g2 & s2 & L1 & L2 & L3 & L4 & L5); [|assumption|].
  { intros j f Hj. unfold t_field. now rewrite Hs. }
  pose proof (t_sreg_wf g1 t s Hg Hs) as (B1 & _ & _ & BF & _).
  rewrite (apply_fields_tiled (s_width s)) in L5 by (assumption || lia).
  destruct (same_layout_sreg g1 g2 t s L3 Hs) as (s2' & Hs2 & Es).
  destruct (erase_s_fields s s2' Es) as (_ & Ew & _).
  assert (HV2 : in_range (s_width s2') V) by now rewrite Ew.
  destruct (t_set_ok g2 t s2' V false L2 Hs2 HV2) as (g3 & T1 & T2 & T3 & T4 & _).
  exists g3. split.
  { unfold load_entry. rewrite Hs, L1, L5. cbn [bind]. rewrite T1. reflexivity. }
  split; [assumption|]. split; [eapply same_layout_trans; eassumption|]. split; [assumption|].
  intros k f Hf. destruct (t_field_wf g1 t k f s Hg Hs Hf) as (F1 & F2 & _).
  apply f_get_of; try assumption.
  rewrite (same_layout_field g2 g3 t k T3), (same_layout_field g1 g2 t k L3). assumption.
Qed.

Lemma config_roundtrip_lemma g g1 t s V : wf_regs g -> wf_regs g1 -> same_layout g g1 ->
  t_sreg g t = Some s -> tiles (s_fields s) (s_width s) -> t_get g t false = Ok V ->
  (forall k f, t_field g t k = Some f -> f_get g t k = Ok (post_of f (fbits f V))) /\
  exists g2, load_entry g1 t (CFields (numeric_cfg 0 (s_fields s) V)) = (g2, Ok tt) /\ wf_regs g2 /\ same_layout g g2 /\
             t_get g2 t false = Ok V /\
             (forall k f, t_field g t k = Some f -> f_get g2 t k = f_get g t k).
Proof.
  intros Hg Hg1 Hsl Hs Ht HV.
  assert (Hget : forall k f, t_field g t k = Some f -> f_get g t k = Ok (post_of f (fbits f V))).
  { intros k f Hf. destruct (t_field_wf g t k f s Hg Hs Hf) as (_ & F2 & _). now apply f_get_of. }
  split; [exact Hget|].
  destruct (t_get_total g t s false Hg Hs) as (V' & HV' & HVr). rewrite HV in HV'. injection HV' as <-.
  destruct (same_layout_sreg g g1 t s Hsl Hs) as (s1 & Hs1 & Es).
  destruct (erase_s_fields s s1 Es) as (Ef & Ew & _).
  assert (HV1 : in_range (s_width s1) V) by now rewrite Ew.
  assert (Ht1 : tiles (s_fields s1) (s_width s1)) by now rewrite Ef, Ew.
  destruct (config_numeric_lemma g1 t s1 V Hg1 Hs1 HV1 Ht1) as (g2 & C1 & C2 & C3 & C4 & C5).
  exists g2. rewrite <- Ef. split; [assumption|]. split; [assumption|]. split; [eapply same_layout_trans; eassumption|].
  split; [assumption|]. intros k f Hf. rewrite (Hget k f Hf). apply C5. now rewrite (same_layout_field g g1 t k Hsl).
Qed.

Example ex_plain_tiles : tiles (s_fields (r_base ex_plain)) 32.
Proof.
  intros n Hn. unfold covered. cbn.
  destruct (Z.ltb_spec n 4); [replace (0 <=? n) with true by lia; reflexivity|].
  destruct (Z.ltb_spec n 16); [replace (4 <=? n) with true by lia; cbn; now rewrite ?orb_true_r|].
  replace (16 <=? n) with true by lia. replace (n <? 32) with true by lia. cbn. now rewrite ?orb_true_r.
Qed.

(* ====================================================================== K. group registers with alternative widths
   (after the repair of finding C11-F2: sub-registers above the selected width are cleared) *)
Lemma insert_z_in x a l : In x (insert_z a l) <-> x = a \/ In x l.
Proof.
  induction l as [|h t IH]; cbn; [intuition|]. destruct (a <=? h); cbn; [intuition|]. rewrite IH. intuition.
Qed.

Lemma sort_z_in x l : In x (sort_z l) <-> In x l.
Proof. induction l as [|h t IH]; cbn; [tauto|]. rewrite insert_z_in, IH. intuition. Qed.

Lemma pick_alt_cases c l d : pick_alt c l d = d \/ (In (pick_alt c l d) l /\ c <= pick_alt c l d / 8).
Proof.
  induction l as [|a t IH]; cbn [pick_alt]; [now left|]. destruct (Z.leb_spec c (a / 8)).
  - right. split; [now left|assumption].
  - destruct IH as [IH|(I1 & I2)]; [now left|right]. split; [now right|assumption].
Qed.

Lemma alt_width_ok W alts v : in_range W v -> Forall (fun a => 0 < a) alts ->
  exists aw, alt_width W alts v = Ok aw /\ (aw = W \/ In aw alts) /\ v < 2 ^ aw.
Proof.
  intros (Hv & Hb) Ha. destruct alts as [|a0 t]; [exists W; cbn; repeat split; (now left) || assumption|].
  unfold alt_width. rewrite bytes_cnt_total by assumption. cbn [bind].
  destruct (width_spec_fits v false Hv) as (Hf & Hp).
  eexists. split; [reflexivity|].
  destruct (pick_alt_cases (width_spec v false) (sort_z (a0 :: t)) W) as [->|(I1 & I2)]; [split; [now left|assumption]|].
  apply (proj1 (sort_z_in _ _)) in I1. split; [right; exact I1|].
  eapply Forall_forall in Ha; [|exact I1].
  eapply Z.lt_le_trans; [exact Hf|]. apply Z.pow_le_mono_r; lia.
Qed.

Definition zeroed (raw : bool) (l : list sreg) : list sreg :=
  map (fun s => set_value s (view (s_reverse s) raw (s_width s) 0)) l.

Lemma zero_in_range W : 0 < W -> in_range W 0.
Proof. intros H. split; [lia|]. apply Z.pow_pos_nonneg; lia. Qed.

Lemma subs_zero_ok l raw : Forall wf_sreg l -> subs_zero l raw = Ok (zeroed raw l).
Proof.
  induction 1 as [|s t Hs Ht IH]; cbn [subs_zero zeroed map]; [reflexivity|].
  pose proof Hs as (P1 & _). rewrite sreg_set_ok by (try assumption; now apply zero_in_range). cbn [bind].
  rewrite IH. reflexivity.
Qed.

Lemma zeroed_wf l raw sw : Forall wf_sreg l -> Forall (fun s => s_width s = sw) l ->
  Forall wf_sreg (zeroed raw l) /\ Forall (fun s => s_width s = sw) (zeroed raw l) /\
  sviews raw (zeroed raw l) = map (fun _ => 0) l.
Proof.
  intros H Hw. induction H as [|s t Hs Ht IH]; cbn [zeroed map sviews]; [repeat split; constructor|].
  inversion Hw as [|? ? Hw0 Hwt]; subst. destruct (IH Hwt) as (I1 & I2 & I3). pose proof Hs as (P1 & P2 & _).
  assert (Hz := zero_in_range _ P1).
  split; [constructor; [apply wf_set_value; [assumption|now apply view_range]|assumption]|].
  split; [constructor; [reflexivity|assumption]|].
  f_equal; [|exact I3]. unfold sview. cbn. now apply view_involutive.
Qed.

Lemma cbit_app l1 l2 idx W sw rev n :
  cbit (l1 ++ l2) idx W sw rev n = cbit l1 idx W sw rev n || cbit l2 (idx + Z.of_nat (length l1)) W sw rev n.
Proof.
  revert idx. induction l1 as [|v t IH]; intros idx; cbn [app cbit length].
  - now replace (idx + Z.of_nat 0) with idx by lia.
  - rewrite IH. replace (idx + 1 + Z.of_nat (length t)) with (idx + Z.of_nat (S (length t))) by lia. now rewrite orb_assoc.
Qed.

Lemma cbit_zeros {A} (l : list A) idx W sw rev n : cbit (map (fun _ => 0) l) idx W sw rev n = false.
Proof. revert idx. induction l as [|x t IH]; intros idx; cbn [map cbit]; [reflexivity|]. now rewrite Z.testbit_0_l, IH. Qed.

Lemma slices_norev k : forall idx W1 W2 sw V, slices k idx W1 sw false V = slices k idx W2 sw false V.
Proof. induction k as [|k IH]; intros; cbn [slices]; [reflexivity|]. f_equal. apply IH. Qed.

(* a non-reversed group in normal sub-register order whose alternative widths are multiples of the sub-register width *)
Definition wf_alt_group (r : reg) : Prop :=
  let b := r_base r in
  0 < s_width b /\ s_width b mod 8 = 0 /\ s_reverse b = false /\ r_rev_sub r = false /\
  Forall wf_sreg (r_subs r) /\
  exists s0 t, r_subs r = s0 :: t /\ Forall (fun s => s_width s = s_width s0) (r_subs r) /\
    Z.of_nat (length (r_subs r)) * s_width s0 = s_width b /\
    Forall (fun a => 0 < a <= s_width b /\ a mod s_width s0 = 0) (s_alt b).

Lemma alt_group_get_set_lemma big r v raw : wf_alt_group r -> in_range (s_width (r_base r)) v ->
  exists r' aw, alt_width (s_width (r_base r)) (s_alt (r_base r)) v = Ok aw /\
    reg_set r v raw = Ok r' /\ reg_get big r' raw = Ok v /\ wf_alt_group r' /\
    length (r_subs r') = length (r_subs r) /\
    (* every sub-register above the selected width reads 0 *)
    forall j s s0, nth_error (r_subs r') j = Some s -> nth_error (r_subs r) 0 = Some s0 ->
                   aw <= Z.of_nat j * s_width s0 -> sreg_get big s raw = Ok 0.
Proof.
  intros (B1 & B2 & Brev & Brs & Hsubs & s0 & t & Es & Hw & Hlen & Halts) HV. cbv zeta in *.
  remember (s_width (r_base r)) as W eqn:EW. remember (s_width s0) as sw eqn:Esw.
  assert (Hsw : 0 < sw) by (rewrite Es in Hsubs; inversion Hsubs as [|? ? (P & _) _]; rewrite Esw; exact P).
  destruct (alt_width_ok W (s_alt (r_base r)) v HV) as (aw & Ea & Hin & Hlt).
  { eapply Forall_impl; [|exact Halts]. cbn. intros; lia. }
  assert (Haw : 0 < aw <= W /\ aw mod sw = 0).
  { destruct Hin as [->|Hin]; [split; [lia|]; rewrite <- Hlen; apply Z.mod_mul; lia|].
    eapply Forall_forall in Halts; [|exact Hin]. cbn in Halts. lia. }
  destruct Haw as (Haw1 & Haw2).
  set (n := Z.to_nat (aw / sw)).
  assert (Hn : Z.of_nat n * sw = aw) by (unfold n; lia).
  assert (HnL : (n <= length (r_subs r))%nat) by nia.
  pose proof (firstn_skipn n (r_subs r)) as Hsplit.
  assert (HF : Forall wf_sreg (firstn n (r_subs r)) /\ Forall wf_sreg (skipn n (r_subs r))) by (apply Forall_app; now rewrite Hsplit).
  assert (HG : Forall (fun s => s_width s = sw) (firstn n (r_subs r)) /\ Forall (fun s => s_width s = sw) (skipn n (r_subs r)))
    by (apply Forall_app; now rewrite Hsplit).
  destruct HF as (HF1 & HF2). destruct HG as (HG1 & HG2).
  set (A := subs_written (firstn n (r_subs r)) 1 aw sw false v raw).
  destruct (subs_written_wf (firstn n (r_subs r)) 1 aw sw false v raw HF1 HG1) as (A1 & A2 & A3).
  destruct (zeroed_wf (skipn n (r_subs r)) raw sw HF2 HG2) as (Z1 & Z2 & Z3).
  assert (Hset : reg_set r v raw = Ok (set_subs_of r (A ++ zeroed raw (skipn n (r_subs r))))).
  { unfold reg_set, set_common. rewrite <- EW. rewrite py_reg_check_spec, (out_of_range_false _ _ HV) by lia. cbn [bind].
    rewrite Ea. cbn [bind]. rewrite Brev, andb_false_r. cbn [bind]. rewrite Es. rewrite <- Esw. rewrite <- Es. fold n.
    rewrite Brs, subs_set_ok by assumption. cbn [bind]. rewrite subs_zero_ok by assumption. reflexivity. }
  set (r' := set_subs_of r (A ++ zeroed raw (skipn n (r_subs r)))).
  assert (HlenA : length A = n) by (unfold A; rewrite A3, firstn_length; lia).
  assert (Hlen' : length (r_subs r') = length (r_subs r)).
  { unfold r'. cbn [r_subs set_subs_of]. rewrite app_length, HlenA. unfold zeroed. rewrite map_length, skipn_length. lia. }
  assert (Hwf' : Forall wf_sreg (r_subs r')) by (unfold r'; cbn [r_subs set_subs_of]; apply Forall_app; split; assumption).
  assert (Hw' : Forall (fun s => s_width s = sw) (r_subs r')) by (unfold r'; cbn [r_subs set_subs_of]; apply Forall_app; split; assumption).
  assert (Hne : exists s0' t', r_subs r' = s0' :: t').
  { destruct (r_subs r') as [|a b] eqn:E'; [rewrite Es in Hlen'; discriminate|eauto]. }
  destruct Hne as (s0' & t' & Es').
  assert (Ew0 : s_width s0' = sw) by (rewrite Es' in Hw'; now inversion Hw').
  exists r', aw. split; [exact Ea|]. split; [exact Hset|].
  assert (Hget : reg_get big r' raw = Ok v).
  { unfold reg_get, reg_raw_value. rewrite Es'. rewrite <- Es'. rewrite subs_get_ok by assumption. cbn [bind].
    assert (Hb : r_base r' = r_base r) by reflexivity. assert (Hr : r_rev_sub r' = r_rev_sub r) by reflexivity.
    rewrite Hb, Hr, Brs, Ew0. rewrite <- EW.
    assert (HC : concat (sviews raw (r_subs r')) 1 W sw false 0 = v).
    { unfold r'. cbn [r_subs set_subs_of]. unfold sviews. rewrite map_app. fold (sviews raw A). fold (sviews raw (zeroed raw (skipn n (r_subs r)))).
      unfold A. rewrite sviews_written by assumption. rewrite Z3, (slices_norev _ 1 aw W).
      apply Z.bits_inj'. intros m Hm. rewrite testbit_concat, Z.bits_0, cbit_app, cbit_zeros, orb_false_r by assumption. cbn [orb].
      rewrite cbit_slices by (try lia; discriminate). unfold window.
      rewrite firstn_length, Nat.min_l by assumption. replace (1 - 1 + Z.of_nat n) with (Z.of_nat n) by lia. rewrite Hn.
      destruct (Z.ltb_spec m aw).
      - replace (((1 - 1) * sw <=? m)) with true by lia. now rewrite andb_true_r.
      - rewrite andb_false_r, andb_false_r. symmetry. apply small_bits with aw; [destruct HV; lia|assumption]. }
    rewrite HC. unfold get_common. rewrite Ea. cbn [bind]. now rewrite Brev, andb_false_r. }
  split; [exact Hget|]. split.
  { unfold wf_alt_group. cbv zeta. change (r_base r') with (r_base r). change (r_rev_sub r') with (r_rev_sub r). rewrite <- EW.
    split; [assumption|]. split; [assumption|]. split; [assumption|]. split; [assumption|]. split; [assumption|].
    exists s0', t'. rewrite Ew0. split; [exact Es'|]. split; [assumption|]. rewrite Hlen'. split; assumption. }
  split; [exact Hlen'|].
  intros j s s00 Hj H0 Hge. rewrite Es in H0. cbn in H0. injection H0 as <-. rewrite <- Esw in Hge.
  assert (HjA : (n <= j)%nat) by nia.
  unfold r' in Hj. cbn [r_subs set_subs_of] in Hj.
  rewrite nth_error_app2 in Hj by lia. unfold zeroed in Hj. rewrite nth_error_map in Hj.
  destruct (nth_error (skipn n (r_subs r)) (j - length A)) as [s1|] eqn:E1; [|discriminate]. cbn in Hj. injection Hj as <-.
  assert (Hs1 : wf_sreg s1) by (eapply Forall_forall in HF2; [exact HF2|eapply nth_error_In; eassumption]).
  pose proof Hs1 as (P1 & P2 & _). assert (Hz := zero_in_range _ P1).
  rewrite sreg_get_ok by (apply wf_set_value; [assumption|now apply view_range]). cbn. now rewrite view_involutive.
Qed.

(* the layout of finding C11-F2, now repaired *)
Example ex_alt_group_wf : wf_alt_group (ex_group false false [256]).
Proof.
  unfold wf_alt_group. cbv zeta. cbn [ex_group r_base r_subs r_rev_sub s_width s_reverse s_alt].
  split; [lia|]. split; [reflexivity|]. split; [reflexivity|]. split; [reflexivity|]. split.
  - apply Forall_forall. intros s Hs. apply wf_sreg_b_sound.
    assert (H : forallb (wf_sreg_b false) ex_subs = true) by (vm_compute; reflexivity). rewrite forallb_forall in H. now apply H.
  - eexists. eexists. split; [reflexivity|]. split; [|split; [vm_compute; reflexivity|]].
    + apply Forall_forall. intros s Hs.
      assert (H : forallb (fun s => s_width s =? 32) ex_subs = true) by (vm_compute; reflexivity). rewrite forallb_forall in H.
      specialize (H s Hs). cbn. lia.
    + constructor; [|constructor]. cbn. split; [lia|reflexivity].
Qed.

Lemma alt_group_step_lemma init g i r v raw : nth_error (g_regs g) i = Some r -> wf_alt_group r -> in_range (s_width (r_base r)) v ->
  exists g' r', step init g (OSetReg (Top i) (VInt v) raw) = (g', VList []) /\ nth_error (g_regs g') i = Some r' /\
                wf_alt_group r' /\ t_get g' (Top i) raw = Ok v.
Proof.
  intros E Hr Hv. destruct (alt_group_get_set_lemma (g_big g) r v raw Hr Hv) as (r' & aw & _ & S1 & S2 & S3 & _).
  assert (Hi : (i < length (g_regs g))%nat) by (apply nth_error_Some; congruence).
  exists (set_regs g (list_set (g_regs g) i r')), r'. cbn [step to_int bind t_set]. rewrite E, S1. cbn [bind vunit].
  split; [reflexivity|]. cbn [g_regs set_regs t_get g_big]. rewrite nth_error_list_set_same by assumption.
  split; [reflexivity|]. split; assumption.
Qed.
