(* Proofs/HabProofs.v -- lemmas about Model/HabModel.v (C07). *)
From Coq Require Import ZArith NArith List Bool Lia ZifyBool.
Require Import Value Bytes BytesProofs Sha2 Aes Modes CryptoProofs HabModel.
Import ListNotations.
Local Open Scope Z_scope.
Ltac Zify.zify_post_hook ::= Z.to_euclidean_division_equations.

(* ------------------------------------------------------------------ S0: byte-string basics *)
Lemma hlen_app {A} (l1 l2 : list A) : hlen (l1 ++ l2) = hlen l1 + hlen l2.
Proof. unfold hlen. rewrite app_length. lia. Qed.
Lemma hlen_nonneg {A} (l : list A) : 0 <= hlen l.
Proof. unfold hlen. lia. Qed.
Lemma hlen_cons {A} (x : A) l : hlen (x :: l) = 1 + hlen l.
Proof. unfold hlen. cbn [length]. lia. Qed.
Lemma hlen_nil {A} : hlen (@nil A) = 0.
Proof. reflexivity. Qed.
Lemma hlen_hzeros n : 0 <= n -> hlen (hzeros n) = n.
Proof. intros. unfold hlen, hzeros. rewrite repeat_length. lia. Qed.
Lemma hlen_hle w x : hlen (hle w x) = Z.of_nat w.
Proof. unfold hlen, hle. now rewrite le_enc_length. Qed.
Lemma hlen_hbe w x : hlen (hbe w x) = Z.of_nat w.
Proof. unfold hlen, hbe. now rewrite be_enc_length. Qed.
Lemma hlen_hdr t l p : hlen (hdr t l p) = 4.
Proof. unfold hdr. rewrite !hlen_app, !hlen_hbe. lia. Qed.

Lemma hslice_mid {A} (pre mid post : list A) a b :
  hlen pre = a -> hlen mid = b - a -> hslice (pre ++ mid ++ post) a b = mid.
Proof.
  unfold hlen, hslice, slice. intros Ha Hb.
  assert (Ea : Z.to_nat a = length pre) by lia.
  assert (Eb : (Z.to_nat b - length pre)%nat = length mid) by lia.
  rewrite Ea, Eb. rewrite skipn_app, skipn_all, Nat.sub_diag. cbn [skipn app].
  rewrite firstn_app, firstn_all, Nat.sub_diag. cbn [firstn]. now rewrite app_nil_r.
Qed.

Lemma hslice_pre {A} (mid post : list A) b : hlen mid = b -> hslice (mid ++ post) 0 b = mid.
Proof. intros. apply (hslice_mid [] mid post 0 b); [reflexivity | lia]. Qed.

Lemma hslice_end {A} (pre mid : list A) a b : hlen pre = a -> hlen mid = b - a -> hslice (pre ++ mid) a b = mid.
Proof. intros. rewrite <- (app_nil_r mid) at 1. now apply hslice_mid. Qed.

Lemma hskip_app {A} (pre post : list A) a : hlen pre = a -> hskip (pre ++ post) a = post.
Proof.
  unfold hlen, hskip. intros Ha. assert (E : Z.to_nat a = length pre) by lia.
  rewrite E, skipn_app, skipn_all, Nat.sub_diag. reflexivity.
Qed.

Lemma hskip_0 {A} (l : list A) : hskip l 0 = l.
Proof. reflexivity. Qed.

Lemma pow8 (w : nat) : Z.of_N (2 ^ (8 * N.of_nat w)) = 2 ^ (8 * Z.of_nat w).
Proof. rewrite N2Z.inj_pow, N2Z.inj_mul, nat_N_Z. reflexivity. Qed.

Lemma fits_spec w x : fits w x = true <-> 0 <= x < 2 ^ (8 * Z.of_nat w).
Proof. unfold fits. rewrite andb_true_iff, Z.leb_le, Z.ltb_lt. tauto. Qed.

Lemma hdec_le_hle w x : fits w x = true -> hdec_le (hle w x) = x.
Proof.
  rewrite fits_spec. intros [H0 H1]. unfold hdec_le, hle. rewrite le_dec_enc_small.
  - now apply Z2N.id.
  - apply N2Z.inj_lt. rewrite pow8, Z2N.id by assumption. assumption.
Qed.

Lemma hdec_be_hbe w x : fits w x = true -> hdec_be (hbe w x) = x.
Proof.
  rewrite fits_spec. intros [H0 H1]. unfold hdec_be, hbe. rewrite be_dec_enc_small.
  - now apply Z2N.id.
  - apply N2Z.inj_lt. rewrite pow8, Z2N.id by assumption. assumption.
Qed.

Lemma u32le_at_mid pre x post a : hlen pre = a -> fits 4 x = true -> u32le_at (pre ++ hle 4 x ++ post) a = x.
Proof. intros Ha Hx. unfold u32le_at. rewrite (hslice_mid pre (hle 4 x) post a (a + 4)); [now apply hdec_le_hle | assumption | rewrite hlen_hle; lia]. Qed.

Lemma u32be_at_mid pre x post a : hlen pre = a -> fits 4 x = true -> u32be_at (pre ++ hbe 4 x ++ post) a = x.
Proof. intros Ha Hx. unfold u32be_at. rewrite (hslice_mid pre (hbe 4 x) post a (a + 4)); [now apply hdec_be_hbe | assumption | rewrite hlen_hbe; lia]. Qed.

Lemma u16be_at_mid pre x post a : hlen pre = a -> fits 2 x = true -> u16be_at (pre ++ hbe 2 x ++ post) a = x.
Proof. intros Ha Hx. unfold u16be_at. rewrite (hslice_mid pre (hbe 2 x) post a (a + 2)); [now apply hdec_be_hbe | assumption | rewrite hlen_hbe; lia]. Qed.

Lemma hbe1_eq x : fits 1 x = true -> hbe 1 x = [Z.to_N x].
Proof.
  rewrite fits_spec. intros H. unfold hbe, be_enc. cbn [le_enc rev app].
  f_equal. apply N.mod_small. apply N2Z.inj_lt. rewrite Z2N.id by lia. change (Z.of_N 256) with 256. cbn in H. lia.
Qed.

Lemma hbyte_mid pre x post a : hlen pre = a -> fits 1 x = true -> hbyte (pre ++ hbe 1 x ++ post) a = x.
Proof.
  intros Ha Hx. unfold hbyte. rewrite hbe1_eq by assumption. unfold hlen in Ha.
  assert (E : Z.to_nat a = length pre) by lia. rewrite E, app_nth2, Nat.sub_diag by lia. cbn [app nth].
  apply Z2N.id. apply fits_spec in Hx. lia.
Qed.

Lemma hbyte_cons_mid pre (n : N) post a : hlen pre = a -> hbyte (pre ++ n :: post) a = Z.of_N n.
Proof.
  intros Ha. unfold hbyte. unfold hlen in Ha. assert (E : Z.to_nat a = length pre) by lia.
  rewrite E, app_nth2, Nat.sub_diag by lia. reflexivity.
Qed.

Lemma have_true l off n : off + n <= hlen l -> have l off n = true.
Proof. intros. unfold have. now apply Z.leb_le. Qed.

(* ------------------------------------------------------------------ S2: XMCD (SegXMCD.parse -> export) *)
(* specification: the XMCD header as the boot ROM reads it: size[7:0], type<<4 | size[11:8], interface<<4 | instance, 0xC0 *)
Definition xmcd_bytes (iface inst typ : Z) (cfg : list N) : list N :=
  let bs := 4 + hlen cfg in
  [Z.to_N (bs mod 256); Z.to_N (typ * 16 + bs / 256); Z.to_N (iface * 16 + inst); 192%N] ++ cfg.
Definition xmcd_wf (iface inst typ : Z) (cfg : list N) : Prop :=
  0 <= iface <= 1 /\ 0 <= inst <= 15 /\ 0 <= typ <= 1 /\ hlen cfg < 4092.

Lemma hbyte_0 (a : N) l : hbyte (a :: l) 0 = Z.of_N a. Proof. reflexivity. Qed.
Lemma hbyte_1 (a b : N) l : hbyte (a :: b :: l) 1 = Z.of_N b. Proof. reflexivity. Qed.
Lemma hbyte_2 (a b c : N) l : hbyte (a :: b :: c :: l) 2 = Z.of_N c. Proof. reflexivity. Qed.
Lemma hbyte_3 (a b c d : N) l : hbyte (a :: b :: c :: d :: l) 3 = Z.of_N d. Proof. reflexivity. Qed.

Lemma xmcd_load_spec iface inst typ cfg : xmcd_wf iface inst typ cfg ->
  xmcd_load (xmcd_bytes iface inst typ cfg) = Ok {| xm_if := iface; xm_inst := inst; xm_type := typ; xm_cfg := cfg |}.
Proof.
  intros (Hi & Hn & Ht & Hc). pose proof (hlen_nonneg cfg) as Hc0.
  unfold xmcd_load, xmcd_hdr_parse, xmcd_bytes.
  set (bs := 4 + hlen cfg).
  assert (Hlen : hlen ([Z.to_N (bs mod 256); Z.to_N (typ * 16 + bs / 256); Z.to_N (iface * 16 + inst); 192%N] ++ cfg) = bs).
  { rewrite hlen_app. unfold bs. reflexivity. }
  rewrite have_true by (rewrite Hlen; unfold bs; lia). cbn [negb bind].
  cbn [app]. rewrite hbyte_3, hbyte_2, hbyte_1, hbyte_0.
  change (hi4 (Z.of_N 192)) with 12. change (lo4 (Z.of_N 192)) with 0.
  change (12 =? 12) with true. change (0 =? 0) with true. cbn [negb].
  rewrite !Z2N.id by (unfold bs; lia).
  assert (E1 : hi4 (iface * 16 + inst) = iface) by (unfold hi4; lia).
  assert (E2 : lo4 (iface * 16 + inst) = inst) by (unfold lo4; lia).
  assert (E3 : hi4 (typ * 16 + bs / 256) = typ) by (unfold hi4, bs; lia).
  assert (E4 : lo4 (typ * 16 + bs / 256) * 256 + bs mod 256 = bs) by (unfold lo4, bs; lia).
  rewrite E1, E2, E3, E4.
  replace (iface <=? 1) with true by lia. replace (typ <=? 1) with true by lia. cbn [negb].
  change (Z.to_N (bs mod 256) :: Z.to_N (typ * 16 + bs / 256) :: Z.to_N (iface * 16 + inst) :: 192%N :: cfg)
    with ([Z.to_N (bs mod 256); Z.to_N (typ * 16 + bs / 256); Z.to_N (iface * 16 + inst); 192%N] ++ cfg).
  cbn [bind]. rewrite Hlen, Z.eqb_refl. cbn [negb]. f_equal. f_equal.
  apply hslice_end; [reflexivity | unfold bs; lia].
Qed.

Lemma xmcd_export_spec iface inst typ cfg : xmcd_wf iface inst typ cfg ->
  xmcd_export {| xm_if := iface; xm_inst := inst; xm_type := typ; xm_cfg := cfg |} = Ok (xmcd_bytes iface inst typ cfg).
Proof.
  intros (Hi & Hn & Ht & Hc). pose proof (hlen_nonneg cfg) as Hc0.
  unfold xmcd_export, xmcd_size, xmcd_bytes. cbn [xm_if xm_inst xm_type xm_cfg].
  set (bs := 4 + hlen cfg).
  assert (F1 : fits 1 (typ * 16 + bs / 256) = true)
    by (apply fits_spec; change (2 ^ (8 * Z.of_nat 1)) with 256; unfold bs; lia).
  assert (F2 : fits 1 (iface * 16 + inst) = true)
    by (apply fits_spec; change (2 ^ (8 * Z.of_nat 1)) with 256; lia).
  assert (F3 : fits 1 (bs mod 256) = true)
    by (apply fits_spec; change (2 ^ (8 * Z.of_nat 1)) with 256; lia).
  unfold all_fit. cbn [forallb]. rewrite F1, F2. cbn [andb].
  rewrite !hbe1_eq by assumption. reflexivity.
Qed.

(* SegXMCD.parse -> export is the identity for every interface (0, 1), instance (0..15), type (0, 1), size < 4096 *)
Lemma xmcd_roundtrip_all iface inst typ cfg : xmcd_wf iface inst typ cfg ->
  bind (xmcd_load (xmcd_bytes iface inst typ cfg)) xmcd_export = Ok (xmcd_bytes iface inst typ cfg).
Proof. intros H. rewrite xmcd_load_spec by assumption. cbn [bind]. now apply xmcd_export_spec. Qed.

Example xmcd_wf_nonvacuous : xmcd_wf 1 15 1 (repeat 7%N 60).
Proof. unfold xmcd_wf. cbn. lia. Qed.

(* ------------------------------------------------------------------ S4a: inversion of the build pipeline *)
Lemma ok_inj0 {A} (a b : A) : Ok a = Ok b -> a = b.
Proof. now inversion 1. Qed.

Lemma bind_ok {A B} (r : res A) (f : A -> res B) b : bind r f = Ok b -> exists a, r = Ok a /\ f a = Ok b.
Proof. destruct r; cbn; [eauto | discriminate]. Qed.

Lemma hab_pre_inv c q : hab_pre c = Ok q ->
  in_list (h_flags c) [0; 8; 12] = true /\ 0 <= h_ivt_off c <= h_ils c /\ 0 <= h_start c /\
  (match h_dcd c with None => q_dcd q = None | Some d => exists x, dcd_parse d = Ok x /\ q_dcd q = Some x end) /\
  (match h_xmcd c with None => q_xm q = None /\ q_xm_b q = None
                     | Some d => exists x xb, xmcd_load d = Ok x /\ q_xm q = Some x /\ xmcd_export x = Ok xb /\ q_xm_b q = Some xb end) /\
  ivt_export (c_ivt c) = Ok (q_ivt_b q) /\ bdt_export (h_start c) (c_bdt_len c) 0 = Ok (q_bdt_b q) /\
  (c_auth c = false -> q_cmds0 q = []).
Proof.
  unfold hab_pre. intros H.
  destruct (in_list (h_flags c) [0; 8; 12]) eqn:Ef; [|discriminate]. cbn [negb] in H.
  destruct ((h_ivt_off c <? 0) || (h_ils c <? h_ivt_off c) || (h_start c <? 0)) eqn:Eg; [discriminate|].
  apply bind_ok in H as (dcd & Hd & H). apply bind_ok in H as (xm & Hx & H). apply bind_ok in H as (cmds0 & Hc & H).
  apply bind_ok in H as (ivt_b & Hi & H). apply bind_ok in H as (bdt_b & Hb & H). apply bind_ok in H as (xm_b & Hxb & H).
  inversion H; subst q; clear H. cbn [q_dcd q_xm q_cmds0 q_ivt_b q_bdt_b q_xm_b].
  repeat split; try lia; try assumption.
  - destruct (h_dcd c); [|now inversion Hd]. destruct (dcd_parse l) eqn:E; cbn in Hd; [|discriminate]. inversion Hd. eauto.
  - destruct (h_xmcd c).
    + destruct (xmcd_load l) eqn:E; cbn in Hx; [|discriminate]. inversion Hx; subst xm.
      destruct (xmcd_export a) eqn:E2; cbn in Hxb; [|discriminate]. inversion Hxb. eauto 6.
    + inversion Hx; subst xm. inversion Hxb. split; reflexivity.
  - intros Ha. rewrite Ha in Hc. now inversion Hc.
Qed.

Lemma hab_update_inv c q cmds r : hab_update c q cmds = Ok r ->
  exists csf0 cmds1 app_fin eb nonce mac cmds2 cmds3 csf_b,
    csf_export (h_ver c) cmds = Ok csf0 /\
    (if c_enc c then hab_encrypt c cmds (padded_image c q csf0) = Ok (cmds1, app_fin, nonce, mac) /\ eb = enc_blocks c
     else cmds1 = cmds /\ app_fin = c_app_bin c /\ eb = [] /\ nonce = [] /\ mac = []) /\
    upd_auth 1 (set_blocks (signed_blocks c q) (Some (sigimg (h_ver c) (h_sig_data c)))) cmds1 = Some cmds2 /\
    existsb (fun b => hlen (padded_image c q csf0) <? fst b - h_start c + snd b) (signed_blocks c q) = false /\
    upd_auth 0 (set_blocks [] (Some (sigimg (h_ver c) (h_sig_csf c)))) cmds2 = Some cmds3 /\
    csf_export (h_ver c) cmds3 = Ok csf_b /\
    segs_ok [] (all_segs c q csf0 (c_app_bin c)) = true /\
    segs_ok [] (all_segs c q csf_b app_fin) = true /\
    r = (cmds3, mk_built c q (place (all_segs c q csf_b app_fin)) (signed_blocks c q) eb
                 (tbs_of c (padded_image c q csf0) (signed_blocks c q)) (csf_base (h_ver c) cmds3) csf_b app_fin nonce mac).
Proof.
  unfold hab_update. intros H. apply bind_ok in H as (csf0 & H0 & H).
  destruct (segs_ok [] (all_segs c q csf0 (c_app_bin c))) eqn:Es0; cbn [negb] in H; [|discriminate].
  apply bind_ok in H as (e & He & H).
  destruct e as [[[[cmds1 app_fin] eb] nonce] mac].
  destruct (upd_auth 1 _ cmds1) as [cmds2|] eqn:E2; [|discriminate].
  destruct (existsb _ (signed_blocks c q)) eqn:Ex; [discriminate|].
  destruct (upd_auth 0 _ cmds2) as [cmds3|] eqn:E3; [|discriminate].
  apply bind_ok in H as (csf_b & Hc & H).
  destruct (segs_ok [] (all_segs c q csf_b app_fin)) eqn:Es1; cbn [negb] in H; [|discriminate].
  inversion H; subst r; clear H.
  exists csf0, cmds1, app_fin, eb, nonce, mac, cmds2, cmds3, csf_b.
  repeat split; try assumption.
  destruct (c_enc c).
  - destruct (hab_encrypt c cmds (padded_image c q csf0)) as [[[[a1 a2] a3] a4]|] eqn:Ee; cbn in He; [|discriminate].
    inversion He; subst. split; reflexivity.
  - inversion He; subst. repeat split; reflexivity.
Qed.

Lemma hab_finish_inv c q b : hab_finish c q = Ok b ->
  exists csf0 cmds1 app_fin eb nonce mac cmds2 cmds3 csf_b,
    csf_export (h_ver c) (q_cmds0 q) = Ok csf0 /\
    (if c_enc c then hab_encrypt c (q_cmds0 q) (padded_image c q csf0) = Ok (cmds1, app_fin, nonce, mac) /\ eb = enc_blocks c
     else cmds1 = q_cmds0 q /\ app_fin = c_app_bin c /\ eb = [] /\ nonce = [] /\ mac = []) /\
    upd_auth 1 (set_blocks (signed_blocks c q) (Some (sigimg (h_ver c) (h_sig_data c)))) cmds1 = Some cmds2 /\
    existsb (fun b => hlen (padded_image c q csf0) <? fst b - h_start c + snd b) (signed_blocks c q) = false /\
    upd_auth 0 (set_blocks [] (Some (sigimg (h_ver c) (h_sig_csf c)))) cmds2 = Some cmds3 /\
    csf_export (h_ver c) cmds3 = Ok csf_b /\
    segs_ok [] (all_segs c q csf0 (c_app_bin c)) = true /\
    b = mk_built c q (place (all_segs c q csf_b app_fin)) (signed_blocks c q) eb
                 (tbs_of c (padded_image c q csf0) (signed_blocks c q)) (csf_base (h_ver c) cmds3) csf_b app_fin nonce mac.
Proof.
  unfold hab_finish. intros H. destruct (hab_update c q (q_cmds0 q)) as [r|] eqn:Eu; cbn [res_map] in H; [|discriminate].
  apply ok_inj0 in H. subst b.
  apply hab_update_inv in Eu as (csf0 & cmds1 & app_fin & eb & nonce & mac & cmds2 & cmds3 & csf_b & H0 & H1 & H2 & H3 & H4 & H5 & H6 & _ & ->).
  exists csf0, cmds1, app_fin, eb, nonce, mac, cmds2, cmds3, csf_b. repeat split; assumption.
Qed.

Lemma hab_build_inv c b : hab_build c = Ok b ->
  exists q, hab_pre c = Ok q /\
    (if c_auth c then hab_finish c q = Ok b
     else segs_ok [] (base_segs q ++ [(c_app_off c, c_app_bin c)]) = true /\
          b = mk_built c q (place (base_segs q ++ [(c_app_off c, c_app_bin c)])) [] [] [] [] [] (c_app_bin c) [] []).
Proof.
  unfold hab_build. intros H. apply bind_ok in H as (q & Hq & H). exists q. split; [assumption|].
  destruct (c_auth c); cbn [negb] in H; [assumption|].
  destruct (segs_ok [] (base_segs q ++ [(c_app_off c, c_app_bin c)])); cbn [negb] in H; [|discriminate].
  split; [reflexivity | now inversion H].
Qed.

(* ------------------------------------------------------------------ S6: the Authenticate Data / Decrypt Data block lists *)
Definition in_rng (p o s : Z) : Prop := o <= p < o + s.
(* offsets (from the IVT) of the bytes the property wants authenticated: IVT, boot-data slot, DCD, XMCD, application *)
Definition content_pos (c : hcfg) (q : pre) (p : Z) : Prop :=
  in_rng p 0 32 \/ in_rng p 32 32 \/
  (exists x, q_dcd q = Some x /\ in_rng p 64 (dcd_size x)) \/
  (exists x, q_xm q = Some x /\ in_rng p 64 (xmcd_size x)) \/
  in_rng p (c_app_off c) (hlen (c_app_bin c)).
(* p (offset from the IVT) lies in one of the listed (address, size) blocks *)
Definition in_blocks (c : hcfg) (bl : list (Z * Z)) (p : Z) : Prop :=
  exists b, In b bl /\ in_rng (c_self c + p) (fst b) (snd b).
Fixpoint disjoint_blocks (bl : list (Z * Z)) : Prop :=
  match bl with
  | [] => True
  | a :: t => Forall (fun b => fst a + snd a <= fst b \/ fst b + snd b <= fst a) t /\ disjoint_blocks t
  end.

Lemma blocks_cover c q :
  forall p, in_blocks c (signed_blocks c q ++ (if c_enc c then enc_blocks c else [])) p <-> content_pos c q p.
Proof.
  intros p. unfold in_blocks, content_pos, signed_blocks, enc_blocks, blk, in_rng, c_self, q_dcd_sz.
  destruct (q_dcd q) as [x|] eqn:Ed; destruct (q_xm q) as [y|] eqn:Ex; destruct (c_enc c); cbn [app]; split.
  all: try (intros (b & Hin & Hr); cbn [In] in Hin;
            repeat (destruct Hin as [<-|Hin]; [cbn [fst snd] in Hr | ]); try destruct Hin;
            first [ lia
                  | right; right; left; eexists; split; [reflexivity | lia]
                  | right; right; right; left; eexists; split; [reflexivity | lia] ]).
  all: intros [H | [H | [(x' & Ed' & H) | [(y' & Ex' & H) | H]]]]; try discriminate;
       try (inversion Ed'; subst x'); try (inversion Ex'; subst y').
  all: first [ eexists; split; [left; reflexivity | cbn [fst snd]; lia]
             | eexists; split; [right; left; reflexivity | cbn [fst snd]; lia]
             | eexists; split; [right; right; left; reflexivity | cbn [fst snd]; lia]
             | eexists; split; [right; right; right; left; reflexivity | cbn [fst snd]; lia] ].
Qed.

Definition q_xm_sz (q : pre) : Z := match q_xm q with Some x => xmcd_size x | None => 0 end.

Lemma blocks_disjoint c q : (q_dcd q = None \/ q_xm q = None) -> 0 <= q_dcd_sz q ->
  64 + q_dcd_sz q + q_xm_sz q <= c_app_off c ->
  disjoint_blocks (signed_blocks c q ++ (if c_enc c then enc_blocks c else [])).
Proof.
  intros Hone H0 H1. unfold signed_blocks, enc_blocks, blk.
  pose proof (hlen_nonneg (c_app_bin c)) as Hn.
  unfold q_dcd_sz, q_xm_sz, xmcd_size in *.
  destruct (q_dcd q) eqn:Ed; destruct (q_xm q) as [y|] eqn:Ex; try (destruct Hone; discriminate);
    try pose proof (hlen_nonneg (xm_cfg y)); destruct (c_enc c); cbn [app disjoint_blocks fst snd];
    repeat match goal with
           | |- _ /\ _ => split
           | |- Forall _ [] => constructor
           | |- Forall _ (_ :: _) => constructor
           | |- True => exact I
           end; cbn [fst snd]; lia.
Qed.

(* ------------------------------------------------------------------ S3: BinaryImage export of non-overlapping segments *)
Lemma firstn_repeat {A} (x : A) n k : firstn k (repeat x n) = repeat x (Nat.min k n).
Proof. revert k; induction n; intros [|k]; cbn; try reflexivity. now rewrite IHn. Qed.
Lemma skipn_repeat {A} (x : A) n k : skipn k (repeat x n) = repeat x (n - k).
Proof. revert k; induction n; intros [|k]; cbn; try reflexivity. now rewrite IHn. Qed.
Lemma hzeros_0 : hzeros 0 = []. Proof. reflexivity. Qed.
Lemma hzeros_eq a b : a = b -> hzeros a = hzeros b. Proof. now intros ->. Qed.

Fixpoint layout (pos : Z) (l : list seg) : list N :=
  match l with [] => [] | s :: t => hzeros (fst s - pos) ++ snd s ++ layout (fst s + hlen (snd s)) t end.
Fixpoint chain (pos : Z) (l : list seg) : Prop :=
  match l with [] => True | s :: t => pos <= fst s /\ chain (fst s + hlen (snd s)) t end.
Fixpoint chain_end (pos : Z) (l : list seg) : Z :=
  match l with [] => pos | s :: t => chain_end (fst s + hlen (snd s)) t end.

Lemma chain_end_ge l : forall pos, chain pos l -> pos <= chain_end pos l.
Proof.
  induction l as [|s t IH]; intros pos H; cbn in *; [lia|]. destruct H as [H1 H2].
  specialize (IH _ H2). pose proof (hlen_nonneg (snd s)). lia.
Qed.

Lemma write_seg_zeros pre n s : 0 <= n -> hlen pre <= fst s -> fst s + hlen (snd s) <= hlen pre + n ->
  write_seg (pre ++ hzeros n) s
  = (pre ++ hzeros (fst s - hlen pre) ++ snd s) ++ hzeros (hlen pre + n - (fst s + hlen (snd s))).
Proof.
  intros Hn H1 H2. pose proof (hlen_nonneg pre) as Hp. pose proof (hlen_nonneg (snd s)) as Hd.
  unfold write_seg, splice, hzeros, hlen in *.
  rewrite firstn_app, skipn_app, firstn_repeat, skipn_repeat.
  rewrite firstn_all2 by lia. rewrite skipn_all2 by lia. cbn [app].
  rewrite <- !app_assoc. f_equal. f_equal; [f_equal; lia|]. f_equal. f_equal. lia.
Qed.

Lemma fold_write l : forall pre n, 0 <= n -> chain (hlen pre) l -> chain_end (hlen pre) l <= hlen pre + n ->
  fold_left write_seg l (pre ++ hzeros n) = pre ++ layout (hlen pre) l ++ hzeros (hlen pre + n - chain_end (hlen pre) l).
Proof.
  induction l as [|s t IH]; intros pre n Hn Hc He; cbn [fold_left layout chain chain_end] in *.
  - cbn [app]. f_equal. apply hzeros_eq. lia.
  - destruct Hc as [Hc1 Hc2]. pose proof (chain_end_ge _ _ Hc2) as Hge. pose proof (hlen_nonneg (snd s)) as Hd.
    rewrite write_seg_zeros by lia.
    set (pre' := pre ++ hzeros (fst s - hlen pre) ++ snd s).
    assert (Hl : hlen pre' = fst s + hlen (snd s)).
    { unfold pre'. rewrite !hlen_app, hlen_hzeros by lia. lia. }
    rewrite IH; rewrite ?Hl; try assumption; try lia.
    unfold pre'. rewrite <- !app_assoc. do 4 f_equal. apply hzeros_eq. lia.
Qed.

Lemma place_sorted l : chain 0 (sort_segs l) -> segs_len l = chain_end 0 (sort_segs l) -> place l = layout 0 (sort_segs l).
Proof.
  intros Hc He. unfold place. pose proof (chain_end_ge _ _ Hc) as Hge.
  pose proof (fold_write (sort_segs l) [] (segs_len l)) as H. cbn [app] in H. change (hlen (@nil N)) with 0 in H.
  rewrite H by (try assumption; lia). rewrite He. replace (0 + chain_end 0 (sort_segs l) - chain_end 0 (sort_segs l)) with 0 by lia.
  rewrite hzeros_0. now rewrite app_nil_r.
Qed.

Lemma ins_seg_nil s : ins_seg s [] = [s]. Proof. reflexivity. Qed.
Lemma ins_seg_lt s c t : fst s < fst c -> ins_seg s (c :: t) = s :: c :: t.
Proof. intros H. cbn [ins_seg]. now replace (fst s <? fst c) with true by lia. Qed.
Lemma ins_seg_ge s c t : fst c <= fst s -> ins_seg s (c :: t) = c :: ins_seg s t.
Proof. intros H. cbn [ins_seg]. now replace (fst s <? fst c) with false by lia. Qed.

Ltac sort_segs_tac :=
  unfold sort_segs; cbn [fold_left app opt_seg];
  repeat first [ rewrite ins_seg_nil | rewrite ins_seg_lt by (cbn [fst]; lia) | rewrite ins_seg_ge by (cbn [fst]; lia) ].

Ltac app_eq :=
  repeat match goal with
         | |- ?x = ?x => reflexivity
         | |- ?a ++ _ = ?a ++ _ => apply (f_equal (app a))
         | |- hzeros _ ++ _ = hzeros _ ++ _ => apply f_equal2; [apply hzeros_eq; lia|]
         | |- hzeros _ = hzeros _ => apply hzeros_eq; lia
         end.

(* the two image shapes: authenticated (CSF last) and plain *)
Lemma place_auth ivt_b bdt_b dxo ap csf app_off csf_off :
  hlen ivt_b = 32 -> hlen bdt_b = 12 -> 64 + hlen (of_opt dxo) <= app_off -> app_off + hlen ap <= csf_off ->
  app_off < csf_off ->
  place ([(0, ivt_b); (32, bdt_b)] ++ opt_seg 64 dxo ++ [(csf_off, csf); (app_off, ap)]) =
  ivt_b ++ bdt_b ++ hzeros 20 ++ of_opt dxo ++ hzeros (app_off - 64 - hlen (of_opt dxo)) ++ ap
        ++ hzeros (csf_off - app_off - hlen ap) ++ csf.
Proof.
  intros Hi Hb H1 H2 H3. pose proof (hlen_nonneg ap) as Ha. pose proof (hlen_nonneg csf) as Hc.
  pose proof (hlen_nonneg (of_opt dxo)) as Hd.
  destruct dxo as [dx|]; cbn [of_opt] in *.
  - assert (Es : sort_segs ([(0, ivt_b); (32, bdt_b)] ++ opt_seg 64 (Some dx) ++ [(csf_off, csf); (app_off, ap)])
                 = [(0, ivt_b); (32, bdt_b); (64, dx); (app_off, ap); (csf_off, csf)]) by (sort_segs_tac; reflexivity).
    rewrite place_sorted; rewrite Es.
    + cbn [layout fst snd]. rewrite Hi, Hb, app_nil_r. cbn [app].
      change (hzeros (0 - 0)) with (@nil N). change (hzeros (32 - (0 + 32))) with (@nil N). cbn [app].
      change (64 - (32 + 12)) with 20. app_eq.
    + cbn [chain fst snd]. rewrite Hi, Hb. lia.
    + cbn [opt_seg app segs_len fold_right chain_end fst snd]. rewrite Hi, Hb. lia.
  - assert (Es : sort_segs ([(0, ivt_b); (32, bdt_b)] ++ opt_seg 64 None ++ [(csf_off, csf); (app_off, ap)])
                 = [(0, ivt_b); (32, bdt_b); (app_off, ap); (csf_off, csf)]) by (sort_segs_tac; reflexivity).
    rewrite place_sorted; rewrite Es.
    + cbn [layout fst snd]. rewrite Hi, Hb, app_nil_r. cbn [app].
      change (hzeros (0 - 0)) with (@nil N). change (hzeros (32 - (0 + 32))) with (@nil N). cbn [app].
      rewrite hlen_nil.
      replace (hzeros (app_off - (32 + 12))) with (hzeros 20 ++ hzeros (app_off - 64 - 0)).
      2:{ unfold hzeros. rewrite <- repeat_app. f_equal. lia. }
      rewrite <- !app_assoc. cbn [app]. app_eq.
    + cbn [chain fst snd]. rewrite Hi, Hb. cbn [hlen length] in *. lia.
    + cbn [opt_seg app segs_len fold_right chain_end fst snd]. rewrite Hi, Hb. cbn [hlen length] in *. lia.
Qed.

Lemma place_plain ivt_b bdt_b dxo ap app_off :
  hlen ivt_b = 32 -> hlen bdt_b = 12 -> 64 + hlen (of_opt dxo) <= app_off ->
  place ([(0, ivt_b); (32, bdt_b)] ++ opt_seg 64 dxo ++ [(app_off, ap)]) =
  ivt_b ++ bdt_b ++ hzeros 20 ++ of_opt dxo ++ hzeros (app_off - 64 - hlen (of_opt dxo)) ++ ap.
Proof.
  intros Hi Hb H1. pose proof (hlen_nonneg ap) as Ha. pose proof (hlen_nonneg (of_opt dxo)) as Hd.
  destruct dxo as [dx|]; cbn [of_opt] in *.
  - assert (Es : sort_segs ([(0, ivt_b); (32, bdt_b)] ++ opt_seg 64 (Some dx) ++ [(app_off, ap)])
                 = [(0, ivt_b); (32, bdt_b); (64, dx); (app_off, ap)]) by (sort_segs_tac; reflexivity).
    rewrite place_sorted; rewrite Es.
    + cbn [layout fst snd]. rewrite Hi, Hb, app_nil_r. cbn [app].
      change (hzeros (0 - 0)) with (@nil N). change (hzeros (32 - (0 + 32))) with (@nil N). cbn [app].
      change (64 - (32 + 12)) with 20. app_eq.
    + cbn [chain fst snd]. rewrite Hi, Hb. lia.
    + cbn [opt_seg app segs_len fold_right chain_end fst snd]. rewrite Hi, Hb. lia.
  - assert (Es : sort_segs ([(0, ivt_b); (32, bdt_b)] ++ opt_seg 64 None ++ [(app_off, ap)])
                 = [(0, ivt_b); (32, bdt_b); (app_off, ap)]) by (sort_segs_tac; reflexivity).
    rewrite place_sorted; rewrite Es.
    + cbn [layout fst snd]. rewrite Hi, Hb, app_nil_r. cbn [app].
      change (hzeros (0 - 0)) with (@nil N). change (hzeros (32 - (0 + 32))) with (@nil N). cbn [app].
      rewrite hlen_nil.
      replace (hzeros (app_off - (32 + 12))) with (hzeros 20 ++ hzeros (app_off - 64 - 0)).
      2:{ unfold hzeros. rewrite <- repeat_app. f_equal. lia. }
      rewrite <- !app_assoc. cbn [app]. app_eq.
    + cbn [chain fst snd]. rewrite Hi, Hb. cbn [hlen length] in *. lia.
    + cbn [opt_seg app segs_len fold_right chain_end fst snd]. rewrite Hi, Hb. cbn [hlen length] in *. lia.
Qed.

(* ------------------------------------------------------------------ S1: IVT / boot data codecs *)
Lemma hle4_cells z : exists b0 b1 b2 b3, hle 4 z = [b0; b1; b2; b3].
Proof. unfold hle. cbn [le_enc]. eauto. Qed.

Lemma ok_inj {A} (a b : A) : Ok a = Ok b -> a = b.
Proof. now inversion 1. Qed.

Lemma and_fits (a b : bool) : a && b = true -> a = true /\ b = true.
Proof. apply andb_true_iff. Qed.

Lemma ivt_parse_export i b rest : ivt_export i = Ok b -> iv_bdt i = iv_self i + 32 ->
  ivt_parse (b ++ rest) = Ok i /\ hlen b = 32.
Proof.
  destruct i as [v a d bd s cs]. unfold ivt_export, ivt_words. cbn [iv_ver iv_app iv_dcd iv_bdt iv_self iv_csf].
  intros H Hb.
  destruct (ivt_valid _ 0) eqn:Ev; cbn [negb] in H; [|discriminate].
  destruct (all_fit 4 [a; 0; d; bd; s; cs; 0] && fits 1 v) eqn:Ef; cbn [negb] in H; [|discriminate].
  apply ok_inj in H; subst b.
  apply and_fits in Ef as [Ef Fv]. unfold all_fit in Ef. cbn [forallb] in Ef.
  apply and_fits in Ef as [Fa Ef]. apply and_fits in Ef as [_ Ef]. apply and_fits in Ef as [Fd Ef].
  apply and_fits in Ef as [Fb Ef]. apply and_fits in Ef as [Fs Ef]. apply and_fits in Ef as [Fc _].
  cbn [map concat]. unfold hdr. change (hbe 1 209) with [209%N]. change (hbe 2 32) with [0%N; 32%N].
  rewrite (hbe1_eq v) by assumption.
  destruct (hle4_cells a) as (a0 & a1 & a2 & a3 & Ea). destruct (hle4_cells 0) as (z0 & z1 & z2 & z3 & Ez).
  destruct (hle4_cells d) as (d0 & d1 & d2 & d3 & Ed). destruct (hle4_cells bd) as (b0 & b1 & b2 & b3 & Eb).
  destruct (hle4_cells s) as (s0 & s1 & s2 & s3 & Es). destruct (hle4_cells cs) as (c0 & c1 & c2 & c3 & Ec).
  rewrite Ea, Ez, Ed, Eb, Es, Ec. cbn [app]. split; [|reflexivity].
  unfold ivt_parse.
  rewrite have_true by (unfold hlen; cbn [length]; lia). cbn [negb].
  rewrite hbyte_0. change (Z.of_N 209 =? 209) with true. cbn [negb].
  unfold u16be_at, u32le_at.
  match goal with |- context[hslice ?D 1 (1 + 2)] => change (hslice D 1 (1 + 2)) with [0%N; 32%N] end.
  change (hdec_be [0%N; 32%N]) with 32. change (32 <? 4) with false. cbn iota.
  rewrite have_true by (unfold hlen; cbn [length]; lia). cbn [negb].
  rewrite hbyte_3.
  match goal with |- context[hslice ?D 4 (4 + 4)] => change (hslice D 4 (4 + 4)) with [a0; a1; a2; a3] end.
  match goal with |- context[hslice ?D 12 (12 + 4)] => change (hslice D 12 (12 + 4)) with [d0; d1; d2; d3] end.
  match goal with |- context[hslice ?D 16 (16 + 4)] => change (hslice D 16 (16 + 4)) with [b0; b1; b2; b3] end.
  match goal with |- context[hslice ?D 20 (20 + 4)] => change (hslice D 20 (20 + 4)) with [s0; s1; s2; s3] end.
  match goal with |- context[hslice ?D 24 (24 + 4)] => change (hslice D 24 (24 + 4)) with [c0; c1; c2; c3] end.
  rewrite <- Ea, <- Ed, <- Eb, <- Es, <- Ec. rewrite !hdec_le_hle by assumption.
  rewrite Z2N.id by (apply fits_spec in Fv; lia).
  cbn [iv_bdt iv_self]. replace (bd - s - 32) with 0 by lia. rewrite Ev. reflexivity.
Qed.

Lemma bdt_parse_export st ln b rest : bdt_export st ln 0 = Ok b ->
  bdt_parse (b ++ rest) = Ok (st, ln, 0) /\ hlen b = 12.
Proof.
  unfold bdt_export. intros H. destruct (all_fit 4 [st; ln; 0]) eqn:Ef; [|discriminate]. apply ok_inj in H; subst b.
  unfold all_fit in Ef. cbn [forallb] in Ef. apply and_fits in Ef as [Fs Ef]. apply and_fits in Ef as [Fl _].
  destruct (hle4_cells st) as (s0 & s1 & s2 & s3 & Es). destruct (hle4_cells ln) as (l0 & l1 & l2 & l3 & El).
  destruct (hle4_cells 0) as (z0 & z1 & z2 & z3 & Ez).
  assert (Hz : hdec_le [z0; z1; z2; z3] = 0) by (rewrite <- Ez; now apply hdec_le_hle).
  rewrite Es, El, Ez. cbn [app]. split; [|reflexivity].
  unfold bdt_parse. rewrite have_true by (unfold hlen; cbn [length]; lia). cbn [negb].
  unfold u32le_at.
  match goal with |- context[hslice ?D 8 (8 + 4)] => change (hslice D 8 (8 + 4)) with [z0; z1; z2; z3] end.
  match goal with |- context[hslice ?D 0 (0 + 4)] => change (hslice D 0 (0 + 4)) with [s0; s1; s2; s3] end.
  match goal with |- context[hslice ?D 4 (4 + 4)] => change (hslice D 4 (4 + 4)) with [l0; l1; l2; l3] end.
  rewrite Hz. change (0 <=? 2) with true. cbn iota. rewrite <- Es, <- El. now rewrite !hdec_le_hle by assumption.
Qed.

(* ------------------------------------------------------------------ S5: shape of the exported image *)
Lemma halign_ge n a : 0 < a -> 0 <= n -> n <= halign n a < n + a.
Proof. intros. unfold halign. lia. Qed.

Lemma hlen_pad_to a l : 0 < a -> hlen (pad_to a l) = halign (hlen l) a.
Proof.
  intros Ha. unfold pad_to. pose proof (hlen_nonneg l). pose proof (halign_ge (hlen l) a Ha H).
  rewrite hlen_app, hlen_hzeros by lia. lia.
Qed.

Lemma csf_after_app c : 0 <= h_ivt_off c <= h_ils c -> c_app_off c < c_csf_off c.
Proof.
  intros H. unfold c_csf_off, c_app_off, align_off. pose proof (hlen_nonneg (h_app c)) as Hn. lia.
Qed.

(* DCD and XMCD bytes at IVT+0x40 (at most one of them under layout_full) *)
Definition q_dx (q : pre) : option (list N) := match q_dcd_b q with Some d => Some d | None => q_xm_b q end.

(* a DCD object is stable when parsing its own export gives it back (proved for specification-encoded DCDs: dcd_roundtrip) *)
Definition dcd_stable (x : dcd) : Prop := forall rest, dcd_parse (dcd_export x ++ rest) = Ok x.

Definition layout_full (c : hcfg) (q : pre) : Prop :=
  (q_dcd q = None \/ q_xm q = None) /\
  64 + hlen (of_opt (q_dx q)) <= c_app_off c /\ 68 <= c_app_off c /\
  (c_auth c = true -> c_app_off c + hlen (c_app_bin c) <= c_csf_off c /\ c_app_off c < c_csf_off c) /\
  (forall x, q_dcd q = Some x -> hi4 (dc_par x) <> 12 /\ fits 1 (dc_par x) = true /\ fits 2 (dcd_size x) = true /\ dcd_stable x) /\
  (forall x, q_xm q = Some x -> xmcd_wf (xm_if x) (xm_inst x) (xm_type x) (xm_cfg x)).

Lemma base_segs_dx q : (q_dcd q = None \/ q_xm q = None) -> (q_xm q = None -> q_xm_b q = None) ->
  base_segs q = [(0, q_ivt_b q); (32, q_bdt_b q)] ++ opt_seg 64 (q_dx q).
Proof.
  intros H Hx. unfold base_segs, q_dx, q_dcd_b. destruct H as [H | H].
  - rewrite H. reflexivity.
  - rewrite (Hx H). destruct (q_dcd q); cbn [option_map opt_seg]; now rewrite ?app_nil_r.
Qed.

Definition image_shape (q : pre) (app_off : Z) (ap tail : list N) : list N :=
  q_ivt_b q ++ q_bdt_b q ++ hzeros 20 ++ of_opt (q_dx q) ++ hzeros (app_off - 64 - hlen (of_opt (q_dx q))) ++ ap ++ tail.

Lemma pre_lens c q : hab_pre c = Ok q -> hlen (q_ivt_b q) = 32 /\ hlen (q_bdt_b q) = 12 /\ (q_xm q = None -> q_xm_b q = None).
Proof.
  intros Hq. apply hab_pre_inv in Hq as (_ & _ & _ & _ & Hx & Hi & Hb & _).
  split; [|split].
  - assert (E : iv_bdt (c_ivt c) = iv_self (c_ivt c) + 32) by reflexivity.
    exact (proj2 (ivt_parse_export _ _ [] Hi E)).
  - exact (proj2 (bdt_parse_export _ _ _ [] Hb)).
  - intros Hn. destruct (h_xmcd c); [|tauto]. destruct Hx as (x & xb & _ & E & _). congruence.
Qed.

(* plain image *)
Lemma plain_image_shape c q b : hab_build c = Ok b -> hab_pre c = Ok q -> c_auth c = false -> layout_full c q ->
  b_image b = image_shape q (c_app_off c) (c_app_bin c) [] /\ b_app b = c_app_bin c.
Proof.
  intros Hb Hq Ha (W1 & W2 & _).
  apply hab_build_inv in Hb as (q' & Hq' & Hb). rewrite Hq in Hq'. apply ok_inj in Hq'; subst q'. rewrite Ha in Hb. destruct Hb as [_ ->].
  destruct (pre_lens c q Hq) as (Li & Lb & Lx).
  cbn [mk_built b_image b_app]. split; [|reflexivity].
  rewrite base_segs_dx by assumption. rewrite <- app_assoc.
  rewrite place_plain by assumption. unfold image_shape. now rewrite app_nil_r.
Qed.

(* authenticated image: everything before the CSF *)
Definition prefix_shape (q : pre) (app_off : Z) (ap : list N) (csf_off : Z) : list N :=
  q_ivt_b q ++ q_bdt_b q ++ hzeros 20 ++ of_opt (q_dx q) ++ hzeros (app_off - 64 - hlen (of_opt (q_dx q))) ++ ap
  ++ hzeros (csf_off - app_off - hlen ap).

Lemma image_prefix q app_off ap csf_off csf :
  image_shape q app_off ap (hzeros (csf_off - app_off - hlen ap) ++ csf) = prefix_shape q app_off ap csf_off ++ csf.
Proof. unfold image_shape, prefix_shape. now rewrite <- !app_assoc. Qed.

Lemma hlen_prefix q app_off ap csf_off : hlen (q_ivt_b q) = 32 -> hlen (q_bdt_b q) = 12 ->
  64 + hlen (of_opt (q_dx q)) <= app_off -> app_off + hlen ap <= csf_off ->
  hlen (prefix_shape q app_off ap csf_off) = csf_off.
Proof.
  intros Hi Hb H1 H2. unfold prefix_shape. pose proof (hlen_nonneg ap). pose proof (hlen_nonneg (of_opt (q_dx q))).
  rewrite !hlen_app, Hi, Hb, !hlen_hzeros by lia. lia.
Qed.

Lemma firstn_app_exact {A} (x y : list A) n : hlen x = n -> firstn (Z.to_nat n) (x ++ y) = x.
Proof.
  unfold hlen. intros H. assert (E : Z.to_nat n = length x) by lia. rewrite E, firstn_app, Nat.sub_diag, firstn_all.
  cbn [firstn]. apply app_nil_r.
Qed.

Lemma auth_place c q csf ap : hab_pre c = Ok q -> c_auth c = true -> layout_full c q -> hlen ap = hlen (c_app_bin c) ->
  place (all_segs c q csf ap) = prefix_shape q (c_app_off c) ap (c_csf_off c) ++ csf.
Proof.
  intros Hq Ha (W1 & W2 & W3 & W4 & _) Hl. unfold all_segs.
  destruct (pre_lens c q Hq) as (Li & Lb & Lx).
  pose proof (hab_pre_inv c q Hq) as (_ & Hg & _).
  first [destruct (W4 Ha) as [G1 G2] | destruct (W4 eq_refl) as [G1 G2]].
  rewrite base_segs_dx by assumption. rewrite <- app_assoc.
  rewrite place_auth by (try assumption; lia). apply image_prefix.
Qed.

Lemma padded_image_eq c q csf0 : hab_pre c = Ok q -> c_auth c = true -> layout_full c q ->
  padded_image c q csf0 = hzeros (h_ivt_off c) ++ prefix_shape q (c_app_off c) (c_app_bin c) (c_csf_off c).
Proof.
  intros Hq Ha W. unfold padded_image. rewrite (auth_place c q csf0 (c_app_bin c)) by (try assumption; reflexivity).
  rewrite app_assoc. apply firstn_app_exact.
  destruct W as (W1 & W2 & W3 & W4 & _). destruct (pre_lens c q Hq) as (Li & Lb & Lx).
  pose proof (hab_pre_inv c q Hq) as (_ & Hg & _). first [destruct (W4 Ha) as [G1 G2] | destruct (W4 eq_refl) as [G1 G2]].
  rewrite hlen_app, hlen_hzeros, hlen_prefix by (try assumption; lia). reflexivity.
Qed.

(* the bytes CsfHabSegment.encrypt reads from the padded image are the (padded) application *)
Lemma padded_app_slice c q csf0 : hab_pre c = Ok q -> c_auth c = true -> layout_full c q ->
  hslice (padded_image c q csf0) (h_ivt_off c + c_app_off c) (h_ivt_off c + c_app_off c + hlen (c_app_bin c)) = c_app_bin c.
Proof.
  intros Hq Ha W. rewrite padded_image_eq by assumption. unfold prefix_shape.
  destruct W as (W1 & W2 & W3 & W4 & _). destruct (pre_lens c q Hq) as (Li & Lb & Lx).
  pose proof (hab_pre_inv c q Hq) as (_ & Hg & _). pose proof (hlen_nonneg (of_opt (q_dx q))) as Hd.
  rewrite !app_assoc. rewrite <- (app_assoc _ (c_app_bin c)).
  apply hslice_mid; [|lia].
  rewrite !hlen_app, Li, Lb, !hlen_hzeros by lia. lia.
Qed.

Lemma ccm_encrypt_length E nonce t p : (forall b, length b = 16%nat -> length (E b) = 16%nat) ->
  (length nonce <= 14)%nat -> (t <= 16)%nat -> length (ccm_encrypt E nonce [] t p) = (length p + t)%nat.
Proof.
  intros HE Hn Ht. unfold ccm_encrypt. rewrite app_length, ccm_crypt_length, ccm_tag_length by assumption. reflexivity.
Qed.

(* ------------------------------------------------------------------ S10: encryption *)
Lemma enc_implies_auth c : in_list (h_flags c) [0; 8; 12] = true -> c_enc c = true -> c_auth c = true.
Proof.
  unfold in_list, c_enc, c_auth. cbn [existsb]. intros H He.
  destruct (h_flags c =? 0) eqn:E0; [apply Z.eqb_eq in E0; rewrite E0 in He; discriminate|].
  destruct (h_flags c =? 8) eqn:E8; [apply Z.eqb_eq in E8; rewrite E8 in He; discriminate|].
  destruct (h_flags c =? 12) eqn:E12; [apply Z.eqb_eq in E12; rewrite E12; reflexivity | discriminate].
Qed.

Lemma hab_encrypt_facts c cmds img cmds1 ct nonce mac :
  hab_encrypt c cmds img = Ok (cmds1, ct, nonce, mac) -> wf_bytes (h_dek c) ->
  ct ++ mac = ccm_encrypt (aes_enc (h_dek c)) nonce [] (Z.to_nat (h_mac_len c))
                          (hslice img (h_ivt_off c + c_app_off c) (h_ivt_off c + c_app_off c + hlen (c_app_bin c))) /\
  length ct = length (hslice img (h_ivt_off c + c_app_off c) (h_ivt_off c + c_app_off c + hlen (c_app_bin c))) /\
  (length nonce <= 14)%nat /\ (Z.to_nat (h_mac_len c) <= 16)%nat /\ aes_key_ok (h_dek c) = true.
Proof.
  unfold hab_encrypt. intros H Hw.
  set (plain := hslice img (h_ivt_off c + c_app_off c) (h_ivt_off c + c_app_off c + hlen (c_app_bin c))) in *.
  set (nonce0 := match h_nonce c with Some n => n | None => rng_bytes (aead_nonce_len (hlen img)) end) in *.
  destruct (Z.leb 7 (hlen nonce0) && Z.leb (hlen nonce0) 13 && ccm_tag_ok (h_mac_len c)
            && ccm_len_ok nonce0 (length plain) && aes_key_ok (h_dek c)) eqn:Ec; cbn [negb] in H; [|discriminate].
  apply and_fits in Ec as [Ec Ek]. apply and_fits in Ec as [Ec _]. apply and_fits in Ec as [Ec Et].
  apply and_fits in Ec as [_ En].
  destruct (upd_auth 2 _ cmds); [|discriminate]. apply ok_inj in H. inversion H; subst; clear H.
  assert (Hn : (length nonce0 <= 14)%nat) by (unfold hlen in En; lia).
  assert (Ht : (Z.to_nat (h_mac_len c) <= 16)%nat) by (unfold ccm_tag_ok in Et; lia).
  assert (HE : forall b, length b = 16%nat -> length (aes_enc (h_dek c) b) = 16%nat)
    by (intros; now apply aes_enc_length).
  repeat split; try assumption.
  - now rewrite firstn_skipn.
  - rewrite firstn_length, ccm_encrypt_length by assumption. lia.
Qed.

Lemma app5 {A} (a b c d e r : list A) : a ++ b ++ c ++ d ++ e ++ r = (a ++ b ++ c ++ d ++ e) ++ r.
Proof. now rewrite <- !app_assoc. Qed.

Lemma hslice_prefix_app q app_off ap csf_off csf : hlen (q_ivt_b q) = 32 -> hlen (q_bdt_b q) = 12 ->
  64 + hlen (of_opt (q_dx q)) <= app_off ->
  hslice (prefix_shape q app_off ap csf_off ++ csf) app_off (app_off + hlen ap) = ap.
Proof.
  intros Li Lb H1. unfold prefix_shape. pose proof (hlen_nonneg (of_opt (q_dx q))) as Hd.
  rewrite <- !app_assoc. rewrite app5.
  apply hslice_mid; [|lia]. rewrite !hlen_app, Li, Lb, !hlen_hzeros by lia. lia.
Qed.

Lemma enc_build_facts c b q : hab_build c = Ok b -> hab_pre c = Ok q -> c_enc c = true -> layout_full c q -> wf_bytes (h_dek c) ->
  b_image b = prefix_shape q (c_app_off c) (b_app b) (c_csf_off c) ++ b_csf b /\
  hlen (b_app b) = hlen (c_app_bin c) /\
  b_app b ++ b_mac b = ccm_encrypt (aes_enc (h_dek c)) (b_nonce b) [] (Z.to_nat (h_mac_len c)) (c_app_bin c) /\
  (length (b_nonce b) <= 14)%nat /\ (Z.to_nat (h_mac_len c) <= 16)%nat /\ aes_key_ok (h_dek c) = true /\
  b_enc b = enc_blocks c.
Proof.
  intros Hb Hq He W Hw.
  pose proof (hab_pre_inv c q Hq) as (Hf & _).
  pose proof (enc_implies_auth c Hf He) as Ha.
  apply hab_build_inv in Hb as (q' & Hq' & Hb). rewrite Hq in Hq'. apply ok_inj in Hq'; subst q'. rewrite Ha in Hb.
  apply hab_finish_inv in Hb as (csf0 & cmds1 & app_fin & eb & nonce & mac & cmds2 & cmds3 & csf_b & H0 & H1 & _ & _ & _ & _ & Hso & Hbb).
  rewrite He in H1. destruct H1 as [Henc ->]. subst b. cbn [mk_built b_image b_app b_mac b_nonce b_csf b_enc].
  pose proof (hab_encrypt_facts c _ _ _ _ _ _ Henc Hw) as (F1 & F2 & F3 & F4 & F5).
  rewrite padded_app_slice in F1, F2 by assumption.
  assert (Hl : hlen app_fin = hlen (c_app_bin c)) by (unfold hlen; lia).
  rewrite (auth_place c q csf_b app_fin) by assumption.
  repeat split; assumption.
Qed.

Lemma ccm_restores c b q : hab_build c = Ok b -> hab_pre c = Ok q -> c_enc c = true -> layout_full c q -> wf_bytes (h_dek c) ->
  b_enc b = [(h_start c + h_ivt_off c + c_app_off c, hlen (c_app_bin c))] /\
  ccm_decrypt (aes_enc (h_dek c)) (b_nonce b) [] (Z.to_nat (h_mac_len c))
              (hslice (b_image b) (c_app_off c) (c_app_off c + hlen (c_app_bin c)) ++ b_mac b) = Some (c_app_bin c).
Proof.
  intros Hb Hq He W Hw.
  destruct (enc_build_facts c b q Hb Hq He W Hw) as (Hi & Hl & Hc & Hn & Ht & Hk & Heb).
  split; [exact Heb|].
  destruct W as (W1 & W2 & _). destruct (pre_lens c q Hq) as (Li & Lb & _).
  rewrite Hi, <- Hl, hslice_prefix_app by assumption. rewrite Hc.
  apply ccm_dec_enc_l; try assumption. intros; now apply aes_enc_length.
Qed.

(* ------------------------------------------------------------------ S5b: parsing the exported image *)
Lemma app3 {A} (a b c r : list A) : a ++ b ++ c ++ r = (a ++ b ++ c) ++ r.
Proof. now rewrite <- !app_assoc. Qed.

Lemma hskip_shape_64 q app_off ap tail : hlen (q_ivt_b q) = 32 -> hlen (q_bdt_b q) = 12 ->
  hskip (image_shape q app_off ap tail) 64
  = of_opt (q_dx q) ++ hzeros (app_off - 64 - hlen (of_opt (q_dx q))) ++ ap ++ tail.
Proof.
  intros Li Lb. unfold image_shape. rewrite app3. apply hskip_app.
  rewrite !hlen_app, Li, Lb, hlen_hzeros by lia. reflexivity.
Qed.

Lemma shape_parse_ivt_bdt c q ap tail : hab_pre c = Ok q ->
  parse_ivt_bdt (image_shape q (c_app_off c) ap tail) = Ok (c_ivt c, (h_start c, c_bdt_len c, 0)).
Proof.
  intros Hq. pose proof (hab_pre_inv c q Hq) as (_ & _ & _ & _ & _ & Hi & Hb & _).
  assert (E : iv_bdt (c_ivt c) = iv_self (c_ivt c) + 32) by reflexivity.
  unfold parse_ivt_bdt, image_shape.
  destruct (ivt_parse_export _ _ (q_bdt_b q ++ hzeros 20 ++ of_opt (q_dx q)
              ++ hzeros (c_app_off c - 64 - hlen (of_opt (q_dx q))) ++ ap ++ tail) Hi E) as [P1 L1].
  rewrite P1. cbn [bind]. rewrite E. replace (iv_self (c_ivt c) + 32 - iv_self (c_ivt c)) with 32 by lia.
  rewrite (hskip_app (q_ivt_b q)) by assumption.
  destruct (bdt_parse_export _ _ _ (hzeros 20 ++ of_opt (q_dx q)
              ++ hzeros (c_app_off c - 64 - hlen (of_opt (q_dx q))) ++ ap ++ tail) Hb) as [P2 _].
  rewrite P2. reflexivity.
Qed.

Lemma shape_parse_dcd c q ap tail : hab_pre c = Ok q -> layout_full c q ->
  parse_dcd (image_shape q (c_app_off c) ap tail) (c_ivt c) = Ok (q_dcd_b q).
Proof.
  intros Hq (W1 & W2 & W3 & W4 & W5 & W6).
  pose proof (hab_pre_inv c q Hq) as (_ & Hg & Hs & Hd & _). destruct (pre_lens c q Hq) as (Li & Lb & _).
  unfold parse_dcd, c_ivt. cbn [iv_dcd iv_self]. unfold q_dcd_b.
  destruct (h_dcd c) as [d|].
  - destruct Hd as (x & _ & Ex). rewrite Ex. cbn [option_map].
    unfold c_self. replace (h_start c + h_ivt_off c + 64 =? 0) with false by lia.
    replace (h_start c + h_ivt_off c + 64 - (h_start c + h_ivt_off c)) with 64 by lia.
    rewrite hskip_shape_64 by assumption.
    unfold q_dx, q_dcd_b. rewrite Ex. cbn [option_map of_opt].
    destruct (W5 x Ex) as (_ & _ & _ & St). rewrite St. reflexivity.
  - rewrite Hd. reflexivity.
Qed.

Lemma hzeros_4 n : 4 <= n -> hzeros n = 0%N :: 0%N :: 0%N :: 0%N :: hzeros (n - 4).
Proof.
  intros H. unfold hzeros. replace (Z.to_nat n) with (4 + Z.to_nat (n - 4))%nat by lia. reflexivity.
Qed.

Lemma xmcd_hdr_parse_spec iface inst typ cfg rest : xmcd_wf iface inst typ cfg ->
  xmcd_hdr_parse (xmcd_bytes iface inst typ cfg ++ rest) = Ok (Some (iface, inst, typ, 4 + hlen cfg)).
Proof.
  intros (Hi & Hn & Ht & Hc). pose proof (hlen_nonneg cfg) as Hc0. pose proof (hlen_nonneg rest) as Hr0.
  unfold xmcd_hdr_parse, xmcd_bytes. set (bs := 4 + hlen cfg).
  rewrite have_true by (rewrite !hlen_app; unfold hlen at 1; cbn [length]; lia). cbn [negb].
  cbn [app]. rewrite hbyte_3, hbyte_2, hbyte_1, hbyte_0.
  change (hi4 (Z.of_N 192)) with 12. change (lo4 (Z.of_N 192)) with 0.
  change (12 =? 12) with true. change (0 =? 0) with true. cbn [negb].
  rewrite !Z2N.id by (unfold bs; lia).
  assert (E1 : hi4 (iface * 16 + inst) = iface) by (unfold hi4; lia).
  assert (E2 : lo4 (iface * 16 + inst) = inst) by (unfold lo4; lia).
  assert (E3 : hi4 (typ * 16 + bs / 256) = typ) by (unfold hi4, bs; lia).
  assert (E4 : lo4 (typ * 16 + bs / 256) * 256 + bs mod 256 = bs) by (unfold lo4, bs; lia).
  rewrite E1, E2, E3, E4.
  replace (iface <=? 1) with true by lia. replace (typ <=? 1) with true by lia. reflexivity.
Qed.

Lemma shape_parse_xmcd c q ap tail : hab_pre c = Ok q -> layout_full c q ->
  parse_xmcd (image_shape q (c_app_off c) ap tail) = Ok (q_xm_b q).
Proof.
  intros Hq (W1 & W2 & W3 & W4 & W5 & W6).
  pose proof (hab_pre_inv c q Hq) as (_ & Hg & Hs & Hd & Hx & _). destruct (pre_lens c q Hq) as (Li & Lb & Lx).
  unfold parse_xmcd. rewrite hskip_shape_64 by assumption.
  destruct (q_dcd q) as [x|] eqn:Ed.
  - (* DCD at 0x40: its version byte is not an XMCD tag *)
    assert (Exm : q_xm q = None) by (destruct W1; congruence). rewrite (Lx Exm).
    destruct (W5 x eq_refl) as (Hv & Fv & Fs & _).
    unfold q_dx, q_dcd_b. rewrite Ed. cbn [option_map of_opt]. unfold dcd_export, hdr.
    match goal with |- context[_ ++ hzeros ?z ++ ap ++ tail] => set (R := hzeros z ++ ap ++ tail) end.
    unfold xmcd_hdr_parse.
    rewrite have_true by (rewrite !hlen_app, !hlen_hbe; pose proof (hlen_nonneg (concat (map pc_bytes (dc_cmds x))));
                          pose proof (hlen_nonneg R); lia).
    cbn [negb].
    assert (E3 : forall r, hbyte (((hbe 1 210 ++ hbe 2 (dcd_size x) ++ hbe 1 (dc_par x)) ++ concat (map pc_bytes (dc_cmds x))) ++ r) 3 = dc_par x).
    { intros r. rewrite <- !app_assoc. rewrite (app_assoc (hbe 1 210)). apply hbyte_mid; [|assumption].
      rewrite hlen_app, !hlen_hbe. reflexivity. }
    rewrite E3. replace (hi4 (dc_par x) =? 12) with false by lia. reflexivity.
  - unfold q_dx, q_dcd_b. rewrite Ed. cbn [option_map].
    destruct (q_xm q) as [x|] eqn:Ex.
    + (* XMCD at 0x40 *)
      pose proof (W6 x eq_refl) as Hwf.
      destruct (h_xmcd c) as [d|]; [|destruct Hx; congruence].
      destruct Hx as (x' & xb & _ & Ex' & Exp & Exb). assert (x' = x) by congruence. subst x'.
      destruct x as [iface inst typ cfg]. cbn [xm_inst xm_if xm_type xm_cfg] in *.
      rewrite xmcd_export_spec in Exp by assumption. apply ok_inj in Exp. subst xb.
      rewrite Exb. cbn [of_opt]. rewrite xmcd_hdr_parse_spec by assumption. cbn [bind].
      replace (68 + (4 + hlen cfg) - 4) with (68 + hlen cfg) by lia.
      assert (Ecfg : hslice (image_shape q (c_app_off c) ap tail) 68 (68 + hlen cfg) = cfg).
      { unfold image_shape, q_dx, q_dcd_b. rewrite Ed, Exb. cbn [option_map of_opt]. unfold xmcd_bytes.
        rewrite app3. rewrite <- (app_assoc _ cfg).
        change ([Z.to_N ((4 + hlen cfg) mod 256); Z.to_N (typ * 16 + (4 + hlen cfg) / 256); Z.to_N (iface * 16 + inst); 192%N] ++ cfg ++ ?r)
          with ([Z.to_N ((4 + hlen cfg) mod 256); Z.to_N (typ * 16 + (4 + hlen cfg) / 256); Z.to_N (iface * 16 + inst); 192%N] ++ cfg ++ r).
        rewrite app_assoc. apply hslice_mid; [|lia].
        rewrite !hlen_app, Li, Lb, hlen_hzeros by lia. reflexivity. }
      rewrite Ecfg. rewrite xmcd_export_spec by assumption. reflexivity.
    + (* nothing at 0x40: zero padding *)
      rewrite (Lx eq_refl). cbn [of_opt app]. rewrite hlen_nil.
      rewrite hzeros_4 by lia. cbn [app]. unfold xmcd_hdr_parse.
      rewrite have_true by (unfold hlen; cbn [length]; lia). cbn [negb]. rewrite hbyte_3. reflexivity.
Qed.

Definition gap_tail (c : hcfg) (b : built) : list N :=
  if c_auth c then hzeros (c_csf_off c - c_app_off c - hlen (b_app b)) else [].

Lemma build_shape c b q : hab_build c = Ok b -> hab_pre c = Ok q -> layout_full c q -> (c_enc c = true -> wf_bytes (h_dek c)) ->
  b_image b = image_shape q (c_app_off c) (b_app b) (gap_tail c b ++ (if c_auth c then b_csf b else [])) /\
  hlen (b_app b) = hlen (c_app_bin c) /\ (c_enc c = false -> b_app b = c_app_bin c).
Proof.
  intros Hb Hq W Hw. unfold gap_tail.
  destruct (c_auth c) eqn:Ha.
  - destruct (c_enc c) eqn:He.
    + destruct (enc_build_facts c b q Hb Hq He W (Hw eq_refl)) as (Hi & Hl & _).
      rewrite Hi, <- image_prefix. repeat split; try assumption. discriminate.
    + pose proof Hb as Hb0.
      apply hab_build_inv in Hb as (q' & Hq' & Hb). rewrite Hq in Hq'. apply ok_inj in Hq'; subst q'. rewrite Ha in Hb.
      apply hab_finish_inv in Hb as (csf0 & cmds1 & app_fin & eb & nonce & mac & cmds2 & cmds3 & csf_b & H0 & H1 & _ & _ & _ & _ & Hso & Hbb).
      rewrite He in H1. destruct H1 as (-> & -> & -> & -> & ->). subst b. cbn [mk_built b_image b_app b_csf].
      rewrite (auth_place c q csf_b (c_app_bin c)) by (try assumption; reflexivity).
      rewrite <- image_prefix. repeat split; reflexivity.
  - destruct (plain_image_shape c q b Hb Hq Ha W) as [Hi Hap]. rewrite Hi, Hap. cbn [app]. repeat split; reflexivity.
Qed.

Lemma shape_app_slice_auth q app_off ap csf_off csf : hlen (q_ivt_b q) = 32 -> hlen (q_bdt_b q) = 12 ->
  64 + hlen (of_opt (q_dx q)) <= app_off -> app_off + hlen ap <= csf_off ->
  hslice (image_shape q app_off ap (hzeros (csf_off - app_off - hlen ap) ++ csf)) app_off csf_off
  = ap ++ hzeros (csf_off - app_off - hlen ap).
Proof.
  intros Li Lb H1 H2. unfold image_shape. pose proof (hlen_nonneg (of_opt (q_dx q))) as Hd. pose proof (hlen_nonneg ap) as Ha.
  rewrite app5. rewrite (app_assoc ap). apply hslice_mid.
  - rewrite !hlen_app, Li, Lb, !hlen_hzeros by lia. lia.
  - rewrite hlen_app, hlen_hzeros by lia. lia.
Qed.

Lemma shape_app_slice_plain q app_off ap : hlen (q_ivt_b q) = 32 -> hlen (q_bdt_b q) = 12 ->
  64 + hlen (of_opt (q_dx q)) <= app_off ->
  hslice (image_shape q app_off ap []) app_off (hlen (image_shape q app_off ap [])) = ap.
Proof.
  intros Li Lb H1. unfold image_shape. pose proof (hlen_nonneg (of_opt (q_dx q))) as Hd. pose proof (hlen_nonneg ap) as Ha.
  rewrite app_nil_r. rewrite app5.
  assert (E : hlen (q_ivt_b q ++ q_bdt_b q ++ hzeros 20 ++ of_opt (q_dx q) ++ hzeros (app_off - 64 - hlen (of_opt (q_dx q)))) = app_off)
    by (rewrite !hlen_app, Li, Lb, !hlen_hzeros by lia; lia).
  apply hslice_end; [assumption | rewrite hlen_app, E; lia].
Qed.

(* The round trip of everything HabContainer.parse reads apart from the CSF contents. *)
Theorem layout_roundtrip c b q : hab_build c = Ok b -> hab_pre c = Ok q -> layout_full c q ->
  (c_enc c = true -> wf_bytes (h_dek c)) ->
  find_app_off (b_image b) (c_entry c) known_offsets = Ok (c_app_off c) ->
  parse_ivt_bdt (b_image b) = Ok (c_ivt c, (h_start c, c_bdt_len c, 0)) /\
  parse_dcd (b_image b) (c_ivt c) = Ok (q_dcd_b q) /\
  parse_xmcd (b_image b) = Ok (q_xm_b q) /\
  parse_app (b_image b) (c_ivt c) = Ok (c_app_off c, b_app b ++ gap_tail c b) /\
  (c_enc c = false -> b_app b = c_app_bin c).
Proof.
  intros Hb Hq W Hw Hp.
  destruct (build_shape c b q Hb Hq W Hw) as (Hi & Hl & Hpl).
  pose proof W as (W1 & W2 & W3 & W4 & _). destruct (pre_lens c q Hq) as (Li & Lb & _).
  pose proof (hab_pre_inv c q Hq) as (_ & Hg & Hs & _).
  split; [rewrite Hi; now apply shape_parse_ivt_bdt|].
  split; [rewrite Hi; now apply shape_parse_dcd|].
  split; [rewrite Hi; now apply shape_parse_xmcd|].
  split; [|assumption].
  unfold parse_app. change (iv_app (c_ivt c)) with (c_entry c). rewrite Hp. cbn [bind fst]. f_equal. f_equal.
  unfold c_ivt at 1 2 3. cbn [iv_csf iv_self]. unfold gap_tail in *.
  destruct (c_auth c) eqn:Ha.
  - first [destruct (W4 Ha) as [G1 G2] | destruct (W4 eq_refl) as [G1 G2]]. unfold c_self.
    replace (0 <? h_start c + h_ivt_off c + c_csf_off c) with true by lia.
    replace (h_start c + h_ivt_off c + c_csf_off c - (h_start c + h_ivt_off c)) with (c_csf_off c) by lia.
    rewrite Hi. apply shape_app_slice_auth; try assumption. lia.
  - change (0 <? 0) with false. cbn iota. rewrite app_nil_r. rewrite Hi. cbn [app].
    now apply shape_app_slice_plain.
Qed.

(* hypotheses of layout_roundtrip are satisfiable: a plain image whose application starts with a vector table *)
Definition c_ex : hcfg :=
  {| h_flags := 0; h_start := 4096; h_ivt_off := 1024; h_ils := 4096; h_entry := None;
     h_app := [0; 0; 2; 32; 1; 32; 0; 0; 9; 9]%N; h_dcd := None; h_xmcd := None;
     h_ver := 66; h_engine := 0; h_secs := []; h_dek := []; h_mac_len := 16; h_nonce := None; h_sig_data := []; h_sig_csf := [] |}.

Example layout_roundtrip_nonvacuous :
  exists b q, hab_build c_ex = Ok b /\ hab_pre c_ex = Ok q /\ layout_full c_ex q /\
              find_app_off (b_image b) (c_entry c_ex) known_offsets = Ok (c_app_off c_ex).
Proof.
  destruct (hab_build c_ex) as [b|] eqn:Eb; [|vm_compute in Eb; discriminate].
  destruct (hab_pre c_ex) as [q|] eqn:Eq; [|vm_compute in Eq; discriminate].
  exists b, q. split; [reflexivity|]. split; [reflexivity|].
  assert (F : match hab_pre c_ex with Ok q => (q_dcd q, q_xm q, q_xm_b q) | Err _ => (None, None, Some []) end = (None, None, None))
    by (vm_compute; reflexivity).
  rewrite Eq in F. inversion F as [[F1 F2 F3]].
  split.
  - unfold layout_full, q_dx, q_dcd_b. rewrite F1, F2, F3. cbn. repeat split; try lia; try (now left); intros; discriminate.
  - assert (G : match hab_build c_ex with Ok b => find_app_off (b_image b) (c_entry c_ex) known_offsets | Err k => Err k end
                = Ok (c_app_off c_ex)) by (vm_compute; reflexivity).
    now rewrite Eb in G.
Qed.

Lemma build_blocks c b q : hab_build c = Ok b -> hab_pre c = Ok q -> c_auth c = true ->
  b_signed b = signed_blocks c q /\ b_enc b = (if c_enc c then enc_blocks c else []).
Proof.
  intros Hb Hq Ha.
  apply hab_build_inv in Hb as (q' & Hq' & Hb). rewrite Hq in Hq'. apply ok_inj in Hq'; subst q'. rewrite Ha in Hb.
  apply hab_finish_inv in Hb as (csf0 & cmds1 & app_fin & eb & nonce & mac & cmds2 & cmds3 & csf_b & H0 & H1 & _ & _ & _ & _ & Hso & Hbb).
  subst b. cbn [mk_built b_signed b_enc]. split; [reflexivity|].
  destruct (c_enc c); [destruct H1 as [_ ->] | destruct H1 as (_ & _ & -> & _)]; reflexivity.
Qed.

(* ------------------------------------------------------------------ IVT pointers and boot-data length = real positions and sizes *)
Lemma hlen_image_shape q app_off ap tail : hlen (q_ivt_b q) = 32 -> hlen (q_bdt_b q) = 12 ->
  64 + hlen (of_opt (q_dx q)) <= app_off ->
  hlen (image_shape q app_off ap tail) = app_off + hlen ap + hlen tail.
Proof.
  intros Li Lb H1. unfold image_shape. pose proof (hlen_nonneg (of_opt (q_dx q))).
  rewrite !hlen_app, Li, Lb, !hlen_hzeros by lia. lia.
Qed.

Theorem pointers_resolve c b q : hab_build c = Ok b -> hab_pre c = Ok q -> layout_full c q ->
  (c_enc c = true -> wf_bytes (h_dek c)) ->
  iv_self (c_ivt c) = h_start c + h_ivt_off c /\
  hslice (b_image b) 0 32 = q_ivt_b q /\ ivt_parse (q_ivt_b q) = Ok (c_ivt c) /\
  hslice (b_image b) (iv_bdt (c_ivt c) - iv_self (c_ivt c)) (iv_bdt (c_ivt c) - iv_self (c_ivt c) + 12) = q_bdt_b q /\
  bdt_parse (q_bdt_b q) = Ok (h_start c, c_bdt_len c, 0) /\
  (match q_dcd_b q with
   | Some d => hslice (b_image b) (iv_dcd (c_ivt c) - iv_self (c_ivt c)) (iv_dcd (c_ivt c) - iv_self (c_ivt c) + hlen d) = d
   | None => iv_dcd (c_ivt c) = 0
   end) /\
  hslice (b_image b) (c_app_off c) (c_app_off c + hlen (b_app b)) = b_app b /\
  (if c_auth c
   then hskip (b_image b) (iv_csf (c_ivt c) - iv_self (c_ivt c)) = b_csf b /\
        (hlen (b_csf b) = 8192 -> c_bdt_len c = h_ivt_off c + hlen (b_image b) + (if c_enc c then 512 else 0))
   else iv_csf (c_ivt c) = 0 /\ c_bdt_len c = h_ivt_off c + hlen (b_image b)).
Proof.
  intros Hb Hq W Hw.
  destruct (build_shape c b q Hb Hq W Hw) as (Hi & Hl & Hpl).
  pose proof W as (W1 & W2 & W3 & W4 & W5 & _). destruct (pre_lens c q Hq) as (Li & Lb & _).
  pose proof (hab_pre_inv c q Hq) as (Hf & Hg & Hs & Hd & _ & Hiv & Hbd & _).
  assert (E : iv_bdt (c_ivt c) = iv_self (c_ivt c) + 32) by reflexivity.
  split; [reflexivity|].
  split. { rewrite Hi. unfold image_shape. now apply hslice_pre. }
  split. { pose proof (proj1 (ivt_parse_export _ _ [] Hiv E)) as P. now rewrite app_nil_r in P. }
  split. { rewrite E. replace (iv_self (c_ivt c) + 32 - iv_self (c_ivt c)) with 32 by lia. rewrite Hi. unfold image_shape.
           apply hslice_mid; [assumption | lia]. }
  split. { pose proof (proj1 (bdt_parse_export _ _ _ [] Hbd)) as P. now rewrite app_nil_r in P. }
  split.
  { unfold q_dcd_b, c_ivt. cbn [iv_dcd iv_self]. destruct (h_dcd c) as [d|].
    - destruct Hd as (x & _ & Ex). rewrite Ex. cbn [option_map].
      replace (c_self c + 64 - c_self c) with 64 by lia.
      rewrite Hi. unfold image_shape, q_dx, q_dcd_b. rewrite Ex. cbn [option_map of_opt].
      rewrite app3. apply hslice_mid; [|lia]. rewrite !hlen_app, Li, Lb, hlen_hzeros by lia. reflexivity.
    - rewrite Hd. reflexivity. }
  split.
  { rewrite Hi. unfold image_shape. pose proof (hlen_nonneg (of_opt (q_dx q))). rewrite app5. apply hslice_mid; [|lia].
    rewrite !hlen_app, Li, Lb, !hlen_hzeros by lia. lia. }
  unfold gap_tail in Hi. unfold c_ivt. cbn [iv_csf iv_self]. unfold c_bdt_len.
  destruct (c_auth c) eqn:Ha.
  - first [destruct (W4 Ha) as [G1 G2] | destruct (W4 eq_refl) as [G1 G2]]. replace (c_self c + c_csf_off c - c_self c) with (c_csf_off c) by lia.
    split.
    + rewrite Hi, image_prefix. apply hskip_app. apply hlen_prefix; try assumption; lia.
    + intros L8. rewrite Hi. rewrite (hlen_image_shape q _ _ _ Li Lb W2). rewrite hlen_app, hlen_hzeros, L8 by lia. lia.
  - split; [reflexivity|]. rewrite Hi. rewrite (hlen_image_shape q _ _ _ Li Lb W2). cbn [app]. change (hlen (@nil N)) with 0.
    assert (He : c_enc c = false).
    { unfold c_auth, c_enc, in_list in *. cbn [existsb] in Hf.
      destruct (h_flags c =? 0) eqn:E0; [apply Z.eqb_eq in E0; now rewrite E0|].
      destruct (h_flags c =? 8) eqn:E8; [apply Z.eqb_eq in E8; rewrite E8 in Ha; discriminate|].
      destruct (h_flags c =? 12) eqn:E12; [apply Z.eqb_eq in E12; rewrite E12 in Ha; discriminate | discriminate]. }
    rewrite He, Hl. lia.
Qed.

(* ------------------------------------------------------------------ S7: the signed bytes are the listed blocks of the exported image *)
Lemma hslice_shift {A} (z l : list A) k a b : hlen z = k -> 0 <= a -> hslice (z ++ l) (k + a) (k + b) = hslice l a b.
Proof.
  unfold hlen, hslice, slice. intros Hk Ha.
  replace (Z.to_nat (k + a)) with (length z + Z.to_nat a)%nat by lia.
  rewrite skipn_app. replace (length z + Z.to_nat a - length z)%nat with (Z.to_nat a) by lia.
  rewrite skipn_all2 by lia. cbn [app]. f_equal. lia.
Qed.

Lemma hslice_app_l {A} (x y : list A) a b : 0 <= a -> b <= hlen x -> hslice (x ++ y) a b = hslice x a b.
Proof.
  unfold hlen, hslice, slice. intros Ha Hb.
  destruct (Z_le_gt_dec a (Z.of_nat (length x))) as [Hle | Hgt].
  - rewrite skipn_app. replace (Z.to_nat a - length x)%nat with 0%nat by lia. cbn [skipn].
    rewrite firstn_app. rewrite skipn_length.
    replace (Z.to_nat b - Z.to_nat a - (length x - Z.to_nat a))%nat with 0%nat by lia. cbn [firstn]. apply app_nil_r.
  - replace (Z.to_nat b - Z.to_nat a)%nat with 0%nat by lia. reflexivity.
Qed.

Lemma slices_agree (Qx R R2 hz : list N) k self start blocks : hlen hz = k -> self = start + k ->
  Forall (fun blk : Z * Z => 0 <= fst blk - self /\ fst blk - self + snd blk <= hlen Qx) blocks ->
  concat (map (fun b => hslice (hz ++ Qx ++ R) (fst b - start) (fst b - start + snd b)) blocks)
  = concat (map (fun b => hslice (Qx ++ R2) (fst b - self) (fst b - self + snd b)) blocks).
Proof.
  intros Hk Hs HF. induction HF as [|blk t [H1 H2] _ IH]; [reflexivity|]. cbn [map concat]. f_equal; [|exact IH].
  replace (fst blk - start) with (k + (fst blk - self)) by lia.
  replace (k + (fst blk - self) + snd blk) with (k + (fst blk - self + snd blk)) by lia.
  rewrite hslice_shift by assumption. now rewrite !hslice_app_l by assumption.
Qed.

Lemma signed_blocks_bounds c q bound : 0 <= q_dcd_sz q -> 64 + q_dcd_sz q <= bound -> 64 + q_xm_sz q <= bound -> 64 <= bound ->
  (c_enc c = false -> c_app_off c + hlen (c_app_bin c) <= bound) -> 0 <= c_app_off c ->
  Forall (fun blk : Z * Z => 0 <= fst blk - c_self c /\ fst blk - c_self c + snd blk <= bound) (signed_blocks c q).
Proof.
  intros H0 H1 Hx H2 H3 H4. unfold signed_blocks, blk, c_self, q_xm_sz, xmcd_size in *. pose proof (hlen_nonneg (c_app_bin c)).
  destruct (q_dcd q); destruct (q_xm q) as [y|]; try pose proof (hlen_nonneg (xm_cfg y)); destruct (c_enc c); cbn [app];
    repeat (constructor; [cbn [fst snd]; split; try lia; (try (specialize (H3 eq_refl); lia))|]); constructor.
Qed.

Theorem signed_data_blocks c b q : hab_build c = Ok b -> hab_pre c = Ok q -> c_auth c = true -> layout_full c q ->
  (c_enc c = true -> wf_bytes (h_dek c)) -> 0 <= q_dcd_sz q -> 64 + q_dcd_sz q <= c_app_off c -> 64 + q_xm_sz q <= c_app_off c ->
  b_tbs_data b = concat (map (fun blk => hslice (b_image b) (fst blk - c_self c) (fst blk - c_self c + snd blk)) (b_signed b)).
Proof.
  intros Hb Hq Ha W Hw D0 D1 DX.
  destruct (build_shape c b q Hb Hq W Hw) as (Hi & Hl & Hpl). unfold gap_tail in Hi. rewrite Ha in Hi.
  cbn iota in Hi. rewrite image_prefix in Hi.
  pose proof W as (W1 & W2 & W3 & W4 & _). destruct (pre_lens c q Hq) as (Li & Lb & _).
  pose proof (hab_pre_inv c q Hq) as (Hf & Hg & Hs & _). first [destruct (W4 Ha) as [G1 G2] | destruct (W4 eq_refl) as [G1 G2]].
  pose proof Hb as Hb0.
  apply hab_build_inv in Hb as (q' & Hq' & Hb). rewrite Hq in Hq'. apply ok_inj in Hq'; subst q'. rewrite Ha in Hb.
  apply hab_finish_inv in Hb as (csf0 & cmds1 & app_fin & eb & nonce & mac & cmds2 & cmds3 & csf_b & H0 & H1 & _ & _ & _ & _ & Hso & Hbb).
  assert (Et : b_tbs_data b = tbs_of c (padded_image c q csf0) (signed_blocks c q)) by (subst b; reflexivity).
  assert (Es : b_signed b = signed_blocks c q) by (subst b; reflexivity).
  rewrite Et, Es, Hi. unfold tbs_of. rewrite padded_image_eq by assumption.
  destruct (c_enc c) eqn:He.
  - (* encrypted: the signed blocks lie before the application *)
    unfold prefix_shape. rewrite <- !app_assoc. rewrite !(app5 (q_ivt_b q)).
    set (Qx := q_ivt_b q ++ q_bdt_b q ++ hzeros 20 ++ of_opt (q_dx q) ++ hzeros (c_app_off c - 64 - hlen (of_opt (q_dx q)))).
    assert (LQ : hlen Qx = c_app_off c).
    { unfold Qx. pose proof (hlen_nonneg (of_opt (q_dx q))). rewrite !hlen_app, Li, Lb, !hlen_hzeros by lia. lia. }
    apply (slices_agree Qx _ _ (hzeros (h_ivt_off c)) (h_ivt_off c) (c_self c) (h_start c)).
    + apply hlen_hzeros. lia.
    + reflexivity.
    + rewrite LQ. apply signed_blocks_bounds; [assumption | lia | lia | lia | rewrite He; intros; discriminate | lia].
  - rewrite (Hpl eq_refl).
    set (Qx := prefix_shape q (c_app_off c) (c_app_bin c) (c_csf_off c)).
    assert (LQ : hlen Qx = c_csf_off c) by (apply hlen_prefix; try assumption; lia).
    replace (hzeros (h_ivt_off c) ++ Qx) with (hzeros (h_ivt_off c) ++ Qx ++ []) by now rewrite app_nil_r.
    apply (slices_agree Qx _ _ (hzeros (h_ivt_off c)) (h_ivt_off c) (c_self c) (h_start c)).
    + apply hlen_hzeros. lia.
    + reflexivity.
    + rewrite LQ. apply signed_blocks_bounds; [assumption | lia | lia | lia | intros; lia | lia].
Qed.

(* ------------------------------------------------------------------ S8/S9: CSF: cmd-data offsets resolve; the signed CSF range *)
Lemma hlen_blocks_bytes bl : hlen (blocks_bytes bl) = 8 * hlen bl.
Proof.
  induction bl as [|b t IH]; [reflexivity|]. unfold blocks_bytes in *. cbn [map concat].
  rewrite !hlen_app, !hlen_hbe, IH, hlen_cons. lia.
Qed.

Lemma hlen_cmd_export c loc : hlen (cmd_export c loc) = cmd_size c.
Proof.
  destruct c; cbn [cmd_export cmd_size]; rewrite ?hlen_app, ?hlen_hdr, ?hlen_hbe, ?hlen_blocks_bytes, ?hlen_cons, ?hlen_nil; try lia.
  destruct (need_uid eng feat); rewrite ?hlen_hbe, ?hlen_nil; lia.
Qed.

Lemma cmd_size_pos c : 0 <= cmd_size c.
Proof. destruct c; cbn [cmd_size]; try lia. pose proof (hlen_nonneg blocks); lia. destruct (need_uid eng feat); lia. Qed.

Lemma hlen_cmds_export l : forall offs, length offs = length l ->
  hlen (concat (map (fun p => cmd_export (fst p) (snd p)) (combine l offs))) = fold_right (fun c a => cmd_size c + a) 0 l.
Proof.
  induction l as [|c t IH]; intros [|o offs] H; cbn in H; try discriminate; [reflexivity|].
  cbn [combine map concat fold_right fst snd]. rewrite hlen_app, hlen_cmd_export, IH by lia. reflexivity.
Qed.

Lemma csf_offsets_length l : forall cur, length (csf_offsets cur l) = length l.
Proof.
  induction l as [|c t IH]; intros cur; [reflexivity|]. cbn [csf_offsets].
  destruct (needs_ref c); [destruct (cmd_dat c)|]; cbn [length]; now rewrite IH.
Qed.

Lemma hlen_csf_base ver l : hlen (csf_base ver l) = csf_hlen l.
Proof.
  unfold csf_base, csf_hlen. rewrite hlen_app, hlen_hdr, hlen_cmds_export by apply csf_offsets_length. reflexivity.
Qed.

(* SegCSF.export only appends to the base: the cmd-data sections follow header + commands *)
Lemma csf_data_ok l : forall acc r, csf_data acc l = Ok r ->
  (exists t, r = acc ++ t) /\
  Forall (fun p => needs_ref (fst p) = true -> forall d, cmd_dat (fst p) = Some d -> hslice r (snd p) (snd p + hlen d) = d) l.
Proof.
  induction l as [|[c off] t IH]; intros acc r H; cbn [csf_data] in H.
  - apply ok_inj in H. subst r. split; [exists []; now rewrite app_nil_r | constructor].
  - destruct (needs_ref c) eqn:En.
    + destruct (cmd_dat c) as [d|] eqn:Ed.
      * destruct (off <? hlen acc) eqn:Eo; [discriminate|].
        destruct (IH _ _ H) as [(t' & Hr) HF]. split.
        -- exists (hzeros (off - hlen acc) ++ d ++ t'). rewrite Hr. now rewrite <- !app_assoc.
        -- constructor; [|exact HF]. cbn [fst snd]. intros _ d' Hd'. assert (d' = d) by congruence. subst d'.
           rewrite Hr. rewrite <- !app_assoc. rewrite (app_assoc acc). apply hslice_mid; [|lia].
           pose proof (hlen_nonneg acc). rewrite hlen_app, hlen_hzeros by lia. lia.
      * destruct (IH _ _ H) as [Hr HF]. split; [exact Hr|]. constructor; [|exact HF].
        intros _ d Hd. cbn [fst] in Hd. congruence.
    + destruct (IH _ _ H) as [Hr HF]. split; [exact Hr|]. constructor; [|exact HF]. intros Hn'. cbn [fst] in Hn'. congruence.
Qed.

Lemma u32be_loc_ins fl fmt alg src tgt l0 dat loc : fits 4 loc = true ->
  u32be_at (cmd_export (KIns fl fmt alg src tgt l0 dat) loc) 8 = loc.
Proof.
  intros F. cbn [cmd_export]. rewrite app5.
  rewrite <- (app_nil_r (hbe 4 loc)).
  apply u32be_at_mid; [|assumption]. rewrite !hlen_app, hlen_hdr, !hlen_hbe. reflexivity.
Qed.

Lemma u32be_loc_auth fl key fmt eng cfg bl dat loc : fits 4 loc = true ->
  u32be_at (cmd_export (KAuth fl key fmt eng cfg bl dat) loc) 8 = loc.
Proof.
  intros F. cbn [cmd_export]. rewrite app5.
  apply u32be_at_mid; [|assumption]. rewrite !hlen_app, hlen_hdr, !hlen_hbe. reflexivity.
Qed.

(* every command that references cmd-data carries the offset at which SegCSF.export put exactly that data *)
Theorem csf_offsets_ok ver l raw : csf_export_raw ver l = Ok raw ->
  (exists t, raw = csf_base ver l ++ t) /\
  Forall (fun p => needs_ref (fst p) = true -> forall d, cmd_dat (fst p) = Some d ->
                   u32be_at (cmd_export (fst p) (snd p)) 8 = snd p /\
                   hslice raw (snd p) (snd p + hlen d) = d)
         (combine l (csf_offsets (csf_hlen l) l)).
Proof.
  unfold csf_export_raw. intros H.
  destruct (forallb _ (combine l (csf_offsets (csf_hlen l) l))) eqn:Ep; cbn [negb] in H; [|discriminate].
  destruct (fits 2 (csf_hlen l)) eqn:E2; cbn [negb] in H; [|discriminate].
  destruct (csf_data_ok _ _ _ H) as [Hr HF]. split; [exact Hr|].
  rewrite forallb_forall in Ep. rewrite Forall_forall in *. intros [c off] Hin Hn d Hd. cbn [fst snd] in *.
  split; [|exact (HF _ Hin Hn d Hd)].
  specialize (Ep _ Hin). cbn [fst snd] in Ep.
  destruct c; cbn [needs_ref cmd_dat] in *; try discriminate.
  - apply u32be_loc_ins. exact Ep.
  - apply u32be_loc_auth. cbn [cmd_packs] in Ep. apply and_fits in Ep as [Ep _]. apply and_fits in Ep as [_ Ep]. exact Ep.
Qed.

(* the bytes signed by Authenticate CSF are exactly the first <header length> bytes of the exported CSF *)
Lemma csf_signed_range ver l csf : csf_export ver l = Ok csf ->
  hslice csf 0 (hlen (csf_base ver l)) = csf_base ver l /\ hbyte csf 0 = 212 /\ u16be_at csf 1 = hlen (csf_base ver l).
Proof.
  unfold csf_export. intros H. destruct (csf_export_raw ver l) as [raw|] eqn:Er; cbn [res_map] in H; [|discriminate].
  apply ok_inj in H. subst csf.
  destruct (csf_offsets_ok ver l raw Er) as [(t & Hr) _]. subst raw. unfold pad_to. rewrite <- app_assoc.
  split; [now apply hslice_pre|].
  unfold csf_export_raw in Er.
  destruct (forallb _ (combine l (csf_offsets (csf_hlen l) l))); cbn [negb] in Er; [|discriminate].
  destruct (fits 2 (csf_hlen l)) eqn:E2; cbn [negb] in Er; [|discriminate].
  rewrite hlen_csf_base. unfold csf_base, hdr. rewrite <- !app_assoc.
  split.
  - change (hbe 1 212) with [212%N]. reflexivity.
  - change (hbe 1 212) with [212%N]. apply (u16be_at_mid [212%N]); [reflexivity | assumption].
Qed.

Lemma build_csf c b q : hab_build c = Ok b -> hab_pre c = Ok q -> c_auth c = true ->
  exists cmds, csf_export (h_ver c) cmds = Ok (b_csf b) /\ b_tbs_csf b = csf_base (h_ver c) cmds.
Proof.
  intros Hb Hq Ha.
  apply hab_build_inv in Hb as (q' & Hq' & Hb). rewrite Hq in Hq'. apply ok_inj in Hq'; subst q'. rewrite Ha in Hb.
  apply hab_finish_inv in Hb as (csf0 & cmds1 & app_fin & eb & nonce & mac & cmds2 & cmds3 & csf_b & _ & _ & _ & _ & _ & Hc & _ & Hbb).
  exists cmds3. subst b. split; [exact Hc | reflexivity].
Qed.

Theorem cms_ranges c b q : hab_build c = Ok b -> hab_pre c = Ok q -> c_auth c = true -> layout_full c q ->
  (c_enc c = true -> wf_bytes (h_dek c)) -> 0 <= q_dcd_sz q -> 64 + q_dcd_sz q <= c_app_off c -> 64 + q_xm_sz q <= c_app_off c ->
  hskip (b_image b) (iv_csf (c_ivt c) - iv_self (c_ivt c)) = b_csf b /\
  hbyte (b_csf b) 0 = 212 /\
  b_tbs_csf b = hslice (b_csf b) 0 (u16be_at (b_csf b) 1) /\
  b_tbs_data b = concat (map (fun blk => hslice (b_image b) (fst blk - c_self c) (fst blk - c_self c + snd blk)) (b_signed b)).
Proof.
  intros Hb Hq Ha W Hw D0 D1 DX.
  destruct (build_csf c b q Hb Hq Ha) as (cmds & Hc & Ht).
  destruct (csf_signed_range _ _ _ Hc) as (R1 & R2 & R3).
  pose proof (pointers_resolve c b q Hb Hq W Hw) as (_ & _ & _ & _ & _ & _ & _ & P). rewrite Ha in P. destruct P as [P _].
  split; [exact P|]. split; [exact R2|]. split; [rewrite R3, Ht; now rewrite R1|].
  now apply (signed_data_blocks c b q).
Qed.

Theorem csf_offsets_built c b q : hab_build c = Ok b -> hab_pre c = Ok q -> c_auth c = true ->
  exists cmds raw,
    csf_export_raw (h_ver c) cmds = Ok raw /\ b_csf b = pad_to 8192 raw /\ b_tbs_csf b = csf_base (h_ver c) cmds /\
    (exists t, raw = b_tbs_csf b ++ t) /\
    Forall (fun p => needs_ref (fst p) = true -> forall d, cmd_dat (fst p) = Some d ->
                     u32be_at (cmd_export (fst p) (snd p)) 8 = snd p /\ hslice raw (snd p) (snd p + hlen d) = d)
           (combine cmds (csf_offsets (csf_hlen cmds) cmds)).
Proof.
  intros Hb Hq Ha. destruct (build_csf c b q Hb Hq Ha) as (cmds & Hc & Ht).
  unfold csf_export in Hc. destruct (csf_export_raw (h_ver c) cmds) as [raw|] eqn:Er; cbn [res_map] in Hc; [|discriminate].
  apply ok_inj in Hc. exists cmds, raw. destruct (csf_offsets_ok _ _ _ Er) as [Hr HF].
  split; [exact Er|]. split; [now symmetry|]. split; [exact Ht|]. split; [now rewrite Ht | exact HF].
Qed.

(* dcd_stable is satisfiable: a DCD with one Write Data command (one address/value pair) followed by a NOP *)
Definition dcd_ex : dcd :=
  {| dc_par := 65;
     dc_cmds := [ {| pc_tag := 204; pc_size := 12; pc_bytes := [204; 0; 12; 4; 64; 15; 192; 104; 255; 255; 255; 254]%N;
                     pc_par := 4; pc_loc := -1; pc_fmt := 0; pc_fields := [1074774120; 4294967294] |};
                  {| pc_tag := 192; pc_size := 4; pc_bytes := [192; 0; 4; 0]%N; pc_par := 0; pc_loc := -1; pc_fmt := 0;
                     pc_fields := [] |} ] |}.

Example dcd_stable_nonvacuous : dcd_stable dcd_ex /\ hi4 (dc_par dcd_ex) <> 12 /\ fits 1 (dc_par dcd_ex) = true /\ fits 2 (dcd_size dcd_ex) = true.
Proof.
  split; [|split; [cbv; lia | split; reflexivity]].
  intros rest. change (dcd_export dcd_ex) with [210; 0; 20; 65; 204; 0; 12; 4; 64; 15; 192; 104; 255; 255; 255; 254; 192; 0; 4; 0]%N.
  cbn [app]. unfold dcd_parse.
  rewrite have_true by (unfold hlen; cbn [length]; lia). cbn [negb].
  rewrite hbyte_0. change (Z.of_N 210 =? 210) with true. cbn [negb].
  unfold u16be_at at 1.
  match goal with |- context[hslice ?D 1 (1 + 2)] => change (hslice D 1 (1 + 2)) with [0%N; 20%N] end.
  change (hdec_be [0%N; 20%N]) with 20. change (20 <? 4) with false. cbn iota.
  rewrite hbyte_3. change (Z.of_N 65) with 65.
  cbn [length cmds_parse]. change (4 <? 20) with true. cbn iota.
  match goal with |- context[hskip ?D 4] => change (hskip D 4) with ([204; 0; 12; 4; 64; 15; 192; 104; 255; 255; 255; 254; 192; 0; 4; 0]%N ++ rest) end.
  assert (C1 : cmd_parse ([204; 0; 12; 4; 64; 15; 192; 104; 255; 255; 255; 254; 192; 0; 4; 0]%N ++ rest)
               = Ok (nth 0 (dc_cmds dcd_ex) {| pc_tag := 0; pc_size := 0; pc_bytes := []; pc_par := 0; pc_loc := 0; pc_fmt := 0; pc_fields := [] |})).
  { unfold cmd_parse. cbn [app].
    rewrite !have_true by (unfold hlen; cbn [length]; lia). cbn [negb].
    rewrite hbyte_0, hbyte_3. change (Z.of_N 204) with 204. cbn [existsb Z.eqb orb Pos.eqb negb].
    unfold u16be_at.
    match goal with |- context[hslice ?D 1 (1 + 2)] => change (hslice D 1 (1 + 2)) with [0%N; 12%N] end.
    change (hdec_be [0%N; 12%N]) with 12. change (12 <? 4) with false. cbn iota.
    change (204 =? 204) with true. cbn iota. change (Z.of_N 4) with 4. change (Z.land 4 7) with 4.
    change (existsb (Z.eqb 4) [1; 2; 4]) with true. cbn [negb].
    cbn [length pairs_be]. change (4 <? 12) with true. cbn iota.
    rewrite have_true by (unfold hlen; cbn [length]; lia). cbn [negb].
    change (4 + 8 <? 12) with false. cbn iota. cbn [bind].
    unfold u32be_at.
    match goal with |- context[hslice ?D 4 (4 + 4)] => change (hslice D 4 (4 + 4)) with [64; 15; 192; 104]%N end.
    match goal with |- context[hslice ?D (4 + 4) (4 + 4 + 4)] => change (hslice D (4 + 4) (4 + 4 + 4)) with [255; 255; 255; 254]%N end.
    reflexivity. }
  rewrite C1. cbn [bind nth dc_cmds dcd_ex pc_size]. change (4 + 12 <? 20) with true. cbn iota.
  match goal with |- context[hskip ?D (4 + 12)] => change (hskip D (4 + 12)) with ([192; 0; 4; 0]%N ++ rest) end.
  assert (C2 : cmd_parse ([192; 0; 4; 0]%N ++ rest)
               = Ok (nth 1 (dc_cmds dcd_ex) {| pc_tag := 0; pc_size := 0; pc_bytes := []; pc_par := 0; pc_loc := 0; pc_fmt := 0; pc_fields := [] |})).
  { unfold cmd_parse. cbn [app].
    rewrite !have_true by (unfold hlen; cbn [length]; lia). cbn [negb].
    rewrite hbyte_0, hbyte_3. change (Z.of_N 192) with 192. cbn [existsb Z.eqb orb Pos.eqb negb].
    unfold u16be_at.
    match goal with |- context[hslice ?D 1 (1 + 2)] => change (hslice D 1 (1 + 2)) with [0%N; 4%N] end.
    change (hdec_be [0%N; 4%N]) with 4. change (4 <? 4) with false. cbn iota.
    change (192 =? 204) with false. change (192 =? 207) with false. change (192 =? 192) with true. cbn iota. reflexivity. }
  rewrite C2. cbn [bind nth dc_cmds dcd_ex pc_size]. change (4 + 12 + 4 <? 20) with false. cbn iota. reflexivity.
Qed.

(* ------------------------------------------------------------------ what the overlap refusal of HabContainer.image_info enforces *)
Lemma ok_some {A} (a b : A) : Some a = Some b -> a = b.
Proof. now inversion 1. Qed.

Lemma xmcd_export_len x xb : xmcd_export x = Ok xb -> hlen xb = xmcd_size x.
Proof.
  unfold xmcd_export. destruct (all_fit 1 _); [|discriminate]. intros H. apply ok_inj in H. subst xb.
  rewrite !hlen_app, !hlen_hbe. change (hlen [192%N]) with 1. unfold xmcd_size. lia.
Qed.

Lemma hlen_dcd_export x : 4 <= hlen (dcd_export x).
Proof. unfold dcd_export. rewrite hlen_app, hlen_hdr. pose proof (hlen_nonneg (concat (map pc_bytes (dc_cmds x)))). lia. Qed.

Lemma csf_hlen_ge l : 4 <= csf_hlen l.
Proof. unfold csf_hlen. induction l as [|c t IH]; cbn [fold_right]; [lia|]. pose proof (cmd_size_pos c). lia. Qed.

Lemma csf_export_pos ver l csf : csf_export ver l = Ok csf -> 0 < hlen csf.
Proof.
  unfold csf_export. destruct (csf_export_raw ver l) as [raw|] eqn:Er; cbn [res_map]; [|discriminate].
  intros H. apply ok_inj in H. subst csf. destruct (csf_offsets_ok ver l raw Er) as [(t & ->) _].
  unfold pad_to. rewrite !hlen_app, hlen_csf_base. pose proof (csf_hlen_ge l). pose proof (hlen_nonneg t).
  match goal with |- context[hlen (hzeros ?z)] => pose proof (hlen_nonneg (hzeros z)) end. lia.
Qed.

Lemma segs_ok_auth ivt_b bdt_b dcdo xmo csf ap app_off csf_off :
  hlen ivt_b = 32 -> hlen bdt_b = 12 -> 0 < hlen ap -> 0 < hlen csf -> app_off < csf_off -> 68 <= app_off ->
  (forall d, dcdo = Some d -> 0 < hlen d) -> (forall d, xmo = Some d -> 0 < hlen d) ->
  segs_ok [] ([(0, ivt_b); (32, bdt_b)] ++ opt_seg 64 dcdo ++ opt_seg 64 xmo ++ [(csf_off, csf); (app_off, ap)]) = true ->
  (dcdo = None \/ xmo = None) /\ 64 + hlen (of_opt dcdo) + hlen (of_opt xmo) <= app_off /\ app_off + hlen ap <= csf_off.
Proof.
  intros Hi Hb Ha Hc Ho H68 Hd Hx H.
  destruct dcdo as [d|]; destruct xmo as [x|]; cbn [opt_seg app segs_ok ovl_any existsb fst snd of_opt] in H |- *;
    try specialize (Hd _ eq_refl); try specialize (Hx _ eq_refl); rewrite ?Hi, ?Hb in H; change (hlen (@nil N)) with 0.
  - exfalso. lia.
  - split; [now right|]. lia.
  - split; [now left|]. lia.
  - split; [now left|]. lia.
Qed.

Lemma segs_ok_plain ivt_b bdt_b dcdo xmo ap app_off :
  hlen ivt_b = 32 -> hlen bdt_b = 12 -> 0 < hlen ap -> 68 <= app_off ->
  (forall d, dcdo = Some d -> 0 < hlen d) -> (forall d, xmo = Some d -> 0 < hlen d) ->
  segs_ok [] ([(0, ivt_b); (32, bdt_b)] ++ opt_seg 64 dcdo ++ opt_seg 64 xmo ++ [(app_off, ap)]) = true ->
  (dcdo = None \/ xmo = None) /\ 64 + hlen (of_opt dcdo) + hlen (of_opt xmo) <= app_off.
Proof.
  intros Hi Hb Ha H68 Hd Hx H.
  destruct dcdo as [d|]; destruct xmo as [x|]; cbn [opt_seg app segs_ok ovl_any existsb fst snd of_opt] in H |- *;
    try specialize (Hd _ eq_refl); try specialize (Hx _ eq_refl); rewrite ?Hi, ?Hb in H; change (hlen (@nil N)) with 0.
  - exfalso. lia.
  - split; [now right|]. lia.
  - split; [now left|]. lia.
  - split; [now left|]. lia.
Qed.

(* C07 layout hypotheses that remain after the repair: the application is non-empty and starts at or after IVT+0x44
   (so the XMCD probe at 0x40 reads padding), the DCD/XMCD objects are well formed. That DCD, XMCD, application and CSF do not
   collide is no longer assumed: a successful build implies it (build_geom). *)
Definition layout_wf (c : hcfg) (q : pre) : Prop :=
  68 <= c_app_off c /\ 0 < hlen (h_app c) /\
  (forall x, q_dcd q = Some x -> hi4 (dc_par x) <> 12 /\ fits 1 (dc_par x) = true /\ fits 2 (dcd_size x) = true /\ dcd_stable x) /\
  (forall x, q_xm q = Some x -> xmcd_wf (xm_if x) (xm_inst x) (xm_type x) (xm_cfg x)).

Lemma app_bin_pos c : 0 < hlen (h_app c) -> 0 < hlen (c_app_bin c).
Proof.
  intros H. unfold c_app_bin. destruct (c_auth c); [|assumption]. rewrite hlen_pad_to by lia.
  pose proof (halign_ge (hlen (h_app c)) 16). lia.
Qed.

Theorem build_geom c b q : hab_build c = Ok b -> hab_pre c = Ok q -> 68 <= c_app_off c -> 0 < hlen (h_app c) ->
  (q_dcd q = None \/ q_xm q = None) /\
  64 + hlen (of_opt (q_dcd_b q)) + hlen (of_opt (q_xm_b q)) <= c_app_off c /\
  hlen (of_opt (q_dx q)) = hlen (of_opt (q_dcd_b q)) + hlen (of_opt (q_xm_b q)) /\
  (c_auth c = true -> c_app_off c + hlen (c_app_bin c) <= c_csf_off c /\ c_app_off c < c_csf_off c).
Proof.
  intros Hb Hq H68 Hap.
  destruct (pre_lens c q Hq) as (Li & Lb & Lx).
  pose proof (hab_pre_inv c q Hq) as (_ & Hg & _ & _ & Hxm & _).
  pose proof (app_bin_pos c Hap) as Hab. pose proof (csf_after_app c Hg) as Hca.
  assert (Dp : forall d, q_dcd_b q = Some d -> 0 < hlen d).
  { unfold q_dcd_b. intros d E. destruct (q_dcd q) as [x|]; [|discriminate]. cbn [option_map] in E. apply ok_some in E.
    subst d. pose proof (hlen_dcd_export x). lia. }
  assert (Xp : forall d, q_xm_b q = Some d -> 0 < hlen d).
  { intros d E. destruct (h_xmcd c); [|destruct Hxm; congruence]. destruct Hxm as (x & xb & _ & _ & Ex & Exb).
    assert (xb = d) by congruence. subst xb. rewrite (xmcd_export_len _ _ Ex). unfold xmcd_size. pose proof (hlen_nonneg (xm_cfg x)). lia. }
  assert (Conv : (q_dcd_b q = None \/ q_xm_b q = None) -> (q_dcd q = None \/ q_xm q = None)).
  { intros [E | E]; [left | right].
    - unfold q_dcd_b in E. destruct (q_dcd q); [discriminate | reflexivity].
    - destruct (h_xmcd c); [destruct Hxm as (x & xb & _ & _ & _ & Exb); congruence | tauto]. }
  assert (Dx : (q_dcd_b q = None \/ q_xm_b q = None) ->
               hlen (of_opt (q_dx q)) = hlen (of_opt (q_dcd_b q)) + hlen (of_opt (q_xm_b q))).
  { unfold q_dx. intros [E | E]; rewrite E; [reflexivity|]. destruct (q_dcd_b q); cbn [of_opt]; change (hlen (@nil N)) with 0; lia. }
  apply hab_build_inv in Hb as (q' & Hq' & Hb). rewrite Hq in Hq'. apply ok_inj in Hq'; subst q'.
  destruct (c_auth c) eqn:Ha.
  - apply hab_finish_inv in Hb as (csf0 & cmds1 & app_fin & eb & nonce & mac & cmds2 & cmds3 & csf_b & H0 & _ & _ & _ & _ & _ & Hso & _).
    unfold all_segs, base_segs in Hso. rewrite <- !app_assoc in Hso.
    destruct (segs_ok_auth _ _ _ _ _ _ _ _ Li Lb Hab (csf_export_pos _ _ _ H0) Hca H68 Dp Xp Hso) as (G1 & G2 & G3).
    split; [now apply Conv|]. split; [exact G2|]. split; [now apply Dx|]. intros _. split; assumption.
  - destruct Hb as [Hso _]. unfold base_segs in Hso. rewrite <- !app_assoc in Hso.
    destruct (segs_ok_plain _ _ _ _ _ _ Li Lb Hab H68 Dp Xp Hso) as (G1 & G2).
    split; [now apply Conv|]. split; [exact G2|]. split; [now apply Dx|]. intros; discriminate.
Qed.

Lemma layout_full_of_build c b q : hab_build c = Ok b -> hab_pre c = Ok q -> layout_wf c q -> layout_full c q.
Proof.
  intros Hb Hq (H68 & Hap & Hd & Hx). destruct (build_geom c b q Hb Hq H68 Hap) as (G1 & G2 & G3 & G4).
  unfold layout_full. split; [exact G1|]. split; [lia|]. split; [exact H68|]. split; [exact G4|]. split; assumption.
Qed.

(* ------------------------------------------------------------------ the property theorems in their public form *)
Theorem layout_roundtrip' c b q : hab_build c = Ok b -> hab_pre c = Ok q -> layout_wf c q ->
  (c_enc c = true -> wf_bytes (h_dek c)) ->
  find_app_off (b_image b) (c_entry c) known_offsets = Ok (c_app_off c) ->
  parse_ivt_bdt (b_image b) = Ok (c_ivt c, (h_start c, c_bdt_len c, 0)) /\
  parse_dcd (b_image b) (c_ivt c) = Ok (q_dcd_b q) /\
  parse_xmcd (b_image b) = Ok (q_xm_b q) /\
  parse_app (b_image b) (c_ivt c) = Ok (c_app_off c, b_app b ++ gap_tail c b) /\
  (c_enc c = false -> b_app b = c_app_bin c).
Proof. intros Hb Hq W. apply layout_roundtrip; try assumption. now apply (layout_full_of_build c b q). Qed.

Theorem pointers_resolve' c b q : hab_build c = Ok b -> hab_pre c = Ok q -> layout_wf c q ->
  (c_enc c = true -> wf_bytes (h_dek c)) ->
  iv_self (c_ivt c) = h_start c + h_ivt_off c /\
  hslice (b_image b) 0 32 = q_ivt_b q /\ ivt_parse (q_ivt_b q) = Ok (c_ivt c) /\
  hslice (b_image b) (iv_bdt (c_ivt c) - iv_self (c_ivt c)) (iv_bdt (c_ivt c) - iv_self (c_ivt c) + 12) = q_bdt_b q /\
  bdt_parse (q_bdt_b q) = Ok (h_start c, c_bdt_len c, 0) /\
  (match q_dcd_b q with
   | Some d => hslice (b_image b) (iv_dcd (c_ivt c) - iv_self (c_ivt c)) (iv_dcd (c_ivt c) - iv_self (c_ivt c) + hlen d) = d
   | None => iv_dcd (c_ivt c) = 0
   end) /\
  hslice (b_image b) (c_app_off c) (c_app_off c + hlen (b_app b)) = b_app b /\
  (if c_auth c
   then hskip (b_image b) (iv_csf (c_ivt c) - iv_self (c_ivt c)) = b_csf b /\
        (hlen (b_csf b) = 8192 -> c_bdt_len c = h_ivt_off c + hlen (b_image b) + (if c_enc c then 512 else 0))
   else iv_csf (c_ivt c) = 0 /\ c_bdt_len c = h_ivt_off c + hlen (b_image b)).
Proof. intros Hb Hq W. apply pointers_resolve; try assumption. now apply (layout_full_of_build c b q). Qed.

Theorem ccm_restores' c b q : hab_build c = Ok b -> hab_pre c = Ok q -> c_enc c = true -> layout_wf c q -> wf_bytes (h_dek c) ->
  b_enc b = [(h_start c + h_ivt_off c + c_app_off c, hlen (c_app_bin c))] /\
  ccm_decrypt (aes_enc (h_dek c)) (b_nonce b) [] (Z.to_nat (h_mac_len c))
              (hslice (b_image b) (c_app_off c) (c_app_off c + hlen (c_app_bin c)) ++ b_mac b) = Some (c_app_bin c).
Proof. intros Hb Hq He W. apply (ccm_restores c b q); try assumption. now apply (layout_full_of_build c b q). Qed.

(* the claimed DCD size (sum of the command objects' sizes) is what is exported; holds for every specification-encoded DCD *)
Definition dcd_sized (q : pre) : Prop := 0 <= q_dcd_sz q <= hlen (of_opt (q_dcd_b q)).

Lemma xm_sz_len c q : hab_pre c = Ok q -> q_xm_sz q = hlen (of_opt (q_xm_b q)).
Proof.
  intros Hq. pose proof (hab_pre_inv c q Hq) as (_ & _ & _ & _ & Hxm & _). unfold q_xm_sz.
  destruct (h_xmcd c).
  - destruct Hxm as (x & xb & _ & E1 & E2 & E3). rewrite E1, E3. cbn [of_opt]. now rewrite (xmcd_export_len _ _ E2).
  - destruct Hxm as [E1 E3]. rewrite E1, E3. reflexivity.
Qed.

Theorem cms_ranges' c b q : hab_build c = Ok b -> hab_pre c = Ok q -> c_auth c = true -> layout_wf c q ->
  (c_enc c = true -> wf_bytes (h_dek c)) -> dcd_sized q ->
  hskip (b_image b) (iv_csf (c_ivt c) - iv_self (c_ivt c)) = b_csf b /\
  hbyte (b_csf b) 0 = 212 /\
  b_tbs_csf b = hslice (b_csf b) 0 (u16be_at (b_csf b) 1) /\
  b_tbs_data b = concat (map (fun blk => hslice (b_image b) (fst blk - c_self c) (fst blk - c_self c + snd blk)) (b_signed b)).
Proof.
  intros Hb Hq Ha W Hw [D0 D1]. pose proof W as (H68 & Hap & _).
  destruct (build_geom c b q Hb Hq H68 Hap) as (_ & G2 & _).
  pose proof (hlen_nonneg (of_opt (q_xm_b q))). pose proof (hlen_nonneg (of_opt (q_dcd_b q))). pose proof (xm_sz_len c q Hq).
  apply (cms_ranges c b q); try assumption; try lia. now apply (layout_full_of_build c b q).
Qed.

(* the Authenticate Data (+ Decrypt Data) blocks cover exactly IVT, boot-data slot, DCD, XMCD and the whole application;
   they are pairwise disjoint *)
Theorem blocks_cover_built c b q : hab_build c = Ok b -> hab_pre c = Ok q -> c_auth c = true ->
  (forall p, in_blocks c (b_signed b ++ b_enc b) p <-> content_pos c q p) /\
  (68 <= c_app_off c -> 0 < hlen (h_app c) -> dcd_sized q -> disjoint_blocks (b_signed b ++ b_enc b)).
Proof.
  intros Hb Hq Ha. destruct (build_blocks c b q Hb Hq Ha) as [-> ->].
  split; [apply blocks_cover|]. intros H68 Hap [D0 D1].
  destruct (build_geom c b q Hb Hq H68 Hap) as (G1 & G2 & _).
  apply blocks_disjoint; try assumption.
  pose proof (xm_sz_len c q Hq). lia.
Qed.

Definition cw_xmcd : hcfg :=
  {| h_flags := 8; h_start := 4096; h_ivt_off := 1024; h_ils := 4096; h_entry := Some 8193;
     h_app := [0; 0; 2; 32; 1; 32; 0; 0]%N; h_dcd := None; h_xmcd := Some (xmcd_bytes 1 3 0 [1; 2; 3; 4]%N);
     h_ver := 66; h_engine := 0; h_secs := [SInsSrk 0 [215; 0; 4; 64]%N; SAuthCsf; SAuthData 0 0 0];
     h_dek := []; h_mac_len := 16; h_nonce := None; h_sig_data := [1%N]; h_sig_csf := [2%N] |}.

(* non-vacuity: an authenticated image with an XMCD (SEMC, instance 3) builds, and its blocks include the XMCD *)
Example cw_xmcd_blocks :
  match hab_build cw_xmcd with Ok b => b_signed b ++ b_enc b | Err _ => [] end = [(5120, 64); (5184, 8); (8192, 16)].
Proof. vm_compute. reflexivity. Qed.

Example layout_wf_nonvacuous :
  exists b q, hab_build c_ex = Ok b /\ hab_pre c_ex = Ok q /\ layout_wf c_ex q /\
              find_app_off (b_image b) (c_entry c_ex) known_offsets = Ok (c_app_off c_ex).
Proof.
  destruct layout_roundtrip_nonvacuous as (b & q & Hb & Hq & (W1 & W2 & W3 & W4 & W5 & W6) & Hp).
  exists b, q. split; [exact Hb|]. split; [exact Hq|]. split; [|exact Hp].
  unfold layout_wf. split; [exact W3|]. split; [cbv; reflexivity|]. split; assumption.
Qed.
