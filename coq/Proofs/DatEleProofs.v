(* Proofs/DatEleProofs.v -- C15 extension: round trip of the EdgeLock container-version-1 debug credential
   (RoT meta = flags + AHAB SRK table with four records), on top of the frozen Model/DatModel.v. *)
From Coq Require Import ZArith NArith List Bool Lia.
Require Import Value Bytes BytesProofs Sha2 GenRot RotModel GenDat DatModel DatProofs.
Import ListNotations.
Local Open Scope N_scope.
Local Arguments N.ltb : simpl never.
Local Arguments N.leb : simpl never.
Local Arguments N.eqb : simpl never.
Local Arguments N.modulo : simpl never.
Local Arguments N.div : simpl never.
Local Arguments N.mul : simpl never.
Local Arguments le_dec : simpl never.
Local Arguments N.of_nat : simpl never.
Local Arguments N.to_nat : simpl never.
Local Arguments skipn : simpl never.
Local Arguments firstn : simpl never.
Local Opaque sha256 sha384 sha512 on_curve curve_p curve_b.

Lemma e_le_enc2 v : le_enc 2 v = [v mod 256; (v / 256) mod 256].
Proof. reflexivity. Qed.
Lemma e_le_dec_pair v : v < 65536 -> le_dec [v mod 256; (v / 256) mod 256] = v.
Proof. intros H. rewrite <- e_le_enc2. apply le_dec_enc_small. simpl. lia. Qed.
Lemma e_nlen_app {A} (a b : list A) : nlen (a ++ b) = nlen a + nlen b.
Proof. unfold nlen. rewrite app_length. lia. Qed.
Lemma ks_small k l1 l2 : lookup2 g_ahab1_key_sizes k = Some (l1, l2) -> l1 < 65536 /\ l2 < 65536.
Proof.
  change g_ahab1_key_sizes with [(1, (32, 32)); (2, (48, 48)); (3, (66, 66)); (5, (256, 4)); (6, (384, 4)); (7, (512, 4)); (8, (32, 32));
                                 (9, (1952, 0)); (10, (2592, 0))].
  cbn [lookup2]. intros H.
  repeat match type of H with (if ?c then _ else _) = _ => destruct c; [inversion H; subst; split; reflexivity|] end. discriminate.
Qed.

(* ---------------------------------------------------------------- one SRK record *)
Definition wf_rec (r : srk_rec) : Prop :=
  exists l1 l2, lookup2 g_ahab1_key_sizes (sr_ksid r) = Some (l1, l2) /\ sr_len r = 12 + l1 + l2 /\ nlen (sr_params r) = l1 + l2 /\
    sr_len r < 65536 /\ mem_n (sr_alg r) g_srk_v1_algs = true /\ mem_n (sr_hash r) g_srk_v1_hashes = true /\
    sr_alg r < 256 /\ sr_hash r < 256 /\ sr_ksid r < 256 /\ sr_flags r < 256.
Lemma v1_alg_is_v2 a : mem_n a g_srk_v1_algs = true -> mem_n a g_srk_v2_algs = true.
Proof.
  unfold mem_n. rewrite !existsb_exists. intros (x & Hx & E). exists x. split; [|exact E].
  cbn in Hx. cbn. tauto.
Qed.
Lemma rec_roundtrip r : wf_rec r ->
  exists b, srk_rec_export r = Ok b /\ nlen b = sr_len r /\ forall rest, srk_rec_parse (b ++ rest) = Ok r.
Proof.
  destruct r as [len alg hash ksid flags params]. unfold wf_rec. cbn [sr_len sr_alg sr_hash sr_ksid sr_flags sr_params].
  intros (l1 & l2 & HL & Hlen & Hp & Hl & Ha & Hh & Ha8 & Hh8 & Hk8 & Hf8).
  destruct (ks_small _ _ _ HL) as [Hl1 Hl2].
  unfold srk_rec_export. cbn [sr_len sr_alg sr_hash sr_ksid sr_flags sr_params]. rewrite HL.
  assert (G : ((65535 <? len) || (255 <? alg) || (255 <? hash) || (255 <? ksid) || (255 <? flags)) = false).
  { repeat (apply orb_false_iff; split); apply N.ltb_ge; lia. }
  rewrite G. eexists. split; [reflexivity|]. split.
  { unfold le16, nlen. rewrite !app_length, !le_enc_length. cbn [length]. unfold nlen in Hp. lia. }
  intros rest. unfold le16. rewrite !e_le_enc2. cbn [app]. unfold srk_rec_parse. set (tail := params ++ rest).
  match goal with |- context [nlen ?l <? 12] => assert (LN : nlen l = 12 + nlen tail) by (unfold nlen; cbn [length]; fold tail; lia) end.
  rewrite LN. assert (E1 : (12 + nlen tail <? 12) = false) by (apply N.ltb_ge; lia). rewrite E1.
  cbn [nth].
  assert (F1 : forall (a b : N) l, firstn 2 (a :: b :: l) = [a; b]) by reflexivity.
  assert (S1 : forall (a : N) l, skipn 1 (a :: l) = l) by reflexivity.
  assert (S8 : forall (a0 a1 a2 a3 a4 a5 a6 a7 : N) l, skipn 8 (a0 :: a1 :: a2 :: a3 :: a4 :: a5 :: a6 :: a7 :: l) = l) by reflexivity.
  assert (S10 : forall (a0 a1 a2 a3 a4 a5 a6 a7 a8 a9 : N) l, skipn 10 (a0 :: a1 :: a2 :: a3 :: a4 :: a5 :: a6 :: a7 :: a8 :: a9 :: l) = l) by reflexivity.
  assert (S12 : forall (a0 a1 a2 a3 a4 a5 a6 a7 a8 a9 a10 a11 : N) l,
             skipn 12 (a0 :: a1 :: a2 :: a3 :: a4 :: a5 :: a6 :: a7 :: a8 :: a9 :: a10 :: a11 :: l) = l) by reflexivity.
  rewrite ?S1, ?S8, ?S10, ?S12, ?F1. rewrite (e_le_dec_pair _ Hl), (e_le_dec_pair _ Hl1), (e_le_dec_pair _ Hl2).
  rewrite N.eqb_refl, (v1_alg_is_v2 _ Ha). cbn [negb orb].
  assert (E2 : (12 + nlen tail <? len) = false) by (apply N.ltb_ge; unfold tail; rewrite e_nlen_app; lia). rewrite E2.
  assert (E3 : (len <? l1 + l2 + 12) = false) by (apply N.ltb_ge; lia). rewrite E3. rewrite Ha, Hh. cbn [negb orb].
  do 2 f_equal. unfold tail. apply firstn_app_len. unfold nlen in Hp. lia.
Qed.

(* ---------------------------------------------------------------- the table: four records of one length *)
Definition wf_table (t : srk_table) : Prop :=
  exists r0 r1 r2 r3 L, st_recs t = [r0; r1; r2; r3] /\ Forall wf_rec [r0; r1; r2; r3] /\
    Forall (fun r => sr_len r = L) [r0; r1; r2; r3] /\ st_len t = 4 + 4 * L /\ st_len t < 65536.
Lemma table_roundtrip t : wf_table t ->
  exists b, srk_table_export t = Ok b /\ nlen b = st_len t /\ forall rest, srk_table_parse (b ++ rest) = Ok t.
Proof.
  destruct t as [len recs]. unfold wf_table. cbn [st_len st_recs].
  intros (r0 & r1 & r2 & r3 & L & -> & HW & HLn & Hlen & Hl).
  apply Forall_cons_iff in HW as [W0 HW]. apply Forall_cons_iff in HW as [W1 HW]. apply Forall_cons_iff in HW as [W2 HW].
  apply Forall_cons_iff in HW as [W3 _].
  apply Forall_cons_iff in HLn as [L0 HLn]. apply Forall_cons_iff in HLn as [L1 HLn]. apply Forall_cons_iff in HLn as [L2 HLn].
  apply Forall_cons_iff in HLn as [L3 _].
  destruct (rec_roundtrip r0 W0) as (b0 & E0 & N0 & P0). destruct (rec_roundtrip r1 W1) as (b1 & E1 & N1 & P1).
  destruct (rec_roundtrip r2 W2) as (b2 & E2 & N2 & P2). destruct (rec_roundtrip r3 W3) as (b3 & E3 & N3 & P3).
  rewrite L0 in N0. rewrite L1 in N1. rewrite L2 in N2. rewrite L3 in N3.
  unfold srk_table_export. cbn [st_recs st_len map_res]. rewrite E0, E1, E2, E3. cbn [bind].
  assert (G : (65535 <? len) = false) by (apply N.ltb_ge; lia). rewrite G. cbn [concat]. rewrite app_nil_r.
  eexists. split; [reflexivity|]. split.
  { unfold le16, nlen in *. rewrite !app_length, le_enc_length. cbn [length]. lia. }
  intros rest. unfold le16. rewrite e_le_enc2. cbn [app]. unfold srk_table_parse.
  set (body := (b0 ++ b1 ++ b2 ++ b3) ++ rest).
  match goal with |- context [nlen ?l <? 4] => assert (LN : nlen l = 4 + nlen body) by (unfold nlen; cbn [length]; fold body; lia) end.
  assert (LB : nlen body = 4 * L + nlen rest) by (unfold body; rewrite !e_nlen_app, N0, N1, N2, N3; lia).
  rewrite LN. assert (Q1 : (4 + nlen body <? 4) = false) by (apply N.ltb_ge; lia). rewrite Q1. cbn [nth].
  assert (F1 : forall (a b : N) l, firstn 2 (a :: b :: l) = [a; b]) by reflexivity.
  assert (S1 : forall (a : N) l, skipn 1 (a :: l) = l) by reflexivity.
  rewrite S1, F1, (e_le_dec_pair _ Hl). rewrite !N.eqb_refl. cbn [negb orb].
  assert (Q2 : (4 + nlen body <? len) = false) by (apply N.ltb_ge; lia). rewrite Q2.
  assert (Q3 : (len <? 4) = false) by (apply N.ltb_ge; lia). rewrite Q3.
  assert (Q4 : ((len - 4) mod 4 =? 0) = true).
  { apply N.eqb_eq. replace (len - 4) with (L * 4) by lia. apply N.mod_mul. lia. }
  rewrite Q4. cbn [negb].
  assert (Q5 : N.to_nat ((len - 4) / 4) = N.to_nat L).
  { f_equal. replace (len - 4) with (L * 4) by lia. apply N.div_mul. lia. }
  rewrite Q5. cbn [map_res].
  assert (SK : forall (a0 a1 a2 a3 : N) l k, skipn (4 + k) (a0 :: a1 :: a2 :: a3 :: l) = skipn k l) by (intros; reflexivity).
  assert (LL0 : length b0 = N.to_nat L) by (unfold nlen in N0; lia). assert (LL1 : length b1 = N.to_nat L) by (unfold nlen in N1; lia).
  assert (LL2 : length b2 = N.to_nat L) by (unfold nlen in N2; lia).
  rewrite !SK. unfold body. rewrite <- !app_assoc.
  change (skipn (0 * N.to_nat L) (b0 ++ b1 ++ b2 ++ b3 ++ rest)) with (b0 ++ b1 ++ b2 ++ b3 ++ rest). rewrite P0. cbn [bind].
  replace (1 * N.to_nat L)%nat with (length b0) by lia. rewrite skipn_app_len by reflexivity. rewrite P1.
  replace (2 * N.to_nat L)%nat with (length b0 + length b1)%nat by lia. rewrite skipn_app_more by reflexivity. rewrite skipn_app_len by reflexivity. rewrite P2.
  replace (3 * N.to_nat L)%nat with (length b0 + (length b1 + length b2))%nat by lia.
  rewrite skipn_app_more by reflexivity. rewrite skipn_app_more by reflexivity. rewrite skipn_app_len by reflexivity. rewrite P3.
  reflexivity.
Qed.

(* ---------------------------------------------------------------- the credential *)
Definition wf_dc_ele (d : dc) : Prop :=
  version_ok (d_major d) (d_minor d) = true /\ d_major d < 65536 /\ d_minor d < 65536 /\
  u32_ok (d_socc d) /\ length (d_uuid d) = 16%nat /\ u32_ok (d_socu d) /\ u32_ok (d_vu d) /\ u32_ok (d_beacon d) /\
  exists used cnt t keys rb kb,
    d_meta d = RMEle used cnt t /\ flags_validate used cnt = true /\ wf_table t /\ srk_table_verify t = Ok tt /\
    map_res srk_rec_key (st_recs t) = Ok keys /\ nth_error keys (N.to_nat used) = Some (d_rot d) /\
    raw_key (d_rot d) = Ok rb /\ raw_key (d_dck d) = Ok kb /\ length kb = length rb /\ pub_parse kb = Ok (d_dck d) /\
    length (d_sig d) = key_sig_size (d_rot d) /\ d_sig d <> [].

Lemma dc_ele_v1_roundtrip_lemma d : wf_dc_ele d ->
  exists b t, dc_tbs CEle d = Ok t /\ dc_export CEle d = Ok b /\ b = t ++ d_sig d /\ forall extra, ele_parse (b ++ extra) = Ok d.
Proof.
  destruct d as [maj mi socc uuid meta dck socu vu beacon rot sig]. unfold wf_dc_ele.
  cbn [d_major d_minor d_socc d_uuid d_meta d_dck d_socu d_vu d_beacon d_rot d_sig].
  intros (Hv & Hmaj & Hmi & Hsocc & Huuid & Hsocu & Hvu & Hbeacon &
          (used & cnt & t & keys & rb & kb & -> & Hfl & Ht & Hver & Hkeys & Hnth & Erb & Ekb & Lkb & Pkb & Hsig & Hne)).
  destruct (flags_roundtrip used cnt Hfl) as (fb & Efb & Lfb & Pfb).
  destruct (table_roundtrip t Ht) as (tb & Etb & Ntb & Ptb).
  set (mb := fb ++ tb).
  assert (Emb : rotmeta_export (RMEle used cnt t) = Ok mb) by (cbn [rotmeta_export]; rewrite Efb; cbn [bind]; now rewrite Etb).
  set (hv := [XI maj; XI mi; XI socc; XB uuid; XI socu; XI vu; XI beacon]).
  assert (HV1 : Forall2 fval_ok head_fmt hv).
  { unfold head_fmt, hv. unfold u32_ok in *. repeat constructor; cbn [fval_ok]; assumption. }
  destruct (pack_total _ _ HV1) as (hb & Ehb). pose proof (pack_length _ _ _ Ehb) as Lhb.
  change (calcsize head_fmt) with 36%nat in Lhb.
  set (d0 := {| d_major := maj; d_minor := mi; d_socc := socc; d_uuid := uuid; d_meta := RMEle used cnt t; d_dck := dck;
                d_socu := socu; d_vu := vu; d_beacon := beacon; d_rot := rot; d_sig := sig |}).
  assert (Etbs : dc_tbs CEle d0 = Ok (hb ++ mb ++ kb)).
  { unfold dc_tbs, dc_format, d0. cbn [d_meta]. rewrite Emb. cbn [bind]. unfold dck_blob at 1. cbn [d_dck]. rewrite Ekb. cbn [bind].
    unfold dc_order, ele_order. cbn [map_res]. unfold field_val.
    repeat match goal with |- context [?a =? ?b] => change (a =? b) with false || change (a =? b) with true end. cbv iota.
    cbn [d_major d_minor d_socc d_uuid d_meta d_dck d_socu d_vu d_beacon d_rot]. unfold dck_blob. cbn [d_dck]. rewrite Emb, Ekb. cbn [res_map bind].
    unfold ele_fmt. change [XI maj; XI mi; XI socc; XB uuid; XI socu; XI vu; XI beacon; XB mb; XB kb] with (hv ++ [XB mb; XB kb]).
    apply pack_app; [exact Ehb|]. cbn [pack pack1 bind]. rewrite !pack_s_exact by reflexivity. now rewrite app_nil_r. }
  exists ((hb ++ mb ++ kb) ++ sig), (hb ++ mb ++ kb). split; [exact Etbs|]. split.
  { unfold dc_export. fold d0. change (d_sig d0) with sig. destruct sig as [|s0 sg]; [contradiction|]. rewrite Etbs. cbn [bind].
    unfold dc_sig_width. cbn [bind d_sig d0]. now rewrite pack_s_exact by reflexivity. }
  split; [reflexivity|]. intros extra.
  set (b := ((hb ++ mb ++ kb) ++ sig) ++ extra).
  assert (Eb : b = hb ++ fb ++ tb ++ kb ++ sig ++ extra) by (unfold b, mb; now rewrite <- !app_assoc).
  unfold ele_parse.
  assert (U1 : unpack_from head_fmt b 0 = Ok hv).
  { rewrite unpack_from_ok by (change (calcsize head_fmt) with 36%nat; unfold b; rewrite !app_length; lia).
    change (skipn 0 b) with b. f_equal. unfold b. rewrite <- !app_assoc. exact (struct_roundtrip_lemma _ _ _ _ HV1 Ehb). }
  rewrite U1. cbn [bind]. unfold hv. cbn [nth xi xb]. rewrite Hv. cbn [negb].
  assert (Emp : ele_meta_parse (skipn 36 b) = Ok (RMEle used cnt t)).
  { rewrite Eb. rewrite skipn_app_len by (now rewrite Lhb). unfold ele_meta_parse.
    rewrite firstn_app_len by (now rewrite Lfb). rewrite Pfb. cbn [bind]. rewrite skipn_app_len by (now rewrite Lfb).
    rewrite Ptb. cbn [bind]. now rewrite Hver. }
  rewrite Emp. cbn [bind]. rewrite Hkeys. cbn [bind]. rewrite Hnth, Erb. cbn [bind]. rewrite Emb. cbn [bind].
  assert (U2 : unpack_from [FS (length rb); FS (key_sig_size rot)] b (36 + length mb) = Ok [XB kb; XB sig]).
  { rewrite unpack_from_ok.
    - replace (skipn (36 + length mb) b) with ((kb ++ sig) ++ extra).
      2:{ unfold b. rewrite <- !app_assoc. rewrite skipn_app_more by (now rewrite Lhb). now rewrite skipn_app_len. }
      f_equal. assert (HV3 : Forall2 fval_ok [FS (length rb); FS (key_sig_size rot)] [XB kb; XB sig]) by (repeat constructor; cbn [fval_ok]; assumption).
      apply (struct_roundtrip_lemma _ _ _ extra HV3). cbn [pack pack1 bind]. rewrite !pack_s_exact by assumption. now rewrite app_nil_r.
    - cbn [calcsize fold_right fwidth]. unfold b. rewrite !app_length, Lhb. lia. }
  rewrite U2. cbn [bind nth xb]. rewrite Pkb. reflexivity.
Qed.

(* non-vacuity: the credential create_from_yaml_config builds for four P-256 keys is well formed *)
Example wf_dc_ele_nontrivial :
  exists c d, dc_create 1 1 1381237916 [g256; g256; g256; g256] 2 g256 (zeros 16) 1 2 3 false = Ok (c, d)
              /\ c = CEle /\ wf_dc_ele (dc_with_sig d (repeat 7 64)).
Proof.
  destruct (dc_create 1 1 1381237916 [g256; g256; g256; g256] 2 g256 (zeros 16) 1 2 3 false) as [[c d]|] eqn:E; [|vm_compute in E; discriminate].
  exists c, d. split; [reflexivity|]. vm_compute in E. inversion E; subst. clear E. split; [reflexivity|].
  unfold wf_dc_ele, dc_with_sig, u32_ok. cbn [d_major d_minor d_socc d_uuid d_meta d_dck d_socu d_vu d_beacon d_rot d_sig].
  repeat split; try reflexivity; try lia.
  do 6 eexists. split; [reflexivity|]. split; [reflexivity|]. split.
  { unfold wf_table. cbn [st_recs st_len]. do 5 eexists. split; [reflexivity|]. split.
    - repeat constructor; unfold wf_rec; cbn [sr_len sr_alg sr_hash sr_ksid sr_flags sr_params]; (do 2 eexists); repeat split; try reflexivity; try lia.
    - split; [repeat constructor; reflexivity|]. split; [reflexivity|lia]. }
  split; [vm_compute; reflexivity|]. split; [vm_compute; reflexivity|]. split; [vm_compute; reflexivity|].
  split; [vm_compute; reflexivity|]. split; [vm_compute; reflexivity|]. split; [reflexivity|]. split; [vm_compute; reflexivity|].
  split; [reflexivity|discriminate].
Qed.
