(* Proofs/DatProofs.v -- C15 lemmas: struct codec, credential round trip, signed range, response binding. *)
From Coq Require Import ZArith NArith List Bool Lia.
Require Import Value Bytes BytesProofs Sha2 GenRot RotModel GenDat DatModel.
Import ListNotations.
Local Open Scope N_scope.
Local Arguments le_enc : simpl never.
Local Arguments le_dec : simpl never.
Local Arguments N.ltb : simpl never.
Local Arguments N.pow : simpl never.
Local Arguments N.mul : simpl never.
Local Arguments zeros : simpl never.
Local Arguments firstn : simpl never.
Local Arguments skipn : simpl never.

(* ====================================================================================== *)
(* lists                                                                                    *)
(* ====================================================================================== *)
Lemma firstn_app_len {A} (a b : list A) n : n = length a -> firstn n (a ++ b) = a.
Proof. intros ->. rewrite firstn_app, Nat.sub_diag, firstn_all. simpl. apply app_nil_r. Qed.
Lemma skipn_app_len {A} (a b : list A) n : n = length a -> skipn n (a ++ b) = b.
Proof. intros ->. rewrite skipn_app, Nat.sub_diag, skipn_all. reflexivity. Qed.
Lemma skipn_app_more {A} (a b : list A) n k : n = length a -> skipn (n + k) (a ++ b) = skipn k b.
Proof.
  intros ->. rewrite skipn_app. rewrite skipn_all2 by lia. simpl. f_equal. lia.
Qed.
Lemma firstn_app_more {A} (a b : list A) n k : n = length a -> firstn (n + k) (a ++ b) = a ++ firstn k b.
Proof.
  intros ->. rewrite firstn_app. rewrite firstn_all2 by lia. f_equal. f_equal. lia.
Qed.
Lemma zeros_length n : length (zeros n) = n.
Proof. apply repeat_length. Qed.
Lemma nlen_nat {A} (a : list A) : N.to_nat (nlen a) = length a.
Proof. unfold nlen. lia. Qed.
Lemma eqb_list_refl a : eqb_list a a = true.
Proof. now apply eqb_list_spec. Qed.

Lemma app_inj_len {A} (a b c d : list A) : length a = length c -> a ++ b = c ++ d -> a = c /\ b = d.
Proof.
  revert c; induction a as [|x a IH]; intros [|y c] HL H; simpl in *; try discriminate.
  - now split.
  - inversion H; subst. destruct (IH c) as [-> ->]; [lia|assumption|]. now split.
Qed.
Lemma app_inj_tail_len {A} (a b c d : list A) : length b = length d -> a ++ b = c ++ d -> a = c /\ b = d.
Proof.
  intros HL H. assert (HA : length a = length c).
  { apply (f_equal (@length A)) in H. rewrite !app_length in H. lia. }
  now apply app_inj_len.
Qed.

(* ====================================================================================== *)
(* the struct codec                                                                         *)
(* ====================================================================================== *)
Definition fval_ok (i : fitem) (v : fval) : Prop :=
  match i, v with
  | FU16, XI n => n < 65536
  | FU32, XI n => n < 4294967296
  | FS k, XB b => length b = k
  | _, _ => False
  end.

Lemma pack_s_exact n b : length b = n -> pack_s n b = b.
Proof. intros <-. unfold pack_s. rewrite firstn_all, Nat.sub_diag. simpl. apply app_nil_r. Qed.
Lemma pack_s_length n b : length (pack_s n b) = n.
Proof.
  unfold pack_s. rewrite app_length, firstn_length, zeros_length. lia.
Qed.

Lemma pack1_ok i v : fval_ok i v -> exists b, pack1 i v = Ok b /\ length b = fwidth i.
Proof.
  destruct i, v; simpl; intros H; try contradiction.
  - apply N.ltb_lt in H. rewrite H. eexists; split; [reflexivity|apply le_enc_length].
  - apply N.ltb_lt in H. rewrite H. eexists; split; [reflexivity|apply le_enc_length].
  - eexists; split; [reflexivity|]. apply pack_s_length.
Qed.
Lemma pack1_length i v b : pack1 i v = Ok b -> length b = fwidth i.
Proof.
  destruct i, v; simpl; try discriminate.
  - destruct (v <? 65536); [|discriminate]. intros H; inversion H; subst. apply le_enc_length.
  - destruct (v <? 4294967296); [|discriminate]. intros H; inversion H; subst. apply le_enc_length.
  - intros H; inversion H; subst. apply pack_s_length.
Qed.
Lemma pack_length f : forall vs b, pack f vs = Ok b -> length b = calcsize f.
Proof.
  induction f as [|i f IH]; intros [|v vs] b; simpl; try discriminate.
  - intros H; inversion H; reflexivity.
  - destruct (pack1 i v) as [a|] eqn:E1; [|discriminate]. simpl.
    destruct (pack f vs) as [c|] eqn:E2; [|discriminate]. simpl. intros H; inversion H; subst.
    rewrite app_length, (pack1_length _ _ _ E1), (IH _ _ E2). reflexivity.
Qed.

Lemma unpack1_pack1 i v b rest : fval_ok i v -> pack1 i v = Ok b -> unpack1 i (b ++ rest) = v.
Proof.
  destruct i, v; simpl; intros H; try contradiction.
  - pose proof H as H'. apply N.ltb_lt in H'. rewrite H'. intros E; inversion E; subst.
    rewrite firstn_app_len by (now rewrite le_enc_length). f_equal. apply le_dec_enc_small. simpl. lia.
  - pose proof H as H'. apply N.ltb_lt in H'. rewrite H'. intros E; inversion E; subst.
    rewrite firstn_app_len by (now rewrite le_enc_length). f_equal. apply le_dec_enc_small. simpl. lia.
  - intros E; inversion E; subst. rewrite pack_s_exact by reflexivity. now rewrite firstn_app_len.
Qed.

Lemma struct_roundtrip_lemma f : forall vs b rest,
  Forall2 fval_ok f vs -> pack f vs = Ok b -> unpack f (b ++ rest) = vs.
Proof.
  induction f as [|i f IH]; intros vs b rest HF; inversion HF as [|? v ? vs' Hv Hvs]; subst; simpl.
  - reflexivity.
  - destruct (pack1 i v) as [a|] eqn:E1; [|discriminate]. simpl.
    destruct (pack f vs') as [c|] eqn:E2; [|discriminate]. simpl. intros H; inversion H; subst.
    rewrite <- app_assoc. rewrite (unpack1_pack1 _ _ _ _ Hv E1). f_equal.
    rewrite skipn_app_len by (symmetry; apply (pack1_length _ _ _ E1)). now apply IH.
Qed.
Lemma pack_total f : forall vs, Forall2 fval_ok f vs -> exists b, pack f vs = Ok b.
Proof.
  induction f as [|i f IH]; intros vs HF; inversion HF as [|? v ? vs' Hv Hvs]; subst; simpl.
  - now eexists.
  - destruct (pack1_ok _ _ Hv) as (a & -> & _). destruct (IH _ Hvs) as (c & ->). simpl. now eexists.
Qed.
Lemma pack_app f g : forall vs ws a b, pack f vs = Ok a -> pack g ws = Ok b -> pack (f ++ g) (vs ++ ws) = Ok (a ++ b).
Proof.
  induction f as [|i f IH]; intros [|v vs] ws a b; simpl; try discriminate.
  - intros H; inversion H; subst. now intros ->.
  - destruct (pack1 i v) as [x|]; [|discriminate]. simpl.
    destruct (pack f vs) as [y|] eqn:E; [|discriminate]. simpl. intros H; inversion H; subst. intros Hg.
    rewrite (IH _ _ _ _ E Hg). simpl. now rewrite app_assoc.
Qed.
Lemma unpack_from_ok f d off : (off + calcsize f <= length d)%nat -> unpack_from f d off = Ok (unpack f (skipn off d)).
Proof.
  intros H. unfold unpack_from. destruct (length d <? off + calcsize f)%nat eqn:E; [|reflexivity].
  apply Nat.ltb_lt in E. lia.
Qed.
(* the full statement used as property theorem *)
Lemma struct_roundtrip_full f vs :
  Forall2 fval_ok f vs ->
  exists b, pack f vs = Ok b /\ length b = calcsize f /\
            forall pre rest, unpack_from f (pre ++ b ++ rest) (length pre) = Ok vs.
Proof.
  intros HF. destruct (pack_total f vs HF) as (b & Hb). exists b. split; [assumption|]. split; [now apply pack_length in Hb|].
  intros pre rest. rewrite unpack_from_ok.
  - rewrite skipn_app_len by reflexivity. f_equal. now apply struct_roundtrip_lemma.
  - rewrite !app_length, (pack_length _ _ _ Hb). lia.
Qed.
Example struct_roundtrip_nontrivial : Forall2 fval_ok [FU16; FU32; FS 3] [XI 258; XI 1; XB [7; 8; 9]].
Proof. repeat constructor; simpl; lia. Qed.

(* ====================================================================================== *)
(* responses                                                                                *)
(* ====================================================================================== *)
Lemma u32_length v b : u32 v = Ok b -> length b = 4%nat.
Proof. unfold u32. destruct (v <? 4294967296); [|discriminate]. intros H; inversion H. apply le_enc_length. Qed.
Lemma u32_inj v v' b : u32 v = Ok b -> u32 v' = Ok b -> v = v'.
Proof.
  unfold u32. destruct (v <? 4294967296) eqn:E; [|discriminate]. destruct (v' <? 4294967296) eqn:E'; [|discriminate].
  intros H H'; inversion H; inversion H'; subst. apply N.ltb_lt in E, E'.
  assert (D : le_dec (le_enc 4 v) = le_dec (le_enc 4 v')) by congruence.
  rewrite !le_dec_enc_small in D by (simpl; lia). assumption.
Qed.
Lemma u32_dec v b : u32 v = Ok b -> le_dec b = v.
Proof.
  unfold u32. destruct (v <? 4294967296) eqn:E; [|discriminate]. intros H; inversion H. apply N.ltb_lt in E.
  apply le_dec_enc_small. simpl. lia.
Qed.

(* the response starts with the credential, then the beacon, then (ECC protocols) the uuid, then the signature *)
Lemma dar_embeds_lemma u dcb beacon uuid sig r :
  length uuid = 16%nat -> dar_export u dcb beacon uuid sig = Ok r ->
  exists bb, u32 beacon = Ok bb /\ r = dcb ++ bb ++ (if u then uuid else []) ++ sig
             /\ firstn (length dcb) r = dcb /\ le_dec (firstn 4 (skipn (length dcb) r)) = beacon
             /\ (u = true -> firstn 16 (skipn (length dcb + 4) r) = uuid)
             /\ skipn (length dcb + 4 + (if u then 16 else 0)) r = sig.
Proof.
  intros HU. unfold dar_export, dar_common. destruct (u32 beacon) as [bb|] eqn:EB; [|discriminate]. simpl.
  destruct sig as [|s0 sig]; [discriminate|]. intros H; inversion H; subst. clear H.
  pose proof (u32_length _ _ EB) as LB. exists bb. split; [reflexivity|].
  rewrite (pack_s_exact 16 uuid HU).
  split; [now rewrite <- !app_assoc|]. rewrite <- !app_assoc.
  split; [now apply firstn_app_len|].
  split; [rewrite skipn_app_len by reflexivity; rewrite firstn_app_len by (now rewrite LB); now apply u32_dec|].
  split.
  - intros ->. rewrite skipn_app_more by reflexivity. rewrite skipn_app_len by (now rewrite LB). now apply firstn_app_len.
  - destruct u.
    + rewrite <- Nat.add_assoc. rewrite skipn_app_more by reflexivity.
      rewrite skipn_app_more by (now rewrite LB). now apply skipn_app_len.
    + rewrite Nat.add_0_r. rewrite skipn_app_more by reflexivity. simpl app. now apply skipn_app_len.
Qed.

(* injectivity of the signed message: credential, beacon, uuid and challenge are all determined by it *)
Lemma dar_binds_lemma u dcb beacon uuid ch dcb' beacon' uuid' ch' m :
  length uuid = 16%nat -> length uuid' = 16%nat -> length ch = 32%nat -> length ch' = 32%nat ->
  dar_tbs u dcb beacon uuid ch = Ok m -> dar_tbs u dcb' beacon' uuid' ch' = Ok m ->
  dcb = dcb' /\ beacon = beacon' /\ (u = true -> uuid = uuid') /\ ch = ch'.
Proof.
  intros HU HU' HC HC'. unfold dar_tbs, dar_common.
  destruct (u32 beacon) as [bb|] eqn:EB; [|discriminate]. destruct (u32 beacon') as [bb'|] eqn:EB'; [|discriminate]. simpl.
  intros H H'; inversion H; subst; inversion H' as [H2]. clear H H'.
  rewrite !(pack_s_exact 16) in H2 by assumption.
  pose proof (u32_length _ _ EB) as LB. pose proof (u32_length _ _ EB') as LB'.
  apply app_inj_tail_len in H2 as [H2 ->]; [|lia].
  destruct u.
  - rewrite !app_assoc in H2. apply app_inj_tail_len in H2 as [H2 ->]; [|lia].
    apply app_inj_tail_len in H2 as [-> H3]; [|lia]. subst bb'.
    repeat split; try reflexivity. now apply (u32_inj _ _ _ EB EB').
  - rewrite !app_nil_r in H2. apply app_inj_tail_len in H2 as [-> H3]; [|lia]. subst bb'.
    repeat split; try reflexivity; [now apply (u32_inj _ _ _ EB EB')|discriminate].
Qed.
Example dar_binds_nontrivial :
  exists m, dar_tbs true [1; 2] 7 (zeros 16) (zeros 32) = Ok m /\ length m = 54%nat.
Proof. eexists. split; [vm_compute; reflexivity|reflexivity]. Qed.

(* ====================================================================================== *)
(* numbers, key blobs (small facts re-proved here; C03's RotProofs is not imported)         *)
(* ====================================================================================== *)
Lemma dat_le_encf_eq w n : le_encf w n = le_enc w n.
Proof.
  revert n; induction w as [|w IH]; intros n; [reflexivity|].
  cbn [le_encf]. unfold le_enc; fold le_enc. rewrite IH. f_equal.
  - change 255 with (N.ones 8). rewrite N.land_ones. reflexivity.
  - rewrite N.shiftr_div_pow2. reflexivity.
Qed.
Lemma dat_be_encf_eq w n : be_encf w n = be_enc w n.
Proof. unfold be_encf, be_enc. now rewrite dat_le_encf_eq. Qed.
Lemma dat_be_encf_length w n : length (be_encf w n) = w.
Proof. rewrite dat_be_encf_eq. apply be_enc_length. Qed.
Lemma dat_size_lower n : n <> 0 -> 2 ^ (N.size n - 1) <= n.
Proof.
  intros Hn. pose proof (N.size_le n) as H.
  assert (Hs : N.size n <> 0) by (destruct n; [contradiction|simpl; discriminate]).
  replace (N.size n) with (N.succ (N.size n - 1)) in H by lia.
  rewrite N.pow_succ_r' in H.
  destruct n as [|p]; [contradiction|]. simpl N.succ_double in H. lia.
Qed.
Lemma dat_size_le_iff n k : N.size n <= k <-> n < 2 ^ k.
Proof.
  split; intros H.
  - eapply N.lt_le_trans; [apply N.size_gt|]. apply N.pow_le_mono_r; lia.
  - destruct (N.eq_dec n 0) as [->|Hn]; [simpl; lia|].
    destruct (N.le_gt_cases (N.size n) k) as [|Hgt]; [assumption|exfalso].
    pose proof (dat_size_lower n Hn) as HL.
    assert (2 ^ k <= 2 ^ (N.size n - 1)) by (apply N.pow_le_mono_r; lia). lia.
Qed.
Lemma dat_to_bytes_ok len v : v < 2 ^ (8 * N.of_nat len) -> to_bytes len v = Ok (be_encf len v).
Proof. intros H. unfold to_bytes. apply dat_size_le_iff in H. apply N.leb_le in H. now rewrite H. Qed.
Lemma dat_byte_len_bound v : v < 2 ^ (8 * N.of_nat (byte_len v)).
Proof.
  eapply N.lt_le_trans; [apply N.size_gt|]. apply N.pow_le_mono_r; [lia|].
  unfold byte_len. rewrite N2Nat.id.
  pose proof (N.div_mod (N.size v + 7) 8). pose proof (N.mod_lt (N.size v + 7) 8). lia.
Qed.
Lemma dat_be_dec_be_min v : be_dec (be_min v) = v.
Proof. unfold be_min. rewrite dat_be_encf_eq. apply be_dec_enc_small. apply dat_byte_len_bound. Qed.
Lemma dat_be_min_length v : length (be_min v) = byte_len v.
Proof. apply dat_be_encf_length. Qed.
Lemma dat_be_dec_be_encf w v : v < 2 ^ (8 * N.of_nat w) -> be_dec (be_encf w v) = v.
Proof. intros H. rewrite dat_be_encf_eq. now apply be_dec_enc_small. Qed.

Lemma dat_digest_bytes_length c s : length (digest_bytes c s) = (8 * wbytes c)%nat.
Proof.
  destruct s as [[[[[[[a b] cc] d] e] f] g] h]. unfold digest_bytes. cbn [map concat].
  rewrite !app_length, !be_enc_length. simpl. lia.
Qed.
Lemma dat_sha256_length m : length (sha256 m) = 32%nat.
Proof. unfold sha256, sha2. rewrite firstn_length, dat_digest_bytes_length. reflexivity. Qed.
Lemma dat_sha384_length m : length (sha384 m) = 48%nat.
Proof. unfold sha384, sha2. rewrite firstn_length, dat_digest_bytes_length. reflexivity. Qed.
Lemma dat_sha512_length m : length (sha512 m) = 64%nat.
Proof. unfold sha512, sha2. rewrite firstn_length, dat_digest_bytes_length. reflexivity. Qed.
Local Opaque sha256 sha384 sha512.

(* RSA keys as the 1.x credentials carry them: modulus of exactly kb bytes, exponent in 4 bytes, numbers `cryptography` accepts *)
Definition rsa_key_wf (kb : nat) (k : key) : Prop :=
  match k with
  | KRsa n e => byte_len n = kb /\ e < 4294967296 /\ rsa_numbers_ok n e = true
  | KEcc _ _ _ => False
  end.
Lemma rsa_export4_ok kb k : rsa_key_wf kb k ->
  exists b, rsa_export_w 4 k = Ok b /\ length b = (kb + 4)%nat /\ ((kb = 256 \/ kb = 512)%nat -> pub_parse b = Ok k).
Proof.
  destruct k as [n e|]; [|contradiction]. intros (Hn & He & Hok). unfold rsa_export_w.
  rewrite dat_to_bytes_ok by (simpl; lia). cbn [bind]. eexists. split; [reflexivity|].
  split; [rewrite app_length, dat_be_min_length, dat_be_encf_length; lia|].
  intros Hkb. unfold pub_parse, raw_decode.
  assert (L : nlen (be_min n ++ be_encf 4 e) = N.of_nat (kb + 4)).
  { unfold nlen. now rewrite app_length, dat_be_min_length, dat_be_encf_length, Hn. }
  rewrite L.
  assert (F : firstn kb (be_min n ++ be_encf 4 e) = be_min n) by (apply firstn_app_len; now rewrite dat_be_min_length).
  assert (S : skipn kb (be_min n ++ be_encf 4 e) = be_encf 4 e) by (apply skipn_app_len; now rewrite dat_be_min_length).
  assert (D : be_dec (be_encf 4 e) = e) by (apply dat_be_dec_be_encf; simpl; lia).
  destruct Hkb as [-> | ->]; vm_compute (N.of_nat _); cbv beta iota; cbn [N.eqb Pos.eqb]; cbn [find g_rsa_sizes];
    vm_compute (_ <=? _); cbn [andb]; vm_compute (N.to_nat _);
    rewrite F, S, dat_be_dec_be_min, D; cbn [bind]; now rewrite Hok.
Qed.

(* ECC keys: a point of the curve the protocol version names *)
Definition ecc_key_wf (c : N) (k : key) : Prop :=
  match k with KEcc c' x y => c' = c /\ on_curve c x y = true | KRsa _ _ => False end.
Lemma dat_curve_p_bound c : c = 256 \/ c = 384 \/ c = 521 -> curve_p c <= 2 ^ (8 * N.of_nat (coord_size c)).
Proof. intros [-> | [-> | ->]]; vm_compute; discriminate. Qed.
Lemma on_curve_bounds c x y : c = 256 \/ c = 384 \/ c = 521 -> on_curve c x y = true ->
  x < 2 ^ (8 * N.of_nat (coord_size c)) /\ y < 2 ^ (8 * N.of_nat (coord_size c)).
Proof.
  intros Hc HO. unfold on_curve in HO. apply andb_true_iff in HO as [H _]. apply andb_true_iff in H as [Hx Hy].
  apply N.ltb_lt in Hx, Hy. pose proof (dat_curve_p_bound c Hc). split; lia.
Qed.
Local Opaque on_curve curve_p curve_b.
Lemma raw_decode_ecc c x y : c = 256 \/ c = 384 \/ c = 521 -> on_curve c x y = true ->
  raw_decode (be_encf (coord_size c) x ++ be_encf (coord_size c) y) = Ok (KEcc c x y).
Proof.
  intros Hc HO. destruct (on_curve_bounds c x y Hc HO) as [Hx Hy].
  set (cs := coord_size c) in *.
  assert (L : length (be_encf cs x ++ be_encf cs y) = (2 * cs)%nat) by (rewrite app_length, !dat_be_encf_length; lia).
  unfold raw_decode. unfold nlen. rewrite L.
  replace (2 * cs / 2)%nat with cs by (rewrite Nat.mul_comm, Nat.div_mul; lia).
  rewrite firstn_app_len, skipn_app_len by (now rewrite dat_be_encf_length).
  rewrite !dat_be_dec_be_encf by assumption.
  destruct Hc as [-> | [-> | ->]]; subst cs.
  - change (N.of_nat (2 * coord_size 256)) with 64. change (64 =? 64) with true. cbv beta iota zeta. now rewrite HO.
  - change (N.of_nat (2 * coord_size 384)) with 96. change (96 =? 64) with false. change (96 =? 96) with true.
    cbv beta iota zeta. now rewrite HO.
  - change (N.of_nat (2 * coord_size 521)) with 132. change (132 =? 64) with false. change (132 =? 96) with false.
    change (132 =? 132) with true. cbv beta iota zeta. now rewrite HO.
Qed.
Lemma ecc_blob_ok c k : c = 256 \/ c = 384 \/ c = 521 -> ecc_key_wf c k ->
  exists b, raw_key k = Ok b /\ length b = (2 * coord_size c)%nat /\ pub_parse b = Ok k.
Proof.
  intros Hc. destruct k as [|c' x y]; [contradiction|]. intros [-> HO].
  destruct (on_curve_bounds c x y Hc HO) as [Hx Hy].
  unfold raw_key. rewrite (dat_to_bytes_ok _ _ Hx), (dat_to_bytes_ok _ _ Hy). cbn [bind].
  eexists. split; [reflexivity|]. split; [rewrite app_length, !dat_be_encf_length; lia|].
  unfold pub_parse. rewrite (raw_decode_ecc c x y Hc HO). reflexivity.
Qed.

(* ====================================================================================== *)
(* tables of fixed-size entries                                                             *)
(* ====================================================================================== *)
Lemma slice_app_skip {A} (x y : list A) a b : slice (x ++ y) (length x + a) (length x + b) = slice y a b.
Proof. unfold slice. rewrite skipn_app_more by reflexivity. f_equal. lia. Qed.
Lemma chunks_concat k (items : list (list N)) r : Forall (fun x => length x = k) items ->
  map (fun i => slice (concat items ++ r) (i * k) ((i + 1) * k)) (seq 0 (length items)) = items.
Proof.
  induction items as [|x t IH]; intros HF; [reflexivity|]. inversion HF as [|? ? Hx Ht]; subst.
  cbn [length seq map concat]. f_equal.
  - unfold slice. rewrite Nat.mul_0_l. replace ((0 + 1) * length x - 0)%nat with (length x) by lia.
    change (skipn 0 ((x ++ concat t) ++ r)) with ((x ++ concat t) ++ r). rewrite <- app_assoc. now apply firstn_app_len.
  - rewrite <- seq_shift, map_map. rewrite <- (IH Ht) at 2. apply map_ext. intros i. rewrite <- app_assoc.
    replace (S i * length x)%nat with (length x + i * length x)%nat by lia.
    replace ((S i + 1) * length x)%nat with (length x + (i + 1) * length x)%nat by lia. apply slice_app_skip.
Qed.
Lemma concat_length_k k (items : list (list N)) : Forall (fun x => length x = k) items -> length (concat items) = (k * length items)%nat.
Proof.
  induction items as [|x t IH]; intros HF; [simpl; lia|]. inversion HF; subst. cbn [concat length].
  rewrite app_length, IH by assumption. lia.
Qed.
Lemma concat_zero_chunks j : concat (repeat (zeros 32) j) = zeros (32 * j).
Proof.
  induction j as [|j IH]; [reflexivity|]. cbn [repeat concat]. rewrite IH. unfold zeros. rewrite <- repeat_app. f_equal. lia.
Qed.
Lemma dat_skipn_skipn {A} (l : list A) : forall a b, skipn a (skipn b l) = skipn (b + a) l.
Proof.
  induction l as [|x l IH]; intros a b.
  - now rewrite !skipn_nil.
  - destruct b as [|b]; [reflexivity|]. change (skipn (S b) (x :: l)) with (skipn b l).
    change (skipn (S b + a) (x :: l)) with (skipn (b + a) l). apply IH.
Qed.
Lemma skipn_zeros m n : skipn m (zeros n) = zeros (n - m).
Proof.
  unfold zeros. revert n; induction m as [|m IH]; intros n; [now rewrite Nat.sub_0_r|].
  destruct n as [|n]; [reflexivity|]. cbn [repeat]. unfold skipn; fold (@skipn N). apply IH.
Qed.

(* RotMetaRSA.export: the items in order, zero filled to 128 bytes *)
Lemma fill_spec items : forall buf i, Forall (fun x => length x = 32%nat) items -> length buf = 128%nat ->
  (i + length items <= 4)%nat ->
  rsa_meta_fill buf i items = firstn (32 * i) buf ++ concat items ++ skipn (32 * (i + length items)) buf.
Proof.
  induction items as [|x t IH]; intros buf i HF HL HI.
  - cbn [rsa_meta_fill concat length app]. rewrite Nat.add_0_r. symmetry. apply firstn_skipn.
  - inversion HF as [|? ? Hx Ht]; subst. cbn [rsa_meta_fill length] in *. 
    set (buf' := slice_assign buf (i * 32) ((i + 1) * 32) x).
    assert (HL' : length buf' = 128%nat).
    { unfold buf', slice_assign. rewrite !app_length, firstn_length, skipn_length. lia. }
    rewrite (IH buf' (S i) Ht HL') by lia.
    assert (F : firstn (32 * S i) buf' = firstn (32 * i) buf ++ x).
    { unfold buf', slice_assign. replace (i * 32)%nat with (32 * i)%nat by lia.
      replace (32 * S i)%nat with (length (firstn (32 * i) buf) + 32)%nat by (rewrite firstn_length; lia).
      rewrite firstn_app_more by reflexivity. f_equal. now apply firstn_app_len. }
    assert (S' : skipn (32 * (S i + length t)) buf' = skipn (32 * (i + S (length t))) buf).
    { unfold buf', slice_assign. replace (i * 32)%nat with (32 * i)%nat by lia.
      replace (32 * (S i + length t))%nat with (length (firstn (32 * i) buf) + (32 + 32 * length t))%nat by (rewrite firstn_length; lia).
      rewrite skipn_app_more by reflexivity. rewrite skipn_app_more by (now symmetry).
      rewrite dat_skipn_skipn. f_equal. lia. }
    rewrite F, S'. cbn [concat]. now rewrite <- !app_assoc.
Qed.
Lemma rsa_meta_export_spec items : Forall (fun x => length x = 32%nat) items -> (length items <= 4)%nat ->
  rsa_meta_fill (zeros 128) 0 items = concat (items ++ repeat (zeros 32) (4 - length items)).
Proof.
  intros HF HL. rewrite (fill_spec items (zeros 128) 0 HF (zeros_length 128)) by lia.
  rewrite Nat.mul_0_r. change (firstn 0 (zeros 128)) with (@nil N). cbn [app]. rewrite concat_app. f_equal.
  rewrite skipn_zeros, concat_zero_chunks. f_equal. lia.
Qed.
Lemma all_zero_zeros n : all_zero (zeros n) = true.
Proof. unfold all_zero, zeros. induction n; [reflexivity|]. cbn [repeat forallb]. now rewrite IHn. Qed.
Definition rsa_items_wf (items : list (list N)) : Prop :=
  (length items <= 4)%nat /\ Forall (fun x => length x = 32%nat) items /\ Forall (fun x => all_zero x = false) items.
Lemma rsa_meta_roundtrip items : rsa_items_wf items ->
  rsa_meta_parse (rsa_meta_fill (zeros 128) 0 items) = Ok (RMRsa items) /\ length (rsa_meta_fill (zeros 128) 0 items) = 128%nat.
Proof.
  intros (HL & H32 & HZ). rewrite (rsa_meta_export_spec items H32 HL).
  set (full := items ++ repeat (zeros 32) (4 - length items)).
  assert (HF : Forall (fun x => length x = 32%nat) full).
  { unfold full. apply Forall_app. split; [assumption|]. apply Forall_forall. intros x Hx. apply repeat_spec in Hx. subst. apply zeros_length. }
  assert (HN : length full = 4%nat) by (unfold full; rewrite app_length, repeat_length; lia).
  assert (LC : length (concat full) = 128%nat) by (rewrite (concat_length_k 32 full HF), HN; reflexivity).
  split; [|exact LC]. unfold rsa_meta_parse, nlen. rewrite LC. change (N.of_nat 128 <? 128) with false. cbv iota.
  change [0; 1; 2; 3]%nat with (seq 0 4). replace (seq 0 4) with (seq 0 (length full)) by (now rewrite HN).
  pose proof (chunks_concat 32 full [] HF) as HC. rewrite app_nil_r in HC.
  rewrite HC.
  do 2 f_equal. unfold full. rewrite filter_app.
  assert (F1 : filter (fun it => negb (all_zero it)) items = items).
  { clear -HZ. induction items as [|x t IH]; [reflexivity|]. inversion HZ; subst. cbn [filter]. rewrite H1. cbn [negb]. now rewrite IH. }
  assert (F2 : forall j, filter (fun it => negb (all_zero it)) (repeat (zeros 32) j) = []).
  { induction j as [|j IH]; [reflexivity|]. cbn [repeat filter]. rewrite all_zero_zeros. exact IH. }
  rewrite F1, F2. apply app_nil_r.
Qed.

(* ====================================================================================== *)
(* credential round trip: RSA (protocol 1.0 / 1.1)                                          *)
(* ====================================================================================== *)
Lemma unpack_firstn f : forall vs b rest k,
  Forall2 fval_ok f vs -> pack f vs = Ok b -> unpack (firstn k f) (b ++ rest) = firstn k vs.
Proof.
  induction f as [|i f IH]; intros vs b rest k HF; inversion HF as [|? v ? vs' Hv Hvs]; subst.
  - destruct k; reflexivity.
  - cbn [pack]. destruct (pack1 i v) as [a|] eqn:E1; [|discriminate]. cbn [bind].
    destruct (pack f vs') as [c|] eqn:E2; [|discriminate]. cbn [bind]. intros H; inversion H; subst.
    destruct k as [|k]; [reflexivity|]. change (firstn (S k) (i :: f)) with (i :: firstn k f).
    change (firstn (S k) (v :: vs')) with (v :: firstn k vs'). cbn [unpack]. rewrite <- app_assoc.
    rewrite (unpack1_pack1 _ _ _ _ Hv E1). f_equal.
    rewrite skipn_app_len by (symmetry; apply (pack1_length _ _ _ E1)). now apply IH.
Qed.

Definition u32_ok (v : N) : Prop := v < 4294967296.
Definition rsa_kb (mi : N) : nat := if mi =? 0 then 256%nat else 512%nat.
Definition wf_dc_rsa (d : dc) : Prop :=
  d_major d = 1 /\ (d_minor d = 0 \/ d_minor d = 1) /\ u32_ok (d_socc d) /\ length (d_uuid d) = 16%nat /\
  (exists items, d_meta d = RMRsa items /\ rsa_items_wf items) /\
  rsa_key_wf (rsa_kb (d_minor d)) (d_dck d) /\ u32_ok (d_socu d) /\ u32_ok (d_vu d) /\ u32_ok (d_beacon d) /\
  rsa_key_wf (rsa_kb (d_minor d)) (d_rot d) /\ length (d_sig d) = rsa_kb (d_minor d).

Lemma pack_one_s n b : length b = n -> pack [FS n] [XB b] = Ok b.
Proof. intros H. cbn [pack pack1 bind]. now rewrite (pack_s_exact n b H), app_nil_r. Qed.

Lemma dc_roundtrip_rsa d : wf_dc_rsa d ->
  exists b t, dc_tbs CRsa d = Ok t /\ dc_export CRsa d = Ok b /\ b = t ++ d_sig d /\ forall extra, rsa_parse (b ++ extra) = Ok d.
Proof.
  destruct d as [maj mi socc uuid meta dck socu vu beacon rot sig]. unfold wf_dc_rsa. cbn [d_major d_minor d_socc d_uuid d_meta d_dck d_socu d_vu d_beacon d_rot d_sig].
  intros (-> & Hmi & Hsocc & Huuid & (items & -> & Hitems) & Hdck & Hsocu & Hvu & Hbeacon & Hrot & Hsig).
  destruct (rsa_meta_roundtrip items Hitems) as [Hmp Hml].
  set (mb := rsa_meta_fill (zeros 128) 0 items) in *.
  assert (Hkb : (rsa_kb mi = 256 \/ rsa_kb mi = 512)%nat) by (destruct Hmi as [-> | ->]; [now left|now right]).
  destruct (rsa_export4_ok _ _ Hdck) as (db & Edb & Ldb & Pdb). specialize (Pdb Hkb).
  destruct (rsa_export4_ok _ _ Hrot) as (rb & Erb & Lrb & Prb). specialize (Prb Hkb).
  set (kb := rsa_kb mi) in *.
  set (vs := [XI 1; XI mi; XI socc; XB uuid; XB mb; XB db; XI socu; XI vu; XI beacon; XB rb]).
  assert (HV : Forall2 fval_ok (rsa_fmt (kb + 4)) vs).
  { unfold rsa_fmt, vs. repeat constructor; cbn [fval_ok]; try assumption; try lia. }
  destruct (pack_total _ _ HV) as (t & Et).
  assert (Eks : rsa_key_size mi = Ok (kb + 4)%nat) by (destruct Hmi as [-> | ->]; reflexivity).
  assert (Esg : rsa_sig_size mi = Ok kb) by (destruct Hmi as [-> | ->]; reflexivity).
  assert (Etbs : dc_tbs CRsa {| d_major := 1; d_minor := mi; d_socc := socc; d_uuid := uuid; d_meta := RMRsa items; d_dck := dck;
                                d_socu := socu; d_vu := vu; d_beacon := beacon; d_rot := rot; d_sig := sig |} = Ok t).
  { unfold dc_tbs, dc_format. cbn [d_minor]. rewrite Eks. cbn [bind]. unfold dc_order, rsa_order. cbn [map_res].
    unfold field_val. cbn [N.eqb Pos.eqb]. cbn [d_major d_minor d_socc d_uuid d_meta d_dck d_socu d_vu d_beacon d_rot].
    unfold rot_blob, dck_blob. cbn [d_dck d_rot]. change (N.to_nat (fst g_rsa_exp_len)) with 4%nat.
    change (N.to_nat (snd g_rsa_exp_len)) with 4%nat. rewrite Edb, Erb. cbn [rotmeta_export res_map bind]. fold mb. exact Et. }
  assert (Hne : sig <> []) by (intros ->; cbn [length] in Hsig; unfold kb, rsa_kb in Hsig; destruct (mi =? 0); discriminate).
  exists (t ++ sig), t. split; [exact Etbs|]. split.
  { unfold dc_export. cbn [d_sig]. destruct sig as [|s0 sg]; [contradiction|]. rewrite Etbs. cbn [bind].
    unfold dc_sig_width. cbn [d_minor d_sig]. rewrite Esg. cbn [bind]. now rewrite (pack_s_exact kb _ Hsig). }
  split; [reflexivity|]. intros extra.
  (* parse *)
  assert (HV2 : Forall2 fval_ok (rsa_fmt (kb + 4) ++ [FS kb]) (vs ++ [XB sig])).
  { apply Forall2_app; [exact HV|]. repeat constructor. exact Hsig. }
  assert (EP : pack (rsa_fmt (kb + 4) ++ [FS kb]) (vs ++ [XB sig]) = Ok (t ++ sig)) by (apply pack_app; [exact Et|now apply pack_one_s]).
  pose proof (pack_length _ _ _ EP) as LP.
  unfold rsa_parse.
  assert (U1 : unpack_from [FU16; FU16] ((t ++ sig) ++ extra) 0 = Ok [XI 1; XI mi]).
  { rewrite unpack_from_ok.
    - change (skipn 0 ((t ++ sig) ++ extra)) with ((t ++ sig) ++ extra).
      f_equal. exact (unpack_firstn _ _ _ extra 2 HV2 EP).
    - rewrite app_length, LP. unfold rsa_fmt. cbn [calcsize app fold_right fwidth]. lia. }
  rewrite U1. cbn [bind nth xi]. assert (Ev : version_ok 1 mi = true) by (destruct Hmi as [-> | ->]; reflexivity).
  rewrite Ev. cbn [negb]. rewrite Eks, Esg. cbn [bind].
  assert (U2 : unpack_from (rsa_fmt (kb + 4) ++ [FS kb]) ((t ++ sig) ++ extra) 0 = Ok (vs ++ [XB sig])).
  { rewrite unpack_from_ok by (rewrite app_length, LP; lia). change (skipn 0 ((t ++ sig) ++ extra)) with ((t ++ sig) ++ extra).
    f_equal. exact (struct_roundtrip_lemma _ _ _ extra HV2 EP). }
  rewrite U2. cbn [bind]. unfold vs. cbn [app nth xb xi]. rewrite Hmp. cbn [bind]. rewrite Pdb. cbn [bind]. rewrite Prb. cbn [bind].
  reflexivity.
Qed.

(* ====================================================================================== *)
(* credential round trip: ECC (protocol 2.0 / 2.1 / 2.2)                                    *)
(* ====================================================================================== *)
Lemma small_cases n : n < 5 -> n = 0 \/ n = 1 \/ n = 2 \/ n = 3 \/ n = 4.
Proof. intros H. lia. Qed.
Lemma flags_roundtrip used cnt : flags_validate used cnt = true ->
  exists fb, flags_export used cnt = Ok fb /\ length fb = 4%nat /\ flags_parse fb = Ok (used, cnt).
Proof.
  unfold flags_validate. intros H. apply andb_true_iff in H as [H1 H2].
  apply negb_true_iff, N.ltb_ge in H1. apply negb_true_iff, N.ltb_ge in H2.
  assert (Hc : cnt < 5) by lia. assert (Hu : used < 5) by lia.
  destruct (small_cases _ Hc) as [-> | [-> | [-> | [-> | ->]]]];
    destruct (small_cases _ Hu) as [-> | [-> | [-> | [-> | ->]]]]; try lia;
    (eexists; split; [vm_compute; reflexivity|split; vm_compute; reflexivity]).
Qed.

Definition ecc_curve (mi : N) : N := if mi =? 0 then 256 else if mi =? 1 then 384 else 521.
Definition ecc_hs (mi : N) : N := if mi =? 0 then 32 else if mi =? 1 then 48 else 66.
(* digest length of the table entries: SHA-256 / SHA-384 / SHA-512 *)
Definition ecc_hl (mi : N) : N := if mi =? 0 then 32 else if mi =? 1 then 48 else 64.
Definition ecc_items_wf (hl cnt : N) (items : list (list N)) : Prop :=
  (cnt <= 1 -> items = []) /\ (1 < cnt -> length items = N.to_nat cnt /\ Forall (fun x => length x = N.to_nat hl) items).
Definition wf_dc_ecc (d : dc) : Prop :=
  d_major d = 2 /\ (d_minor d = 0 \/ d_minor d = 1 \/ d_minor d = 2) /\ u32_ok (d_socc d) /\ length (d_uuid d) = 16%nat /\
  (exists used cnt items, d_meta d = RMEcc (ecc_hs (d_minor d)) used cnt items /\ flags_validate used cnt = true
                          /\ ecc_items_wf (ecc_hl (d_minor d)) cnt items) /\
  ecc_key_wf (ecc_curve (d_minor d)) (d_dck d) /\ u32_ok (d_socu d) /\ u32_ok (d_vu d) /\ u32_ok (d_beacon d) /\
  ecc_key_wf (ecc_curve (d_minor d)) (d_rot d) /\ length (d_sig d) = (2 * N.to_nat (ecc_hs (d_minor d)))%nat.

Lemma dc_roundtrip_ecc d : wf_dc_ecc d ->
  exists b t, dc_tbs CEcc d = Ok t /\ dc_export CEcc d = Ok b /\ b = t ++ d_sig d /\ forall extra, ecc_parse (b ++ extra) = Ok d.
Proof.
  destruct d as [maj mi socc uuid meta dck socu vu beacon rot sig]. unfold wf_dc_ecc.
  cbn [d_major d_minor d_socc d_uuid d_meta d_dck d_socu d_vu d_beacon d_rot d_sig].
  intros (-> & Hmi & Hsocc & Huuid & (used & cnt & items & -> & Hfl & Hit) & Hdck & Hsocu & Hvu & Hbeacon & Hrot & Hsig).
  set (c := ecc_curve mi) in *. set (hs := ecc_hs mi) in *.
  assert (Hc : c = 256 \/ c = 384 \/ c = 521) by (unfold c, ecc_curve; destruct Hmi as [-> | [-> | ->]]; auto).
  assert (Hcs : (2 * coord_size c = 2 * N.to_nat hs)%nat) by (unfold c, hs, ecc_curve, ecc_hs; destruct Hmi as [-> | [-> | ->]]; reflexivity).
  destruct (ecc_blob_ok c dck Hc Hdck) as (db & Edb & Ldb & Pdb).
  destruct (ecc_blob_ok c rot Hc Hrot) as (rb & Erb & Lrb & Prb).
  destruct (flags_roundtrip used cnt Hfl) as (fb & Efb & Lfb & Pfb).
  set (tb := if (1 <? length items)%nat then concat items else []).
  set (mb := fb ++ tb).
  assert (Emb : rotmeta_export (RMEcc hs used cnt items) = Ok mb) by (cbn [rotmeta_export]; rewrite Efb; reflexivity).
  destruct dck as [|cd xd yd]; [contradiction|]. destruct rot as [|cr xr yr]; [contradiction|].
  destruct Hdck as [Hcd Hod]. destruct Hrot as [Hcr Hor]. subst cd cr.
  set (hv := [XI 2; XI mi; XI socc; XB uuid; XI socu; XI vu; XI beacon]).
  assert (HV1 : Forall2 fval_ok head_fmt hv).
  { unfold head_fmt, hv. repeat constructor; cbn [fval_ok]; try assumption; try lia. }
  destruct (pack_total _ _ HV1) as (hb & Ehb). pose proof (pack_length _ _ _ Ehb) as Lhb.
  change (calcsize head_fmt) with 36%nat in Lhb.
  set (tail := [FS (length mb); FS (2 * coord_size c); FS (2 * coord_size c)]).
  assert (Etl : pack tail [XB mb; XB rb; XB db] = Ok (mb ++ rb ++ db)).
  { unfold tail. cbn [pack pack1 bind]. rewrite !pack_s_exact by (reflexivity || assumption). now rewrite app_nil_r. }
  set (d0 := {| d_major := 2; d_minor := mi; d_socc := socc; d_uuid := uuid; d_meta := RMEcc hs used cnt items;
                d_dck := KEcc c xd yd; d_socu := socu; d_vu := vu; d_beacon := beacon; d_rot := KEcc c xr yr; d_sig := sig |}).
  assert (Etbs : dc_tbs CEcc d0 = Ok (hb ++ mb ++ rb ++ db)).
  { unfold dc_tbs, dc_format, d0. cbn [d_rot d_dck d_meta]. rewrite Emb. cbn [bind]. unfold dc_order, ecc_order. cbn [map_res].
    unfold field_val. cbn [N.eqb Pos.eqb]. cbn [d_major d_minor d_socc d_uuid d_meta d_dck d_socu d_vu d_beacon d_rot].
    unfold rot_blob, dck_blob. cbn [d_dck d_rot is_ecc_key]. rewrite Emb, Edb, Erb. cbn [res_map bind].
    unfold ecc_fmt. fold tail. change [XI 2; XI mi; XI socc; XB uuid; XI socu; XI vu; XI beacon; XB mb; XB rb; XB db]
      with (hv ++ [XB mb; XB rb; XB db]). now apply pack_app. }
  assert (Hne : sig <> []).
  { intros ->. cbn [length] in Hsig. unfold hs, ecc_hs in Hsig. destruct Hmi as [-> | [-> | ->]]; discriminate. }
  exists ((hb ++ mb ++ rb ++ db) ++ sig), (hb ++ mb ++ rb ++ db). split; [exact Etbs|]. split.
  { unfold dc_export. fold d0. cbn [d_sig d0]. destruct sig as [|s0 sg]; [contradiction|]. rewrite Etbs. cbn [bind].
    unfold dc_sig_width. cbn [bind d_sig]. now rewrite pack_s_exact by reflexivity. }
  split; [reflexivity|]. intros extra.
  (* parse *)
  set (b := ((hb ++ mb ++ rb ++ db) ++ sig) ++ extra).
  assert (Eb : b = hb ++ fb ++ tb ++ rb ++ db ++ sig ++ extra) by (unfold b, mb; now rewrite <- !app_assoc).
  assert (Lb : (36 + length mb + 3 * (2 * N.to_nat hs) <= length b)%nat).
  { unfold b. rewrite !app_length, Lhb, Lrb, Ldb, Hsig, Hcs. lia. }
  unfold ecc_parse.
  assert (U1 : unpack_from head_fmt b 0 = Ok hv).
  { rewrite unpack_from_ok by (change (calcsize head_fmt) with 36%nat; lia). change (skipn 0 b) with b. f_equal.
    unfold b. rewrite <- !app_assoc. exact (struct_roundtrip_lemma _ _ _ _ HV1 Ehb). }
  rewrite U1. cbn [bind]. unfold hv. cbn [nth xi xb].
  assert (Ev : version_ok 2 mi = true) by (destruct Hmi as [-> | [-> | ->]]; reflexivity). rewrite Ev. cbn [negb].
  assert (Ehs : ecc_hash_size mi = Ok hs) by (unfold hs, ecc_hs; destruct Hmi as [-> | [-> | ->]]; reflexivity). rewrite Ehs. cbn [bind].
  assert (Em : mem_n hs (map fst g_hash_sizes) = true) by (unfold hs, ecc_hs; destruct Hmi as [-> | [-> | ->]]; reflexivity).
  rewrite Em. cbn [negb].
  assert (Emp : ecc_meta_parse hs (skipn 36 b) = Ok (RMEcc hs used cnt items)).
  { rewrite Eb. rewrite skipn_app_len by (now rewrite Lhb). unfold ecc_meta_parse.
    rewrite firstn_app_len by (now rewrite Lfb). rewrite Pfb. cbn [bind]. rewrite skipn_app_len by (now rewrite Lfb).
    do 2 f_equal. destruct Hit as [Hi1 Hi2]. destruct (1 <? cnt) eqn:E1.
    - apply N.ltb_lt in E1. destruct (Hi2 E1) as [Hl Hf]. unfold tb.
      assert (E2 : (1 <? length items)%nat = true) by (apply Nat.ltb_lt; lia). rewrite E2. rewrite <- Hl.
      assert (Eis : ecc_item_size hs = N.to_nat (ecc_hl mi)) by (unfold hs, ecc_hs, ecc_hl; destruct Hmi as [-> | [-> | ->]]; reflexivity).
      rewrite Eis. now apply chunks_concat.
    - apply N.ltb_ge in E1. now rewrite (Hi1 E1). }
  rewrite Emp. cbn [bind]. rewrite Emb. cbn [bind].
  assert (U2 : unpack_from [FS (2 * N.to_nat hs); FS (2 * N.to_nat hs); FS (2 * N.to_nat hs)] b (36 + length mb) = Ok [XB rb; XB db; XB sig]).
  { rewrite unpack_from_ok by (cbn [calcsize fold_right fwidth]; lia).
    replace (skipn (36 + length mb) b) with ((rb ++ db ++ sig) ++ extra).
    2:{ unfold b. rewrite <- !app_assoc. rewrite skipn_app_more by (now rewrite Lhb). now rewrite skipn_app_len. }
    f_equal. rewrite <- Hcs.
    assert (HV3 : Forall2 fval_ok [FS (2 * coord_size c); FS (2 * coord_size c); FS (2 * coord_size c)] [XB rb; XB db; XB sig]).
    { repeat constructor; cbn [fval_ok]; try assumption. now rewrite Hcs. }
    apply (struct_roundtrip_lemma _ _ _ extra HV3). cbn [pack pack1 bind].
    rewrite !pack_s_exact by (assumption || (now rewrite Hcs)). now rewrite app_nil_r. }
  rewrite U2. cbn [bind nth xb]. rewrite Pdb. cbn [bind]. rewrite Prb. cbn [bind]. reflexivity.
Qed.

(* ====================================================================================== *)
(* the property lemmas                                                                      *)
(* ====================================================================================== *)
Definition wf_dc (c : klass) (d : dc) : Prop :=
  match c with CRsa => wf_dc_rsa d | CEcc => wf_dc_ecc d | CEle => False end.

(* parse (export dc) = dc, also with anything behind the credential (a response) *)
Lemma dc_roundtrip_lemma c d : wf_dc c d ->
  exists b, dc_export c d = Ok b /\ forall extra, dc_parse_class c (b ++ extra) = Ok d.
Proof.
  destruct c; cbn [wf_dc]; intros H; [| |contradiction].
  - destruct (dc_roundtrip_rsa d H) as (b & t & _ & E & _ & P). exists b. split; [exact E|exact P].
  - destruct (dc_roundtrip_ecc d H) as (b & t & _ & E & _ & P). exists b. split; [exact E|exact P].
Qed.

(* non-vacuity: concrete well-formed credentials of both classes *)
Definition g256 : key := KEcc 256 0x6B17D1F2E12C4247F8BCE6E563A440F277037D812DEB33A0F4A13945D898C296
                                  0x4FE342E2FE1A7F9B8EE7EB4A7C0F9E162BCE33576B315ECECBB6406837BF51F5.
Definition g521 : key := KEcc 521
  0x00C6858E06B70404E9CD9E3ECB662395B4429C648139053FB521F828AF606B4D3DBAA14B5E77EFE75928FE1DC127A2FFA8DE3348B3C1856A429BF97E7E31C2E5BD66
  0x011839296A789A3BC0045C8A5FB42C7D1BD998F54449579B446817AFBD17273E662C97EE72995EF42640C550B9013FAD0761353C7086A272C24088BE94769FD16650.
Example wf_dc_ecc_nontrivial :
  wf_dc CEcc {| d_major := 2; d_minor := 0; d_socc := 4; d_uuid := zeros 16;
                d_meta := RMEcc 32 1 2 [sha256 [1]; sha256 [2]]; d_dck := g256; d_socu := 1; d_vu := 2; d_beacon := 3;
                d_rot := g256; d_sig := repeat 7 64 |}.
Proof.
  cbn [wf_dc]. unfold wf_dc_ecc. cbn [d_major d_minor d_socc d_uuid d_meta d_dck d_socu d_vu d_beacon d_rot d_sig].
  split; [reflexivity|]. split; [now left|]. split; [unfold u32_ok; lia|]. split; [reflexivity|]. split.
  - exists 1, 2, [sha256 [1]; sha256 [2]]. split; [reflexivity|]. split; [reflexivity|]. split; [intros H; lia|].
    intros _. split; [reflexivity|]. repeat constructor; apply dat_sha256_length.
  - unfold u32_ok. repeat split; try lia; vm_compute; reflexivity.
Qed.
Example wf_dc_rsa_nontrivial :
  wf_dc CRsa {| d_major := 1; d_minor := 0; d_socc := 1; d_uuid := zeros 16; d_meta := RMRsa [repeat 9 32];
                d_dck := KRsa (2 ^ 2047 + 1) 65537; d_socu := 1; d_vu := 2; d_beacon := 3; d_rot := KRsa (2 ^ 2047 + 3) 3;
                d_sig := repeat 7 256 |}.
Proof.
  cbn [wf_dc]. unfold wf_dc_rsa. cbn [d_major d_minor d_socc d_uuid d_meta d_dck d_socu d_vu d_beacon d_rot d_sig].
  split; [reflexivity|]. split; [now left|]. split; [unfold u32_ok; lia|]. split; [reflexivity|]. split.
  - exists [repeat 9 32]. split; [reflexivity|]. split; [cbn [length]; lia|]. split; repeat constructor.
  - unfold u32_ok, rsa_key_wf. repeat split; try lia; vm_compute; reflexivity.
Qed.

(* the signed message: everything in front of the signature field, which is the concatenation of the packed fields *)
Lemma pack_concat f : forall vs t, pack f vs = Ok t ->
  exists pieces, t = concat pieces /\ Forall2 (fun p iv => pack1 (fst iv) (snd iv) = Ok p) pieces (combine f vs).
Proof.
  induction f as [|i f IH]; intros [|v vs] t; cbn [pack]; try discriminate.
  - intros H; inversion H. exists []. split; [reflexivity|constructor].
  - destruct (pack1 i v) as [a|] eqn:E1; [|discriminate]. cbn [bind].
    destruct (pack f vs) as [c|] eqn:E2; [|discriminate]. cbn [bind]. intros H; inversion H; subst.
    destruct (IH _ _ E2) as (ps & -> & HF). exists (a :: ps). split; [reflexivity|]. cbn [combine]. constructor; assumption.
Qed.
Lemma dc_sig_covers_all_lemma c d b : dc_export c d = Ok b ->
  exists t w f vs pieces,
    dc_tbs c d = Ok t /\ dc_sig_width c d = Ok w /\ b = t ++ pack_s w (d_sig d) /\ firstn (length t) b = t
    /\ dc_format c d = Ok f /\ map_res (field_val c d) (dc_order c) = Ok vs
    /\ t = concat pieces /\ Forall2 (fun p iv => pack1 (fst iv) (snd iv) = Ok p) pieces (combine f vs).
Proof.
  unfold dc_export. destruct (d_sig d) as [|s0 sg] eqn:ES; [discriminate|].
  destruct (dc_tbs c d) as [t|] eqn:ET; [|discriminate]. cbn [bind].
  destruct (dc_sig_width c d) as [w|] eqn:EW; [|discriminate]. cbn [bind]. intros H; inversion H; subst. clear H.
  unfold dc_tbs in ET. destruct (dc_format c d) as [f|] eqn:EF; [|discriminate]. cbn [bind] in ET.
  destruct (map_res (field_val c d) (dc_order c)) as [vs|] eqn:EV; [|discriminate]. cbn [bind] in ET.
  destruct (pack_concat _ _ _ ET) as (ps & Ec & HF).
  exists t, w, f, vs, ps. repeat split; try assumption; try reflexivity. now apply firstn_app_len.
Qed.
(* every field of the credential is among the packed ones: version, SoC class, uuid, RoT meta, DCK, constraints, beacon
   (and the RoT public key where the class carries one) *)
Lemma dc_order_complete c : forall fid, In fid [1; 2; 3; 4; 5; 6; 7; 8; 9] -> In fid (dc_order c).
Proof. destruct c; intros fid H; cbn in H; cbn; intuition. Qed.
Lemma dc_order_rot_pub c : c <> CEle -> In 10 (dc_order c).
Proof. destruct c; intros H; cbn; intuition. Qed.

(* the verifier accepts an exported credential and asks for exactly one signature check: RoT key of the credential,
   message = all bytes in front of the signature *)
Lemma dc_verify_lemma c d : wf_dc c d ->
  exists b t, dc_export c d = Ok b /\ dc_tbs c d = Ok t /\ b = t ++ d_sig d
              /\ forall extra, dc_verify c (b ++ extra) = Ok (d, SigVerify (d_rot d) t (d_sig d)).
Proof.
  intros H. assert (HX : exists b t, dc_tbs c d = Ok t /\ dc_export c d = Ok b /\ b = t ++ d_sig d
                                     /\ forall extra, dc_parse_class c (b ++ extra) = Ok d).
  { destruct c; cbn [wf_dc] in H; [| |contradiction].
    - apply (dc_roundtrip_rsa d H).
    - apply (dc_roundtrip_ecc d H). }
  destruct HX as (b & t & Et & Eb & Es & P). exists b, t. repeat split; try assumption.
  intros extra. unfold dc_verify. rewrite P. cbn [bind]. rewrite Eb. cbn [bind]. do 3 f_equal.
  subst b. rewrite app_length. replace (length t + length (d_sig d) - length (d_sig d))%nat with (length t) by lia.
  rewrite <- app_assoc. now apply firstn_app_len.
Qed.

(* a response built for (credential, beacon, uuid, challenge), presented to a device that issued challenge ch' and has
   uuid u': the device asks for the DCK signature over credential|beacon|[u']|ch' -- the message that was signed iff
   ch' = ch (and u' = uuid) *)
Lemma dar_verify_sound_lemma c d u beacon uuid ch sig2 :
  wf_dc c d -> length uuid = 16%nat -> length ch = 32%nat -> u32_ok beacon -> sig2 <> [] ->
  exists b t r m,
    dc_export c d = Ok b /\ dc_tbs c d = Ok t /\ dar_export u b beacon uuid sig2 = Ok r /\ dar_tbs u b beacon uuid ch = Ok m
    /\ forall u' ch', length u' = 16%nat -> length ch' = 32%nat ->
       (u = true /\ u' <> uuid /\ dar_verify c u r u' ch' = Err 1)
       \/ exists m', dar_tbs u b beacon u' ch' = Ok m'
                     /\ dar_verify c u r u' ch' = Ok (d, beacon, [SigVerify (d_rot d) t (d_sig d); SigVerify (d_dck d) m' sig2])
                     /\ (m' = m <-> ch' = ch /\ (u = true -> u' = uuid)).
Proof.
  intros Hwf HU HC HB HS. destruct (dc_verify_lemma c d Hwf) as (b & t & Eb & Et & Es & V).
  assert (EB : exists bb, u32 beacon = Ok bb /\ length bb = 4%nat /\ le_dec bb = beacon).
  { unfold u32. unfold u32_ok in HB. apply N.ltb_lt in HB. rewrite HB. eexists. split; [reflexivity|].
    split; [apply le_enc_length|]. apply le_dec_enc_small. apply N.ltb_lt in HB. simpl. lia. }
  destruct EB as (bb & Ebb & Lbb & Dbb).
  set (uu := if u then uuid else []).
  assert (Ecommon : dar_common u b beacon uuid = Ok (b ++ bb ++ uu)).
  { unfold dar_common. rewrite Ebb. cbn [bind]. unfold uu. destruct u; [now rewrite pack_s_exact|reflexivity]. }
  exists b, t, ((b ++ bb ++ uu) ++ sig2), ((b ++ bb ++ uu) ++ ch). split; [exact Eb|]. split; [exact Et|]. split.
  { unfold dar_export. rewrite Ecommon. cbn [bind]. destruct sig2; [contradiction|reflexivity]. } split.
  { unfold dar_tbs. rewrite Ecommon. reflexivity. }
  intros u' ch' HU' HC'.
  assert (ER : (b ++ bb ++ uu) ++ sig2 = b ++ (bb ++ uu ++ sig2)) by (now rewrite <- !app_assoc).
  destruct u eqn:Eu.
  - (* ECC protocols *)
    destruct (eqb_list uuid u') eqn:EQ.
    + apply eqb_list_spec in EQ. subst u'. right. exists ((b ++ bb ++ uuid) ++ ch'). split.
      { unfold dar_tbs, dar_common. rewrite Ebb. cbn [bind]. now rewrite pack_s_exact. } split.
      { unfold dar_verify. rewrite ER, V. cbn [bind]. rewrite Eb. cbn [bind]. rewrite skipn_app_len by reflexivity.
        unfold uu. rewrite !app_length, Lbb, HU.
        assert (LT : (4 + (16 + length sig2) <? 4 + 16)%nat = false) by (apply Nat.ltb_ge; lia). rewrite LT.
        rewrite firstn_app_len by (now rewrite Lbb). rewrite Dbb. rewrite skipn_app_len by (now rewrite Lbb).
        rewrite firstn_app_len by (now rewrite HU). rewrite eqb_list_refl. cbn [andb negb].
        do 4 f_equal. f_equal.
        - f_equal. replace (b ++ bb ++ uuid ++ sig2) with ((b ++ bb ++ uuid) ++ sig2) by (now rewrite <- !app_assoc).
          apply firstn_app_len. rewrite !app_length; lia.
        - replace (b ++ bb ++ uuid ++ sig2) with ((b ++ bb ++ uuid) ++ sig2) by (now rewrite <- !app_assoc).
          apply skipn_app_len. rewrite !app_length; lia. }
      split.
      * intros H. apply app_inj_tail_len in H as [_ ->]; [|lia]. split; [reflexivity|reflexivity].
      * intros [-> _]. reflexivity.
    + left. split; [reflexivity|]. split; [intros ->; rewrite eqb_list_refl in EQ; discriminate|].
      unfold dar_verify. rewrite ER, V. cbn [bind]. rewrite Eb. cbn [bind]. rewrite skipn_app_len by reflexivity.
      unfold uu. rewrite !app_length, Lbb, HU.
      assert (LT : (4 + (16 + length sig2) <? 4 + 16)%nat = false) by (apply Nat.ltb_ge; lia). rewrite LT.
      rewrite skipn_app_len by (now rewrite Lbb). rewrite firstn_app_len by (now rewrite HU). rewrite EQ. reflexivity.
  - (* RSA protocols: no uuid in the message *)
    right. exists ((b ++ bb) ++ ch'). split.
    { unfold dar_tbs, dar_common. rewrite Ebb. cbn [bind]. now rewrite app_nil_r. } split.
    { unfold dar_verify. rewrite ER, V. cbn [bind]. rewrite Eb. cbn [bind]. rewrite skipn_app_len by reflexivity.
      unfold uu. cbn [app]. rewrite !app_length, Lbb.
      assert (LT : (4 + length sig2 <? 4 + 0)%nat = false) by (apply Nat.ltb_ge; lia). rewrite LT.
      rewrite firstn_app_len by (now rewrite Lbb). rewrite Dbb. cbn [andb].
      do 4 f_equal. f_equal.
      - f_equal. replace (b ++ bb ++ sig2) with ((b ++ bb) ++ sig2) by (now rewrite <- !app_assoc).
        apply firstn_app_len. rewrite !app_length; lia.
      - replace (b ++ bb ++ sig2) with ((b ++ bb) ++ sig2) by (now rewrite <- !app_assoc).
        apply skipn_app_len. rewrite !app_length; lia. }
    unfold uu. rewrite app_nil_r. split.
    + intros H. apply app_inj_tail_len in H as [_ ->]; [|lia]. split; [reflexivity|discriminate].
    + intros [-> _]. reflexivity.
Qed.

(* ====================================================================================== *)
(* finite sweep over the database: parse selects the class the credential was created with  *)
(* ====================================================================================== *)
(* DebugCredentialCertificate.parse picks the class from the facts of the SOCC's family ambassador (falling back to the
   container-v1 EdgeLock class when that family uses container v2, whose parser has refused the data first); the credential
   was created with the facts of its own family/revision *)
Definition amb_facts (socc : N) : option (N * N) :=
  match find (fun r => fst r =? socc) g_socc_table with Some (_, (e, c, _, _)) => Some (e, c) | None => None end.
Definition parse_class (ae ac maj mi : N) : res klass :=
  match class_of ae ac maj mi with Ok (Some c) => Ok c | Ok None => Ok CEle | Err k => Err k end.
Definition dispatch_agrees (fam : N * (N * N * N)) (v : N * N) : bool :=
  let '(socc, (ele, cnt, _)) := fam in
  match amb_facts socc with
  | None => false
  | Some (ae, ac) =>
      match class_of ele cnt (fst v) (snd v), parse_class ae ac (fst v) (snd v) with
      | Ok (Some c), Ok c' => (klass_id c =? klass_id c')%Z
      | Ok None, _ => true          (* a container-v2 credential (AHAB certificate) is taken by the first step of parse *)
      | Err j, Err k => j =? k
      | _, _ => false
      end
  end.
Lemma parse_dispatch_lemma :
  forall fam v, In fam g_family_table -> In v g_versions -> dispatch_agrees fam v = true.
Proof.
  assert (H : forallb (fun fam => forallb (fun v => dispatch_agrees fam v) g_versions) g_family_table = true)
    by (vm_compute; reflexivity).
  intros fam v Hf Hv. rewrite forallb_forall in H. specialize (H fam Hf). rewrite forallb_forall in H. exact (H v Hv).
Qed.
(* the sweep is not vacuous: some revision is created with EdgeLock container v1 while its SOCC's ambassador uses v2 *)
Lemma parse_dispatch_fallback_used :
  exists fam, In fam g_family_table /\ (let '(socc, (ele, cnt, _)) := fam in
     negb (ele =? 0) && (cnt =? 1) && match amb_facts socc with Some (_, ac) => ac =? 2 | None => false end) = true.
Proof.
  assert (H : existsb (fun fam => let '(socc, (ele, cnt, _)) := fam in
     negb (ele =? 0) && (cnt =? 1) && match amb_facts socc with Some (_, ac) => ac =? 2 | None => false end) g_family_table = true)
    by (vm_compute; reflexivity).
  apply existsb_exists in H as (fam & Hf & H). now exists fam.
Qed.

(* ====================================================================================== *)
(* the RoT hash of a created RSA credential is C03's debug-credential hash of the key set   *)
(* ====================================================================================== *)
Lemma map_res_forall {A B} (f : A -> res B) (P : B -> Prop) : (forall a b, f a = Ok b -> P b) ->
  forall l r, map_res f l = Ok r -> Forall P r /\ length r = length l.
Proof.
  intros HP. induction l as [|a l IH]; intros r; cbn [map_res].
  - intros H; inversion H. split; [constructor|reflexivity].
  - destruct (f a) as [b|] eqn:E; [|discriminate]. destruct (map_res f l) as [bs|] eqn:E2; [|discriminate].
    intros H; inversion H; subst. destruct (IH bs eq_refl) as [HF HL]. split; [constructor; [now apply (HP a)|assumption]|cbn; lia].
Qed.
Lemma dc_rsa_item_length k b : dc_rsa_item k = Ok b -> length b = 32%nat.
Proof.
  unfold dc_rsa_item. destruct k as [n e|]; [|discriminate]. destruct (to_bytes 3 e); [|discriminate]. cbn [bind].
  intros H; inversion H. apply dat_sha256_length.
Qed.
Lemma dc_rot_hash_rsa_lemma ele cnt socc ks rot_id dck uuid socu vu beacon fca d sig :
  dc_create ele cnt socc ks rot_id dck uuid socu vu beacon fca = Ok (CRsa, d) ->
  dc_calc_hash CRsa (dc_with_sig d sig) = dc_rsa_hash ks
  /\ exists items, d_meta d = RMRsa items /\ map_res dc_rsa_item ks = Ok items
                   /\ dc_calc_hash CRsa (dc_with_sig d sig) = Ok (sha256 (concat items ++ zeros (128 - length (concat items)))).
Proof.
  unfold dc_create. destruct (nth_error ks (N.to_nat rot_id)) as [rot|]; [|discriminate].
  destruct (version_of_key rot) as [v|]; [|discriminate]. cbn [bind].
  destruct (class_of ele cnt (fst v) (snd v)) as [oc|]; cbn [bind]; [|discriminate].
  destruct (negb (length uuid =? 16)%nat); [discriminate|].
  destruct (negb (Bool.eqb (is_ecc_key dck) (is_ecc_key rot) && (key_bits dck =? key_bits rot))); [discriminate|].
  destruct oc as [c|]; [|discriminate].
  destruct (rot_meta_create c ks rot_id fca) as [m|] eqn:EM; [|discriminate]. cbn [bind].
  intros H; inversion H; subst. clear H.
  unfold dc_with_sig. cbn [d_major d_minor d_socc d_uuid d_meta d_dck d_socu d_vu d_beacon d_rot d_sig].
  unfold rot_meta_create in EM. destruct (4 <? nlen ks) eqn:E4; [discriminate|].
  destruct (map_res dc_rsa_item ks) as [items|] eqn:EI; [|discriminate]. cbn [bind] in EM. inversion EM; subst m. clear EM.
  destruct (map_res_forall dc_rsa_item (fun b => length b = 32%nat) dc_rsa_item_length ks items EI) as [HF HL].
  assert (HN : (length items <= 4)%nat) by (apply N.ltb_ge in E4; unfold nlen in E4; lia).
  assert (EF : rsa_meta_fill (zeros 128) 0 items = concat items ++ zeros (128 - length (concat items))).
  { rewrite (rsa_meta_export_spec items HF HN), concat_app, concat_zero_chunks. f_equal.
    rewrite (concat_length_k 32 items HF). f_equal. lia. }
  assert (EH : dc_calc_hash CRsa {| d_major := fst v; d_minor := snd v; d_socc := socc; d_uuid := uuid; d_meta := RMRsa items;
                                    d_dck := dck; d_socu := socu; d_vu := vu; d_beacon := beacon; d_rot := rot; d_sig := sig |}
               = Ok (sha256 (concat items ++ zeros (128 - length (concat items))))).
  { unfold dc_calc_hash. cbn [d_meta rotmeta_export bind]. now rewrite EF. }
  split.
  - rewrite EH. unfold dc_rsa_hash, dc_rsa_meta. rewrite E4, EI. reflexivity.
  - exists items. repeat split; [exact EH].
Qed.
