(* Proofs/DatProofs.v -- C15 lemmas (skeleton) *)
From Coq Require Import ZArith NArith List Bool Lia.
Require Import Value Bytes BytesProofs Sha2 GenRot RotModel GenDat DatModel.
Import ListNotations.
Local Open Scope N_scope.
