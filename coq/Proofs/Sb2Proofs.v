(* Proofs/Sb2Proofs.v -- lemmas about Model/Sb2Model.v (C04). *)
From Coq Require Import ZArith NArith List Bool Lia ZifyNat ZifyN.
Require Import Value Bytes BytesProofs GenSb2 Sha2 Aes Modes Hmac KeyWrap Crc Sb2Model.
Import ListNotations.
Local Open Scope N_scope.

Lemma layouts_agree_lemma :
  rom_cmdhdr_layout = cmdhdr_format /\ rom_imghdr_layout = imghdr_format /\ rom_certhdr_layout = certhdr_format.
Proof. repeat split; reflexivity. Qed.

(* ------------------------------------------------------------------ lists *)
Lemma firstn_app_exact {A} (a b : list A) n : length a = n -> firstn n (a ++ b) = a.
Proof. intros <-. rewrite firstn_app, Nat.sub_diag, firstn_all. simpl. apply app_nil_r. Qed.

Lemma skipn_app_exact {A} (a b : list A) n : length a = n -> skipn n (a ++ b) = b.
Proof. intros <-. rewrite skipn_app, Nat.sub_diag, skipn_all. reflexivity. Qed.

Lemma slice_app_mid {A} (pre x post : list A) a b :
  length pre = a -> (a + length x = b)%nat -> slice (pre ++ x ++ post) a b = x.
Proof.
  intros Ha Hb. unfold slice. rewrite (skipn_app_exact pre _ a Ha).
  apply firstn_app_exact. lia.
Qed.

Lemma zeros_length n : length (zeros n) = n.
Proof. apply repeat_length. Qed.

Lemma fit_length w l : length (fit w l) = w.
Proof. unfold fit. rewrite firstn_length, app_length, zeros_length. lia. Qed.

Lemma fit_exact w l : length l = w -> fit w l = l.
Proof. intros H. unfold fit. now apply firstn_app_exact. Qed.

Lemma fit_firstn w l : (w <= length l)%nat -> fit w l = firstn w l.
Proof.
  intros H. unfold fit. rewrite firstn_app. replace (w - length l)%nat with 0%nat by lia.
  simpl. apply app_nil_r.
Qed.

(* ------------------------------------------------------------------ struct pack / unpack *)
Definition fld_ok (f : bool * nat) (x : fld) : Prop :=
  match x with
  | FI v => fst f = false /\ v < 2 ^ (8 * N.of_nat (snd f))
  | FB b => fst f = true
  end.
Definition canon (f : bool * nat) (x : fld) : fld :=
  match x with FI v => FI v | FB b => FB (fit (snd f) b) end.
Fixpoint canons (fmt : list (bool * nat)) (xs : list fld) : list fld :=
  match fmt, xs with
  | f :: fm, x :: xt => canon f x :: canons fm xt
  | _, _ => []
  end.

Lemma pack1_length f x : length (pack1 f x) = snd f.
Proof. destruct x; simpl; [apply le_enc_length | apply fit_length]. Qed.

Lemma pack_length fmt : forall xs, length fmt = length xs -> length (pack fmt xs) = fmt_size fmt.
Proof.
  induction fmt as [|f fm IH]; intros [|x xt] H; simpl in *; try discriminate; try reflexivity.
  rewrite app_length, pack1_length, IH by lia. reflexivity.
Qed.

Lemma unpack_pack fmt : forall xs rest,
  Forall2 fld_ok fmt xs -> unpack fmt (pack fmt xs ++ rest) = canons fmt xs.
Proof.
  induction fmt as [|[isb w] fm IH]; intros xs rest H; inversion H as [|f x fm' xt Hx Ht]; subst; simpl.
  - reflexivity.
  - rewrite <- app_assoc.
    rewrite (firstn_app_exact (pack1 (isb, w) x) _ w (pack1_length _ _)).
    rewrite (skipn_app_exact (pack1 (isb, w) x) _ w (pack1_length _ _)).
    rewrite IH by assumption. f_equal.
    destruct x as [v|b]; simpl in *.
    + destruct Hx as [-> Hv]. simpl. now rewrite le_dec_enc_small.
    + rewrite Hx. reflexivity.
Qed.

Lemma pack_fits_ok fmt : forall xs,
  length fmt = length xs -> pack_fits fmt xs = true ->
  Forall2 (fun f x => match x with FI _ => fst f = false | FB _ => fst f = true end) fmt xs ->
  Forall2 fld_ok fmt xs.
Proof.
  induction fmt as [|f fm IH]; intros [|x xt] HL HF HK; simpl in *; try discriminate; constructor.
  - inversion HK; subst. apply andb_true_iff in HF as [HF _]. destruct x; simpl in *; [|assumption].
    split; [assumption| now apply N.ltb_lt].
  - inversion HK; subst. apply andb_true_iff in HF as [_ HF]. apply IH; [lia|assumption|assumption].
Qed.

(* ------------------------------------------------------------------ CmdHeader *)
Lemma hdr_flds_kinds crc h :
  Forall2 (fun f x => match x with FI _ => fst f = false | FB _ => fst f = true end) cmdhdr_format (hdr_flds crc h).
Proof. unfold cmdhdr_format, hdr_flds. repeat constructor. Qed.

Lemma hdr_fits_any_crc crc h : crc < 256 -> hdr_fits h = true -> pack_fits cmdhdr_format (hdr_flds crc h) = true.
Proof.
  intros Hc. unfold hdr_fits, hdr_flds, cmdhdr_format. cbn [pack_fits fld_fits snd].
  intros H. apply andb_true_iff in H as [_ H]. apply andb_true_iff. split; [|exact H].
  apply N.ltb_lt. exact Hc.
Qed.

Lemma hdr_crc_lt h : hdr_crc h < 256.
Proof. unfold hdr_crc. apply N.mod_lt. discriminate. Qed.

Lemma hdr_raw_length crc h : length (hdr_raw crc h) = 16%nat.
Proof. unfold hdr_raw. rewrite pack_length; reflexivity. Qed.

Lemma hdr_export_length h : length (hdr_export h) = 16%nat.
Proof. apply hdr_raw_length. Qed.

Lemma hdr_unpack crc h rest :
  crc < 256 -> hdr_fits h = true ->
  unpack cmdhdr_format (hdr_raw crc h ++ rest) =
  [FI crc; FI (h_tag h); FI (h_flags h); FI (h_addr h); FI (h_count h); FI (h_data h)].
Proof.
  intros Hc Hf. unfold hdr_raw. rewrite unpack_pack.
  - reflexivity.
  - apply pack_fits_ok; [reflexivity| now apply hdr_fits_any_crc | apply hdr_flds_kinds].
Qed.

Lemma hdr_parse_export h rest : hdr_fits h = true -> hdr_parse (hdr_export h ++ rest) = Ok h.
Proof.
  intros Hf. unfold hdr_parse.
  assert (HL : Nat.ltb (length (hdr_export h ++ rest)) HDR_SIZE = false).
  { apply Nat.ltb_ge. rewrite app_length, hdr_export_length. change HDR_SIZE with 16%nat. lia. }
  rewrite HL. unfold hdr_export. rewrite hdr_unpack by (try apply hdr_crc_lt; assumption).
  destruct h as [t f a c d]. cbn [h_tag h_flags h_addr h_count h_data]. now rewrite N.eqb_refl.
Qed.

(* the bytes after the checksum byte do not depend on it *)
Lemma hdr_raw_tail crc h : skipn 1 (hdr_raw crc h) = skipn 1 (hdr_raw 0 h).
Proof. unfold hdr_raw, cmdhdr_format, hdr_flds. cbn [pack pack1 snd le_enc]. reflexivity. Qed.

Lemma rom_hdr_export h rest : hdr_fits h = true -> rom_hdr (hdr_export h ++ rest) = Some h.
Proof.
  intros Hf. unfold rom_hdr.
  assert (HL : Nat.ltb (length (hdr_export h ++ rest)) 16 = false).
  { apply Nat.ltb_ge. rewrite app_length, hdr_export_length. lia. }
  rewrite HL. change rom_cmdhdr_layout with cmdhdr_format.
  unfold hdr_export at 1. rewrite hdr_unpack by (try apply hdr_crc_lt; assumption).
  assert (E : firstn 15 (skipn 1 (hdr_export h ++ rest)) = skipn 1 (hdr_raw 0 h)).
  { replace (skipn 1 (hdr_export h ++ rest)) with (skipn 1 (hdr_export h) ++ rest)
      by (rewrite skipn_app, hdr_export_length; reflexivity).
    rewrite firstn_app_exact.
    - apply hdr_raw_tail.
    - rewrite skipn_length, hdr_export_length. reflexivity. }
  rewrite E. change 90 with cmdhdr_checksum_seed. fold (hdr_crc h).
  change (skipn 1 (hdr_raw 0 h)) with (skipn cmdhdr_checksum_first (hdr_raw 0 h)).
  fold (hdr_crc h). rewrite N.eqb_refl. destruct h; reflexivity.
Qed.

(* ------------------------------------------------------------------ finite sweeps *)
Fixpoint upto (fuel : nat) (i : N) : list N :=
  match fuel with O => [] | S f => i :: upto f (i + 1) end.

Lemma upto_In fuel : forall i x, i <= x -> x < i + N.of_nat fuel -> In x (upto fuel i).
Proof.
  induction fuel as [|f IH]; intros i x H1 H2.
  - simpl in H2. lia.
  - simpl. destruct (N.eq_dec i x) as [->|Hne]; [now left|right].
    apply IH; lia.
Qed.

Definition all_below (n : N) (P : N -> bool) : bool := forallb P (upto (N.to_nat n) 0).

Lemma all_below_spec n P : all_below n P = true -> forall x, x < n -> P x = true.
Proof.
  unfold all_below. intros H x Hx. rewrite forallb_forall in H. apply H.
  apply upto_In; [lia|]. rewrite N2Nat.id. lia.
Qed.

(* memory-id / flag packing facts, each checked over the whole domain *)
Definition memid_facts (f m : N) : bool :=
  let fl := or_memid f m in
  (fl <? 65536) && (memid_of_flags fl =? m) && (or_memid fl m =? fl) && (fdev fl =? N.land m 255)
  && (fgrp fl =? N.land (N.shiftr m 8) 15) && (flow fl =? f) && (or_memid 0 (memid_of_flags (or_memid 0 m)) =? or_memid 0 m).

Lemma memid_facts_all : all_below 16 (fun f => all_below 4096 (fun m => memid_facts f m)) = true.
Proof. vm_compute. reflexivity. Qed.

Lemma memid_facts_ok f m : f < 16 -> m < 4096 -> memid_facts f m = true.
Proof.
  intros Hf Hm. pose proof (all_below_spec _ _ memid_facts_all f Hf) as H. cbv beta in H.
  exact (all_below_spec _ _ H m Hm).
Qed.

Definition prog_facts (i8 f m : N) : bool :=
  let fl := set_field (N.lor i8 f) ROM_MEM_DEVICE_ID_MASK ROM_MEM_DEVICE_ID_SHIFT m in
  (fl <? 65536) && (N.shiftr (N.land fl ROM_MEM_DEVICE_ID_MASK) ROM_MEM_DEVICE_ID_SHIFT =? m)
  && (set_field (N.lor i8 fl) ROM_MEM_DEVICE_ID_MASK ROM_MEM_DEVICE_ID_SHIFT m =? fl)
  && (fdev fl =? m) && (N.land fl 255 =? N.lor f i8).

Lemma prog_facts_all : all_below 2 (fun i => all_below 256 (fun f => all_below 256 (fun m => prog_facts i f m))) = true.
Proof. vm_compute. reflexivity. Qed.

Lemma prog_facts_ok i f m : i < 2 -> f < 256 -> m < 256 -> prog_facts i f m = true.
Proof.
  intros Hi Hf Hm. pose proof (all_below_spec _ _ prog_facts_all i Hi) as H. cbv beta in H.
  pose proof (all_below_spec _ _ H f Hf) as H2. cbv beta in H2. exact (all_below_spec _ _ H2 m Hm).
Qed.

Definition ks_facts (c : N) : bool :=
  let fl := set_field 0 KS_DEVICE_ID_MASK KS_DEVICE_ID_SHIFT c in
  (fl <? 65536) && (N.shiftr (N.land fl KS_DEVICE_ID_MASK) KS_DEVICE_ID_SHIFT =? c) && (fdev fl =? c).

Lemma ks_facts_all : all_below 256 ks_facts = true.
Proof. vm_compute. reflexivity. Qed.

(* ------------------------------------------------------------------ CRC-32/MPEG-2 stays in 32 bits *)
Lemma lxor_lt_pow2 a b n : a < 2 ^ n -> b < 2 ^ n -> N.lxor a b < 2 ^ n.
Proof.
  intros Ha Hb. destruct (N.eq_dec (N.lxor a b) 0) as [E|E].
  - rewrite E. apply N.neq_0_lt_0. apply N.pow_nonzero. discriminate.
  - apply N.log2_lt_pow2; [lia|].
    eapply N.le_lt_trans; [apply N.log2_lxor|].
    destruct (N.eq_dec a 0) as [->|Ea]; destruct (N.eq_dec b 0) as [->|Eb].
    + rewrite N.lxor_0_l in E. contradiction.
    + rewrite N.max_r by apply N.le_0_l. apply N.log2_lt_pow2; lia.
    + rewrite N.max_l by apply N.le_0_l. apply N.log2_lt_pow2; lia.
    + apply N.max_lub_lt; apply N.log2_lt_pow2; lia.
Qed.

Lemma crc_bits_lt n r : crc_bits (S n) 32 (crc_poly CRC32_MPEG2) r < 2 ^ 32.
Proof.
  revert r. induction n as [|n IH]; intros r.
  - cbn [crc_bits]. destruct (N.testbit r (32 - 1)).
    + apply lxor_lt_pow2; [|reflexivity]. rewrite N.land_ones. apply N.mod_lt. discriminate.
    + rewrite N.land_ones. apply N.mod_lt. discriminate.
  - change (crc_bits (S (S n)) 32 (crc_poly CRC32_MPEG2) r) with
      (crc_bits (S n) 32 (crc_poly CRC32_MPEG2)
         (if N.testbit r (32 - 1) then N.lxor (N.land (N.shiftl r 1) (N.ones 32)) (crc_poly CRC32_MPEG2)
          else N.land (N.shiftl r 1) (N.ones 32))).
    apply IH.
Qed.

Lemma crc32_mpeg_lt l : crc32_mpeg l < U32.
Proof.
  unfold crc32_mpeg, crc, crc_finish. cbn [crc_refout crc_xorout crc_init crc_width CRC32_MPEG2].
  rewrite N.lxor_0_r. unfold crc_update.
  assert (G : forall l r, r < 2 ^ 32 -> fold_left (crc_byte CRC32_MPEG2) l r < 2 ^ 32).
  { clear l. induction l as [|b t IH]; intros r Hr; [exact Hr|].
    cbn [fold_left]. apply IH. unfold crc_byte. cbn [crc_refin crc_width crc_poly CRC32_MPEG2].
    apply (crc_bits_lt 7). }
  apply G. reflexivity.
Qed.

(* ------------------------------------------------------------------ commands *)
Lemma hdr_fits_iff h :
  hdr_fits h = true <-> h_tag h < 256 /\ h_flags h < 65536 /\ h_addr h < U32 /\ h_count h < U32 /\ h_data h < U32.
Proof.
  unfold hdr_fits, hdr_flds, cmdhdr_format. cbn [pack_fits fld_fits snd].
  change (2 ^ (8 * N.of_nat 1)) with 256. change (2 ^ (8 * N.of_nat 2)) with 65536. change (2 ^ (8 * N.of_nat 4)) with U32.
  rewrite !andb_true_iff, !N.ltb_lt. intuition; reflexivity.
Qed.

Lemma hdr_export_head h : exists tl, hdr_export h = hdr_crc h mod 256 :: h_tag h mod 256 :: tl.
Proof. unfold hdr_export, hdr_raw, cmdhdr_format, hdr_flds. cbn [pack pack1 snd le_enc app]. eexists. reflexivity. Qed.

Lemma cmd_parse_hdr h k rest :
  hdr_fits h = true -> assoc (h_tag h) cmd_class_table = Some k ->
  cmd_parse (hdr_export h ++ rest) = parse_class k h (hdr_export h ++ rest).
Proof.
  intros Hf Hk. pose proof (hdr_parse_export h rest Hf) as HP.
  destruct (hdr_export_head h) as [tl E]. unfold cmd_parse. rewrite E in *. cbn [app].
  apply hdr_fits_iff in Hf as (Ht & _). rewrite (N.mod_small _ _ Ht), Hk.
  cbn [app] in HP. rewrite (N.mod_small _ _ Ht) in HP. rewrite HP. reflexivity.
Qed.

Lemma rom_cmd_hdr h rest :
  hdr_fits h = true ->
  rom_cmd (hdr_export h ++ rest) =
  let d := hdr_export h ++ rest in
      let f := h_flags h in
      match h_tag h with
      | 0 => Some (RNop, 16%nat)
      | 1 => Some (RTag, 16%nat)
      | 2 => if nlen d <? h_count h then None else
             let n := N.to_nat (h_count h) in
             let padded := ((n + 15) / 16 * 16)%nat in
             let body := firstn padded (skipn 16 d) in
             if negb (Nat.eqb (length body) padded) then None
             else if negb (crc CRC32_MPEG2 body =? h_data h) then None
             else Some (RLoad (fdev f) (fgrp f) (h_addr h) (firstn n body), (16 + padded)%nat)
      | 3 => Some (RFill (h_addr h) (h_count h) (h_data h), 16%nat)
      | 4 => Some (RJump (h_addr h) (h_data h) (if N.testbit f 1 then Some (h_count h) else None), 16%nat)
      | 5 => Some (RCall (h_addr h) (h_data h), 16%nat)
      | 7 => Some (RErase (fdev f) (fgrp f) (flow f) (h_addr h) (h_count h), 16%nat)
      | 8 => Some (RReset, 16%nat)
      | 9 => Some (RMemEnable (fdev f) (fgrp f) (h_addr h) (h_count h), 16%nat)
      | 10 => Some (RProg (fdev f) (N.land f 255) (h_addr h) (h_count h) (h_data h), 16%nat)
      | 11 => Some (RVerCheck (h_addr h) (h_count h), 16%nat)
      | 12 => Some (RKsRestore (fdev f) (h_addr h), 16%nat)
      | 13 => Some (RKsBackup (fdev f) (h_addr h), 16%nat)
      | _ => None
      end.
Proof. intros Hf. unfold rom_cmd. rewrite rom_hdr_export by assumption. reflexivity. Qed.

Lemma wf_bool_split a b : a && b = true -> a = true /\ b = true.
Proof. apply andb_true_iff. Qed.

Ltac split_wf H :=
  repeat match type of H with
         | _ && _ = true => let H2 := fresh "W" in apply wf_bool_split in H as [H H2]
         end.

Ltac ltb_hyps :=
  repeat match goal with
         | H : (_ <? _) = true |- _ => apply N.ltb_lt in H
         | H : addr_ok _ = true |- _ => unfold addr_ok in H
         | H : (_ =? _) = true |- _ => apply N.eqb_eq in H
         end.

Lemma fits_intro t f a c d :
  t < 256 -> f < 65536 -> a < U32 -> c < U32 -> d < U32 -> hdr_fits (mkHdr t f a c d) = true.
Proof. intros. apply hdr_fits_iff. cbn. auto. Qed.

(* simple commands: header only, 16 bytes *)
Definition simple_ok (c : cmd) (h : hdr) (o : pcmd) : Prop :=
  cmd_build c = Ok (h, []) /\ hdr_fits h = true /\ cmd_obs c = Ok o /\
  (forall rest, cmd_parse (hdr_export h ++ rest) = Ok o) /\ pcmd_size o = 16%nat /\
  (forall rest, rom_cmd (hdr_export h ++ rest) = Some (sem c, 16%nat)).

Lemma U32_val : U32 = 4294967296. Proof. reflexivity. Qed.

Ltac finish_simple W Hf k :=
  unfold simple_ok; split; [|split; [|split; [|split; [|split]]]];
  [ cbn [cmd_build]; rewrite ?W; reflexivity
  | exact Hf
  | unfold cmd_obs; cbn [cmd_build]; rewrite ?W; reflexivity
  | intros rest; rewrite (cmd_parse_hdr _ k) by (assumption || reflexivity); reflexivity
  | reflexivity
  | intros rest; rewrite rom_cmd_hdr by assumption; reflexivity ].

Lemma nop_ok : simple_ok CNop (mkHdr TAG_NOP 0 0 0 0) (mkHdr TAG_NOP 0 0 0 0, [], 0).
Proof. assert (Hf : hdr_fits (mkHdr TAG_NOP 0 0 0 0) = true) by reflexivity. finish_simple Hf Hf 0. Qed.
Lemma tag_ok : simple_ok CTag (mkHdr TAG_TAG 0 0 0 0) (mkHdr TAG_TAG 0 0 0 0, [], 0).
Proof. assert (Hf : hdr_fits (mkHdr TAG_TAG 0 0 0 0) = true) by reflexivity. finish_simple Hf Hf 1. Qed.
Lemma reset_ok : simple_ok CReset (mkHdr TAG_RESET 0 0 0 0) (mkHdr TAG_RESET 0 0 0 0, [], 0).
Proof. assert (Hf : hdr_fits (mkHdr TAG_RESET 0 0 0 0) = true) by reflexivity. finish_simple Hf Hf 8. Qed.

Lemma jump_none_ok a g : wf_cmd (CJump a g None) = true -> simple_ok (CJump a g None) (mkHdr TAG_JUMP 0 a 0 g) (mkHdr TAG_JUMP 0 a 0 g, [], 0).
Proof.
  intros W. cbn [wf_cmd] in W. split_wf W.
  assert (Hf : hdr_fits (mkHdr TAG_JUMP 0 a 0 g) = true) by (ltb_hyps; apply fits_intro; try assumption; reflexivity).
  finish_simple W Hf 4.
Qed.
Lemma jump_some_ok a g s : wf_cmd (CJump a g (Some s)) = true -> simple_ok (CJump a g (Some s)) (mkHdr TAG_JUMP 2 a s g) (mkHdr TAG_JUMP 2 a s g, [], 0).
Proof.
  intros W. cbn [wf_cmd] in W. split_wf W.
  assert (Hf : hdr_fits (mkHdr TAG_JUMP 2 a s g) = true) by (ltb_hyps; apply fits_intro; try assumption; reflexivity).
  finish_simple W Hf 4.
Qed.

Lemma call_ok a g : wf_cmd (CCall a g) = true -> simple_ok (CCall a g) (mkHdr TAG_CALL 0 a 0 g) (mkHdr TAG_CALL 0 a 0 g, [], 0).
Proof.
  intros W. cbn [wf_cmd] in W. split_wf W.
  assert (Hf : hdr_fits (mkHdr TAG_CALL 0 a 0 g) = true) by (ltb_hyps; apply fits_intro; try assumption; reflexivity).
  finish_simple W Hf 5.
Qed.

Lemma erase_ok a l f m : wf_cmd (CErase a l f m) = true ->
  simple_ok (CErase a l f m) (mkHdr TAG_ERASE (or_memid f m) a l 0) (mkHdr TAG_ERASE (or_memid f m) a l 0, [], m).
Proof.
  intros W. cbn [wf_cmd] in W.
  apply andb_true_iff in W as [W Wm]; apply andb_true_iff in W as [W Wf]; apply andb_true_iff in W as [Wa Wl].
  pose proof Wf as Hf0. pose proof Wm as Hm0. apply N.ltb_lt in Hf0, Hm0.
  pose proof (memid_facts_ok f m Hf0 Hm0) as F. unfold memid_facts in F. cbv zeta in F.
  repeat (let X := fresh "F" in apply andb_true_iff in F as [F X]).
  assert (Hf : hdr_fits (mkHdr TAG_ERASE (or_memid f m) a l 0) = true) by (ltb_hyps; apply fits_intro; try assumption; reflexivity).
  ltb_hyps.
  unfold simple_ok; split; [|split; [|split; [|split; [|split]]]].
  - cbn [cmd_build]. unfold addr_ok. apply N.ltb_lt in Wa. rewrite Wa; reflexivity.
  - exact Hf.
  - unfold cmd_obs; cbn [cmd_build]. unfold addr_ok. apply N.ltb_lt in Wa. rewrite Wa; reflexivity.
  - intros rest; rewrite (cmd_parse_hdr _ 7) by (assumption || reflexivity).
    unfold parse_class. cbn [h_flags h_addr h_count h_data]. cbv zeta. rewrite F5, F4. reflexivity.
  - reflexivity.
  - intros rest; rewrite rom_cmd_hdr by assumption. cbn [h_tag h_flags h_addr h_count h_data TAG_ERASE].
    cbv zeta. cbn [sem]. rewrite F3, F2, F1. reflexivity.
Qed.

Lemma memenable_ok a s m : wf_cmd (CMemEnable a s m) = true ->
  simple_ok (CMemEnable a s m) (mkHdr TAG_MEM_ENABLE (or_memid 0 m) a s 0) (mkHdr TAG_MEM_ENABLE (or_memid 0 m) a s 0, [], m).
Proof.
  intros W. cbn [wf_cmd] in W.
  apply andb_true_iff in W as [W Wm]; apply andb_true_iff in W as [Wa Ws].
  pose proof Wm as Hm0. apply N.ltb_lt in Hm0.
  assert (H0 : 0 < 16) by reflexivity.
  pose proof (memid_facts_ok 0 m H0 Hm0) as F. unfold memid_facts in F. cbv zeta in F.
  repeat (let X := fresh "F" in apply andb_true_iff in F as [F X]).
  assert (Hf : hdr_fits (mkHdr TAG_MEM_ENABLE (or_memid 0 m) a s 0) = true) by (ltb_hyps; apply fits_intro; try assumption; reflexivity).
  ltb_hyps.
  unfold simple_ok; split; [|split; [|split; [|split; [|split]]]].
  - reflexivity.
  - exact Hf.
  - reflexivity.
  - intros rest; rewrite (cmd_parse_hdr _ 9) by (assumption || reflexivity).
    unfold parse_class. cbn [h_flags h_addr h_count h_data]. cbv zeta. rewrite F5. reflexivity.
  - reflexivity.
  - intros rest; rewrite rom_cmd_hdr by assumption. cbn [h_tag h_flags h_addr h_count h_data TAG_MEM_ENABLE].
    cbv zeta. cbn [sem]. rewrite F3, F2. reflexivity.
Qed.

Definition is8 (w2 : N) : N := if w2 =? 0 then 0 else 1.
Lemma is8_lt w : is8 w < 2. Proof. unfold is8. destruct (w =? 0); reflexivity. Qed.

Lemma prog_ok a m w1 w2 f : wf_cmd (CProg a m w1 w2 f) = true ->
  let fl := set_field (N.lor (is8 w2) f) ROM_MEM_DEVICE_ID_MASK ROM_MEM_DEVICE_ID_SHIFT m in
  simple_ok (CProg a m w1 w2 f) (mkHdr TAG_PROG fl a w1 w2) (mkHdr TAG_PROG fl a w1 w2, [], m).
Proof.
  intros W fl. cbn [wf_cmd] in W.
  apply andb_true_iff in W as [W Wf]; apply andb_true_iff in W as [W W2]; apply andb_true_iff in W as [W W1];
  apply andb_true_iff in W as [Wa Wm].
  pose proof Wm as Hm0. pose proof Wf as Hf0. apply N.ltb_lt in Hm0, Hf0.
  pose proof (prog_facts_ok (is8 w2) f m (is8_lt w2) Hf0 Hm0) as F. unfold prog_facts in F. cbv zeta in F. fold fl in F.
  repeat (let X := fresh "F" in apply andb_true_iff in F as [F X]).
  assert (Hf : hdr_fits (mkHdr TAG_PROG fl a w1 w2) = true) by (ltb_hyps; apply fits_intro; try assumption; reflexivity).
  unfold simple_ok; split; [|split; [|split; [|split; [|split]]]].
  - cbn [cmd_build]. rewrite Wm, Wa, W1, W2. reflexivity.
  - exact Hf.
  - unfold cmd_obs; cbn [cmd_build]. rewrite Wm, Wa, W1, W2. reflexivity.
  - intros rest; rewrite (cmd_parse_hdr _ 10) by (assumption || reflexivity).
    unfold parse_class. cbn [h_flags h_addr h_count h_data]. cbv zeta. ltb_hyps. fold (is8 w2). rewrite F3, F2. reflexivity.
  - reflexivity.
  - intros rest; rewrite rom_cmd_hdr by assumption. cbn [h_tag h_flags h_addr h_count h_data TAG_PROG].
    cbv zeta. cbn [sem]. ltb_hyps. fold (is8 w2). rewrite F1, F0. reflexivity.
Qed.

Lemma mem_In x l : mem x l = true -> In x l.
Proof. unfold mem. rewrite existsb_exists. intros (y & Hy & E). apply N.eqb_eq in E. now subst. Qed.

Lemma vercheck_ok t v : wf_cmd (CVerCheck t v) = true ->
  simple_ok (CVerCheck t v) (mkHdr TAG_FW_VERSION_CHECK 0 t v 0) (mkHdr TAG_FW_VERSION_CHECK 0 t v 0, [], 0).
Proof.
  intros W. cbn [wf_cmd] in W. apply andb_true_iff in W as [Wt Wv].
  assert (Ht : t < U32).
  { apply mem_In in Wt. cbn in Wt. destruct Wt as [<-|[<-|[]]]; reflexivity. }
  assert (Hf : hdr_fits (mkHdr TAG_FW_VERSION_CHECK 0 t v 0) = true) by (ltb_hyps; apply fits_intro; try assumption; reflexivity).
  unfold simple_ok; split; [|split; [|split; [|split; [|split]]]].
  - reflexivity.
  - exact Hf.
  - reflexivity.
  - intros rest; rewrite (cmd_parse_hdr _ 11) by (assumption || reflexivity).
    unfold parse_class. cbn [h_flags h_addr h_count h_data]. rewrite Wt. reflexivity.
  - reflexivity.
  - intros rest; rewrite rom_cmd_hdr by assumption. reflexivity.
Qed.

Lemma ks_ok (restore : bool) a c :
  wf_cmd (if restore then CKsRestore a c else CKsBackup a c) = true ->
  let tg := if restore then TAG_WR_KEYSTORE_TO_NV else TAG_WR_KEYSTORE_FROM_NV in
  let fl := set_field 0 KS_DEVICE_ID_MASK KS_DEVICE_ID_SHIFT c in
  simple_ok (if restore then CKsRestore a c else CKsBackup a c) (mkHdr tg fl a KS_COUNT 0) (mkHdr tg fl a KS_COUNT 0, [], 0).
Proof.
  intros W tg fl.
  assert (W' : addr_ok a && (c <? 256) && mem c ext_mem_ids = true) by (destruct restore; exact W).
  clear W. apply andb_true_iff in W' as [W Wmem]; apply andb_true_iff in W as [Wa Wc].
  pose proof Wc as Hc. apply N.ltb_lt in Hc.
  pose proof (all_below_spec _ _ ks_facts_all c Hc) as F. unfold ks_facts in F. cbv zeta in F. fold fl in F.
  repeat (let X := fresh "F" in apply andb_true_iff in F as [F X]).
  assert (Hf : hdr_fits (mkHdr tg fl a KS_COUNT 0) = true).
  { ltb_hyps. apply fits_intro; try assumption; try reflexivity. destruct restore; reflexivity. }
  ltb_hyps.
  unfold simple_ok; split; [|split; [|split; [|split; [|split]]]].
  - destruct restore; cbn [cmd_build]; unfold addr_ok; apply N.ltb_lt in Wa, Wc; rewrite Wa, Wc; reflexivity.
  - exact Hf.
  - destruct restore; unfold cmd_obs; cbn [cmd_build]; unfold addr_ok; apply N.ltb_lt in Wa, Wc; rewrite Wa, Wc; reflexivity.
  - intros rest. destruct restore.
    + rewrite (cmd_parse_hdr _ 12) by (assumption || reflexivity).
      unfold parse_class. cbn [h_flags h_addr h_count h_data]. cbv zeta. fold fl. rewrite F1, Wmem. reflexivity.
    + rewrite (cmd_parse_hdr _ 13) by (assumption || reflexivity).
      unfold parse_class. cbn [h_flags h_addr h_count h_data]. cbv zeta. fold fl. rewrite F1, Wmem. reflexivity.
  - destruct restore; reflexivity.
  - intros rest; rewrite rom_cmd_hdr by assumption. destruct restore; cbn [h_tag h_flags h_addr h_count h_data tg];
    cbv zeta; cbn [sem]; fold fl; rewrite F0; reflexivity.
Qed.

Definition fill_w (p : N) : N := if p <? 256 then p * 16843009 else if p <? 65536 then p * 65537 else p.
Definition fill_l (l : N) : N := if l =? 0 then 4 else l.

Lemma fill_word_ok p : p < U32 -> fill_word p = Ok (fill_w p).
Proof.
  intros H. unfold fill_word, fill_w. destruct (p <? 256); [reflexivity|]. destruct (p <? 65536); [reflexivity|].
  apply N.ltb_lt in H. rewrite H. reflexivity.
Qed.

Lemma fill_w_lt p : p < U32 -> fill_w p < U32.
Proof.
  intros H. unfold fill_w. rewrite U32_val in *.
  destruct (p <? 256) eqn:E1; [apply N.ltb_lt in E1; lia|].
  destruct (p <? 65536) eqn:E2; [apply N.ltb_lt in E2; lia|]. exact H.
Qed.

Lemma fill_w_idem p : p < U32 -> fill_w (fill_w p) = fill_w p.
Proof.
  intros H. unfold fill_w at 2 3. 
  destruct (p <? 256) eqn:E1.
  - apply N.ltb_lt in E1. destruct (N.eq_dec p 0) as [->|Hp]; [reflexivity|].
    unfold fill_w. replace (p * 16843009 <? 256) with false by (symmetry; apply N.ltb_ge; lia).
    replace (p * 16843009 <? 65536) with false by (symmetry; apply N.ltb_ge; lia). reflexivity.
  - apply N.ltb_ge in E1. destruct (p <? 65536) eqn:E2.
    + unfold fill_w. replace (p * 65537 <? 256) with false by (symmetry; apply N.ltb_ge; lia).
      replace (p * 65537 <? 65536) with false by (symmetry; apply N.ltb_ge; lia). reflexivity.
    + unfold fill_w. rewrite E2. replace (p <? 256) with false by (symmetry; apply N.ltb_ge; lia). reflexivity.
Qed.

Lemma fill_ok a p l : wf_cmd (CFill a p l) = true ->
  simple_ok (CFill a p l) (mkHdr TAG_FILL 0 a (fill_l l) (fill_w p)) (mkHdr TAG_FILL 0 a (fill_l l) (fill_w p), be_enc 4 (fill_w p), 0).
Proof.
  intros W. cbn [wf_cmd] in W.
  apply andb_true_iff in W as [W Wl4]; apply andb_true_iff in W as [W Wl]; apply andb_true_iff in W as [Wa Wp].
  pose proof Wp as Hp. apply N.ltb_lt in Hp.
  assert (Hl4 : fill_l l mod 4 =? 0 = true).
  { unfold fill_l. destruct (l =? 0) eqn:E; [reflexivity| exact Wl4]. }
  assert (Hl0 : fill_l l =? 0 = false).
  { unfold fill_l. destruct (l =? 0) eqn:E; [reflexivity| exact E]. }
  assert (Hll : fill_l l < U32).
  { unfold fill_l. destruct (l =? 0); [reflexivity| now apply N.ltb_lt]. }
  assert (Hf : hdr_fits (mkHdr TAG_FILL 0 a (fill_l l) (fill_w p)) = true).
  { ltb_hyps. apply fits_intro; try assumption; try reflexivity. now apply fill_w_lt. }
  unfold simple_ok; split; [|split; [|split; [|split; [|split]]]].
  - cbn [cmd_build]. fold (fill_l l). rewrite Hl4, (fill_word_ok p Hp), Wa. reflexivity.
  - exact Hf.
  - unfold cmd_obs; cbn [cmd_build]. fold (fill_l l). rewrite Hl4, (fill_word_ok p Hp), Wa. reflexivity.
  - intros rest; rewrite (cmd_parse_hdr _ 3) by (assumption || reflexivity).
    unfold parse_class. cbn [h_flags h_addr h_count h_data]. rewrite Hl0, Hl4.
    rewrite (fill_word_ok _ (fill_w_lt p Hp)), fill_w_idem by assumption. reflexivity.
  - reflexivity.
  - intros rest; rewrite rom_cmd_hdr by assumption. reflexivity.
Qed.

Ltac Zify.zify_post_hook ::= Z.to_euclidean_division_equations.

Lemma align16_ge n : (n <= align16 n)%nat.
Proof. unfold align16. lia. Qed.
Lemma align16_mod n : (align16 n mod 16 = 0)%nat.
Proof. unfold align16. apply Nat.mod_mul. discriminate. Qed.
Lemma align16_mult n : (n mod 16 = 0)%nat -> align16 n = n.
Proof. unfold align16. lia. Qed.

Lemma load_data_length d pad : length (load_data d pad) = align16 (length d).
Proof. unfold load_data. rewrite app_length, fit_length. pose proof (align16_ge (length d)). lia. Qed.

Lemma load_ok a m d pad : wf_cmd (CLoad a m d pad) = true ->
  let dd := load_data d pad in
  let h := mkHdr TAG_LOAD (or_memid 0 m) a (nlen dd) (crc32_mpeg dd) in
  cmd_build (CLoad a m d pad) = Ok (h, dd) /\ hdr_fits h = true /\ cmd_obs (CLoad a m d pad) = Ok (h, dd, m) /\
  (length dd mod 16 = 0)%nat /\ pcmd_size (h, dd, m) = (16 + length dd)%nat /\
  forall rest, cmd_parse (hdr_export h ++ dd ++ rest) = Ok (h, dd, m) /\
               rom_cmd (hdr_export h ++ dd ++ rest) = Some (sem (CLoad a m d pad), (16 + length dd)%nat).
Proof.
  intros W dd h. cbn [wf_cmd] in W.
  apply andb_true_iff in W as [W Wlen]; apply andb_true_iff in W as [W Wpad]; apply andb_true_iff in W as [W Wd];
  apply andb_true_iff in W as [Wa Wm].
  pose proof Wm as Hm0. apply N.ltb_lt in Hm0.
  assert (H0 : 0 < 16) by reflexivity.
  pose proof (memid_facts_ok 0 m H0 Hm0) as F. unfold memid_facts in F. cbv zeta in F.
  repeat (let X := fresh "F" in apply andb_true_iff in F as [F X]).
  assert (HL : length dd = align16 (length d)) by apply load_data_length.
  assert (HLm : (length dd mod 16 = 0)%nat) by (rewrite HL; apply align16_mod).
  assert (Hf : hdr_fits h = true).
  { ltb_hyps. apply fits_intro; try assumption; try reflexivity.
    - unfold nlen. rewrite HL. assumption.
    - apply crc32_mpeg_lt. }
  ltb_hyps.
  split; [|split; [|split; [|split; [|split]]]].
  - cbn [cmd_build]. unfold addr_ok. apply N.ltb_lt in Wa. rewrite Wa. reflexivity.
  - exact Hf.
  - unfold cmd_obs. cbn [cmd_build]. unfold addr_ok. apply N.ltb_lt in Wa. rewrite Wa. reflexivity.
  - exact HLm.
  - unfold pcmd_size. cbn [h_tag h]. rewrite N.eqb_refl. change HDR_SIZE with 16%nat. now rewrite align16_mult.
  - intros rest.
    assert (Hsk : skipn 16 (hdr_export h ++ dd ++ rest) = dd ++ rest) by (apply skipn_app_exact, hdr_export_length).
    assert (Hlen : length (hdr_export h ++ dd ++ rest) = (16 + length dd + length rest)%nat)
      by (rewrite !app_length, hdr_export_length; lia).
    split.
    + rewrite (cmd_parse_hdr _ 2) by (assumption || reflexivity).
      unfold parse_class. cbn [h_flags h_addr h_count h_data h]. cbv zeta. change HDR_SIZE with 16%nat.
      rewrite Hsk.
      assert (En : N.to_nat (N.min ((nlen dd + 15) / 16 * 16) (nlen (hdr_export h ++ dd ++ rest))) = length dd).
      { unfold nlen. rewrite Hlen. lia. }
      rewrite En. rewrite (firstn_app_exact dd rest _ eq_refl). rewrite N.eqb_refl. cbn [negb].
      unfold aligned16. rewrite HLm. cbn [Nat.eqb negb]. rewrite F5. reflexivity.
    + rewrite rom_cmd_hdr by assumption. cbn [h_tag h_flags h_addr h_count h_data h TAG_LOAD]. cbv zeta.
      rewrite Hsk.
      replace (nlen (hdr_export h ++ dd ++ rest) <? nlen dd) with false
        by (symmetry; apply N.ltb_ge; unfold nlen; rewrite Hlen; lia).
      unfold nlen. rewrite Nat2N.id.
      replace ((length dd + 15) / 16 * 16)%nat with (length dd) by lia.
      rewrite (firstn_app_exact dd rest _ eq_refl). rewrite Nat.eqb_refl. cbn [negb].
      fold (crc32_mpeg dd). rewrite N.eqb_refl. cbn [negb]. rewrite firstn_all. cbn [sem].
      fold dd. rewrite F3, F2. reflexivity.
Qed.

Definition cmd_good (c : cmd) (b : list N) (o : pcmd) : Prop :=
  cmd_export c = Ok b /\ cmd_obs c = Ok o /\ (16 <= length b)%nat /\ (length b mod 16 = 0)%nat /\
  pcmd_size o = length b /\
  forall rest, cmd_parse (b ++ rest) = Ok o /\ rom_cmd (b ++ rest) = Some (sem c, length b).

Lemma simple_good c h o : simple_ok c h o -> cmd_good c (hdr_export h) o.
Proof.
  intros (Hb & Hf & Ho & Hp & Hs & Hr). unfold cmd_good.
  split; [|split; [|split; [|split; [|split]]]].
  - unfold cmd_export. rewrite Hb, Hf, app_nil_r. reflexivity.
  - exact Ho.
  - rewrite hdr_export_length. apply Nat.le_refl.
  - rewrite hdr_export_length. reflexivity.
  - rewrite hdr_export_length. exact Hs.
  - intros rest. rewrite hdr_export_length. split; [apply Hp | apply Hr].
Qed.

Lemma cmd_ok c : wf_cmd c = true -> exists b o, cmd_good c b o.
Proof.
  intros W. destruct c as [ | | |a m d pad|a p l|a g sp|a g|a l f m|a s m|a m w1 w2 f|t v|a c|a c].
  - eexists _, _. apply simple_good, nop_ok.
  - eexists _, _. apply simple_good, tag_ok.
  - eexists _, _. apply simple_good, reset_ok.
  - destruct (load_ok a m d pad W) as (Hb & Hf & Ho & Hm & Hs & Hr).
    eexists _, _. unfold cmd_good. split; [|split; [|split; [|split; [|split]]]].
    + unfold cmd_export. rewrite Hb, Hf. reflexivity.
    + exact Ho.
    + rewrite app_length, hdr_export_length. lia.
    + rewrite app_length, hdr_export_length. lia.
    + rewrite app_length, hdr_export_length. exact Hs.
    + intros rest. rewrite <- app_assoc, app_length, hdr_export_length. apply Hr.
  - eexists _, _. apply simple_good, fill_ok, W.
  - destruct sp as [s|]; eexists _, _; apply simple_good; [apply jump_some_ok | apply jump_none_ok]; exact W.
  - eexists _, _. apply simple_good, call_ok, W.
  - eexists _, _. apply simple_good, erase_ok, W.
  - eexists _, _. apply simple_good, memenable_ok, W.
  - eexists _, _. apply simple_good. apply (prog_ok a m w1 w2 f W).
  - eexists _, _. apply simple_good, vercheck_ok, W.
  - eexists _, _. apply simple_good. apply (ks_ok true a c W).
  - eexists _, _. apply simple_good. apply (ks_ok false a c W).
Qed.

(* ------------------------------------------------------------------ command streams *)
Lemma cmds_parse_step f d p :
  d <> [] -> cmd_parse d = Ok p ->
  cmds_parse (S f) d = match cmds_parse f (skipn (pcmd_size p) d) with Err e => Err e | Ok r => Ok (p :: r) end.
Proof. intros Hd Hp. destruct d; [contradiction|]. cbn [cmds_parse]. rewrite Hp. reflexivity. Qed.

Lemma rom_cmds_step f d c n :
  d <> [] -> rom_cmd d = Some (c, n) ->
  rom_cmds (S f) d = match rom_cmds f (skipn n d) with None => None | Some r => Some (c :: r) end.
Proof. intros Hd Hp. destruct d; [contradiction|]. cbn [rom_cmds]. rewrite Hp. reflexivity. Qed.

Lemma nonempty_len {A} (l : list A) : (0 < length l)%nat -> l <> [].
Proof. destruct l; simpl; [lia|discriminate]. Qed.

Lemma cmds_stream cs : forallb wf_cmd cs = true ->
  exists bs os, cmds_export cs = Ok bs /\ (length bs mod 16 = 0)%nat /\ (16 * length cs <= length bs)%nat /\
    Forall2 (fun c o => cmd_obs c = Ok o) cs os /\
    forall fuel, (length cs < fuel)%nat -> cmds_parse fuel bs = Ok os /\ rom_cmds fuel bs = Some (map sem cs).
Proof.
  induction cs as [|c t IH]; intros W.
  - exists [], []. repeat split; try constructor.
    + destruct fuel; [lia|reflexivity].
    + destruct fuel; [simpl in *; lia|reflexivity].
  - cbn [forallb] in W. apply andb_true_iff in W as [Wc Wt].
    destruct (cmd_ok c Wc) as (b & o & He & Ho & Hl16 & Hm & Hs & Hr).
    destruct (IH Wt) as (bs & os & Hes & Hms & Hls & Hos & Hrs).
    exists (b ++ bs), (o :: os). split; [|split; [|split; [|split]]].
    + cbn [cmds_export]. rewrite He, Hes. reflexivity.
    + rewrite app_length. rewrite Nat.add_mod by discriminate. rewrite Hm, Hms. reflexivity.
    + rewrite app_length. cbn [length]. lia.
    + constructor; assumption.
    + intros fuel Hfuel. destruct fuel as [|f]; [lia|]. cbn [length] in Hfuel.
      assert (Hne : b ++ bs <> []) by (apply nonempty_len; rewrite app_length; lia).
      destruct (Hr bs) as [Hp1 Hr1]. destruct (Hrs f ltac:(lia)) as [Hp2 Hr2]. split.
      * rewrite (cmds_parse_step f _ o Hne Hp1). rewrite Hs, (skipn_app_exact b bs _ eq_refl), Hp2. reflexivity.
      * rewrite (rom_cmds_step f _ _ _ Hne Hr1). rewrite (skipn_app_exact b bs _ eq_refl), Hr2. reflexivity.
Qed.

(* ------------------------------------------------------------------ chunks *)
Definition blocks16 (bs : list (list N)) : Prop := Forall (fun b => length b = 16%nat) bs.

Lemma chunks_fuel_concat {A} k : (0 < k)%nat -> forall fuel (l : list A),
  (length l <= fuel)%nat -> concat (chunks_fuel fuel k l) = l.
Proof.
  intros Hk. induction fuel as [|f IH]; intros l Hl.
  - destruct l; [reflexivity| simpl in Hl; lia].
  - destruct l as [|x t]; [reflexivity|]. cbn [chunks_fuel concat].
    rewrite IH.
    + apply firstn_skipn.
    + rewrite skipn_length. cbn [length] in *. lia.
Qed.

Lemma chunks_concat {A} k (l : list A) : (0 < k)%nat -> concat (chunks k l) = l.
Proof. intros Hk. unfold chunks. apply chunks_fuel_concat; [assumption| lia]. Qed.

Lemma chunks_fuel_blocks : forall bs fuel,
  blocks16 bs -> (length bs <= fuel)%nat -> chunks_fuel fuel 16 (concat bs) = bs.
Proof.
  induction bs as [|b t IH]; intros fuel Hb Hf.
  - destruct fuel; reflexivity.
  - inversion Hb as [|? ? Hb1 Hbt]; subst. destruct fuel as [|f]; [simpl in Hf; lia|].
    cbn [concat]. destruct b as [|x b']; [discriminate|].
    change (chunks_fuel (S f) 16 ((x :: b') ++ concat t))
      with (firstn 16 ((x :: b') ++ concat t) :: chunks_fuel f 16 (skipn 16 ((x :: b') ++ concat t))).
    rewrite (firstn_app_exact (x :: b') _ 16 Hb1), (skipn_app_exact (x :: b') _ 16 Hb1).
    rewrite IH; [reflexivity|assumption| simpl in Hf; lia].
Qed.

Lemma concat_blocks_length bs : blocks16 bs -> length (concat bs) = (16 * length bs)%nat.
Proof.
  induction bs as [|b t IH]; intros H; [reflexivity|]. inversion H; subst.
  cbn [concat length]. rewrite app_length, IH by assumption. lia.
Qed.

Lemma chunks_blocks bs : blocks16 bs -> chunks 16 (concat bs) = bs.
Proof.
  intros H. unfold chunks. apply chunks_fuel_blocks; [assumption|].
  rewrite concat_blocks_length by assumption. lia.
Qed.

Lemma chunks_fuel_blocks16 : forall fuel (l : list N),
  (length l mod 16 = 0)%nat -> blocks16 (chunks_fuel fuel 16 l).
Proof.
  induction fuel as [|f IH]; intros l Hl; [constructor|].
  destruct l as [|x t]; [constructor|]. cbn [chunks_fuel]. constructor.
  - rewrite firstn_length. simpl length in *. lia.
  - apply IH. rewrite skipn_length. simpl length in *. lia.
Qed.

Lemma chunks_blocks16 (l : list N) : (length l mod 16 = 0)%nat -> blocks16 (chunks 16 l).
Proof. apply chunks_fuel_blocks16. Qed.

Lemma chunks_count (l : list N) : (length l mod 16 = 0)%nat -> length (chunks 16 l) = (length l / 16)%nat.
Proof.
  intros H. pose proof (concat_blocks_length _ (chunks_blocks16 l H)) as E.
  rewrite chunks_concat in E by lia. lia.
Qed.

Lemma sha256_length m : length (sha256 m) = 32%nat.
Proof.
  unfold sha256, sha2. destruct (sha2_blocks cfg256 H256 (pad cfg256 m)) as [[[[[[[a b] c] d] e] f] g] h].
  unfold digest_bytes. cbn [map concat wbytes cfg256]. rewrite firstn_length, !app_length, !be_enc_length. reflexivity.
Qed.

Lemma hmac256_length k m : length (hmac256 k m) = 32%nat.
Proof. unfold hmac256, hmac_sha256, hmac_gen. apply sha256_length. Qed.

Lemma eqb_list_refl l : eqb_list l l = true.
Proof. now apply eqb_list_spec. Qed.

Lemma skipn_firstn_len {A} (l : list A) p : skipn (length (firstn p l)) l = skipn p l.
Proof.
  rewrite firstn_length. destruct (Nat.le_gt_cases p (length l)).
  - now rewrite Nat.min_l.
  - rewrite Nat.min_r by lia. rewrite skipn_all. symmetry. apply skipn_all2. lia.
Qed.

Lemma hmac_groups_length n per c : length (hmac_groups n per c) = n.
Proof.
  revert c. induction n as [|n IH]; intros c; [reflexivity|].
  destruct n as [|n']; [reflexivity|].
  change (hmac_groups (S (S n')) per c) with (firstn per c :: hmac_groups (S n') per (skipn per c)).
  cbn [length]. now rewrite IH.
Qed.

Lemma hmac_groups_concat n per c : (0 < n)%nat -> concat (hmac_groups n per c) = c.
Proof.
  revert c. induction n as [|n IH]; intros c Hn; [lia|].
  destruct n as [|n']; [cbn; apply app_nil_r|].
  change (hmac_groups (S (S n')) per c) with (firstn per c :: hmac_groups (S n') per (skipn per c)).
  cbn [concat]. rewrite IH by lia. apply firstn_skipn.
Qed.

Lemma table_length mac gs : length (concat (map (hmac256 mac) gs)) = (32 * length gs)%nat.
Proof.
  induction gs as [|g t IH]; [reflexivity|]. cbn [map concat length]. rewrite app_length, hmac256_length, IH. lia.
Qed.

Lemma rom_groups_ok_built mac per : forall n body,
  (0 < n)%nat -> rom_groups_ok mac n per body (concat (map (hmac256 mac) (hmac_groups n per body))) = true.
Proof.
  induction n as [|n IH]; intros body Hn; [lia|].
  destruct n as [|n'].
  - cbn [hmac_groups map concat rom_groups_ok]. rewrite app_nil_r.
    rewrite (firstn_app_exact _ [] 32 (hmac256_length _ _)) || rewrite firstn_all2 by (rewrite hmac256_length; lia).
    rewrite eqb_list_refl, skipn_all. reflexivity.
  - change (hmac_groups (S (S n')) per body) with (firstn per body :: hmac_groups (S n') per (skipn per body)).
    cbn [map concat].
    change (rom_groups_ok mac (S (S n')) per body ?t) with
      (eqb_list (firstn 32 t) (hmac256 mac (firstn per body)) &&
       rom_groups_ok mac (S n') per (skipn (length (firstn per body)) body) (skipn 32 t)).
    cbn [rom_groups_ok].
    rewrite (firstn_app_exact _ _ 32 (hmac256_length _ _)), (skipn_app_exact _ _ 32 (hmac256_length _ _)).
    rewrite eqb_list_refl, skipn_firstn_len. cbn [andb]. apply IH. lia.
Qed.

(* ------------------------------------------------------------------ per-block CTR and sections *)
Section KeyedProofs.
Variable ek : list N -> list N.
Hypothesis ek_len : forall b, length (ek b) = 16%nat.

Lemma xblock_length nonce c b : length b = 16%nat -> length (xblock ek nonce c b) = 16%nat.
Proof. intros H. unfold xblock. rewrite xor_bytes_length; [assumption| now rewrite ek_len]. Qed.

Lemma xblock_invol nonce c b : length b = 16%nat -> xblock ek nonce c (xblock ek nonce c b) = b.
Proof. intros H. unfold xblock. apply xor_bytes_involutive. now rewrite ek_len. Qed.

Lemma xblocks_blocks16 nonce : forall bs c, blocks16 bs -> blocks16 (xblocks ek nonce c bs).
Proof.
  induction bs as [|b t IH]; intros c H; [constructor|]. inversion H; subst.
  cbn [xblocks]. constructor; [now apply xblock_length| now apply IH].
Qed.

Lemma xblocks_invol nonce : forall bs c, blocks16 bs -> xblocks ek nonce c (xblocks ek nonce c bs) = bs.
Proof.
  induction bs as [|b t IH]; intros c H; [reflexivity|]. inversion H; subst.
  cbn [xblocks]. rewrite xblock_invol by assumption. now rewrite IH.
Qed.

Lemma xblocks_length nonce : forall bs c, length (xblocks ek nonce c bs) = length bs.
Proof. induction bs as [|b t IH]; intros c; [reflexivity|]. cbn [xblocks length]. now rewrite IH. Qed.

(* decrypting the encrypted body with the same starting counter restores it *)
Lemma body_roundtrip nonce c cd :
  (length cd mod 16 = 0)%nat ->
  concat (xblocks ek nonce c (chunks 16 (concat (xblocks ek nonce c (chunks 16 cd))))) = cd.
Proof.
  intros H. rewrite chunks_blocks by (apply xblocks_blocks16, chunks_blocks16, H).
  rewrite xblocks_invol by (apply chunks_blocks16, H). apply chunks_concat. lia.
Qed.

Lemma body_length nonce c cd :
  (length cd mod 16 = 0)%nat -> length (concat (xblocks ek nonce c (chunks 16 cd))) = length cd.
Proof.
  intros H. rewrite concat_blocks_length by (apply xblocks_blocks16, chunks_blocks16, H).
  rewrite xblocks_length, chunks_count by assumption. lia.
Qed.

Lemma pad16z_mult l : (length l mod 16 = 0)%nat -> pad16z l = l.
Proof. intros H. unfold pad16z. rewrite align16_mult by assumption. rewrite Nat.sub_diag. apply app_nil_r. Qed.

Lemma sec_hmac_count_bounds req raw :
  (16 <= raw)%nat -> (raw mod 16 = 0)%nat ->
  (1 <= sec_hmac_count req raw <= raw / 16)%nat.
Proof.
  intros H1 H2. unfold sec_hmac_count.
  replace (Nat.eqb raw 0) with false by (symmetry; apply Nat.eqb_neq; lia).
  replace ((raw + 15) / 16)%nat with (raw / 16)%nat by lia.
  assert (Hr : (1 <= (if (req =? 0)%N then 1 else N.to_nat req))%nat).
  { destruct (req =? 0)%N eqn:E; [lia|]. apply N.eqb_neq in E. lia. }
  destruct (Nat.leb _ _) eqn:E.
  - apply Nat.leb_le in E. lia.
  - lia.
Qed.

Lemma slice_at {A} (pre x post : list A) a : length pre = a -> slice (pre ++ x ++ post) a (a + length x) = x.
Proof. intros H. now apply slice_app_mid. Qed.

Definition sec_ok (mac nonce : list N) (ctr : N) (s : section) (b : list N) : Prop :=
  (48 <= length b)%nat /\ (length b mod 16 = 0)%nat /\
  ctr + N.of_nat (length b / 16) <= U32 /\
  (exists cd h, cmds_export (s_cmds s) = Ok cd /\ rom_hdr (xblock ek nonce ctr (firstn 16 b)) = Some h /\
                h_data h = N.of_nat (sec_hmac_count (s_hmac s) (length cd)) /\
                length b = sec_size (sec_hmac_count (s_hmac s) (length cd)) (length cd) /\
                (length cd mod 16 = 0)%nat) /\
  forall pre post off,
    length pre = off -> (off mod 16 = 0)%nat -> ctr = ctr_of_nonce nonce + N.of_nat (off / 16) ->
    rom_section ek mac nonce (pre ++ b ++ post) off = Some (s_uid s, map sem (s_cmds s), length b).

Lemma sec_export_rom mac nonce ctr s b :
  forallb wf_cmd (s_cmds s) = true -> sec_export ek mac nonce ctr s = Ok b -> sec_ok mac nonce ctr s b.
Proof.
  intros W H. unfold sec_export in H.
  destruct (cmds_stream _ W) as (cd & os & Hcd & Hcdm & Hcdl & Hos & Hfuel).
  destruct (s_cmds s) as [|c0 ct] eqn:Ecs; [discriminate|]. rewrite <- Ecs in *. rewrite Hcd in H.
  assert (Hcd16 : (16 <= length cd)%nat) by (rewrite Ecs in Hcdl; cbn [length] in Hcdl; lia).
  rewrite (pad16z_mult cd Hcdm) in H.
  set (count := (length cd / 16)%nat) in *.
  set (hc := sec_hmac_count (s_hmac s) (length cd)) in *.
  destruct (sec_hmac_count_bounds (s_hmac s) (length cd) Hcd16 Hcdm) as [Hhc1 Hhc2]. fold hc count in Hhc1, Hhc2.
  set (h := mkHdr TAG_TAG (N.lor SECT_BOOTABLE SECT_LAST_SECT) (s_uid s) (N.of_nat count) (N.of_nat hc)) in *.
  destruct (hdr_fits h) eqn:Hf; [|discriminate]. cbn [negb] in H.
  destruct (U32 <? ctr + N.of_nat (3 + 2 * hc + count)) eqn:Hov; [discriminate|]. apply N.ltb_ge in Hov.
  set (ench := xblock ek nonce ctr (hdr_export h)) in *.
  set (body := concat (xblocks ek nonce (ctr + N.of_nat (1 + (hc + 1) * 2)) (chunks 16 cd))) in *.
  set (table := concat (map (hmac256 mac) (hmac_groups hc (count / hc * 16) body))) in *.
  injection H as <-.
  assert (Lench : length ench = 16%nat) by (apply xblock_length, hdr_export_length).
  assert (Lhm : length (hmac256 mac ench) = 32%nat) by apply hmac256_length.
  assert (Ltab : length table = (32 * hc)%nat) by (unfold table; rewrite table_length, hmac_groups_length; reflexivity).
  assert (Lbody : length body = (16 * count)%nat).
  { unfold body. rewrite body_length by assumption. unfold count. lia. }
  assert (Lb : length (ench ++ hmac256 mac ench ++ table ++ body) = (48 + 32 * hc + 16 * count)%nat).
  { rewrite !app_length, Lench, Lhm, Ltab, Lbody. lia. }
  unfold sec_ok. split; [|split; [|split; [|split]]].
  - rewrite Lb. lia.
  - rewrite Lb. lia.
  - rewrite Lb. replace ((48 + 32 * hc + 16 * count) / 16)%nat with (3 + 2 * hc + count)%nat by lia. exact Hov.
  - exists cd, h. split; [exact Hcd|]. split; [|split].
    + rewrite (firstn_app_exact ench _ 16 Lench). unfold ench. rewrite xblock_invol by apply hdr_export_length.
      rewrite <- (app_nil_r (hdr_export h)). now apply rom_hdr_export.
    + reflexivity.
    + split; [|exact Hcdm]. rewrite Lb. fold hc. unfold sec_size, count. lia.
  - intros pre post off Hpre Hoff Hctr.
    set (file := pre ++ (ench ++ hmac256 mac ench ++ table ++ body) ++ post).
    assert (S1 : slice file off (off + 16) = ench).
    { unfold file. rewrite <- !app_assoc. rewrite <- Lench. now apply slice_at. }
    assert (S2 : slice file (off + 16) (off + 48) = hmac256 mac ench).
    { unfold file. rewrite <- !app_assoc. rewrite (app_assoc pre ench).
      replace (off + 48)%nat with ((off + 16) + length (hmac256 mac ench))%nat by lia.
      apply slice_at. rewrite app_length. lia. }
    assert (S3 : slice file (off + 48) (off + 48 + 32 * hc) = table).
    { unfold file. rewrite <- !app_assoc. rewrite (app_assoc pre ench), (app_assoc (pre ++ ench)).
      rewrite <- Ltab. apply slice_at. rewrite !app_length. lia. }
    assert (S4 : slice file (off + 48 + 32 * hc) (off + 48 + 32 * hc + 16 * count) = body).
    { unfold file. rewrite <- !app_assoc.
      rewrite (app_assoc pre ench), (app_assoc (pre ++ ench)), (app_assoc ((pre ++ ench) ++ _)).
      rewrite <- Lbody. apply slice_at. rewrite !app_length. lia. }
    assert (Lfile : length file = (off + (48 + 32 * hc + 16 * count) + length post)%nat).
    { unfold file. rewrite !app_length. rewrite app_length in Lb. rewrite app_length in Lb. rewrite app_length in Lb. lia. }
    unfold rom_section. fold file. rewrite <- Hctr. rewrite S1, S2, Lench. cbn [Nat.eqb negb].
    rewrite eqb_list_refl. cbn [negb].
    replace (ctr <? U32) with true by (symmetry; apply N.ltb_lt; lia). cbn [negb].
    unfold ench at 1. rewrite xblock_invol by apply hdr_export_length.
    rewrite <- (app_nil_r (hdr_export h)). rewrite rom_hdr_export by assumption.
    cbn [h_count h_data h_tag h_addr h].
    replace (nlen file <? N.of_nat count * 16) with false by (symmetry; apply N.ltb_ge; unfold nlen; rewrite Lfile; lia).
    replace (N.of_nat count <? N.of_nat hc) with false by (symmetry; apply N.ltb_ge; lia).
    cbn [orb]. rewrite !Nat2N.id. change (TAG_TAG =? 1) with true. cbn [negb].
    replace (Nat.eqb hc 0) with false by (symmetry; apply Nat.eqb_neq; lia).
    replace (Nat.ltb count hc) with false by (symmetry; apply Nat.ltb_ge; lia). cbn [orb].
    rewrite S3, S4, Lbody, Nat.eqb_refl. cbn [negb].
    unfold table at 1. rewrite rom_groups_ok_built by lia. cbn [negb].
    replace (ctr + N.of_nat (3 + 2 * hc + count) <=? U32) with true by (symmetry; apply N.leb_le; lia). cbn [negb].
    replace (ctr_of_nonce nonce + N.of_nat ((off + 48 + 32 * hc) / 16)) with (ctr + N.of_nat (1 + (hc + 1) * 2)) by lia.
    assert (Hplain : concat (xblocks ek nonce (ctr + N.of_nat (1 + (hc + 1) * 2)) (chunks 16 body)) = cd)
      by (unfold body; apply body_roundtrip; assumption).
    rewrite !Hplain.
    destruct (Hfuel (S (length cd)) ltac:(lia)) as [_ Hrom]. rewrite Hrom.
    rewrite Lb. reflexivity.
Qed.

Definition secs_wf (ss : list section) : Prop := Forall (fun s => forallb wf_cmd (s_cmds s) = true) ss.
Definition spec_of (ss : list section) : list (N * list rcmd) := map (fun s => (s_uid s, map sem (s_cmds s))) ss.

Lemma secs_export_rom mac nonce : forall ss ctr bs,
  secs_wf ss -> secs_export ek mac nonce ctr ss = Ok bs ->
  (length bs mod 16 = 0)%nat /\ (48 * length ss <= length bs)%nat /\
  forall pre post off fuel,
    length pre = off -> (off mod 16 = 0)%nat -> ctr = ctr_of_nonce nonce + N.of_nat (off / 16) ->
    (length ss < fuel)%nat ->
    rom_sections ek fuel mac nonce (pre ++ bs ++ post) off (off + length bs) = Some (spec_of ss).
Proof.
  induction ss as [|s t IH]; intros ctr bs W H.
  - cbn [secs_export] in H. injection H as <-. split; [reflexivity|]. split; [cbn; lia|].
    intros pre post off fuel Hpre Hoff Hctr Hfuel. destruct fuel as [|f]; [lia|].
    cbn [rom_sections length]. rewrite Nat.add_0_r. rewrite Nat.leb_refl, Nat.eqb_refl. reflexivity.
  - inversion W as [|? ? Ws Wt]; subst. cbn [secs_export] in H.
    destruct (sec_export ek mac nonce ctr s) as [b|] eqn:Eb; [|discriminate].
    destruct (secs_export ek mac nonce (ctr + N.of_nat (length b / 16)) t) as [r|] eqn:Er; [|discriminate].
    injection H as <-.
    destruct (sec_export_rom mac nonce ctr s b Ws Eb) as (Hb48 & Hbm & Hbov & _ & Hbrom).
    destruct (IH _ _ Wt Er) as (Hrm & Hrl & Hrrom).
    split; [|split].
    + rewrite app_length. lia.
    + rewrite app_length. cbn [length]. lia.
    + intros pre post off fuel Hpre Hoff Hctr Hfuel. destruct fuel as [|f]; [lia|].
      cbn [rom_sections]. rewrite app_length.
      replace (Nat.leb (off + (length b + length r)) off) with false by (symmetry; apply Nat.leb_gt; lia).
      rewrite <- app_assoc. rewrite (Hbrom pre (r ++ post) off Hpre Hoff Hctr).
      rewrite (app_assoc pre b).
      replace (off + (length b + length r))%nat with ((off + length b) + length r)%nat by lia.
      rewrite (Hrrom (pre ++ b) post (off + length b)%nat f).
      * reflexivity.
      * rewrite app_length. lia.
      * lia.
      * lia.
      * cbn [length] in Hfuel. lia.
Qed.

Lemma secs_raw_size_ok mac nonce : forall ss ctr bs ssz,
  secs_wf ss -> secs_export ek mac nonce ctr ss = Ok bs -> secs_raw_size ss = Ok ssz -> ssz = length bs.
Proof.
  induction ss as [|s t IH]; intros ctr bs ssz W H R.
  - cbn in H, R. injection H as <-. injection R as <-. reflexivity.
  - inversion W as [|? ? Ws Wt]; subst. cbn [secs_export] in H. cbn [secs_raw_size] in R.
    destruct (sec_export ek mac nonce ctr s) as [b|] eqn:Eb; [|discriminate].
    destruct (secs_export ek mac nonce (ctr + N.of_nat (length b / 16)) t) as [r|] eqn:Er; [|discriminate].
    injection H as <-.
    destruct (sec_export_rom mac nonce ctr s b Ws Eb) as (_ & _ & _ & (cd & h & Hcd & _ & _ & Hlb & Hcdm) & _).
    rewrite Hcd in R. destruct (secs_raw_size t) as [rt|] eqn:Ert; [|discriminate]. injection R as <-.
    rewrite (IH _ _ _ Wt Er eq_refl). rewrite app_length, Hlb. f_equal.
    apply align16_mult. unfold sec_size. lia.
Qed.

End KeyedProofs.

(* ------------------------------------------------------------------ ImageHeaderV2 *)
Lemma ihdr_kinds h :
  Forall2 (fun f x => match x with FI _ => fst f = false | FB _ => fst f = true end) imghdr_format (ihdr_flds h).
Proof. destruct h as [? ? ? ? ? ? ? ? ? ? ? ? ? ? [[? ?] ?] [[? ?] ?] ?]. unfold imghdr_format, ihdr_flds, ver_flds. cbn [app ih_pv ih_cv]. repeat constructor. Qed.

Lemma ihdr_pack_length h : length (pack imghdr_format (ihdr_flds h)) = 96%nat.
Proof.
  rewrite pack_length; [reflexivity|].
  destruct h as [? ? ? ? ? ? ? ? ? ? ? ? ? ? [[? ?] ?] [[? ?] ?] ?]. reflexivity.
Qed.

Lemma ihdr_export_inv h hb : ihdr_export h = Ok hb ->
  length (ih_nonce h) = 16%nat /\ length (ih_pad h) = 8%nat /\ pack_fits imghdr_format (ihdr_flds h) = true /\
  hb = pack imghdr_format (ihdr_flds h) /\ length hb = 96%nat.
Proof.
  unfold ihdr_export. destruct (Nat.eqb (length (ih_nonce h)) 16) eqn:E1; [|discriminate].
  destruct (Nat.eqb (length (ih_pad h)) 8) eqn:E2; [|discriminate].
  destruct (pack_fits imghdr_format (ihdr_flds h)) eqn:E3; [|discriminate]. intros H.
  change (Ok (pack imghdr_format (ihdr_flds h)) = Ok hb) in H. injection H as H. subst hb.
  apply Nat.eqb_eq in E1, E2. pose proof (ihdr_pack_length h) as HL. auto.
Qed.

Lemma ihdr_unpack h hb rest : ihdr_export h = Ok hb ->
  unpack imghdr_format (hb ++ rest) =
  [FB (ih_nonce h); FB (firstn 4 (ih_pad h)); FB IMG_SIGNATURE1; FI (ih_major h); FI (ih_minor h); FI (ih_flags h);
   FI (ih_image_blocks h); FI (ih_first_boot_tag_block h); FI (ih_first_boot_section_id h); FI (ih_cert_off h);
   FI (ih_header_blocks h); FI (ih_key_blob_block h); FI (ih_key_blob_block_count h); FI (ih_max_mac h);
   FB IMG_SIGNATURE2; FI (ih_ts h);
   FI (swap16 (fst (fst (ih_pv h)))); FI 0; FI (swap16 (snd (fst (ih_pv h)))); FI 0; FI (swap16 (snd (ih_pv h))); FI 0;
   FI (swap16 (fst (fst (ih_cv h)))); FI 0; FI (swap16 (snd (fst (ih_cv h)))); FI 0; FI (swap16 (snd (ih_cv h))); FI 0;
   FI (ih_build h); FB (skipn 4 (ih_pad h))].
Proof.
  intros H. destruct (ihdr_export_inv h hb H) as (Hn & Hp & Hfit & -> & _).
  rewrite unpack_pack by (apply pack_fits_ok; [|assumption|apply ihdr_kinds];
                          destruct h as [? ? ? ? ? ? ? ? ? ? ? ? ? ? [[? ?] ?] [[? ?] ?] ?]; reflexivity).
  destruct h as [nonce pad x1 x2 x3 x4 x5 x6 x7 x8 x9 x10 x11 x12 [[p0 p1] p2] [[c0 c1] c2] x13].
  cbn [ih_nonce ih_pad ih_pv ih_cv] in *.
  unfold imghdr_format, ihdr_flds, ver_flds.
  cbn [app canons canon snd fst ih_nonce ih_pad ih_major ih_minor ih_flags ih_image_blocks ih_first_boot_tag_block
       ih_first_boot_section_id ih_cert_off ih_header_blocks ih_key_blob_block ih_key_blob_block_count ih_max_mac ih_ts
       ih_pv ih_cv ih_build].
  rewrite (fit_exact 16 nonce Hn), (fit_firstn 4 pad) by lia.
  rewrite (fit_exact 4 (skipn 4 pad)) by (rewrite skipn_length; lia).
  reflexivity.
Qed.

(* ------------------------------------------------------------------ RFC 3394: unwrap (wrap x) = x for an inverse pair *)
Definition blocksK (k : nat) (bs : list (list N)) : Prop := Forall (fun b => length b = k) bs.

Lemma chunks_fuel_blocksK k : (0 < k)%nat -> forall bs fuel,
  blocksK k bs -> (length bs <= fuel)%nat -> chunks_fuel fuel k (concat bs) = bs.
Proof.
  intros Hk. induction bs as [|b t IH]; intros fuel Hb Hf.
  - destruct fuel; reflexivity.
  - inversion Hb as [|? ? Hb1 Hbt]; subst. destruct fuel as [|f]; [simpl in Hf; lia|].
    cbn [concat]. destruct b as [|x b']; [simpl in Hk; lia|].
    change (chunks_fuel (S f) (length (x :: b')) ((x :: b') ++ concat t))
      with (firstn (length (x :: b')) ((x :: b') ++ concat t) :: chunks_fuel f (length (x :: b')) (skipn (length (x :: b')) ((x :: b') ++ concat t))).
    rewrite (firstn_app_exact (x :: b') _ _ eq_refl), (skipn_app_exact (x :: b') _ _ eq_refl).
    rewrite IH; [reflexivity|assumption| simpl in Hf; lia].
Qed.

Lemma concat_blocksK_length k bs : blocksK k bs -> length (concat bs) = (k * length bs)%nat.
Proof.
  induction bs as [|b t IH]; intros H; [cbn; lia|]. inversion H; subst.
  cbn [concat length]. rewrite app_length, IH by assumption. lia.
Qed.

Lemma chunks_blocksK k bs : (0 < k)%nat -> blocksK k bs -> chunks k (concat bs) = bs.
Proof.
  intros Hk H. unfold chunks. apply chunks_fuel_blocksK; [assumption|assumption|].
  rewrite (concat_blocksK_length k) by assumption. nia.
Qed.

Lemma chunks_fuel_blocksK_of k : (0 < k)%nat -> forall fuel (l : list N),
  (length l mod k = 0)%nat -> blocksK k (chunks_fuel fuel k l).
Proof.
  intros Hk. induction fuel as [|f IH]; intros l Hl; [constructor|].
  destruct l as [|x t]; [constructor|]. cbn [chunks_fuel]. constructor.
  - rewrite firstn_length. apply Nat.min_l. apply Nat.mod_divides in Hl; [|lia]. destruct Hl as [c Hc].
    rewrite Hc. destruct c; [cbn [length] in Hc; lia| nia].
  - apply IH. rewrite skipn_length. apply Nat.mod_divides in Hl; [|lia]. destruct Hl as [c Hc]. rewrite Hc.
    destruct c; [cbn [length] in Hc; lia|]. replace (k * S c - k)%nat with (c * k)%nat by nia. apply Nat.mod_mul. lia.
Qed.

Section KW.
Variable E D : list N -> list N.
Hypothesis E_len : forall b, length (E b) = 16%nat.
Hypothesis DE : forall b, length b = 16%nat -> D (E b) = b.

Lemma kw_pass_cons a t r rest :
  kw_pass E a t (r :: rest) =
  let '(a'', rest') := kw_pass E (xor_bytes (firstn 8 (E (a ++ r))) (be_enc 8 t)) (t + 1) rest in
  (a'', skipn 8 (E (a ++ r)) :: rest').
Proof. reflexivity. Qed.

Lemma kw_unpass_cons a t r rest :
  kw_unpass D a t (r :: rest) =
  let '(a', rest') := kw_unpass D (firstn 8 (D (xor_bytes a (be_enc 8 t) ++ r))) (t - 1) rest in
  (a', skipn 8 (D (xor_bytes a (be_enc 8 t) ++ r)) :: rest').
Proof. reflexivity. Qed.

Lemma kw_pass_inv : forall rs a t a2 rs2,
  length a = 8%nat -> blocksK 8 rs -> kw_pass E a t rs = (a2, rs2) ->
  blocksK 8 rs2 /\ length a2 = 8%nat /\ length rs2 = length rs.
Proof.
  induction rs as [|r rest IH]; intros a t a2 rs2 Ha Hb H.
  - cbn in H. injection H as <- <-. split; [constructor|split; [assumption|reflexivity]].
  - inversion Hb as [|? ? Hr Hrest]; subst. rewrite kw_pass_cons in H.
    destruct (kw_pass E (xor_bytes (firstn 8 (E (a ++ r))) (be_enc 8 t)) (t + 1) rest) as [a'' rest'] eqn:Ep.
    injection H as <- <-.
    assert (Ha' : length (xor_bytes (firstn 8 (E (a ++ r))) (be_enc 8 t)) = 8%nat).
    { rewrite xor_bytes_length; rewrite firstn_length, E_len; [reflexivity| now rewrite be_enc_length]. }
    destruct (IH _ _ _ _ Ha' Hrest Ep) as (B & L & Len).
    assert (Hs : length (skipn 8 (E (a ++ r))) = 8%nat) by (rewrite skipn_length, E_len; reflexivity).
    split; [|split].
    + constructor; [exact Hs | assumption].
    + assumption.
    + cbn [length]. now rewrite Len.
Qed.

Lemma kw_unpass_app : forall l1 l2 a t,
  kw_unpass D a t (l1 ++ l2) =
  let '(a1, l1') := kw_unpass D a t l1 in
  let '(a2, l2') := kw_unpass D a1 (t - nlen l1) l2 in (a2, l1' ++ l2').
Proof.
  induction l1 as [|r rest IH]; intros l2 a t.
  - cbn [app kw_unpass nlen length N.of_nat]. rewrite N.sub_0_r. destruct (kw_unpass D a t l2). reflexivity.
  - cbn [app]. rewrite !kw_unpass_cons. rewrite IH.
    destruct (kw_unpass D (firstn 8 (D (xor_bytes a (be_enc 8 t) ++ r))) (t - 1) rest) as [a1 l1'].
    replace (t - nlen (r :: rest)) with (t - 1 - nlen rest) by (unfold nlen; cbn [length]; lia).
    destruct (kw_unpass D a1 (t - 1 - nlen rest) l2) as [a2 l2']. reflexivity.
Qed.

Lemma kw_pass_unpass : forall rs a t a2 rs2,
  length a = 8%nat -> blocksK 8 rs -> kw_pass E a t rs = (a2, rs2) -> 1 <= t ->
  kw_unpass D a2 (t + nlen rs - 1) (rev rs2) = (a, rev rs).
Proof.
  induction rs as [|r rest IH]; intros a t a2 rs2 Ha Hb H Ht.
  - cbn in H. injection H as <- <-. reflexivity.
  - inversion Hb as [|? ? Hr Hrest]; subst. rewrite kw_pass_cons in H.
    set (b := E (a ++ r)) in *.
    set (a' := xor_bytes (firstn 8 b) (be_enc 8 t)) in *.
    destruct (kw_pass E a' (t + 1) rest) as [a'' rest'] eqn:Ep. injection H as <- <-.
    assert (Hb16 : length b = 16%nat) by apply E_len.
    assert (Ha' : length a' = 8%nat).
    { unfold a'. rewrite xor_bytes_length; rewrite firstn_length, Hb16; [reflexivity| now rewrite be_enc_length]. }
    destruct (kw_pass_inv _ _ _ _ _ Ha' Hrest Ep) as (B & L & Len).
    pose proof (IH _ _ _ _ Ha' Hrest Ep ltac:(lia)) as IH1.
    cbn [rev]. rewrite kw_unpass_app.
    replace (t + nlen (r :: rest) - 1) with (t + 1 + nlen rest - 1) by (unfold nlen; cbn [length]; lia).
    rewrite IH1. rewrite kw_unpass_cons. cbn [kw_unpass].
    replace (t + 1 + nlen rest - 1 - nlen (rev rest')) with t by (unfold nlen; rewrite rev_length, Len; lia).
    assert (Hx : xor_bytes a' (be_enc 8 t) = firstn 8 b).
    { unfold a'. apply xor_bytes_involutive. rewrite firstn_length, Hb16, be_enc_length. reflexivity. }
    rewrite Hx, firstn_skipn. unfold b. rewrite DE by (rewrite app_length; lia).
    rewrite (firstn_app_exact a r 8 Ha), (skipn_app_exact a r 8 Ha). reflexivity.
Qed.

Lemma kw_passes_inv : forall j rs a t a2 rs2,
  length a = 8%nat -> blocksK 8 rs -> kw_passes E j a t rs = (a2, rs2) ->
  blocksK 8 rs2 /\ length a2 = 8%nat /\ length rs2 = length rs.
Proof.
  induction j as [|j IH]; intros rs a t a2 rs2 Ha Hb H.
  - cbn in H. injection H as <- <-. auto.
  - cbn [kw_passes] in H. destruct (kw_pass E a t rs) as [a' rs'] eqn:Ep.
    destruct (kw_pass_inv _ _ _ _ _ Ha Hb Ep) as (B & L & Len).
    destruct (IH _ _ _ _ _ L B H) as (B2 & L2 & Len2). split; [assumption|split; [assumption|congruence]].
Qed.

Lemma kw_passes_snoc : forall j rs a t,
  length a = 8%nat -> blocksK 8 rs ->
  kw_passes E (S j) a t rs =
  let '(a1, rs1) := kw_passes E j a t rs in kw_pass E a1 (t + N.of_nat j * nlen rs) rs1.
Proof.
  induction j as [|j IH]; intros rs a t Ha Hb.
  - cbn [kw_passes N.of_nat]. rewrite N.mul_0_l, N.add_0_r. destruct (kw_pass E a t rs). reflexivity.
  - change (kw_passes E (S (S j)) a t rs) with
      (let '(a', rs') := kw_pass E a t rs in kw_passes E (S j) a' (t + nlen rs) rs').
    change (kw_passes E (S j) a t rs) with
      (let '(a', rs') := kw_pass E a t rs in kw_passes E j a' (t + nlen rs) rs').
    destruct (kw_pass E a t rs) as [a' rs'] eqn:Ep.
    destruct (kw_pass_inv _ _ _ _ _ Ha Hb Ep) as (B & L & Len).
    rewrite IH by assumption.
    destruct (kw_passes E j a' (t + nlen rs) rs') as [a1 rs1].
    replace (t + nlen rs + N.of_nat j * nlen rs') with (t + N.of_nat (S j) * nlen rs)
      by (unfold nlen; rewrite Len; lia).
    reflexivity.
Qed.

Lemma kw_passes_unpasses : forall j rs a t a2 rs2,
  length a = 8%nat -> blocksK 8 rs -> 1 <= t -> kw_passes E j a t rs = (a2, rs2) ->
  kw_unpasses D j a2 (t + N.of_nat j * nlen rs - 1) (rev rs2) = (a, rev rs).
Proof.
  induction j as [|j IH]; intros rs a t a2 rs2 Ha Hb Ht H.
  - cbn in H. injection H as <- <-. reflexivity.
  - rewrite kw_passes_snoc in H by assumption.
    destruct (kw_passes E j a t rs) as [a1 rs1] eqn:Ej.
    destruct (kw_passes_inv _ _ _ _ _ _ Ha Hb Ej) as (B1 & L1 & Len1).
    destruct (kw_pass_inv _ _ _ _ _ L1 B1 H) as (B2 & L2 & Len2).
    cbn [kw_unpasses].
    pose proof (kw_pass_unpass _ _ _ _ _ L1 B1 H ltac:(lia)) as HU.
    replace (t + N.of_nat (S j) * nlen rs - 1) with (t + N.of_nat j * nlen rs + nlen rs1 - 1)
      by (unfold nlen; rewrite Len1; lia).
    rewrite HU.
    replace (t + N.of_nat j * nlen rs + nlen rs1 - 1 - nlen (rev rs2)) with (t + N.of_nat j * nlen rs - 1)
      by (unfold nlen; rewrite rev_length, Len2; lia).
    apply IH; assumption.
Qed.

Lemma kw_iv_length : length kw_iv = 8%nat. Proof. reflexivity. Qed.

Lemma kw_wrap_length data :
  (length data mod 8 = 0)%nat -> length (kw_wrap E data) = (8 + length data)%nat.
Proof.
  clear DE.
  intros Hd. unfold kw_wrap.
  assert (Bd : blocksK 8 (chunks 8 data)) by (apply chunks_fuel_blocksK_of; [lia|assumption]).
  destruct (kw_passes E 6 kw_iv 1 (chunks 8 data)) as [a rs] eqn:Ew.
  destruct (kw_passes_inv _ _ _ _ _ _ kw_iv_length Bd Ew) as (B & L & Len).
  rewrite app_length, L, (concat_blocksK_length 8 rs B), Len.
  rewrite <- (concat_blocksK_length 8 _ Bd), chunks_concat by lia. reflexivity.
Qed.

Lemma kw_wrap_unwrap data :
  (length data mod 8 = 0)%nat ->
  length (kw_wrap E data) = (8 + length data)%nat /\ kw_unwrap D (kw_wrap E data) = Some data.
Proof.
  intros Hd. unfold kw_wrap.
  assert (Bd : blocksK 8 (chunks 8 data)) by (apply chunks_fuel_blocksK_of; [lia|assumption]).
  destruct (kw_passes E 6 kw_iv 1 (chunks 8 data)) as [a rs] eqn:Ew.
  destruct (kw_passes_inv _ _ _ _ _ _ kw_iv_length Bd Ew) as (B & L & Len).
  assert (H11 : 1 <= 1) by lia.
  pose proof (kw_passes_unpasses 6 (chunks 8 data) kw_iv 1 a rs kw_iv_length Bd H11 Ew) as HU.
  assert (Ld : length (concat rs) = length data).
  { rewrite (concat_blocksK_length 8 rs B), Len.
    rewrite <- (concat_blocksK_length 8 _ Bd), chunks_concat by lia. reflexivity. }
  split.
  - rewrite app_length, L, Ld. reflexivity.
  - unfold kw_unwrap. rewrite (firstn_app_exact a _ 8 L), (skipn_app_exact a _ 8 L).
    rewrite (chunks_blocksK 8 rs) by (lia || assumption).
    replace (6 * nlen rs) with (1 + N.of_nat 6 * nlen (chunks 8 data) - 1) by (unfold nlen; rewrite Len; lia).
    rewrite HU. rewrite eqb_list_refl, rev_involutive, chunks_concat by lia. reflexivity.
Qed.

End KW.

(* ------------------------------------------------------------------ BootImageV21 and the ROM *)
Lemma testbit15 f : N.testbit f 15 = negb (N.land f 32768 =? 0).
Proof.
  destruct (N.testbit f 15) eqn:E.
  - destruct (N.land f 32768 =? 0) eqn:E2; [|reflexivity]. apply N.eqb_eq in E2.
    assert (H : N.testbit (N.land f 32768) 15 = false) by (rewrite E2; apply N.bits_0).
    rewrite N.land_spec, E in H. discriminate H.
  - destruct (N.land f 32768 =? 0) eqn:E2; [reflexivity|]. apply N.eqb_neq in E2. exfalso. apply E2.
    apply N.bits_inj_0. intros n. rewrite N.land_spec. change 32768 with (2 ^ 15). rewrite N.pow2_bits_eqb.
    destruct (N.eqb_spec 15 n) as [<-|Hn]; [now rewrite E| apply andb_false_r].
Qed.

Lemma bswap_swap16 v : v < 65536 -> bswap (swap16 v) = v.
Proof. intros H. unfold bswap, swap16. lia. Qed.

Lemma slice_app_shift {A} (pre l : list A) a b : length pre = a -> slice (pre ++ l) (a + b) (a + b + 0) = [] .
Proof. intros. unfold slice. replace (a + b + 0 - (a + b))%nat with 0%nat by lia. reflexivity. Qed.

Lemma slice_app_r {A} (pre l : list A) n a b : length pre = n -> slice (pre ++ l) (n + a) (n + b) = slice l a b.
Proof.
  intros H. unfold slice. rewrite skipn_app. rewrite skipn_all2 by lia.
  replace (n + a - length pre)%nat with a by lia. replace (n + b - (n + a))%nat with (b - a)%nat by lia. reflexivity.
Qed.

Definition ver_ok (v : N * N * N) : Prop := fst (fst v) < 65536 /\ snd (fst v) < 65536 /\ snd v < 65536.

Definition wf_sbin (x : sbin) : Prop :=
  secs_wf (x_secs x) /\ length (x_dek x) = 32%nat /\ length (x_mac x) = 32%nat /\
  length (x_sig x) = x_sigsize x /\ ver_ok (x_pv x) /\ ver_ok (x_cv x).

Lemma cb_export_inv cb build il cbb : cb_export cb build il = Ok cbb ->
  length cbb = cb_raw_size cb /\
  exists tl, cbb = pack certhdr_format [FB CERT_SIGNATURE; FI 1; FI 0; FI (N.of_nat CERTHDR_SIZE); FI (cb_flags cb); FI build; FI il;
                                         FI (nlen (cb_certs cb)); FI (N.of_nat (cb_table_len cb))] ++ tl /\
  pack_fits certhdr_format [FB CERT_SIGNATURE; FI 1; FI 0; FI (N.of_nat CERTHDR_SIZE); FI (cb_flags cb); FI build; FI il;
                            FI (nlen (cb_certs cb)); FI (N.of_nat (cb_table_len cb))] = true.
Proof.
  unfold cb_export. set (flds := [FB CERT_SIGNATURE; _; _; _; _; _; _; _; _]).
  destruct (pack_fits certhdr_format flds) eqn:Ef; [|discriminate]. cbn [negb].
  set (d := pad16z _). destruct (Nat.eqb (length d) (cb_raw_size cb)) eqn:El; [|discriminate].
  intros H. injection H as <-. apply Nat.eqb_eq in El. split; [assumption|].
  eexists. split; [|reflexivity]. unfold d, pad16z. rewrite <- !app_assoc. reflexivity.
Qed.

Ltac step_none tac :=
  match goal with
  | |- context [if ?c then None else _] => let Hc := fresh "Hc" in assert (Hc : c = false) by tac; rewrite Hc; clear Hc
  end.

Section CipherProofs.
Variable E D : list N -> list N -> list N.
Hypothesis E_len : forall k b, length (E k b) = 16%nat.
Variable kwdom : list N -> list N -> Prop.
Hypothesis KW : forall k data, kwdom k data -> (length data mod 8 = 0)%nat ->
  length (kw_wrap (E k) data) = (8 + length data)%nat /\ kw_unwrap (D k) (kw_wrap (E k) data) = Some data.

Definition signed_len_of (x : sbin) : nat :=
  (208 + cb_raw_size (x_cb x) + (if has_sha (x_flags x) then 32 else 0))%nat.

Lemma rom21_build_lemma counted x file :
  wf_sbin x -> kwdom (x_kek x) (x_dek x ++ x_mac x) -> (counted = true \/ has_sha (x_flags x) = false) ->
  build21_gen E counted x = Ok file ->
  exists r, rom21 E D (x_sigsize x) (x_kek x) file = Some r /\
     r_secs r = spec_of (x_secs x) /\ r_flags r = x_flags x /\ r_pv r = x_pv x /\ r_cv r = x_cv x /\
     r_build r = x_build x /\ r_ts r = x_ts x /\ r_major r = 2 /\ r_minor r = 1 /\
     r_sig r = x_sig x /\ r_signed_len r = signed_len_of x.
Proof.
  intros (Wsecs & Wdek & Wmac & Wsig & Wpv & Wcv) Hdom Hcnt H. unfold build21_gen in H.
  destruct (x_secs x) as [|s0 st] eqn:Esecs; [discriminate|]. rewrite <- Esecs in *.
  destruct (secs_raw_size (x_secs x)) as [ssz|] eqn:Essz; [|discriminate].
  set (cbraw := cb_raw_size (x_cb x)) in *.
  set (sha := has_sha (x_flags x)) in *.
  set (shasz := if sha then N.to_nat V21_SHA_256_SIZE else 0%nat) in *.
  set (cnt := if counted then shasz else 0%nat) in *.
  set (tagoff := (PRE_SIZE + cbraw + x_sigsize x + cnt)%nat) in *.
  set (rawsz := (tagoff + ssz)%nat) in *.
  set (bsoff := (PRE_SIZE + cbraw + x_sigsize x + shasz)%nat) in *.
  destruct (aligned16 tagoff) eqn:Atag; [|discriminate].
  destruct (aligned16 rawsz) eqn:Araw; [|discriminate].
  destruct (Nat.eqb (length (x_nonce x)) 16) eqn:Enonce; [|discriminate].
  destruct (aligned16 bsoff) eqn:Abs; [|discriminate]. cbn [negb] in H.
  destruct (secs_export (E (x_dek x)) (x_mac x) (x_nonce x) (ctr_of_nonce (x_nonce x) + N.of_nat (bsoff / 16)) (x_secs x))
    as [bs|] eqn:Ebs; [|discriminate].
  set (hdr := mkIhdr _ _ _ _ _ _ _ _ _ _ _ _ _ _ _ _ _) in H.
  destruct (ihdr_export hdr) as [hb|] eqn:Ehb; [|discriminate].
  set (hc0 := match cmds_export (s_cmds s0) with Ok cd => sec_hmac_count (s_hmac s0) (length cd) | Err _ => 0%nat end) in *.
  set (hm := hmac256 (x_mac x) (slice bs 16 (16 + hc0 * 32 + 32))) in *.
  set (kb0 := wrap_keys E (x_kek x) (x_dek x) (x_mac x)) in *.
  set (kb := kb0 ++ zeros (N.to_nat V21_KEY_BLOB_SIZE - length kb0)) in *.
  destruct (cb_export (x_cb x) (x_build x) (N.of_nat (PRE_SIZE + cbraw))) as [cbb|] eqn:Ecb; [|discriminate].
  set (shab := if sha then sha256 bs else []) in *.
  rewrite Wsig, Nat.eqb_refl in H. cbn [negb] in H.
  injection H as <-.
  (* ---- lengths of the pieces *)
  destruct (ihdr_export_inv hdr hb Ehb) as (_ & _ & _ & _ & Lhb).
  assert (Lhm : length hm = 32%nat) by apply hmac256_length.
  assert (Hdm : (length (x_dek x ++ x_mac x) mod 8 = 0)%nat) by (rewrite app_length, Wdek, Wmac; reflexivity).
  destruct (KW (x_kek x) (x_dek x ++ x_mac x) Hdom Hdm) as [Lkb0 Hunwrap].
  fold (wrap_keys E (x_kek x) (x_dek x) (x_mac x)) in Lkb0, Hunwrap. fold kb0 in Lkb0, Hunwrap.
  rewrite app_length, Wdek, Wmac in Lkb0. change (8 + (32 + 32))%nat with 72%nat in Lkb0.
  assert (Lkb : length kb = 80%nat) by (unfold kb; rewrite app_length, zeros_length, Lkb0; reflexivity).
  destruct (cb_export_inv _ _ _ _ Ecb) as (Lcbb & cbtl & Ecbb & Fcb). fold cbraw in Lcbb.
  assert (Hshasz : shasz = if sha then 32%nat else 0%nat) by reflexivity.
  assert (Lshab : length shab = shasz) by (unfold shab, shasz; destruct sha; [apply sha256_length|reflexivity]).
  assert (Htag : tagoff = bsoff).
  { unfold tagoff, bsoff, cnt. destruct Hcnt as [->|Hs]; [reflexivity|]. unfold shasz. fold sha in Hs. rewrite Hs.
    destruct counted; reflexivity. }
  destruct (secs_export_rom (E (x_dek x)) (E_len _) (x_mac x) (x_nonce x) _ _ _ Wsecs Ebs) as (Hbsm & Hbsl & Hrom).
  pose proof (secs_raw_size_ok (E (x_dek x)) (E_len _) (x_mac x) (x_nonce x) _ _ _ _ Wsecs Ebs Essz) as Hssz.
  assert (Hnsec : (1 <= length (x_secs x))%nat) by (rewrite Esecs; cbn [length]; lia).
  change PRE_SIZE with 208%nat in *.
  set (pre1 := hb ++ hm ++ kb ++ cbb ++ shab).
  assert (Lpre1 : length pre1 = (208 + cbraw + shasz)%nat).
  { unfold pre1. rewrite !app_length, Lhb, Lhm, Lkb, Lcbb, Lshab. lia. }
  set (file := pre1 ++ x_sig x ++ bs).
  assert (Lfile : length file = (bsoff + length bs)%nat).
  { unfold file. rewrite !app_length, Lpre1, Wsig. unfold bsoff. lia. }
  apply Nat.eqb_eq in Enonce. unfold aligned16 in Atag, Araw, Abs. apply Nat.eqb_eq in Atag, Araw, Abs.
  (* ---- the ROM *)
  unfold rom21.
  replace (Nat.ltb (length file) 208) with false by (symmetry; apply Nat.ltb_ge; rewrite Lfile; unfold bsoff; lia).
  change rom_imghdr_layout with imghdr_format.
  assert (Hunp : unpack imghdr_format file = _) by (unfold file, pre1; rewrite <- !app_assoc; apply (ihdr_unpack hdr hb _ Ehb)).
  rewrite Hunp. clear Hunp. cbv beta iota.
  step_none reflexivity.
  step_none reflexivity.
  step_none reflexivity.
  assert (Skb : slice file 128 200 = kb0).
  { unfold file, pre1, kb. rewrite <- !app_assoc. rewrite (app_assoc hb hm).
    replace 200%nat with (128 + length kb0)%nat by (rewrite Lkb0; reflexivity). apply slice_at. rewrite app_length. lia. }
  rewrite Skb, Hunwrap. cbv beta iota.
  rewrite (firstn_app_exact (x_dek x) (x_mac x) 32 Wdek), (skipn_app_exact (x_dek x) (x_mac x) 32 Wdek).
  step_none ltac:(rewrite app_length, Wdek, Wmac; reflexivity).
  (* certificate block header *)
  assert (Sk208 : skipn 208 file = cbb ++ shab ++ x_sig x ++ bs).
  { unfold file, pre1. rewrite <- !app_assoc. rewrite (app_assoc hb hm), (app_assoc (hb ++ hm) kb).
    apply skipn_app_exact. rewrite !app_length. lia. }
  rewrite Sk208. change rom_certhdr_layout with certhdr_format.
  set (cflds := [FB CERT_SIGNATURE; FI 1; FI 0; FI (N.of_nat CERTHDR_SIZE); FI (cb_flags (x_cb x)); FI (x_build x);
                 FI (N.of_nat (208 + cbraw)); FI (nlen (cb_certs (x_cb x))); FI (N.of_nat (cb_table_len (x_cb x)))]) in *.
  assert (Hcu : unpack certhdr_format (cbb ++ shab ++ x_sig x ++ bs) = canons certhdr_format cflds).
  { rewrite Ecbb, <- app_assoc. apply unpack_pack. apply pack_fits_ok; [reflexivity|exact Fcb|].
    unfold certhdr_format, cflds. repeat constructor. }
  rewrite Hcu. clear Hcu. unfold cflds, certhdr_format. cbn [canons canon snd]. cbv beta iota.
  step_none reflexivity.
  assert (Hctl : (cb_table_len (x_cb x) <= cbraw)%nat).
  { unfold cbraw, cb_raw_size. pose proof (align16_ge (CERTHDR_SIZE + cb_table_len (x_cb x) + 128)). lia. }
  assert (Hraw : rawsz = length file) by (unfold rawsz; rewrite Htag, Hssz, Lfile; reflexivity).
  assert (Hbs48 : (48 <= length bs)%nat) by lia.
  step_none ltac:(cbn [ih_image_blocks ih_first_boot_tag_block hdr]; unfold nlen; rewrite <- Hraw;
                  apply orb_false_iff; split; [apply orb_false_iff; split|];
                  [apply N.ltb_ge; lia | apply N.ltb_ge; lia | apply N.leb_gt; unfold rawsz; lia]).
  cbv zeta.
  replace ((32 + N.to_nat (N.of_nat (cb_table_len (x_cb x))) + 128 + 15) / 16 * 16)%nat with cbraw
    by (rewrite Nat2N.id; reflexivity).
  cbn [ih_flags ih_image_blocks ih_first_boot_tag_block ih_nonce hdr].
  rewrite (testbit15 (x_flags x)). change (negb (N.land (x_flags x) 32768 =? 0)) with sha.
  change (if sha then 32%nat else 0%nat) with shasz.
  replace (N.to_nat (N.of_nat (tagoff / 16)) * 16)%nat with bsoff by (rewrite Nat2N.id, <- Htag; lia).
  replace (N.to_nat (N.of_nat (rawsz / 16)) * 16)%nat with (length file) by (rewrite Nat2N.id, <- Hraw; lia).
  assert (Ssig : slice file (208 + cbraw + shasz) (208 + cbraw + shasz + x_sigsize x) = x_sig x).
  { unfold file. rewrite <- Wsig. apply slice_at. exact Lpre1. }
  rewrite Ssig.
  step_none ltac:(rewrite Wsig, Nat.eqb_refl; reflexivity).
  step_none ltac:(apply negb_false_iff; rewrite !andb_true_iff; repeat split;
                  [apply Nat.leb_le; unfold bsoff; lia | apply Nat.ltb_lt; rewrite Lfile; lia | apply Nat.leb_le; lia]).
  rewrite firstn_all.
  assert (Sbs : skipn bsoff file = bs).
  { unfold file. rewrite app_assoc. apply skipn_app_exact. rewrite app_length, Lpre1, Wsig. unfold bsoff. lia. }
  rewrite Sbs.
  assert (Hshack : sha && negb (eqb_list (slice file (208 + cbraw) (208 + cbraw + 32)) (sha256 bs)) = false).
  { destruct sha eqn:Esha; [|reflexivity]. cbn [andb]. apply negb_false_iff.
    assert (S : slice file (208 + cbraw) (208 + cbraw + 32) = sha256 bs).
    { unfold file, pre1. rewrite <- !app_assoc.
      rewrite (app_assoc hb hm), (app_assoc (hb ++ hm) kb), (app_assoc ((hb ++ hm) ++ kb) cbb).
      unfold shab. replace (208 + cbraw + 32)%nat with (208 + cbraw + length (sha256 bs))%nat by (rewrite sha256_length; reflexivity).
      apply slice_at. rewrite !app_length. lia. }
    rewrite S. apply eqb_list_refl. }
  rewrite Hshack. clear Hshack.
  (* first section: header, image header MAC *)
  pose proof Ebs as Ebs0. rewrite Esecs in Ebs0. cbn [secs_export] in Ebs0.
  destruct (sec_export (E (x_dek x)) (x_mac x) (x_nonce x) (ctr_of_nonce (x_nonce x) + N.of_nat (bsoff / 16)) s0)
    as [b0|] eqn:Eb0; [|discriminate].
  destruct (secs_export (E (x_dek x)) (x_mac x) (x_nonce x) _ st) as [r0|] eqn:Er0; [|discriminate].
  injection Ebs0 as Ebs0.
  assert (Ws0 : forallb wf_cmd (s_cmds s0) = true) by (rewrite Esecs in Wsecs; now inversion Wsecs).
  destruct (sec_export_rom (E (x_dek x)) (E_len _) _ _ _ _ _ Ws0 Eb0)
    as (Hb48 & Hb0m & _ & (cd0 & h0 & Hcd0 & Hh0 & Hh0d & Lb0 & _) & _).
  assert (Hhc0 : hc0 = sec_hmac_count (s_hmac s0) (length cd0)) by (unfold hc0; rewrite Hcd0; reflexivity).
  assert (S16 : slice file bsoff (bsoff + 16) = firstn 16 b0).
  { unfold file. rewrite <- Ebs0.
    replace (pre1 ++ x_sig x ++ b0 ++ r0) with ((pre1 ++ x_sig x) ++ firstn 16 b0 ++ (skipn 16 b0 ++ r0))
      by (rewrite <- !app_assoc; do 2 f_equal; rewrite app_assoc, firstn_skipn; reflexivity).
    replace (bsoff + 16)%nat with (bsoff + length (firstn 16 b0))%nat by (rewrite firstn_length; lia).
    apply slice_at. rewrite app_length, Lpre1, Wsig. unfold bsoff. lia. }
  rewrite S16, Hh0. cbv beta iota.
  unfold sec_size in Lb0.
  step_none ltac:(apply N.ltb_ge; unfold nlen; rewrite Hh0d, Lfile, <- Ebs0, app_length; lia).
  rewrite Hh0d, Nat2N.id, <- Hhc0.
  assert (Shm : slice file 96 128 = hm).
  { unfold file, pre1. rewrite <- !app_assoc. replace 128%nat with (96 + length hm)%nat by (rewrite Lhm; reflexivity). apply slice_at. exact Lhb. }
  assert (Stab : slice file (bsoff + 16) (bsoff + 48 + 32 * hc0) = slice bs 16 (16 + hc0 * 32 + 32)).
  { unfold file. rewrite app_assoc. replace (bsoff + 48 + 32 * hc0)%nat with (bsoff + (16 + hc0 * 32 + 32))%nat by lia.
    apply slice_app_r. rewrite app_length, Lpre1, Wsig. unfold bsoff. lia. }
  rewrite Shm, Stab. fold hm. rewrite eqb_list_refl. cbn [negb].
  (* all sections *)
  assert (Hwalk : rom_sections (E (x_dek x)) (S (length file)) (x_mac x) (x_nonce x) file bsoff (length file)
                  = Some (spec_of (x_secs x))).
  { rewrite Lfile.
    replace file with ((pre1 ++ x_sig x) ++ bs ++ []) by (unfold file; rewrite app_nil_r, app_assoc; reflexivity).
    apply Hrom; [rewrite app_length, Lpre1, Wsig; unfold bsoff; lia | exact Abs | reflexivity | lia]. }
  rewrite Hwalk.
  eexists. split; [reflexivity|]. cbn [r_secs r_flags r_pv r_cv r_build r_ts r_major r_minor r_sig r_signed_len ih_major ih_minor
                                     ih_pv ih_cv ih_build ih_ts hdr].
  destruct Wpv as (P1 & P2 & P3). destruct Wcv as (C1 & C2 & C3).
  destruct (x_pv x) as [[p0 p1] p2]. destruct (x_cv x) as [[c0 c1] c2]. cbn [fst snd] in *.
  rewrite !bswap_swap16 by assumption. repeat split. 
Qed.

End CipherProofs.

(* ------------------------------------------------------------------ ImageHeaderV2.parse (export h) = h *)
Definition bcd3 (v : N * N * N) : bool := bcd_ok (fst (fst v)) && bcd_ok (snd (fst v)) && bcd_ok (snd v).

Lemma swap16_invol v : v < 65536 -> swap16 (swap16 v) = v.
Proof. intros H. unfold swap16. lia. Qed.

Lemma bcd_ok_lt v : bcd_ok v = true -> v < 65536.
Proof. unfold bcd_ok. rewrite !andb_true_iff. intros ((((H & _) & _) & _) & _). apply N.leb_le in H. lia. Qed.

Lemma ihdr_parse_export h hb rest :
  ihdr_export h = Ok hb -> bcd3 (ih_pv h) = true -> bcd3 (ih_cv h) = true -> ihdr_parse (hb ++ rest) = Ok h.
Proof.
  intros He Hp Hc. destruct (ihdr_export_inv h hb He) as (Hn & Hpad & _ & _ & Lhb).
  unfold ihdr_parse.
  replace (Nat.ltb (length (hb ++ rest)) IHDR_SIZE) with false
    by (symmetry; apply Nat.ltb_ge; rewrite app_length, Lhb; change IHDR_SIZE with 96%nat; lia).
  rewrite (ihdr_unpack h hb rest He). cbv beta iota.
  rewrite !eqb_list_refl. cbn [negb].
  unfold bcd3 in Hp, Hc. apply andb_true_iff in Hp as [Hp P3]. apply andb_true_iff in Hp as [P1 P2].
  apply andb_true_iff in Hc as [Hc C3]. apply andb_true_iff in Hc as [C1 C2].
  rewrite !swap16_invol by (apply bcd_ok_lt; assumption).
  rewrite P1, P2, P3, C1, C2, C3. cbn [andb negb]. rewrite firstn_skipn.
  destruct h as [nonce pad x1 x2 x3 x4 x5 x6 x7 x8 x9 x10 x11 x12 [[p0 p1] p2] [[c0 c1] c2] x13]. reflexivity.
Qed.

(* ------------------------------------------------------------------ coverage: who authenticates which byte *)
(* a run of n sections, each = encrypted header (16) ++ HMAC(header) ++ [HMAC(g) | g in groups] ++ concat groups *)
Inductive covered (mac : list N) : list N -> nat -> Prop :=
| cov_nil : covered mac [] 0
| cov_sec ench gs rest n :
    length ench = 16%nat -> gs <> [] -> covered mac rest n ->
    covered mac (ench ++ hmac256 mac ench ++ concat (map (hmac256 mac) gs) ++ concat gs ++ rest) (S n).

Section Shape.
Variable ek : list N -> list N.
Hypothesis ek_len : forall b, length (ek b) = 16%nat.

Lemma sec_export_shape mac nonce ctr s b :
  forallb wf_cmd (s_cmds s) = true -> sec_export ek mac nonce ctr s = Ok b ->
  exists hplain cd gs,
    cmds_export (s_cmds s) = Ok cd /\ length hplain = 16%nat /\ gs <> [] /\
    length gs = sec_hmac_count (s_hmac s) (length cd) /\
    concat gs = concat (xblocks ek nonce (ctr + N.of_nat (3 + 2 * length gs)) (chunks 16 cd)) /\
    b = xblock ek nonce ctr hplain ++ hmac256 mac (xblock ek nonce ctr hplain) ++ concat (map (hmac256 mac) gs) ++ concat gs.
Proof.
  intros W H. unfold sec_export in H.
  destruct (cmds_stream _ W) as (cd & os & Hcd & Hcdm & Hcdl & Hos & Hfuel).
  destruct (s_cmds s) as [|c0 ct] eqn:Ecs; [discriminate|]. rewrite <- Ecs in *. rewrite Hcd in H.
  assert (Hcd16 : (16 <= length cd)%nat) by (rewrite Ecs in Hcdl; cbn [length] in Hcdl; lia).
  rewrite (pad16z_mult cd Hcdm) in H.
  set (hc := sec_hmac_count (s_hmac s) (length cd)) in *.
  destruct (sec_hmac_count_bounds (s_hmac s) (length cd) Hcd16 Hcdm) as [Hhc1 Hhc2]. fold hc in Hhc1, Hhc2.
  set (count := (length cd / 16)%nat) in *.
  set (h := mkHdr TAG_TAG (N.lor SECT_BOOTABLE SECT_LAST_SECT) (s_uid s) (N.of_nat count) (N.of_nat hc)) in *.
  destruct (hdr_fits h) eqn:Hf; [|discriminate]. cbn [negb] in H.
  destruct (U32 <? ctr + N.of_nat (3 + 2 * hc + count)) eqn:Hov; [discriminate|].
  set (body := concat (xblocks ek nonce (ctr + N.of_nat (1 + (hc + 1) * 2)) (chunks 16 cd))) in *.
  injection H as <-.
  exists (hdr_export h), cd, (hmac_groups hc (count / hc * 16) body).
  split; [exact Hcd|]. split; [apply hdr_export_length|]. split.
  { intros Hnil. apply (f_equal (@length _)) in Hnil. rewrite hmac_groups_length in Hnil. cbn in Hnil. lia. }
  split; [apply hmac_groups_length|]. split.
  - rewrite hmac_groups_concat by lia. rewrite hmac_groups_length. unfold body.
    replace (1 + (hc + 1) * 2)%nat with (3 + 2 * hc)%nat by lia. reflexivity.
  - rewrite hmac_groups_concat by lia. reflexivity.
Qed.

Lemma secs_export_covered mac nonce : forall ss ctr bs,
  secs_wf ss -> secs_export ek mac nonce ctr ss = Ok bs -> covered mac bs (length ss).
Proof.
  induction ss as [|s t IH]; intros ctr bs W H.
  - cbn in H. injection H as <-. constructor.
  - inversion W as [|? ? Ws Wt]; subst. cbn [secs_export] in H.
    destruct (sec_export ek mac nonce ctr s) as [b|] eqn:Eb; [|discriminate].
    destruct (secs_export ek mac nonce (ctr + N.of_nat (length b / 16)) t) as [r|] eqn:Er; [|discriminate].
    injection H as <-.
    destruct (sec_export_shape mac nonce ctr s b Ws Eb) as (hp & cd & gs & _ & Lhp & Hgs & _ & _ & ->).
    rewrite <- !app_assoc. cbn [length]. constructor.
    + apply xblock_length; assumption.
    + exact Hgs.
    + eapply IH; eassumption.
Qed.

(* the n-th block of a CTR-encrypted run uses the starting counter plus n *)
Lemma xblocks_nth nonce : forall bs c j d,
  (j < length bs)%nat -> nth j (xblocks ek nonce c bs) d = xblock ek nonce (c + N.of_nat j) (nth j bs d).
Proof.
  induction bs as [|b t IH]; intros c j d Hj; [cbn in Hj; lia|].
  destruct j as [|j].
  - cbn [nth xblocks N.of_nat]. now rewrite N.add_0_r.
  - cbn [nth xblocks]. rewrite IH by (cbn [length] in Hj; lia). f_equal. lia.
Qed.

End Shape.

Section CipherProofs2.
Variable E D : list N -> list N -> list N.
Hypothesis E_len : forall k b, length (E k b) = 16%nat.
Variable kwdom : list N -> list N -> Prop.
Hypothesis KW : forall k data, kwdom k data -> (length data mod 8 = 0)%nat ->
  length (kw_wrap (E k) data) = (8 + length data)%nat /\ kw_unwrap (D k) (kw_wrap (E k) data) = Some data.

(* the shape of every file the builder returns *)
Lemma build21_inv counted x file :
  wf_sbin x -> kwdom (x_kek x) (x_dek x ++ x_mac x) -> build21_gen E counted x = Ok file ->
  exists hb hm kb cbb bs k,
    let shab := if has_sha (x_flags x) then sha256 bs else [] in
    let signed := hb ++ hm ++ kb ++ cbb ++ shab in
    file = signed ++ x_sig x ++ bs /\
    length hb = 96%nat /\ length hm = 32%nat /\ length kb = 80%nat /\ length cbb = cb_raw_size (x_cb x) /\
    length signed = signed_len_of x /\
    ((length signed + x_sigsize x) mod 16 = 0)%nat /\
    secs_export (E (x_dek x)) (x_mac x) (x_nonce x)
                (ctr_of_nonce (x_nonce x) + N.of_nat ((length signed + x_sigsize x) / 16)) (x_secs x) = Ok bs /\
    kw_unwrap (D (x_kek x)) (firstn 72 kb) = Some (x_dek x ++ x_mac x) /\
    hm = hmac256 (x_mac x) (slice bs 16 (48 + 32 * k)) /\
    (exists ib fbtb fbsid mm,
       ihdr_export (mkIhdr (x_nonce x) (x_pad x) 2 1 (x_flags x) ib fbtb fbsid 208 6 8 5 mm (x_ts x) (x_pv x) (x_cv x) (x_build x)) = Ok hb /\
       (counted = true \/ has_sha (x_flags x) = false -> ib = N.of_nat (length file / 16) /\ (length file mod 16 = 0)%nat)) /\
    cb_export (x_cb x) (x_build x) (N.of_nat (208 + cb_raw_size (x_cb x))) = Ok cbb.
Proof.
  intros (Wsecs & Wdek & Wmac & Wsig & Wpv & Wcv) Hdom H. unfold build21_gen in H.
  destruct (x_secs x) as [|s0 st] eqn:Esecs; [discriminate|]. rewrite <- Esecs in *.
  destruct (secs_raw_size (x_secs x)) as [ssz|] eqn:Essz; [|discriminate].
  set (cbraw := cb_raw_size (x_cb x)) in *.
  set (sha := has_sha (x_flags x)) in *.
  set (shasz := if sha then N.to_nat V21_SHA_256_SIZE else 0%nat) in *.
  set (cnt := if counted then shasz else 0%nat) in *.
  set (tagoff := (PRE_SIZE + cbraw + x_sigsize x + cnt)%nat) in *.
  set (rawsz := (tagoff + ssz)%nat) in *.
  set (bsoff := (PRE_SIZE + cbraw + x_sigsize x + shasz)%nat) in *.
  destruct (aligned16 tagoff) eqn:Atag; [|discriminate].
  destruct (aligned16 rawsz) eqn:Araw; [|discriminate].
  destruct (Nat.eqb (length (x_nonce x)) 16) eqn:Enonce; [|discriminate].
  destruct (aligned16 bsoff) eqn:Abs; [|discriminate]. cbn [negb] in H.
  destruct (secs_export (E (x_dek x)) (x_mac x) (x_nonce x) (ctr_of_nonce (x_nonce x) + N.of_nat (bsoff / 16)) (x_secs x))
    as [bs|] eqn:Ebs; [|discriminate].
  set (hdr := mkIhdr _ _ _ _ _ _ _ _ _ _ _ _ _ _ _ _ _) in H.
  destruct (ihdr_export hdr) as [hb|] eqn:Ehb; [|discriminate].
  set (hc0 := match cmds_export (s_cmds s0) with Ok cd => sec_hmac_count (s_hmac s0) (length cd) | Err _ => 0%nat end) in *.
  set (hm := hmac256 (x_mac x) (slice bs 16 (16 + hc0 * 32 + 32))) in *.
  set (kb0 := wrap_keys E (x_kek x) (x_dek x) (x_mac x)) in *.
  set (kb := kb0 ++ zeros (N.to_nat V21_KEY_BLOB_SIZE - length kb0)) in *.
  destruct (cb_export (x_cb x) (x_build x) (N.of_nat (PRE_SIZE + cbraw))) as [cbb|] eqn:Ecb; [|discriminate].
  rewrite Wsig, Nat.eqb_refl in H. cbn [negb] in H.
  injection H as <-.
  destruct (ihdr_export_inv hdr hb Ehb) as (_ & _ & _ & _ & Lhb).
  assert (Lhm : length hm = 32%nat) by apply hmac256_length.
  assert (Hdm : (length (x_dek x ++ x_mac x) mod 8 = 0)%nat) by (rewrite app_length, Wdek, Wmac; reflexivity).
  destruct (KW (x_kek x) (x_dek x ++ x_mac x) Hdom Hdm) as [Lkb0 Hunwrap].
  fold (wrap_keys E (x_kek x) (x_dek x) (x_mac x)) in Lkb0, Hunwrap. fold kb0 in Lkb0, Hunwrap.
  rewrite app_length, Wdek, Wmac in Lkb0. change (8 + (32 + 32))%nat with 72%nat in Lkb0.
  assert (Lkb : length kb = 80%nat) by (unfold kb; rewrite app_length, zeros_length, Lkb0; reflexivity).
  destruct (cb_export_inv _ _ _ _ Ecb) as (Lcbb & _). fold cbraw in Lcbb.
  assert (Lshab : length (if sha then sha256 bs else []) = shasz)
    by (unfold shasz; destruct sha; [apply sha256_length|reflexivity]).
  change PRE_SIZE with 208%nat in *.
  assert (Lsigned : length (hb ++ hm ++ kb ++ cbb ++ (if sha then sha256 bs else [])) = (208 + cbraw + shasz)%nat)
    by (rewrite !app_length, Lhb, Lhm, Lkb, Lcbb, Lshab; lia).
  exists hb, hm, kb, cbb, bs, hc0. cbv zeta. fold sha.
  split; [reflexivity|]. split; [exact Lhb|]. split; [exact Lhm|]. split; [exact Lkb|]. split; [exact Lcbb|].
  split; [rewrite Lsigned; unfold signed_len_of; fold sha cbraw; reflexivity|].
  rewrite Lsigned.
  replace (208 + cbraw + shasz + x_sigsize x)%nat with bsoff by (unfold bsoff; lia).
  split; [unfold aligned16 in Abs; now apply Nat.eqb_eq in Abs|]. split; [exact Ebs|]. split.
  - unfold kb. rewrite (firstn_app_exact kb0 _ 72 Lkb0). exact Hunwrap.
  - split; [unfold hm; f_equal; f_equal; lia|]. split; [|exact Ecb].
    eexists _, _, _, _. split; [exact Ehb|]. intros Hcnt.
    assert (Htag : tagoff = bsoff).
    { unfold tagoff, bsoff, cnt. destruct Hcnt as [->|Hs]; [reflexivity|]. unfold shasz. rewrite Hs.
      destruct counted; reflexivity. }
    pose proof (secs_raw_size_ok (E (x_dek x)) (E_len _) (x_mac x) (x_nonce x) _ _ _ _ Wsecs Ebs Essz) as Hssz.
    assert (Lfile : length ((hb ++ hm ++ kb ++ cbb ++ (if sha then sha256 bs else [])) ++ x_sig x ++ bs) = rawsz).
    { rewrite !app_length. rewrite !app_length in Lsigned. unfold rawsz. rewrite Htag, Hssz. unfold bsoff. lia. }
    rewrite Lfile. unfold aligned16 in Araw. apply Nat.eqb_eq in Araw. split; [reflexivity|exact Araw].
Qed.

End CipherProofs2.

Section CipherProofs3.
Variable E D : list N -> list N -> list N.
Hypothesis E_len : forall k b, length (E k b) = 16%nat.
Variable kwdom : list N -> list N -> Prop.
Hypothesis KW : forall k data, kwdom k data -> (length data mod 8 = 0)%nat ->
  length (kw_wrap (E k) data) = (8 + length data)%nat /\ kw_unwrap (D k) (kw_wrap (E k) data) = Some data.

Lemma counter_agreement_lemma counted x file :
  wf_sbin x -> kwdom (x_kek x) (x_dek x ++ x_mac x) -> build21_gen E counted x = Ok file ->
  exists pre bs, file = pre ++ bs /\ (length pre mod 16 = 0)%nat /\
    secs_export (E (x_dek x)) (x_mac x) (x_nonce x) (ctr_of_nonce (x_nonce x) + N.of_nat (length pre / 16)) (x_secs x) = Ok bs /\
    rom_sections (E (x_dek x)) (S (length file)) (x_mac x) (x_nonce x) file (length pre) (length file) = Some (spec_of (x_secs x)).
Proof.
  intros W Hdom H. destruct (build21_inv E D E_len kwdom KW counted x file W Hdom H) as (hb & hm & kb & cbb & bs & k & Hinv).
  cbv zeta in Hinv. destruct Hinv as (Hfile & _ & _ & _ & _ & _ & Hal & Hexp & _).
  destruct W as (Wsecs & _ & _ & Wsig & _).
  set (signed := hb ++ hm ++ kb ++ cbb ++ (if has_sha (x_flags x) then sha256 bs else [])) in *.
  exists (signed ++ x_sig x), bs.
  assert (Lpre : length (signed ++ x_sig x) = (length signed + x_sigsize x)%nat) by (rewrite app_length, Wsig; reflexivity).
  split; [rewrite Hfile, <- app_assoc; reflexivity|]. rewrite Lpre. split; [exact Hal|]. split; [exact Hexp|].
  destruct (secs_export_rom (E (x_dek x)) (E_len _) (x_mac x) (x_nonce x) _ _ _ Wsecs Hexp) as (_ & Hl & Hrom).
  assert (Lfile : length file = (length signed + x_sigsize x + length bs)%nat)
    by (rewrite Hfile, !app_length, Wsig; lia).
  rewrite Lfile.
  replace file with ((signed ++ x_sig x) ++ bs ++ []) by (rewrite Hfile, app_nil_r, app_assoc; reflexivity).
  apply Hrom; [exact Lpre | exact Hal | reflexivity | lia].
Qed.

Lemma coverage21_lemma counted x file :
  wf_sbin x -> kwdom (x_kek x) (x_dek x ++ x_mac x) -> build21_gen E counted x = Ok file ->
  exists hb hm kb cbb bs k,
    let signed := hb ++ hm ++ kb ++ cbb ++ (if has_sha (x_flags x) then sha256 bs else []) in
    file = signed ++ x_sig x ++ bs /\
    length hb = 96%nat /\ length hm = 32%nat /\ length kb = 80%nat /\ length cbb = cb_raw_size (x_cb x) /\
    length signed = signed_len_of x /\ length (x_sig x) = x_sigsize x /\
    kw_unwrap (D (x_kek x)) (firstn 72 kb) = Some (x_dek x ++ x_mac x) /\
    hm = hmac256 (x_mac x) (slice bs 16 (48 + 32 * k)) /\
    covered (x_mac x) bs (length (x_secs x)).
Proof.
  intros W Hdom H. destruct (build21_inv E D E_len kwdom KW counted x file W Hdom H) as (hb & hm & kb & cbb & bs & k & Hinv).
  cbv zeta in Hinv. destruct Hinv as (Hfile & L1 & L2 & L3 & L4 & L5 & _ & Hexp & Hkw & Hhm & _).
  destruct W as (Wsecs & _ & _ & Wsig & _).
  exists hb, hm, kb, cbb, bs, k. cbv zeta.
  split; [exact Hfile|]. split; [exact L1|]. split; [exact L2|]. split; [exact L3|]. split; [exact L4|].
  split; [exact L5|]. split; [exact Wsig|]. split; [exact Hkw|]. split; [exact Hhm|].
  eapply secs_export_covered; [apply E_len | exact Wsecs | exact Hexp].
Qed.

End CipherProofs3.

(* ------------------------------------------------------------------ BootSectionV2.parse / BootImageV21.parse on built files *)
Lemma check_groups_SS mac n' per rem d t :
  check_groups mac (S (S n')) per rem d t =
  eqb_list (hmac256 mac (firstn per d)) (firstn 32 t) && check_groups mac (S n') per (rem - per) (skipn per d) (skipn 32 t).
Proof. reflexivity. Qed.

Lemma check_groups_built mac per : forall n body rest,
  (0 < n)%nat -> ((n - 1) * per <= length body)%nat ->
  check_groups mac n per (length body) (body ++ rest) (concat (map (hmac256 mac) (hmac_groups n per body))) = true.
Proof.
  induction n as [|n IH]; intros body rest Hn Hlen; [lia|].
  destruct n as [|n'].
  - cbn [hmac_groups map concat check_groups Nat.eqb]. rewrite app_nil_r.
    rewrite (firstn_app_exact body rest _ eq_refl).
    rewrite firstn_all2 by (rewrite hmac256_length; lia). rewrite eqb_list_refl. reflexivity.
  - change (hmac_groups (S (S n')) per body) with (firstn per body :: hmac_groups (S n') per (skipn per body)).
    cbn [map concat].
    rewrite check_groups_SS.
    assert (Hper : (per <= length body)%nat) by nia.
    rewrite firstn_app. replace (per - length body)%nat with 0%nat by lia. change (firstn 0 rest) with (@nil N). rewrite app_nil_r.
    rewrite (firstn_app_exact _ _ 32 (hmac256_length _ _)), (skipn_app_exact _ _ 32 (hmac256_length _ _)).
    rewrite eqb_list_refl. cbn [andb].
    rewrite skipn_app. replace (per - length body)%nat with 0%nat by lia. change (skipn 0 rest) with rest.
    replace (length body - per)%nat with (length (skipn per body)) by (rewrite skipn_length; reflexivity).
    apply IH; [lia|]. rewrite skipn_length. nia.
Qed.

Section ParseProofs.
Variable ek : list N -> list N.
Hypothesis ek_len : forall b, length (ek b) = 16%nat.

Lemma sec_export_parse mac nonce ctr s b :
  forallb wf_cmd (s_cmds s) = true -> sec_export ek mac nonce ctr s = Ok b ->
  exists os cd, cmds_export (s_cmds s) = Ok cd /\ Forall2 (fun c o => cmd_obs c = Ok o) (s_cmds s) os /\
  forall pre post off, length pre = off ->
    sec_parse ek mac nonce ctr (pre ++ b ++ post) off =
    Ok (s_uid s, N.of_nat (sec_hmac_count (s_hmac s) (length cd)), os, length b).
Proof.
  intros W H. unfold sec_export in H.
  destruct (cmds_stream _ W) as (cd & os & Hcd & Hcdm & Hcdl & Hos & Hfuel).
  destruct (s_cmds s) as [|c0 ct] eqn:Ecs; [discriminate|]. rewrite <- Ecs in *. rewrite Hcd in H.
  assert (Hcd16 : (16 <= length cd)%nat) by (rewrite Ecs in Hcdl; cbn [length] in Hcdl; lia).
  rewrite (pad16z_mult cd Hcdm) in H.
  set (count := (length cd / 16)%nat) in *.
  set (hc := sec_hmac_count (s_hmac s) (length cd)) in *.
  destruct (sec_hmac_count_bounds (s_hmac s) (length cd) Hcd16 Hcdm) as [Hhc1 Hhc2]. fold hc count in Hhc1, Hhc2.
  set (h := mkHdr TAG_TAG (N.lor SECT_BOOTABLE SECT_LAST_SECT) (s_uid s) (N.of_nat count) (N.of_nat hc)) in *.
  destruct (hdr_fits h) eqn:Hf; [|discriminate]. cbn [negb] in H.
  destruct (U32 <? ctr + N.of_nat (3 + 2 * hc + count)) eqn:Hov; [discriminate|]. apply N.ltb_ge in Hov.
  set (ench := xblock ek nonce ctr (hdr_export h)) in *.
  set (body := concat (xblocks ek nonce (ctr + N.of_nat (1 + (hc + 1) * 2)) (chunks 16 cd))) in *.
  set (table := concat (map (hmac256 mac) (hmac_groups hc (count / hc * 16) body))) in *.
  injection H as <-.
  exists os, cd. split; [exact Hcd|]. split; [exact Hos|].
  assert (Lench : length ench = 16%nat) by (apply xblock_length; [assumption|apply hdr_export_length]).
  assert (Lhm : length (hmac256 mac ench) = 32%nat) by apply hmac256_length.
  assert (Ltab : length table = (32 * hc)%nat) by (unfold table; rewrite table_length, hmac_groups_length; reflexivity).
  assert (Lbody : length body = (16 * count)%nat).
  { unfold body. rewrite (body_length ek ek_len) by assumption. unfold count. lia. }
  assert (Lb : length (ench ++ hmac256 mac ench ++ table ++ body) = (48 + 32 * hc + 16 * count)%nat).
  { rewrite !app_length, Lench, Lhm, Ltab, Lbody. lia. }
  intros pre post off Hpre.
  set (file := pre ++ (ench ++ hmac256 mac ench ++ table ++ body) ++ post).
  assert (S1 : slice file off (off + 16) = ench).
  { unfold file. rewrite <- !app_assoc. rewrite <- Lench. now apply slice_at. }
  assert (S2 : slice file (off + 16) (off + 48) = hmac256 mac ench).
  { unfold file. rewrite <- !app_assoc. rewrite (app_assoc pre ench).
    replace (off + 48)%nat with ((off + 16) + length (hmac256 mac ench))%nat by lia.
    apply slice_at. rewrite app_length. lia. }
  assert (S3 : slice file (off + 48) (off + 48 + 32 * hc) = table).
  { unfold file. rewrite <- !app_assoc. rewrite (app_assoc pre ench), (app_assoc (pre ++ ench)).
    rewrite <- Ltab. apply slice_at. rewrite !app_length. lia. }
  assert (S4 : slice file (off + 48 + 32 * hc) (off + 48 + 32 * hc + count * 16) = body).
  { unfold file. rewrite <- !app_assoc.
    rewrite (app_assoc pre ench), (app_assoc (pre ++ ench)), (app_assoc ((pre ++ ench) ++ _)).
    replace (count * 16)%nat with (length body) by lia. apply slice_at. rewrite !app_length. lia. }
  assert (S5 : skipn (off + 48 + 32 * hc) file = body ++ post).
  { unfold file. rewrite <- !app_assoc.
    rewrite (app_assoc pre ench), (app_assoc (pre ++ ench)), (app_assoc ((pre ++ ench) ++ _)).
    apply skipn_app_exact. rewrite !app_length. lia. }
  assert (Lfile : length file = (off + (48 + 32 * hc + 16 * count) + length post)%nat).
  { unfold file. rewrite !app_length. rewrite !app_length in Lb. lia. }
  unfold sec_parse. fold file. rewrite S1, S2, eqb_list_refl. cbn [negb].
  replace (U32 <=? ctr) with false by (symmetry; apply N.leb_gt; lia).
  unfold ench at 1. rewrite (xblock_invol ek ek_len) by apply hdr_export_length.
  rewrite <- (app_nil_r (hdr_export h)). rewrite hdr_parse_export by assumption.
  cbn [h_count h_data h_tag h_addr h].
  replace (nlen file <? N.of_nat hc) with false by (symmetry; apply N.ltb_ge; unfold nlen; rewrite Lfile; lia).
  replace (nlen file <? N.of_nat count) with false by (symmetry; apply N.ltb_ge; unfold nlen; rewrite Lfile; lia).
  cbn [orb]. rewrite !Nat2N.id.
  replace (Nat.eqb hc 0) with false by (symmetry; apply Nat.eqb_neq; lia).
  rewrite S3, S4, S5.
  replace (count * 16)%nat with (length body) by lia.
  unfold table at 1. rewrite check_groups_built by (try lia; rewrite Lbody; nia). cbn [negb].
  rewrite Lbody.
  replace (negb (Nat.eqb (16 * count) 0) && (U32 <? ctr + 1 + (N.of_nat hc + 1) * 2 + N.of_nat ((16 * count + 15) / 16)))
    with false by (symmetry; apply andb_false_iff; right; apply N.ltb_ge; lia).
  replace (ctr + 1 + (N.of_nat hc + 1) * 2) with (ctr + N.of_nat (1 + (hc + 1) * 2)) by lia.
  assert (Hplain : concat (xblocks ek nonce (ctr + N.of_nat (1 + (hc + 1) * 2)) (chunks 16 body)) = cd)
    by (unfold body; apply (body_roundtrip ek ek_len); assumption).
  rewrite !Hplain.
  destruct (Hfuel (S (length cd)) ltac:(lia)) as [Hp _]. rewrite Hp.
  rewrite Lb. reflexivity.
Qed.

Definition sec_obs_rel (s : section) (so : N * N * list pcmd) : Prop :=
  exists cd os, cmds_export (s_cmds s) = Ok cd /\ Forall2 (fun c o => cmd_obs c = Ok o) (s_cmds s) os /\
                so = (s_uid s, N.of_nat (sec_hmac_count (s_hmac s) (length cd)), os).

Lemma secs_export_parse mac nonce : forall ss ctr bs,
  secs_wf ss -> secs_export ek mac nonce ctr ss = Ok bs ->
  exists oss, Forall2 sec_obs_rel ss oss /\
  forall pre post off fuel, length pre = off -> (length ss < fuel)%nat ->
    secs_parse fuel ek mac nonce ctr (pre ++ bs ++ post) off (off + length bs) = Ok oss.
Proof.
  induction ss as [|s t IH]; intros ctr bs W H.
  - cbn [secs_export] in H. injection H as <-. exists []. split; [constructor|].
    intros pre post off fuel Hpre Hfuel. destruct fuel as [|f]; [lia|].
    cbn [secs_parse length]. rewrite Nat.add_0_r, Nat.leb_refl. reflexivity.
  - inversion W as [|? ? Ws Wt]; subst. cbn [secs_export] in H.
    destruct (sec_export ek mac nonce ctr s) as [b|] eqn:Eb; [|discriminate].
    destruct (secs_export ek mac nonce (ctr + N.of_nat (length b / 16)) t) as [r|] eqn:Er; [|discriminate].
    injection H as <-.
    destruct (sec_export_rom ek ek_len mac nonce ctr s b Ws Eb) as (Hb48 & _).
    destruct (sec_export_parse mac nonce ctr s b Ws Eb) as (os & cd & Hcd & Hos & Hparse).
    destruct (IH _ _ Wt Er) as (oss & Hrel & Hrest).
    exists ((s_uid s, N.of_nat (sec_hmac_count (s_hmac s) (length cd)), os) :: oss). split.
    + constructor; [exists cd, os; auto | exact Hrel].
    + intros pre post off fuel Hpre Hfuel. destruct fuel as [|f]; [lia|].
      cbn [secs_parse]. rewrite app_length.
      replace (Nat.leb (off + (length b + length r)) off) with false by (symmetry; apply Nat.leb_gt; lia).
      rewrite <- app_assoc. rewrite (Hparse pre (r ++ post) off Hpre).
      rewrite (app_assoc pre b).
      replace (off + (length b + length r))%nat with ((off + length b) + length r)%nat by lia.
      rewrite (Hrest (pre ++ b) post (off + length b)%nat f); [reflexivity| rewrite app_length; lia | cbn [length] in Hfuel; lia].
Qed.

End ParseProofs.

Section ParseImage.
Variable E D : list N -> list N -> list N.
Hypothesis E_len : forall k b, length (E k b) = 16%nat.
Variable kwdom : list N -> list N -> Prop.
Hypothesis KW : forall k data, kwdom k data -> (length data mod 8 = 0)%nat ->
  length (kw_wrap (E k) data) = (8 + length data)%nat /\ kw_unwrap (D k) (kw_wrap (E k) data) = Some data.

Lemma spsdk_parse21_build_lemma x file :
  wf_sbin x -> kwdom (x_kek x) (x_dek x ++ x_mac x) ->
  bcd3 (x_pv x) = true -> bcd3 (x_cv x) = true -> aes_key_ok (x_kek x) = true ->
  build21_gen E true x = Ok file ->
  exists oss, Forall2 sec_obs_rel (x_secs x) oss /\
    parse21 E D true (x_sigsize x) (x_kek x) file =
    Ok (mkParsed (x_flags x) (x_pv x) (x_cv x) (x_build x) (x_ts x / 1000000 * 1000000) (x_nonce x) (x_dek x) (x_mac x)
                 oss (signed_len_of x) (x_sigsize x)).
Proof.
  intros W Hdom Hpv Hcv Hkek H.
  destruct (build21_inv E D E_len kwdom KW true x file W Hdom H) as (hb & hm & kb & cbb & bs & k & Hinv).
  cbv zeta in Hinv.
  destruct Hinv as (Hfile & Lhb & Lhm & Lkb & Lcbb & Lsigned & Hal & Hexp & Hkw & _ & (ib & fbtb & fbsid & mm & Ehb & Hib) & Ecb).
  destruct (Hib (or_introl eq_refl)) as [Hib1 Hfm]. clear Hib.
  destruct W as (Wsecs & Wdek & Wmac & Wsig & _ & _).
  set (sha := has_sha (x_flags x)) in *.
  set (cbraw := cb_raw_size (x_cb x)) in *.
  set (shab := if sha then sha256 bs else []) in *.
  set (signed := hb ++ hm ++ kb ++ cbb ++ shab) in *.
  set (shasz := if sha then 32%nat else 0%nat).
  assert (Lshab : length shab = shasz) by (unfold shab, shasz; destruct sha; [apply sha256_length|reflexivity]).
  unfold signed_len_of in *. fold sha cbraw shasz in Lsigned |- *.
  rewrite Lsigned in Hexp, Hal.
  set (index2 := (208 + cbraw + shasz + x_sigsize x)%nat) in *.
  destruct (secs_export_parse (E (x_dek x)) (E_len _) _ _ _ _ _ Wsecs Hexp) as (oss & Hrel & Hparse).
  exists oss. split; [exact Hrel|].
  assert (Lpre : length (signed ++ x_sig x) = index2) by (rewrite app_length, Lsigned, Wsig; reflexivity).
  assert (Lfile : length file = (index2 + length bs)%nat) by (rewrite Hfile, app_assoc, app_length, Lpre; reflexivity).
  assert (Hnsec : (length (x_secs x) <= length bs)%nat).
  { destruct (secs_export_rom (E (x_dek x)) (E_len _) _ _ _ _ _ Wsecs Hexp) as (_ & Hl & _). lia. }
  unfold parse21. destruct (x_kek x) as [|k0 kt] eqn:Ekek; [discriminate Hkek|]. rewrite <- Ekek in *.
  change (IHDR_SIZE + 32)%nat with 128%nat. change PRE_SIZE with 208%nat. change IHDR_SIZE with 96%nat.
  assert (Skb : slice file 128 208 = kb).
  { rewrite Hfile. unfold signed. rewrite <- !app_assoc. rewrite (app_assoc hb hm).
    replace 208%nat with (128 + length kb)%nat by (rewrite Lkb; reflexivity). apply slice_at. rewrite app_length. lia. }
  rewrite Skb, Lkb. change (80 - 8)%nat with 72%nat.
  unfold py_unwrap. rewrite Hkek. cbn [negb].
  assert (L72 : length (firstn 72 kb) = 72%nat) by (rewrite firstn_length, Lkb; reflexivity).
  rewrite L72. change (Nat.ltb 72 24 || negb (Nat.eqb (72 mod 8) 0)) with false. cbv iota.
  rewrite Hkw. rewrite (firstn_app_exact _ _ 32 Wdek), (skipn_app_exact _ _ 32 Wdek).
  assert (Shb : slice file 0 96 = hb).
  { rewrite Hfile. unfold signed. rewrite <- !app_assoc. replace 96%nat with (0 + length hb)%nat by (rewrite Lhb; reflexivity).
    apply (slice_at [] hb). reflexivity. }
  rewrite Shb. rewrite <- (app_nil_r hb). rewrite (ihdr_parse_export _ hb [] Ehb Hpv Hcv).
  cbn [ih_cert_off ih_flags ih_nonce ih_pv ih_cv ih_build ih_ts ih_image_blocks]. change (208 =? N.of_nat 208) with true. cbn [negb].
  (* certificate block size *)
  assert (Sk208 : skipn 208 file = cbb ++ shab ++ x_sig x ++ bs).
  { rewrite Hfile. unfold signed. rewrite <- !app_assoc. rewrite (app_assoc hb hm), (app_assoc (hb ++ hm) kb).
    apply skipn_app_exact. rewrite !app_length. lia. }
  rewrite Sk208.
  destruct (cb_export_inv _ _ _ _ Ecb) as (_ & cbtl & Ecbb & Fcb).
  set (cflds := [FB CERT_SIGNATURE; FI 1; FI 0; FI (N.of_nat CERTHDR_SIZE); FI (cb_flags (x_cb x)); FI (x_build x);
                 FI (N.of_nat (208 + cbraw)); FI (nlen (cb_certs (x_cb x))); FI (N.of_nat (cb_table_len (x_cb x)))]) in *.
  assert (Hcbsz : cb_parse_size (cbb ++ shab ++ x_sig x ++ bs) = Ok cbraw).
  { unfold cb_parse_size.
    assert (Lc : (32 <= length cbb)%nat).
    { rewrite Lcbb. unfold cbraw, cb_raw_size. pose proof (align16_ge (CERTHDR_SIZE + cb_table_len (x_cb x) + 128)).
      change CERTHDR_SIZE with 32%nat in *. lia. }
    replace (Nat.ltb (length (cbb ++ shab ++ x_sig x ++ bs)) CERTHDR_SIZE) with false
      by (symmetry; apply Nat.ltb_ge; rewrite app_length; change CERTHDR_SIZE with 32%nat; lia).
    assert (Hcu : unpack certhdr_format (cbb ++ shab ++ x_sig x ++ bs) = canons certhdr_format cflds).
    { rewrite Ecbb, <- app_assoc. apply unpack_pack. apply pack_fits_ok; [reflexivity|exact Fcb|].
      unfold certhdr_format, cflds. repeat constructor. }
    rewrite Hcu. unfold cflds, certhdr_format. cbn [canons canon snd]. cbv beta iota.
    change (eqb_list (fit 4 CERT_SIGNATURE) CERT_SIGNATURE) with true. cbn [negb].
    rewrite N.eqb_refl. cbn [negb].
    assert (Hctl : (cb_table_len (x_cb x) + 128 <= cbraw)%nat).
    { unfold cbraw, cb_raw_size. pose proof (align16_ge (CERTHDR_SIZE + cb_table_len (x_cb x) + 128)). lia. }
    replace (nlen (cbb ++ shab ++ x_sig x ++ bs) <? N.of_nat (cb_table_len (x_cb x)) + 128) with false
      by (symmetry; apply N.ltb_ge; unfold nlen; rewrite app_length, Lcbb; lia).
    rewrite Nat2N.id. reflexivity. }
  rewrite Hcbsz. fold sha.
  replace (if sha then (208 + cbraw + 32)%nat else (208 + cbraw)%nat) with (208 + cbraw + shasz)%nat
    by (unfold shasz; destruct sha; lia).
  fold index2. unfold aligned16. rewrite Hal. cbn [Nat.eqb negb].
  (* all sections, up to image_blocks * 16 = the end of the file *)
  replace (N.to_nat (N.min (ib * 16) (nlen file + 1))) with (index2 + length bs)%nat
    by (rewrite Hib1; unfold nlen; rewrite Lfile in *; lia).
  assert (Hfile2 : file = (signed ++ x_sig x) ++ bs ++ []) by (rewrite Hfile, app_nil_r, <- app_assoc; reflexivity).
  rewrite Hfile2 at 2. rewrite (Hparse (signed ++ x_sig x) [] index2 (S (length file)) Lpre) by (rewrite Lfile; lia).
  (* SHA-256 over all section bytes *)
  assert (Hshack : sha && negb (eqb_list (slice file (208 + cbraw) (208 + cbraw + 32)) (sha256 (skipn index2 file))) = false).
  { destruct sha eqn:Esha; [|reflexivity]. cbn [andb]. apply negb_false_iff.
    assert (Sb : skipn index2 file = bs).
    { rewrite Hfile, app_assoc. apply skipn_app_exact. exact Lpre. }
    assert (S : slice file (208 + cbraw) (208 + cbraw + 32) = sha256 bs).
    { rewrite Hfile. unfold signed. rewrite <- !app_assoc.
      rewrite (app_assoc hb hm), (app_assoc (hb ++ hm) kb), (app_assoc ((hb ++ hm) ++ kb) cbb).
      unfold shab. replace (208 + cbraw + 32)%nat with (208 + cbraw + length (sha256 bs))%nat by (rewrite sha256_length; reflexivity).
      apply slice_at. rewrite !app_length. lia. }
    rewrite S, Sb. apply eqb_list_refl. }
  rewrite Hshack. reflexivity.
Qed.

End ParseImage.

(* ------------------------------------------------------------------ what acceptance by BootImageV21.parse implies *)
Lemma sec_parse_ok_hmac ek mac nonce ctr data off r :
  sec_parse ek mac nonce ctr data off = Ok r ->
  eqb_list (slice data (off + 16) (off + 48)) (hmac256 mac (slice data off (off + 16))) = true.
Proof.
  unfold sec_parse. destruct (eqb_list _ _); [reflexivity|]. cbn [negb]. discriminate.
Qed.

Lemma secs_parse_ok_hmac fuel ek mac nonce ctr data idx stop r :
  secs_parse fuel ek mac nonce ctr data idx stop = Ok r ->
  r = [] \/ eqb_list (slice data (idx + 16) (idx + 48)) (hmac256 mac (slice data idx (idx + 16))) = true.
Proof.
  destruct fuel as [|f]; [discriminate|]. cbn [secs_parse].
  destruct (Nat.leb stop idx); [intros H; injection H as <-; now left|].
  destruct (sec_parse ek mac nonce ctr data idx) as [[[[uid hcnt] ps] sz]|] eqn:E; [|discriminate].
  intros _. right. eapply sec_parse_ok_hmac. exact E.
Qed.

Lemma parse21_accept_lemma (E D : list N -> list N -> list N) sig_ok sigsize kek data p :
  parse21 E D sig_ok sigsize kek data = Ok p ->
  sig_ok = true /\
  (exists keys, kw_unwrap (D kek) (firstn (length (slice data 128 208) - 8) (slice data 128 208)) = Some keys /\
                p_dek p = firstn 32 keys /\ p_mac p = skipn 32 keys) /\
  (let i := (p_signed_len p + p_sig_len p)%nat in
   p_secs p = [] \/ eqb_list (slice data (i + 16) (i + 48)) (hmac256 (p_mac p) (slice data i (i + 16))) = true).
Proof.
  unfold parse21. destruct kek as [|k0 kt]; [discriminate|].
  change (IHDR_SIZE + 32)%nat with 128%nat. change PRE_SIZE with 208%nat.
  set (kb := slice data 128 208).
  destruct (py_unwrap D (k0 :: kt) (firstn (length kb - 8) kb)) as [un|] eqn:Eun; [|discriminate].
  destruct (ihdr_parse _) as [h|]; [|discriminate].
  destruct (negb (ih_cert_off h =? N.of_nat 208)); [discriminate|].
  destruct (cb_parse_size _) as [cbraw|]; [|discriminate].
  destruct sig_ok; [|discriminate]. cbn [negb].
  set (sigidx := if has_sha (ih_flags h) then (208 + cbraw + 32)%nat else (208 + cbraw)%nat).
  destruct (aligned16 (sigidx + sigsize)); [|discriminate]. cbn [negb].
  destruct (secs_parse _ _ _ _ _ _ _ _) as [secs|] eqn:Esec; [|discriminate].
  destruct (has_sha (ih_flags h) && _); [discriminate|].
  intros Hp. injection Hp as <-. cbn [p_dek p_mac p_signed_len p_sig_len p_secs].
  split; [reflexivity|]. split.
  - unfold py_unwrap in Eun. destruct (negb (aes_key_ok (k0 :: kt))); [discriminate|].
    destruct (_ || _); [discriminate|]. destruct (kw_unwrap _ _) as [keys|]; [|discriminate].
    injection Eun as <-. exists keys. auto.
  - cbv zeta. eapply secs_parse_ok_hmac. exact Esec.
Qed.

(* ------------------------------------------------------------------ the counter of every single block *)
Lemma counter_per_block_lemma (ek : list N -> list N) (ek_len : forall b, length (ek b) = 16%nat) mac nonce ctr s b :
  forallb wf_cmd (s_cmds s) = true -> sec_export ek mac nonce ctr s = Ok b ->
  exists hplain cd gs,
    cmds_export (s_cmds s) = Ok cd /\ length hplain = 16%nat /\
    b = xblock ek nonce ctr hplain ++ hmac256 mac (xblock ek nonce ctr hplain) ++ concat (map (hmac256 mac) gs) ++ concat gs /\
    length (concat gs) = length cd /\
    forall j, (j < length cd / 16)%nat ->
      nth j (chunks 16 (concat gs)) [] = xblock ek nonce (ctr + N.of_nat (3 + 2 * length gs + j)) (nth j (chunks 16 cd) []).
Proof.
  intros W H. destruct (sec_export_shape ek ek_len mac nonce ctr s b W H) as (hp & cd & gs & Hcd & Lhp & _ & _ & Hgs & Hb).
  destruct (cmds_stream _ W) as (cd' & os & Hcd' & Hcdm & _). rewrite Hcd in Hcd'. injection Hcd' as <-.
  exists hp, cd, gs. split; [exact Hcd|]. split; [exact Lhp|]. split; [exact Hb|]. split.
  - rewrite Hgs. now apply (body_length ek ek_len).
  - intros j Hj. rewrite Hgs. rewrite chunks_blocks by (apply (xblocks_blocks16 ek ek_len), chunks_blocks16, Hcdm).
    rewrite (xblocks_nth ek ek_len nonce) by (rewrite chunks_count by assumption; exact Hj).
    f_equal. lia.
Qed.

(* ------------------------------------------------------------------ concrete instances (non-vacuity, the old builder) *)
Definition demo_secs : list section :=
  [mkSec 5 2 [CErase 0 256 0 0; CLoad 4096 0 [97; 98; 99] (zeros 13)];
   mkSec 9 1 [CReset; CJump 32 3 (Some 48)]].
Definition demo (flags : N) (secs : list section) : sbin :=
  mkSbin (map N.of_nat (seq 0 32)) (repeat 160 32) (repeat 11 32) (map N.of_nat (seq 0 16)) (zeros 8)
         633315200000000 (1, 2, 3) (4, 5, 6) 7 flags secs
         (mkCb 0 [[48; 130; 1; 2]] (zeros 128)) 16 (repeat 170 16).

Lemma demo_wf flags : wf_sbin (demo flags demo_secs).
Proof.
  unfold wf_sbin, demo, demo_secs, secs_wf, ver_ok. cbn [x_secs x_dek x_mac x_sig x_sigsize x_pv x_cv fst snd].
  repeat split; try reflexivity; repeat constructor.
Qed.

(* kernel-evaluated instances with the concrete AES: a two-section file, with and without the SHA bit, is accepted by
   the ROM and parsed back completely by the parser model *)
Example demo_rom_accepts :
  forall flags, flags = 8 \/ flags = 32776 ->
  exists file r p, build21 (demo flags demo_secs) = Ok file /\
                   rom21_aes 16 (x_kek (demo flags demo_secs)) file = Some r /\
                   r_secs r = spec_of demo_secs /\ r_pv r = (1, 2, 3) /\ r_cv r = (4, 5, 6) /\ r_flags r = flags /\
                   spsdk_parse21 true 16 (x_kek (demo flags demo_secs)) file = Ok p /\
                   length (p_secs p) = 2%nat /\ p_flags p = flags.
Proof.
  intros flags [->| ->]; (eexists; eexists; eexists; split; [vm_compute; reflexivity|]; split; [vm_compute; reflexivity|];
  split; [vm_compute; reflexivity|]; split; [vm_compute; reflexivity|]; split; [vm_compute; reflexivity|];
  split; [vm_compute; reflexivity|]; split; [vm_compute; reflexivity|]; vm_compute; split; reflexivity).
Qed.

(* the builder before the repair of C04-F2 (image_blocks / first_boot_tag_block without the SHA-256 digest): the ROM
   rejects its SHA-flagged file and accepts the file of the current builder for the same input *)
Lemma rom21_old_builder_sha_refuted_lemma :
  exists x file, wf_sbin x /\ has_sha (x_flags x) = true /\ build21_old x = Ok file /\
                 rom21_aes (x_sigsize x) (x_kek x) file = None /\
                 (exists file' r, build21 x = Ok file' /\ rom21_aes (x_sigsize x) (x_kek x) file' = Some r /\
                                  r_secs r = spec_of (x_secs x)).
Proof.
  exists (demo 32776 demo_secs). eexists. split; [apply demo_wf|]. split; [reflexivity|].
  split; [vm_compute; reflexivity|]. split; [vm_compute; reflexivity|].
  eexists. eexists. split; [vm_compute; reflexivity|]. split; [vm_compute; reflexivity|]. vm_compute. reflexivity.
Qed.

Lemma KW_of_DE (E D : list N -> list N -> list N) :
  (forall k b, length (E k b) = 16%nat) -> (forall k b, length b = 16%nat -> D k (E k b) = b) ->
  forall k data, True -> (length data mod 8 = 0)%nat ->
  length (kw_wrap (E k) data) = (8 + length data)%nat /\ kw_unwrap (D k) (kw_wrap (E k) data) = Some data.
Proof. intros HE HD k data _ Hm. exact (kw_wrap_unwrap (E k) (D k) (HE k) (HD k) data Hm). Qed.

(* ================================================================== statements of the property theorems (Props/C04) *)

Lemma cmd_roundtrip_thm :
  forall c, wf_cmd c = true ->
  exists b o, cmd_export c = Ok b /\ cmd_obs c = Ok o /\ (16 <= length b)%nat /\ (length b mod 16 = 0)%nat /\
              pcmd_size o = length b /\ forall rest, cmd_parse (b ++ rest) = Ok o.
Proof.
  intros c W. destruct (cmd_ok c W) as (b & o & H1 & H2 & H3 & H4 & H5 & H6). exists b, o.
  split; [assumption|]. split; [assumption|]. split; [assumption|]. split; [assumption|]. split; [assumption|].
  intros rest. apply H6.
Qed.

Lemma rom_cmd_decodes_thm :
  forall c, wf_cmd c = true ->
  exists b, cmd_export c = Ok b /\ forall rest, rom_cmd (b ++ rest) = Some (sem c, length b).
Proof.
  intros c W. destruct (cmd_ok c W) as (b & o & H1 & _ & _ & _ & _ & H6). exists b. split; [assumption|]. intros rest. apply H6.
Qed.

Lemma cmd_stream_roundtrip_thm :
  forall cs, forallb wf_cmd cs = true ->
  exists bs os, cmds_export cs = Ok bs /\ (length bs mod 16 = 0)%nat /\
                Forall2 (fun c o => cmd_obs c = Ok o) cs os /\
                cmds_parse (S (length bs)) bs = Ok os /\ rom_cmds (S (length bs)) bs = Some (map sem cs).
Proof.
  intros cs W. destruct (cmds_stream cs W) as (bs & os & H1 & H2 & H3 & H4 & H5). exists bs, os.
  assert (F : (length cs < S (length bs))%nat) by lia.
  destruct (H5 _ F). repeat split; assumption.
Qed.

Lemma header_roundtrip_thm :
  forall h hb rest, ihdr_export h = Ok hb -> bcd3 (ih_pv h) = true -> bcd3 (ih_cv h) = true ->
  length hb = 96%nat /\ ihdr_parse (hb ++ rest) = Ok h.
Proof.
  intros h hb rest He Hp Hc. split; [apply (ihdr_export_inv h hb He) | now apply ihdr_parse_export].
Qed.

Lemma layouts_agree_thm :
  rom_cmdhdr_layout = cmdhdr_format /\ rom_imghdr_layout = imghdr_format /\ rom_certhdr_layout = certhdr_format.
Proof.
  exact layouts_agree_lemma.
Qed.

Lemma hmac_groups_cover_thm :
  forall mac n per body, (0 < n)%nat ->
  concat (hmac_groups n per body) = body /\ length (hmac_groups n per body) = n /\
  rom_groups_ok mac n per body (concat (map (hmac256 mac) (hmac_groups n per body))) = true.
Proof.
  intros mac n per body Hn. split; [now apply hmac_groups_concat|]. split; [apply hmac_groups_length| now apply rom_groups_ok_built].
Qed.

Lemma keyblob_unwraps_thm :
  forall (E D : list N -> list N),
  (forall b, length (E b) = 16%nat) -> (forall b, length b = 16%nat -> D (E b) = b) ->
  forall data, (length data mod 8 = 0)%nat ->
  length (kw_wrap E data) = (8 + length data)%nat /\ kw_unwrap D (kw_wrap E data) = Some data.
Proof.
  exact kw_wrap_unwrap.
Qed.

Lemma rom_section_decodes_thm :
  forall (ek : list N -> list N), (forall b, length (ek b) = 16%nat) ->
  forall mac nonce ctr s b,
  forallb wf_cmd (s_cmds s) = true -> sec_export ek mac nonce ctr s = Ok b ->
  (48 <= length b)%nat /\ (length b mod 16 = 0)%nat /\
  forall pre post off,
    length pre = off -> (off mod 16 = 0)%nat -> ctr = ctr_of_nonce nonce + N.of_nat (off / 16) ->
    rom_section ek mac nonce (pre ++ b ++ post) off = Some (s_uid s, map sem (s_cmds s), length b).
Proof.
  intros ek Hek mac nonce ctr s b W H. destruct (sec_export_rom ek Hek mac nonce ctr s b W H) as (H1 & H2 & _ & _ & H5). auto.
Qed.

Lemma rom21_build_thm :
  forall (E D : list N -> list N -> list N),
  (forall k b, length (E k b) = 16%nat) -> (forall k b, length b = 16%nat -> D k (E k b) = b) ->
  forall x file, wf_sbin x -> build21_gen E true x = Ok file ->
  exists r, rom21 E D (x_sigsize x) (x_kek x) file = Some r /\
     r_secs r = spec_of (x_secs x) /\ r_flags r = x_flags x /\ r_pv r = x_pv x /\ r_cv r = x_cv x /\
     r_build r = x_build x /\ r_ts r = x_ts x /\ r_major r = 2 /\ r_minor r = 1 /\
     r_sig r = x_sig x /\ r_signed_len r = signed_len_of x.
Proof.
  intros E D HE HD x file W H.
  apply (rom21_build_lemma E D HE (fun _ _ => True) (KW_of_DE E D HE HD) true x file W I (or_introl eq_refl) H).
Qed.

Lemma rom21_old_builder_sha_refuted_thm :
  exists x file, wf_sbin x /\ has_sha (x_flags x) = true /\ build21_old x = Ok file /\
                 rom21_aes (x_sigsize x) (x_kek x) file = None /\
                 (exists file' r, build21 x = Ok file' /\ rom21_aes (x_sigsize x) (x_kek x) file' = Some r /\
                                  r_secs r = spec_of (x_secs x)).
Proof.
  exact rom21_old_builder_sha_refuted_lemma.
Qed.

Lemma sections_all_thm :
  forall (E D : list N -> list N -> list N),
  (forall k b, length (E k b) = 16%nat) -> (forall k b, length b = 16%nat -> D k (E k b) = b) ->
  forall x file, wf_sbin x -> build21_gen E true x = Ok file ->
  exists r, rom21 E D (x_sigsize x) (x_kek x) file = Some r /\
            length (r_secs r) = length (x_secs x) /\ map fst (r_secs r) = map s_uid (x_secs x).
Proof.
  intros E D HE HD x file W H.
  destruct (rom21_build_lemma E D HE (fun _ _ => True) (KW_of_DE E D HE HD) true x file W I (or_introl eq_refl) H) as (r & Hr & Hs & _).
  exists r. split; [exact Hr|]. rewrite Hs. unfold spec_of. rewrite map_length, map_map. split; reflexivity.
Qed.

Lemma counter_agreement_thm :
  forall (E D : list N -> list N -> list N),
  (forall k b, length (E k b) = 16%nat) -> (forall k b, length b = 16%nat -> D k (E k b) = b) ->
  forall x file, wf_sbin x -> build21_gen E true x = Ok file ->
  exists pre bs, file = pre ++ bs /\ (length pre mod 16 = 0)%nat /\
    secs_export (E (x_dek x)) (x_mac x) (x_nonce x) (ctr_of_nonce (x_nonce x) + N.of_nat (length pre / 16)) (x_secs x) = Ok bs /\
    rom_sections (E (x_dek x)) (S (length file)) (x_mac x) (x_nonce x) file (length pre) (length file) = Some (spec_of (x_secs x)).
Proof.
  intros E D HE HD x file W H.
  exact (counter_agreement_lemma E D HE (fun _ _ => True) (KW_of_DE E D HE HD) true x file W I H).
Qed.

Lemma coverage21_thm :
  forall (E D : list N -> list N -> list N),
  (forall k b, length (E k b) = 16%nat) -> (forall k b, length b = 16%nat -> D k (E k b) = b) ->
  forall x file, wf_sbin x -> build21_gen E true x = Ok file ->
  exists hb hm kb cbb bs k,
    let signed := hb ++ hm ++ kb ++ cbb ++ (if has_sha (x_flags x) then sha256 bs else []) in
    file = signed ++ x_sig x ++ bs /\
    length hb = 96%nat /\ length hm = 32%nat /\ length kb = 80%nat /\ length cbb = cb_raw_size (x_cb x) /\
    length signed = signed_len_of x /\ length (x_sig x) = x_sigsize x /\
    kw_unwrap (D (x_kek x)) (firstn 72 kb) = Some (x_dek x ++ x_mac x) /\
    hm = hmac256 (x_mac x) (slice bs 16 (48 + 32 * k)) /\
    covered (x_mac x) bs (length (x_secs x)).
Proof.
  intros E D HE HD x file W H.
  exact (coverage21_lemma E D HE (fun _ _ => True) (KW_of_DE E D HE HD) true x file W I H).
Qed.

Lemma spsdk_parse21_build_thm :
  forall (E D : list N -> list N -> list N),
  (forall k b, length (E k b) = 16%nat) -> (forall k b, length b = 16%nat -> D k (E k b) = b) ->
  forall x file, wf_sbin x -> bcd3 (x_pv x) = true -> bcd3 (x_cv x) = true -> aes_key_ok (x_kek x) = true ->
  build21_gen E true x = Ok file ->
  exists oss, Forall2 sec_obs_rel (x_secs x) oss /\
    parse21 E D true (x_sigsize x) (x_kek x) file =
    Ok (mkParsed (x_flags x) (x_pv x) (x_cv x) (x_build x) (x_ts x / 1000000 * 1000000) (x_nonce x) (x_dek x) (x_mac x)
                 oss (signed_len_of x) (x_sigsize x)).
Proof.
  intros E D HE HD x file W Hp Hc Hk H.
  exact (spsdk_parse21_build_lemma E D HE (fun _ _ => True) (KW_of_DE E D HE HD) x file W I Hp Hc Hk H).
Qed.

Lemma parse21_accepts_only_verified_thm :
  forall (E D : list N -> list N -> list N) sig_ok sigsize kek data p,
  parse21 E D sig_ok sigsize kek data = Ok p ->
  sig_ok = true /\
  (exists keys, kw_unwrap (D kek) (firstn (length (slice data 128 208) - 8) (slice data 128 208)) = Some keys /\
                p_dek p = firstn 32 keys /\ p_mac p = skipn 32 keys) /\
  (let i := (p_signed_len p + p_sig_len p)%nat in
   p_secs p = [] \/ eqb_list (slice data (i + 16) (i + 48)) (hmac256 (p_mac p) (slice data i (i + 16))) = true).
Proof.
  exact parse21_accept_lemma.
Qed.

Lemma counter_per_block_thm :
  forall (ek : list N -> list N), (forall b, length (ek b) = 16%nat) ->
  forall mac nonce ctr s b,
  forallb wf_cmd (s_cmds s) = true -> sec_export ek mac nonce ctr s = Ok b ->
  exists hplain cd gs,
    cmds_export (s_cmds s) = Ok cd /\ length hplain = 16%nat /\
    b = xblock ek nonce ctr hplain ++ hmac256 mac (xblock ek nonce ctr hplain) ++ concat (map (hmac256 mac) gs) ++ concat gs /\
    length (concat gs) = length cd /\
    forall j, (j < length cd / 16)%nat ->
      nth j (chunks 16 (concat gs)) [] = xblock ek nonce (ctr + N.of_nat (3 + 2 * length gs + j)) (nth j (chunks 16 cd) []).
Proof.
  exact counter_per_block_lemma.
Qed.
