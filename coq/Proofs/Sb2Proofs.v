(* Proofs/Sb2Proofs.v -- lemmas about Model/Sb2Model.v (C04). *)
From Coq Require Import ZArith NArith List Bool Lia.
Require Import Value Bytes BytesProofs GenSb2 Sha2 Aes Modes Hmac KeyWrap Crc Sb2Model.
Import ListNotations.
Local Open Scope N_scope.

Lemma layouts_agree_lemma :
  rom_cmdhdr_layout = cmdhdr_format /\ rom_imghdr_layout = imghdr_format /\ rom_certhdr_layout = certhdr_format.
Proof. repeat split; reflexivity. Qed.

(* ------------------------------------------------------------------ lists *)
Lemma firstn_app_exact {A} (a b : list A) n : length a = n -> firstn n (a ++ b) = a.
Proof. intros <-. rewrite firstn_app, Nat.sub_diag, firstn_all. simpl. apply app_nil_r. Qed.

Lemma skipn_app_exact {A} (a b : list A) n : length a = n -> skipn n (a ++ b) = b.
Proof. intros <-. rewrite skipn_app, Nat.sub_diag, skipn_all. reflexivity. Qed.

Lemma slice_app_mid {A} (pre x post : list A) a b :
  length pre = a -> (a + length x = b)%nat -> slice (pre ++ x ++ post) a b = x.
Proof.
  intros Ha Hb. unfold slice. rewrite (skipn_app_exact pre _ a Ha).
  apply firstn_app_exact. lia.
Qed.

Lemma zeros_length n : length (zeros n) = n.
Proof. apply repeat_length. Qed.

Lemma fit_length w l : length (fit w l) = w.
Proof. unfold fit. rewrite firstn_length, app_length, zeros_length. lia. Qed.

Lemma fit_exact w l : length l = w -> fit w l = l.
Proof. intros H. unfold fit. now apply firstn_app_exact. Qed.

Lemma fit_firstn w l : (w <= length l)%nat -> fit w l = firstn w l.
Proof.
  intros H. unfold fit. rewrite firstn_app. replace (w - length l)%nat with 0%nat by lia.
  simpl. apply app_nil_r.
Qed.

(* ------------------------------------------------------------------ struct pack / unpack *)
Definition fld_ok (f : bool * nat) (x : fld) : Prop :=
  match x with
  | FI v => fst f = false /\ v < 2 ^ (8 * N.of_nat (snd f))
  | FB b => fst f = true
  end.
Definition canon (f : bool * nat) (x : fld) : fld :=
  match x with FI v => FI v | FB b => FB (fit (snd f) b) end.
Fixpoint canons (fmt : list (bool * nat)) (xs : list fld) : list fld :=
  match fmt, xs with
  | f :: fm, x :: xt => canon f x :: canons fm xt
  | _, _ => []
  end.

Lemma pack1_length f x : length (pack1 f x) = snd f.
Proof. destruct x; simpl; [apply le_enc_length | apply fit_length]. Qed.

Lemma pack_length fmt : forall xs, length fmt = length xs -> length (pack fmt xs) = fmt_size fmt.
Proof.
  induction fmt as [|f fm IH]; intros [|x xt] H; simpl in *; try discriminate; try reflexivity.
  rewrite app_length, pack1_length, IH by lia. reflexivity.
Qed.

Lemma unpack_pack fmt : forall xs rest,
  Forall2 fld_ok fmt xs -> unpack fmt (pack fmt xs ++ rest) = canons fmt xs.
Proof.
  induction fmt as [|[isb w] fm IH]; intros xs rest H; inversion H as [|f x fm' xt Hx Ht]; subst; simpl.
  - reflexivity.
  - rewrite <- app_assoc.
    rewrite (firstn_app_exact (pack1 (isb, w) x) _ w (pack1_length _ _)).
    rewrite (skipn_app_exact (pack1 (isb, w) x) _ w (pack1_length _ _)).
    rewrite IH by assumption. f_equal.
    destruct x as [v|b]; simpl in *.
    + destruct Hx as [-> Hv]. simpl. now rewrite le_dec_enc_small.
    + rewrite Hx. reflexivity.
Qed.

Lemma pack_fits_ok fmt : forall xs,
  length fmt = length xs -> pack_fits fmt xs = true ->
  Forall2 (fun f x => match x with FI _ => fst f = false | FB _ => fst f = true end) fmt xs ->
  Forall2 fld_ok fmt xs.
Proof.
  induction fmt as [|f fm IH]; intros [|x xt] HL HF HK; simpl in *; try discriminate; constructor.
  - inversion HK; subst. apply andb_true_iff in HF as [HF _]. destruct x; simpl in *; [|assumption].
    split; [assumption| now apply N.ltb_lt].
  - inversion HK; subst. apply andb_true_iff in HF as [_ HF]. apply IH; [lia|assumption|assumption].
Qed.

(* ------------------------------------------------------------------ CmdHeader *)
Lemma hdr_flds_kinds crc h :
  Forall2 (fun f x => match x with FI _ => fst f = false | FB _ => fst f = true end) cmdhdr_format (hdr_flds crc h).
Proof. unfold cmdhdr_format, hdr_flds. repeat constructor. Qed.

Lemma hdr_fits_any_crc crc h : crc < 256 -> hdr_fits h = true -> pack_fits cmdhdr_format (hdr_flds crc h) = true.
Proof.
  intros Hc. unfold hdr_fits, hdr_flds, cmdhdr_format. cbn [pack_fits fld_fits snd].
  intros H. apply andb_true_iff in H as [_ H]. apply andb_true_iff. split; [|exact H].
  apply N.ltb_lt. exact Hc.
Qed.

Lemma hdr_crc_lt h : hdr_crc h < 256.
Proof. unfold hdr_crc. apply N.mod_lt. discriminate. Qed.

Lemma hdr_raw_length crc h : length (hdr_raw crc h) = 16%nat.
Proof. unfold hdr_raw. rewrite pack_length; reflexivity. Qed.

Lemma hdr_export_length h : length (hdr_export h) = 16%nat.
Proof. apply hdr_raw_length. Qed.

Lemma hdr_unpack crc h rest :
  crc < 256 -> hdr_fits h = true ->
  unpack cmdhdr_format (hdr_raw crc h ++ rest) =
  [FI crc; FI (h_tag h); FI (h_flags h); FI (h_addr h); FI (h_count h); FI (h_data h)].
Proof.
  intros Hc Hf. unfold hdr_raw. rewrite unpack_pack.
  - reflexivity.
  - apply pack_fits_ok; [reflexivity| now apply hdr_fits_any_crc | apply hdr_flds_kinds].
Qed.

Lemma hdr_parse_export h rest : hdr_fits h = true -> hdr_parse (hdr_export h ++ rest) = Ok h.
Proof.
  intros Hf. unfold hdr_parse.
  assert (HL : Nat.ltb (length (hdr_export h ++ rest)) HDR_SIZE = false).
  { apply Nat.ltb_ge. rewrite app_length, hdr_export_length. change HDR_SIZE with 16%nat. lia. }
  rewrite HL. unfold hdr_export. rewrite hdr_unpack by (try apply hdr_crc_lt; assumption).
  destruct h as [t f a c d]. cbn [h_tag h_flags h_addr h_count h_data]. now rewrite N.eqb_refl.
Qed.

(* the bytes after the checksum byte do not depend on it *)
Lemma hdr_raw_tail crc h : skipn 1 (hdr_raw crc h) = skipn 1 (hdr_raw 0 h).
Proof. unfold hdr_raw, cmdhdr_format, hdr_flds. cbn [pack pack1 snd le_enc]. reflexivity. Qed.

Lemma rom_hdr_export h rest : hdr_fits h = true -> rom_hdr (hdr_export h ++ rest) = Some h.
Proof.
  intros Hf. unfold rom_hdr.
  assert (HL : Nat.ltb (length (hdr_export h ++ rest)) 16 = false).
  { apply Nat.ltb_ge. rewrite app_length, hdr_export_length. lia. }
  rewrite HL. change rom_cmdhdr_layout with cmdhdr_format.
  unfold hdr_export at 1. rewrite hdr_unpack by (try apply hdr_crc_lt; assumption).
  assert (E : firstn 15 (skipn 1 (hdr_export h ++ rest)) = skipn 1 (hdr_raw 0 h)).
  { rewrite skipn_app. rewrite hdr_export_length. change (1 - 16)%nat with 0%nat. cbn [skipn].
    rewrite firstn_app_exact.
    - unfold hdr_export. apply hdr_raw_tail.
    - rewrite skipn_length, hdr_export_length. reflexivity. }
  rewrite E. change 90 with cmdhdr_checksum_seed. fold (hdr_crc h).
  change (skipn 1 (hdr_raw 0 h)) with (skipn cmdhdr_checksum_first (hdr_raw 0 h)).
  fold (hdr_crc h). rewrite N.eqb_refl. destruct h; reflexivity.
Qed.
