(* Proofs/CacheProofs.v -- lemmas about Model/CacheModel.v (C18).
   Part 1: one process on an arbitrary cache content.  Part 2: any number of processes, any schedule. *)
From Coq Require Import ZArith NArith List Bool Lia Arith.
Require Import Value GenCache CacheModel.
Import ListNotations.
Local Open Scope Z_scope.

(* the kernel must not unfold the class table when it compares terms *)
Strategy opaque [exception_classes exn_ancestors all_classes].
Arguments exception_classes : simpl never.
Arguments exn_ancestors : simpl never.
Arguments guarded : simpl never.
Arguments catch_level : simpl never.

(* ------------------------------------------------------------------ what the theorems need from the source *)
Definition guards_all (chain : list (list exn)) : bool := forallb (guarded chain) exception_classes.
Definition inner_catches_all (chain : list (list exn)) : bool :=
  forallb (fun e => match catch_level chain e with Some O => true | _ => false end) exception_classes.
Definition is_exception (e : exn) : bool := existsb (N.eqb e) exception_classes.

Definition quick_ok (g : config) : bool :=
  q_read_locked g && q_write_locked g && q_hash_checked g && rebuild_complete g &&
  guards_all (q_read_guard g) && guarded (q_read_guard g) EXN_EOFError &&
  guarded (q_open_r_guard g) EXN_FileNotFoundError &&
  guarded (q_type_guard g) (q_type_exn g) && guarded (q_type_guard g) EXN_AttributeError &&
  guarded (q_lock_r_guard g) EXN_filelock_Timeout && guarded (q_lock_w_guard g) EXN_filelock_Timeout.

Definition data_ok (g : config) : bool :=
  i_read_locked g && m_locked g && i_hash_checked g &&
  guards_all (i_read_guard g) && guarded (i_read_guard g) EXN_EOFError &&
  guarded (i_open_r_guard g) EXN_FileNotFoundError &&
  guarded (i_type_guard g) (i_type_exn g) && guarded (i_type_guard g) EXN_AttributeError &&
  guarded (i_lock_guard g) EXN_filelock_Timeout && guarded (i_stale_rm_guard g) EXN_FileNotFoundError &&
  inner_catches_all (m_read_guard g) && Nat.leb 2 (length (m_read_guard g)) && Nat.leb 2 (length (m_type_guard g)) &&
  match catch_level (m_read_guard g) EXN_EOFError with Some O => true | _ => false end &&
  guarded (m_type_guard g) (m_type_exn g) &&
  guarded (m_outer_guard g) EXN_AttributeError && guarded (m_lock_guard g) EXN_filelock_Timeout.

(* [quick_ok gen_config = true] and [data_ok gen_config = true] are established by computation in each Props/C18 file, so
   that this file builds whatever the source says and a broken premise is reported per theorem. *)

Lemma forallb_In : forall (A : Type) (f : A -> bool) l x, forallb f l = true -> In x l -> f x = true.
Proof. intros A f l x H Hin. rewrite forallb_forall in H. auto. Qed.

(* ------------------------------------------------------------------ specification side *)
(* contents a crash, an older SPSDK run on other data files, or a completed honest writer can leave behind *)
Definition quick_admissible (cur : Z) (c : content) : Prop :=
  match c with
  | CDamaged e => In e exception_classes
  | CQuick h p => h = cur -> p = DB_FULL        (* fingerprint hash of the current files => written from them *)
  | _ => True
  end.

Definition honest_map (src : Z -> Z) (m : cfgmap) : Prop := forall k v, In (k, v) m -> v = src k.

Definition data_admissible (cur : Z) (src : Z -> Z) (c : content) : Prop :=
  match c with
  | CDamaged e => In e exception_classes
  | CData h m => h = cur -> honest_map src m
  | _ => True
  end.

Example quick_admissible_poisoned_stale : quick_admissible 1 (CQuick 0 7).
Proof. simpl. intros H. discriminate. Qed.
Example quick_admissible_truncated : quick_admissible 1 (CDamaged EXN_EOFError).
Proof. vm_compute. tauto. Qed.

(* ------------------------------------------------------------------ helpers *)
Ltac split_ok H :=
  repeat match type of H with
         | (_ && _) = true => let H1 := fresh "Hok" in apply andb_prop in H; destruct H as [H H1]
         end.

Lemma guarded_on_exn : forall st ch e, guarded ch e = true -> on_exn st ch e = LMiss.
Proof. intros. unfold on_exn. rewrite H. reflexivity. Qed.

Lemma lookup_In : forall k m v, lookup k m = Some v -> In (k, v) m.
Proof.
  induction m as [|[k' v'] r IH]; simpl; intros v H; [discriminate|].
  destruct (Z.eqb_spec k k'); [inversion H; subst; auto | right; auto].
Qed.

Lemma lookup_app_new : forall k v m, lookup k m = None -> lookup k (m ++ [(k, v)]) = Some v.
Proof.
  induction m as [|[k' v'] r IH]; simpl; intros H.
  - rewrite Z.eqb_refl. reflexivity.
  - destruct (Z.eqb_spec k k'); [discriminate | auto].
Qed.

Lemma lookup_app_old : forall k v m m', lookup k m = Some v -> lookup k (m ++ m') = Some v.
Proof.
  induction m as [|[k' v'] r IH]; simpl; intros m' H; [discriminate|].
  destruct (Z.eqb_spec k k'); auto.
Qed.

Lemma honest_app : forall src m m', honest_map src m -> honest_map src m' -> honest_map src (m ++ m').
Proof. intros src m m' H H' k v Hin. apply in_app_or in Hin. destruct Hin; eauto. Qed.

Lemma honest_single : forall src x, honest_map src [(x, src x)].
Proof. intros src x k v [H|[]]. inversion H; subst. reflexivity. Qed.

Lemma honest_nil : forall src, honest_map src [].
Proof. intros src k v []. Qed.

Lemma has_key_app : forall k m m', has_key k m = true -> has_key k (m ++ m') = true.
Proof.
  unfold has_key. intros k m m' H. destruct (lookup k m) eqn:E; [|discriminate].
  rewrite (lookup_app_old _ _ _ m' E). reflexivity.
Qed.

Lemma merge_honest : forall src other mine, honest_map src mine -> honest_map src other -> honest_map src (merge mine other).
Proof.
  induction other as [|[k v] r IH]; simpl; intros mine Hm Ho; [assumption|].
  assert (Hr : honest_map src r) by (intros k' v' H; apply Ho; right; assumption).
  destruct (has_key k mine); [auto|].
  apply IH; [|assumption]. apply honest_app; [assumption|].
  intros k' v' [H|[]]. inversion H; subst. apply Ho. left. reflexivity.
Qed.

Lemma merge_keeps : forall k v other mine, lookup k mine = Some v -> lookup k (merge mine other) = Some v.
Proof.
  induction other as [|[k' v'] r IH]; simpl; intros mine H; [assumption|].
  destruct (has_key k' mine); [auto|]. apply IH. apply lookup_app_old. assumption.
Qed.

(* ================================================================== Part 1: one process *)
Lemma guards_all_In : forall ch e, guards_all ch = true -> In e exception_classes -> guarded ch e = true.
Proof. intros ch e H Hin. unfold guards_all in H. apply (proj1 (forallb_forall _ _)) with (x := e) in H; assumption. Qed.

Lemma quick_ok_facts : forall g, quick_ok g = true ->
  q_read_locked g = true /\ q_write_locked g = true /\ q_hash_checked g = true /\ rebuild_complete g = true /\
  guards_all (q_read_guard g) = true /\ guarded (q_read_guard g) EXN_EOFError = true /\
  guarded (q_open_r_guard g) EXN_FileNotFoundError = true /\
  guarded (q_type_guard g) (q_type_exn g) = true /\ guarded (q_type_guard g) EXN_AttributeError = true /\
  guarded (q_lock_r_guard g) EXN_filelock_Timeout = true /\ guarded (q_lock_w_guard g) EXN_filelock_Timeout = true.
Proof. intros g H. unfold quick_ok in H. repeat (apply andb_prop in H; destruct H as [H ?]). repeat split; assumption. Qed.

Lemma data_ok_facts : forall g, data_ok g = true ->
  i_read_locked g = true /\ m_locked g = true /\ i_hash_checked g = true /\
  guards_all (i_read_guard g) = true /\ guarded (i_read_guard g) EXN_EOFError = true /\
  guarded (i_open_r_guard g) EXN_FileNotFoundError = true /\
  guarded (i_type_guard g) (i_type_exn g) = true /\ guarded (i_type_guard g) EXN_AttributeError = true /\
  guarded (i_lock_guard g) EXN_filelock_Timeout = true /\ guarded (i_stale_rm_guard g) EXN_FileNotFoundError = true /\
  inner_catches_all (m_read_guard g) = true /\
  Nat.leb 2 (length (m_read_guard g)) = true /\ Nat.leb 2 (length (m_type_guard g)) = true /\
  catch_level (m_read_guard g) EXN_EOFError = Some O /\
  guarded (m_type_guard g) (m_type_exn g) = true /\
  guarded (m_outer_guard g) EXN_AttributeError = true /\ guarded (m_lock_guard g) EXN_filelock_Timeout = true.
Proof.
  intros g H. unfold data_ok in H. repeat (apply andb_prop in H; destruct H as [H ?]).
  repeat match goal with
         | H : match ?x with _ => _ end = true |- _ => destruct x as [[|?]|] eqn:?; try discriminate H; clear H
         end.
  repeat split; assumption.
Qed.

Ltac qfacts H := apply quick_ok_facts in H;
  destruct H as (Hrl & Hwl & Hhc & Hrc & Hrg & Heof & Hfnf & Hty & Hattr & Htor & Htow).
Ltac dfacts H := apply data_ok_facts in H;
  destruct H as (Hrl & Hml & Hhc & Hrg & Heof & Hfnf & Hty & Hattr & Hto & Hsrm & Hmin & Hlen & Hlent & Hmeof & Hmty & Hmattr & Hmto).

Lemma quick_eval_admissible : forall g cur o, quick_ok g = true -> quick_admissible cur o ->
  quick_eval g cur o = LMiss \/ (quick_eval g cur o = LHit DB_FULL /\ o = CQuick cur DB_FULL).
Proof.
  intros g cur o Hok Ha. qfacts Hok.
  destruct o; simpl; unfold quick_admissible in Ha; try (left; apply guarded_on_exn; assumption).
  - left. apply guarded_on_exn. apply guards_all_In; assumption.
  - rewrite Hhc. simpl. rewrite orb_false_r. destruct (Z.eqb_spec h cur) as [E|E].
    + right. rewrite (Ha E). subst. split; reflexivity.
    + left. reflexivity.
Qed.

Lemma quick_start_total : forall g cur c, quick_ok g = true -> quick_admissible cur c ->
  quick_start g cur c = (Started DB_FULL, CQuick cur DB_FULL).
Proof.
  intros g cur c Hok Ha.
  assert (Hf : quick_db (rebuild_complete g) = DB_FULL).
  { qfacts Hok. rewrite Hrc. reflexivity. }
  unfold quick_start. rewrite Hf.
  destruct (quick_eval_admissible g cur c Hok Ha) as [E|[E Ec]].
  - destruct c; try reflexivity; rewrite E; reflexivity.
  - subst c. rewrite E. reflexivity.
Qed.

Lemma data_eval_admissible : forall g cur src o, data_ok g = true -> data_admissible cur src o ->
  (exists m, data_eval g cur o = EValid m /\ o = CData cur m /\ honest_map src m) \/
  data_eval g cur o = EStale /\ (exists h m, o = CData h m /\ h <> cur) \/
  (exists st ch e, data_eval g cur o = EExn st ch e /\ guarded ch e = true /\ forall h m, o <> CData h m).
Proof.
  intros g cur src o Hok Ha. dfacts Hok.
  destruct o; simpl; unfold data_admissible in Ha;
    try (right; right; do 3 eexists; split; [reflexivity|split; [assumption|intros; discriminate]]).
  - right; right. do 3 eexists. split; [reflexivity|]. split; [apply guards_all_In; assumption|intros; discriminate].
  - rewrite Hhc. simpl. rewrite orb_false_r. destruct (Z.eqb_spec h cur) as [E|E].
    + left. exists m. subst. auto.
    + right; left. split; [reflexivity|]. eauto.
Qed.

Definition data_good (cur : Z) (src : Z -> Z) (x : Z) (r : outcome * content) : Prop :=
  fst r = Started (src x) /\ exists m, snd r = CData cur m /\ honest_map src m /\ lookup x m = Some (src x).

(* a process whose config cache m came from [c] (so that the file holds m) or is empty with the file missing *)
Lemma data_query_after_init : forall g cur src x m c, data_ok g = true ->
  honest_map src m -> (c = CMissing /\ m = [] \/ c = CData cur m) ->
  data_good cur src x (data_query g cur src m x c).
Proof.
  intros g cur src x m c Hok Hm Hc. unfold data_query, data_good.
  destruct (lookup x m) eqn:El.
  - destruct Hc as [[_ Hm0]|Hc]; [subst m; discriminate|]. subst c. simpl.
    pose proof (Hm _ _ (lookup_In _ _ _ El)) as ->. split; [reflexivity|]. exists m. auto.
  - assert (Hmine : honest_map src (m ++ [(x, src x)])) by (apply honest_app; [assumption|apply honest_single]).
    assert (Hl : lookup x (m ++ [(x, src x)]) = Some (src x)) by (apply lookup_app_new; assumption).
    destruct Hc as [[Hc Hm0]|Hc]; subst; simpl.
    + split; [reflexivity|]. eexists. split; [reflexivity|]. split; assumption.
    + destruct ((cur =? cur) && keys_eqb (keys m) (keys (m ++ [(x, src x)]))); simpl.
      * split; [reflexivity|]. eexists. split; [reflexivity|]. split; assumption.
      * split; [reflexivity|]. eexists. split; [reflexivity|]. split.
        -- apply merge_honest; assumption.
        -- apply merge_keeps. assumption.
Qed.

Lemma data_start_total : forall g cur src x c, data_ok g = true -> data_admissible cur src c ->
  data_good cur src x (data_start g cur src x c).
Proof.
  intros g cur src x c Hok Ha. unfold data_start, data_init.
  destruct (data_eval_admissible g cur src c Hok Ha) as [(m & E & -> & Hm)|[(E & h & m & -> & Hne)|(st & ch & e & E & Hg & Hnd)]].
  - rewrite E. apply data_query_after_init; auto.
  - rewrite E. apply data_query_after_init; auto using honest_nil.
  - destruct c; try (rewrite E, Hg); apply data_query_after_init; auto using honest_nil.
Qed.
(* ================================================================== Part 2: processes and schedules *)
Definition act_ok (a : action) : Prop := match a with ACrash e => In e exception_classes | _ => True end.
Definition sched_ok (sc : list (nat * action)) : Prop := forall ia, In ia sc -> act_ok (snd ia).

Lemma step_crash : forall g w s i e,
  step g w s i (ACrash e) =
  if final (procs s i) then None else
    let p := procs s i in
    let s1 := if writing p then close_file s i (CDamaged e) else s in
    let s2 := match lock s1 with
              | Some j => if Nat.eqb j i && holding p then set_lock s1 None else s1
              | None => s1
              end in
    Some (set_pc s2 i Killed).
Proof.
  intros. unfold step. destruct (procs s i); try reflexivity;
    match goal with k : nat |- _ => destruct k; reflexivity end.
Qed.

Lemma close_file_lock : forall s i c, lock (close_file s i c) = lock s.
Proof. intros. unfold close_file. destruct (file s) as [|e0| | |h0 p0|h0 m0|k]; try reflexivity. destruct (Nat.eqb k i); reflexivity. Qed.
Lemma close_file_procs : forall s i c, procs (close_file s i c) = procs s.
Proof. intros. unfold close_file. destruct (file s) as [|e0| | |h0 p0|h0 m0|k]; try reflexivity. destruct (Nat.eqb k i); reflexivity. Qed.
Lemma close_file_file : forall s i c,
  file (close_file s i c) = match file s with CPartial k => if Nat.eqb k i then c else file s | _ => file s end.
Proof.
  intros. unfold close_file. destruct (file s) as [|e0| | |h0 p0|h0 m0|k] eqn:Hf; simpl; rewrite ?Hf; try reflexivity.
  destruct (Nat.eqb k i); simpl; congruence.
Qed.

Lemma holding_not_final : forall p, holding p = true -> final p = false.
Proof. destruct p; simpl; intros; congruence. Qed.
Lemma writing_holding : forall p, writing p = true -> holding p = true.
Proof. destruct p; simpl; intros; congruence. Qed.

(* ---- the lock discipline, common to both caches *)
Record linv (s : sys) : Prop := mkLinv {
  li_lock1 : forall i, holding (procs s i) = true -> lock s = Some i;
  li_lock2 : forall i, lock s = Some i -> holding (procs s i) = true;
  li_part : forall k, file s = CPartial k -> writing (procs s k) = true
}.

Lemma linv_excl : forall s i j, linv s -> holding (procs s i) = true -> holding (procs s j) = true -> i = j.
Proof. intros s i j [H1 _ _] Hi Hj. pose proof (H1 _ Hi). pose proof (H1 _ Hj). congruence. Qed.

Lemma linv_no_partial_when_free : forall s, linv s -> lock s = None -> forall k, file s <> CPartial k.
Proof.
  intros s [H1 _ H3] Hl k Hk. pose proof (H1 _ (writing_holding _ (H3 _ Hk))). congruence.
Qed.

Lemma linv_partial_holder : forall s i k, linv s -> holding (procs s i) = true -> file s = CPartial k -> k = i.
Proof.
  intros s i k L Hi Hk. destruct L as [H1 H2 H3].
  pose proof (H1 _ (writing_holding _ (H3 _ Hk))). pose proof (H1 _ Hi). congruence.
Qed.

Lemma linv_set_pc : forall s i p', linv s -> holding p' = holding (procs s i) ->
  (writing (procs s i) = true -> writing p' = true) -> linv (set_pc s i p').
Proof.
  intros s i p' [H1 H2 H3] Hh Hw. constructor; simpl; unfold upd.
  - intros j. destruct (Nat.eqb_spec j i); [subst; rewrite Hh|]; apply H1.
  - intros j Hl. destruct (Nat.eqb_spec j i); [subst; rewrite Hh|]; apply H2; assumption.
  - intros k Hk. destruct (Nat.eqb_spec k i); [subst; apply Hw|]; apply H3; assumption.
Qed.

Lemma linv_acquire : forall s i p', linv s -> lock s = None -> holding p' = true ->
  linv (set_pc (set_lock s (Some i)) i p').
Proof.
  intros s i p' L Hl Hh. pose proof (linv_no_partial_when_free s L Hl) as Hnp. destruct L as [H1 H2 H3].
  constructor; simpl; unfold upd.
  - intros j. destruct (Nat.eqb_spec j i); [subst; reflexivity|]. intros Hj. rewrite (H1 _ Hj) in Hl. discriminate.
  - intros j Hj. inversion Hj; subst. rewrite Nat.eqb_refl. assumption.
  - intros k Hk. exfalso. exact (Hnp _ Hk).
Qed.

Lemma linv_release : forall s i p', linv s -> holding (procs s i) = true -> writing (procs s i) = false ->
  holding p' = false -> linv (set_pc (set_lock s None) i p').
Proof.
  intros s i p' L Hi Hw Hh. pose proof L as [H1 H2 H3]. constructor; simpl; unfold upd.
  - intros j. destruct (Nat.eqb_spec j i); [subst; rewrite Hh; discriminate|].
    intros Hj. exfalso. apply n. exact (linv_excl s j i L Hj Hi).
  - intros j Hj. discriminate.
  - intros k Hk. pose proof (linv_partial_holder s i k L Hi Hk). subst k. rewrite (H3 _ Hk) in Hw. discriminate.
Qed.

Lemma linv_trunc : forall s i p', linv s -> holding (procs s i) = true -> writing p' = true ->
  linv (set_pc (set_file s (CPartial i)) i p').
Proof.
  intros s i p' [H1 H2 H3] Hi Hw. constructor; simpl; unfold upd.
  - intros j. destruct (Nat.eqb_spec j i); [subst; intros _; apply H1; assumption|apply H1].
  - intros j Hj. destruct (Nat.eqb_spec j i); [apply writing_holding; assumption|apply H2; assumption].
  - intros k Hk. inversion Hk; subst. rewrite Nat.eqb_refl. assumption.
Qed.

Lemma linv_close : forall s i c p', linv s -> holding (procs s i) = true -> (forall k, c <> CPartial k) ->
  holding p' = true -> writing p' = false -> linv (set_pc (close_file s i c) i p').
Proof.
  intros s i c p' L Hi Hc Hh Hw. pose proof L as [H1 H2 H3]. constructor; simpl; unfold upd.
  - rewrite close_file_lock, close_file_procs. intros j. destruct (Nat.eqb_spec j i); [subst; intros _; apply H1; assumption|apply H1].
  - rewrite close_file_lock, close_file_procs. intros j Hj. destruct (Nat.eqb_spec j i); [assumption|apply H2; assumption].
  - rewrite close_file_file, close_file_procs. intros k Hk. destruct (file s) as [|e0| | |h0 p0|h0 m0|k0] eqn:Hf; try discriminate.
    pose proof (linv_partial_holder s i k0 L Hi Hf). subst k0. rewrite Nat.eqb_refl in Hk. exfalso. exact (Hc _ Hk).
Qed.

(* os.remove by a process that does not hold the lock (unlocked in the source) *)
Lemma linv_remove : forall s i p', linv s -> holding (procs s i) = false -> holding p' = false ->
  linv (set_pc (set_file s CMissing) i p').
Proof.
  intros s i p' [H1 H2 H3] Hi Hh. constructor; simpl; unfold upd.
  - intros j. destruct (Nat.eqb_spec j i); [subst; rewrite Hh; discriminate|apply H1].
  - intros j Hj. destruct (Nat.eqb_spec j i); [subst; rewrite (H2 _ Hj) in Hi; discriminate|apply H2; assumption].
  - intros k Hk. discriminate.
Qed.

(* what a kill does to the shared state *)
Lemma crash_shape : forall g w s i e s', linv s -> step g w s i (ACrash e) = Some s' ->
  final (procs s i) = false /\
  procs s' = upd (procs s) i Killed /\
  lock s' = (if holding (procs s i) then None else lock s) /\
  (file s' = file s /\ (forall k, file s = CPartial k -> k <> i) \/
   file s = CPartial i /\ writing (procs s i) = true /\ file s' = CDamaged e).
Proof.
  intros g w s i e s' L Hstep. pose proof L as [Hl1 Hl2 Hpart].
  rewrite step_crash in Hstep. destruct (final (procs s i)) eqn:Hfin; [discriminate|].
  cbv zeta in Hstep. inversion Hstep; subst s'; clear Hstep. split; [reflexivity|].
  set (s1 := if writing (procs s i) then close_file s i (CDamaged e) else s).
  assert (Hs1p : procs s1 = procs s) by (unfold s1; destruct (writing (procs s i)); [apply close_file_procs|reflexivity]).
  assert (Hs1l : lock s1 = lock s) by (unfold s1; destruct (writing (procs s i)); [apply close_file_lock|reflexivity]).
  assert (Hs1f : file s1 = file s /\ (forall k, file s = CPartial k -> k <> i) \/
                 (file s = CPartial i /\ writing (procs s i) = true /\ file s1 = CDamaged e)).
  { unfold s1. destruct (writing (procs s i)) eqn:Hw.
    - rewrite close_file_file. destruct (file s) as [|e0| | |h0 p0|h0 m0|k] eqn:Hf; try (left; split; [reflexivity|intros; discriminate]).
      destruct (Nat.eqb_spec k i); [subst; right; auto|left; split; [reflexivity|intros k' Hk'; inversion Hk'; subst; assumption]].
    - left. split; [reflexivity|]. intros k Hk Hki. subst k. rewrite (Hpart _ Hk) in Hw. discriminate. }
  set (s2 := match lock s1 with
             | Some j => if Nat.eqb j i && holding (procs s i) then set_lock s1 None else s1
             | None => s1 end).
  assert (Hs2p : procs s2 = procs s).
  { unfold s2. destruct (lock s1); [destruct (Nat.eqb n i && holding (procs s i))|]; simpl; assumption. }
  assert (Hs2f : file s2 = file s1).
  { unfold s2. destruct (lock s1); [destruct (Nat.eqb n i && holding (procs s i))|]; reflexivity. }
  assert (Hs2l : lock s2 = if holding (procs s i) then None else lock s).
  { unfold s2. destruct (holding (procs s i)) eqn:Hh.
    - rewrite Hs1l, (Hl1 _ Hh), Nat.eqb_refl. reflexivity.
    - destruct (lock s1) eqn:E; [rewrite andb_false_r|]; rewrite <- Hs1l; assumption. }
  simpl. rewrite Hs2p, Hs2f, Hs2l. auto.
Qed.

Lemma linv_crash : forall g w s i e s', linv s -> step g w s i (ACrash e) = Some s' -> linv s'.
Proof.
  intros g w s i e s' L Hstep. destruct (crash_shape g w s i e s' L Hstep) as (Hfin & Hp & Hl & Hf).
  pose proof L as [Hl1 Hl2 Hpart]. constructor; rewrite ?Hp, ?Hl; unfold upd.
  - intros j. destruct (Nat.eqb_spec j i); [simpl; discriminate|].
    intros Hh. destruct (holding (procs s i)) eqn:Hhi; [|auto].
    exfalso. apply n. exact (linv_excl s j i L Hh Hhi).
  - intros j. destruct (holding (procs s i)) eqn:Hhi; [discriminate|].
    intros Hlj. destruct (Nat.eqb_spec j i); [subst; rewrite (Hl2 _ Hlj) in Hhi; discriminate|auto].
  - intros k Hk. destruct Hf as [[E Hne]|(E1 & E2 & E3)]; [|rewrite E3 in Hk; discriminate].
    rewrite E in Hk. destruct (Nat.eqb_spec k i); [subst; exfalso; exact (Hne _ Hk eq_refl)|auto].
Qed.
(* ---- quick-info cache: what holds in every reachable state *)
Definition qpc (p : pc) : bool :=
  match p with
  | QStart | QWantR | QHoldR | QGotR _ | QWantW | QHoldW | QWriting _ | QClosed | Done _ | Fail _ _ | Killed => true
  | _ => false
  end.

Record qrest (w : world) (s : sys) : Prop := mkQrest {
  qr_pcs : forall i, qpc (procs s i) = true;
  qr_file : quick_admissible (w_cur w) (file s);
  qr_obs : forall i o, procs s i = QGotR o -> quick_admissible (w_cur w) o;
  qr_done : forall i a, procs s i = Done a -> a = DB_FULL;
  qr_nofail : forall i st e, procs s i <> Fail st e
}.
Definition qinv (w : world) (s : sys) : Prop := linv s /\ qrest w s.

Lemma qrest_upd : forall w s s' i p', qrest w s -> procs s' = upd (procs s) i p' ->
  quick_admissible (w_cur w) (file s') -> qpc p' = true ->
  (forall o, p' = QGotR o -> quick_admissible (w_cur w) o) ->
  (forall a, p' = Done a -> a = DB_FULL) -> (forall st e, p' <> Fail st e) -> qrest w s'.
Proof.
  intros w s s' i p' [H1 H2 H3 H4 H5] Hp Hf Hq Ho Hd Hn. constructor; rewrite ?Hp; unfold upd.
  - intros j. destruct (Nat.eqb_spec j i); auto.
  - assumption.
  - intros j o. destruct (Nat.eqb_spec j i); eauto.
  - intros j a. destruct (Nat.eqb_spec j i); eauto.
  - intros j st e. destruct (Nat.eqb_spec j i); eauto.
Qed.

Lemma observe_locked : forall s i t, linv s -> holding (procs s i) = true -> writing (procs s i) = false ->
  observe s i t = file s /\ forall k, file s <> CPartial k.
Proof.
  intros s i t L Hi Hw. assert (Hnp : forall k, file s <> CPartial k).
  { intros k Hk. pose proof (linv_partial_holder s i k L Hi Hk). subst k. destruct L as [_ _ H3].
    rewrite (H3 _ Hk) in Hw. discriminate. }
  split; [|assumption]. unfold observe. destruct (file s) as [|e0| | |h0 p0|h0 m0|k] eqn:Hf; try reflexivity.
  exfalso. exact (Hnp _ eq_refl).
Qed.

Lemma qinv_step : forall g w s i a s', quick_ok g = true -> qinv w s -> act_ok a ->
  step g w s i a = Some s' -> qinv w s'.
Proof.
  intros g w s i a s' Hok [L R] Ha Hstep.
  destruct a.
  10: { (* killed *)
    split; [exact (linv_crash _ _ _ _ _ _ L Hstep)|].
    destruct (crash_shape _ _ _ _ _ _ L Hstep) as (Hfin & Hp & Hl & Hf).
    apply (qrest_upd w s s' i Killed R Hp); try discriminate; try reflexivity.
    destruct Hf as [[E _]|(_ & _ & E)]; rewrite E; [apply (qr_file _ _ R)|exact Ha]. }
  all: pose proof (qr_pcs _ _ R i) as Hq; unfold step in Hstep; destruct (procs s i) eqn:Hp; try discriminate Hq;
    try discriminate Hstep;
    try (match type of Hstep with match ?k with O => _ | S _ => _ end = _ => destruct k; try discriminate Hstep end);
    qfacts Hok.
  - (* QStart, exists *)
    inversion Hstep; subst s'; clear Hstep. split.
    + apply linv_set_pc; [assumption| |rewrite Hp; discriminate]. rewrite Hp. destruct (exists_file s); reflexivity.
    + eapply qrest_upd; [exact R|reflexivity|apply (qr_file _ _ R)| | | |]; destruct (exists_file s); try reflexivity; discriminate.
  - (* DHandler-like cases are excluded by qpc; QWantR acquire *)
    rewrite Hrl in Hstep. unfold acquire in Hstep. unfold lock_free in Hstep. destruct (lock s) eqn:Hl; [discriminate|].
    simpl in Hstep. inversion Hstep; subst s'; clear Hstep. split.
    + apply linv_acquire; auto.
    + eapply qrest_upd; [exact R|reflexivity|apply (qr_file _ _ R)| | | |]; try reflexivity; discriminate.
  - (* QWantW acquire *)
    rewrite Hwl in Hstep. unfold acquire in Hstep. unfold lock_free in Hstep. destruct (lock s) eqn:Hl; [discriminate|].
    simpl in Hstep. inversion Hstep; subst s'; clear Hstep. split.
    + apply linv_acquire; auto.
    + eapply qrest_upd; [exact R|reflexivity|apply (qr_file _ _ R)| | | |]; try reflexivity; discriminate.
  - (* QWantR timeout *)
    destruct (can_timeout (q_read_locked g) s i); [|discriminate]. rewrite Htor in Hstep.
    inversion Hstep; subst s'; clear Hstep. split.
    + apply linv_set_pc; [assumption|rewrite Hp; reflexivity|rewrite Hp; discriminate].
    + eapply qrest_upd; [exact R|reflexivity|apply (qr_file _ _ R)| | | |]; try reflexivity; discriminate.
  - (* QWantW timeout *)
    destruct (can_timeout (q_write_locked g) s i); [|discriminate]. rewrite Htow in Hstep.
    inversion Hstep; subst s'; clear Hstep. split.
    + apply linv_set_pc; [assumption|rewrite Hp; reflexivity|rewrite Hp; discriminate].
    + eapply qrest_upd; [exact R|reflexivity|apply (qr_file _ _ R)| | | |]; try reflexivity; try discriminate.
      intros a Ea. inversion Ea. rewrite Hrc. reflexivity.
  - (* QHoldR read *)
    inversion Hstep; subst s'; clear Hstep.
    assert (Hh : holding (procs s i) = true) by (rewrite Hp; reflexivity).
    assert (Hw : writing (procs s i) = false) by (rewrite Hp; reflexivity).
    destruct (observe_locked s i torn L Hh Hw) as [Eo Hnp]. split.
    + apply linv_set_pc; [assumption|rewrite Hp; reflexivity|rewrite Hp; discriminate].
    + eapply qrest_upd; [exact R|reflexivity|apply (qr_file _ _ R)| | | |]; try reflexivity; try discriminate.
      intros o Eo'. inversion Eo'; subst o. rewrite Eo. apply (qr_file _ _ R).
  - (* QGotR release *)
    inversion Hstep; subst s'; clear Hstep.
    assert (Hh : holding (procs s i) = true) by (rewrite Hp; reflexivity).
    assert (Hl : lock s = Some i) by (apply (li_lock1 _ L); assumption).
    assert (Er : release (q_read_locked g) s i = set_lock s None).
    { unfold release. rewrite Hrl, Hl, Nat.eqb_refl. reflexivity. }
    rewrite Er.
    assert (Hadm : quick_admissible (w_cur w) o) by (apply (qr_obs _ _ R i); assumption).
    assert (Hokg : quick_ok g = true).
    { unfold quick_ok. rewrite Hrl, Hwl, Hhc, Hrc, Hrg, Heof, Hfnf, Hty, Hattr, Htor, Htow. reflexivity. }
    destruct (quick_eval_admissible g (w_cur w) o Hokg Hadm) as [E|[E Eo]]; rewrite E; split.
    + apply linv_release; auto. rewrite Hp; reflexivity.
    + eapply qrest_upd; [exact R|reflexivity|apply (qr_file _ _ R)| | | |]; try reflexivity; discriminate.
    + apply linv_release; auto. rewrite Hp; reflexivity.
    + eapply qrest_upd; [exact R|reflexivity|apply (qr_file _ _ R)| | | |]; try reflexivity; try discriminate.
      intros a Ea. inversion Ea. reflexivity.
  - (* QClosed release *)
    inversion Hstep; subst s'; clear Hstep.
    assert (Hh : holding (procs s i) = true) by (rewrite Hp; reflexivity).
    assert (Hl : lock s = Some i) by (apply (li_lock1 _ L); assumption).
    assert (Er : release (q_write_locked g) s i = set_lock s None).
    { unfold release. rewrite Hwl, Hl, Nat.eqb_refl. reflexivity. }
    rewrite Er. split.
    + apply linv_release; auto. rewrite Hp; reflexivity.
    + eapply qrest_upd; [exact R|reflexivity|apply (qr_file _ _ R)| | | |]; try reflexivity; try discriminate.
      intros a Ea. inversion Ea. rewrite Hrc. reflexivity.
  - (* QHoldW truncating open *)
    inversion Hstep; subst s'; clear Hstep. split.
    + apply linv_trunc; [assumption|rewrite Hp; reflexivity|reflexivity].
    + eapply qrest_upd; [exact R|reflexivity|simpl; exact I| | | |]; try reflexivity; discriminate.
  - (* QWriting chunk *)
    inversion Hstep; subst s'; clear Hstep. split.
    + apply linv_set_pc; [assumption|rewrite Hp; reflexivity|reflexivity].
    + eapply qrest_upd; [exact R|reflexivity|apply (qr_file _ _ R)| | | |]; try reflexivity; discriminate.
  - (* QWriting close *)
    inversion Hstep; subst s'; clear Hstep. split.
    + apply linv_close; [assumption|rewrite Hp; reflexivity|discriminate|reflexivity|reflexivity].
    + eapply qrest_upd; [exact R|simpl; rewrite close_file_procs; reflexivity| | | | |]; try reflexivity; try discriminate.
      simpl. rewrite close_file_file. pose proof (qr_file _ _ R) as Hf.
      destruct (file s) as [|e0| | |h0 p0|h0 m0|k0]; try exact Hf.
      destruct (Nat.eqb k0 i); [|exact Hf]. simpl. intros _. rewrite Hrc. reflexivity.
Qed.
(* ---- data cache: what holds in every reachable state *)
Definition dpc (p : pc) : bool :=
  match p with
  | DStart | DWantR | DHoldR | DGotR _ | DStaleRm | DHandler | DHandlerRm
  | MWant _ | MHold _ | MMerged _ | MWriting _ _ | MClosed _ | Done _ | Fail _ _ | Killed => true
  | _ => false
  end.

Definition post_init (p : pc) : bool :=
  match p with
  | MWant _ | MHold _ | MMerged _ | MWriting _ _ | MClosed _ | Done _ => true
  | _ => false
  end.

Definition stale (cur : Z) (c : content) : bool :=
  match c with CData h _ => negb (h =? cur) | _ => false end.

Definition map_ok (w : world) (i : nat) (m : cfgmap) : Prop :=
  honest_map (w_src w) m /\ lookup (w_key w i) m = Some (w_src w (w_key w i)).

Definition pc_map_ok (w : world) (i : nat) (p : pc) : Prop :=
  match p with
  | MWant m | MHold m | MMerged m | MWriting m _ | MClosed m => map_ok w i m
  | _ => True
  end.

Record drest (g : config) (w : world) (s : sys) : Prop := mkDrest {
  dr_pcs : forall i, dpc (procs s i) = true;
  dr_file : data_admissible (w_cur w) (w_src w) (file s);
  dr_obs : forall i o, procs s i = DGotR o -> data_admissible (w_cur w) (w_src w) o;
  dr_maps : forall i, pc_map_ok w i (procs s i);
  dr_done : forall i a, procs s i = Done a -> a = w_src w (w_key w i);
  dr_fail : forall i st e, procs s i = Fail st e ->
            st = S_HANDLER_RM /\ e = EXN_FileNotFoundError /\ guarded (i_hrm_guard g) EXN_FileNotFoundError = false;
  dr_stale : stale (w_cur w) (file s) = true ->
             forall i, post_init (procs s i) = false /\ (forall o, procs s i = DGotR o -> forall m, o <> CData (w_cur w) m)
}.
Definition dinv (g : config) (w : world) (s : sys) : Prop := linv s /\ drest g w s.

Lemma drest_upd : forall g w s s' i p', drest g w s -> procs s' = upd (procs s) i p' ->
  data_admissible (w_cur w) (w_src w) (file s') -> dpc p' = true ->
  (forall o, p' = DGotR o -> data_admissible (w_cur w) (w_src w) o) ->
  pc_map_ok w i p' ->
  (forall a, p' = Done a -> a = w_src w (w_key w i)) ->
  (forall st e, p' = Fail st e ->
     st = S_HANDLER_RM /\ e = EXN_FileNotFoundError /\ guarded (i_hrm_guard g) EXN_FileNotFoundError = false) ->
  (stale (w_cur w) (file s') = true ->
     stale (w_cur w) (file s) = true /\ post_init p' = false /\ (forall o, p' = DGotR o -> forall m, o <> CData (w_cur w) m)) ->
  drest g w s'.
Proof.
  intros g w s s' i p' [H1 H2 H3 H4 H5 H6 H7] Hp Hf Hq Ho Hm Hd Hn Hs. constructor; rewrite ?Hp; unfold upd.
  - intros j. destruct (Nat.eqb_spec j i); auto.
  - assumption.
  - intros j o. destruct (Nat.eqb_spec j i); eauto.
  - intros j. destruct (Nat.eqb_spec j i); [subst; assumption|apply H4].
  - intros j a. destruct (Nat.eqb_spec j i); [subst; auto|eauto].
  - intros j st e. destruct (Nat.eqb_spec j i); eauto.
  - intros Hst j. destruct (Hs Hst) as (Hst0 & Hpi & Hob). destruct (Nat.eqb_spec j i); [split; assumption|apply H7; assumption].
Qed.

Lemma ready_ok : forall w i m, honest_map (w_src w) m ->
  dpc (ready w i m) = true /\ holding (ready w i m) = false /\ writing (ready w i m) = false /\
  pc_map_ok w i (ready w i m) /\
  (forall o, ready w i m <> DGotR o) /\
  (forall a, ready w i m = Done a -> a = w_src w (w_key w i)) /\
  (forall st e, ready w i m <> Fail st e) /\ post_init (ready w i m) = true.
Proof.
  intros w i m Hm. unfold ready. destruct (lookup (w_key w i) m) eqn:El; simpl.
  - repeat split; try discriminate. intros a Ea. inversion Ea; subst. exact (Hm _ _ (lookup_In _ _ _ El)).
  - repeat split; try discriminate.
    + apply honest_app; [assumption|apply honest_single].
    + apply lookup_app_new. assumption.
Qed.

Lemma answer_ok : forall w i m, map_ok w i m -> answer w i m = w_src w (w_key w i).
Proof. intros w i m [_ Hl]. unfold answer. rewrite Hl. reflexivity. Qed.

Lemma stale_not_missing : forall cur c, stale cur c = true -> exists h m, c = CData h m /\ h <> cur.
Proof.
  intros cur c H. destruct c; try discriminate. simpl in H. exists h, m. split; [reflexivity|].
  destruct (Z.eqb_spec h cur); [discriminate|assumption].
Qed.

Ltac dupd R := eapply drest_upd; [exact R|try reflexivity| | | | | | |].

(* a transition that lands in [ready w i m] without touching lock or file *)
Lemma dinv_to_ready : forall g w s i m, dinv g w s -> holding (procs s i) = false -> honest_map (w_src w) m ->
  stale (w_cur w) (file s) = false -> dinv g w (set_pc s i (ready w i m)).
Proof.
  intros g w s i m [L R] Hh Hm Hst. destruct (ready_ok w i m Hm) as (R1 & R2 & R3 & R4 & R5 & R6 & R7 & R8). split.
  - apply linv_set_pc; [assumption|congruence|].
    intros Hw. rewrite (writing_holding _ Hw) in Hh. discriminate.
  - dupd R; simpl; try assumption.
    + apply (dr_file _ _ _ R).
    + intros o E. exfalso. exact (R5 _ E).
    + intros st e E. exfalso. exact (R7 _ _ E).
    + intros Hs. rewrite Hs in Hst. discriminate.
Qed.

(* a transition that changes only the program counter to a pre-init, non-reading state *)
Lemma dinv_pc_only : forall g w s i p', dinv g w s -> holding p' = holding (procs s i) ->
  (writing (procs s i) = true -> writing p' = true) -> dpc p' = true -> post_init p' = false ->
  (forall o, p' <> DGotR o) -> pc_map_ok w i p' -> (forall a, p' <> Done a) ->
  (forall st e, p' = Fail st e ->
     st = S_HANDLER_RM /\ e = EXN_FileNotFoundError /\ guarded (i_hrm_guard g) EXN_FileNotFoundError = false) ->
  dinv g w (set_pc s i p').
Proof.
  intros g w s i p' [L R] Hh Hw Hq Hpi Ho Hm Hd Hf. split.
  - apply linv_set_pc; assumption.
  - dupd R; simpl; try assumption.
    + apply (dr_file _ _ _ R).
    + intros o E. exfalso. exact (Ho _ E).
    + intros a E. exfalso. exact (Hd _ E).
    + intros Hs. split; [assumption|]. split; [assumption|]. intros o E. exfalso. exact (Ho _ E).
Qed.

Lemma release_held : forall b s i, b = true -> lock s = Some i -> release b s i = set_lock s None.
Proof. intros b s i -> Hl. unfold release. rewrite Hl, Nat.eqb_refl. reflexivity. Qed.

Lemma data_ok_again : forall g, data_ok g = true -> data_ok g = true.
Proof. auto. Qed.

Lemma dinv_step : forall g w s i a s', data_ok g = true -> dinv g w s -> act_ok a ->
  step g w s i a = Some s' -> dinv g w s'.
Proof.
  intros g w s i a s' Hok [L R] Ha Hstep. pose proof Hok as Hokg.
  destruct a.
  10: { (* killed *)
    split; [exact (linv_crash _ _ _ _ _ _ L Hstep)|].
    destruct (crash_shape _ _ _ _ _ _ L Hstep) as (Hfin & Hp & Hl & Hf).
    apply (drest_upd g w s s' i Killed R Hp); try discriminate; try reflexivity; try exact I.
    - destruct Hf as [[E _]|(_ & _ & E)]; rewrite E; [apply (dr_file _ _ _ R)|exact Ha].
    - intros Hs. destruct Hf as [[E _]|(_ & _ & E)]; rewrite E in Hs; [|discriminate].
      split; [assumption|]. split; [reflexivity|discriminate]. }
  all: pose proof (dr_pcs _ _ _ R i) as Hq; pose proof (dr_maps _ _ _ R i) as Hmap; unfold step in Hstep;
    destruct (procs s i) eqn:Hp; try discriminate Hq; try discriminate Hstep;
    try (match type of Hstep with match ?k with O => _ | S _ => _ end = _ => destruct k; try discriminate Hstep end);
    dfacts Hok.
  - (* DStart, exists *)
    inversion Hstep; subst s'; clear Hstep. destruct (exists_file s) eqn:Hex.
    + apply dinv_pc_only; try (split; assumption); try reflexivity; try discriminate; rewrite Hp; try reflexivity; discriminate.
    + apply dinv_to_ready; [split; assumption|rewrite Hp; reflexivity|apply honest_nil|].
      unfold exists_file in Hex. destruct (file s); try discriminate. reflexivity.
  - (* DHandler, exists *)
    inversion Hstep; subst s'; clear Hstep. destruct (exists_file s) eqn:Hex.
    + apply dinv_pc_only; try (split; assumption); try reflexivity; try discriminate; rewrite Hp; try reflexivity; discriminate.
    + apply dinv_to_ready; [split; assumption|rewrite Hp; reflexivity|apply honest_nil|].
      unfold exists_file in Hex. destruct (file s); try discriminate. reflexivity.
  - (* DWantR acquire *)
    rewrite Hrl in Hstep. unfold acquire, lock_free in Hstep. destruct (lock s) eqn:Hl; [discriminate|].
    simpl in Hstep. inversion Hstep; subst s'; clear Hstep. split.
    + apply linv_acquire; auto.
    + dupd R; simpl; try reflexivity; try discriminate; try exact I.
      * apply (dr_file _ _ _ R).
      * intros Hs. split; [assumption|]. split; [reflexivity|discriminate].
  - (* MWant acquire *)
    rewrite Hml in Hstep. unfold acquire, lock_free in Hstep. destruct (lock s) eqn:Hl; [discriminate|].
    simpl in Hstep. inversion Hstep; subst s'; clear Hstep. split.
    + apply linv_acquire; auto.
    + dupd R; simpl; try reflexivity; try discriminate; try exact Hmap.
      * apply (dr_file _ _ _ R).
      * intros Hs. exfalso. destruct (dr_stale _ _ _ R Hs i) as [Hpi _]. rewrite Hp in Hpi. discriminate.
  - (* DWantR timeout *)
    destruct (can_timeout (i_read_locked g) s i); [|discriminate]. rewrite Hto in Hstep.
    inversion Hstep; subst s'; clear Hstep.
    apply dinv_pc_only; try (split; assumption); try reflexivity; try discriminate; rewrite Hp; try reflexivity; discriminate.
  - (* MWant timeout *)
    destruct (can_timeout (m_locked g) s i); [|discriminate]. rewrite Hmto in Hstep.
    inversion Hstep; subst s'; clear Hstep. split.
    + apply linv_set_pc; [assumption|rewrite Hp; reflexivity|rewrite Hp; discriminate].
    + dupd R; simpl; try reflexivity; try discriminate; try exact I.
      * apply (dr_file _ _ _ R).
      * intros a E. inversion E. apply answer_ok. exact Hmap.
      * intros Hs. exfalso. destruct (dr_stale _ _ _ R Hs i) as [Hpi _]. rewrite Hp in Hpi. discriminate.
  - (* DHoldR read *)
    inversion Hstep; subst s'; clear Hstep.
    assert (Hh : holding (procs s i) = true) by (rewrite Hp; reflexivity).
    assert (Hw : writing (procs s i) = false) by (rewrite Hp; reflexivity).
    destruct (observe_locked s i torn L Hh Hw) as [Eo Hnp]. split.
    + apply linv_set_pc; [assumption|rewrite Hp; reflexivity|rewrite Hp; discriminate].
    + dupd R; simpl; try reflexivity; try discriminate; try exact I.
      * apply (dr_file _ _ _ R).
      * intros o E. inversion E; subst o. rewrite Eo. apply (dr_file _ _ _ R).
      * intros Hs. split; [assumption|]. split; [reflexivity|]. intros o E m' Em. injection E as E1. subst o.
        rewrite Eo in Em. rewrite Em in Hs. simpl in Hs. rewrite Z.eqb_refl in Hs. discriminate.
  - (* MHold read: merge, skip or crash *)
    assert (Hh : holding (procs s i) = true) by (rewrite Hp; reflexivity).
    assert (Hw : writing (procs s i) = false) by (rewrite Hp; reflexivity).
    destruct (observe_locked s i torn L Hh Hw) as [Eo Hnp]. rewrite Eo in Hstep.
    assert (Hns : stale (w_cur w) (file s) = false).
    { destruct (stale (w_cur w) (file s)) eqn:Hs; [|reflexivity].
      destruct (dr_stale _ _ _ R Hs i) as [Hpi _]. rewrite Hp in Hpi. discriminate. }
    assert (Hl : lock s = Some i) by (apply (li_lock1 _ L); assumption).
    pose proof (dr_file _ _ _ R) as Hfile.
    assert (Hcases : (exists m', make_eval g (w_cur w) m (file s) = MWrite m' /\ map_ok w i m') \/
                     make_eval g (w_cur w) m (file s) = MSkip).
    { destruct Hmap as [Hhon Hlk]. destruct (file s) as [|e0| | |h0 p0|h0 m0|k0] eqn:Hf; simpl.
      - left. eexists. split; [reflexivity|split; assumption].
      - left. exists m. split; [|split; assumption]. unfold make_inner.
        unfold inner_catches_all in Hmin. apply (proj1 (forallb_forall _ _)) with (x := e0) in Hmin; [|exact Hfile].
        destruct (catch_level (m_read_guard g) e0) as [[|?]|]; try discriminate. rewrite Hlen. reflexivity.
      - unfold make_inner. unfold guarded in Hmty.
        destruct (catch_level (m_type_guard g) (m_type_exn g)) as [[|?]|]; [left|right; reflexivity|discriminate].
        exists m. split; [rewrite Hlent; reflexivity|split; assumption].
      - right. unfold make_outer. rewrite Hmattr. reflexivity.
      - unfold make_inner. unfold guarded in Hmty.
        destruct (catch_level (m_type_guard g) (m_type_exn g)) as [[|?]|]; [left|right; reflexivity|discriminate].
        exists m. split; [rewrite Hlent; reflexivity|split; assumption].
      - simpl in Hns. destruct (Z.eqb_spec h0 (w_cur w)) as [Eh|Eh]; [|discriminate]. subst h0.
        simpl in Hfile. specialize (Hfile eq_refl).
        rewrite ?Z.eqb_refl. simpl. destruct (keys_eqb (keys m0) (keys m)).
        + left. exists m. split; [reflexivity|split; assumption].
        + left. exists (merge m m0). split; [reflexivity|]. split; [apply merge_honest; assumption|apply merge_keeps; assumption].
      - exfalso. exact (Hnp _ eq_refl). }
    destruct Hcases as [(m' & E & Hm')|E]; rewrite E in Hstep; inversion Hstep; subst s'; clear Hstep.
    + split.
      * apply linv_set_pc; [assumption|rewrite Hp; reflexivity|rewrite Hp; discriminate].
      * dupd R; simpl; try reflexivity; try discriminate; try exact Hm'.
        -- exact Hfile.
        -- intros Hs. rewrite Hs in Hns. discriminate.
    + rewrite (release_held _ _ _ Hml Hl). split.
      * apply linv_release; auto.
      * dupd R; simpl; try reflexivity; try discriminate; try exact I.
        -- exact Hfile.
        -- intros a Ea. inversion Ea. apply answer_ok. exact Hmap.
        -- intros Hs. rewrite Hs in Hns. discriminate.
  - (* DGotR release *)
    inversion Hstep; subst s'; clear Hstep.
    assert (Hh : holding (procs s i) = true) by (rewrite Hp; reflexivity).
    assert (Hl : lock s = Some i) by (apply (li_lock1 _ L); assumption).
    rewrite (release_held _ _ _ Hrl Hl).
    assert (Hadm : data_admissible (w_cur w) (w_src w) o) by (apply (dr_obs _ _ _ R i); assumption).
    assert (Hrelease : forall p', holding p' = false -> linv (set_pc (set_lock s None) i p')).
    { intros p' Hp'. apply linv_release; auto. rewrite Hp. reflexivity. }
    destruct (data_eval_admissible g (w_cur w) (w_src w) o Hokg Hadm)
      as [(m & E & Eo & Hm)|[(E & h & m & Eo & Hne)|(st & ch & e & E & Hg & Hnd)]]; rewrite E.
    + (* valid *)
      destruct (ready_ok w i m Hm) as (R1 & R2 & R3 & R4 & R5 & R6 & R7 & R8). split; [apply Hrelease; assumption|].
      dupd R; simpl; try assumption.
      * apply (dr_file _ _ _ R).
      * intros o' E'. exfalso. exact (R5 _ E').
      * intros st e E'. exfalso. exact (R7 _ _ E').
      * intros Hs. exfalso. destruct (dr_stale _ _ _ R Hs i) as [_ Hob]. exact (Hob _ Hp _ Eo).
    + (* stale *)
      split; [apply Hrelease; reflexivity|].
      dupd R; simpl; try reflexivity; try discriminate; try exact I.
      * apply (dr_file _ _ _ R).
      * intros Hs. split; [assumption|]. split; [reflexivity|discriminate].
    + (* exception, handled *)
      rewrite Hg. split; [apply Hrelease; reflexivity|].
      dupd R; simpl; try reflexivity; try discriminate; try exact I.
      * apply (dr_file _ _ _ R).
      * intros Hs. split; [assumption|]. split; [reflexivity|discriminate].
  - (* MClosed release *)
    inversion Hstep; subst s'; clear Hstep.
    assert (Hh : holding (procs s i) = true) by (rewrite Hp; reflexivity).
    assert (Hl : lock s = Some i) by (apply (li_lock1 _ L); assumption).
    rewrite (release_held _ _ _ Hml Hl). split.
    + apply linv_release; auto. rewrite Hp; reflexivity.
    + dupd R; simpl; try reflexivity; try discriminate; try exact I.
      * apply (dr_file _ _ _ R).
      * intros a Ea. inversion Ea. apply answer_ok. exact Hmap.
      * intros Hs. exfalso. destruct (dr_stale _ _ _ R Hs i) as [Hpi _]. rewrite Hp in Hpi. discriminate.
  - (* DStaleRm remove *)
    destruct (exists_file s) eqn:Hex; inversion Hstep; subst s'; clear Hstep.
    + destruct (ready_ok w i [] (honest_nil _)) as (R1 & R2 & R3 & R4 & R5 & R6 & R7 & R8). split.
      * apply linv_remove; [assumption|rewrite Hp; reflexivity|assumption].
      * dupd R; simpl; try assumption; try exact I.
        -- intros o' E'. exfalso. exact (R5 _ E').
        -- intros st e E'. exfalso. exact (R7 _ _ E').
        -- discriminate.
    + rewrite Hsrm.
      apply dinv_pc_only; try (split; assumption); try reflexivity; try discriminate; rewrite Hp; try reflexivity; discriminate.
  - (* DHandlerRm remove *)
    destruct (exists_file s) eqn:Hex; inversion Hstep; subst s'; clear Hstep.
    + destruct (ready_ok w i [] (honest_nil _)) as (R1 & R2 & R3 & R4 & R5 & R6 & R7 & R8). split.
      * apply linv_remove; [assumption|rewrite Hp; reflexivity|assumption].
      * dupd R; simpl; try assumption; try exact I.
        -- intros o' E'. exfalso. exact (R5 _ E').
        -- intros st e E'. exfalso. exact (R7 _ _ E').
        -- discriminate.
    + destruct (guarded (i_hrm_guard g) EXN_FileNotFoundError) eqn:Hhrm.
      * apply dinv_to_ready; [split; assumption|rewrite Hp; reflexivity|apply honest_nil|].
        unfold exists_file in Hex. destruct (file s); try discriminate. reflexivity.
      * apply dinv_pc_only; try (split; assumption); try reflexivity; try discriminate; try (rewrite Hp; try reflexivity; discriminate).
        intros st e E. inversion E; subst. auto.
  - (* MMerged truncating open *)
    inversion Hstep; subst s'; clear Hstep. split.
    + apply linv_trunc; [assumption|rewrite Hp; reflexivity|reflexivity].
    + dupd R; simpl; try reflexivity; try discriminate; try exact Hmap; try exact I.
  - (* MWriting chunk *)
    inversion Hstep; subst s'; clear Hstep. split.
    + apply linv_set_pc; [assumption|rewrite Hp; reflexivity|reflexivity].
    + dupd R; simpl; try reflexivity; try discriminate; try exact Hmap.
      * apply (dr_file _ _ _ R).
      * intros Hs. exfalso. destruct (dr_stale _ _ _ R Hs i) as [Hpi _]. rewrite Hp in Hpi. discriminate.
  - (* MWriting close *)
    inversion Hstep; subst s'; clear Hstep. split.
    + apply linv_close; [assumption|rewrite Hp; reflexivity|discriminate|reflexivity|reflexivity].
    + dupd R; simpl; try (rewrite close_file_procs; reflexivity); try reflexivity; try discriminate; try exact Hmap.
      * rewrite close_file_file. pose proof (dr_file _ _ _ R) as Hf.
        destruct (file s) as [|e0| | |h0 p0|h0 m0|k0]; try exact Hf.
        destruct (Nat.eqb k0 i); [|exact Hf]. simpl. intros _. exact (proj1 Hmap).
      * rewrite close_file_file. intros Hs. exfalso.
        assert (Hs0 : stale (w_cur w) (file s) = true).
        { destruct (file s) as [|e0| | |h0 p0|h0 m0|k0]; try exact Hs. destruct (Nat.eqb k0 i); [|exact Hs].
          simpl in Hs. rewrite Z.eqb_refl in Hs. discriminate. }
        destruct (dr_stale _ _ _ R Hs0 i) as [Hpi _]. rewrite Hp in Hpi. discriminate.
Qed.
(* ---- from one step to every schedule *)
Lemma run_inv : forall (I : sys -> Prop) g w,
  (forall s i a s', I s -> act_ok a -> step g w s i a = Some s' -> I s') ->
  forall sched s, sched_ok sched -> I s -> I (run g w s sched).
Proof.
  intros I g w Hstep sched. induction sched as [|[i a] r IH]; intros s Hok Hs; [exact Hs|].
  unfold run. simpl. apply IH.
  - intros ia Hin. apply Hok. right. assumption.
  - unfold step_or_skip. simpl. destruct (step g w s i a) eqn:E; [|assumption].
    apply (Hstep s i a s0 Hs); [|assumption]. apply (Hok (i, a)). left. reflexivity.
Qed.

Definition not_open (c : content) : Prop := forall k, c <> CPartial k.

Lemma linv_init : forall c p, not_open c -> holding p = false -> linv (init_sys c p).
Proof.
  intros c p Hc Hp. constructor; simpl.
  - intros i H. rewrite Hp in H. discriminate.
  - intros i H. discriminate.
  - intros k H. exfalso. exact (Hc _ H).
Qed.

Lemma qinv_init : forall w c, quick_admissible (w_cur w) c -> not_open c -> qinv w (init_sys c QStart).
Proof.
  intros w c Ha Hc. split; [apply linv_init; [assumption|reflexivity]|].
  constructor; simpl; try discriminate; auto.
Qed.

Lemma dinv_init : forall g w c, data_admissible (w_cur w) (w_src w) c -> not_open c -> dinv g w (init_sys c DStart).
Proof.
  intros g w c Ha Hc. split; [apply linv_init; [assumption|reflexivity]|].
  constructor; simpl; try discriminate; auto. intros _ i. split; [reflexivity|discriminate].
Qed.

Lemma qinv_run : forall g w c sched, quick_ok g = true -> quick_admissible (w_cur w) c -> not_open c ->
  sched_ok sched -> qinv w (run g w (init_sys c QStart) sched).
Proof.
  intros g w c sched Hok Ha Hc Hs. apply (run_inv (qinv w) g w); [|assumption|apply qinv_init; assumption].
  intros s i a s' Hi Hact Hst. exact (qinv_step g w s i a s' Hok Hi Hact Hst).
Qed.

Lemma dinv_run : forall g w c sched, data_ok g = true -> data_admissible (w_cur w) (w_src w) c -> not_open c ->
  sched_ok sched -> dinv g w (run g w (init_sys c DStart) sched).
Proof.
  intros g w c sched Hok Ha Hc Hs. apply (run_inv (dinv g w) g w); [|assumption|apply dinv_init; assumption].
  intros s i a s' Hi Hact Hst. exact (dinv_step g w s i a s' Hok Hi Hact Hst).
Qed.

(* ---- the statements used by Props/C18 (generic in the extracted configuration) *)
Definition reading (p : pc) : bool := match p with QHoldR | DHoldR | MHold _ => true | _ => false end.

Lemma reading_holding : forall p, reading p = true -> holding p = true /\ writing p = false.
Proof. destruct p; simpl; intros; try discriminate; auto. Qed.

Definition excludes (s : sys) : Prop :=
  (forall i j, holding (procs s i) = true -> holding (procs s j) = true -> i = j) /\
  (forall i t, reading (procs s i) = true -> observe s i t = file s /\ forall k, file s <> CPartial k).

Lemma linv_excludes : forall s, linv s -> excludes s.
Proof.
  intros s L. split.
  - intros i j. apply linv_excl. assumption.
  - intros i t Hr. destruct (reading_holding _ Hr) as [Hh Hw]. apply observe_locked; assumption.
Qed.

Lemma lock_excludes_gen : forall g w c sched, sched_ok sched -> not_open c ->
  (quick_ok g = true -> quick_admissible (w_cur w) c -> excludes (run g w (init_sys c QStart) sched)) /\
  (data_ok g = true -> data_admissible (w_cur w) (w_src w) c -> excludes (run g w (init_sys c DStart) sched)).
Proof.
  intros g w c sched Hs Hc. split; intros Hok Ha; apply linv_excludes.
  - exact (proj1 (qinv_run g w c sched Hok Ha Hc Hs)).
  - exact (proj1 (dinv_run g w c sched Hok Ha Hc Hs)).
Qed.

Lemma concurrent_quick_gen : forall g w c sched, quick_ok g = true -> quick_admissible (w_cur w) c -> not_open c ->
  sched_ok sched ->
  let s := run g w (init_sys c QStart) sched in
  (forall i a, procs s i = Done a -> a = DB_FULL) /\
  (forall i st e, procs s i <> Fail st e) /\
  quick_admissible (w_cur w) (file s).
Proof.
  intros g w c sched Hok Ha Hc Hs. destruct (qinv_run g w c sched Hok Ha Hc Hs) as [_ R].
  split; [apply (qr_done _ _ R)|]. split; [apply (qr_nofail _ _ R)|apply (qr_file _ _ R)].
Qed.

Lemma concurrent_data_gen : forall g w c sched, data_ok g = true -> data_admissible (w_cur w) (w_src w) c -> not_open c ->
  sched_ok sched ->
  let s := run g w (init_sys c DStart) sched in
  (forall i a, procs s i = Done a -> a = w_src w (w_key w i)) /\
  data_admissible (w_cur w) (w_src w) (file s) /\
  (forall i st e, procs s i = Fail st e ->
     st = S_HANDLER_RM /\ e = EXN_FileNotFoundError /\ guarded (i_hrm_guard g) EXN_FileNotFoundError = false).
Proof.
  intros g w c sched Hok Ha Hc Hs. destruct (dinv_run g w c sched Hok Ha Hc Hs) as [_ R].
  split; [apply (dr_done _ _ _ R)|]. split; [apply (dr_file _ _ _ R)|apply (dr_fail _ _ _ R)].
Qed.

Lemma concurrent_data_full_gen : forall g w c sched, data_ok g = true ->
  guarded (i_hrm_guard g) EXN_FileNotFoundError = true ->
  data_admissible (w_cur w) (w_src w) c -> not_open c -> sched_ok sched ->
  let s := run g w (init_sys c DStart) sched in
  (forall i a, procs s i = Done a -> a = w_src w (w_key w i)) /\
  (forall i st e, procs s i <> Fail st e) /\
  data_admissible (w_cur w) (w_src w) (file s).
Proof.
  intros g w c sched Hok Hg Ha Hc Hs. destruct (concurrent_data_gen g w c sched Hok Ha Hc Hs) as (H1 & H2 & H3).
  split; [assumption|]. split; [|assumption]. intros i st e E. destruct (H3 _ _ _ E) as (_ & _ & Hf). congruence.
Qed.

(* ---- crash points *)
Lemma crash_prefix_gen : forall g w s i e s', linv s -> step g w s i (ACrash e) = Some s' ->
  procs s' i = Killed /\ (forall j, j <> i -> procs s' j = procs s j) /\
  lock s' <> Some i /\
  (file s' = file s \/ file s = CPartial i /\ file s' = CDamaged e) /\
  file s' <> CPartial i.
Proof.
  intros g w s i e s' L Hstep. destruct (crash_shape g w s i e s' L Hstep) as (Hfin & Hp & Hl & Hf).
  rewrite Hp. unfold upd. rewrite Nat.eqb_refl. split; [reflexivity|]. split.
  { intros j Hj. destruct (Nat.eqb_spec j i); [contradiction|reflexivity]. }
  split.
  { rewrite Hl. destruct (holding (procs s i)) eqn:Hh; [discriminate|]. intros Hli.
    rewrite (li_lock2 _ L _ Hli) in Hh. discriminate. }
  destruct Hf as [[E Hne]|(E1 & E2 & E3)].
  - split; [left; assumption|]. rewrite E. intros Hk. exact (Hne _ Hk eq_refl).
  - split; [right; auto|]. rewrite E3. discriminate.
Qed.

(* ---- progress: no deadlock, bounded work *)
Definition plain (a : action) : bool := match a with ACrash _ | ATimeout => false | _ => true end.

Definition can_move (g : config) (w : world) (s : sys) (i : nat) : Prop :=
  exists a s', plain a = true /\ step g w s i a = Some s'.

Definition measure (w : world) (p : pc) : nat :=
  let c := w_chunks w in
  match p with
  | QStart => 9 + c | QWantR => 8 + c | QHoldR => 7 + c | QGotR _ => 6 + c | QWantW => 5 + c | QHoldW => 4 + c
  | QWriting k => 2 + k | QClosed => 1
  | DStart => 20 + c | DWantR => 19 + c | DHoldR => 18 + c | DGotR _ => 17 + c | DStaleRm => 16 + c
  | DHandler => 15 + c | DHandlerRm => 14 + c
  | MWant _ => 6 + c | MHold _ => 5 + c | MMerged _ => 4 + c | MWriting _ k => 2 + k | MClosed _ => 1
  | Done _ | Fail _ _ | Killed => 0
  end%nat.

Lemma ready_measure : forall w i m, (measure w (ready w i m) <= 6 + w_chunks w)%nat.
Proof. intros. unfold ready. destruct (lookup (w_key w i) m); simpl; lia. Qed.

Lemma holder_can_move : forall g w s j, holding (procs s j) = true -> can_move g w s j.
Proof.
  intros g w s j Hh. unfold can_move, step. destruct (procs s j) eqn:Hp; try discriminate Hh.
  - exists (AReadAll CMissing). eexists. split; reflexivity.
  - exists ARelease. eexists. split; reflexivity.
  - exists ATruncOpen. eexists. split; reflexivity.
  - destruct k; [exists AClose|exists AWriteChunk]; eexists; split; reflexivity.
  - exists ARelease. eexists. split; reflexivity.
  - exists (AReadAll CMissing). eexists. split; reflexivity.
  - exists ARelease. eexists. split; reflexivity.
  - exists (AReadAll CMissing). destruct (make_eval g (w_cur w) m (observe s j CMissing)); eexists; split; reflexivity.
  - exists ATruncOpen. eexists. split; reflexivity.
  - destruct k; [exists AClose|exists AWriteChunk]; eexists; split; reflexivity.
  - exists ARelease. eexists. split; reflexivity.
Qed.

Lemma progress_gen : forall g w s i, linv s -> final (procs s i) = false ->
  can_move g w s i \/ exists j, j <> i /\ lock s = Some j /\ can_move g w s j.
Proof.
  intros g w s i L Hfin.
  destruct (holding (procs s i)) eqn:Hh; [left; apply holder_can_move; assumption|].
  assert (Hwait : forall b, (exists s', acquire b s i = Some s') \/ exists j, j <> i /\ lock s = Some j /\ can_move g w s j).
  { intros b. unfold acquire, lock_free. destruct b; [|left; eexists; reflexivity].
    destruct (lock s) as [j|] eqn:Hl; [right|left; eexists; reflexivity].
    exists j. pose proof (li_lock2 _ L _ Hl) as Hj. split; [|split; [reflexivity|apply holder_can_move; assumption]].
    intros ->. rewrite Hj in Hh. discriminate. }
  unfold can_move, step. destruct (procs s i) eqn:Hp; try discriminate Hh; try discriminate Hfin.
  - left. exists AExists. eexists. split; reflexivity.
  - destruct (Hwait (q_read_locked g)) as [[s' E]|H]; [left|right; assumption].
    exists AAcquire. rewrite E. eexists. split; reflexivity.
  - destruct (Hwait (q_write_locked g)) as [[s' E]|H]; [left|right; assumption].
    exists AAcquire. rewrite E. eexists. split; reflexivity.
  - left. exists AExists. eexists. split; reflexivity.
  - destruct (Hwait (i_read_locked g)) as [[s' E]|H]; [left|right; assumption].
    exists AAcquire. rewrite E. eexists. split; reflexivity.
  - left. exists ARemove. destruct (exists_file s); eexists; split; reflexivity.
  - left. exists AExists. eexists. split; reflexivity.
  - left. exists ARemove. destruct (exists_file s); eexists; split; reflexivity.
  - destruct (Hwait (m_locked g)) as [[s' E]|H]; [left|right; assumption].
    exists AAcquire. rewrite E. eexists. split; reflexivity.
Qed.

Lemma set_pc_other : forall s i p j, j <> i -> procs (set_pc s i p) j = procs s j.
Proof. intros. simpl. unfold upd. destruct (Nat.eqb_spec j i); [contradiction|reflexivity]. Qed.
Lemma set_pc_self : forall s i p, procs (set_pc s i p) i = p.
Proof. intros. simpl. unfold upd. rewrite Nat.eqb_refl. reflexivity. Qed.

Lemma release_procs : forall b s i, procs (release b s i) = procs s.
Proof. intros. unfold release. destruct b; [|reflexivity]. destruct (lock s); [|reflexivity]. destruct (Nat.eqb n i); reflexivity. Qed.

Lemma acquire_procs : forall b s i s', acquire b s i = Some s' -> procs s' = procs s.
Proof.
  intros b s i s' H. unfold acquire in H. destruct b; [|inversion H; reflexivity].
  destruct (lock_free s); inversion H. reflexivity.
Qed.

Lemma step_measure : forall g w s i a s', step g w s i a = Some s' ->
  (measure w (procs s' i) < measure w (procs s i))%nat /\ forall j, j <> i -> procs s' j = procs s j.
Proof.
  intros g w s i a s' Hstep.
  destruct a.
  10: { rewrite step_crash in Hstep. destruct (final (procs s i)) eqn:Hfin; [discriminate|].
        cbv zeta in Hstep. inversion Hstep; subst s'; clear Hstep. split.
        - rewrite set_pc_self. simpl. destruct (procs s i); simpl in *; try discriminate; lia.
        - intros j Hj. rewrite set_pc_other by assumption.
          destruct (writing (procs s i));
            repeat match goal with
                   | |- context [match lock ?x with _ => _ end] => destruct (lock x)
                   | |- context [if ?b then _ else _] => destruct b
                   end; simpl; rewrite ?close_file_procs; reflexivity. }
  all: unfold step in Hstep; destruct (procs s i) eqn:Hp; try discriminate Hstep;
    try (match type of Hstep with match ?k with O => _ | S _ => _ end = _ => destruct k; try discriminate Hstep end).
  all: try (match type of Hstep with
            | option_map _ (acquire ?b ?ss ?ii) = _ =>
                destruct (acquire b ss ii) as [s0|] eqn:Ea; [|discriminate Hstep];
                pose proof (acquire_procs _ _ _ _ Ea) as Eap; simpl in Hstep
            end).
  all: try (match type of Hstep with (if ?b then _ else None) = _ => destruct b; [|discriminate Hstep] end).
  all: try (match type of Hstep with match ?x with MWrite _ => _ | MSkip => _ | MCrash _ _ => _ end = _ => destruct x end).
  all: try (match type of Hstep with (if ?b then _ else _) = _ => destruct b end).
  all: inversion Hstep; subst s'; clear Hstep.
  all: split; [rewrite set_pc_self|intros j Hj; rewrite set_pc_other by assumption; simpl;
                                   rewrite ?release_procs, ?close_file_procs, ?Eap; reflexivity].
  all: try (simpl; lia).
  all: repeat match goal with
              | |- context [if ?b then _ else _] => destruct b
              | |- context [match ?x with LHit _ => _ | LMiss => _ | LCrash _ _ => _ end] => destruct x
              | |- context [match ?x with EValid _ => _ | EStale => _ | EExn _ _ _ => _ end] => destruct x
              end; try (simpl; lia).
  all: try (pose proof (ready_measure w i []); simpl in *; lia).
  all: try (pose proof (ready_measure w i m); simpl in *; lia).
Qed.
(* ---- the reference of the property: SPSDK_CACHE_DISABLED *)
Lemma cache_transparent_gen : forall g cur c, quick_ok g = true -> disabled_complete g = true ->
  quick_admissible cur c -> fst (quick_start g cur c) = disabled_start g.
Proof.
  intros g cur c Hok Hd Ha. rewrite (quick_start_total g cur c Hok Ha). unfold disabled_start. rewrite Hd. reflexivity.
Qed.

Lemma disabled_refuted_gen : forall g cur, quick_ok g = true -> disabled_complete g = false ->
  exists c, quick_admissible cur c /\ fst (quick_start g cur c) <> disabled_start g.
Proof.
  intros g cur Hok Hd. exists CMissing. split; [exact I|].
  rewrite (quick_start_total g cur CMissing Hok I). unfold disabled_start. rewrite Hd. simpl. discriminate.
Qed.

Lemma eof_is_exception : In EXN_EOFError exception_classes.
Proof. vm_compute. tauto. Qed.

(* ---- the recorded race: two processes, damaged data cache, both reach the except handler *)
Definition w0 : world := h_world 1 0.
Definition race_sched : list (nat * action) :=
  [(0, AExists); (1, AExists); (0, AAcquire); (0, AReadAll CMissing); (0, ARelease);
   (1, AAcquire); (1, AReadAll CMissing); (1, ARelease);
   (0, AExists); (1, AExists); (0, ARemove); (1, ARemove)]%nat.
Definition race_result (g : config) : pc :=
  procs (run g w0 (init_sys (CDamaged EXN_EOFError) DStart) race_sched) 1%nat.

Lemma race_witness : forall g,
  procs (run g w0 (init_sys (CDamaged EXN_EOFError) DStart) race_sched) 1%nat = Fail S_HANDLER_RM EXN_FileNotFoundError ->
  exists c sched, data_admissible (w_cur w0) (w_src w0) c /\ not_open c /\ sched_ok sched /\
                  exists i, procs (run g w0 (init_sys c DStart) sched) i = Fail S_HANDLER_RM EXN_FileNotFoundError.
Proof.
  intros g H. exists (CDamaged EXN_EOFError), race_sched. split; [exact eof_is_exception|].
  split; [intros k; discriminate|]. split.
  - intros ia Hin. simpl in Hin. repeat (destruct Hin as [<-|Hin]; [exact I|]). destruct Hin.
  - exists 1%nat. exact H.
Qed.

(* ---- the lock is what makes it work: the same routine with the read outside the lock *)
Definition unlock_quick_read (g : config) : config := {|
  q_read_locked := false; q_lock_r_guard := q_lock_r_guard g; q_open_r_guard := q_open_r_guard g;
  q_read_guard := q_read_guard g; q_type_guard := q_type_guard g; q_type_exn := q_type_exn g; q_hash_checked := q_hash_checked g;
  q_write_locked := q_write_locked g; q_lock_w_guard := q_lock_w_guard g;
  i_read_locked := i_read_locked g; i_lock_guard := i_lock_guard g; i_open_r_guard := i_open_r_guard g;
  i_read_guard := i_read_guard g; i_type_guard := i_type_guard g; i_type_exn := i_type_exn g; i_hash_checked := i_hash_checked g;
  i_stale_rm_guard := i_stale_rm_guard g; i_hrm_guard := i_hrm_guard g;
  m_locked := m_locked g; m_lock_guard := m_lock_guard g; m_read_guard := m_read_guard g;
  m_type_guard := m_type_guard g; m_type_exn := m_type_exn g; m_outer_guard := m_outer_guard g;
  disabled_complete := disabled_complete g; rebuild_complete := rebuild_complete g |}.

Definition torn_sched : list (nat * action) :=
  [(0, AExists); (0, AAcquire); (0, AReadAll CMissing); (0, ARelease); (0, AAcquire); (0, ATruncOpen);
   (1, AExists); (1, AAcquire); (1, AReadAll (CQuick 1 2)); (1, ARelease)]%nat.
Lemma torn_witness : forall g,
  procs (run (unlock_quick_read g) w0 (init_sys (CQuick 0 0) QStart) torn_sched) 1%nat = Done 2 ->
  exists c sched, quick_admissible (w_cur w0) c /\ not_open c /\ sched_ok sched /\
                  exists i a, procs (run (unlock_quick_read g) w0 (init_sys c QStart) sched) i = Done a /\ a <> DB_FULL.
Proof.
  intros g H. exists (CQuick 0 0), torn_sched. split; [simpl; intros E; discriminate|].
  split; [intros k; discriminate|]. split.
  - intros ia Hin. simpl in Hin. repeat (destruct Hin as [<-|Hin]; [exact I|]). destruct Hin.
  - exists 1%nat, 2. split; [exact H|discriminate].
Qed.

(* ---- non-vacuity of the hypotheses *)
Example sched_ok_example : sched_ok [(0%nat, AExists); (1%nat, ACrash EXN_EOFError); (0%nat, AAcquire)].
Proof. intros ia [<-|[<-|[<-|[]]]]; simpl; try exact I. exact eof_is_exception. Qed.
Example data_admissible_example : data_admissible 1 (fun k => 100 + k) (CData 1 [(0, 100); (3, 103)]).
Proof. intros _ k v [H|[H|[]]]; inversion H; subst; reflexivity. Qed.
Example data_admissible_poisoned_stale : data_admissible 1 (fun k => 100 + k) (CData 0 [(0, 666)]).
Proof. intros H. discriminate. Qed.
(* ---- reachable states of the two systems *)
Definition reachable (g : config) (w : world) (s : sys) : Prop :=
  (exists c sched, quick_admissible (w_cur w) c /\ not_open c /\ sched_ok sched /\ s = run g w (init_sys c QStart) sched) \/
  (exists c sched, data_admissible (w_cur w) (w_src w) c /\ not_open c /\ sched_ok sched /\ s = run g w (init_sys c DStart) sched).

Lemma reachable_linv : forall g w s, quick_ok g = true -> data_ok g = true -> reachable g w s -> linv s.
Proof.
  intros g w s Hq Hd [(c & sched & Ha & Hc & Hs & E)|(c & sched & Ha & Hc & Hs & E)]; subst s.
  - pose proof (qinv_run g w c sched Hq Ha Hc Hs) as [H _]. exact H.
  - pose proof (dinv_run g w c sched Hd Ha Hc Hs) as [H _]. exact H.
Qed.

Lemma crash_prefix_reach : forall g w s i e s', quick_ok g = true -> data_ok g = true -> reachable g w s ->
  step g w s i (ACrash e) = Some s' ->
  procs s' i = Killed /\ (forall j, j <> i -> procs s' j = procs s j) /\
  lock s' <> Some i /\
  (file s' = file s \/ file s = CPartial i /\ file s' = CDamaged e) /\
  file s' <> CPartial i.
Proof. intros g w s i e s' Hq Hd Hr. apply crash_prefix_gen. exact (reachable_linv g w s Hq Hd Hr). Qed.

Lemma progress_reach : forall g w s, quick_ok g = true -> data_ok g = true -> reachable g w s ->
  (forall i, final (procs s i) = false ->
     can_move g w s i \/ exists j, j <> i /\ lock s = Some j /\ can_move g w s j) /\
  (forall i a s', step g w s i a = Some s' ->
     (measure w (procs s' i) < measure w (procs s i))%nat /\ forall j, j <> i -> procs s' j = procs s j).
Proof.
  intros g w s Hq Hd Hr. split.
  - intros i Hf. apply progress_gen; [exact (reachable_linv g w s Hq Hd Hr)|assumption].
  - intros i a s'. apply step_measure.
Qed.

Lemma excludes_reach : forall g w s, quick_ok g = true -> data_ok g = true -> reachable g w s -> excludes s.
Proof. intros g w s Hq Hd Hr. apply linv_excludes. exact (reachable_linv g w s Hq Hd Hr). Qed.
(* ---- corollaries in the shape used by Props/C18 *)
Lemma damaged_replaced_gen : forall g cur src x c, quick_ok g = true -> data_ok g = true ->
  (exists e, c = CDamaged e /\ In e exception_classes) \/ c = CWrongType \/ c = CHollow ->
  snd (quick_start g cur c) = CQuick cur DB_FULL /\
  exists m, snd (data_start g cur src x c) = CData cur m /\ (forall k v, In (k, v) m -> v = src k).
Proof.
  intros g cur src x c Hq Hd Hc.
  assert (Ha : quick_admissible cur c /\ data_admissible cur src c).
  { destruct Hc as [(e & -> & He)|[->| ->]]; simpl; auto. }
  destruct Ha as [Ha1 Ha2]. split.
  - rewrite (quick_start_total g cur c Hq Ha1). reflexivity.
  - destruct (data_start_total g cur src x c Hd Ha2) as (_ & m & E & Hm & _). exists m. split; assumption.
Qed.

Lemma stale_gen : forall g cur src x h p m, quick_ok g = true -> data_ok g = true -> h <> cur ->
  quick_start g cur (CQuick h p) = (Started DB_FULL, CQuick cur DB_FULL) /\
  fst (data_start g cur src x (CData h m)) = Started (src x) /\
  exists m', snd (data_start g cur src x (CData h m)) = CData cur m' /\ (forall k v, In (k, v) m' -> v = src k).
Proof.
  intros g cur src x h p m Hq Hd Hne. split.
  - apply quick_start_total; [assumption|]. simpl. intros E. contradiction.
  - assert (Ha : data_admissible cur src (CData h m)) by (simpl; intros E; contradiction).
    destruct (data_start_total g cur src x _ Hd Ha) as (E1 & m' & E2 & Hm & _). split; [assumption|].
    exists m'. split; assumption.
Qed.

Lemma concurrent_data_answers : forall g w c sched, data_ok g = true -> data_admissible (w_cur w) (w_src w) c -> not_open c ->
  sched_ok sched ->
  let s := run g w (init_sys c DStart) sched in
  (forall i a, procs s i = Done a -> a = w_src w (w_key w i)) /\ data_admissible (w_cur w) (w_src w) (file s).
Proof.
  intros g w c sched Hok Ha Hc Hs. destruct (concurrent_data_gen g w c sched Hok Ha Hc Hs) as (H1 & H2 & _). split; assumption.
Qed.

Lemma concurrent_data_fail : forall g w c sched, data_ok g = true -> data_admissible (w_cur w) (w_src w) c -> not_open c ->
  sched_ok sched ->
  forall i st e, procs (run g w (init_sys c DStart) sched) i = Fail st e ->
  st = S_HANDLER_RM /\ e = EXN_FileNotFoundError /\ guarded (i_hrm_guard g) EXN_FileNotFoundError = false.
Proof.
  intros g w c sched Hok Ha Hc Hs. destruct (concurrent_data_gen g w c sched Hok Ha Hc Hs) as (_ & _ & H3). exact H3.
Qed.

(* ---- a writer that finds a damaged file under the lock rewrites it *)
Lemma make_cache_rewrites_damaged : forall g w s i m e t s', quick_ok g = true -> data_ok g = true -> reachable g w s ->
  procs s i = MHold m -> file s = CDamaged e -> In e exception_classes ->
  step g w s i (AReadAll t) = Some s' ->
  procs s' i = MMerged m /\ file s' = file s.
Proof.
  intros g w s i m e t s' Hq Hd Hr Hp Hf He Hstep. pose proof (reachable_linv g w s Hq Hd Hr) as L.
  assert (Hh : holding (procs s i) = true) by (rewrite Hp; reflexivity).
  assert (Hw : writing (procs s i) = false) by (rewrite Hp; reflexivity).
  destruct (observe_locked s i t L Hh Hw) as [Eo _].
  unfold step in Hstep. rewrite Hp in Hstep. rewrite Eo, Hf in Hstep. simpl in Hstep. unfold make_inner in Hstep.
  dfacts Hd. unfold inner_catches_all in Hmin. apply (proj1 (forallb_forall _ _)) with (x := e) in Hmin; [|exact He].
  destruct (catch_level (m_read_guard g) e) as [[|?]|]; try discriminate. rewrite Hlen in Hstep.
  inversion Hstep; subst s'. split; [apply set_pc_self|reflexivity].
Qed.

(* ---- hypothetical configurations: the two repaired defects, re-introduced on top of whatever the source says *)
Definition with_config (g : config) (hrm : list (list exn)) (dis : bool) : config := {|
  q_read_locked := q_read_locked g; q_lock_r_guard := q_lock_r_guard g; q_open_r_guard := q_open_r_guard g;
  q_read_guard := q_read_guard g; q_type_guard := q_type_guard g; q_type_exn := q_type_exn g; q_hash_checked := q_hash_checked g;
  q_write_locked := q_write_locked g; q_lock_w_guard := q_lock_w_guard g;
  i_read_locked := i_read_locked g; i_lock_guard := i_lock_guard g; i_open_r_guard := i_open_r_guard g;
  i_read_guard := i_read_guard g; i_type_guard := i_type_guard g; i_type_exn := i_type_exn g; i_hash_checked := i_hash_checked g;
  i_stale_rm_guard := i_stale_rm_guard g; i_hrm_guard := hrm;
  m_locked := m_locked g; m_lock_guard := m_lock_guard g; m_read_guard := m_read_guard g;
  m_type_guard := m_type_guard g; m_type_exn := m_type_exn g; m_outer_guard := m_outer_guard g;
  disabled_complete := dis; rebuild_complete := rebuild_complete g |}.

(* os.remove in the except handler of DatabaseData.__init__ without a guarding try *)
Definition unguard_handler_remove (g : config) : config := with_config g [] (disabled_complete g).
(* the cache-disabled branch building the quick info from a database whose devices were not loaded *)
Definition disabled_not_loaded (g : config) : config := with_config g (i_hrm_guard g) false.

Lemma quick_ok_with_config : forall g hrm dis, quick_ok (with_config g hrm dis) = quick_ok g.
Proof. intros. reflexivity. Qed.
