(* Proofs/HabDcdProofs.v -- C07: the DCD command codec of Model/HabModel.v parses back what the HAB TLV encoding says. *)
From Coq Require Import ZArith NArith List Bool Lia ZifyBool.
Require Import Value Bytes BytesProofs HabModel HabProofs.
Import ListNotations.
Local Open Scope Z_scope.
Ltac Zify.zify_post_hook ::= Z.to_euclidean_division_equations.

(* ------------------------------------------------------------------ reading a TLV header *)
Lemma hdr_tag t L p r : fits 1 t = true -> hbyte (hdr t L p ++ r) 0 = t.
Proof. intros F. unfold hdr. rewrite <- !app_assoc. apply (hbyte_mid [] t); [reflexivity | assumption]. Qed.
Lemma hdr_len t L p r : fits 2 L = true -> u16be_at (hdr t L p ++ r) 1 = L.
Proof. intros F. unfold hdr. rewrite <- !app_assoc. apply (u16be_at_mid (hbe 1 t)); [apply hlen_hbe | assumption]. Qed.
Lemma hdr_par t L p r : fits 1 p = true -> hbyte (hdr t L p ++ r) 3 = p.
Proof.
  intros F. unfold hdr. rewrite <- !app_assoc. rewrite (app_assoc (hbe 1 t)). apply hbyte_mid; [|assumption].
  rewrite hlen_app, !hlen_hbe. reflexivity.
Qed.
Lemma have_app_l x r off n : off + n <= hlen x -> have (x ++ r) off n = true.
Proof. intros. apply have_true. rewrite hlen_app. pose proof (hlen_nonneg r). lia. Qed.

(* ------------------------------------------------------------------ specification of the DCD commands (HAB4 TLV encoding) *)
Inductive dcmd :=
| DWrite (nb ops : Z) (pairs : list (Z * Z))
| DCheck (nb ops addr mask : Z) (count : option Z)
| DNop (par : Z)
| DUnlock (eng feat uid : Z).

Definition wpar (nb ops : Z) : Z := ops * 8 + nb.
Definition pairs_bytes (pairs : list (Z * Z)) : list N := concat (map (fun p => hbe 4 (fst p) ++ hbe 4 (snd p)) pairs).
Fixpoint flat (pairs : list (Z * Z)) : list Z := match pairs with [] => [] | p :: t => fst p :: snd p :: flat t end.

Definition dcmd_bytes (d : dcmd) : list N :=
  match d with
  | DWrite nb ops pairs => hdr 204 (4 + 8 * hlen pairs) (wpar nb ops) ++ pairs_bytes pairs
  | DCheck nb ops a m cnt => hdr 207 (match cnt with Some _ => 16 | None => 12 end) (wpar nb ops) ++ hbe 4 a ++ hbe 4 m
                             ++ match cnt with Some n => hbe 4 n | None => [] end
  | DNop par => hdr 192 4 par
  | DUnlock eng feat uid => hdr 178 (if need_uid eng feat then 16 else 8) eng ++ hbe 4 feat
                            ++ (if need_uid eng feat then hbe 8 uid else [])
  end.

Definition nb_ok (nb ops : Z) : Prop := (nb = 1 \/ nb = 2 \/ nb = 4) /\ 0 <= ops <= 3.
Definition dcmd_wf (d : dcmd) : Prop :=
  match d with
  | DWrite nb ops pairs => nb_ok nb ops /\ Forall (fun p => fits 4 (fst p) = true /\ fits 4 (snd p) = true) pairs /\ 4 + 8 * hlen pairs < 65536
  | DCheck nb ops a m cnt => nb_ok nb ops /\ fits 4 a = true /\ fits 4 m = true /\
                             match cnt with Some n => 0 < n /\ fits 4 n = true | None => True end
  | DNop par => fits 1 par = true
  | DUnlock eng feat uid => engine_known eng = true /\ fits 1 eng = true /\ fits 4 feat = true /\ fits 8 uid = true /\
                            (need_uid eng feat = false -> uid = 0)
  end.

(* what the model's parser builds for a command *)
Definition dcmd_pcmd (d : dcmd) : pcmd :=
  match d with
  | DWrite nb ops pairs => {| pc_tag := 204; pc_size := 4 + 8 * hlen pairs; pc_bytes := dcmd_bytes d; pc_par := wpar nb ops;
                              pc_loc := -1; pc_fmt := 0; pc_fields := flat pairs |}
  | DCheck nb ops a m cnt => {| pc_tag := 207; pc_size := (match cnt with Some _ => 16 | None => 12 end); pc_bytes := dcmd_bytes d;
                                pc_par := wpar nb ops; pc_loc := -1; pc_fmt := 0;
                                pc_fields := [a; m; match cnt with Some n => n | None => -1 end] |}
  | DNop par => {| pc_tag := 192; pc_size := 4; pc_bytes := dcmd_bytes d; pc_par := par; pc_loc := -1; pc_fmt := 0; pc_fields := [] |}
  | DUnlock eng feat uid => {| pc_tag := 178; pc_size := (if need_uid eng feat then 16 else 8); pc_bytes := dcmd_bytes d; pc_par := eng;
                               pc_loc := -1; pc_fmt := 0; pc_fields := [feat; uid] |}
  end.

Lemma wpar_fits nb ops : nb_ok nb ops -> fits 1 (wpar nb ops) = true /\
  Z.land (wpar nb ops) 7 = nb /\ Z.land (Z.shiftr (wpar nb ops) 3) 3 = ops /\ Z.lor (Z.shiftl ops 3) nb = wpar nb ops /\
  existsb (Z.eqb nb) [1; 2; 4] = true.
Proof.
  intros [[-> | [-> | ->]] Ho]; assert (ops = 0 \/ ops = 1 \/ ops = 2 \/ ops = 3) as [-> | [-> | [-> | ->]]] by lia;
    repeat split; reflexivity.
Qed.

Lemma hlen_pairs_bytes pairs : hlen (pairs_bytes pairs) = 8 * hlen pairs.
Proof.
  induction pairs as [|p t IH]; [reflexivity|]. unfold pairs_bytes in *. cbn [map concat].
  rewrite !hlen_app, !hlen_hbe, IH, hlen_cons. lia.
Qed.

Lemma flat_bytes pairs : concat (map (hbe 4) (flat pairs)) = pairs_bytes pairs.
Proof.
  induction pairs as [|p t IH]; [reflexivity|]. unfold pairs_bytes in *. cbn [flat map concat]. rewrite IH. now rewrite <- app_assoc.
Qed.

Lemma hlen_flat pairs : hlen (flat pairs) = 2 * hlen pairs.
Proof. induction pairs as [|p t IH]; [reflexivity|]. cbn [flat]. rewrite !hlen_cons, IH. lia. Qed.

(* the pair loop of CmdWriteData.parse *)
Lemma pairs_be_spec pairs : forall fuel pre post idx,
  Forall (fun p => fits 4 (fst p) = true /\ fits 4 (snd p) = true) pairs ->
  hlen pre = idx -> (length pairs < fuel)%nat ->
  pairs_be fuel (pre ++ pairs_bytes pairs ++ post) idx (idx + 8 * hlen pairs) = Ok (flat pairs).
Proof.
  induction pairs as [|p t IH]; intros fuel pre post idx HF Hp Hf.
  - destruct fuel; [reflexivity|]. cbn [pairs_be]. change (hlen (@nil (Z * Z))) with 0. replace (idx <? idx + 8 * 0) with false by lia. reflexivity.
  - destruct fuel as [|fuel]; [cbn in Hf; lia|]. apply Forall_cons_iff in HF as [[Fa Fv] HF'].
    cbn [pairs_be]. rewrite hlen_cons. pose proof (hlen_nonneg t) as Ht.
    replace (idx <? idx + 8 * (1 + hlen t)) with true by lia.
    unfold pairs_bytes. cbn [map concat]. fold (pairs_bytes t).
    rewrite have_true by (rewrite !hlen_app, !hlen_hbe, Hp; pose proof (hlen_nonneg (pairs_bytes t)); pose proof (hlen_nonneg post); lia).
    cbn [negb].
    assert (E1 : u32be_at (pre ++ ((hbe 4 (fst p) ++ hbe 4 (snd p)) ++ pairs_bytes t) ++ post) idx = fst p).
    { rewrite <- !app_assoc. now apply u32be_at_mid. }
    assert (E2 : u32be_at (pre ++ ((hbe 4 (fst p) ++ hbe 4 (snd p)) ++ pairs_bytes t) ++ post) (idx + 4) = snd p).
    { rewrite <- !app_assoc. rewrite (app_assoc pre). apply u32be_at_mid; [|assumption]. rewrite hlen_app, hlen_hbe. lia. }
    rewrite E1, E2.
    assert (E3 : pre ++ ((hbe 4 (fst p) ++ hbe 4 (snd p)) ++ pairs_bytes t) ++ post
                 = (pre ++ hbe 4 (fst p) ++ hbe 4 (snd p)) ++ pairs_bytes t ++ post) by now rewrite <- !app_assoc.
    rewrite E3. replace (idx + 8 * (1 + hlen t)) with (idx + 8 + 8 * hlen t) by lia.
    rewrite IH; [reflexivity | assumption | rewrite !hlen_app, !hlen_hbe; lia | cbn [length] in Hf; lia].
Qed.

Lemma tag_known_204 : existsb (Z.eqb 204) [177; 190; 202; 204; 207; 192; 180; 178] = true. Proof. reflexivity. Qed.

Ltac parse_header T L P :=
  unfold cmd_parse; rewrite <- ?app_assoc;
  rewrite (have_app_l (hdr T L P)) by (rewrite hlen_hdr; lia); cbn [negb];
  rewrite hdr_tag by reflexivity;
  match goal with |- context[existsb (Z.eqb T) ?l] => change (existsb (Z.eqb T) l) with true end; cbn [negb];
  rewrite (have_app_l (hdr T L P)) by (rewrite hlen_hdr; lia); cbn [negb];
  rewrite hdr_len, hdr_par by (try assumption; apply fits_spec; change (2 ^ (8 * Z.of_nat 2)) with 65536; lia).

Lemma cmd_parse_write nb ops pairs rest : dcmd_wf (DWrite nb ops pairs) ->
  cmd_parse (dcmd_bytes (DWrite nb ops pairs) ++ rest) = Ok (dcmd_pcmd (DWrite nb ops pairs)).
Proof.
  intros (Hn & HF & HL). destruct (wpar_fits nb ops Hn) as (Fp & E1 & E2 & E3 & E4).
  pose proof (hlen_nonneg pairs) as Hp. cbn [dcmd_bytes].
  parse_header 204 (4 + 8 * hlen pairs) (wpar nb ops).
  replace (4 + 8 * hlen pairs <? 4) with false by lia. cbn iota.
  change (204 =? 204) with true. cbn iota. rewrite E1, E2, E4. cbn [negb].
  rewrite (pairs_be_spec pairs _ (hdr 204 (4 + 8 * hlen pairs) (wpar nb ops)) rest 4 HF (hlen_hdr _ _ _)).
  2:{ pose proof (hlen_pairs_bytes pairs) as Hb. pose proof (hlen_nonneg rest) as Hr.
      assert (Hl : hlen (hdr 204 (4 + 8 * hlen pairs) (wpar nb ops) ++ pairs_bytes pairs ++ rest) = 4 + 8 * hlen pairs + hlen rest)
        by (rewrite !hlen_app, hlen_hdr, Hb; lia).
      unfold hlen in *. lia. }
  cbn [bind]. rewrite hlen_flat, flat_bytes, E3. cbn [dcmd_pcmd dcmd_bytes].
  replace (4 + 4 * (2 * hlen pairs)) with (4 + 8 * hlen pairs) by lia. reflexivity.
Qed.

Lemma cmd_parse_nop par rest : dcmd_wf (DNop par) -> cmd_parse (dcmd_bytes (DNop par) ++ rest) = Ok (dcmd_pcmd (DNop par)).
Proof.
  intros Fp. cbn [dcmd_bytes dcmd_wf] in *.
  unfold cmd_parse.
  rewrite (have_app_l (hdr 192 4 par)) by (rewrite hlen_hdr; lia). cbn [negb].
  rewrite hdr_tag by reflexivity.
  change (existsb (Z.eqb 192) [177; 190; 202; 204; 207; 192; 180; 178]) with true. cbn [negb].
  rewrite (have_app_l (hdr 192 4 par)) by (rewrite hlen_hdr; lia). cbn [negb].
  rewrite hdr_len, hdr_par by (try assumption; reflexivity).
  change (4 <? 4) with false. cbn iota.
  change (192 =? 204) with false. change (192 =? 207) with false. change (192 =? 192) with true. cbn iota. reflexivity.
Qed.

Lemma cmd_parse_check nb ops a m cnt rest : dcmd_wf (DCheck nb ops a m cnt) ->
  cmd_parse (dcmd_bytes (DCheck nb ops a m cnt) ++ rest) = Ok (dcmd_pcmd (DCheck nb ops a m cnt)).
Proof.
  intros (Hn & Fa & Fm & Hc). destruct (wpar_fits nb ops Hn) as (Fp & E1 & E2 & E3 & E4).
  cbn [dcmd_bytes]. set (L := match cnt with Some _ => 16 | None => 12 end).
  assert (HL : L = 12 \/ L = 16) by (destruct cnt; unfold L; lia).
  set (tail := match cnt with Some n => hbe 4 n | None => [] end).
  parse_header 207 L (wpar nb ops).
  replace (L <? 4) with false by lia. cbn iota.
  change (207 =? 204) with false. change (207 =? 207) with true. cbn iota.
  rewrite E1, E2, E4.
  assert (Ea : forall r, u32be_at (hdr 207 L (wpar nb ops) ++ hbe 4 a ++ r) 4 = a)
    by (intros r; apply u32be_at_mid; [apply hlen_hdr | assumption]).
  assert (Em : forall r, u32be_at (hdr 207 L (wpar nb ops) ++ hbe 4 a ++ hbe 4 m ++ r) 8 = m).
  { intros r. rewrite (app_assoc (hdr 207 L (wpar nb ops))). apply u32be_at_mid; [|assumption]. rewrite hlen_app, hlen_hdr, hlen_hbe. reflexivity. }
  rewrite !Ea, !Em.
  rewrite have_true by (rewrite !hlen_app, hlen_hdr, !hlen_hbe; pose proof (hlen_nonneg tail); pose proof (hlen_nonneg rest); lia). cbn [negb].
  unfold L, tail in *. destruct cnt as [n|].
  - destruct Hc as [Hn0 Fn]. change (8 <? 16 - 4) with true. cbn [andb].
    rewrite have_true by (rewrite !hlen_app, hlen_hdr, !hlen_hbe; pose proof (hlen_nonneg rest); lia). cbn [negb].
    assert (En : u32be_at (hdr 207 16 (wpar nb ops) ++ hbe 4 a ++ hbe 4 m ++ hbe 4 n ++ rest) 12 = n).
    { rewrite (app_assoc (hbe 4 a)). rewrite (app_assoc (hdr 207 16 (wpar nb ops))). apply u32be_at_mid; [|assumption].
      rewrite !hlen_app, hlen_hdr, !hlen_hbe. reflexivity. }
    rewrite En. replace (n =? 0) with false by lia. cbn [negb andb]. cbn [dcmd_pcmd dcmd_bytes]. rewrite E3.
    change (12 + 4) with 16. reflexivity.
  - change (8 <? 12 - 4) with false. cbn [andb negb]. cbn [dcmd_pcmd dcmd_bytes]. rewrite E3.
    change (12 + 0) with 12. now rewrite !app_nil_r.
Qed.

Lemma u64be_at_mid pre x post a : hlen pre = a -> fits 8 x = true -> u64be_at (pre ++ hbe 8 x ++ post) a = x.
Proof. intros Ha Hx. unfold u64be_at. rewrite (hslice_mid pre (hbe 8 x) post a (a + 8)); [now apply hdec_be_hbe | assumption | rewrite hlen_hbe; lia]. Qed.

Lemma cmd_parse_unlock eng feat uid rest : dcmd_wf (DUnlock eng feat uid) ->
  cmd_parse (dcmd_bytes (DUnlock eng feat uid) ++ rest) = Ok (dcmd_pcmd (DUnlock eng feat uid)).
Proof.
  intros (Hk & Fe & Ff & Fu & Hu). cbn [dcmd_bytes].
  set (L := if need_uid eng feat then 16 else 8). assert (HL : L = 8 \/ L = 16) by (unfold L; destruct (need_uid eng feat); lia).
  set (tail := if need_uid eng feat then hbe 8 uid else []).
  parse_header 178 L eng.
  replace (L <? 4) with false by lia. cbn iota.
  change (178 =? 204) with false. change (178 =? 207) with false. change (178 =? 192) with false. change (178 =? 178) with true.
  cbn iota.
  rewrite have_true by (rewrite !hlen_app, hlen_hdr, !hlen_hbe; pose proof (hlen_nonneg tail); pose proof (hlen_nonneg rest); lia).
  cbn [negb]. rewrite Hk. cbn [negb].
  assert (Efe : forall r, u32be_at (hdr 178 L eng ++ hbe 4 feat ++ r) 4 = feat)
    by (intros r; apply u32be_at_mid; [apply hlen_hdr | assumption]).
  rewrite !Efe. unfold L, tail in *. cbn [dcmd_pcmd dcmd_bytes].
  destruct (need_uid eng feat) eqn:En.
  - rewrite have_true by (rewrite !hlen_app, hlen_hdr, !hlen_hbe; pose proof (hlen_nonneg rest); lia). cbn [negb andb].
    assert (Eu : u64be_at (hdr 178 16 eng ++ hbe 4 feat ++ hbe 8 uid ++ rest) 8 = uid).
    { rewrite (app_assoc (hdr 178 16 eng)). apply u64be_at_mid; [|assumption]. rewrite hlen_app, hlen_hdr, hlen_hbe. reflexivity. }
    rewrite Eu. reflexivity.
  - cbn [andb]. rewrite (Hu eq_refl). now rewrite !app_nil_r.
Qed.

Theorem cmd_parse_spec d rest : dcmd_wf d -> cmd_parse (dcmd_bytes d ++ rest) = Ok (dcmd_pcmd d).
Proof.
  destruct d; intros H; [now apply cmd_parse_write | now apply cmd_parse_check | now apply cmd_parse_nop | now apply cmd_parse_unlock].
Qed.

Lemma pcmd_size_bytes d : dcmd_wf d -> pc_size (dcmd_pcmd d) = hlen (dcmd_bytes d) /\ 4 <= pc_size (dcmd_pcmd d) /\
  pc_bytes (dcmd_pcmd d) = dcmd_bytes d /\ existsb (Z.eqb (pc_tag (dcmd_pcmd d))) dcd_tags = true.
Proof.
  destruct d; intros H; cbn [dcmd_pcmd dcmd_bytes pc_size pc_bytes pc_tag].
  - pose proof (hlen_nonneg pairs). rewrite hlen_app, hlen_hdr, hlen_pairs_bytes. repeat split; try lia.
  - destruct count; rewrite !hlen_app, hlen_hdr, !hlen_hbe; change (hlen (@nil N)) with 0; repeat split; lia.
  - rewrite hlen_hdr. repeat split; lia.
  - destruct (need_uid eng feat); rewrite !hlen_app, hlen_hdr, !hlen_hbe; change (hlen (@nil N)) with 0; repeat split; lia.
Qed.

Definition cmds_bytes (cmds : list dcmd) : list N := concat (map dcmd_bytes cmds).
Definition cmds_size (cmds : list dcmd) : Z := fold_right (fun c a => pc_size (dcmd_pcmd c) + a) 0 cmds.

Lemma hlen_cmds_bytes cmds : Forall dcmd_wf cmds -> hlen (cmds_bytes cmds) = cmds_size cmds /\ 0 <= cmds_size cmds.
Proof.
  induction 1 as [|c t Hc _ IH]; [split; [reflexivity | cbn; lia]|]. unfold cmds_bytes, cmds_size in *. cbn [map concat fold_right].
  destruct (pcmd_size_bytes c Hc) as (E & G & _). rewrite hlen_app, <- E. destruct IH. split; lia.
Qed.

Lemma cmds_parse_spec cmds : forall fuel pre post idx, Forall dcmd_wf cmds -> hlen pre = idx -> (length cmds < fuel)%nat ->
  cmds_parse fuel (pre ++ cmds_bytes cmds ++ post) idx (idx + cmds_size cmds) = Ok (map dcmd_pcmd cmds).
Proof.
  induction cmds as [|c t IH]; intros fuel pre post idx HF Hp Hf.
  - destruct fuel; [cbn in Hf; lia|]. cbn [cmds_parse cmds_size fold_right]. replace (idx <? idx + 0) with false by lia. reflexivity.
  - destruct fuel as [|fuel]; [cbn in Hf; lia|]. apply Forall_cons_iff in HF as [Hc HF'].
    destruct (pcmd_size_bytes c Hc) as (E & G & _). destruct (hlen_cmds_bytes t HF') as [Et Gt].
    cbn [cmds_parse cmds_size fold_right]. fold (cmds_size t).
    replace (idx <? idx + (pc_size (dcmd_pcmd c) + cmds_size t)) with true by lia.
    unfold cmds_bytes. cbn [map concat]. fold (cmds_bytes t). rewrite <- app_assoc.
    rewrite (hskip_app pre) by assumption. rewrite cmd_parse_spec by assumption. cbn [bind].
    assert (E3 : pre ++ dcmd_bytes c ++ cmds_bytes t ++ post = (pre ++ dcmd_bytes c) ++ cmds_bytes t ++ post) by now rewrite <- app_assoc.
    rewrite E3. replace (idx + (pc_size (dcmd_pcmd c) + cmds_size t)) with (idx + pc_size (dcmd_pcmd c) + cmds_size t) by lia.
    rewrite IH; [reflexivity | assumption | rewrite hlen_app; lia | cbn [length] in Hf; lia].
Qed.

(* specification encoding of a DCD: header (tag 0xD2, total length, version) followed by the commands *)
Definition dcd_bytes (ver : Z) (cmds : list dcmd) : list N := hdr 210 (4 + cmds_size cmds) ver ++ cmds_bytes cmds.
Definition dcd_obj (ver : Z) (cmds : list dcmd) : dcd := {| dc_par := ver; dc_cmds := map dcmd_pcmd cmds |}.
Definition dcd_wf (ver : Z) (cmds : list dcmd) : Prop := fits 1 ver = true /\ Forall dcmd_wf cmds /\ 4 + cmds_size cmds < 65536.

Lemma dcd_obj_size ver cmds : dcd_size (dcd_obj ver cmds) = 4 + cmds_size cmds.
Proof. unfold dcd_size, dcd_obj, cmds_size. cbn [dc_cmds]. f_equal. induction cmds as [|c t IH]; [reflexivity|]. cbn [map fold_right]. now rewrite IH. Qed.

Lemma dcd_obj_export ver cmds : Forall dcmd_wf cmds -> dcd_export (dcd_obj ver cmds) = dcd_bytes ver cmds.
Proof.
  intros HF. unfold dcd_export, dcd_bytes. rewrite dcd_obj_size. f_equal. unfold dcd_obj, cmds_bytes. cbn [dc_cmds].
  induction HF as [|c t Hc _ IH]; [reflexivity|]. cbn [map concat]. rewrite IH.
  destruct (pcmd_size_bytes c Hc) as (_ & _ & -> & _). reflexivity.
Qed.

(* SegDCD.parse of a specification-encoded DCD (followed by anything) gives the command objects, and their export is the input *)
Theorem dcd_parse_spec ver cmds rest : dcd_wf ver cmds ->
  dcd_parse (dcd_bytes ver cmds ++ rest) = Ok (dcd_obj ver cmds) /\ dcd_export (dcd_obj ver cmds) = dcd_bytes ver cmds.
Proof.
  intros (Fv & HF & HL). split; [|now apply dcd_obj_export].
  destruct (hlen_cmds_bytes cmds HF) as [Ec Gc].
  unfold dcd_parse, dcd_bytes. rewrite <- app_assoc.
  rewrite (have_app_l (hdr 210 (4 + cmds_size cmds) ver)) by (rewrite hlen_hdr; lia). cbn [negb].
  rewrite hdr_tag by reflexivity. change (210 =? 210) with true. cbn [negb].
  rewrite hdr_len, hdr_par by (try assumption; apply fits_spec; change (2 ^ (8 * Z.of_nat 2)) with 65536; lia).
  replace (4 + cmds_size cmds <? 4) with false by lia. cbn iota.
  rewrite (cmds_parse_spec cmds _ (hdr 210 (4 + cmds_size cmds) ver) rest 4 HF (hlen_hdr _ _ _)).
  2:{ assert (Hl : hlen (hdr 210 (4 + cmds_size cmds) ver ++ cmds_bytes cmds ++ rest) = 4 + cmds_size cmds + hlen rest)
        by (rewrite !hlen_app, hlen_hdr, Ec; lia).
      assert (Hn : Z.of_nat (length cmds) <= cmds_size cmds).
      { clear -HF. induction HF as [|c t Hc _ IH]; [cbn; lia|]. unfold cmds_size in *. cbn [fold_right length].
        destruct (pcmd_size_bytes c Hc) as (_ & G & _). lia. }
      pose proof (hlen_nonneg rest). unfold hlen in *. cbn [length]. lia. }
  cbn [bind].
  assert (Ht : forallb (fun c => existsb (Z.eqb (pc_tag c)) dcd_tags) (map dcmd_pcmd cmds) = true).
  { clear -HF. induction HF as [|c t Hc _ IH]; [reflexivity|]. cbn [map forallb]. rewrite IH.
    destruct (pcmd_size_bytes c Hc) as (_ & _ & _ & ->). reflexivity. }
  rewrite Ht. reflexivity.
Qed.

Corollary dcd_spec_stable ver cmds : dcd_wf ver cmds -> dcd_stable (dcd_obj ver cmds).
Proof.
  intros W rest. rewrite (proj2 (dcd_parse_spec ver cmds rest W)). exact (proj1 (dcd_parse_spec ver cmds rest W)).
Qed.

Example dcd_wf_nonvacuous :
  dcd_wf 65 [DWrite 4 0 [(1074774120, 4294967295); (1074774124, 7)]; DCheck 4 1 1074626896 1 (Some 5); DNop 0;
             DUnlock 33 13 1234605616436508552; DUnlock 30 3 0; DCheck 1 3 16 255 None].
Proof.
  unfold dcd_wf. split; [reflexivity|]. split; [|vm_compute; reflexivity].
  repeat (apply Forall_cons; [|]); try apply Forall_nil; unfold dcmd_wf, nb_ok.
  - split; [split; lia|]. split; [|cbn; lia]. repeat (apply Forall_cons; [split; reflexivity|]). apply Forall_nil.
  - repeat split; try reflexivity; lia.
  - reflexivity.
  - repeat split; try reflexivity. intros; discriminate.
  - repeat split; reflexivity.
  - repeat split; try reflexivity; lia.
Qed.

(* the size the DCD object reports (used for the Authenticate Data block) is the number of bytes it exports *)
Lemma dcd_obj_sized ver cmds : Forall dcmd_wf cmds -> dcd_size (dcd_obj ver cmds) = hlen (dcd_bytes ver cmds).
Proof.
  intros HF. rewrite dcd_obj_size. unfold dcd_bytes. rewrite hlen_app, hlen_hdr. now rewrite (proj1 (hlen_cmds_bytes cmds HF)).
Qed.
