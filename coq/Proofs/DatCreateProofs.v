(* Proofs/DatCreateProofs.v -- C15 lemmas about created credentials and the challenge codec. *)
From Coq Require Import ZArith NArith List Bool Lia.
Require Import Value Bytes BytesProofs Sha2 GenRot RotModel GenDat DatModel DatProofs.
Import ListNotations.
Local Open Scope N_scope.
Local Arguments le_enc : simpl never.
Local Arguments le_dec : simpl never.
Local Arguments N.ltb : simpl never.
Local Arguments firstn : simpl never.
Local Arguments skipn : simpl never.
Local Opaque sha256 sha384 sha512 on_curve curve_p curve_b.

Lemma map_res_nth {A B} (f : A -> res B) : forall l r i a,
  map_res f l = Ok r -> nth_error l i = Some a -> exists b, nth_error r i = Some b /\ f a = Ok b.
Proof.
  induction l as [|x l IH]; intros r i a; cbn [map_res].
  - intros _ H. destruct i; discriminate.
  - destruct (f x) as [y|] eqn:E; [|discriminate]. destruct (map_res f l) as [ys|] eqn:E2; [|discriminate].
    intros H; inversion H; subst. destruct i as [|i]; cbn [nth_error].
    + intros H2; inversion H2; subst. exists y. split; [reflexivity|assumption].
    + intros H2. apply (IH ys i a eq_refl H2).
Qed.

(* what a created credential says about its root of trust: the RoT key is the configured one at the used index, and the
   RoT meta names it -- RSA: its SHA-256 record sits at that index of the table; ECC/EdgeLock: the flags word carries the
   used index and the number of keys, the table holds one digest per configured key *)
Lemma dc_names_rot_key_lemma ele cnt socc ks rot_id dck uuid socu vu beacon fca c d :
  dc_create ele cnt socc ks rot_id dck uuid socu vu beacon fca = Ok (c, d) ->
  nth_error ks (N.to_nat rot_id) = Some (d_rot d) /\ d_dck d = dck /\ d_uuid d = uuid /\ d_socc d = socc /\
  length uuid = 16%nat /\ is_ecc_key dck = is_ecc_key (d_rot d) /\ key_bits dck = key_bits (d_rot d) /\
  match c with
  | CRsa => exists items it, d_meta d = RMRsa items /\ map_res dc_rsa_item ks = Ok items
                             /\ nth_error items (N.to_nat rot_id) = Some it /\ dc_rsa_item (d_rot d) = Ok it
  | CEcc => exists hs items, d_meta d = RMEcc hs rot_id (nlen ks) items /\ dc_ecc_items ks = Ok items
                             /\ flags_validate rot_id (nlen ks) = true
  | CEle => exists t, d_meta d = RMEle rot_id (nlen ks) t /\ flags_validate rot_id (nlen ks) = true /\ nlen ks = 4
  end.
Proof.
  unfold dc_create. destruct (nth_error ks (N.to_nat rot_id)) as [rot|] eqn:EN; [|discriminate].
  destruct (version_of_key rot) as [v|]; [|discriminate]. cbn [bind].
  destruct (class_of ele cnt (fst v) (snd v)) as [oc|]; cbn [bind]; [|discriminate].
  destruct (negb (length uuid =? 16)%nat) eqn:EU; [discriminate|].
  destruct (negb (Bool.eqb (is_ecc_key dck) (is_ecc_key rot) && (key_bits dck =? key_bits rot))) eqn:ED; [discriminate|].
  destruct oc as [c'|]; [|discriminate].
  destruct (rot_meta_create c' ks rot_id fca) as [m|] eqn:EM; [|discriminate]. cbn [bind].
  intros H; inversion H; subst. clear H. cbn [d_rot d_dck d_uuid d_socc d_meta].
  apply negb_false_iff, Nat.eqb_eq in EU. apply negb_false_iff, andb_true_iff in ED as [ED1 ED2].
  apply Bool.eqb_prop in ED1. apply N.eqb_eq in ED2.
  split; [reflexivity|]. split; [reflexivity|]. split; [reflexivity|]. split; [reflexivity|]. split; [exact EU|].
  split; [exact ED1|]. split; [exact ED2|].
  destruct c; unfold rot_meta_create in EM.
  - destruct (4 <? nlen ks); [discriminate|]. destruct (map_res dc_rsa_item ks) as [items|] eqn:EI; [|discriminate].
    cbn [bind] in EM. inversion EM; subst. destruct (map_res_nth _ _ _ _ _ EI EN) as (it & Hn & Hi).
    exists items, it. repeat split; assumption.
  - destruct ks as [|k0 t] eqn:EK; [discriminate|]. rewrite <- EK in *.
    destruct (negb (forallb is_ecc_key ks)); [discriminate|].
    destruct (negb (forallb (fun k => N.of_nat (coord_size (key_bits k)) =? N.of_nat (coord_size (key_bits k0))) ks)); [discriminate|].
    destruct (negb (mem_n (N.of_nat (coord_size (key_bits k0))) (map fst g_hash_sizes))); [discriminate|].
    destruct (dc_ecc_items ks) as [items|] eqn:EI; [|discriminate]. cbn [bind] in EM.
    destruct (flags_validate rot_id (nlen ks)) eqn:EF; [|discriminate]. inversion EM; subst.
    exists (N.of_nat (coord_size (key_bits k0))), items. repeat split; reflexivity.
  - destruct (flags_validate rot_id (nlen ks)) eqn:EF; [|discriminate]. cbn [negb] in EM.
    destruct (nlen ks =? 4) eqn:E4; [|discriminate]. cbn [negb] in EM.
    destruct (map_res (srk_rec_of_key fca) ks) as [rs|]; [|discriminate]. cbn [bind] in EM.
    destruct (srk_table_verify _) as [u|]; [|discriminate]. cbn [bind] in EM. inversion EM; subst.
    eexists. repeat split. now apply N.eqb_eq.
Qed.

(* ====================================================================================== *)
(* the challenge: parse (bytes of a challenge) = the challenge                              *)
(* ====================================================================================== *)
Definition wf_dac (a : dac) : Prop :=
  version_ok (a_major a) (a_minor a) = true /\ a_major a < 65536 /\ a_minor a < 65536 /\ u32_ok (a_socc a) /\
  length (a_uuid a) = 16%nat /\ u32_ok (a_revocation a) /\ u32_ok (a_pinned a) /\ u32_ok (a_default a) /\ u32_ok (a_vu a) /\
  length (a_challenge a) = 32%nat /\
  exists s ele cntv sha, find (fun r => fst r =? a_socc a) g_socc_table = Some (s, (ele, cntv, sha, 0))
                         /\ length (a_rkth a) = dac_hash_len ele sha (a_major a) (a_minor a).
Lemma dac_roundtrip_lemma a : wf_dac a -> exists b, dac_export a = Ok b /\ forall extra, dac_parse (b ++ extra) = Ok a.
Proof.
  destruct a as [maj mi socc uuid rev rk pin dfl vu ch]. unfold wf_dac.
  cbn [a_major a_minor a_socc a_uuid a_revocation a_rkth a_pinned a_default a_vu a_challenge].
  intros (Hv & Hmaj & Hmi & Hsocc & Huuid & Hrev & Hpin & Hdfl & Hvu & Hch & (s & ele & cntv & sha & Hfind & Hrk)).
  unfold u32_ok in *.
  set (hv := [XI maj; XI mi; XI socc; XB uuid; XI rev]).
  set (hl := dac_hash_len ele sha maj mi) in *.
  set (tv := [XB rk; XI pin; XI dfl; XI vu; XB ch]).
  assert (HV1 : Forall2 fval_ok dac_head_fmt hv) by (unfold dac_head_fmt, hv; repeat constructor; cbn [fval_ok]; assumption).
  assert (HV2 : Forall2 fval_ok (dac_tail_fmt hl) tv) by (unfold dac_tail_fmt, tv; repeat constructor; cbn [fval_ok]; assumption).
  destruct (pack_total _ _ HV1) as (hb & Ehb). destruct (pack_total _ _ HV2) as (tb & Etb).
  pose proof (pack_length _ _ _ Ehb) as Lhb. change (calcsize dac_head_fmt) with 28%nat in Lhb.
  pose proof (pack_length _ _ _ Etb) as Ltb.
  assert (EX : dac_export {| a_major := maj; a_minor := mi; a_socc := socc; a_uuid := uuid; a_revocation := rev; a_rkth := rk;
                             a_pinned := pin; a_default := dfl; a_vu := vu; a_challenge := ch |} = Ok (hb ++ tb)).
  { unfold dac_export, u16, u32. cbn [a_major a_minor a_socc a_uuid a_revocation a_rkth a_pinned a_default a_vu a_challenge].
    unfold hv, dac_head_fmt in Ehb. unfold tv, dac_tail_fmt in Etb. cbn [pack pack1 bind] in Ehb, Etb.
    apply N.ltb_lt in Hmaj, Hmi, Hsocc, Hrev, Hpin, Hdfl, Hvu.
    rewrite Hmaj, Hmi, Hsocc, Hrev in Ehb. rewrite Hpin, Hdfl, Hvu in Etb. cbn [bind] in Ehb, Etb.
    rewrite Hmaj, Hmi, Hsocc, Hrev, Hpin, Hdfl, Hvu. cbn [bind].
    rewrite (pack_s_exact 16 uuid Huuid) in Ehb. rewrite (pack_s_exact hl rk Hrk), (pack_s_exact 32 ch Hch) in Etb.
    assert (Ehb' : hb = le_enc 2 maj ++ le_enc 2 mi ++ le_enc 4 socc ++ uuid ++ le_enc 4 rev ++ []) by congruence.
    assert (Etb' : tb = rk ++ le_enc 4 pin ++ le_enc 4 dfl ++ le_enc 4 vu ++ ch ++ []) by congruence.
    rewrite Ehb', Etb', !app_nil_r. now rewrite <- !app_assoc. }
  exists (hb ++ tb). split; [exact EX|]. intros extra. unfold dac_parse.
  assert (U1 : unpack_from dac_head_fmt ((hb ++ tb) ++ extra) 0 = Ok hv).
  { rewrite unpack_from_ok by (change (calcsize dac_head_fmt) with 28%nat; rewrite !app_length; lia).
    change (skipn 0 ((hb ++ tb) ++ extra)) with ((hb ++ tb) ++ extra). f_equal. rewrite <- app_assoc.
    exact (struct_roundtrip_lemma _ _ _ _ HV1 Ehb). }
  rewrite U1. cbn [bind]. unfold hv. cbn [nth xi xb]. rewrite Hfind. cbn [N.eqb negb]. fold hl.
  assert (U2 : unpack_from (dac_tail_fmt hl) ((hb ++ tb) ++ extra) 28 = Ok tv).
  { rewrite unpack_from_ok by (rewrite !app_length, Lhb, Ltb; lia).
    rewrite <- app_assoc. rewrite skipn_app_len by (now rewrite Lhb). f_equal. exact (struct_roundtrip_lemma _ _ _ _ HV2 Etb). }
  rewrite U2. cbn [bind]. unfold tv. cbn [nth xi xb]. rewrite Hv. reflexivity.
Qed.
Example wf_dac_nontrivial :
  wf_dac {| a_major := 2; a_minor := 1; a_socc := 4; a_uuid := zeros 16; a_revocation := 1; a_rkth := zeros 48; a_pinned := 2;
            a_default := 3; a_vu := 4; a_challenge := repeat 9 32 |}.
Proof.
  unfold wf_dac, u32_ok. cbn [a_major a_minor a_socc a_uuid a_revocation a_rkth a_pinned a_default a_vu a_challenge].
  repeat split; try lia; try reflexivity. exists 4, 0, 1, 0. split; reflexivity.
Qed.

(* ====================================================================================== *)
(* created credentials parse back (outside the recorded classes)                            *)
(* ====================================================================================== *)
Lemma map_res_total {A B} (f : A -> res B) l : Forall (fun a => exists b, f a = Ok b) l -> exists r, map_res f l = Ok r.
Proof.
  induction l as [|a l IH]; intros HF; [now exists []|]. inversion HF as [|? ? (b & Hb) Hl]; subst.
  destruct (IH Hl) as (r & Hr). exists (b :: r). cbn [map_res]. now rewrite Hb, Hr.
Qed.
Definition rsa_rot_wf (kb : nat) (k : key) : Prop :=
  match k with KRsa n e => N.size n = 8 * N.of_nat kb /\ e < 4294967296 /\ rsa_numbers_ok n e = true | KEcc _ _ _ => False end.
Definition rsa_e3 (k : key) : Prop := match k with KRsa _ e => e < 16777216 | KEcc _ _ _ => False end.

Lemma dc_created_roundtrip_rsa cnt socc ks rot_id dck uuid socu vu beacon fca sig kb mi :
  (kb = 256%nat /\ mi = 0 \/ kb = 512%nat /\ mi = 1) -> (length ks <= 4)%nat ->
  (exists rot, nth_error ks (N.to_nat rot_id) = Some rot /\ rsa_rot_wf kb rot) -> Forall rsa_e3 ks ->
  (forall items, map_res dc_rsa_item ks = Ok items -> Forall (fun it => all_zero it = false) items) ->
  rsa_rot_wf kb dck -> length uuid = 16%nat -> u32_ok socc -> u32_ok socu -> u32_ok vu -> u32_ok beacon -> length sig = kb ->
  exists d b, dc_create 0 cnt socc ks rot_id dck uuid socu vu beacon fca = Ok (CRsa, d)
              /\ dc_export CRsa (dc_with_sig d sig) = Ok b /\ forall extra, dc_parse_class CRsa (b ++ extra) = Ok (dc_with_sig d sig).
Proof.
  intros Hk HL (rot & EN & Hrot) He3 HZ Hdck0 Huuid Hsocc Hsocu Hvu Hbeacon Hsig.
  destruct rot as [n e|]; [|contradiction]. destruct Hrot as (Hsz & He & Hok).
  destruct dck as [nd ed|]; [|contradiction]. destruct Hdck0 as (Hszd & Hed & Hokd).
  assert (Hbl : forall m, N.size m = 8 * N.of_nat kb -> byte_len m = kb).
  { intros m Hm. unfold byte_len. rewrite Hm. destruct Hk as [[-> _] | [-> _]]; reflexivity. }
  assert (Hdck : rsa_key_wf kb (KRsa nd ed)) by (repeat split; [now apply Hbl|assumption|assumption]).
  assert (EI : exists items, map_res dc_rsa_item ks = Ok items).
  { apply map_res_total. eapply Forall_impl; [|exact He3]. intros [n' e'|] H; [|contradiction]. cbn in H.
    unfold dc_rsa_item. rewrite dat_to_bytes_ok by (simpl; lia). cbn [bind]. now eexists. }
  destruct EI as (items & EI).
  destruct (map_res_forall dc_rsa_item (fun b => length b = 32%nat) dc_rsa_item_length ks items EI) as [H32 HLi].
  assert (Ever : version_of_key (KRsa n e) = Ok (1, mi)).
  { unfold version_of_key. rewrite Hsz. destruct Hk as [[-> ->] | [-> ->]]; reflexivity. }
  assert (Ecl : class_of 0 cnt 1 mi = Ok (Some CRsa)) by reflexivity.
  assert (E4 : (4 <? nlen ks) = false) by (apply N.ltb_ge; unfold nlen; lia).
  set (d0 := {| d_major := 1; d_minor := mi; d_socc := socc; d_uuid := uuid; d_meta := RMRsa items; d_dck := KRsa nd ed;
                d_socu := socu; d_vu := vu; d_beacon := beacon; d_rot := KRsa n e; d_sig := [] |}).
  assert (EC : dc_create 0 cnt socc ks rot_id (KRsa nd ed) uuid socu vu beacon fca = Ok (CRsa, d0)).
  { unfold dc_create. rewrite EN, Ever. cbn [bind fst snd]. rewrite Ecl. cbn [bind]. rewrite Huuid. cbn [Nat.eqb negb].
    cbn [is_ecc_key key_bits Bool.eqb]. rewrite Hsz, Hszd, N.eqb_refl. cbn [andb negb].
    unfold rot_meta_create. rewrite E4, EI. cbn [bind]. reflexivity. }
  assert (W : wf_dc_rsa (dc_with_sig d0 sig)).
  { unfold wf_dc_rsa, dc_with_sig, d0. cbn [d_major d_minor d_socc d_uuid d_meta d_dck d_socu d_vu d_beacon d_rot d_sig].
    assert (Ekb : rsa_kb mi = kb) by (destruct Hk as [[-> ->] | [-> ->]]; reflexivity). rewrite Ekb.
    split; [reflexivity|]. split; [destruct Hk as [[_ ->] | [_ ->]]; auto|]. split; [assumption|]. split; [assumption|]. split.
    - exists items. split; [reflexivity|]. split; [lia|]. split; [assumption|]. now apply HZ.
    - repeat split; try assumption; now apply Hbl. }
  destruct (dc_roundtrip_rsa _ W) as (b & t & _ & E & _ & P). exists d0, b. split; [exact EC|]. split; [exact E|exact P].
Qed.

Lemma dc_created_roundtrip_ecc cnt socc ks rot_id dck uuid socu vu beacon fca sig c mi :
  (c = 256 /\ mi = 0 \/ c = 384 /\ mi = 1 \/ c = 521 /\ mi = 2) -> ks <> [] -> (length ks <= 4)%nat ->
  (N.to_nat rot_id < length ks)%nat -> Forall (ecc_key_wf c) ks -> ecc_key_wf c dck ->
  length uuid = 16%nat -> u32_ok socc -> u32_ok socu -> u32_ok vu -> u32_ok beacon -> length sig = (2 * coord_size c)%nat ->
  exists d b, dc_create 0 cnt socc ks rot_id dck uuid socu vu beacon fca = Ok (CEcc, d)
              /\ dc_export CEcc (dc_with_sig d sig) = Ok b /\ forall extra, dc_parse_class CEcc (b ++ extra) = Ok (dc_with_sig d sig).
Proof.
  intros Hk Hne HL Hid Hks Hdck Huuid Hsocc Hsocu Hvu Hbeacon Hsig.
  assert (Hc : c = 256 \/ c = 384 \/ c = 521) by (destruct Hk as [[-> _] | [[-> _] | [-> _]]]; auto).
  destruct (nth_error ks (N.to_nat rot_id)) as [rot|] eqn:EN; [|apply nth_error_None in EN; lia].
  assert (Hrot : ecc_key_wf c rot) by (rewrite Forall_forall in Hks; apply Hks; eapply nth_error_In; exact EN).
  destruct rot as [|cr xr yr]; [contradiction|]. destruct Hrot as [-> Hor].
  assert (Ever : version_of_key (KEcc c xr yr) = Ok (2, mi)).
  { unfold version_of_key. destruct Hk as [[-> ->] | [[-> ->] | [-> ->]]]; reflexivity. }
  assert (Ecl : class_of 0 cnt 2 mi = Ok (Some CEcc)) by reflexivity.
  destruct ks as [|k0 t] eqn:EK; [contradiction|]. rewrite <- EK in *.
  assert (Hall : forall k, In k ks -> exists x y, k = KEcc c x y /\ on_curve c x y = true).
  { intros k Hin. rewrite Forall_forall in Hks. specialize (Hks k Hin). destruct k as [|c' x y]; [contradiction|].
    destruct Hks as [-> H]. now exists x, y. }
  assert (F1 : forallb is_ecc_key ks = true).
  { apply forallb_forall. intros k Hin. destruct (Hall k Hin) as (x & y & -> & _). reflexivity. }
  assert (Hk0 : exists x0 y0, k0 = KEcc c x0 y0) by (destruct (Hall k0) as (x & y & H & _); [rewrite EK; now left|now exists x, y]).
  destruct Hk0 as (x0 & y0 & ->).
  set (hs := N.of_nat (coord_size c)).
  assert (F2 : forallb (fun k => N.of_nat (coord_size (key_bits k)) =? hs) ks = true).
  { apply forallb_forall. intros k Hin. destruct (Hall k Hin) as (x & y & -> & _). cbn [key_bits]. apply N.eqb_refl. }
  assert (Ehs : hs = ecc_hs mi) by (unfold hs, ecc_hs; destruct Hk as [[-> ->] | [[-> ->] | [-> ->]]]; reflexivity).
  assert (Ehl : (if c =? 256 then 32%nat else if c =? 384 then 48%nat else 64%nat) = N.to_nat (ecc_hl mi))
    by (unfold ecc_hl; destruct Hk as [[-> ->] | [[-> ->] | [-> ->]]]; reflexivity).
  assert (F3 : mem_n hs (map fst g_hash_sizes) = true) by (rewrite Ehs; unfold ecc_hs; destruct Hk as [[_ ->] | [[_ ->] | [_ ->]]]; reflexivity).
  assert (F4 : flags_validate rot_id (nlen ks) = true).
  { unfold flags_validate, nlen. apply andb_true_iff. split; apply negb_true_iff; [apply N.ltb_ge|apply N.ltb_ge]; lia. }
  (* the digests RotMetaEcc.load_from_config stores *)
  assert (EI : exists items, dc_ecc_items ks = Ok items /\
                 ((nlen ks <= 1 -> items = []) /\
                  (1 < nlen ks -> length items = length ks /\ Forall (fun x => length x = (if c =? 256 then 32%nat else if c =? 384 then 48%nat else 64%nat)) items))).
  { rewrite EK. unfold dc_ecc_items. cbv beta iota. rewrite <- EK.
    assert (F1' : forallb (fun k => match k with KEcc _ _ _ => true | KRsa _ _ => false end) ks = true).
    { apply forallb_forall. intros k Hin. destruct (Hall k Hin) as (x & y & -> & _). reflexivity. }
    rewrite F1'. cbn [negb key_bits]. fold hs. rewrite F2. cbn [negb].
    assert (EH : exists a, dc_hash_of_size hs = Ok a /\ hlen a = (if c =? 256 then 32%nat else if c =? 384 then 48%nat else 64%nat)).
    { unfold hs. destruct Hc as [-> | [-> | ->]]; eexists; split; reflexivity. }
    destruct EH as (a & EH & EL). rewrite EH. cbn [bind]. destruct (1 <? nlen ks) eqn:E1.
    - assert (ET : exists items, map_res (fun k => bind (raw_key k) (fun d0 => Ok (hash a d0))) ks = Ok items).
      { apply map_res_total. apply Forall_forall. intros k Hin. destruct (Hall k Hin) as (x & y & -> & HO).
        destruct (ecc_blob_ok c (KEcc c x y) Hc (conj eq_refl HO)) as (bb & -> & _). cbn [bind]. now eexists. }
      destruct ET as (items & ET). exists items. split; [exact ET|]. split; [intros H; apply N.ltb_lt in E1; lia|]. intros _.
      assert (HLen : forall k b, bind (raw_key k) (fun d0 => Ok (hash a d0)) = Ok b -> length b = hlen a).
      { intros k b H. destruct (raw_key k); [|discriminate]. cbn [bind] in H. inversion H.
        destruct a; cbn [hash hlen]; [apply dat_sha256_length|apply dat_sha384_length|apply dat_sha512_length]. }
      destruct (map_res_forall _ (fun b => length b = hlen a) HLen ks items ET) as [HF HLn].
      split; [assumption|]. now rewrite <- EL.
    - exists []. split; [reflexivity|]. split; [reflexivity|]. intros H. apply N.ltb_ge in E1. lia. }
  destruct EI as (items & EI & Hi1 & Hi2).
  set (d0 := {| d_major := 2; d_minor := mi; d_socc := socc; d_uuid := uuid; d_meta := RMEcc hs rot_id (nlen ks) items; d_dck := dck;
                d_socu := socu; d_vu := vu; d_beacon := beacon; d_rot := KEcc c xr yr; d_sig := [] |}).
  assert (EC : dc_create 0 cnt socc ks rot_id dck uuid socu vu beacon fca = Ok (CEcc, d0)).
  { unfold dc_create. rewrite EN, Ever. cbn [bind fst snd]. rewrite Ecl. cbn [bind]. rewrite Huuid. cbn [Nat.eqb negb].
    destruct dck as [|cd xd yd]; [contradiction|]. destruct Hdck as [-> Hod]. cbn [is_ecc_key key_bits Bool.eqb]. rewrite N.eqb_refl.
    cbn [andb negb]. rewrite EK. unfold rot_meta_create. cbv beta iota. rewrite <- EK.
    rewrite F1. cbn [negb key_bits]. fold hs. rewrite F2, F3. cbn [negb]. rewrite EI. cbn [bind].
    rewrite F4. reflexivity. }
  assert (Ecv : ecc_curve mi = c) by (unfold ecc_curve; destruct Hk as [[-> ->] | [[-> ->] | [-> ->]]]; reflexivity).
  assert (W : wf_dc_ecc (dc_with_sig d0 sig)).
  { unfold wf_dc_ecc, dc_with_sig, d0. cbn [d_major d_minor d_socc d_uuid d_meta d_dck d_socu d_vu d_beacon d_rot d_sig]. rewrite Ecv, <- Ehs.
    split; [reflexivity|]. split; [destruct Hk as [[_ ->] | [[_ ->] | [_ ->]]]; auto|]. split; [assumption|]. split; [assumption|]. split.
    - exists rot_id, (nlen ks), items. split; [reflexivity|]. split; [exact F4|]. split; [exact Hi1|].
      intros H1. destruct (Hi2 H1) as [Hl Hf]. split; [rewrite Hl; unfold nlen; lia|].
      eapply Forall_impl; [|exact Hf]. intros x Hx. now rewrite Hx.
    - repeat split; try assumption. rewrite Hsig. unfold hs. lia. }
  destruct (dc_roundtrip_ecc _ W) as (b & tt & _ & E & _ & P). exists d0, b. split; [exact EC|]. split; [exact E|exact P].
Qed.

(* the statement used as property theorem: both key families *)
Lemma dc_created_roundtrip_lemma cnt socc ks rot_id dck uuid socu vu beacon fca sig :
  length uuid = 16%nat -> u32_ok socc -> u32_ok socu -> u32_ok vu -> u32_ok beacon -> (length ks <= 4)%nat ->
  ( (exists kb mi, (kb = 256%nat /\ mi = 0 \/ kb = 512%nat /\ mi = 1)
        /\ (exists rot, nth_error ks (N.to_nat rot_id) = Some rot /\ rsa_rot_wf kb rot) /\ Forall rsa_e3 ks
        /\ (forall items, map_res dc_rsa_item ks = Ok items -> Forall (fun it => all_zero it = false) items)
        /\ rsa_rot_wf kb dck /\ length sig = kb)
    \/ (exists c mi, (c = 256 /\ mi = 0 \/ c = 384 /\ mi = 1 \/ c = 521 /\ mi = 2) /\ ks <> []
        /\ (N.to_nat rot_id < length ks)%nat /\ Forall (ecc_key_wf c) ks /\ ecc_key_wf c dck
        /\ length sig = (2 * coord_size c)%nat) ) ->
  exists c d b, dc_create 0 cnt socc ks rot_id dck uuid socu vu beacon fca = Ok (c, d)
                /\ dc_export c (dc_with_sig d sig) = Ok b /\ forall extra, dc_parse_class c (b ++ extra) = Ok (dc_with_sig d sig).
Proof.
  intros Huuid Hsocc Hsocu Hvu Hbeacon HL [(kb & mi & Hk & Hrot & He3 & HZ & Hdck & Hsig) | (c & mi & Hk & Hne & Hid & Hks & Hdck & Hsig)].
  - destruct (dc_created_roundtrip_rsa cnt socc ks rot_id dck uuid socu vu beacon fca sig kb mi Hk HL Hrot He3 HZ Hdck Huuid Hsocc Hsocu Hvu Hbeacon Hsig)
      as (d & b & H). exists CRsa, d, b. exact H.
  - destruct (dc_created_roundtrip_ecc cnt socc ks rot_id dck uuid socu vu beacon fca sig c mi Hk Hne HL Hid Hks Hdck Huuid Hsocc Hsocu Hvu Hbeacon Hsig)
      as (d & b & H). exists CEcc, d, b. exact H.
Qed.
(* formerly refuted (C15-F1): protocol 2.2 with 2..4 P-521 RoT keys *)
Lemma dc_roundtrip_p521_lemma cnt socc ks rot_id dck uuid socu vu beacon fca sig :
  (2 <= length ks <= 4)%nat -> (N.to_nat rot_id < length ks)%nat -> Forall (ecc_key_wf 521) ks -> ecc_key_wf 521 dck ->
  length uuid = 16%nat -> u32_ok socc -> u32_ok socu -> u32_ok vu -> u32_ok beacon -> length sig = 132%nat ->
  exists d b, dc_create 0 cnt socc ks rot_id dck uuid socu vu beacon fca = Ok (CEcc, d)
              /\ dc_export CEcc (dc_with_sig d sig) = Ok b /\ forall extra, dc_parse_class CEcc (b ++ extra) = Ok (dc_with_sig d sig).
Proof.
  intros HL Hid Hks Hdck Huuid Hsocc Hsocu Hvu Hbeacon Hsig.
  apply (dc_created_roundtrip_ecc cnt socc ks rot_id dck uuid socu vu beacon fca sig 521 2); try assumption; try lia.
  intros ->. cbn [length] in HL. lia.
Qed.
(* the hypotheses are satisfiable in both branches *)
Example created_rsa_premises :
  rsa_rot_wf 256 (KRsa (2 ^ 2047 + 1) 65537) /\ Forall rsa_e3 [KRsa (2 ^ 2047 + 1) 65537] /\ rsa_rot_wf 256 (KRsa (2 ^ 2047 + 3) 3)
  /\ (forall items, map_res dc_rsa_item [KRsa (2 ^ 2047 + 1) 65537] = Ok items -> Forall (fun it => all_zero it = false) items).
Proof.
  split; [repeat split; vm_compute; reflexivity|]. split; [repeat constructor; vm_compute; reflexivity|].
  split; [repeat split; vm_compute; reflexivity|].
  intros items H. vm_compute in H. inversion H. repeat constructor.
Qed.
Example created_ecc_premises : Forall (ecc_key_wf 521) [g521; g521] /\ (2 <= length [g521; g521] <= 4)%nat.
Proof. split; [repeat constructor; vm_compute; reflexivity|cbn; lia]. Qed.
