(* Proofs/MiscProofs.v -- C20 lemmas about the TRANSLATED integer helpers (Gen/GenMisc.v, regenerated
   from spsdk/utils/misc.py on every run) and the hand model Model/MiscModel.v. *)
From Coq Require Import ZArith NArith List Bool Lia ZifyBool.
Require Import Value Bytes BytesProofs GenMisc MiscModel.
Import ListNotations.
Local Open Scope Z_scope.
Ltac Zify.zify_post_hook ::= Z.to_euclidean_division_equations.

(* ------------------------------------------------------------------ align *)
Lemma align_ok n a : 0 <= n -> 0 < a ->
  exists r, py_align n a = Ok r /\ n <= r /\ r mod a = 0 /\ r < n + a.
Proof.
  intros Hn Ha. unfold py_align.
  destruct (orb (Z.leb a 0) (Z.ltb n 0)) eqn:E; [lia|].
  eexists; split; [reflexivity|].
  repeat split.
  - nia.
  - apply Z.mod_mul. lia.
  - nia.
Qed.

Lemma align_least n a r m : 0 <= n -> 0 < a -> py_align n a = Ok r ->
  n <= m -> m mod a = 0 -> r <= m.
Proof.
  intros Hn Ha H Hm Hd. unfold py_align in H.
  destruct (orb (Z.leb a 0) (Z.ltb n 0)) eqn:E; [lia|].
  injection H as <-.
  apply Z.mod_divide in Hd; [|lia]. destruct Hd as [q ->].
  assert ((n + (a - 1)) / a < q + 1); [|nia].
  apply Z.div_lt_upper_bound; nia.
Qed.

Lemma align_err_iff n a : (exists k, py_align n a = Err k) <-> (a <= 0 \/ n < 0).
Proof.
  unfold py_align. destruct (orb (Z.leb a 0) (Z.ltb n 0)) eqn:E; split.
  - intros _. lia.
  - intros _. eexists; reflexivity.
  - intros [k H]. discriminate.
  - lia.
Qed.

Lemma align_err_kind n a k : py_align n a = Err k -> k = 1%N.
Proof.
  unfold py_align. destruct (orb _ _); intros H; [now injection H as <-|discriminate].
Qed.

(* ------------------------------------------------------------------ check_range *)
Definition check_range_spec (x lo hi : Z) : Z := if (lo <=? x) && (x <=? hi) then 1 else 0.

(* ------------------------------------------------------------------ swap16 *)
Fixpoint zrange_from (fuel : nat) (start : Z) : list Z :=
  match fuel with O => [] | S f => start :: zrange_from f (start + 1) end.
Definition zrange (n : Z) : list Z := zrange_from (Z.to_nat n) 0.
Lemma in_zrange_from fuel start x : start <= x < start + Z.of_nat fuel -> In x (zrange_from fuel start).
Proof.
  revert start. induction fuel as [|f IH]; intros start H; [lia|].
  cbn [zrange_from]. destruct (Z.eq_dec x start) as [->|Hne]; [now left|].
  right. apply IH. lia.
Qed.
Lemma in_zrange n x : 0 <= x < n -> In x (zrange n).
Proof. intros H. unfold zrange. apply in_zrange_from. lia. Qed.

Definition swap16_invol_b (x : Z) : bool :=
  match py_swap16 x with
  | Ok y => match py_swap16 y with Ok z => (z =? x) && (0 <=? y) && (y <=? 65535) | Err _ => false end
  | Err _ => false
  end.

Lemma swap16_sweep : forallb swap16_invol_b (zrange 65536) = true.
Proof. vm_compute. reflexivity. Qed.

Lemma swap16_involutive x : 0 <= x <= 65535 ->
  exists y, py_swap16 x = Ok y /\ 0 <= y <= 65535 /\ py_swap16 y = Ok x.
Proof.
  intros H. pose proof swap16_sweep as S. rewrite forallb_forall in S.
  specialize (S x (in_zrange 65536 x ltac:(lia))). unfold swap16_invol_b in S.
  destruct (py_swap16 x) as [y|] eqn:E1; [|discriminate].
  destruct (py_swap16 y) as [z|] eqn:E2; [|discriminate].
  apply andb_true_iff in S as [S S3]. apply andb_true_iff in S as [S1 S2].
  apply Z.eqb_eq in S1. apply Z.leb_le in S2. apply Z.leb_le in S3. subst z.
  exists y. split; [reflexivity|]. split; [split; assumption|exact E2].
Qed.

Lemma swap16_rejects x : ~ (0 <= x <= 65535) -> py_swap16 x = Err 1%N.
Proof.
  intros H. unfold py_swap16. destruct (orb (Z.ltb x 0) (Z.ltb 65535 x)) eqn:E; [reflexivity|lia].
Qed.

(* ------------------------------------------------------------------ get_bytes_cnt_of_int *)
Definition nbytes (v : Z) : Z := if v =? 0 then 0 else Z.log2 v / 8 + 1.

Lemma nbytes_step v : 0 < v -> nbytes v = nbytes (Z.shiftr v 8) + 1.
Proof.
  intros Hv. unfold nbytes.
  replace (v =? 0) with false by lia.
  destruct (Z.shiftr v 8 =? 0) eqn:E.
  - apply Z.eqb_eq in E. rewrite Z.shiftr_div_pow2 in E by lia. change (2 ^ 8) with 256 in E.
    assert (v < 256) by lia.
    assert (Z.log2 v < 8). { apply Z.log2_lt_pow2; [lia|]. change (2 ^ 8) with 256. lia. }
    pose proof (Z.log2_nonneg v). lia.
  - apply Z.eqb_neq in E.
    rewrite Z.log2_shiftr by lia.
    assert (256 <= v). { rewrite Z.shiftr_div_pow2 in E by lia. change (2 ^ 8) with 256 in E. lia. }
    assert (8 <= Z.log2 v). { apply Z.log2_le_pow2; [lia|]. change (2 ^ 8) with 256. lia. }
    rewrite Z.max_r by lia. lia.
Qed.

Lemma loop_terminates fuel a2n bc v cnt :
  0 <= v -> v < 2 ^ (8 * Z.of_nat fuel) ->
  py_get_bytes_cnt_of_int_loop1 fuel a2n bc v cnt = Ok (0, cnt + nbytes v).
Proof.
  revert v cnt. induction fuel as [|f IH]; intros v cnt Hv Hb.
  - simpl in Hb. assert (v = 0) by lia. subst. cbn. f_equal. f_equal. unfold nbytes. simpl. lia.
  - cbn [py_get_bytes_cnt_of_int_loop1].
    destruct (negb (Z.eqb v 0)) eqn:E.
    + assert (0 < v) by lia.
      rewrite IH.
      * rewrite (nbytes_step v) by lia. f_equal. f_equal. lia.
      * apply Z.shiftr_nonneg. lia.
      * rewrite Z.shiftr_div_pow2 by lia. change (2 ^ 8) with 256.
        replace (8 * Z.of_nat (S f)) with (8 + 8 * Z.of_nat f) in Hb by lia.
        rewrite Z.pow_add_r in Hb by lia. change (2 ^ 8) with 256 in Hb.
        apply Z.div_lt_upper_bound; lia.
    + assert (v = 0) by lia. subst. unfold nbytes. simpl. f_equal. f_equal. lia.
Qed.

Lemma loop_neg_hangs fuel a2n bc v cnt :
  v < 0 -> py_get_bytes_cnt_of_int_loop1 fuel a2n bc v cnt = Err 3%N.
Proof.
  revert v cnt. induction fuel as [|f IH]; intros v cnt Hv; cbn [py_get_bytes_cnt_of_int_loop1].
  - replace (negb (Z.eqb v 0)) with true by lia. reflexivity.
  - replace (negb (Z.eqb v 0)) with true by lia. apply IH.
    apply Z.shiftr_neg. lia.
Qed.

Lemma bytes_fuel_enough v : 0 <= v -> v < 2 ^ (8 * Z.of_nat (bytes_fuel v)).
Proof.
  intros Hv. unfold bytes_fuel.
  destruct (Z.eq_dec v 0) as [->|Hne]; [simpl; lia|].
  rewrite Z.abs_eq by lia.
  pose proof (Z.log2_nonneg v).
  assert (v < 2 ^ (Z.succ (Z.log2 v))) by (apply Z.log2_spec; lia).
  eapply Z.lt_le_trans; [eassumption|].
  apply Z.pow_le_mono_r; lia.
Qed.

(* width chosen: exact byte count, or rounded up to a multiple of 4 above 2 when align_to_2n *)
Definition width_spec (v : Z) (a2n : bool) : Z :=
  if v =? 0 then 1
  else let c := nbytes v in if a2n && (2 <? c) then (c + 3) / 4 * 4 else c.

Lemma bytes_cnt_total v a2n : 0 <= v ->
  py_get_bytes_cnt_of_int (bytes_fuel v) v a2n 0 = Ok (width_spec v a2n).
Proof.
  intros Hv. unfold py_get_bytes_cnt_of_int, width_spec.
  replace (Z.ltb v 0) with false by lia.
  destruct (Z.eqb v 0) eqn:E0; [reflexivity|].
  rewrite loop_terminates by (try apply bytes_fuel_enough; lia).
  cbn [Z.add]. replace (0 + nbytes v) with (nbytes v) by lia.
  assert (0 < nbytes v).
  { unfold nbytes. rewrite E0. pose proof (Z.log2_nonneg v). lia. }
  destruct (andb a2n (Z.ltb 2 (nbytes v))) eqn:E1.
  - cbn. replace (a2n && (2 <? nbytes v)) with true by lia.
    f_equal. lia.
  - cbn. replace (a2n && (2 <? nbytes v)) with false by lia. reflexivity.
Qed.

Lemma bytes_cnt_with_cnt v a2n bc : 0 <= v -> 0 < bc ->
  py_get_bytes_cnt_of_int (bytes_fuel v) v a2n bc =
    if v =? 0 then Ok bc else if bc <? width_spec v a2n then Err 1%N else Ok bc.
Proof.
  intros Hv Hbc. unfold py_get_bytes_cnt_of_int, width_spec.
  replace (Z.ltb v 0) with false by lia.
  destruct (Z.eqb v 0) eqn:E0.
  - replace (Z.eqb bc 0) with false by lia. reflexivity.
  - rewrite loop_terminates by (try apply bytes_fuel_enough; lia).
    replace (0 + nbytes v) with (nbytes v) by lia.
    assert (0 < nbytes v).
    { unfold nbytes. rewrite E0. pose proof (Z.log2_nonneg v). lia. }
    destruct (andb a2n (Z.ltb 2 (nbytes v))) eqn:E1.
    + replace (a2n && (2 <? nbytes v)) with true by lia. cbn zeta.
      replace (- (- nbytes v / 4) * 4) with ((nbytes v + 3) / 4 * 4) by lia.
      replace (Z.eqb bc 0) with false by lia.
      destruct (bc <? (nbytes v + 3) / 4 * 4) eqn:E2; reflexivity.
    + replace (a2n && (2 <? nbytes v)) with false by lia. cbn zeta.
      replace (Z.eqb bc 0) with false by lia.
      destruct (bc <? nbytes v) eqn:E2; reflexivity.
Qed.

Lemma bytes_cnt_neg_rejected v a2n bc fuel : v < 0 ->
  py_get_bytes_cnt_of_int fuel v a2n bc = Err 1%N.
Proof.
  intros Hv. unfold py_get_bytes_cnt_of_int.
  replace (Z.ltb v 0) with true by lia. reflexivity.
Qed.

Lemma nbytes_bound v : 0 < v -> v < 2 ^ (8 * nbytes v).
Proof.
  intros Hv. unfold nbytes. replace (v =? 0) with false by lia.
  assert (v < 2 ^ (Z.succ (Z.log2 v))) by (apply Z.log2_spec; lia).
  pose proof (Z.log2_nonneg v).
  eapply Z.lt_le_trans; [eassumption|]. apply Z.pow_le_mono_r; lia.
Qed.

Lemma nbytes_minimal v c : 0 < v -> 0 <= c -> v < 2 ^ (8 * c) -> nbytes v <= c.
Proof.
  intros Hv Hc Hb. unfold nbytes. replace (v =? 0) with false by lia.
  assert (Z.log2 v < 8 * c) by (apply Z.log2_lt_pow2; lia). lia.
Qed.

Lemma width_spec_fits v a2n : 0 <= v -> v < 2 ^ (8 * width_spec v a2n) /\ 0 < width_spec v a2n.
Proof.
  intros Hv. unfold width_spec. destruct (v =? 0) eqn:E0.
  - assert (v = 0) by lia; subst. simpl. lia.
  - assert (0 < v) by lia. pose proof (nbytes_bound v H).
    assert (0 < nbytes v). { unfold nbytes. rewrite E0. pose proof (Z.log2_nonneg v). lia. }
    destruct (a2n && (2 <? nbytes v)).
    + split; [|lia]. eapply Z.lt_le_trans; [eassumption|]. apply Z.pow_le_mono_r; lia.
    + split; assumption.
Qed.

(* integer -> bytes -> integer *)
Lemma int_to_bytes_roundtrip v cnt big bs :
  int_to_bytes v cnt big = Ok bs ->
  (if big then be_dec bs else le_dec bs) = Z.to_N v /\ Z.of_nat (length bs) = cnt /\ wf_bytes bs.
Proof.
  unfold int_to_bytes. intros H.
  destruct ((v <? 0) || (cnt <? 0)) eqn:E1; [discriminate|].
  destruct (2 ^ (8 * cnt) <=? v) eqn:E2; [discriminate|].
  injection H as <-.
  assert (Hb : (Z.to_N v < 2 ^ (8 * N.of_nat (Z.to_nat cnt)))%N).
  { assert (0 <= v) by lia. assert (0 <= cnt) by lia.
    replace (8 * N.of_nat (Z.to_nat cnt))%N with (Z.to_N (8 * cnt)) by lia.
    change 2%N with (Z.to_N 2). rewrite <- Z2N.inj_pow by lia.
    apply Z2N.inj_lt; try lia. }
  destruct big.
  - rewrite be_dec_enc_small by assumption. rewrite be_enc_length. split; [reflexivity|]. split; [lia|apply be_enc_wf].
  - rewrite le_dec_enc_small by assumption. rewrite le_enc_length. split; [reflexivity|]. split; [lia|apply le_enc_wf].
Qed.

Lemma value_to_bytes_total v a2n big : 0 <= v ->
  exists bs, value_to_bytes_int v a2n 0 big = Ok bs
   /\ (if big then be_dec bs else le_dec bs) = Z.to_N v
   /\ Z.of_nat (length bs) = width_spec v a2n.
Proof.
  intros Hv. unfold value_to_bytes_int. rewrite bytes_cnt_total by assumption.
  destruct (width_spec_fits v a2n Hv) as [Hf Hp].
  destruct (int_to_bytes v (width_spec v a2n) big) as [bs|k] eqn:E.
  - exists bs. split; [reflexivity|]. apply int_to_bytes_roundtrip in E. tauto.
  - exfalso. unfold int_to_bytes in E.
    destruct ((v <? 0) || (width_spec v a2n <? 0)) eqn:E1; [lia|].
    destruct (2 ^ (8 * width_spec v a2n) <=? v) eqn:E2; [lia|discriminate].
Qed.

Lemma value_to_bytes_neg_rejected v a2n bc big : v < 0 -> value_to_bytes_int v a2n bc big = Err 1%N.
Proof. intros H. unfold value_to_bytes_int. now rewrite bytes_cnt_neg_rejected. Qed.

(* ------------------------------------------------------------------ swap32 and byte reversals *)
Lemma swap32_involutive x : 0 <= x <= 4294967295 ->
  exists y, swap32 x = Ok y /\ 0 <= y <= 4294967295 /\ swap32 y = Ok x.
Proof.
  intros H. unfold swap32.
  replace ((x <? 0) || (4294967295 <? x)) with false by lia.
  eexists; split; [reflexivity|].
  set (l := be_enc 4 (Z.to_N x)).
  assert (Hwf : wf_bytes l) by apply be_enc_wf.
  assert (Hlen : length l = 4%nat) by apply be_enc_length.
  pose proof (le_dec_bound l Hwf) as Hb. rewrite Hlen in Hb.
  change (2 ^ (8 * N.of_nat 4))%N with 4294967296%N in Hb.
  split; [lia|].
  replace ((Z.of_N (le_dec l) <? 0) || (4294967295 <? Z.of_N (le_dec l))) with false by lia.
  f_equal. rewrite N2Z.id.
  unfold be_enc at 1. rewrite <- Hlen. rewrite le_enc_dec by assumption.
  unfold l. fold (be_dec (be_enc 4 (Z.to_N x))). rewrite be_dec_enc_small.
  - lia.
  - change (2 ^ (8 * N.of_nat 4))%N with 4294967296%N. lia.
Qed.

Lemma swap32_rejects x : ~ (0 <= x <= 4294967295) -> swap32 x = Err 1%N.
Proof. intros H. unfold swap32. replace ((x <? 0) || (4294967295 <? x)) with true by lia. reflexivity. Qed.

Lemma rev_longs_length fuel l : (length l <= fuel)%nat -> length (rev_longs_fuel fuel l) = length l.
Proof.
  revert l. induction fuel as [|f IH]; intros l H.
  - destruct l; simpl in *; [reflexivity|lia].
  - destruct l as [|a l']; [reflexivity|]. cbn [rev_longs_fuel].
    rewrite app_length, rev_length, IH.
    + rewrite firstn_length, skipn_length. lia.
    + rewrite skipn_length. simpl in *. lia.
Qed.

Lemma rev_longs_fuel_irrel f1 f2 l : (length l <= f1)%nat -> (length l <= f2)%nat ->
  rev_longs_fuel f1 l = rev_longs_fuel f2 l.
Proof.
  revert f2 l. induction f1 as [|f1 IH]; intros f2 l H1 H2.
  - destruct l; simpl in *; [destruct f2; reflexivity|lia].
  - destruct l as [|a l']; [destruct f2; reflexivity|].
    destruct f2 as [|f2]; [simpl in H2; lia|].
    cbn [rev_longs_fuel]. f_equal. apply IH; rewrite skipn_length; simpl in *; lia.
Qed.

Lemma rev_longs_involutive fuel l : (length l <= fuel)%nat -> (Nat.modulo (length l) 4 = 0)%nat ->
  rev_longs_fuel fuel (rev_longs_fuel fuel l) = l.
Proof.
  revert l. induction fuel as [|f IH]; intros l Hl Hm.
  - destruct l; simpl in *; [reflexivity|lia].
  - destruct l as [|a l']; [reflexivity|].
    assert (H4 : (4 <= length (a :: l'))%nat).
    { destruct (Nat.lt_ge_cases (length (a :: l')) 4) as [Hlt|]; [|assumption].
      rewrite Nat.mod_small in Hm by assumption. simpl in Hm. lia. }
    cbn [rev_longs_fuel].
    set (h := firstn 4 (a :: l')). set (t := skipn 4 (a :: l')).
    assert (Hh : length h = 4%nat) by (unfold h; rewrite firstn_length; lia).
    assert (Ht : length t = (length (a :: l') - 4)%nat) by (unfold t; apply skipn_length).
    assert (Hrh : length (rev h) = 4%nat) by now rewrite rev_length.
    destruct (rev h ++ rev_longs_fuel f t) as [|b r] eqn:E.
    { apply (f_equal (@length N)) in E. rewrite app_length, Hrh in E. simpl in E. lia. }
    rewrite <- E.
    rewrite firstn_app, Hrh. replace (4 - 4)%nat with 0%nat by lia.
    rewrite firstn_O, app_nil_r. rewrite <- Hrh at 1. rewrite firstn_all, rev_involutive.
    rewrite skipn_app, Hrh. replace (4 - 4)%nat with 0%nat by lia.
    rewrite <- Hrh at 1. rewrite skipn_all. simpl skipn.
    rewrite app_nil_l. rewrite IH.
    + unfold h, t. apply firstn_skipn.
    + rewrite Ht. cbn [length] in *. lia.
    + rewrite Ht. replace (length (a :: l')) with ((length (a :: l') - 4) + 1 * 4)%nat in Hm by lia.
      rewrite Nat.mod_add in Hm by lia. exact Hm.
Qed.

Lemma reverse_bytes_in_longs_involutive l l' :
  reverse_bytes_in_longs l = Ok l' -> reverse_bytes_in_longs l' = Ok l.
Proof.
  unfold reverse_bytes_in_longs. destruct (Nat.eqb (Nat.modulo (length l) 4) 0) eqn:E; [|discriminate].
  intros H. injection H as <-. apply Nat.eqb_eq in E.
  rewrite rev_longs_length by lia. rewrite E. simpl.
  f_equal. now apply rev_longs_involutive.
Qed.

Lemma reverse_bytes_in_longs_rejects l :
  (Nat.modulo (length l) 4 <> 0)%nat <-> reverse_bytes_in_longs l = Err 1%N.
Proof.
  unfold reverse_bytes_in_longs. destruct (Nat.eqb (Nat.modulo (length l) 4) 0) eqn:E.
  - apply Nat.eqb_eq in E. split; [lia|discriminate].
  - apply Nat.eqb_neq in E. split; [reflexivity|intros _; assumption].
Qed.

Lemma reverse_bytes_in_longs_length l l' : reverse_bytes_in_longs l = Ok l' -> length l' = length l.
Proof.
  unfold reverse_bytes_in_longs. destruct (Nat.eqb _ _); [|discriminate].
  intros H; injection H as <-. now apply rev_longs_length.
Qed.

Lemma change_endianness_involutive l l' :
  change_endianness l = Ok l' -> change_endianness l' = Ok l.
Proof.
  unfold change_endianness.
  destruct l as [|a [|b [|c [|d t]]]].
  - cbn. intros H; injection H as <-. reflexivity.
  - cbn. intros H; injection H as <-. reflexivity.
  - cbn. intros H; injection H as <-. reflexivity.
  - cbn. discriminate.
  - intros H. cbn [length] in H.
    pose proof (reverse_bytes_in_longs_length _ _ H) as HL.
    pose proof (reverse_bytes_in_longs_involutive _ _ H) as HI.
    destruct l' as [|a' [|b' [|c' [|d' t']]]]; simpl in HL; try lia.
    exact HI.
Qed.

Lemma list_ind2 {A} (P : list A -> Prop) :
  P [] -> (forall a, P [a]) -> (forall a b t, P t -> P (a :: b :: t)) -> forall l, P l.
Proof.
  intros H0 H1 H2. fix IH 1. intros [|a [|b t]]; [exact H0|apply H1|apply H2, IH].
Qed.

Lemma swap_pairs_involutive l : Nat.even (length l) = true -> swap_pairs (swap_pairs l) = l.
Proof.
  induction l as [|a|a b t IH] using list_ind2; intros H; try reflexivity; [discriminate|].
  cbn [swap_pairs]. f_equal. f_equal. apply IH. exact H.
Qed.

Lemma swap_pairs_length l : Nat.even (length l) = true -> length (swap_pairs l) = length l.
Proof.
  induction l as [|a|a b t IH] using list_ind2; intros H; try reflexivity; [discriminate|].
  cbn [swap_pairs length]. f_equal. f_equal. apply IH. exact H.
Qed.

Lemma swap_bytes_involutive l l' : swap_bytes l = Ok l' -> swap_bytes l' = Ok l.
Proof.
  unfold swap_bytes. destruct (Nat.even (length l)) eqn:E; [|discriminate].
  intros H; injection H as <-. rewrite swap_pairs_length, E by assumption.
  f_equal. now apply swap_pairs_involutive.
Qed.

(* ------------------------------------------------------------------ align_block / extend_block *)
Lemma inc_block_length n s : length (inc_block n s) = n.
Proof. revert s; induction n as [|n IH]; intros s; simpl; [reflexivity|now rewrite IH]. Qed.

Lemma cycle_fuel_length n pat cur : pat <> [] -> length (cycle_fuel n pat cur) = n.
Proof.
  intros Hp. revert cur. induction n as [|n IH]; intros cur; [reflexivity|].
  cbn [cycle_fuel]. destruct cur as [|c t].
  - destruct pat as [|c t]; [congruence|]. simpl. now rewrite IH.
  - simpl. now rewrite IH.
Qed.

Lemma pattern_block_length p n blk : pattern_block p n = Ok blk -> length blk = n.
Proof.
  destruct p as [| | |v]; cbn [pattern_block].
  - intros H; injection H as <-. apply repeat_length.
  - intros H; injection H as <-. apply repeat_length.
  - intros H; injection H as <-. apply inc_block_length.
  - destruct (value_to_bytes_int v false 0 true) as [pat|k] eqn:E; [|discriminate].
    intros H; injection H as <-. apply cycle_fuel_length.
    intros ->. unfold value_to_bytes_int in E.
    destruct (py_get_bytes_cnt_of_int (bytes_fuel v) v false 0) as [cnt|k] eqn:E1; [|discriminate].
    destruct (Z_lt_le_dec v 0) as [Hn|Hp].
    + rewrite bytes_cnt_neg_rejected in E1 by assumption. discriminate.
    + rewrite bytes_cnt_total in E1 by assumption. injection E1 as <-.
      apply int_to_bytes_roundtrip in E. destruct E as (_ & HL & _). simpl in HL.
      pose proof (width_spec_fits v false Hp). lia.
Qed.

Lemma align_block_appends d a p d' : align_block d a p = Ok d' ->
  exists pad r, d' = d ++ pad /\ py_align (Z.of_nat (length d)) a = Ok r /\ Z.of_nat (length d') = r.
Proof.
  unfold align_block. destruct (a <? 0) eqn:Ea; [discriminate|].
  destruct (py_align (Z.of_nat (length d)) a) as [al|k] eqn:E; [|discriminate].
  assert (Hal : Z.of_nat (length d) <= al).
  { destruct (Z.eq_dec a 0) as [->|Hne].
    - unfold py_align in E. simpl in E. discriminate.
    - destruct (align_ok (Z.of_nat (length d)) a ltac:(lia) ltac:(lia)) as (r & Hr & Hle & _).
      rewrite Hr in E. injection E as <-. exact Hle. }
  destruct (Z.to_nat (al - Z.of_nat (length d))) as [|n] eqn:En.
  - intros H; injection H as <-. exists [], al. rewrite app_nil_r. split; [reflexivity|]. split; [reflexivity|lia].
  - destruct (pattern_block p (S n)) as [blk|k] eqn:Eb; [|discriminate].
    intros H; injection H as <-. exists blk, al. split; [reflexivity|]. split; [reflexivity|].
    apply pattern_block_length in Eb. rewrite app_length. lia.
Qed.

Lemma extend_block_appends d len pad d' : extend_block d len pad = Ok d' ->
  exists k, d' = d ++ repeat (Z.to_N pad) k /\ Z.of_nat (length d') = len.
Proof.
  unfold extend_block. destruct (len <? Z.of_nat (length d)) eqn:E; [discriminate|].
  destruct (Z.to_nat (len - Z.of_nat (length d))) as [|n] eqn:En.
  - intros H; injection H as <-. exists 0%nat. simpl. rewrite app_nil_r. split; [reflexivity|lia].
  - destruct ((pad <? 0) || (255 <? pad)); [discriminate|].
    intros H; injection H as <-. exists (S n). split; [reflexivity|].
    rewrite app_length. cbn [length]. rewrite repeat_length. lia.
Qed.

Lemma extend_block_rejects d len pad : len < Z.of_nat (length d) <-> extend_block d len pad = Err 1%N.
Proof.
  unfold extend_block. destruct (len <? Z.of_nat (length d)) eqn:E; split; intros H; try lia; try reflexivity.
  exfalso. destruct (Z.to_nat (len - Z.of_nat (length d))); [discriminate|].
  destruct ((pad <? 0) || (255 <? pad)); discriminate.
Qed.
