(* Proofs/ImageProofs.v -- C16 lemmas about Model/ImageModel.v (BinaryImage). *)
From Coq Require Import ZArith NArith List Bool Lia ZifyBool Sorted Permutation.
Require Import Value Bytes BytesProofs GenMisc GenImage MiscModel MiscProofs ImageModel.
Import ListNotations.
Local Open Scope Z_scope.
Ltac Zify.zify_post_hook ::= Z.to_euclidean_division_equations.

(* ================================================================== generic list facts *)
Lemma nth_error_firstn_lt {A} (l : list A) m n : (n < m)%nat -> nth_error (firstn m l) n = nth_error l n.
Proof.
  revert m n; induction l as [|x l IH]; intros m n H.
  - rewrite firstn_nil. reflexivity.
  - destruct m as [|m]; [lia|]. destruct n as [|n]; [reflexivity|]. simpl. apply IH. lia.
Qed.

Lemma nth_error_firstn_ge {A} (l : list A) m n : (m <= n)%nat -> nth_error (firstn m l) n = None.
Proof. intros H. apply nth_error_None. rewrite firstn_length. lia. Qed.

Lemma nth_error_skipn {A} (l : list A) m n : nth_error (skipn m l) n = nth_error l (m + n).
Proof.
  revert m; induction l as [|x l IH]; intros m.
  - rewrite skipn_nil. destruct n, m; reflexivity.
  - destruct m as [|m]; [reflexivity|]. simpl. apply IH.
Qed.

Lemma list_ext {A} (l1 l2 : list A) : (forall n, nth_error l1 n = nth_error l2 n) -> l1 = l2.
Proof.
  revert l2; induction l1 as [|x l1 IH]; intros [|y l2] H.
  - reflexivity.
  - specialize (H 0%nat). discriminate.
  - specialize (H 0%nat). discriminate.
  - f_equal.
    + specialize (H 0%nat). now injection H.
    + apply IH. intros n. exact (H (S n)).
Qed.

Lemma nth_error_splice {A} (buf d : list A) off n :
  (off + length d <= length buf)%nat ->
  nth_error (splice buf off d) n =
  if (Nat.leb off n && Nat.ltb n (off + length d))%bool then nth_error d (n - off) else nth_error buf n.
Proof.
  intros H. unfold splice.
  destruct (Nat.leb off n) eqn:E1; simpl.
  - apply Nat.leb_le in E1.
    rewrite nth_error_app2 by (rewrite firstn_length; lia).
    rewrite firstn_length. replace (Nat.min off (length buf)) with off by lia.
    destruct (Nat.ltb n (off + length d)) eqn:E2.
    + apply Nat.ltb_lt in E2. rewrite nth_error_app1 by lia. reflexivity.
    + apply Nat.ltb_ge in E2. rewrite nth_error_app2 by lia.
      rewrite nth_error_skipn. f_equal. lia.
  - apply Nat.leb_gt in E1. rewrite nth_error_app1 by (rewrite firstn_length; lia).
    apply nth_error_firstn_lt. exact E1.
Qed.

Lemma nth_error_slice {A} (l : list A) a b n :
  nth_error (slice l a b) n = if Nat.ltb n (b - a) then nth_error l (a + n) else None.
Proof.
  unfold slice. destruct (Nat.ltb n (b - a)) eqn:E.
  - apply Nat.ltb_lt in E. rewrite nth_error_firstn_lt by exact E. apply nth_error_skipn.
  - apply Nat.ltb_ge in E. apply nth_error_firstn_ge. exact E.
Qed.

(* ================================================================== positions as Z *)
Definition getz (l : list N) (k : Z) : option N := if k <? 0 then None else nth_error l (Z.to_nat k).

Lemma getz_none_hi l k : zlen l <= k -> getz l k = None.
Proof.
  intros H. unfold getz, zlen in *. destruct (k <? 0) eqn:E; [reflexivity|].
  apply nth_error_None. lia.
Qed.

Lemma getz_some l k : 0 <= k < zlen l -> exists b, getz l k = Some b.
Proof.
  intros H. unfold getz, zlen in *. destruct (k <? 0) eqn:E; [lia|].
  destruct (nth_error l (Z.to_nat k)) eqn:E2; [eauto|].
  apply nth_error_None in E2. lia.
Qed.

Lemma getz_ext l1 l2 : zlen l1 = zlen l2 -> (forall k, 0 <= k < zlen l1 -> getz l1 k = getz l2 k) -> l1 = l2.
Proof.
  intros HL H. apply list_ext. intros n.
  destruct (Nat.ltb n (length l1)) eqn:E.
  - apply Nat.ltb_lt in E. specialize (H (Z.of_nat n)). unfold getz, zlen in *.
    destruct (Z.of_nat n <? 0) eqn:E2; [lia|]. rewrite Nat2Z.id in H. apply H. lia.
  - apply Nat.ltb_ge in E. unfold zlen in HL.
    assert (nth_error l1 n = None) as -> by (apply nth_error_None; lia).
    symmetry. apply nth_error_None. lia.
Qed.

Lemma getz_splice buf o d k :
  0 <= o -> o + zlen d <= zlen buf ->
  getz (splice buf (Z.to_nat o) d) k = if (o <=? k) && (k <? o + zlen d) then getz d (k - o) else getz buf k.
Proof.
  intros Ho Hfit. unfold getz, zlen in *.
  destruct (k <? 0) eqn:Ek.
  - destruct ((o <=? k) && (k <? o + Z.of_nat (length d))) eqn:E; [lia|reflexivity].
  - rewrite nth_error_splice by lia.
    destruct ((o <=? k) && (k <? o + Z.of_nat (length d))) eqn:E.
    + replace (Nat.leb (Z.to_nat o) (Z.to_nat k) && Nat.ltb (Z.to_nat k) (Z.to_nat o + length d))%bool with true
        by (symmetry; apply andb_true_iff; split; [apply Nat.leb_le|apply Nat.ltb_lt]; lia).
      destruct (k - o <? 0) eqn:E3; [lia|]. f_equal. lia.
    + replace (Nat.leb (Z.to_nat o) (Z.to_nat k) && Nat.ltb (Z.to_nat k) (Z.to_nat o + length d))%bool with false; [reflexivity|].
      symmetry. apply andb_false_iff.
      destruct (o <=? k) eqn:E4; simpl in E.
      * right. apply Nat.ltb_ge. lia.
      * left. apply Nat.leb_gt. lia.
Qed.

Lemma getz_slice l a b k :
  0 <= a -> a <= b ->
  getz (slice l (Z.to_nat a) (Z.to_nat b)) k = if (0 <=? k) && (k <? b - a) then getz l (a + k) else None.
Proof.
  intros Ha Hb. unfold getz. destruct (k <? 0) eqn:Ek.
  - destruct ((0 <=? k) && (k <? b - a)) eqn:E; [lia|reflexivity].
  - rewrite nth_error_slice.
    destruct ((0 <=? k) && (k <? b - a)) eqn:E.
    + replace (Nat.ltb (Z.to_nat k) (Z.to_nat b - Z.to_nat a)) with true by (symmetry; apply Nat.ltb_lt; lia).
      destruct (a + k <? 0) eqn:E2; [lia|]. f_equal. lia.
    + replace (Nat.ltb (Z.to_nat k) (Z.to_nat b - Z.to_nat a)) with false by (symmetry; apply Nat.ltb_ge; lia).
      reflexivity.
Qed.

Lemma getz_app1 l1 l2 k : k < zlen l1 -> getz (l1 ++ l2) k = getz l1 k.
Proof.
  intros H. unfold getz, zlen in *. destruct (k <? 0) eqn:E; [reflexivity|]. apply nth_error_app1. lia.
Qed.

Lemma zlen_app {A} (l1 l2 : list A) : zlen (l1 ++ l2) = zlen l1 + zlen l2.
Proof. unfold zlen. rewrite app_length. lia. Qed.

Lemma zlen_nonneg {A} (l : list A) : 0 <= zlen l.
Proof. unfold zlen. lia. Qed.

Lemma zlen_nil_iff {A} (l : list A) : zlen l = 0 <-> l = [].
Proof. unfold zlen. destruct l; simpl; split; intros; try reflexivity; try discriminate; lia. Qed.

(* ================================================================== induction on image trees *)
Section ImgInd.
  Variable P : img -> Prop.
  Hypothesis H : forall sz al off bin pat subs, Forall P subs -> P (Img sz al off bin pat subs).
  Fixpoint img_ind' (i : img) : P i :=
    match i with
    | Img sz al off bin pat subs =>
        H sz al off bin pat subs
          ((fix go (l : list img) : Forall P l :=
              match l with
              | [] => Forall_nil P
              | c :: t => Forall_cons c (img_ind' c) (go t)
              end) subs)
    end.
End ImgInd.

(* what the constructor guarantees: alignment >= 1, _size >= 0 and a multiple of the alignment;
   patterns are zeros / ones / inc / a non-negative number *)
Definition pat_ok (pat : option pattern) : Prop :=
  match pat with Some (PNum v) => 0 <= v | _ => True end.

Inductive wf : img -> Prop :=
| WF sz al off bin pat subs :
    1 <= al -> 0 <= sz -> sz mod al = 0 -> pat_ok pat -> (forall c, In c subs -> wf c) ->
    wf (Img sz al off bin pat subs).

Lemma wf_inv sz al off bin pat subs : wf (Img sz al off bin pat subs) ->
  1 <= al /\ 0 <= sz /\ sz mod al = 0 /\ pat_ok pat /\ (forall c, In c subs -> wf c).
Proof. intros H. inversion H; subst. tauto. Qed.

(* ------------------------------------------------------------------ align *)
Lemma zalign_spec n a : 0 <= n -> 0 < a -> n <= zalign n a /\ zalign n a mod a = 0 /\ zalign n a < n + a.
Proof.
  intros Hn Ha. unfold zalign. destruct (align_ok n a Hn Ha) as (r & -> & H). exact H.
Qed.

Lemma py_align_fix n a : 0 <= n -> 0 < a -> n mod a = 0 -> py_align n a = Ok n.
Proof.
  intros Hn Ha Hm. unfold py_align.
  destruct (orb (Z.leb a 0) (Z.ltb n 0)) eqn:E; [lia|].
  f_equal. apply Z.mod_divide in Hm; [|lia]. destruct Hm as [q ->].
  replace (q * a + (a - 1)) with ((a - 1) + q * a) by lia.
  rewrite Z.div_add by lia. rewrite (Z.div_small (a - 1) a) by lia. lia.
Qed.

Lemma zalign_fix n a : 0 <= n -> 0 < a -> n mod a = 0 -> zalign n a = n.
Proof. intros. unfold zalign. now rewrite py_align_fix. Qed.

Lemma zalign_1 n : 0 <= n -> zalign n 1 = n.
Proof. intros. apply zalign_fix; try lia; apply Z.mod_1_r. Qed.

(* ------------------------------------------------------------------ __len__ *)
Lemma max_ends_ge l m : m <= max_ends l m.
Proof.
  revert m; induction l as [|[o n] t IH]; intros m; simpl; [lia|].
  specialize (IH (Z.max (l_child_end o n) m)). unfold l_child_end in *. lia.
Qed.

Lemma max_ends_in l m o n : In (o, n) l -> o + n <= max_ends l m.
Proof.
  revert m; induction l as [|[o' n'] t IH]; intros m H; simpl in *; [tauto|].
  destruct H as [H|H].
  - injection H as -> ->. pose proof (max_ends_ge t (Z.max (l_child_end o n) m)). unfold l_child_end in *. lia.
  - now apply IH.
Qed.

Lemma max_ends_mono l m m' : m <= m' -> max_ends l m <= max_ends l m'.
Proof.
  revert m m'; induction l as [|[o n] t IH]; intros m m' H; simpl; [lia|]. apply IH. unfold l_child_end. lia.
Qed.

Lemma ilen_unfold sz al off bin pat subs :
  ilen (Img sz al off bin pat subs) =
  if sz =? 0 then zalign (max_ends (extents subs) (zlen bin)) al else sz.
Proof. reflexivity. Qed.

Lemma ilen_nonneg i : wf i -> 0 <= ilen i.
Proof.
  intros H. destruct i as [sz al off bin pat subs]. apply wf_inv in H. destruct H as (Ha & Hs & _).
  rewrite ilen_unfold. destruct (sz =? 0) eqn:E; [|lia].
  pose proof (max_ends_ge (extents subs) (zlen bin)). pose proof (zlen_nonneg bin).
  pose proof (zalign_spec (max_ends (extents subs) (zlen bin)) al ltac:(lia) ltac:(lia)). lia.
Qed.

Lemma ilen_mod i : wf i -> ilen i mod ial i = 0.
Proof.
  intros H. destruct i as [sz al off bin pat subs]. apply wf_inv in H. destruct H as (Ha & Hs & Hm & _).
  rewrite ilen_unfold. simpl ial. destruct (sz =? 0) eqn:E; [|exact Hm].
  pose proof (max_ends_ge (extents subs) (zlen bin)). pose proof (zlen_nonneg bin).
  apply (zalign_spec (max_ends (extents subs) (zlen bin)) al); lia.
Qed.

Lemma ilen_set_off c o : ilen (set_off c o) = ilen c.
Proof. destruct c. reflexivity. Qed.

(* ------------------------------------------------------------------ "last write wins" memory *)
Lemma mem_at_app l1 l2 k cur : mem_at (l1 ++ l2) k cur = mem_at l2 k (mem_at l1 k cur).
Proof. revert cur; induction l1 as [|[s d] t IH]; intros cur; simpl; [reflexivity|apply IH]. Qed.

Lemma mem_at_nocover ws k cur :
  (forall s d, In (s, d) ws -> ~ (s <= k < s + zlen d)) -> mem_at ws k cur = cur.
Proof.
  revert cur; induction ws as [|[s d] t IH]; intros cur H; simpl; [reflexivity|].
  assert (Hn := H s d (or_introl eq_refl)).
  destruct ((s <=? k) && (k <? s + zlen d)) eqn:E; [lia|].
  apply IH. intros s' d' Hin. apply H. now right.
Qed.

Lemma getz_nth d k s : s <= k -> nth_error d (Z.to_nat (k - s)) = getz d (k - s).
Proof. intros H. unfold getz. destruct (k - s <? 0) eqn:E; [lia|reflexivity]. Qed.

(* ------------------------------------------------------------------ memoryview slice assignment *)
Lemma mv_write_fit ret o d : 0 <= o -> o + zlen d <= zlen ret ->
  mv_write ret o d = Ok (splice ret (Z.to_nat o) d).
Proof.
  intros Ho Hfit. unfold mv_write, clamp_idx. pose proof (zlen_nonneg d).
  destruct (o <? 0) eqn:E1; [lia|]. destruct (o + zlen d <? 0) eqn:E2; [lia|].
  replace (Z.min o (zlen ret)) with o by lia.
  replace (Z.min (o + zlen d) (zlen ret)) with (o + zlen d) by lia.
  destruct (Z.max (o + zlen d - o) 0 =? zlen d) eqn:E3; [reflexivity|lia].
Qed.

Lemma zlen_splice (ret d : list N) o : 0 <= o -> o + zlen d <= zlen ret -> zlen (splice ret (Z.to_nat o) d) = zlen ret.
Proof. intros Ho Hfit. unfold zlen in *. rewrite splice_length; lia. Qed.

Lemma write_children_ok ws : forall ret,
  (forall w, In w ws -> 0 <= fst w /\ fst w + zlen (snd w) <= zlen ret) ->
  exists r, write_children ret (map (fun w => (fst w, Ok (snd w))) ws) = Ok r /\ zlen r = zlen ret
            /\ forall k, getz r k = mem_at ws k (getz ret k).
Proof.
  induction ws as [|[o d] t IH]; intros ret H.
  - exists ret. simpl. auto.
  - destruct (H (o, d) (or_introl eq_refl)) as [Ho Hfit]. simpl in Ho, Hfit.
    cbn [map write_children fst snd]. rewrite mv_write_fit by assumption.
    destruct (IH (splice ret (Z.to_nat o) d)) as (r & Hr & Hl & Hk).
    { intros w Hw. rewrite zlen_splice by assumption. apply H. now right. }
    exists r. split; [exact Hr|]. split; [rewrite Hl; now apply zlen_splice|].
    intros k. rewrite Hk. rewrite getz_splice by assumption. cbn [mem_at].
    destruct ((o <=? k) && (k <? o + zlen d)) eqn:E; [|reflexivity].
    rewrite getz_nth by lia. reflexivity.
Qed.

(* ------------------------------------------------------------------ pattern blocks *)
Lemma pattern_block_ok p n : pat_ok (Some p) -> exists blk, pattern_block p n = Ok blk /\ length blk = n.
Proof.
  intros H. destruct (pattern_block p n) as [blk|k] eqn:E.
  - exists blk. split; [reflexivity|]. now apply pattern_block_length in E.
  - exfalso. destruct p as [| | |v]; cbn [pattern_block] in E; try discriminate.
    simpl in H. destruct (value_to_bytes_total v false true H) as (bs & Hb & _). rewrite Hb in E. discriminate.
Qed.

Lemma pat_or_zeros_ok pat : pat_ok pat -> pat_ok (Some (pat_or_zeros pat)).
Proof. destruct pat as [p|]; simpl; auto. Qed.

Lemma firstn_repeat {A} (x : A) n m : (n <= m)%nat -> firstn n (repeat x m) = repeat x n.
Proof.
  revert m; induction n as [|n IH]; intros m H; [reflexivity|].
  destruct m as [|m]; [lia|]. simpl. f_equal. apply IH. lia.
Qed.

Lemma firstn_inc_block n m s : (n <= m)%nat -> firstn n (inc_block m s) = inc_block n s.
Proof.
  revert m s; induction n as [|n IH]; intros m s H; [reflexivity|].
  destruct m as [|m]; [lia|]. simpl. f_equal. apply IH. lia.
Qed.

Lemma firstn_cycle_fuel n m pat cur : (n <= m)%nat -> firstn n (cycle_fuel m pat cur) = cycle_fuel n pat cur.
Proof.
  revert m cur; induction n as [|n IH]; intros m cur H; [reflexivity|].
  destruct m as [|m]; [lia|]. cbn [cycle_fuel].
  destruct cur as [|c t].
  - destruct pat as [|c t]; [reflexivity|]. simpl. f_equal. apply IH. lia.
  - simpl. f_equal. apply IH. lia.
Qed.

(* a shorter fill block is a prefix of a longer one: the pattern depends on the position only *)
Lemma pattern_block_prefix p n m b2 : (n <= m)%nat -> pattern_block p m = Ok b2 -> pattern_block p n = Ok (firstn n b2).
Proof.
  intros H. destruct p as [| | |v]; cbn [pattern_block].
  - intros E; injection E as <-. now rewrite firstn_repeat.
  - intros E; injection E as <-. now rewrite firstn_repeat.
  - intros E; injection E as <-. now rewrite firstn_inc_block.
  - destruct (value_to_bytes_int v false 0 true) as [pat|k]; [|discriminate].
    intros E; injection E as <-. now rewrite firstn_cycle_fuel.
Qed.

Lemma align_block_noop r al p : 0 < al -> zlen r mod al = 0 -> align_block r al p = Ok r.
Proof.
  intros Ha Hm. unfold align_block, zlen in *. destruct (al <? 0) eqn:E; [lia|].
  rewrite py_align_fix by lia. rewrite Z.sub_diag. reflexivity.
Qed.

(* ================================================================== validate *)
(* position-based disjointness of two extents (offset, length): the code's test, for every length *)
Definition disj (x y : Z * Z) : Prop := fst x + snd x <= fst y \/ fst y + snd y <= fst x.

Lemma no_overlap_iff x y : no_overlap x y = true <-> disj x y.
Proof. destruct x as [b1 l1], y as [b2 l2]. unfold no_overlap, v_siblings_apart, disj. simpl. lia. Qed.

Lemma disj_sym x y : disj x y -> disj y x.
Proof. unfold disj. tauto. Qed.

Lemma fits_in_iff L x : fits_in L x = true <-> fst x + snd x <= L.
Proof. destruct x as [b l]. unfold fits_in, v_child_sticks_out. simpl. lia. Qed.

Lemma sib_check_iff l : forall pre,
  sib_check pre l = true <-> (ForallOrdPairs disj l /\ forall x y, In x l -> In y pre -> disj x y).
Proof.
  induction l as [|x t IH]; intros pre.
  - simpl. split; [intros _; split; [constructor|intros ? ? []]|reflexivity].
  - cbn [sib_check]. rewrite !andb_true_iff, !forallb_forall, IH. split.
    + intros [[H1 H2] [H3 H4]]. split.
      * constructor; [|exact H3]. apply Forall_forall. intros y Hy. apply no_overlap_iff. now apply H2.
      * intros x0 y [<-|Hx0] Hy.
        -- apply no_overlap_iff. now apply H1.
        -- apply H4; [exact Hx0|]. apply in_or_app. now left.
    + intros [H1 H2]. inversion H1 as [|? ? Hf Ht]; subst. rewrite Forall_forall in Hf.
      split; [split|split].
      * intros y Hy. apply no_overlap_iff. apply H2; [now left|exact Hy].
      * intros y Hy. apply no_overlap_iff. now apply Hf.
      * exact Ht.
      * intros x0 y Hx0 Hy. apply in_app_or in Hy. destruct Hy as [Hy|[<-|[]]].
        -- apply H2; [now right|exact Hy].
        -- apply disj_sym. now apply Hf.
Qed.

Lemma validate_unfold sz al off bin pat subs :
  validate (Img sz al off bin pat subs) =
  negb (v_offset_negative off)
  && negb (negb (isnil bin) && v_binary_too_long (zlen bin) (ilen (Img sz al off bin pat subs)))
  && forallb validate subs
  && forallb (fits_in (ilen (Img sz al off bin pat subs))) (extents subs)
  && sib_check [] (extents subs).
Proof. reflexivity. Qed.

(* the layout conditions, one level *)
Lemma validate_inv sz al off bin pat subs :
  validate (Img sz al off bin pat subs) = true <->
  0 <= off /\ (bin = [] \/ zlen bin <= ilen (Img sz al off bin pat subs)) /\
  (forall c, In c subs -> validate c = true) /\
  (forall c, In c subs -> ioff c + ilen c <= ilen (Img sz al off bin pat subs)) /\
  ForallOrdPairs disj (extents subs).
Proof.
  rewrite validate_unfold. set (L := ilen (Img sz al off bin pat subs)).
  rewrite !andb_true_iff, !forallb_forall, sib_check_iff.
  assert (Hbin : negb (negb (isnil bin) && v_binary_too_long (zlen bin) L) = true <-> (bin = [] \/ zlen bin <= L)).
  { unfold v_binary_too_long. destruct bin as [|b t]; simpl.
    - split; [now left|reflexivity].
    - split; intros H.
      + right. destruct (L <? zlen (b :: t)) eqn:E; [discriminate|lia].
      + destruct H as [H|H]; [discriminate|]. destruct (L <? zlen (b :: t)) eqn:E; [lia|reflexivity]. }
  rewrite Hbin. unfold extents, v_offset_negative. split.
  - intros [[[[H1 H2] H3] H4] [H5 _]]. repeat split; try assumption.
    + lia.
    + intros c Hc. specialize (H4 (ioff c, ilen c)). rewrite fits_in_iff in H4. apply H4.
      apply in_map_iff. now exists c.
  - intros (H1 & H2 & H3 & H4 & H5). repeat split; try assumption.
    + lia.
    + intros x Hx. apply in_map_iff in Hx. destruct Hx as (c & <- & Hc). apply fits_in_iff. now apply H4.
    + intros ? ? ? [].
Qed.

Lemma validate_off_nonneg c : validate c = true -> 0 <= ioff c.
Proof. destruct c as [sz al off bin pat subs]. rewrite validate_inv. simpl. tauto. Qed.

(* ================================================================== export of a valid tree *)
Definition xbytes (c : img) : list N := match export c with Ok d => d | Err _ => [] end.
Definition cwrites (subs : list img) : list (Z * list N) := map (fun c => (ioff c, xbytes c)) subs.
Definition fill_block (i : img) : list N :=
  match pattern_block (pat_or_zeros (ipat i)) (Z.to_nat (ilen i)) with Ok b => b | Err _ => [] end.
(* own binary at 0, fill pattern behind it *)
Definition base_byte (i : img) (k : Z) : option N :=
  if k <? zlen (ibin i) then getz (ibin i) k else getz (fill_block i) k.

Lemma export_unfold sz al off bin pat subs :
  export (Img sz al off bin pat subs) =
  let n := ilen (Img sz al off bin pat subs) in
  if negb (isnil bin) && (n =? zlen bin) && isnil subs then Ok bin
  else match pattern_block (pat_or_zeros pat) (Z.to_nat n) with
       | Err e => Err e
       | Ok blk =>
           let ret := if isnil bin then blk else splice blk 0 bin in
           match write_children ret (map (fun c => (ioff c, export c)) subs) with
           | Err e => Err e
           | Ok r => align_block r al (pat_or_zeros pat)
           end
       end.
Proof. reflexivity. Qed.

Lemma export_valid i : wf i -> validate i = true ->
  exists b, export i = Ok b /\ zlen b = ilen i /\
            forall k, 0 <= k < ilen i -> getz b k = mem_at (cwrites (isubs i)) k (base_byte i k).
Proof.
  induction i as [sz al off bin pat subs IH] using img_ind'. intros Hwf Hval.
  pose proof (ilen_nonneg _ Hwf) as HL0. pose proof (ilen_mod _ Hwf) as HLm. simpl ial in HLm.
  apply wf_inv in Hwf. destruct Hwf as (Hal & Hsz & Hszm & Hpat & Hsubs).
  apply validate_inv in Hval. destruct Hval as (Hoff & Hbin & Hvc & Hfit & Hdisj).
  rewrite Forall_forall in IH.
  rewrite export_unfold. set (L := ilen (Img sz al off bin pat subs)) in *. cbv zeta.
  destruct (negb (isnil bin) && (L =? zlen bin) && isnil subs) eqn:Efast.
  - (* fast path: the binary itself *)
    exists bin. split; [reflexivity|]. split; [lia|].
    intros k Hk. destruct subs; [|rewrite andb_false_r in Efast; discriminate].
    simpl. unfold base_byte. simpl ibin. destruct (k <? zlen bin) eqn:E; [reflexivity|lia].
  - destruct (pattern_block_ok (pat_or_zeros pat) (Z.to_nat L) (pat_or_zeros_ok _ Hpat)) as (blk & Eblk & Hblk).
    rewrite Eblk.
    set (ret := if isnil bin then blk else splice blk 0 bin).
    assert (Hret : zlen ret = L /\ forall k, 0 <= k -> getz ret k = base_byte (Img sz al off bin pat subs) k).
    { unfold base_byte, fill_block. simpl ibin. simpl ipat. fold L. rewrite Eblk.
      subst ret. destruct bin as [|b0 bt] eqn:Ebin.
      - simpl isnil. cbv iota. split; [unfold zlen; lia|]. intros k Hk.
        destruct (k <? zlen []) eqn:E; [unfold zlen in E; simpl in E; lia|reflexivity].
      - simpl isnil. cbv iota. destruct Hbin as [Hbin|Hbin]; [discriminate|].
        change 0%nat with (Z.to_nat 0).
        split; [rewrite zlen_splice; unfold zlen in *; lia|].
        intros k Hk. rewrite getz_splice by (unfold zlen in *; lia).
        rewrite Z.sub_0_r, Z.add_0_l.
        destruct (0 <=? k) eqn:E0; [|lia]. simpl. reflexivity. }
    destruct Hret as [Hretl Hretk].
    assert (Hx : forall c, In c subs -> export c = Ok (xbytes c) /\ zlen (xbytes c) = ilen c).
    { intros c Hc. destruct (IH c Hc (Hsubs c Hc) (Hvc c Hc)) as (d & Hd & Hdl & _).
      unfold xbytes. rewrite Hd. auto. }
    assert (Hmap : map (fun c => (ioff c, export c)) subs = map (fun w => (fst w, Ok (snd w))) (cwrites subs)).
    { unfold cwrites. rewrite map_map. apply map_ext_in. intros c Hc. simpl. now rewrite (proj1 (Hx c Hc)). }
    rewrite Hmap.
    destruct (write_children_ok (cwrites subs) ret) as (r & Hr & Hrl & Hrk).
    { intros w Hw. unfold cwrites in Hw. apply in_map_iff in Hw. destruct Hw as (c & <- & Hc). simpl.
      rewrite (proj2 (Hx c Hc)), Hretl. split; [apply validate_off_nonneg; auto|auto]. }
    rewrite Hr. rewrite align_block_noop by (try lia; rewrite Hrl, Hretl; exact HLm).
    exists r. split; [reflexivity|]. split; [lia|].
    intros k Hk. simpl isubs. rewrite Hrk, Hretk by lia. reflexivity.
Qed.

Lemma export_xbytes i : wf i -> validate i = true -> export i = Ok (xbytes i) /\ zlen (xbytes i) = ilen i.
Proof.
  intros Hw Hv. destruct (export_valid i Hw Hv) as (b & Hb & Hl & _). unfold xbytes. rewrite Hb. auto.
Qed.

(* ------------------------------------------------------------------ (1) length *)
Lemma export_length_lemma i : wf i -> validate i = true ->
  exists b, export i = Ok b /\ zlen b = ilen i.
Proof. intros Hw Hv. destruct (export_valid i Hw Hv) as (b & Hb & Hl & _). eauto. Qed.

(* ------------------------------------------------------------------ (2) children at their offsets *)
Lemma mem_at_children subs :
  (forall c, In c subs -> zlen (xbytes c) = ilen c) -> ForallOrdPairs disj (extents subs) ->
  forall c k cur, In c subs -> ioff c <= k < ioff c + ilen c ->
  mem_at (cwrites subs) k cur = getz (xbytes c) (k - ioff c).
Proof.
  induction subs as [|x t IH]; intros Hlen Hd c k cur Hin Hk; [destruct Hin|].
  simpl in Hd. inversion Hd as [|? ? Hf Ht]; subst.
  destruct Hin as [<-|Hin].
  - cbn [cwrites map mem_at]. rewrite (Hlen x (or_introl eq_refl)).
    replace ((ioff x <=? k) && (k <? ioff x + ilen x)) with true by lia.
    rewrite mem_at_nocover; [apply getz_nth; lia|].
    intros s d Hsd. apply in_map_iff in Hsd. destruct Hsd as (c' & Hc' & Hin'). injection Hc' as <- <-.
    rewrite (Hlen c' (or_intror Hin')). rewrite Forall_forall in Hf.
    specialize (Hf (ioff c', ilen c')). unfold disj in Hf. simpl in Hf.
    assert (In (ioff c', ilen c') (extents t)) by (apply in_map_iff; now exists c').
    specialize (Hf H). lia.
  - cbn [cwrites map mem_at]. apply IH; auto. intros c' Hc'. apply Hlen. now right.
Qed.

Lemma child_bytes_at i c j : wf i -> validate i = true -> In c (isubs i) -> 0 <= j < ilen c ->
  getz (xbytes i) (ioff c + j) = getz (xbytes c) j.
Proof.
  intros Hw Hv Hc Hj. destruct (export_valid i Hw Hv) as (b & Hb & Hl & Hk).
  unfold xbytes at 1. rewrite Hb.
  destruct i as [sz al off bin pat subs]. simpl isubs in *.
  apply wf_inv in Hw. destruct Hw as (_ & _ & _ & _ & Hsubs).
  pose proof Hv as Hv'. apply validate_inv in Hv'. destruct Hv' as (_ & _ & Hvc & Hfit & Hdisj).
  pose proof (validate_off_nonneg c (Hvc c Hc)). pose proof (Hfit c Hc).
  rewrite Hk by lia.
  rewrite (mem_at_children subs) with (c := c); auto; [f_equal; lia| |lia].
  intros c' Hc'. apply export_xbytes; auto.
Qed.

Lemma export_places_children_lemma i c : wf i -> validate i = true -> In c (isubs i) ->
  exists b d, export i = Ok b /\ export c = Ok d /\ zlen d = ilen c /\
              slice b (Z.to_nat (ioff c)) (Z.to_nat (ioff c + ilen c)) = d.
Proof.
  intros Hw Hv Hc.
  assert (Hwc : wf c) by (destruct i; apply wf_inv in Hw; simpl in Hc; now apply Hw).
  assert (Hvc : validate c = true) by (destruct i; apply validate_inv in Hv; simpl in Hc; now apply Hv).
  assert (Hfit : ioff c + ilen c <= ilen i) by (destruct i; apply validate_inv in Hv; simpl in Hc; now apply Hv).
  destruct (export_xbytes i Hw Hv) as [Hb Hbl]. destruct (export_xbytes c Hwc Hvc) as [Hd Hdl].
  pose proof (validate_off_nonneg c Hvc) as Ho. pose proof (ilen_nonneg c Hwc) as Hn.
  exists (xbytes i), (xbytes c). repeat split; auto.
  apply getz_ext.
  - unfold zlen in *. rewrite slice_length by lia. lia.
  - intros k Hk. assert (Hk' : 0 <= k < ilen c).
    { unfold zlen in Hk, Hbl. rewrite slice_length in Hk by lia. lia. }
    rewrite getz_slice by lia.
    replace ((0 <=? k) && (k <? ioff c + ilen c - ioff c)) with true by lia.
    now apply child_bytes_at.
Qed.

(* every descendant: o is the sum of the offsets on the path from i down to d *)
Inductive desc_at : img -> img -> Z -> Prop :=
| DHere i : desc_at i i 0
| DStep i c d o : In c (isubs i) -> desc_at c d o -> desc_at i d (ioff c + o).

Lemma desc_bytes_at i d o : desc_at i d o -> wf i -> validate i = true ->
  wf d /\ validate d = true /\ 0 <= o /\ o + ilen d <= ilen i /\
  forall j, 0 <= j < ilen d -> getz (xbytes i) (o + j) = getz (xbytes d) j.
Proof.
  induction 1 as [i|i c d o Hc Hd IH]; intros Hw Hv.
  - repeat split; auto; try lia.
  - assert (Hwc : wf c) by (destruct i; apply wf_inv in Hw; simpl in Hc; now apply Hw).
    assert (Hvc : validate c = true) by (destruct i; apply validate_inv in Hv; simpl in Hc; now apply Hv).
    assert (Hfit : ioff c + ilen c <= ilen i) by (destruct i; apply validate_inv in Hv; simpl in Hc; now apply Hv).
    pose proof (validate_off_nonneg c Hvc) as Ho.
    destruct (IH Hwc Hvc) as (Hwd & Hvd & Ho' & Hfit' & Hk).
    repeat split; auto; try lia.
    intros j Hj. rewrite <- Hk by assumption. rewrite <- Z.add_assoc. apply child_bytes_at; auto. lia.
Qed.

Lemma export_places_descendants_lemma i d o : wf i -> validate i = true -> desc_at i d o ->
  exists b x, export i = Ok b /\ export d = Ok x /\ zlen x = ilen d /\ 0 <= o /\ o + ilen d <= zlen b /\
              slice b (Z.to_nat o) (Z.to_nat (o + ilen d)) = x.
Proof.
  intros Hw Hv Hd. destruct (desc_bytes_at i d o Hd Hw Hv) as (Hwd & Hvd & Ho & Hfit & Hk).
  destruct (export_xbytes i Hw Hv) as [Hb Hbl]. destruct (export_xbytes d Hwd Hvd) as [Hx Hxl].
  pose proof (ilen_nonneg d Hwd) as Hn.
  exists (xbytes i), (xbytes d). repeat split; auto; try lia.
  apply getz_ext.
  - unfold zlen in *. rewrite slice_length by lia. lia.
  - intros k Hk0. assert (Hk' : 0 <= k < ilen d).
    { unfold zlen in Hk0, Hbl. rewrite slice_length in Hk0 by lia. lia. }
    rewrite getz_slice by lia.
    replace ((0 <=? k) && (k <? o + ilen d - o)) with true by lia.
    now apply Hk.
Qed.

(* ------------------------------------------------------------------ (3) everything else: own binary, then the fill pattern *)
Lemma export_fill_lemma i k : wf i -> validate i = true -> 0 <= k < ilen i ->
  (forall c, In c (isubs i) -> ~ (ioff c <= k < ioff c + ilen c)) ->
  exists b, export i = Ok b /\ getz b k = base_byte i k.
Proof.
  intros Hw Hv Hk Hnc. destruct (export_valid i Hw Hv) as (b & Hb & Hl & Hkk).
  exists b. split; [exact Hb|]. rewrite Hkk by assumption.
  apply mem_at_nocover. intros s d Hsd. unfold cwrites in Hsd. apply in_map_iff in Hsd.
  destruct Hsd as (c & Hc & Hin). injection Hc as <- <-.
  assert (Hwc : wf c) by (destruct i; apply wf_inv in Hw; simpl in Hin; now apply Hw).
  assert (Hvc : validate c = true) by (destruct i; apply validate_inv in Hv; simpl in Hin; now apply Hv).
  rewrite (proj2 (export_xbytes c Hwc Hvc)). now apply Hnc.
Qed.

(* the fill bytes by position, for the three named patterns *)
Lemma getz_repeat x n k : 0 <= k < Z.of_nat n -> getz (repeat x n) k = Some x.
Proof.
  intros H. unfold getz. destruct (k <? 0) eqn:E; [lia|].
  rewrite (nth_error_nth' _ x) by (rewrite repeat_length; lia). f_equal. apply nth_repeat.
Qed.

Lemma nth_error_inc_block n s j : (j < n)%nat -> nth_error (inc_block n s) j = Some ((s + N.of_nat j) mod 256)%N.
Proof.
  revert s j; induction n as [|n IH]; intros s j H; [lia|].
  destruct j as [|j]; simpl.
  - f_equal. f_equal. lia.
  - rewrite IH by lia. f_equal. f_equal. lia.
Qed.

Lemma fill_byte_named i k : 0 <= k < ilen i ->
  match ipat i with
  | None | Some PZeros => getz (fill_block i) k = Some 0%N
  | Some POnes => getz (fill_block i) k = Some 255%N
  | Some PInc => getz (fill_block i) k = Some (Z.to_N (k mod 256))
  | Some (PNum _) => True
  end.
Proof.
  intros Hk. unfold fill_block.
  destruct (ipat i) as [[| | |v]|]; simpl; auto; try (apply getz_repeat; lia).
  unfold getz. destruct (k <? 0) eqn:E; [lia|]. rewrite nth_error_inc_block by lia. f_equal.
  rewrite N.add_0_l. lia.
Qed.

(* ================================================================== (4) validate_iff *)
(* SPECIFICATION of a valid layout, stated independently of the code's loops:
   the offset is not negative, the own binary fits into the image, every sub-image is valid, lies inside the
   parent, and two DISTINCT sub-images (by position in sub_images) never overlap.
   Extents are compared by position (offset + length <= other offset), which for non-empty extents is exactly
   "no byte in common" / "every byte inside" (extent_disjoint_bytes, extent_inside_bytes below); for a zero-length
   sub-image it is the code's rule (inside a sibling = overlap, at its first byte or behind its end = fine). *)
Inductive layout_ok : img -> Prop :=
| LayoutOk sz al off bin pat subs :
    0 <= off ->
    (bin <> [] -> zlen bin <= ilen (Img sz al off bin pat subs)) ->
    (forall c, In c subs -> layout_ok c) ->
    (forall c, In c subs -> ioff c + ilen c <= ilen (Img sz al off bin pat subs)) ->
    (forall a b ca cb, a <> b -> nth_error subs a = Some ca -> nth_error subs b = Some cb ->
                       ioff ca + ilen ca <= ioff cb \/ ioff cb + ilen cb <= ioff ca) ->
    layout_ok (Img sz al off bin pat subs).

Lemma fop_nth {A} (R : A -> A -> Prop) (l : list A) : (forall x y, R x y -> R y x) ->
  (ForallOrdPairs R l <->
   forall a b x y, a <> b -> nth_error l a = Some x -> nth_error l b = Some y -> R x y).
Proof.
  intros Hsym. induction l as [|h t IH].
  - split; [intros _ a b x y _ Ha; destruct a; discriminate|constructor].
  - split.
    + intros H. inversion H as [|? ? Hf Ht]; subst. rewrite Forall_forall in Hf.
      intros [|a] [|b] x y Hab Ha Hb; simpl in *.
      * congruence.
      * injection Ha as <-. apply Hf. eapply nth_error_In; eauto.
      * injection Hb as <-. apply Hsym. apply Hf. eapply nth_error_In; eauto.
      * apply (proj1 IH Ht a b); auto.
    + intros H. constructor.
      * apply Forall_forall. intros y Hy. apply In_nth_error in Hy. destruct Hy as [n Hn].
        apply (H 0%nat (S n)); auto.
      * apply IH. intros a b x y Hab Ha Hb. apply (H (S a) (S b)); auto.
Qed.

Lemma disj_extents_nth subs :
  ForallOrdPairs disj (extents subs) <->
  (forall a b ca cb, a <> b -> nth_error subs a = Some ca -> nth_error subs b = Some cb ->
                     ioff ca + ilen ca <= ioff cb \/ ioff cb + ilen cb <= ioff ca).
Proof.
  rewrite (fop_nth disj (extents subs) disj_sym). unfold extents. split.
  - intros H a b ca cb Hab Ha Hb.
    apply (H a b (ioff ca, ilen ca) (ioff cb, ilen cb) Hab); rewrite nth_error_map; [now rewrite Ha|now rewrite Hb].
  - intros H a b x y Hab Ha Hb. rewrite nth_error_map in Ha, Hb.
    destruct (nth_error subs a) as [ca|] eqn:Ea; [|discriminate].
    destruct (nth_error subs b) as [cb|] eqn:Eb; [|discriminate].
    injection Ha as <-. injection Hb as <-. exact (H a b ca cb Hab Ea Eb).
Qed.

Lemma validate_iff_lemma i : validate i = true <-> layout_ok i.
Proof.
  induction i as [sz al off bin pat subs IH] using img_ind'. rewrite Forall_forall in IH.
  rewrite validate_inv. split.
  - intros (H1 & H2 & H3 & H4 & H5). constructor; auto.
    + intros Hne. destruct H2; [contradiction|assumption].
    + intros c Hc. apply IH; auto.
    + now apply disj_extents_nth.
  - intros H. inversion H as [? ? ? ? ? ? Ho Hb Hcs Hf Hd]; subst. repeat split; auto.
    + destruct bin; [now left|right; apply Hb; discriminate].
    + intros c Hc. apply IH; auto.
    + now apply disj_extents_nth.
Qed.

(* the interval tests mean what they should for non-empty extents *)
Lemma extent_disjoint_bytes b1 l1 b2 l2 : 0 < l1 -> 0 < l2 ->
  (no_overlap (b1, l1) (b2, l2) = true <-> ~ exists x, (b1 <= x < b1 + l1) /\ (b2 <= x < b2 + l2)).
Proof.
  intros H1 H2. rewrite no_overlap_iff. unfold disj. simpl. split.
  - intros H (x & Hx1 & Hx2). lia.
  - intros H. destruct (Z_le_dec (b1 + l1) b2) as [|Hn1]; [now left|].
    destruct (Z_le_dec (b2 + l2) b1) as [|Hn2]; [now right|].
    exfalso. apply H. exists (Z.max b1 b2). lia.
Qed.

Lemma extent_inside_bytes L b l : 0 < l ->
  (fits_in L (b, l) = true <-> forall x, b <= x < b + l -> x < L).
Proof.
  intros Hl. rewrite fits_in_iff. simpl. split.
  - intros H x Hx. lia.
  - intros H. specialize (H (b + l - 1)). lia.
Qed.

(* ================================================================== (5) add_image keeps sub_images sorted *)
Definition off_le (a b : img) : Prop := ioff a <= ioff b.

Lemma insert_img_split c l :
  exists l1 l2, l = l1 ++ l2 /\ insert_img c l = l1 ++ c :: l2 /\
                Forall (fun x => ioff x <= ioff c) l1 /\
                match l2 with x :: _ => ioff c < ioff x | [] => True end.
Proof.
  induction l as [|x t IH].
  - exists [], []. simpl. auto.
  - simpl. destruct (ioff c <? ioff x) eqn:E.
    + exists [], (x :: t). simpl. repeat split; auto. lia.
    + destruct IH as (l1 & l2 & -> & Hins & Hf & Hh).
      exists (x :: l1), l2. simpl. rewrite Hins. repeat split; auto. constructor; [lia|exact Hf].
Qed.

Lemma insert_img_sorted c l : Sorted off_le l -> Sorted off_le (insert_img c l).
Proof.
  induction l as [|x t IH]; intros H.
  - simpl. constructor; constructor.
  - simpl. destruct (ioff c <? ioff x) eqn:E.
    + constructor; [exact H|]. constructor. unfold off_le. lia.
    + inversion H as [|? ? Hs Hh]; subst. constructor; [now apply IH|].
      destruct t as [|y t']; simpl.
      * constructor. unfold off_le. lia.
      * destruct (ioff c <? ioff y) eqn:E2; constructor; unfold off_le; try lia.
        inversion Hh; subst. assumption.
Qed.

Lemma add_image_sorted_lemma p c : Sorted off_le (isubs p) ->
  Sorted off_le (isubs (add_image p c)) /\ Permutation (c :: isubs p) (isubs (add_image p c)).
Proof.
  intros H. destruct p as [sz al off bin pat subs]. simpl in *. split; [now apply insert_img_sorted|].
  destruct (insert_img_split c subs) as (l1 & l2 & -> & -> & _). apply Permutation_middle.
Qed.

(* insertion is stable: behind every sub-image with the same or a smaller offset, before the first bigger one *)
Lemma add_image_stable_lemma p c :
  exists l1 l2, isubs p = l1 ++ l2 /\ isubs (add_image p c) = l1 ++ c :: l2 /\
                Forall (fun x => ioff x <= ioff c) l1 /\
                match l2 with x :: _ => ioff c < ioff x | [] => True end.
Proof. destruct p as [sz al off bin pat subs]. simpl. apply insert_img_split. Qed.

(* ================================================================== (6) alignment only ever extends the end *)
Lemma getz_firstn l n k : getz (firstn n l) k = if k <? Z.of_nat n then getz l k else None.
Proof.
  unfold getz. destruct (k <? 0) eqn:E.
  - destruct (k <? Z.of_nat n); reflexivity.
  - destruct (k <? Z.of_nat n) eqn:E2.
    + apply nth_error_firstn_lt. lia.
    + apply nth_error_firstn_ge. lia.
Qed.

Lemma getz_skipn l n j : 0 <= j -> getz (skipn n l) j = getz l (Z.of_nat n + j).
Proof.
  intros H. unfold getz. destruct (j <? 0) eqn:E; [lia|]. destruct (Z.of_nat n + j <? 0) eqn:E2; [lia|].
  rewrite nth_error_skipn. f_equal. lia.
Qed.

Lemma zalign_0 a : 0 < a -> zalign 0 a = 0.
Proof.
  intros H. destruct (zalign_spec 0 a ltac:(lia) H) as (H1 & H2 & H3).
  rewrite Z.mod_small in H2 by lia. exact H2.
Qed.

Lemma align_only_extends_lemma size a off bin pat subs :
  1 <= a -> 0 <= size -> pat_ok pat -> (forall c, In c subs -> wf c) ->
  validate (Img size 1 off bin pat subs) = true ->
  exists b1 pad,
    export (Img size 1 off bin pat subs) = Ok b1 /\
    export (Img (zalign size a) a off bin pat subs) = Ok (b1 ++ pad) /\
    validate (Img (zalign size a) a off bin pat subs) = true /\
    forall j, 0 <= j < zlen pad ->
              getz pad j = getz (fill_block (Img (zalign size a) a off bin pat subs)) (zlen b1 + j).
Proof.
  intros Ha Hs Hp Hsubs Hv1.
  set (i1 := Img size 1 off bin pat subs) in *. set (ia := Img (zalign size a) a off bin pat subs).
  assert (Hw1 : wf i1) by (constructor; auto; try lia; apply Z.mod_1_r).
  pose proof (zalign_spec size a Hs ltac:(lia)) as (Hz1 & Hz2 & Hz3).
  assert (Hwa : wf ia) by (constructor; auto; lia).
  pose proof (max_ends_ge (extents subs) (zlen bin)) as HM. pose proof (zlen_nonneg bin) as Hb0.
  set (M := max_ends (extents subs) (zlen bin)) in *.
  assert (HL : ilen i1 <= ilen ia).
  { unfold i1, ia. rewrite !ilen_unfold. fold M.
    destruct (size =? 0) eqn:E.
    - assert (size = 0) as -> by lia. rewrite zalign_0 by lia. simpl.
      rewrite zalign_1 by lia. apply (zalign_spec M a); lia.
    - destruct (zalign size a =? 0) eqn:E2; lia. }
  assert (Hva : validate ia = true).
  { unfold i1 in Hv1. apply validate_inv in Hv1. destruct Hv1 as (H1 & H2 & H3 & H4 & H5). fold i1 in H2, H4.
    unfold ia. apply validate_inv. fold ia. repeat split; auto.
    - destruct H2; [now left|right; lia].
    - intros c Hc. specialize (H4 c Hc). lia. }
  destruct (export_valid i1 Hw1 Hv1) as (b1 & Hb1 & Hl1 & Hk1).
  destruct (export_valid ia Hwa Hva) as (ba & Hba & Hla & Hka).
  pose proof (ilen_nonneg i1 Hw1) as HL0.
  assert (Hfill : forall k, 0 <= k < ilen i1 -> getz (fill_block i1) k = getz (fill_block ia) k).
  { intros k Hk. unfold fill_block. simpl ipat.
    destruct (pattern_block_ok (pat_or_zeros pat) (Z.to_nat (ilen ia)) (pat_or_zeros_ok _ Hp)) as (blk & Eblk & _).
    assert (Hle : (Z.to_nat (ilen i1) <= Z.to_nat (ilen ia))%nat) by lia.
    rewrite Eblk. rewrite (pattern_block_prefix _ _ _ _ Hle Eblk).
    rewrite getz_firstn. destruct (k <? Z.of_nat (Z.to_nat (ilen i1))) eqn:E; [reflexivity|lia]. }
  assert (Hpre : firstn (length b1) ba = b1).
  { apply getz_ext.
    - unfold zlen in *. rewrite firstn_length. lia.
    - intros k Hk. assert (Hk' : 0 <= k < ilen i1).
      { unfold zlen in *. rewrite firstn_length in Hk. lia. }
      rewrite getz_firstn. destruct (k <? Z.of_nat (length b1)) eqn:E; [|unfold zlen in *; lia].
      rewrite Hk1, Hka by lia. simpl isubs. f_equal. unfold base_byte. simpl ibin.
      destruct (k <? zlen bin); [reflexivity|symmetry; now apply Hfill]. }
  exists b1, (skipn (length b1) ba). split; [exact Hb1|]. split; [|split; [exact Hva|]].
  - rewrite Hba. f_equal. rewrite <- Hpre at 1. symmetry. apply firstn_skipn.
  - intros j Hj. rewrite getz_skipn by lia. fold (zlen b1).
    assert (Hj' : 0 <= zlen b1 + j < ilen ia).
    { unfold zlen in *. rewrite skipn_length in Hj. lia. }
    rewrite Hka by lia. simpl isubs.
    rewrite mem_at_nocover.
    + unfold base_byte. simpl ibin. destruct (zlen b1 + j <? zlen bin) eqn:E; [|reflexivity].
      unfold i1 in Hv1. apply validate_inv in Hv1. fold i1 in Hv1. destruct Hv1 as (_ & [->|H2] & _).
      * unfold zlen in E. simpl in E. lia.
      * lia.
    + intros s d Hsd. unfold cwrites in Hsd. apply in_map_iff in Hsd. destruct Hsd as (c & Hc & Hin).
      injection Hc as <- <-.
      unfold i1 in Hv1. apply validate_inv in Hv1. fold i1 in Hv1. destruct Hv1 as (_ & _ & H3 & H4 & _).
      rewrite (proj2 (export_xbytes c (Hsubs c Hin) (H3 c Hin))). specialize (H4 c Hin). lia.
Qed.

(* ================================================================== images built through the public API are wf *)
Lemma py_align_ok_inv size al sz : py_align size al = Ok sz -> 1 <= al /\ 0 <= sz /\ sz mod al = 0.
Proof.
  unfold py_align. destruct (orb (Z.leb al 0) (Z.ltb size 0)) eqn:E; [discriminate|].
  intros H; injection H as <-. split; [lia|]. split; [nia|]. apply Z.mod_mul. lia.
Qed.

Lemma wf_set_off c o : wf c -> wf (set_off c o).
Proof. destruct c. intros H. apply wf_inv in H. constructor; tauto. Qed.

Lemma in_insert_img c x l : In x (insert_img c l) -> x = c \/ In x l.
Proof.
  induction l as [|y t IH]; simpl.
  - intros [<-|[]]. now left.
  - destruct (ioff c <? ioff y).
    + intros [<-|H]; [now left|now right].
    + intros [<-|H]; [right; now left|]. destruct (IH H); [now left|right; now right].
Qed.

Lemma wf_add_image p c : wf p -> wf c -> wf (add_image p c).
Proof.
  destruct p as [sz al off bin pat subs]. intros Hp Hc. apply wf_inv in Hp.
  destruct Hp as (H1 & H2 & H3 & H4 & H5). constructor; auto.
  intros x Hx. apply in_insert_img in Hx. destruct Hx as [->|Hx]; auto.
Qed.

Lemma wf_append_image p c : wf p -> wf c -> wf (append_image p c).
Proof. intros. unfold append_image. apply wf_add_image; auto. now apply wf_set_off. Qed.

Fixpoint spec_ok (s : spec) : Prop :=
  match s with
  | Spec size al off bin pat kids =>
      pat_ok pat /\ (fix all (l : list (bool * spec)) : Prop :=
                       match l with [] => True | (_, k) :: t => spec_ok k /\ all t end) kids
  end.

Section SpecInd.
  Variable P : spec -> Prop.
  Hypothesis H : forall size al off bin pat kids, Forall (fun k => P (snd k)) kids -> P (Spec size al off bin pat kids).
  Fixpoint spec_ind' (s : spec) : P s :=
    match s with
    | Spec size al off bin pat kids =>
        H size al off bin pat kids
          ((fix go (l : list (bool * spec)) : Forall (fun k => P (snd k)) l :=
              match l with
              | [] => Forall_nil _
              | k :: t => Forall_cons k (spec_ind' (snd k)) (go t)
              end) kids)
    end.
End SpecInd.

Lemma build_wf s : forall i, spec_ok s -> build s = Ok i -> wf i.
Proof.
  induction s as [size al off bin pat kids IH] using spec_ind'. intros i [Hp Hk] Hb.
  cbn [build] in Hb. destruct (py_align size al) as [sz|e] eqn:Ea; [|discriminate].
  apply py_align_ok_inv in Ea. destruct Ea as (Ha1 & Ha2 & Ha3).
  assert (Hw0 : wf (Img sz al off bin pat [])) by (constructor; auto; intros ? []).
  revert Hw0 Hb. generalize (Img sz al off bin pat []). revert Hk IH.
  induction kids as [|[ap k] t IHt]; intros Hk IH p Hw Hb.
  - injection Hb as <-. exact Hw.
  - destruct Hk as [Hk1 Hk2]. inversion IH as [|? ? IH1 IH2]; subst. simpl in IH1.
    destruct (build k) as [c|e] eqn:Ek; [|discriminate].
    pose proof (IH1 c Hk1 eq_refl) as Hwc.
    destruct ap.
    + exact (IHt Hk2 IH2 _ (wf_append_image p c Hw Hwc) Hb).
    + exact (IHt Hk2 IH2 _ (wf_add_image p c Hw Hwc) Hb).
Qed.

(* ================================================================== (7) load_binary_image: segments -> sub-images *)
(* what bincopy hands over: segments by ascending address that do not run into each other *)
Inductive segs_sorted : list (Z * list N) -> Prop :=
| SS_nil : segs_sorted []
| SS_one s d : segs_sorted [(s, d)]
| SS_cons s d s' d' t : s + zlen d <= s' -> segs_sorted ((s', d') :: t) -> segs_sorted ((s, d) :: (s', d') :: t).

Definition seg_base (segs : list (Z * list N)) : Z := match segs with [] => 0 | (s, _) :: _ => s end.

Lemma segs_sorted_tail w t : segs_sorted (w :: t) -> segs_sorted t.
Proof. intros H. inversion H; subst; [constructor|assumption]. Qed.

Lemma segs_sorted_head_end t : forall s d, segs_sorted ((s, d) :: t) -> Forall (fun w => s + zlen d <= fst w) t.
Proof.
  induction t as [|[s' d'] t IH]; intros s d H; [constructor|].
  inversion H as [| |? ? ? ? ? Hle Hs]; subst. constructor; [exact Hle|].
  eapply Forall_impl; [|apply (IH s' d' Hs)]. intros w Hw. simpl in *. pose proof (zlen_nonneg d'). lia.
Qed.

Lemma insert_img_last c l : Forall (fun x => ioff x <= ioff c) l -> insert_img c l = l ++ [c].
Proof.
  induction l as [|x t IH]; intros H; [reflexivity|]. inversion H; subst. simpl.
  destruct (ioff c <? ioff x) eqn:E; [lia|]. f_equal. auto.
Qed.

Lemma fold_add_sorted segs : forall sz al off bin pat subs, segs_sorted segs ->
  (forall x w, In x subs -> In w segs -> ioff x <= fst w) ->
  fold_left (fun p s => add_image p (seg_img s)) segs (Img sz al off bin pat subs)
  = Img sz al off bin pat (subs ++ map seg_img segs).
Proof.
  induction segs as [|[s d] t IH]; intros sz al off bin pat subs Hs Hle.
  - simpl. now rewrite app_nil_r.
  - cbn [fold_left add_image]. rewrite insert_img_last.
    + rewrite IH.
      * simpl. now rewrite <- app_assoc.
      * eapply segs_sorted_tail; eauto.
      * intros x w Hx Hw. apply in_app_or in Hx. destruct Hx as [Hx|[<-|[]]].
        -- apply Hle; [exact Hx|now right].
        -- simpl. pose proof (segs_sorted_head_end t s d Hs) as Hf. rewrite Forall_forall in Hf.
           specialize (Hf w Hw). pose proof (zlen_nonneg d). lia.
    + apply Forall_forall. intros x Hx. simpl. apply (Hle x (s, d) Hx). now left.
Qed.

Lemma fold_min_head (l : list img) m : Forall (fun c => m <= ioff c) l -> fold_left (fun m c => Z.min m (ioff c)) l m = m.
Proof.
  revert m; induction l as [|x t IH]; intros m H; [reflexivity|]. inversion H; subst. simpl.
  replace (Z.min m (ioff x)) with m by lia. auto.
Qed.

Definition seg_child (m : Z) (w : Z * list N) : img := Img (zlen (snd w)) 1 (fst w - m) (snd w) None [].

Lemma load_segments_shape offset segs : segs_sorted segs -> segs <> [] ->
  load_segments offset segs = Ok (Img 0 1 (offset + seg_base segs) [] None (map (seg_child (seg_base segs)) segs)).
Proof.
  intros Hs Hne. destruct segs as [|[s d] t]; [congruence|]. unfold load_segments.
  rewrite (fold_add_sorted ((s, d) :: t) 0 1 offset [] None [] Hs) by (intros ? ? []).
  f_equal. cbn [app update_offsets seg_base]. 
  assert (Hm : min_off (map seg_img ((s, d) :: t)) = s).
  { cbn [map min_off seg_img ioff fst]. apply fold_min_head.
    pose proof (segs_sorted_head_end t s d Hs) as Hf. apply Forall_forall. intros c Hc.
    apply in_map_iff in Hc. destruct Hc as (w & <- & Hw). rewrite Forall_forall in Hf. specialize (Hf w Hw).
    simpl. pose proof (zlen_nonneg d). lia. }
  rewrite Hm. f_equal. rewrite map_map. apply map_ext. intros [s' d']. reflexivity.
Qed.

Lemma ilen_seg_child m w : ilen (seg_child m w) = zlen (snd w).
Proof.
  unfold seg_child. rewrite ilen_unfold. destruct (zlen (snd w) =? 0) eqn:E; [|reflexivity].
  simpl. rewrite zalign_1 by apply zlen_nonneg. reflexivity.
Qed.

Lemma wf_seg_child m w : wf (seg_child m w).
Proof.
  unfold seg_child. constructor; simpl; auto; try lia; try apply zlen_nonneg.
Qed.

Lemma validate_seg_child m w : m <= fst w -> validate (seg_child m w) = true.
Proof.
  intros H. unfold seg_child. apply validate_inv. fold (seg_child m w). rewrite ilen_seg_child.
  split; [lia|]. split; [right; lia|]. split; [intros ? []|]. split; [intros ? []|]. simpl. constructor.
Qed.

Lemma export_seg_child m w : export (seg_child m w) = Ok (snd w).
Proof.
  destruct w as [s d]. simpl snd. destruct d as [|b t].
  - reflexivity.
  - unfold seg_child. rewrite export_unfold. fold (seg_child m (s, b :: t)). rewrite ilen_seg_child.
    cbv zeta. simpl snd. rewrite Z.eqb_refl. reflexivity.
Qed.

Lemma segs_extents_disj segs m : segs_sorted segs -> ForallOrdPairs disj (extents (map (seg_child m) segs)).
Proof.
  induction segs as [|[s d] t IH]; intros Hs; [constructor|].
  cbn [map extents]. fold (extents (map (seg_child m) t)). constructor.
  - pose proof (segs_sorted_head_end t s d Hs) as Hf. apply Forall_forall. intros x Hx.
    unfold extents in Hx. rewrite map_map in Hx. apply in_map_iff in Hx. destruct Hx as (w & <- & Hw).
    rewrite Forall_forall in Hf. specialize (Hf w Hw). left. rewrite ilen_seg_child. simpl in *. lia.
  - apply IH. eapply segs_sorted_tail; eauto.
Qed.

Lemma load_places_segments_lemma offset segs i :
  segs_sorted segs -> 0 <= offset + seg_base segs -> load_segments offset segs = Ok i ->
  ioff i = offset + seg_base segs /\ wf i /\ validate i = true /\
  exists b, export i = Ok b /\
            forall s d, In (s, d) segs ->
                        slice b (Z.to_nat (s - seg_base segs)) (Z.to_nat (s - seg_base segs + zlen d)) = d.
Proof.
  intros Hs Hoff Hload.
  assert (Hne : segs <> []) by (intros ->; discriminate).
  rewrite (load_segments_shape offset segs Hs Hne) in Hload. injection Hload as <-.
  assert (Hge : forall w, In w segs -> seg_base segs <= fst w).
  { destruct segs as [|[s d] t]; [congruence|]. intros w [<-|Hw]; [simpl; lia|].
    pose proof (segs_sorted_head_end t s d Hs) as Hf. rewrite Forall_forall in Hf. specialize (Hf w Hw).
    pose proof (zlen_nonneg d). simpl in *. lia. }
  set (m := seg_base segs) in *. set (kids := map (seg_child m) segs).
  assert (Hw : wf (Img 0 1 (offset + m) [] None kids)).
  { constructor; simpl; auto; try lia. intros c Hc. apply in_map_iff in Hc. destruct Hc as (w & <- & _). apply wf_seg_child. }
  assert (Hv : validate (Img 0 1 (offset + m) [] None kids) = true).
  { apply validate_inv. repeat split.
    - exact Hoff.
    - now left.
    - intros c Hc. apply in_map_iff in Hc. destruct Hc as (w & <- & Hin). apply validate_seg_child. auto.
    - intros c Hc. rewrite ilen_unfold. simpl. rewrite zalign_1.
      + apply max_ends_in. apply in_map_iff. now exists c.
      + apply max_ends_ge.
    - apply segs_extents_disj. exact Hs. }
  split; [reflexivity|]. split; [exact Hw|]. split; [exact Hv|].
  destruct (export_xbytes _ Hw Hv) as [Hb _]. eexists. split; [exact Hb|].
  intros s d Hin.
  assert (Hc : In (seg_child m (s, d)) (isubs (Img 0 1 (offset + m) [] None kids))).
  { simpl. apply in_map_iff. now exists (s, d). }
  destruct (export_places_children_lemma _ _ Hw Hv Hc) as (b & x & Hb' & Hx & _ & Hsl).
  rewrite Hb in Hb'. injection Hb' as <-. rewrite export_seg_child in Hx. injection Hx as <-.
  rewrite ilen_seg_child in Hsl. exact Hsl.
Qed.

Example load_example :
  exists i, load_segments 0 [(4096, [1;2;3]%N); (4100, [9]%N)] = Ok i /\ ioff i = 4096 /\
            export i = Ok [1;2;3;0;9]%N.
Proof. eexists. split; [reflexivity|]. split; reflexivity. Qed.

(* ================================================================== (8) HEX / S19 view = export *)
(* is position k of image i written by the HEX/S19 writer (given that an ancestor has already written data: f)? *)
Fixpoint covered (f : bool) (i : img) (k : Z) : bool :=
  match i with
  | Img sz al off bin pat subs =>
      f || has_pat pat || (k <? zlen bin)
      || existsb (fun c => (ioff c <=? k) && (k <? ioff c + ilen c)
                           && covered (f || has_pat pat || negb (isnil bin)) c (k - ioff c)) subs
  end.

Lemma covered_true c k : covered true c k = true.
Proof. destruct c. reflexivity. Qed.

Lemma writes_unfold f base sz al off bin pat subs :
  writes f base (Img sz al off bin pat subs) =
  (if (has_pat pat || f) && negb (ilen (Img sz al off bin pat subs) =? 0) then
     match pattern_block (pat_or_zeros pat) (Z.to_nat (ilen (Img sz al off bin pat subs))) with
     | Ok b => [(base + off, b)] | Err _ => [] end
   else [])
  ++ (if isnil bin then [] else [(base + off, bin)])
  ++ flat_map (writes (f || has_pat pat || negb (isnil bin)) (base + off)) subs.
Proof. reflexivity. Qed.

(* every non-empty write of a valid image lies inside the image's own extent *)
Lemma writes_within i : wf i -> validate i = true ->
  forall f base s d, In (s, d) (writes f base i) -> d <> [] ->
                     base + ioff i <= s /\ s + zlen d <= base + ioff i + ilen i.
Proof.
  induction i as [sz al off bin pat subs IH] using img_ind'. intros Hw Hv f base s d Hin Hne.
  rewrite Forall_forall in IH. pose proof (ilen_nonneg _ Hw) as HL0.
  pose proof Hw as Hw'. apply wf_inv in Hw'. destruct Hw' as (_ & _ & _ & Hp & Hsubs).
  pose proof Hv as Hv'. apply validate_inv in Hv'. destruct Hv' as (_ & Hbin & Hvc & Hfit & _).
  rewrite writes_unfold in Hin. set (L := ilen (Img sz al off bin pat subs)) in *. simpl ioff.
  apply in_app_or in Hin. destruct Hin as [Hin|Hin]; [|apply in_app_or in Hin; destruct Hin as [Hin|Hin]].
  - destruct ((has_pat pat || f) && negb (L =? 0)); [|destruct Hin].
    destruct (pattern_block (pat_or_zeros pat) (Z.to_nat L)) as [blk|] eqn:E; [|destruct Hin].
    destruct Hin as [Hin|[]]. injection Hin as <- <-. apply pattern_block_length in E. unfold zlen. lia.
  - destruct bin as [|b0 bt]; [destruct Hin|]. destruct Hin as [Hin|[]]. injection Hin as <- <-.
    destruct Hbin as [Hbin|Hbin]; [discriminate|]. lia.
  - apply in_flat_map in Hin. destruct Hin as (c & Hc & Hin).
    pose proof (IH c Hc (Hsubs c Hc) (Hvc c Hc) _ _ s d Hin Hne) as [H1 H2].
    pose proof (validate_off_nonneg c (Hvc c Hc)). pose proof (ilen_nonneg c (Hsubs c Hc)). pose proof (Hfit c Hc). lia.
Qed.

Lemma mem_at_outside i f base x cur : wf i -> validate i = true ->
  ~ (base + ioff i <= x < base + ioff i + ilen i) -> mem_at (writes f base i) x cur = cur.
Proof.
  intros Hw Hv Hx. apply mem_at_nocover. intros s d Hin Hc.
  assert (Hne : d <> []) by (intros ->; unfold zlen in Hc; simpl in Hc; lia).
  pose proof (writes_within i Hw Hv f base s d Hin Hne). lia.
Qed.

Definition in_range (k : Z) (c : img) : bool := (ioff c <=? k) && (k <? ioff c + ilen c).

(* among pairwise disjoint sub-images at most one contains position k: the view of the children's writes at k
   is the view of that sub-image's writes (or nothing) *)
Lemma children_view f a k subs :
  (forall c, In c subs -> wf c) -> (forall c, In c subs -> validate c = true) ->
  ForallOrdPairs disj (extents subs) ->
  forall cur0,
  (existsb (in_range k) subs = false ->
     mem_at (flat_map (writes f a) subs) (a + k) cur0 = cur0 /\
     existsb (fun c => in_range k c && covered f c (k - ioff c)) subs = false) /\
  (forall c, In c subs -> in_range k c = true ->
     mem_at (flat_map (writes f a) subs) (a + k) cur0 = mem_at (writes f a c) (a + k) cur0 /\
     existsb (fun c => in_range k c && covered f c (k - ioff c)) subs = in_range k c && covered f c (k - ioff c)).
Proof.
  induction subs as [|x t IHt]; intros Hsubs Hvc Hd cur0.
  - split; [intros _; split; reflexivity|intros c []].
  - simpl in Hd. inversion Hd as [|? ? Hf Ht]; subst. rewrite Forall_forall in Hf.
    assert (Hx : In x (x :: t)) by now left.
    assert (Hsubs' : forall c, In c t -> wf c) by (intros c Hc; apply Hsubs; now right).
    assert (Hvc' : forall c, In c t -> validate c = true) by (intros c Hc; apply Hvc; now right).
    cbn [flat_map existsb]. rewrite mem_at_app.
    assert (Hout : in_range k x = false -> mem_at (writes f a x) (a + k) cur0 = cur0).
    { intros E. apply mem_at_outside; auto. unfold in_range in E. lia. }
    split.
    + intros E. apply orb_false_iff in E. destruct E as [E1 E2]. rewrite (Hout E1), E1.
      destruct (IHt Hsubs' Hvc' Ht cur0) as [H1 _]. destruct (H1 E2) as [H1a H1b]. rewrite H1a, H1b. auto.
    + intros c [<-|Hc] Hr.
      * assert (E2 : existsb (in_range k) t = false).
        { destruct (existsb (in_range k) t) eqn:E; [|reflexivity]. apply existsb_exists in E.
          destruct E as (y & Hy & Hry). exfalso.
          assert (Hin : In (ioff y, ilen y) (extents t)) by (apply in_map_iff; now exists y).
          specialize (Hf _ Hin). unfold disj, in_range in *. simpl in Hf. lia. }
        destruct (IHt Hsubs' Hvc' Ht (mem_at (writes f a x) (a + k) cur0)) as [H1 _].
        destruct (H1 E2) as [H1a H1b]. rewrite H1a, H1b, orb_false_r. auto.
      * assert (E1 : in_range k x = false).
        { destruct (in_range k x) eqn:E; [|reflexivity]. exfalso.
          assert (Hin : In (ioff c, ilen c) (extents t)) by (apply in_map_iff; now exists c).
          specialize (Hf _ Hin). unfold disj, in_range in *. simpl in Hf. lia. }
        rewrite (Hout E1), E1. simpl.
        destruct (IHt Hsubs' Hvc' Ht cur0) as [_ H2]. exact (H2 c Hc Hr).
Qed.

Lemma hex_view_lemma i : wf i -> validate i = true ->
  forall f base k cur, 0 <= k < ilen i ->
  mem_at (writes f base i) (base + ioff i + k) cur = (if covered f i k then getz (xbytes i) k else cur) /\
  (covered f i k = false -> getz (xbytes i) k = Some 0%N).
Proof.
  induction i as [sz al off bin pat subs IH] using img_ind'. intros Hw Hv f base k cur Hk.
  rewrite Forall_forall in IH.
  destruct (export_valid _ Hw Hv) as (b & Hb & Hl & Hkk). unfold xbytes. rewrite Hb. rewrite Hkk by assumption.
  pose proof Hw as Hw'. apply wf_inv in Hw'. destruct Hw' as (_ & _ & _ & Hp & Hsubs).
  pose proof Hv as Hv'. apply validate_inv in Hv'. destruct Hv' as (_ & Hbin & Hvc & Hfit & Hdisj).
  rewrite writes_unfold. simpl ioff. simpl isubs.
  set (i := Img sz al off bin pat subs) in *. set (a := base + off).
  set (f' := f || has_pat pat || negb (isnil bin)).
  replace (negb (ilen i =? 0)) with true by lia. rewrite andb_true_r.
  destruct (pattern_block_ok (pat_or_zeros pat) (Z.to_nat (ilen i)) (pat_or_zeros_ok _ Hp)) as (blk & Eblk & Hblk).
  rewrite Eblk. rewrite !mem_at_app.
  (* value after the node's own block and binary *)
  set (cur0 := mem_at (if isnil bin then [] else [(a, bin)]) (a + k)
                 (mem_at (if has_pat pat || f then [(a, blk)] else []) (a + k) cur)).
  assert (Hfill : fill_block i = blk) by (unfold fill_block; simpl ipat; fold i; now rewrite Eblk).
  assert (Hcur0 : cur0 = if f || has_pat pat || (k <? zlen bin) then base_byte i k else cur).
  { unfold cur0, base_byte. simpl ibin. rewrite Hfill.
    assert (Hblkk : mem_at [(a, blk)] (a + k) cur = getz blk k).
    { cbn [mem_at]. replace ((a <=? a + k) && (a + k <? a + zlen blk)) with true by (unfold zlen; lia).
      replace (a + k - a) with k by lia. unfold getz. destruct (k <? 0) eqn:E0; [lia|reflexivity]. }
    destruct bin as [|b0 bt]; cbn [isnil].
    - replace (k <? zlen []) with false by (unfold zlen; simpl; lia). rewrite orb_false_r.
      cbn [mem_at]. rewrite (orb_comm f). destruct (has_pat pat || f); [exact Hblkk|reflexivity].
    - cbn [mem_at]. destruct (k <? zlen (b0 :: bt)) eqn:E.
      + rewrite orb_true_r. replace ((a <=? a + k) && (a + k <? a + zlen (b0 :: bt))) with true by lia.
        replace (a + k - a) with k by lia. unfold getz. destruct (k <? 0) eqn:E0; [lia|reflexivity].
      + rewrite orb_false_r. replace ((a <=? a + k) && (a + k <? a + zlen (b0 :: bt))) with false by lia.
        rewrite (orb_comm f). destruct (has_pat pat || f); [exact Hblkk|reflexivity]. }
  fold cur0. clearbody cur0.
  assert (Hcov : covered f i k = f || has_pat pat || (k <? zlen bin)
                 || existsb (fun c => in_range k c && covered f' c (k - ioff c)) subs) by reflexivity.
  rewrite Hcov.
  assert (Hxl : forall c, In c subs -> zlen (xbytes c) = ilen c) by (intros c Hc; apply export_xbytes; auto).
  destruct (children_view f' a k subs Hsubs Hvc Hdisj cur0) as [HA HB].
  destruct (existsb (in_range k) subs) eqn:Er.
  - (* exactly one sub-image contains k *)
    apply existsb_exists in Er. destruct Er as (c & Hc & Hr).
    destruct (HB c Hc Hr) as [H1 H2]. rewrite H1, H2, Hr. cbn [andb].
    assert (Hk' : 0 <= k - ioff c < ilen c) by (unfold in_range in Hr; lia).
    destruct (IH c Hc (Hsubs c Hc) (Hvc c Hc) f' a (k - ioff c) cur0 Hk') as [Hc1 Hc2].
    replace (a + ioff c + (k - ioff c)) with (a + k) in Hc1 by lia. rewrite Hc1.
    rewrite (mem_at_children subs Hxl Hdisj c k) by (auto; unfold in_range in Hr; lia).
    destruct (covered f' c (k - ioff c)) eqn:Ec.
    + rewrite orb_true_r. split; [reflexivity|discriminate].
    + rewrite orb_false_r.
      assert (Hf' : f' = false).
      { destruct f' eqn:E; [|reflexivity]. rewrite covered_true in Ec. discriminate. }
      unfold f' in Hf'. apply orb_false_iff in Hf'. destruct Hf' as [Hf' Hb']. apply orb_false_iff in Hf'.
      destruct Hf' as [Hf1 Hf2]. rewrite Hf1, Hf2 in *. destruct bin; [|discriminate]. cbn [orb] in *.
      replace (k <? zlen []) with false in * by (unfold zlen; simpl; lia).
      split; [exact Hcur0|]. intros _. apply Hc2. reflexivity.
  - (* no sub-image contains k *)
    destruct (HA eq_refl) as [H1 H2]. rewrite H1, H2, orb_false_r.
    rewrite mem_at_nocover.
    + split; [exact Hcur0|].
      intros E. apply orb_false_iff in E. destruct E as [E E3]. apply orb_false_iff in E. destruct E as [E1 E2].
      unfold base_byte. simpl ibin. rewrite E3, Hfill.
      destruct pat; [discriminate|]. cbn [pat_or_zeros pattern_block] in Eblk.
      assert (Hz : blk = repeat 0%N (Z.to_nat (ilen i))) by congruence. rewrite Hz. apply getz_repeat. lia.
    + intros s d Hsd. unfold cwrites in Hsd. apply in_map_iff in Hsd. destruct Hsd as (c & Hcc & Hin).
      injection Hcc as <- <-. rewrite (Hxl c Hin).
      assert (in_range k c = false).
      { destruct (in_range k c) eqn:E; [|reflexivity]. exfalso.
        assert (existsb (in_range k) subs = true) by (apply existsb_exists; eauto). congruence. }
      unfold in_range in H. lia.
Qed.

(* the former witness of finding C16-F1 (repaired in /repo): the HEX view now equals export() *)
Definition f1_witness : img := Img 16 1 4096 [] (Some POnes) [Img 8 1 4 [170; 187]%N None []].

Example f1_witness_repaired :
  mem_at (writes false 0 f1_witness) (0 + ioff f1_witness + 6) None = Some 0%N /\
  getz (xbytes f1_witness) 6 = Some 0%N.
Proof. split; reflexivity. Qed.

(* ================================================================== (9) memory -> segments (maximal runs) *)
Lemma group_cons_some a b t :
  group a (Some b :: t) =
  match group (a + 1) t with
  | (s, d) :: r => if s =? a + 1 then (a, b :: d) :: r else (a, [b]) :: (s, d) :: r
  | [] => [(a, [b])]
  end.
Proof. reflexivity. Qed.

Lemma group_props l : forall a,
  segs_sorted (group a l) /\
  (forall s d, In (s, d) (group a l) ->
     a <= s /\ d <> [] /\
     forall j, (j < length d)%nat -> nth_error l (Z.to_nat (s - a) + j) = Some (nth_error d j)).
Proof.
  induction l as [|[b|] t IH]; intros a.
  - simpl. split; [constructor|intros ? ? []].
  - rewrite group_cons_some. destruct (IH (a + 1)) as [Hs Hp].
    destruct (group (a + 1) t) as [|[s0 d0] r] eqn:Eg.
    + split; [constructor|]. intros s d [Hin|[]]. injection Hin as <- <-.
      split; [lia|]. split; [discriminate|]. intros j Hj. simpl in Hj. replace j with 0%nat by lia.
      rewrite Z.sub_diag. reflexivity.
    + destruct (Hp s0 d0 (or_introl eq_refl)) as (H0a & H0b & H0c).
      destruct (s0 =? a + 1) eqn:E.
      * assert (s0 = a + 1) as -> by lia. split.
        -- inversion Hs as [| |? ? ? ? ? Hle Hs']; subst; constructor; auto.
           unfold zlen in *. simpl length. lia.
        -- intros s d [Hin|Hin].
           ++ injection Hin as <- <-. split; [lia|]. split; [discriminate|].
              intros [|j] Hj; rewrite Z.sub_diag; [reflexivity|]. simpl in Hj.
              specialize (H0c j ltac:(lia)). rewrite Z.sub_diag in H0c. simpl in *. exact H0c.
           ++ destruct (Hp s d (or_intror Hin)) as (H1 & H2 & H3). split; [lia|]. split; [exact H2|].
              intros j Hj. specialize (H3 j Hj).
              replace (Z.to_nat (s - a) + j)%nat with (S (Z.to_nat (s - (a + 1)) + j)) by lia. exact H3.
      * split.
        -- constructor; [unfold zlen; simpl; lia|exact Hs].
        -- intros s d [Hin|Hin].
           ++ injection Hin as <- <-. split; [lia|]. split; [discriminate|].
              intros j Hj. simpl in Hj. replace j with 0%nat by lia. rewrite Z.sub_diag. reflexivity.
           ++ destruct (Hp s d Hin) as (H1 & H2 & H3). split; [lia|]. split; [exact H2|].
              intros j Hj. specialize (H3 j Hj).
              replace (Z.to_nat (s - a) + j)%nat with (S (Z.to_nat (s - (a + 1)) + j)) by lia. exact H3.
  - simpl. destruct (IH (a + 1)) as [Hs Hp]. split; [exact Hs|].
    intros s d Hin. destruct (Hp s d Hin) as (H1 & H2 & H3). split; [lia|]. split; [exact H2|].
    intros j Hj. specialize (H3 j Hj).
    replace (Z.to_nat (s - a) + j)%nat with (S (Z.to_nat (s - (a + 1)) + j)) by lia. exact H3.
Qed.

Lemma group_complete l : forall a n b, nth_error l n = Some (Some b) ->
  exists s d, In (s, d) (group a l) /\ s <= a + Z.of_nat n < s + zlen d.
Proof.
  induction l as [|[b0|] t IH]; intros a n b Hn.
  - destruct n; discriminate.
  - rewrite group_cons_some. destruct n as [|n].
    + destruct (group (a + 1) t) as [|[s0 d0] r]; [|destruct (s0 =? a + 1)];
        eexists; eexists; (split; [left; reflexivity|]); unfold zlen; simpl length; lia.
    + simpl in Hn. destruct (IH (a + 1) n b Hn) as (s & d & Hin & Hr).
      destruct (group (a + 1) t) as [|[s0 d0] r]; [destruct Hin|].
      destruct (s0 =? a + 1) eqn:E.
      * destruct Hin as [Hin|Hin].
        -- injection Hin as <- <-. exists a, (b0 :: d0). split; [now left|]. unfold zlen in *. simpl length. lia.
        -- exists s, d. split; [now right|lia].
      * exists s, d. split; [now right|lia].
  - destruct n as [|n]; [discriminate|]. simpl in Hn.
    destruct (IH (a + 1) n b Hn) as (s & d & Hin & Hr). exists s, d. split; [exact Hin|lia].
Qed.

Lemma nth_error_scan ws fuel a n :
  nth_error (scan ws fuel a) n = if Nat.ltb n fuel then Some (mem_at ws (a + Z.of_nat n) None) else None.
Proof.
  revert a n; induction fuel as [|f IH]; intros a n.
  - destruct n; reflexivity.
  - destruct n as [|n]; simpl scan.
    + simpl. f_equal. f_equal. lia.
    + cbn [nth_error]. rewrite IH. replace (Nat.ltb (S n) (S f)) with (Nat.ltb n f) by reflexivity.
      destruct (Nat.ltb n f); [|reflexivity]. f_equal. f_equal. lia.
Qed.

(* every byte of every segment is the content of the memory at that address; segments are sorted and separated *)
Lemma segments_sound_lemma ws :
  segs_sorted (segments ws) /\
  forall s d, In (s, d) (segments ws) ->
    d <> [] /\ forall j, 0 <= j < zlen d -> mem_at ws (s + j) None = getz d j /\ getz d j <> None.
Proof.
  unfold segments. cbv zeta. set (lo := ws_lo (nonempty_ws ws)).
  set (fuel := Z.to_nat (ws_hi (nonempty_ws ws) - lo)).
  destruct (group_props (scan ws fuel lo) lo) as [Hs Hp]. split; [exact Hs|].
  intros s d Hin. destruct (Hp s d Hin) as (H1 & H2 & H3). split; [exact H2|].
  intros j Hj. unfold zlen in Hj. specialize (H3 (Z.to_nat j) ltac:(lia)).
  rewrite nth_error_scan in H3.
  destruct (Nat.ltb (Z.to_nat (s - lo) + Z.to_nat j) fuel); [|discriminate].
  injection H3 as H3. replace (lo + Z.of_nat (Z.to_nat (s - lo) + Z.to_nat j)) with (s + j) in H3 by lia.
  unfold getz. destruct (j <? 0) eqn:E; [lia|]. split; [exact H3|].
  apply nth_error_Some. lia.
Qed.

Lemma mem_at_some ws x : forall cur b, mem_at ws x cur = Some b ->
  cur = Some b \/ exists s d, In (s, d) ws /\ s <= x < s + zlen d.
Proof.
  induction ws as [|[s d] t IH]; intros cur b H; simpl in H; [now left|].
  destruct (IH _ _ H) as [Hc|(s' & d' & Hin & Hr)].
  - destruct ((s <=? x) && (x <? s + zlen d)) eqn:E; [|now left].
    right. exists s, d. split; [now left|lia].
  - right. exists s', d'. split; [now right|exact Hr].
Qed.

Lemma fold_min_bound (l : list (Z * list N)) : forall m,
  fold_left (fun m w => Z.min m (fst w)) l m <= m /\
  forall w, In w l -> fold_left (fun m w => Z.min m (fst w)) l m <= fst w.
Proof.
  induction l as [|x t IH]; intros m; simpl; [split; [lia|intros ? []]|].
  destruct (IH (Z.min m (fst x))) as [H1 H2]. split; [lia|].
  intros w [<-|Hw]; [lia|auto].
Qed.

Lemma fold_max_bound (l : list (Z * list N)) : forall m,
  m <= fold_left (fun m w => Z.max m (fst w + zlen (snd w))) l m /\
  forall w, In w l -> fst w + zlen (snd w) <= fold_left (fun m w => Z.max m (fst w + zlen (snd w))) l m.
Proof.
  induction l as [|x t IH]; intros m; simpl; [split; [lia|intros ? []]|].
  destruct (IH (Z.max m (fst x + zlen (snd x)))) as [H1 H2]. split; [lia|].
  intros w [<-|Hw]; [lia|auto].
Qed.

Lemma ws_bounds ws s d : In (s, d) ws -> ws_lo ws <= s /\ s + zlen d <= ws_hi ws.
Proof.
  destruct ws as [|[s0 d0] t]; [intros []|]. intros Hin. unfold ws_lo, ws_hi.
  destruct (fold_min_bound t s0) as [H1 H2]. destruct (fold_max_bound t (s0 + zlen d0)) as [H3 H4].
  destruct Hin as [Hin|Hin].
  - injection Hin as <- <-. lia.
  - specialize (H2 _ Hin). specialize (H4 _ Hin). simpl in *. lia.
Qed.

(* every defined address belongs to a segment *)
Lemma segments_complete_lemma ws x b : mem_at ws x None = Some b ->
  exists s d, In (s, d) (segments ws) /\ s <= x < s + zlen d.
Proof.
  intros H. destruct (mem_at_some ws x None b H) as [Hc|(s0 & d0 & Hin & Hr)]; [discriminate|].
  assert (Hin' : In (s0, d0) (nonempty_ws ws)).
  { unfold nonempty_ws. apply filter_In. split; [exact Hin|]. simpl. destruct d0; [unfold zlen in Hr; simpl in Hr; lia|reflexivity]. }
  destruct (ws_bounds (nonempty_ws ws) s0 d0 Hin') as [Hlo Hhi].
  unfold segments. cbv zeta. set (lo := ws_lo (nonempty_ws ws)) in *. set (fuel := Z.to_nat (ws_hi (nonempty_ws ws) - lo)).
  destruct (group_complete (scan ws fuel lo) lo (Z.to_nat (x - lo)) b) as (s & d & Hin2 & Hr').
  - rewrite nth_error_scan. replace (Nat.ltb (Z.to_nat (x - lo)) fuel) with true by (symmetry; apply Nat.ltb_lt; lia).
    f_equal. rewrite <- H. f_equal. lia.
  - exists s, d. split; [exact Hin2|lia].
Qed.

(* ================================================================== (10) append_image: at the current end, never overlapping *)
Lemma validate_set_off c o : validate c = true -> 0 <= o -> validate (set_off c o) = true.
Proof.
  destruct c as [sz al off bin pat subs]. intros Hv Ho. simpl set_off.
  apply validate_inv in Hv. apply validate_inv.
  change (ilen (Img sz al o bin pat subs)) with (ilen (Img sz al off bin pat subs)). tauto.
Qed.

Lemma fop_insert {A} (R : A -> A -> Prop) (c : A) l1 : forall l2,
  ForallOrdPairs R (l1 ++ l2) -> (forall x, In x (l1 ++ l2) -> R x c /\ R c x) ->
  ForallOrdPairs R (l1 ++ c :: l2).
Proof.
  induction l1 as [|h t IH]; intros l2 Hf Hc; simpl in *.
  - constructor; [|exact Hf]. apply Forall_forall. intros x Hx. now apply Hc.
  - inversion Hf as [|? ? Hh Ht]; subst. constructor.
    + rewrite Forall_forall in *. intros x Hx. apply in_app_or in Hx. destruct Hx as [Hx|[<-|Hx]].
      * apply Hh. apply in_or_app. now left.
      * apply Hc. now left.
      * apply Hh. apply in_or_app. now right.
    + apply IH; auto.
Qed.

Lemma append_image_valid_lemma p c :
  wf p -> wf c -> isz p = 0 -> validate p = true -> validate c = true ->
  validate (append_image p c) = true /\
  In (set_off c (ilen p)) (isubs (append_image p c)) /\ ioff (set_off c (ilen p)) = ilen p.
Proof.
  intros Hwp Hwc Hsz Hvp Hvc. pose proof (ilen_nonneg p Hwp) as HL0.
  set (c' := set_off c (ilen p)).
  assert (Hoff : ioff c' = ilen p) by (unfold c'; destruct c; reflexivity).
  assert (Hvc' : validate c' = true) by (apply validate_set_off; auto).
  assert (Hlen : ilen c' = ilen c) by apply ilen_set_off.
  destruct p as [sz al off bin pat subs]. simpl in Hsz. subst sz.
  unfold append_image. fold c'. simpl add_image. simpl isubs.
  destruct (insert_img_split c' subs) as (l1 & l2 & Hsubs & Hins & _ & _).
  split; [|split; [rewrite Hins; apply in_or_app; right; now left|exact Hoff]].
  pose proof Hwp as Hwp'. apply wf_inv in Hwp'. destruct Hwp' as (Hal & _ & _ & _ & _).
  apply validate_inv in Hvp. destruct Hvp as (H1 & H2 & H3 & H4 & H5).
  set (L := ilen (Img 0 al off bin pat subs)) in *.
  apply validate_inv. set (L' := ilen (Img 0 al off bin pat (insert_img c' subs))).
  assert (HL' : forall x, In x (insert_img c' subs) -> ioff x + ilen x <= L').
  { intros x Hx. unfold L'. rewrite ilen_unfold. simpl.
    pose proof (max_ends_ge (extents (insert_img c' subs)) (zlen bin)). pose proof (zlen_nonneg bin).
    pose proof (max_ends_in (extents (insert_img c' subs)) (zlen bin) (ioff x) (ilen x)
                  ltac:(apply in_map_iff; now exists x)).
    pose proof (zalign_spec (max_ends (extents (insert_img c' subs)) (zlen bin)) al ltac:(lia) ltac:(lia)). lia. }
  repeat split.
  - exact H1.
  - right. unfold L'. rewrite ilen_unfold. simpl.
    pose proof (max_ends_ge (extents (insert_img c' subs)) (zlen bin)). pose proof (zlen_nonneg bin).
    pose proof (zalign_spec (max_ends (extents (insert_img c' subs)) (zlen bin)) al ltac:(lia) ltac:(lia)). lia.
  - intros x Hx. apply in_insert_img in Hx. destruct Hx as [->|Hx]; auto.
  - exact HL'.
  - rewrite Hins. unfold extents. rewrite map_app. cbn [map]. apply fop_insert.
    + rewrite <- map_app, <- Hsubs. exact H5.
    + intros x Hx. rewrite <- map_app, <- Hsubs in Hx. apply in_map_iff in Hx. destruct Hx as (y & <- & Hy).
      specialize (H4 y Hy). unfold disj. simpl. rewrite Hoff. fold L. split; [left|right]; lia.
Qed.

(* ================================================================== the hypotheses are satisfiable (non-trivial instance) *)
Definition ex_spec : spec :=
  Spec 0 4 256 [1; 2]%N (Some PInc)
       [(false, Spec 0 1 4 [9; 9; 9]%N None [(false, Spec 0 1 1 [7]%N (Some POnes) [])]);
        (true, Spec 2 2 0 [] (Some (PNum 4660)) [])].

Example ex_nonvacuous :
  exists i, build ex_spec = Ok i /\ wf i /\ validate i = true /\ ilen i = 12 /\
            export i = Ok [1; 2; 2; 3; 9; 7; 9; 7; 18; 52; 10; 11]%N.
Proof.
  eexists. split; [reflexivity|]. split.
  - apply (build_wf ex_spec); [|reflexivity]. simpl. repeat split; lia.
  - split; [reflexivity|]. split; reflexivity.
Qed.

(* a sparse image: positions 0..1 are not written to the HEX file, position 2 is *)
Example ex_sparse :
  exists i, wf i /\ validate i = true /\ covered false i 0 = false /\ covered false i 2 = true /\ isubs i <> [].
Proof.
  exists (Img 8 1 0 [] None [Img 0 1 2 [5; 6]%N (Some PZeros) []]). split.
  - constructor; simpl; auto; try lia. intros c [<-|[]]. constructor; simpl; auto; try lia.
  - split; [reflexivity|]. split; [reflexivity|]. split; [reflexivity|discriminate].
Qed.

(* ================================================================== statements exactly as used in Props/C16 *)
Lemma hex_view_is_export_full (i : img) (f : bool) (base : Z) : wf i -> validate i = true ->
  (forall k cur, 0 <= k < ilen i ->
     exists b, export i = Ok b /\
               mem_at (writes f base i) (base + ioff i + k) cur = (if covered f i k then getz b k else cur) /\
               (covered f i k = false -> getz b k = Some 0%N)) /\
  (forall x cur, ~ (base + ioff i <= x < base + ioff i + ilen i) -> mem_at (writes f base i) x cur = cur).
Proof.
  intros Hw Hv. split.
  - intros k cur Hk. exists (xbytes i). split; [apply (export_xbytes i Hw Hv)|].
    destruct (hex_view_lemma i Hw Hv f base k cur Hk) as [H1 H2].
    unfold xbytes in *. destruct (export_xbytes i Hw Hv) as [He _]. rewrite He in *. auto.
  - intros x cur Hx. exact (mem_at_outside i f base x cur Hw Hv Hx).
Qed.

(* an image whose root has a pattern (what load_from_config builds) is written completely *)
Lemma covered_root_pattern f i k : ipat i <> None -> covered f i k = true.
Proof. destruct i as [sz al off bin [p|] subs]; simpl; [intros _; now rewrite orb_true_r|congruence]. Qed.

Lemma segments_sound_full (ws : list (Z * list N)) :
  segs_sorted (segments ws) /\
  (forall s d, In (s, d) (segments ws) ->
     d <> [] /\ forall j, 0 <= j < zlen d -> mem_at ws (s + j) None = getz d j /\ getz d j <> None) /\
  (forall x b, mem_at ws x None = Some b -> exists s d, In (s, d) (segments ws) /\ s <= x < s + zlen d).
Proof.
  destruct (segments_sound_lemma ws) as [H1 H2]. split; [exact H1|]. split; [exact H2|].
  intros x b H. exact (segments_complete_lemma ws x b H).
Qed.

Lemma export_fill_full (i : img) (k : Z) : wf i -> validate i = true -> 0 <= k < ilen i ->
  (forall c, In c (isubs i) -> ~ (ioff c <= k < ioff c + ilen c)) ->
  (exists b, export i = Ok b /\
             getz b k = (if k <? zlen (ibin i) then getz (ibin i) k else getz (fill_block i) k)) /\
  match ipat i with
  | None | Some PZeros => getz (fill_block i) k = Some 0%N
  | Some POnes => getz (fill_block i) k = Some 255%N
  | Some PInc => getz (fill_block i) k = Some (Z.to_N (k mod 256))
  | Some (PNum _) => True
  end.
Proof. intros Hw Hv Hk Hn. split; [exact (export_fill_lemma i k Hw Hv Hk Hn)|exact (fill_byte_named i k Hk)]. Qed.

Lemma validate_nonempty_bytes_full b1 l1 b2 l2 L : 0 < l1 -> 0 < l2 ->
  (no_overlap (b1, l1) (b2, l2) = true <-> ~ exists x, (b1 <= x < b1 + l1) /\ (b2 <= x < b2 + l2)) /\
  (fits_in L (b1, l1) = true <-> forall x, b1 <= x < b1 + l1 -> x < L).
Proof. intros H1 H2. split; [now apply extent_disjoint_bytes|now apply extent_inside_bytes]. Qed.

Lemma add_image_sorted_full (p c : img) : Sorted off_le (isubs p) ->
  Sorted off_le (isubs (add_image p c)) /\ Permutation (c :: isubs p) (isubs (add_image p c)) /\
  exists l1 l2, isubs p = l1 ++ l2 /\ isubs (add_image p c) = l1 ++ c :: l2 /\
                Forall (fun x => ioff x <= ioff c) l1 /\
                match l2 with x :: _ => ioff c < ioff x | [] => True end.
Proof. intros H. destruct (add_image_sorted_lemma p c H). repeat split; auto. apply add_image_stable_lemma. Qed.

(* sanity: the repaired D11 shape *)
Example ex_d11_shape :
  (* BinaryImage("a", size=4, binary=8 bytes): len 4, validate raises (D11 repaired), export still 8 bytes *)
  run_case 1 [VList [VInt 4; VInt 1; VInt 0; VBytes [0;1;2;3;4;5;6;7]%N; VList []; VList []]]
  = VList [VInt 4; VInt 0; VBytes [0;1;2;3;4;5;6;7]%N; VList [VList [VInt 0; VInt 4]]].
Proof. vm_compute. reflexivity. Qed.
