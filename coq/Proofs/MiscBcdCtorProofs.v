(* Proofs/MiscBcdCtorProofs.v -- C20: what BcdVersion3 accepts, stated on the nibbles.  The constructor accepts exactly
   triples of valid BCD components; a version text whose components are written as 1..4 hex digits is accepted exactly
   when every digit is decimal (so a hex letter in ANY position -- leading, inner, last -- is rejected with Err 1). *)
From Coq Require Import ZArith NArith List Bool Lia ZifyBool.
Require Import Value Bytes BytesProofs GenMisc MiscModel MiscExtModel MiscProofs MiscBcdProofs.
Import ListNotations.
Local Open Scope Z_scope.

(* ---------------------------------------------------------------- constructor *)
Lemma bcd_new_iff_l x y z :
  (bcd_valid x /\ bcd_valid y /\ bcd_valid z -> bcd_new x y z = Ok (x, y, z)) /\
  (~ (bcd_valid x /\ bcd_valid y /\ bcd_valid z) -> bcd_new x y z = Err 1%N) /\
  (forall v, bcd_new x y z = Ok v -> v = (x, y, z) /\ bcd_valid x /\ bcd_valid y /\ bcd_valid z).
Proof.
  unfold bcd_new.
  destruct (bcd_check x) eqn:Ex, (bcd_check y) eqn:Ey, (bcd_check z) eqn:Ez;
    (split; [intros (A & B & C); apply bcd_check_valid in A, B, C; congruence
            |split; [intros Hn; try reflexivity; exfalso; apply Hn; repeat split; apply bcd_check_valid; assumption
                    |intros w Hw; try discriminate; injection Hw as <-;
                     repeat split; try reflexivity; apply bcd_check_valid; assumption]]).
Qed.

(* a valid component is at most 4 nibbles, all decimal: stated with div/mod, independent of the model's bit operations *)
Lemma bcd_valid_nibbles v : bcd_valid v <->
  (0 <= v < 16 ^ 4 /\ v mod 16 <= 9 /\ (v / 16) mod 16 <= 9 /\ (v / 256) mod 16 <= 9 /\ (v / 4096) mod 16 <= 9).
Proof.
  unfold bcd_valid. change (16 ^ 4) with 65536. split.
  - intros (d3 & d2 & d1 & d0 & H3 & H2 & H1 & H0 & ->). lia.
  - intros (Hr & H0 & H1 & H2 & H3).
    exists ((v / 4096) mod 16), ((v / 256) mod 16), ((v / 16) mod 16), (v mod 16). lia.
Qed.

Lemma to_version_is_from_str s : bcd_to_version s = bcd_from_str s.
Proof.
  unfold bcd_to_version. destruct (bcd_from_str s) as [[[x y] z]|e] eqn:E; [|reflexivity].
  destruct (bcd_from_str_accepts_only_l s x y z E) as (Hx & Hy & Hz & _).
  now apply (proj1 (bcd_new_iff_l x y z)).
Qed.

(* ---------------------------------------------------------------- texts made of hex digits *)
Definition hex_ch (c : N) : Prop := (48 <= c <= 57)%N \/ (65 <= c <= 70)%N \/ (97 <= c <= 102)%N.
Definition hex_str (a : list N) : Prop := (1 <= length a <= 4)%nat /\ Forall hex_ch a.

Definition hexs : list N := [48; 49; 50; 51; 52; 53; 54; 55; 56; 57; 65; 66; 67; 68; 69; 70; 97; 98; 99; 100; 101; 102]%N.
Lemma in_hexs c : hex_ch c -> In c hexs.
Proof.
  intros H. unfold hex_ch in H.
  assert (E : (c = 48 \/ c = 49 \/ c = 50 \/ c = 51 \/ c = 52 \/ c = 53 \/ c = 54 \/ c = 55 \/ c = 56 \/ c = 57 \/
               c = 65 \/ c = 66 \/ c = 67 \/ c = 68 \/ c = 69 \/ c = 70 \/
               c = 97 \/ c = 98 \/ c = 99 \/ c = 100 \/ c = 101 \/ c = 102)%N) by lia.
  unfold hexs. cbn [In]. intuition.
Qed.

(* either all digits are decimal, or the component is rejected with the SPSDK error class *)
Definition hex_ok (a : list N) : bool :=
  if forallb is_digit a then true
  else match bcd_num_from_str a with Err 1%N => true | _ => false end.

Lemma hex_sweep :
  forallb (fun c1 => hex_ok [c1] &&
    forallb (fun c2 => hex_ok [c1; c2] &&
      forallb (fun c3 => hex_ok [c1; c2; c3] &&
        forallb (fun c4 => hex_ok [c1; c2; c3; c4]) hexs) hexs) hexs) hexs = true.
Proof. vm_compute. reflexivity. Qed.

Lemma hex_str_ok a : hex_str a -> hex_ok a = true.
Proof.
  intros [Hl Hf]. pose proof hex_sweep as S. rewrite forallb_forall in S.
  destruct a as [|c1 a]; [simpl in Hl; lia|]. inversion Hf as [|? ? H1 Hf1]; subst.
  specialize (S c1 (in_hexs c1 H1)). apply andb_true_iff in S as [S1 S].
  destruct a as [|c2 a]; [exact S1|]. inversion Hf1 as [|? ? H2 Hf2]; subst.
  rewrite forallb_forall in S. specialize (S c2 (in_hexs c2 H2)). apply andb_true_iff in S as [S2 S].
  destruct a as [|c3 a]; [exact S2|]. inversion Hf2 as [|? ? H3 Hf3]; subst.
  rewrite forallb_forall in S. specialize (S c3 (in_hexs c3 H3)). apply andb_true_iff in S as [S3 S].
  destruct a as [|c4 a]; [exact S3|]. inversion Hf3 as [|? ? H4 Hf4]; subst.
  rewrite forallb_forall in S. specialize (S c4 (in_hexs c4 H4)).
  destruct a as [|c5 a]; [exact S|]. simpl in Hl. lia.
Qed.

Lemma hex_str_nodot a : hex_str a -> nodot a.
Proof. intros [_ Hf] ch Hin ->. rewrite Forall_forall in Hf. specialize (Hf _ Hin). unfold hex_ch in Hf. lia. Qed.

Lemma hex_component a : hex_str a -> dec_str a \/ bcd_num_from_str a = Err 1%N.
Proof.
  intros H. pose proof (hex_str_ok a H) as S. unfold hex_ok in S.
  destruct (forallb is_digit a) eqn:E.
  - left. destruct H as [Hl _]. split; [exact Hl|]. rewrite forallb_forall in E. apply Forall_forall.
    intros ch Hin. specialize (E _ Hin). unfold is_digit, nle in E. lia.
  - right. destruct (bcd_num_from_str a) as [v|k]; [discriminate|].
    destruct k as [|p]; [discriminate|]. destruct p; try discriminate. reflexivity.
Qed.

Lemma bcd_from_str_hex_components_l a b c : hex_str a -> hex_str b -> hex_str c ->
  ((exists v, bcd_from_str (dotted a b c) = Ok v) <-> (dec_str a /\ dec_str b /\ dec_str c)) /\
  (~ (dec_str a /\ dec_str b /\ dec_str c) -> bcd_from_str (dotted a b c) = Err 1%N).
Proof.
  intros Ha Hb Hc.
  assert (Hd : dec_str a /\ dec_str b /\ dec_str c -> exists v, bcd_from_str (dotted a b c) = Ok v).
  { intros (Da & Db & Dc). destruct (bcd_from_str_documented_l a b c Da Db Dc) as (E & _). eexists; exact E. }
  assert (Hr : ~ (dec_str a /\ dec_str b /\ dec_str c) -> bcd_from_str (dotted a b c) = Err 1%N).
  { intros Hn. rewrite bcd_from_dotted by (now apply hex_str_nodot).
    destruct (hex_component a Ha) as [Da|Ea]; [|now rewrite Ea].
    destruct (dec_str_component a Da) as (Ea & _). rewrite Ea.
    destruct (hex_component b Hb) as [Db|Eb]; [|now rewrite Eb].
    destruct (dec_str_component b Db) as (Eb & _). rewrite Eb.
    destruct (hex_component c Hc) as [Dc|Ec]; [|now rewrite Ec].
    exfalso. apply Hn. auto. }
  split; [|exact Hr]. split; [|exact Hd].
  intros [v Hv].
  destruct (hex_component a Ha) as [Da|Ea]; destruct (hex_component b Hb) as [Db|Eb];
    destruct (hex_component c Hc) as [Dc|Ec]; auto;
    rewrite Hr in Hv by (intros (Xa & Xb & Xc);
      try (destruct (dec_str_component a Xa) as (Y & _); congruence);
      try (destruct (dec_str_component b Xb) as (Y & _); congruence);
      try (destruct (dec_str_component c Xc) as (Y & _); congruence)); discriminate.
Qed.

(* the hypotheses are satisfiable, and the shapes of the missed seeded change are covered *)
Example hex_ex1 : hex_str [49; 65]%N /\ ~ dec_str [49; 65]%N.                          (* "1A" *)
Proof. split; [split; [cbn; lia|repeat constructor; unfold hex_ch; lia]|]. intros [_ H]. inversion H as [|? ? _ H']. inversion H' as [|? ? X _]. lia. Qed.
Example hex_ex2 : bcd_from_str [49; 65; 46; 48; 46; 48]%N = Err 1%N                     (* "1A.0.0" *)
               /\ bcd_from_str [49; 46; 50; 98; 46; 51]%N = Err 1%N                     (* "1.2b.3" *)
               /\ bcd_from_str [57; 70; 57; 57; 46; 48; 46; 48]%N = Err 1%N             (* "9F99.0.0" *)
               /\ bcd_new 0x1A 0 0 = Err 1%N /\ bcd_new 0x9999 0x9999 0x9999 = Ok (0x9999, 0x9999, 0x9999).
Proof. vm_compute. repeat split; reflexivity. Qed.

Print Assumptions bcd_new_iff_l.
Print Assumptions bcd_valid_nibbles.
Print Assumptions bcd_from_str_hex_components_l.
Print Assumptions to_version_is_from_str.
